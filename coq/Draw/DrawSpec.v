(** C11 — specification side: what "repetition" and "50-move rule" mean, independently of the
    loop in Search::canClaimDrawRep and of the Game code.

    Two levels:
    - hash-list level (used by C11_rep_iff): which entries of the list the rule looks at;
    - position level (used by C11_third_occurrence, C11_window_complete, C11_game_adjudication):
      "the current position has occurred k times among the positions since the last
      irreversible move", for an abstract type of draw-rule positions (equality of that type =
      Position::drawRuleEquals: piece placement, side to move, castling rights, e.p. square). *)
From Coq Require Import ZArith NArith List Bool Lia.
From Texel Require Import Draw.Draw.
Import ListNotations.
Local Open Scope Z_scope.

(** * Hash-list level *)

(** entry [i] of the list holds hash [h] *)
Definition hitAt (l : list N) (h : N) (i : Z) : Prop :=
  0 <= i /\ nth_error l (Z.to_nat i) = Some h.

(** [i] is inside the half-move-clock window of a list with [size] entries: not before the
    position that followed the last clock-zeroing move *)
Definition inClockWindow (hmc size i : Z) : Prop := Z.max 0 (size - hmc) <= i < size.

(** [i] is a candidate looked at by the repetition test: in the clock window, same side to
    move as the current position (even distance from index [size]) and at least four plies
    back *)
Definition candidate (hmc size i : Z) : Prop :=
  inClockWindow hmc size i /\ i <= size - 4 /\ Z.even (size - i) = true.

(** The condition of theorem C11_rep_iff: among the candidates the current hash occurs at an
    index >= firstNew (i.e. inside the search tree), or at least twice. *)
Definition repCondition (hmc : Z) (h : N) (l : list N) (size firstNew : Z) : Prop :=
  (exists i, candidate hmc size i /\ hitAt l h i /\ firstNew <= i) \/
  (exists i j, i < j /\ candidate hmc size i /\ candidate hmc size j /\ hitAt l h i /\ hitAt l h j).

(** The same condition as an executable function that does not walk like the loop (filter over
    all indices in ascending order); used as the oracle of the finder. *)
Definition candidateb (hmc size i : Z) : bool :=
  (Z.max 0 (size - hmc) <=? i) && (i <? size) && (i <=? size - 4) && Z.even (size - i).

Definition hitb (l : list N) (h : N) (i : Z) : bool :=
  match nth_error l (Z.to_nat i) with Some e => N.eqb e h | None => false end.

Definition hits (hmc : Z) (h : N) (l : list N) (size : Z) : list Z :=
  filter (fun i => candidateb hmc size i && hitb l h i) (map Z.of_nat (seq 0 (length l))).

Definition repSpecb (hmc : Z) (h : N) (l : list N) (size firstNew : Z) : bool :=
  existsb (fun i => firstNew <=? i) (hits hmc h l size) || (2 <=? Z.of_nat (length (hits hmc h l size))).

(** * 50-move rule with the mate exception *)

Inductive verdict := VDraw | VMated | VNone.

(** [mated] = side to move is in check and has no legal move.  100 half-moves without capture
    or pawn move give a draw, except that a mate delivered by the last of them stands. *)
Definition fiftySpec (hmc : Z) (mated : bool) : verdict :=
  if 100 <=? hmc then (if mated then VMated else VDraw) else VNone.

(** the score the search must give to a node with that verdict at [ply] *)
Definition verdictScore (v : verdict) (ply : Z) : option Z :=
  match v with
  | VDraw => Some 0
  | VMated => Some (- (MATE0 - (ply + 1)))
  | VNone => None
  end.

(** * History list: the hashes since the last zeroing move *)

(** longest suffix of the step list without a zeroing move; the hashes stored in it are those
    of the positions from the one right after the last zeroing move up to the one before the
    current position *)
Fixpoint sinceLastZeroing (steps : list step) : list step :=
  match steps with
  | [] => []
  | s :: r => if existsb snd r then sinceLastZeroing r
              else if snd s then r else s :: r
  end.

Definition historySpec (steps : list step) : list N := map fst (sinceLastZeroing steps).

(** clock after the steps *)
Definition clockAfter (steps : list step) (clk0 : Z) : Z :=
  fold_left (fun c (s : step) => if snd s then 0 else c + 1) steps clk0.

(** * Position level *)
Section Positions.
  (** draw-rule positions; Leibniz equality on [P] stands for Position::drawRuleEquals *)
  Variable P : Type.
  Variable P_eq_dec : forall a b : P, {a = b} + {a <> b}.

  (** positions since the last irreversible (clock-zeroing) move: the last [hmc] ones *)
  Definition sinceIrreversible (hmc : Z) (ps : list P) : list P :=
    skipn (length ps - Z.to_nat hmc) ps.

  (** number of earlier occurrences of [cur] since the last irreversible move;
      [ps] = earlier positions of game + search path, oldest first *)
  Definition priorOccurrences (hmc : Z) (ps : list P) (cur : P) : nat :=
    count_occ P_eq_dec (sinceIrreversible hmc ps) cur.

  (** the current position occurs for (at least) the third time *)
  Definition thirdOccurrence (hmc : Z) (ps : list P) (cur : P) : Prop :=
    (2 <= priorOccurrences hmc ps cur)%nat.

  (** occurrences over the whole game, ignoring the clock *)
  Definition priorOccurrencesAll (ps : list P) (cur : P) : nat := count_occ P_eq_dec ps cur.
End Positions.

(** * Console game adjudication (rules, stated over the abstract positions of Draw.v) *)

(** "dead material": no queen, rook or pawn, and either at most one minor piece in total, or
    only bishops which all stand on squares of one colour *)
Definition deadMaterial (m : material) : Prop :=
  (nWQ m = 0 /\ nWR m = 0 /\ nWP m = 0 /\ nBQ m = 0 /\ nBR m = 0 /\ nBP m = 0)%N /\
  ((nWB m + nWN m + nBB m + nBN m <= 1)%N \/
   ((nWN m = 0 /\ nBN m = 0)%N /\ (bishDark m = 0 \/ bishLight m = 0)%N)).

(** what the state of a game is, given the current position and the recorded resignation /
    accepted claim or agreement *)
Inductive stateRule (p : absPos) (resign draw : gameState) : gameState -> Prop :=
  | SR_mate : a_nLegal p = 0%N -> a_inCheck p = true ->
      stateRule p resign draw (if a_white p then BLACK_MATE else WHITE_MATE)
  | SR_stalemate : a_nLegal p = 0%N -> a_inCheck p = false ->
      stateRule p resign draw (if a_white p then WHITE_STALEMATE else BLACK_STALEMATE)
  | SR_dead : a_nLegal p <> 0%N -> deadMaterial (a_mat p) -> stateRule p resign draw DRAW_NO_MATE
  | SR_resign : a_nLegal p <> 0%N -> ~ deadMaterial (a_mat p) -> resign <> ALIVE ->
      stateRule p resign draw resign
  | SR_other : a_nLegal p <> 0%N -> ~ deadMaterial (a_mat p) -> resign = ALIVE ->
      stateRule p resign draw draw.

(** number of positions of the whole game so far (incl. the current one and, when the claim
    names a move, the position after it) that equal the position the claim is about *)
Definition claimTarget (g : game) (after : option absPos) : absPos :=
  match after with Some a => a | None => g_cur g end.

Definition gamePositions (g : game) (after : option absPos) : list absPos :=
  g_hist g ++ [g_cur g] ++ (match after with Some a => [a] | None => [] end).

Definition occurrencesInGame (g : game) (after : option absPos) : nat :=
  length (filter (fun p => (a_id p =? a_id (claimTarget g after))%N) (gamePositions g after)).

Definition repClaimRule (g : game) (after : option absPos) : Prop :=
  (3 <= occurrencesInGame g after)%nat.

Definition fiftyClaimRule (g : game) (after : option absPos) : Prop :=
  100 <= a_hmc (claimTarget g after).
