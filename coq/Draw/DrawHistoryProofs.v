(** C11 — proofs: history list built by setupPosition, 50-move rule with the mate exception,
    the draw prefix of negaScout, ComputerPlayer::canClaimDraw at hash-list level. *)
From Coq Require Import ZArith NArith List Bool Lia.
From Texel Require Import Draw.Draw Draw.DrawSpec Draw.DrawProofs.
Import ListNotations.
Local Open Scope Z_scope.

(** * setupPosition *)

Lemma sinceLastZeroing_none : forall steps, existsb snd steps = false -> sinceLastZeroing steps = steps.
Proof.
  induction steps as [|[h z] r IH]; cbn [existsb sinceLastZeroing snd]; [reflexivity|].
  intro H. apply orb_false_iff in H. destruct H as [-> ->]. reflexivity.
Qed.

Lemma setupLoop_spec : forall steps clk acc, 0 <= clk ->
  setupLoop steps clk acc =
  ((if existsb snd steps then historySpec steps else acc ++ map fst steps), clockAfter steps clk).
Proof.
  unfold historySpec, clockAfter.
  induction steps as [|[h z] r IH]; intros clk acc Hc.
  - cbn. rewrite app_nil_r. reflexivity.
  - cbn [setupLoop existsb sinceLastZeroing snd fst map fold_left].
    destruct z.
    + cbn [orb]. rewrite Z.eqb_refl, IH by lia. cbn [app].
      destruct (existsb snd r); reflexivity.
    + cbn [orb]. assert (E : (clk + 1 =? 0) = false) by (apply Z.eqb_neq; lia).
      rewrite E, IH by lia.
      destruct (existsb snd r); [reflexivity|].
      rewrite <- app_assoc. reflexivity.
Qed.

(** the list built by the loop (before the "> 100" cut) is exactly the Spec list *)
Lemma setupLoop_history : forall steps clk0, 0 <= clk0 ->
  setupLoop steps clk0 [] = (historySpec steps, clockAfter steps clk0).
Proof.
  intros steps clk0 H. rewrite setupLoop_spec by assumption. cbn [app].
  destruct (existsb snd steps) eqn:E; [reflexivity|].
  unfold historySpec. rewrite sinceLastZeroing_none by assumption. reflexivity.
Qed.

Theorem setupPosition_history : forall steps clk0, 0 <= clk0 ->
  setupPosition steps clk0 =
  (let l := if Z.of_nat (length (historySpec steps)) >? 100 then [] else historySpec steps in
   (l, Z.of_nat (length l), clockAfter steps clk0)).
Proof.
  intros steps clk0 H. unfold setupPosition. rewrite setupLoop_history by assumption. reflexivity.
Qed.

(** clock after the moves = number of list entries (+ the start clock when no zeroing move was
    played): every entry of the list lies inside the half-move-clock window *)
Lemma clockAfter_length : forall steps clk0,
  clockAfter steps clk0 =
  (if existsb snd steps then 0 else clk0) + Z.of_nat (length (historySpec steps)).
Proof.
  unfold clockAfter, historySpec.
  induction steps as [|[h z] r IH]; intros clk0.
  - cbn. lia.
  - cbn [fold_left existsb sinceLastZeroing snd]. rewrite IH.
    destruct z; cbn [orb].
    + destruct (existsb snd r) eqn:E; [reflexivity|].
      rewrite (sinceLastZeroing_none r) by assumption. lia.
    + destruct (existsb snd r) eqn:E; [reflexivity|].
      rewrite (sinceLastZeroing_none r) by assumption.
      cbn [map length]. rewrite Nat2Z.inj_succ. lia.
Qed.

Corollary history_inside_window : forall steps clk0, 0 <= clk0 ->
  Z.of_nat (length (historySpec steps)) <= clockAfter steps clk0.
Proof.
  intros. rewrite clockAfter_length. destruct (existsb snd steps); lia.
Qed.

(** * 50-move rule with the mate exception; the whole draw prefix *)

Theorem fifty_with_mate_exception : forall hmc inCheck hasLegal ply h l size firstNew,
  100 <= hmc ->
  drawPrefix hmc inCheck hasLegal ply h l size firstNew =
  Score (if inCheck && negb hasLegal then - (MATE0 - (ply + 1)) else 0).
Proof.
  intros. unfold drawPrefix, canClaimDraw50.
  assert (E : (hmc >=? 100) = true) by (apply Z.geb_le; lia). rewrite E.
  destruct inCheck, hasLegal; reflexivity.
Qed.

(** the same against the Spec verdict *)
Theorem fifty_spec : forall hmc inCheck hasLegal ply h l size firstNew s,
  verdictScore (fiftySpec hmc (inCheck && negb hasLegal)) ply = Some s ->
  drawPrefix hmc inCheck hasLegal ply h l size firstNew = Score s.
Proof.
  intros hmc inCheck hasLegal ply h l size fn s. unfold fiftySpec.
  destruct (100 <=? hmc) eqn:E; [|discriminate].
  apply Z.leb_le in E. rewrite fifty_with_mate_exception by assumption.
  destruct (inCheck && negb hasLegal); cbn; intro H; inversion H; reflexivity.
Qed.

Theorem canClaimDraw50_spec : forall hmc, canClaimDraw50 hmc = true <-> 100 <= hmc.
Proof. intro. unfold canClaimDraw50. rewrite Z.geb_le. reflexivity. Qed.

(** below 100 the prefix is decided by the repetition condition alone *)
Theorem drawPrefix_below_100 : forall hmc inCheck hasLegal ply h l size firstNew,
  hmc < 100 -> 0 <= size <= Z.of_nat (length l) ->
  (repCondition hmc h l size firstNew /\
   drawPrefix hmc inCheck hasLegal ply h l size firstNew = Score 0) \/
  (~ repCondition hmc h l size firstNew /\
   drawPrefix hmc inCheck hasLegal ply h l size firstNew = Continue).
Proof.
  intros hmc inCheck hasLegal ply h l size fn Hc Hs. unfold drawPrefix, canClaimDraw50.
  assert (E : (hmc >=? 100) = false) by (rewrite Z.geb_leb; apply Z.leb_gt; lia). rewrite E.
  destruct (canClaimDrawRep_iff hmc h l size fn Hs) as [b [-> Hb]].
  destruct b.
  - left. split; [apply Hb; reflexivity|reflexivity].
  - right. split; [|reflexivity]. intro H. apply Hb in H. discriminate.
Qed.

(** the prefix never returns anything but 0, the mated score, or "continue" *)
Corollary drawPrefix_range : forall hmc inCheck hasLegal ply h l size firstNew,
  0 <= size <= Z.of_nat (length l) ->
  drawPrefix hmc inCheck hasLegal ply h l size firstNew = Score 0 \/
  drawPrefix hmc inCheck hasLegal ply h l size firstNew = Continue \/
  (100 <= hmc /\ inCheck = true /\ hasLegal = false /\
   drawPrefix hmc inCheck hasLegal ply h l size firstNew = Score (- (MATE0 - (ply + 1)))).
Proof.
  intros hmc inCheck hasLegal ply h l size fn Hs.
  destruct (Z.lt_ge_cases hmc 100) as [Hc|Hc].
  - destruct (drawPrefix_below_100 hmc inCheck hasLegal ply h l size fn Hc Hs) as [[_ ->]|[_ ->]]; auto.
  - rewrite fifty_with_mate_exception by assumption.
    destruct inCheck, hasLegal; cbn [andb negb]; auto.
    right. right. auto.
Qed.

(** * Repetition claims with firstNew = size (ComputerPlayer::canClaimDraw, root of a claim):
      only a genuine double hit counts *)
Lemma repCondition_no_new : forall hmc h l size firstNew, size - 4 < firstNew ->
  (repCondition hmc h l size firstNew <->
   exists i j, i < j /\ candidate hmc size i /\ candidate hmc size j /\ hitAt l h i /\ hitAt l h j).
Proof.
  intros hmc h l size fn Hf. unfold repCondition. split; [|auto].
  intros [[i [Hc [_ Hi]]]|H]; [|assumption].
  unfold candidate in Hc. lia.
Qed.

Lemma vset_length : forall l i v, 0 <= i < Z.of_nat (length l) -> length (vset l i v) = length l.
Proof.
  intros l i v Hi. unfold vset. rewrite !app_length, firstn_length, skipn_length. cbn [length]. lia.
Qed.

Theorem cpCanClaimDraw_spec : forall hmc h l size hmcA hA,
  0 <= size < Z.of_nat (length l) ->
  let rep1 := repCondition hmc h l size size in
  let rep2 := repCondition hmcA hA (vset l size h) (size + 1) (size + 1) in
  match cpCanClaimDraw hmc h l size hmcA hA with
  | Claim50 => 100 <= hmc
  | ClaimRep => hmc < 100 /\ rep1
  | Claim50Move => hmc < 100 /\ ~ rep1 /\ 100 <= hmcA
  | ClaimRepMove => hmc < 100 /\ ~ rep1 /\ hmcA < 100 /\ rep2
  | NoClaim => hmc < 100 /\ ~ rep1 /\ hmcA < 100 /\ ~ rep2
  | ClaimErr => False
  end.
Proof.
  intros hmc h l size hmcA hA Hs rep1 rep2. unfold cpCanClaimDraw, canClaimDraw50.
  destruct (hmc >=? 100) eqn:E1; [apply Z.geb_le in E1; lia|].
  assert (H1 : hmc < 100) by (rewrite Z.geb_leb in E1; apply Z.leb_gt in E1; lia).
  destruct (canClaimDrawRep_iff hmc h l size size) as [b [-> Hb]]; [lia|].
  destruct b; [split; [assumption|apply Hb; reflexivity]|].
  assert (N1 : ~ rep1) by (intro H; apply Hb in H; discriminate).
  destruct (hmcA >=? 100) eqn:E2; [apply Z.geb_le in E2; repeat split; (assumption || lia)|].
  assert (H2 : hmcA < 100) by (rewrite Z.geb_leb in E2; apply Z.leb_gt in E2; lia).
  destruct (canClaimDrawRep_iff hmcA hA (vset l size h) (size + 1) (size + 1)) as [b [-> Hb2]].
  { rewrite vset_length by lia. lia. }
  destruct b.
  - repeat split; try assumption. apply Hb2. reflexivity.
  - repeat split; try assumption. intro H. apply Hb2 in H. discriminate.
Qed.

(** * Non-vacuity examples *)

(** history crossing a zeroing move: e4 (zeroing) Nf6 Nf3 -> the two positions after e4 *)
Example setup_example :
  setupPosition [(11%N, true); (12%N, false); (13%N, false)] 0 = ([12%N; 13%N], 2, 2)
  /\ historySpec [(11%N, true); (12%N, false); (13%N, false)] = [12%N; 13%N].
Proof. split; reflexivity. Qed.

(** mate delivered by the 100th half-move stands; otherwise draw; nothing at 99 *)
Example fifty_example :
  drawPrefix 100 true false 3 7%N [] 0 0 = Score (-31996) /\
  drawPrefix 100 true true 3 7%N [] 0 0 = Score 0 /\
  drawPrefix 100 false false 3 7%N [] 0 0 = Score 0 /\
  drawPrefix 99 true false 3 7%N [] 0 0 = Continue.
Proof. repeat split; reflexivity. Qed.

(** "draw rep Kh8"-style claim: the move leads to a third occurrence *)
Example cp_example :
  cpCanClaimDraw 7 5%N [1;2;3;4;1;2;3;0;0]%N 7 8 1%N = ClaimRepMove /\
  cpCanClaimDraw 3 5%N [1;2;3;4;1;2;3;0;0]%N 7 4 1%N = NoClaim.
Proof. split; reflexivity. Qed.
