(** C11 — executable model of the draw recognition code (no proofs in this file).

    Modelled code (all in /repo):
      lib/texellib/search.hpp   Search::canClaimDrawRep, Search::canClaimDraw50
      lib/texellib/search.cpp   the "Draw tests" prefix of Search::negaScout
      app/texel/enginecontrol.cpp  EngineControl::setupPosition (history hash list)
      lib/texellib/game.cpp     Game::getGameState, insufficientMaterial, handleCommand
                                ("draw ...", "resign", "undo", moves), handleDrawCmd
      lib/texellib/computerPlayer.cpp  ComputerPlayer::canClaimDraw

    The model works on HASH LISTS and abstract position attributes (half-move clock, in-check
    flag, number of legal moves, piece counts, a draw-rule identity); it does not depend on the
    shared chess model.  C++ [int] is [Z] (all values here are small: list sizes, clocks,
    plies), U64 hashes are [N]. *)
From Coq Require Import ZArith NArith List Bool.
Import ListNotations.
Local Open Scope Z_scope.

(** * Search::canClaimDrawRep (search.hpp)

<<
    int reps = 0;
    int stop = std::max(0, posHashListSize - pos.getHalfMoveClock());
    for (int i = posHashListSize - 4; i >= stop; i -= 2) {
        if (pos.zobristHash() == posHashList[i]) {
            reps++;
            if ((i >= posHashFirstNew) || (reps >= 2))
                return true;
        }
    }
    return false;
>>
    [posHashList] is a std::vector that is longer than [posHashListSize]; a read outside the
    vector (undefined behaviour in C++) is made visible as [None], and so is fuel exhaustion
    (DrawProofs.v shows that neither happens when 0 <= size <= length of the vector). *)

Definition vget (l : list N) (i : Z) : option N :=
  if i <? 0 then None else nth_error l (Z.to_nat i).

Fixpoint repLoop (fuel : nat) (l : list N) (h : N) (firstNew stop i reps : Z) : option bool :=
  match fuel with
  | O => None
  | S f =>
    if i >=? stop then
      match vget l i with
      | None => None
      | Some e =>
        if N.eqb h e then
          let reps' := reps + 1 in
          if (i >=? firstNew) || (reps' >=? 2) then Some true
          else repLoop f l h firstNew stop (i - 2) reps'
        else repLoop f l h firstNew stop (i - 2) reps
      end
    else Some false
  end.

Definition repStop (hmc size : Z) : Z := Z.max 0 (size - hmc).

(** [hmc] = pos.getHalfMoveClock(), [h] = pos.zobristHash() *)
Definition canClaimDrawRep (hmc : Z) (h : N) (l : list N) (size firstNew : Z) : option bool :=
  repLoop (S (Z.to_nat size)) l h firstNew (repStop hmc size) (size - 4) 0.

(** * Search::canClaimDraw50 (search.hpp):  return (pos.getHalfMoveClock() >= 100); *)
Definition canClaimDraw50 (hmc : Z) : bool := hmc >=? 100.

(** * Draw tests at the top of Search::negaScout (search.cpp)

<<
    if (canClaimDraw50(pos)) {
        if (inCheck) {
            MoveList moves; pseudoLegalMoves; removeIllegal;
            if (moves.size == 0)             // Can't claim draw if already check mated.
                return logAndReturn(-(MATE0-(ply+1)), TType::T_EXACT);
        }
        return logAndReturn(0, TType::T_EXACT);
    }
    if (canClaimDrawRep(pos, posHashList, posHashListSize, posHashFirstNew))
        return logAndReturn(0, TType::T_EXACT);
>>
    [logAndReturn] applies [tbAdjust], which is the identity here because [tbScoreType] is still
    T_EMPTY at this point.  [hasLegalMove] is the outcome of the legal move generation (only
    consulted when in check).  The mate-distance pruning before the draw tests is not part of
    this prefix (callers compare with the full window). *)
Definition MATE0 : Z := 32000.

Inductive prefixResult := Score (s : Z) | Continue | PrefixErr.

Definition drawPrefix (hmc : Z) (inCheck hasLegalMove : bool) (ply : Z)
                      (h : N) (l : list N) (size firstNew : Z) : prefixResult :=
  if canClaimDraw50 hmc then
    if inCheck then
      if negb hasLegalMove then Score (- (MATE0 - (ply + 1))) else Score 0
    else Score 0
  else
    match canClaimDrawRep hmc h l size firstNew with
    | Some true => Score 0
    | Some false => Continue
    | None => PrefixErr
    end.

(** * EngineControl::setupPosition (enginecontrol.cpp)

<<
    posHashList.clear();
    for (const Move& m : moves) {
        posHashList.push_back(pos.zobristHash());
        pos.makeMove(m, ui);
        if (pos.getHalfMoveClock() == 0)
            posHashList.clear();
    }
    if (posHashList.size() > 100)
        posHashList.clear();
    posHashListSize = posHashList.size();
>>
    A step is (hash of the position BEFORE the move, does the move zero the clock); the clock
    itself is threaded through exactly as makeMove does it (reset to 0 on capture / pawn move,
    otherwise +1), so that a negative start clock from a FEN behaves like the code. *)
Definition step := (N * bool)%type.

Fixpoint setupLoop (steps : list step) (clk : Z) (acc : list N) : list N * Z :=
  match steps with
  | [] => (acc, clk)
  | (h, zeroing) :: r =>
      let acc1 := acc ++ [h] in
      let clk' := if zeroing then 0 else clk + 1 in
      setupLoop r clk' (if clk' =? 0 then [] else acc1)
  end.

(** result: (posHashList restricted to posHashListSize entries, posHashListSize, final clock) *)
Definition setupPosition (steps : list step) (clk0 : Z) : list N * Z * Z :=
  let (l, clk) := setupLoop steps clk0 [] in
  let l' := if Z.of_nat (length l) >? 100 then [] else l in
  (l', Z.of_nat (length l'), clk).

(** * Game (game.cpp) over abstract position attributes *)

Inductive gameState :=
  | ALIVE | WHITE_MATE | BLACK_MATE | WHITE_STALEMATE | BLACK_STALEMATE
  | DRAW_REP | DRAW_50 | DRAW_NO_MATE | DRAW_AGREE | RESIGN_WHITE | RESIGN_BLACK.

Definition gameState_eqb (a b : gameState) : bool :=
  match a, b with
  | ALIVE, ALIVE | WHITE_MATE, WHITE_MATE | BLACK_MATE, BLACK_MATE
  | WHITE_STALEMATE, WHITE_STALEMATE | BLACK_STALEMATE, BLACK_STALEMATE
  | DRAW_REP, DRAW_REP | DRAW_50, DRAW_50 | DRAW_NO_MATE, DRAW_NO_MATE
  | DRAW_AGREE, DRAW_AGREE | RESIGN_WHITE, RESIGN_WHITE | RESIGN_BLACK, RESIGN_BLACK => true
  | _, _ => false
  end.

(** Piece counts (bit counts of the piece-type bitboards) and the number of bishops of either
    colour standing on dark / light squares (bMask & maskDarkSq, bMask & maskLightSq). *)
Record material := mkMat {
  nWQ : N; nWR : N; nWP : N; nBQ : N; nBR : N; nBP : N;
  nWB : N; nWN : N; nBB : N; nBN : N;
  bishDark : N; bishLight : N }.

(** Game::insufficientMaterial *)
Definition insufficientMaterial (m : material) : bool :=
  if negb (nWQ m =? 0)%N then false else
  if negb (nWR m =? 0)%N then false else
  if negb (nWP m =? 0)%N then false else
  if negb (nBQ m =? 0)%N then false else
  if negb (nBR m =? 0)%N then false else
  if negb (nBP m =? 0)%N then false else
  if (nWB m + nWN m + nBB m + nBN m <=? 1)%N then true else
  if (nWN m + nBN m =? 0)%N then
    (if (bishDark m =? 0)%N || (bishLight m =? 0)%N then true else false)
  else false.

(** What the Game code looks at in a position.  [a_id] stands for the draw-rule identity
    (Position::drawRuleEquals: squares, side to move, castle mask, en-passant square): two
    abstract positions are drawRuleEquals iff their ids are equal. *)
Record absPos := mkAbs {
  a_id : N; a_white : bool; a_hmc : Z; a_inCheck : bool; a_nLegal : N; a_mat : material }.

(** Game::getGameState *)
Definition getGameState (p : absPos) (resignState drawState : gameState) : gameState :=
  if (a_nLegal p =? 0)%N then
    if a_inCheck p then (if a_white p then BLACK_MATE else WHITE_MATE)
    else (if a_white p then WHITE_STALEMATE else BLACK_STALEMATE)
  else if insufficientMaterial (a_mat p) then DRAW_NO_MATE
  else if negb (gameState_eqb resignState ALIVE) then resignState
  else drawState.

(** Game object.  [g_hist]: the positions before each of the [currentMove] played moves, oldest
    first (what unMakeMove walks through); [g_offers] = drawOfferList (may be longer than
    currentMove after "undo"). *)
Record game := mkGame {
  g_hist : list absPos; g_cur : absPos;
  g_resign : gameState; g_draw : gameState; g_pending : bool; g_offers : list bool }.

Definition gState (g : game) : gameState := getGameState (g_cur g) (g_resign g) (g_draw g).

Definition currentMove (g : game) : nat := length (g_hist g).

(** the move part of Game::processString, for a legal move leading to [after] *)
Definition playMove (g : game) (after : absPos) : game * bool :=
  if negb (gameState_eqb (gState g) ALIVE) then (g, false)
  else (mkGame (g_hist g ++ [g_cur g]) after (g_resign g) (g_draw g) false
               (firstn (currentMove g) (g_offers g) ++ [g_pending g]), true).

Definition haveDrawOffer (g : game) : bool :=
  match currentMove g with
  | O => false
  | S k => nth k (g_offers g) false
  end.

(** repetition count of handleDrawCmd: oldPositions = [after]? ++ [cur] ++ rev hist,
    firstPos = oldPositions[0], count drawRuleEquals over ALL of oldPositions *)
Definition oldPositions (g : game) (after : option absPos) : list absPos :=
  (match after with Some a => [a] | None => [] end) ++ [g_cur g] ++ rev (g_hist g).

Definition repetitions (g : game) (after : option absPos) : Z :=
  match oldPositions g after with
  | [] => 0
  | firstPos :: _ =>
      fold_left (fun n p => if (a_id p =? a_id firstPos)%N then n + 1 else n) (oldPositions g after) 0
  end.

Definition repClaimValid (g : game) (after : option absPos) : bool := repetitions g after >=? 3.

Definition fiftyClaimValid (g : game) (after : option absPos) : bool :=
  a_hmc (match after with Some a => a | None => g_cur g end) >=? 100.

Inductive command :=
  | CMove (after : absPos)                  (* a legal move *)
  | CDrawRep (after : option absPos)        (* "draw rep [move]"; None = no / unparsable move *)
  | CDraw50 (after : option absPos)         (* "draw 50 [move]" *)
  | CDrawOffer (after : option absPos)      (* "draw offer move" *)
  | CDrawAccept
  | CResign
  | CUndo.                                  (* "undo" *)

(** Game::handleDrawCmd for "rep" / "50" (caller has checked getGameState() == ALIVE) *)
Definition handleDrawClaim (g : game) (rep : bool) (after : option absPos) : game :=
  let valid := if rep then repClaimValid g after else fiftyClaimValid g after in
  if valid then
    mkGame (g_hist g) (g_cur g) (g_resign g) (if rep then DRAW_REP else DRAW_50) (g_pending g) (g_offers g)
  else
    let g1 := mkGame (g_hist g) (g_cur g) (g_resign g) (g_draw g) true (g_offers g) in
    match after with
    | Some a => fst (playMove g1 a)
    | None => g1
    end.

(** Game::processString / handleCommand for the commands above; the bool is the return value *)
Definition processCommand (g : game) (c : command) : game * bool :=
  match c with
  | CMove a => playMove g a
  | CDrawRep a =>
      if gameState_eqb (gState g) ALIVE then (handleDrawClaim g true a, true) else (g, true)
  | CDraw50 a =>
      if gameState_eqb (gState g) ALIVE then (handleDrawClaim g false a, true) else (g, true)
  | CDrawOffer a =>
      if gameState_eqb (gState g) ALIVE then
        let g1 := mkGame (g_hist g) (g_cur g) (g_resign g) (g_draw g) true (g_offers g) in
        (match a with Some p => fst (playMove g1 p) | None => g1 end, true)
      else (g, true)
  | CDrawAccept =>
      if gameState_eqb (gState g) ALIVE then
        (if haveDrawOffer g
         then mkGame (g_hist g) (g_cur g) (g_resign g) DRAW_AGREE (g_pending g) (g_offers g)
         else g, true)
      else (g, true)
  | CResign =>
      if gameState_eqb (gState g) ALIVE then
        (mkGame (g_hist g) (g_cur g) (if a_white (g_cur g) then RESIGN_WHITE else RESIGN_BLACK)
                (g_draw g) (g_pending g) (g_offers g), true)
      else (g, true)
  | CUndo =>
      match rev (g_hist g) with
      | [] => (g, true)
      | prev :: r => (mkGame (rev r) prev ALIVE ALIVE false (g_offers g), true)
      end
  end.

Definition newGame (start : absPos) : game := mkGame [] start ALIVE ALIVE false [].

(** Game::getHistory: previous positions back to the last zeroing move (walks back while the
    clock of the position reached is non-zero), oldest first, current position excluded. *)
Fixpoint historyBack (revHist : list absPos) (clk : Z) : list absPos :=
  match revHist with
  | [] => []
  | p :: r => if clk =? 0 then [] else p :: historyBack r (a_hmc p)
  end.

Definition getHistory (g : game) : list absPos := rev (historyBack (rev (g_hist g)) (a_hmc (g_cur g))).

(** * ComputerPlayer::canClaimDraw (computerPlayer.cpp)

    [hmc], [h]: clock and hash of the current position; [hmcA], [hA]: of the position after
    [move].  posHashList[posHashListSize++] = h overwrites entry [size] of the vector. *)
Inductive claim := NoClaim | Claim50 | ClaimRep | Claim50Move | ClaimRepMove | ClaimErr.

Definition vset (l : list N) (i : Z) (v : N) : list N :=
  firstn (Z.to_nat i) l ++ [v] ++ skipn (S (Z.to_nat i)) l.

Definition cpCanClaimDraw (hmc : Z) (h : N) (l : list N) (size : Z) (hmcA : Z) (hA : N) : claim :=
  if canClaimDraw50 hmc then Claim50 else
  match canClaimDrawRep hmc h l size size with
  | None => ClaimErr
  | Some true => ClaimRep
  | Some false =>
      let l' := vset l size h in
      let size' := size + 1 in
      if canClaimDraw50 hmcA then Claim50Move else
      match canClaimDrawRep hmcA hA l' size' size' with
      | None => ClaimErr
      | Some true => ClaimRepMove
      | Some false => NoClaim
      end
  end.
