(** C11 — proofs about the repetition loop (hash-list level) and the history list. *)
From Coq Require Import ZArith NArith List Bool Lia FinFun.
From Texel Require Import Draw.Draw Draw.DrawSpec.
Import ListNotations.
Local Open Scope Z_scope.

(** * The loop visits exactly the candidate indices *)

(** indices visited by the loop, in visiting order *)
Fixpoint visited (fuel : nat) (stop i : Z) : list Z :=
  match fuel with
  | O => []
  | S f => if i >=? stop then i :: visited f stop (i - 2) else []
  end.

(** what the loop computes, as a scan over a list of indices *)
Fixpoint scan (l : list N) (h : N) (firstNew : Z) (idxs : list Z) (reps : Z) : bool :=
  match idxs with
  | [] => false
  | j :: t =>
    if hitb l h j then
      if (j >=? firstNew) || (reps + 1 >=? 2) then true else scan l h firstNew t (reps + 1)
    else scan l h firstNew t reps
  end.

Definition fuelOk (fuel : nat) (stop i : Z) : Prop := Z.max 1 (i - stop + 2) <= Z.of_nat fuel.

Lemma vget_in_bounds : forall l i, 0 <= i < Z.of_nat (length l) -> exists e, vget l i = Some e.
Proof.
  intros l i Hi. unfold vget.
  destruct (i <? 0) eqn:E; [apply Z.ltb_lt in E; lia|].
  destruct (nth_error l (Z.to_nat i)) eqn:En; [eauto|].
  apply nth_error_None in En. lia.
Qed.

Lemma hitb_vget : forall l h i e, 0 <= i -> vget l i = Some e -> hitb l h i = N.eqb h e.
Proof.
  intros l h i e Hi. unfold vget, hitb.
  destruct (i <? 0) eqn:E; [apply Z.ltb_lt in E; lia|].
  intros ->. apply N.eqb_sym.
Qed.

Lemma repLoop_scan : forall fuel l h fn stop i r,
  fuelOk fuel stop i -> 0 <= stop -> i < Z.of_nat (length l) ->
  repLoop fuel l h fn stop i r = Some (scan l h fn (visited fuel stop i) r).
Proof.
  induction fuel as [|f IH]; intros l h fn stop i r Hf Hs Hi.
  - unfold fuelOk in Hf. simpl in Hf. lia.
  - cbn [repLoop visited].
    destruct (i >=? stop) eqn:Eg; [|reflexivity].
    assert (Hge : stop <= i) by (apply Z.geb_le in Eg; lia).
    destruct (vget_in_bounds l i) as [e He]; [lia|].
    rewrite He. cbn [scan]. rewrite (hitb_vget l h i e) by (lia || assumption).
    assert (Hf' : fuelOk f stop (i - 2)).
    { unfold fuelOk in *. rewrite Nat2Z.inj_succ in Hf. lia. }
    destruct (N.eqb h e).
    + destruct ((i >=? fn) || (r + 1 >=? 2)); [reflexivity|].
      apply IH; [assumption|assumption|lia].
    + apply IH; [assumption|assumption|lia].
Qed.

Lemma visited_In : forall fuel stop i j,
  fuelOk fuel stop i ->
  (In j (visited fuel stop i) <-> stop <= j <= i /\ exists k, i - j = 2 * k).
Proof.
  induction fuel as [|f IH]; intros stop i j Hf.
  - unfold fuelOk in Hf. simpl in Hf. lia.
  - cbn [visited]. destruct (i >=? stop) eqn:Eg.
    + assert (Hge : stop <= i) by (apply Z.geb_le in Eg; lia).
      assert (Hf' : fuelOk f stop (i - 2)).
      { unfold fuelOk in *. rewrite Nat2Z.inj_succ in Hf. lia. }
      cbn [In]. rewrite (IH stop (i - 2) j Hf'). split.
      * intros [<- | [Hr [k Hk]]].
        -- split; [lia|]. exists 0. lia.
        -- split; [lia|]. exists (k + 1). lia.
      * intros [Hr [k Hk]].
        destruct (Z.eq_dec i j) as [->|Hne]; [left; reflexivity|right].
        split; [lia|]. exists (k - 1). lia.
    + assert (Hlt : i < stop) by (rewrite Z.geb_leb in Eg; apply Z.leb_gt in Eg; lia).
      cbn [In]. split; [tauto|]. intros [Hr _]. lia.
Qed.

Lemma visited_lt : forall fuel stop i j, In j (visited fuel stop i) -> j <= i.
Proof.
  induction fuel as [|f IH]; intros stop i j; cbn [visited In]; [tauto|].
  destruct (i >=? stop); cbn [In]; [|tauto].
  intros [<-|H]; [lia|]. apply IH in H. lia.
Qed.

Lemma visited_NoDup : forall fuel stop i, NoDup (visited fuel stop i).
Proof.
  induction fuel as [|f IH]; intros stop i; cbn [visited]; [constructor|].
  destruct (i >=? stop); [|constructor].
  constructor; [|apply IH].
  intro H. apply visited_lt in H. lia.
Qed.

(** * Meaning of the scan *)

Definition numHits (l : list N) (h : N) (idxs : list Z) : Z :=
  Z.of_nat (length (filter (hitb l h) idxs)).

Lemma scan_spec : forall l h fn idxs r, 0 <= r <= 1 ->
  (scan l h fn idxs r = true <->
   (exists j, In j idxs /\ hitb l h j = true /\ fn <= j) \/ 2 <= r + numHits l h idxs).
Proof.
  intros l h fn. induction idxs as [|j t IH]; intros r Hr.
  - cbn [scan]. unfold numHits. cbn. split; [discriminate|].
    intros [[j [[] _]]|H]; lia.
  - cbn [scan]. unfold numHits in *. cbn [filter].
    destruct (hitb l h j) eqn:Eh.
    + cbn [length]. rewrite Nat2Z.inj_succ.
      destruct (j >=? fn) eqn:Ef; cbn [orb].
      * split; [intros _|reflexivity]. left. exists j.
        apply Z.geb_le in Ef. cbn [In]. auto.
      * assert (Hlt : j < fn) by (rewrite Z.geb_leb in Ef; apply Z.leb_gt in Ef; lia).
        destruct (r + 1 >=? 2) eqn:Er.
        -- apply Z.geb_le in Er. split; [intros _|reflexivity]. right. lia.
        -- assert (r = 0) by (rewrite Z.geb_leb in Er; apply Z.leb_gt in Er; lia). subst r.
           rewrite (IH 1) by lia. split.
           ++ intros [[k [Hin [Hk Hfk]]]|H]; [left; exists k; cbn [In]; auto|right; lia].
           ++ intros [[k [[<-|Hin] [Hk Hfk]]]|H]; [lia|left; exists k; auto|right; lia].
    + rewrite (IH r Hr). split.
      * intros [[k [Hin [Hk Hfk]]]|H]; [left; exists k; cbn [In]; auto|right; lia].
      * intros [[k [[<-|Hin] [Hk Hfk]]]|H]; [congruence|left; exists k; auto|right; lia].
Qed.

Lemma two_in_filter : forall (f : Z -> bool) idxs, NoDup idxs ->
  (2 <= Z.of_nat (length (filter f idxs)) <->
   exists i j, i < j /\ In i idxs /\ In j idxs /\ f i = true /\ f j = true).
Proof.
  intros f idxs Hnd.
  assert (Hnd' : NoDup (filter f idxs)) by (apply NoDup_filter; assumption).
  split.
  - intro H. destruct (filter f idxs) as [|a [|b t]] eqn:E; cbn [length] in H; try lia.
    assert (Ha : In a (filter f idxs)) by (rewrite E; cbn; auto).
    assert (Hb : In b (filter f idxs)) by (rewrite E; cbn; auto).
    apply filter_In in Ha, Hb.
    assert (a <> b). { inversion Hnd' as [|? ? Hn _]. intros ->. apply Hn. cbn. auto. }
    destruct (Z.lt_ge_cases a b).
    + exists a, b. tauto.
    + exists b, a. repeat split; try tauto. lia.
  - intros [i [j [Hij [Hi [Hj [Hfi Hfj]]]]]].
    assert (Ii : In i (filter f idxs)) by (apply filter_In; auto).
    assert (Ij : In j (filter f idxs)) by (apply filter_In; auto).
    destruct (filter f idxs) as [|a [|b t]]; cbn [length]; [destruct Ii| |lia].
    cbn [In] in Ii, Ij. destruct Ii as [<-|[]], Ij as [<-|[]]. lia.
Qed.

(** * candidate <-> visited *)

Lemma even_sub_ex : forall a b, Z.even (a - b) = true <-> exists k, a - b = 2 * k.
Proof.
  intros a b. rewrite Z.even_spec. unfold Z.Even. reflexivity.
Qed.

Lemma candidate_visited : forall hmc size i, 0 <= size ->
  (candidate hmc size i <->
   In i (visited (S (Z.to_nat size)) (repStop hmc size) (size - 4))).
Proof.
  intros hmc size i Hs.
  assert (Hf : fuelOk (S (Z.to_nat size)) (repStop hmc size) (size - 4)).
  { unfold fuelOk, repStop. rewrite Nat2Z.inj_succ, Z2Nat.id by lia. lia. }
  rewrite (visited_In _ _ _ i Hf). unfold candidate, inClockWindow, repStop.
  rewrite even_sub_ex. split.
  - intros [[H1 H2] [H3 [k Hk]]]. split; [lia|]. exists (k - 2). lia.
  - intros [[H1 H2] [k Hk]]. split; [lia|]. split; [lia|]. exists (k + 2). lia.
Qed.

Lemma hitb_hitAt : forall l h i, 0 <= i -> (hitb l h i = true <-> hitAt l h i).
Proof.
  intros l h i Hi. unfold hitb, hitAt. destruct (nth_error l (Z.to_nat i)) as [e|].
  - rewrite N.eqb_eq. split; [intros ->; auto|intros [_ H]; congruence].
  - split; [discriminate|intros [_ H]; discriminate].
Qed.

Lemma candidate_nonneg : forall hmc size i, candidate hmc size i -> 0 <= i.
Proof. unfold candidate, inClockWindow. intros. lia. Qed.

(** * Main theorem: the function returns true iff the condition holds *)
Theorem canClaimDrawRep_iff : forall hmc h l size firstNew,
  0 <= size <= Z.of_nat (length l) ->
  exists b, canClaimDrawRep hmc h l size firstNew = Some b /\
            (b = true <-> repCondition hmc h l size firstNew).
Proof.
  intros hmc h l size fn [Hs Hl].
  set (idxs := visited (S (Z.to_nat size)) (repStop hmc size) (size - 4)).
  exists (scan l h fn idxs 0). split.
  - unfold canClaimDrawRep. apply repLoop_scan.
    + unfold fuelOk, repStop. rewrite Nat2Z.inj_succ, Z2Nat.id by lia. lia.
    + unfold repStop. lia.
    + lia.
  - rewrite scan_spec by lia. unfold repCondition, numHits.
    rewrite Z.add_0_l, (two_in_filter (hitb l h) idxs (visited_NoDup _ _ _)).
    split.
    + intros [[j [Hin [Hh Hf]]]|[i [j [Hij [Hi [Hj [Hhi Hhj]]]]]]].
      * apply candidate_visited in Hin; [|assumption]. left. exists j.
        pose proof (candidate_nonneg _ _ _ Hin). rewrite <- hitb_hitAt by assumption. auto.
      * apply candidate_visited in Hi, Hj; try assumption. right. exists i, j.
        pose proof (candidate_nonneg _ _ _ Hi). pose proof (candidate_nonneg _ _ _ Hj).
        rewrite <- !hitb_hitAt by assumption. auto.
    + intros [[j [Hc [Hh Hf]]]|[i [j [Hij [Hi [Hj [Hhi Hhj]]]]]]].
      * left. exists j. pose proof (candidate_nonneg _ _ _ Hc).
        rewrite hitb_hitAt by assumption. split; [apply candidate_visited; assumption|auto].
      * right. exists i, j.
        pose proof (candidate_nonneg _ _ _ Hi). pose proof (candidate_nonneg _ _ _ Hj).
        rewrite !hitb_hitAt by assumption.
        split; [assumption|]. split; [apply candidate_visited; assumption|].
        split; [apply candidate_visited; assumption|]. split; assumption.
Qed.

(** no out-of-bounds read and no fuel exhaustion *)
Corollary canClaimDrawRep_total : forall hmc h l size firstNew,
  0 <= size <= Z.of_nat (length l) -> canClaimDrawRep hmc h l size firstNew <> None.
Proof.
  intros. destruct (canClaimDrawRep_iff hmc h l size firstNew H) as [b [-> _]]. discriminate.
Qed.

(** only the first [size] entries matter *)
Lemma hitAt_app : forall l junk h i, i < Z.of_nat (length l) -> (hitAt (l ++ junk) h i <-> hitAt l h i).
Proof.
  intros l junk h i Hi. unfold hitAt. split; intros [H0 H]; split; try assumption.
  - rewrite nth_error_app1 in H by lia. assumption.
  - rewrite nth_error_app1 by lia. assumption.
Qed.

(** * The executable oracle [repSpecb] decides [repCondition] *)
Lemma candidateb_spec : forall hmc size i, candidateb hmc size i = true <-> candidate hmc size i.
Proof.
  intros. unfold candidateb, candidate, inClockWindow.
  rewrite !andb_true_iff, !Z.leb_le, Z.ltb_lt. tauto.
Qed.

Lemma hits_In : forall hmc h l size i,
  In i (hits hmc h l size) <-> candidate hmc size i /\ hitAt l h i.
Proof.
  intros. unfold hits. rewrite filter_In, in_map_iff, andb_true_iff, candidateb_spec. split.
  - intros [[n [<- Hn]] [Hc Hh]]. split; [assumption|]. apply hitb_hitAt; [lia|assumption].
  - intros [Hc Hh]. pose proof (candidate_nonneg _ _ _ Hc) as H0.
    assert (Hb : hitb l h i = true) by (apply hitb_hitAt; assumption).
    split; [|auto]. exists (Z.to_nat i). split; [lia|].
    apply in_seq. destruct Hh as [_ Hh].
    assert (nth_error l (Z.to_nat i) <> None) by congruence.
    apply nth_error_Some in H. lia.
Qed.

Lemma hits_NoDup : forall hmc h l size, NoDup (hits hmc h l size).
Proof.
  intros. unfold hits. apply NoDup_filter.
  apply FinFun.Injective_map_NoDup; [|apply seq_NoDup].
  intros a b H. lia.
Qed.

Lemma filter_true : forall L : list Z, filter (fun _ => true) L = L.
Proof. induction L as [|a t IHt]; cbn; [reflexivity|]. rewrite IHt. reflexivity. Qed.

Lemma two_in_list : forall L : list Z, NoDup L ->
  (2 <= Z.of_nat (length L) <-> exists i j, i < j /\ In i L /\ In j L).
Proof.
  intros L H. pose proof (two_in_filter (fun _ => true) L H) as T.
  rewrite filter_true in T. rewrite T.
  split; intros [i [j H']]; exists i, j; tauto.
Qed.

Theorem repSpecb_spec : forall hmc h l size firstNew,
  repSpecb hmc h l size firstNew = true <-> repCondition hmc h l size firstNew.
Proof.
  intros hmc h l size fn. unfold repSpecb, repCondition.
  rewrite orb_true_iff, existsb_exists, Z.leb_le.
  rewrite (two_in_list _ (hits_NoDup hmc h l size)).
  split.
  - intros [[i [Hin Hi]]|[i [j [Hij [Hi Hj]]]]].
    + apply hits_In in Hin. apply Z.leb_le in Hi. left. exists i. tauto.
    + apply hits_In in Hi, Hj. right. exists i, j. tauto.
  - intros [[i [Hc [Hh Hi]]]|[i [j [Hij [Hi [Hj [Hhi Hhj]]]]]]].
    + left. exists i. split; [apply hits_In; auto|apply Z.leb_le; assumption].
    + right. exists i, j. split; [assumption|]. split; apply hits_In; auto.
Qed.

(** * Non-vacuity: window edge.  Hash 5 sits at indices 0 and 4 of an 8-entry list.  With clock 8
    both are candidates (third occurrence); with clock 7 index 0 lies before the last
    irreversible move; with firstNew = 4 the single hit at index 4 is inside the search tree. *)
Example rep_iff_example :
  canClaimDrawRep 8 5%N [5;1;2;3;5;1;2;3;9;9]%N 8 8 = Some true /\
  repCondition 8 5%N [5;1;2;3;5;1;2;3;9;9]%N 8 8 /\
  canClaimDrawRep 7 5%N [5;1;2;3;5;1;2;3;9;9]%N 8 8 = Some false /\
  ~ repCondition 7 5%N [5;1;2;3;5;1;2;3;9;9]%N 8 8 /\
  canClaimDrawRep 7 5%N [5;1;2;3;5;1;2;3;9;9]%N 8 4 = Some true /\
  repCondition 7 5%N [5;1;2;3;5;1;2;3;9;9]%N 8 4.
Proof.
  split; [reflexivity|]. split; [apply repSpecb_spec; reflexivity|].
  split; [reflexivity|]. split; [intro H; apply repSpecb_spec in H; discriminate|].
  split; [reflexivity|]. apply repSpecb_spec; reflexivity.
Qed.
