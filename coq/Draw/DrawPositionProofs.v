(** C11 — proofs at position level: third occurrence is detected (and nothing else is, under
    collision-freedom), and no occurrence outside the clock window can be an equal position. *)
From Coq Require Import ZArith NArith List Bool Lia Arith.
From Texel Require Import Draw.Draw Draw.DrawSpec Draw.DrawProofs.
Import ListNotations.
Local Open Scope Z_scope.

(** * List facts *)
Section ListFacts.
  Variable A : Type.
  Variable dec : forall a b : A, {a = b} + {a <> b}.

  Lemma count_ge1_idx : forall (L : list A) x,
    (1 <= count_occ dec L x)%nat <-> exists i, nth_error L i = Some x.
  Proof.
    intros L x. rewrite <- (count_occ_In dec L x). split.
    - apply In_nth_error.
    - intros [i H]. eapply nth_error_In; eassumption.
  Qed.

  Lemma count_ge2_idx : forall (L : list A) x,
    (2 <= count_occ dec L x)%nat <->
    exists i j, (i < j)%nat /\ nth_error L i = Some x /\ nth_error L j = Some x.
  Proof.
    induction L as [|a t IH]; intros x.
    - cbn. split; [lia|]. intros [i [j [_ [H _]]]]. destruct i; discriminate.
    - cbn [count_occ]. destruct (dec a x) as [->|Hne].
      + split.
        * intro H. assert (H1 : (1 <= count_occ dec t x)%nat) by lia.
          apply count_ge1_idx in H1. destruct H1 as [j Hj].
          exists O, (S j). cbn. split; [lia|auto].
        * intros [i [j [Hij [Hi Hj]]]]. destruct j as [|j]; [lia|]. cbn in Hj.
          assert (H1 : (1 <= count_occ dec t x)%nat) by (apply count_ge1_idx; eauto). lia.
      + rewrite IH. split.
        * intros [i [j [Hij [Hi Hj]]]]. exists (S i), (S j). cbn. split; [lia|auto].
        * intros [i [j [Hij [Hi Hj]]]].
          destruct i as [|i]; [cbn in Hi; congruence|].
          destruct j as [|j]; [lia|]. exists i, j. cbn in Hi, Hj. split; [lia|auto].
  Qed.

  Lemma nth_error_skipn' : forall k (L : list A) i, nth_error (skipn k L) i = nth_error L (k + i).
  Proof.
    induction k as [|k IH]; intros L i; [reflexivity|].
    destruct L as [|a t]; cbn [skipn Nat.add nth_error]; [destruct i; reflexivity|apply IH].
  Qed.

  Lemma count_zero_idx : forall (L : list A) x,
    (forall i, nth_error L i <> Some x) -> count_occ dec L x = O.
  Proof.
    intros L x H. apply count_occ_not_In. intro Hin.
    apply In_nth_error in Hin. destruct Hin as [i Hi]. exact (H i Hi).
  Qed.
End ListFacts.

(** * Third occurrence *)
Section Third.
  Variable P : Type.
  Variable P_eq_dec : forall a b : P, {a = b} + {a <> b}.
  (** the Zobrist key is a function of the draw-rule position (C02: equal positions have equal
      keys — here by construction, [key] being a function on [P]) *)
  Variable key : P -> N.

  Variable ps : list P.       (* earlier positions (game history, then search path), oldest first *)
  Variable cur : P.           (* current position *)
  Variable hmc : Z.           (* its half-move clock *)
  Variable junk : list N.     (* unused tail of the posHashList vector *)

  Let n := Z.of_nat (length ps).
  Let l := map key ps ++ junk.

  (** chess facts about the history, to be discharged from the position model:
      - the side to move alternates, so positions an odd number of plies apart differ;
      - a position cannot recur after exactly two plies (each side has moved one piece). *)
  Hypothesis odd_distance_differs :
    forall i, (i < length ps)%nat -> Z.odd (n - Z.of_nat i) = true -> nth_error ps i <> Some cur.
  Hypothesis two_plies_differ :
    forall i, n - Z.of_nat i = 2 -> nth_error ps i <> Some cur.

  Lemma l_hit_of_pos : forall i, nth_error ps i = Some cur -> hitAt l (key cur) (Z.of_nat i).
  Proof.
    intros i H. unfold hitAt, l. split; [lia|]. rewrite Nat2Z.id.
    rewrite nth_error_app1.
    - rewrite nth_error_map, H. reflexivity.
    - rewrite map_length. apply nth_error_Some. congruence.
  Qed.

  Lemma window_idx : forall i,
    nth_error (sinceIrreversible P hmc ps) i = nth_error ps (length ps - Z.to_nat hmc + i).
  Proof. intro i. unfold sinceIrreversible. apply nth_error_skipn'. Qed.

  (** an occurrence inside the window is a candidate of the repetition test *)
  Lemma occurrence_candidate : forall i,
    nth_error (sinceIrreversible P hmc ps) i = Some cur ->
    candidate hmc n (Z.of_nat (length ps - Z.to_nat hmc + i)).
  Proof.
    intros i H. rewrite window_idx in H.
    set (k := (length ps - Z.to_nat hmc + i)%nat) in *.
    assert (Hk : (k < length ps)%nat) by (apply nth_error_Some; congruence).
    assert (Hw : Z.max 0 (n - hmc) <= Z.of_nat k) by (unfold n, k; lia).
    unfold candidate, inClockWindow.
    destruct (Z.odd (n - Z.of_nat k)) eqn:Eo.
    { exfalso. exact (odd_distance_differs k Hk Eo H). }
    assert (Ee : Z.even (n - Z.of_nat k) = true) by (rewrite <- Z.negb_odd, Eo; reflexivity).
    assert (n - Z.of_nat k <> 2) by (intro E2; exact (two_plies_differ k E2 H)).
    assert (n - Z.of_nat k <> 1 /\ n - Z.of_nat k <> 3).
    { split; intro E; rewrite E in Ee; discriminate. }
    unfold n in *. repeat split; try lia; assumption.
  Qed.

  (** C11_third_occurrence, direction "a third occurrence is always detected" — for every
      history length, parity, clock value and every firstNew *)
  Theorem third_occurrence_detected : forall firstNew,
    thirdOccurrence P P_eq_dec hmc ps cur ->
    canClaimDrawRep hmc (key cur) l n firstNew = Some true.
  Proof.
    intros fn H. unfold thirdOccurrence, priorOccurrences in H.
    apply count_ge2_idx in H. destruct H as [i [j [Hij [Hi Hj]]]].
    assert (Hs : 0 <= n <= Z.of_nat (length l)).
    { unfold n, l. rewrite app_length, map_length. lia. }
    destruct (canClaimDrawRep_iff hmc (key cur) l n fn Hs) as [b [-> Hb]].
    f_equal. apply Hb. right.
    exists (Z.of_nat (length ps - Z.to_nat hmc + i)), (Z.of_nat (length ps - Z.to_nat hmc + j)).
    split; [lia|].
    split; [apply occurrence_candidate; assumption|].
    split; [apply occurrence_candidate; assumption|].
    rewrite window_idx in Hi, Hj.
    split; apply l_hit_of_pos; assumption.
  Qed.

  (** collision-freedom: among the positions of the history, only positions equal to the
      current one have its key *)
  Hypothesis collision_free : forall i p, nth_error ps i = Some p -> key p = key cur -> p = cur.

  Lemma pos_of_l_hit : forall i, 0 <= i < n -> hitAt l (key cur) i -> nth_error ps (Z.to_nat i) = Some cur.
  Proof.
    intros i Hi [_ H]. unfold l in H.
    rewrite nth_error_app1 in H by (rewrite map_length; unfold n in Hi; lia).
    rewrite nth_error_map in H.
    destruct (nth_error ps (Z.to_nat i)) as [p|] eqn:E; [|discriminate].
    cbn in H. inversion H as [Hk]. rewrite (collision_free _ _ E Hk). reflexivity.
  Qed.

  Lemma candidate_in_window : forall i, candidate hmc n i -> nth_error ps (Z.to_nat i) = Some cur ->
    exists k, nth_error (sinceIrreversible P hmc ps) k = Some cur /\
              Z.to_nat i = (length ps - Z.to_nat hmc + k)%nat.
  Proof.
    intros i [[Hw1 Hw2] _] H. exists (Z.to_nat i - (length ps - Z.to_nat hmc))%nat.
    assert (E : (length ps - Z.to_nat hmc + (Z.to_nat i - (length ps - Z.to_nat hmc)) = Z.to_nat i)%nat)
      by (unfold n in *; lia).
    rewrite window_idx, E. auto.
  Qed.

  (** every "draw by repetition" answer is a real repetition: at least one earlier equal
      position in the window, and two unless the hit lies in the search tree (index >= firstNew) *)
  Theorem rep_answer_is_repetition : forall firstNew,
    canClaimDrawRep hmc (key cur) l n firstNew = Some true ->
    (1 <= priorOccurrences P P_eq_dec hmc ps cur)%nat /\
    (thirdOccurrence P P_eq_dec hmc ps cur \/
     exists i, firstNew <= i < n /\ candidate hmc n i /\ nth_error ps (Z.to_nat i) = Some cur).
  Proof.
    intros fn H.
    assert (Hs : 0 <= n <= Z.of_nat (length l)).
    { unfold n, l. rewrite app_length, map_length. lia. }
    destruct (canClaimDrawRep_iff hmc (key cur) l n fn Hs) as [b [Hb1 Hb]].
    rewrite H in Hb1. inversion Hb1; subst b. clear Hb1.
    assert (Hc : repCondition hmc (key cur) l n fn) by (apply Hb; reflexivity).
    destruct Hc as [[i [Hci [Hhi Hfi]]]|[i [j [Hij [Hci [Hcj [Hhi Hhj]]]]]]].
    - assert (Hr : 0 <= i < n) by (unfold candidate, inClockWindow in Hci; lia).
      pose proof (pos_of_l_hit i Hr Hhi) as Hp.
      destruct (candidate_in_window i Hci Hp) as [k [Hk _]].
      split; [apply count_ge1_idx; eauto|]. right. exists i. split; [lia|]. split; assumption.
    - assert (Hri : 0 <= i < n) by (unfold candidate, inClockWindow in Hci; lia).
      assert (Hrj : 0 <= j < n) by (unfold candidate, inClockWindow in Hcj; lia).
      pose proof (pos_of_l_hit i Hri Hhi) as Hpi. pose proof (pos_of_l_hit j Hrj Hhj) as Hpj.
      destruct (candidate_in_window i Hci Hpi) as [ki [Hki Ei]].
      destruct (candidate_in_window j Hcj Hpj) as [kj [Hkj Ej]].
      assert (T : (2 <= priorOccurrences P P_eq_dec hmc ps cur)%nat).
      { apply count_ge2_idx. exists ki, kj. split; [lia|auto]. }
      split; [lia|left; exact T].
  Qed.

  (** C11_third_occurrence, converse, for claims made outside the tree (firstNew beyond the last
      candidate, as ComputerPlayer::canClaimDraw and ply 1 of a search use it) *)
  Corollary rep_claim_is_third_occurrence : forall firstNew, n - 4 < firstNew ->
    canClaimDrawRep hmc (key cur) l n firstNew = Some true ->
    thirdOccurrence P P_eq_dec hmc ps cur.
  Proof.
    intros fn Hf H. destruct (rep_answer_is_repetition fn H) as [_ [T|[i [Hi [Hc _]]]]]; [exact T|].
    unfold candidate in Hc. lia.
  Qed.
End Third.

Lemma even_of_nat : forall m, Z.even (Z.of_nat m) = Nat.even m.
Proof.
  induction m as [|m IH]; [reflexivity|].
  rewrite Nat2Z.inj_succ, Z.even_succ, Nat.even_succ, <- Z.negb_even, <- Nat.negb_even, IH.
  reflexivity.
Qed.

(** side-to-move alternation implies the odd-distance hypothesis *)
Section Alternation.
  Variable P : Type.
  Variable white : P -> bool.

  Lemma alternation_parity : forall (q : list P) d i a b,
    (forall i a b, nth_error q i = Some a -> nth_error q (S i) = Some b -> white b = negb (white a)) ->
    nth_error q i = Some a -> nth_error q (i + d) = Some b ->
    white b = if Nat.odd d then negb (white a) else white a.
  Proof.
    intros q d. induction d as [|d IH]; intros i a b Halt Ha Hb.
    - rewrite Nat.add_0_r in Hb. cbn. congruence.
    - rewrite Nat.add_succ_r in Hb.
      destruct (nth_error q (i + d)) as [c|] eqn:Ec.
      + rewrite (Halt _ _ _ Ec Hb), (IH i a c Halt Ha Ec), Nat.odd_succ, <- Nat.negb_odd.
        destruct (Nat.odd d); cbn; [rewrite negb_involutive|]; reflexivity.
      + exfalso. apply nth_error_None in Ec.
        assert (nth_error q (S (i + d)) = None) by (apply nth_error_None; lia). congruence.
  Qed.

  Theorem odd_distance_from_alternation : forall (ps : list P) cur,
    (forall i a b, nth_error (ps ++ [cur]) i = Some a -> nth_error (ps ++ [cur]) (S i) = Some b ->
                   white b = negb (white a)) ->
    forall i, (i < length ps)%nat -> Z.odd (Z.of_nat (length ps) - Z.of_nat i) = true ->
              nth_error ps i <> Some cur.
  Proof.
    intros ps cur Halt i Hi Ho H.
    assert (Ha : nth_error (ps ++ [cur]) i = Some cur) by (rewrite nth_error_app1; assumption).
    assert (Hb : nth_error (ps ++ [cur]) (i + (length ps - i)) = Some cur).
    { replace (i + (length ps - i))%nat with (length ps) by lia.
      rewrite nth_error_app2, Nat.sub_diag by lia. reflexivity. }
    pose proof (alternation_parity _ _ _ _ _ Halt Ha Hb) as E.
    assert (Od : Nat.odd (length ps - i) = true).
    { rewrite <- Nat2Z.inj_sub in Ho by lia.
      rewrite <- Ho, <- Z.negb_even, <- Nat.negb_even, even_of_nat. reflexivity. }
    rewrite Od in E. destruct (white cur); discriminate.
  Qed.
End Alternation.

(** * Window completeness: nothing before the last irreversible move can recur *)
Section Window.
  Variable P : Type.
  (** a potential that equal positions share (being a function of the position) and that every
      capture or pawn move strictly decreases while no move increases it — e.g. total number of
      men * 64 + sum of the remaining distances of the pawns to their promotion rank *)
  Variable phi : P -> Z.
  Variable pos : nat -> P.       (* positions of the game + search path, pos n = current *)
  Variable clk : nat -> Z.       (* their half-move clocks *)
  Variable n : nat.

  Hypothesis clk0 : 0 <= clk 0%nat.
  Hypothesis moves : forall j, (j < n)%nat ->
    (clk (S j) = 0 /\ phi (pos (S j)) < phi (pos j)) \/
    (clk (S j) = clk j + 1 /\ phi (pos (S j)) <= phi (pos j)).

  Lemma clk_nonneg : forall m, (m <= n)%nat -> 0 <= clk m.
  Proof.
    induction m as [|m IH]; intro Hm; [exact clk0|].
    destruct (moves m) as [[E _]|[E _]]; [lia|lia|]. specialize (IH ltac:(lia)). lia.
  Qed.

  Lemma phi_mono : forall m j, (j <= m <= n)%nat -> phi (pos m) <= phi (pos j).
  Proof.
    induction m as [|m IH]; intros j Hj.
    - replace j with O by lia. lia.
    - destruct (Nat.eq_dec j (S m)) as [->|Hne]; [lia|].
      specialize (IH j ltac:(lia)). destruct (moves m) as [[_ H]|[_ H]]; lia.
  Qed.

  Lemma before_window_potential : forall m, (m <= n)%nat ->
    forall j, (j <= m)%nat -> Z.of_nat j < Z.of_nat m - clk m -> phi (pos m) < phi (pos j).
  Proof.
    induction m as [|m IH]; intros Hm j Hj Hlt.
    - replace j with O in * by lia. cbn in Hlt. lia.
    - destruct (moves m) as [[Ec Hp]|[Ec Hp]]; [lia| |].
      + assert (j <= m)%nat by lia.
        pose proof (phi_mono m j ltac:(lia)). lia.
      + pose proof (clk_nonneg m ltac:(lia)).
        assert (j <= m)%nat by lia.
        specialize (IH ltac:(lia) j ltac:(lia) ltac:(lia)). lia.
  Qed.

  (** C11_window_complete *)
  Theorem window_complete : forall j, (j <= n)%nat -> Z.of_nat j < Z.of_nat n - clk n ->
    pos j <> pos n.
  Proof.
    intros j Hj Hlt E.
    pose proof (before_window_potential n (le_n n) j Hj Hlt) as H. rewrite E in H. lia.
  Qed.
End Window.

(** consequence for counting: occurrences over the whole game = occurrences in the window *)
Section WindowCount.
  Variable P : Type.
  Variable P_eq_dec : forall a b : P, {a = b} + {a <> b}.
  Variable phi : P -> Z.
  Variable ps : list P.
  Variable cur : P.
  Variable clk : nat -> Z.

  Let pos := fun i => nth i (ps ++ [cur]) cur.
  Let n := length ps.

  Hypothesis clk0 : 0 <= clk 0%nat.
  Hypothesis moves : forall j, (j < n)%nat ->
    (clk (S j) = 0 /\ phi (pos (S j)) < phi (pos j)) \/
    (clk (S j) = clk j + 1 /\ phi (pos (S j)) <= phi (pos j)).

  Theorem occurrences_all_in_window :
    priorOccurrencesAll P P_eq_dec ps cur = priorOccurrences P P_eq_dec (clk n) ps cur.
  Proof.
    unfold priorOccurrencesAll, priorOccurrences, sinceIrreversible.
    set (k := (length ps - Z.to_nat (clk n))%nat).
    rewrite <- (firstn_skipn k ps) at 1. rewrite count_occ_app.
    rewrite (count_zero_idx P P_eq_dec (firstn k ps) cur); [reflexivity|].
    intros i Hi.
    assert (Hik : (i < k)%nat).
    { assert (nth_error (firstn k ps) i <> None) by congruence.
      apply nth_error_Some in H. rewrite firstn_length in H. lia. }
    assert (Hps : nth_error ps i = Some cur).
    { rewrite <- (firstn_skipn k ps). rewrite nth_error_app1; [assumption|].
      rewrite firstn_length. unfold k in *. lia. }
    assert (Hin : (i < length ps)%nat) by (apply nth_error_Some; congruence).
    apply (window_complete P phi pos clk n clk0 moves i); [unfold n; lia| |].
    - unfold k, n in *. lia.
    - unfold pos. rewrite app_nth1 by assumption.
      rewrite (nth_error_nth ps i cur Hps).
      rewrite app_nth2 by (unfold n; lia). unfold n. rewrite Nat.sub_diag. reflexivity.
  Qed.
End WindowCount.

(** * Non-vacuity examples *)

(** a history of 9 positions A B C D A B C D A(cur): two earlier A's at distance 4 and 8 *)
Example third_occurrence_example :
  thirdOccurrence N N.eq_dec 20 [1;2;3;4;1;2;3;4]%N 1%N /\
  canClaimDrawRep 20 1%N [1;2;3;4;1;2;3;4;0;0]%N 8 8 = Some true /\
  (* clock 7: the first A lies before the last irreversible move *)
  ~ thirdOccurrence N N.eq_dec 7 [1;2;3;4;1;2;3;4]%N 1%N /\
  canClaimDrawRep 7 1%N [1;2;3;4;1;2;3;4;0;0]%N 8 8 = Some false /\
  (* ... but inside the search tree (firstNew = 3) the second occurrence already counts *)
  canClaimDrawRep 7 1%N [1;2;3;4;1;2;3;4;0;0]%N 8 3 = Some true.
Proof.
  repeat split; try reflexivity.
  - unfold thirdOccurrence. assert (E : priorOccurrences N N.eq_dec 20 [1;2;3;4;1;2;3;4]%N 1%N = 2%nat) by (vm_compute; reflexivity). rewrite E. lia.
  - unfold thirdOccurrence. assert (E : priorOccurrences N N.eq_dec 7 [1;2;3;4;1;2;3;4]%N 1%N = 1%nat) by (vm_compute; reflexivity). rewrite E. lia.
Qed.

(** the hypotheses of [third_occurrence_detected] hold for that history (identity as key) *)
Example third_occurrence_hyps :
  (forall i, (i < 8)%nat -> Z.odd (8 - Z.of_nat i) = true -> nth_error [1;2;3;4;1;2;3;4]%N i <> Some 1%N) /\
  (forall i, 8 - Z.of_nat i = 2 -> nth_error [1;2;3;4;1;2;3;4]%N i <> Some 1%N).
Proof.
  split.
  - intros i Hi. do 8 (destruct i as [|i]; [cbn; try discriminate; intros; discriminate|]). lia.
  - intros i Hi. assert (i = 6%nat) by lia. subst. cbn. discriminate.
Qed.

(** a concrete game for [window_complete]: potentials 10 10 9 9 9, clocks 0 1 0 1 2 *)
Example window_complete_example :
  let pos := fun i : nat => nth i [5;6;7;8;7]%N 0%N in
  let clk := fun i : nat => nth i [0;1;0;1;2] 0 in
  let phi := fun p : N => if (p <? 7)%N then 10 else 9 in
  (forall j, (j < 4)%nat -> (clk (S j) = 0 /\ phi (pos (S j)) < phi (pos j)) \/
                            (clk (S j) = clk j + 1 /\ phi (pos (S j)) <= phi (pos j))) /\
  pos 2%nat = pos 4%nat /\ pos 0%nat <> pos 4%nat /\ pos 1%nat <> pos 4%nat.
Proof.
  cbn. split; [|repeat split; discriminate].
  intros j Hj. do 4 (destruct j as [|j]; [cbn; lia|]). lia.
Qed.
