(** C02 — position state survives any make/unmake history intact.
    Only statements; every proof is [exact <lemma>] into Chess/Position{Proofs*,Theorems,Examples}.v.
    Model: Chess/Position.v, Chess/Fen.v (tied to lib/texellib/position.{hpp,cpp}, material.{hpp,cpp},
    textio.cpp by the correspondence check); specification: Chess/PositionSpec.v
    ([Consistent] = every redundant field equals its value recomputed from the board, [moveOk] =
    the shape of a pseudo-legal move, [normEmpty] = forget the dead pieceTypeBB_[EMPTY] entry).
    [zk] ranges over arbitrary Zobrist tables whose EMPTY row is zero; [zk0] is the table
    regenerated from the engine (coq/gen/ZobristTables.v). *)
From Coq Require Import ZArith NArith List Bool.
From Texel Require Import Chess.Types Chess.Position Chess.PositionSpec Chess.PositionProofs3
  Chess.PositionTheorems Chess.Fen Chess.PositionInst Chess.PositionExamples Chess.PositionSources Chess.PositionB Chess.PositionSerialize Chess.PositionNoUB Chess.PositionKings Chess.PositionFen Chess.PositionFenExample.
Import ListNotations.
Local Open Scope N_scope.

(** taking a move back restores the position bit for bit (all 28 live fields; the EMPTY piece
    board, which no code reads, is excluded: see C02_emptyBB_slot_not_restored_note) *)
Theorem C02_unmake_make : forall zk, emptyKeysZero zk -> forall p m,
  Consistent zk p -> moveOk p m = true ->
  normEmpty (unMakeMove zk (fst (makeMove zk p m)) m (snd (makeMove zk p m))) = normEmpty p.
Proof. exact unmake_make. Qed.
Print Assumptions C02_unmake_make.

(** the same from any position that has the board, side and move number of the made position
    (covers take-back after null-move style edits), and the invariant is kept *)
Theorem C02_unmake_make_general : forall zk, emptyKeysZero zk -> forall p m,
  Consistent zk p -> moveOk p m = true ->
  Consistent zk (fst (makeMove zk p m)) /\
  forall q, Consistent zk q -> matchesMade zk p m q ->
    Consistent zk (unMakeMove zk q m (snd (makeMove zk p m))) /\
    normEmpty (unMakeMove zk q m (snd (makeMove zk p m))) = normEmpty p.
Proof. exact make_unmake_general. Qed.
Print Assumptions C02_unmake_make_general.

(** what normEmpty-equality means field by field *)
Theorem C02_unmake_make_fields : forall p q, normEmpty p = normEmpty q ->
  squares p = squares q /\ (forall pc, 1 <= pc -> ptBB p pc = ptBB q pc) /\ whiteBB p = whiteBB q /\ blackBB p = blackBB q /\
  whiteMove p = whiteMove q /\ halfMoveClock p = halfMoveClock q /\ fullMoveCounter p = fullMoveCounter q /\
  castleMask p = castleMask q /\ epSquare p = epSquare q /\ hashKey p = hashKey q /\ pHashKey p = pHashKey q /\
  matId p = matId q /\ wMtrl p = wMtrl q /\ bMtrl p = bMtrl q /\ wMtrlPawns p = wMtrlPawns q /\ bMtrlPawns p = bMtrlPawns q.
Proof. exact normEmpty_fields. Qed.
Print Assumptions C02_unmake_make_fields.

(** documented fact, not a violation: the slot pieceTypeBB_[EMPTY] (ignored by operator==,
    drawRuleEquals and every reader; it carries no position information) is not restored
    (witness: start position read from FEN, 1.e4, take back); this is why the theorems compare
    positions through [normEmpty] *)
Theorem C02_emptyBB_slot_not_restored_note :
  exists p m, Consistent zk0 p /\ moveOk p m = true /\
    unMakeMove zk0 (fst (makeMove zk0 p m)) m (snd (makeMove zk0 p m)) <> p.
Proof. exact unmake_make_emptyBB_refuted. Qed.
Print Assumptions C02_emptyBB_slot_not_restored_note.

(** the bitboard-only variants used by MoveGen::isLegal restore the board, the twelve piece
    boards and the colour boards, and never touch any other field *)
Theorem C02_unmake_make_B : forall zk, emptyKeysZero zk -> forall p m,
  Consistent zk p -> moveOk p m = true ->
  let q := unMakeMoveB (fst (makeMoveB p m)) m (snd (makeMoveB p m)) in
  squares q = squares p /\ (forall pc, 1 <= pc -> ptBB q pc = ptBB p pc) /\
  whiteBB q = whiteBB p /\ blackBB q = blackBB p /\ rest q = rest p.
Proof. exact unmake_make_B. Qed.
Print Assumptions C02_unmake_make_B.

(** and makeMoveB computes exactly the board part of makeMove (what MoveGen::isLegal tests is
    the position after the move) *)
Theorem C02_makeMoveB_simulates : forall zk p m, moveOk p m = true ->
  bbpart (fst (makeMoveB p m)) = bbpart (fst (makeMove zk p m)).
Proof. exact makeMoveB_simulates. Qed.
Print Assumptions C02_makeMoveB_simulates.

(** the SEE variants *)
Theorem C02_unmake_make_SEE : forall zk p m,
  Consistent zk p -> moveOk p m = true ->
  let q := unMakeSEEMove (fst (makeSEEMove p m)) m (snd (makeSEEMove p m)) in
  squares q = squares p /\ (forall pc, 1 <= pc <= 12 -> ptBB q pc = ptBB p pc) /\
  whiteBB q = whiteBB p /\ blackBB q = blackBB p /\ whiteMove q = whiteMove p /\ epSquare q = epSquare p.
Proof. exact unmake_make_SEE. Qed.
Print Assumptions C02_unmake_make_SEE.

(** representation invariant: preserved by every operation, hence by every history of
    make / take-back / null-move style edits *)
Theorem C02_rep_invariant : forall zk, emptyKeysZero zk -> forall ops s0,
  HInv zk s0 -> HInv zk (fold_left (hstep zk) ops s0).
Proof. exact history_invariant. Qed.
Print Assumptions C02_rep_invariant.

Theorem C02_rep_invariant_takeback : forall zk, emptyKeysZero zk -> forall s prev m st,
  HInv zk s -> h_stack s = (prev, m) :: st -> matchesMadeb zk prev m (h_cur s) = true ->
  normEmpty (h_cur (hstep zk s HTakeBack)) = normEmpty prev /\ h_stack (hstep zk s HTakeBack) = st.
Proof. exact takeback_restores. Qed.
Print Assumptions C02_rep_invariant_takeback.

(** the elementary operations *)
Theorem C02_rep_invariant_ops : forall zk, emptyKeysZero zk -> forall k p,
  ConsistentX zk k p ->
  (forall sq pc, sq < 64 -> pc < 13 -> ConsistentX zk k (setPiece zk p sq pc)) /\
  (forall sq, sq < 64 -> ConsistentX zk k (clearPiece zk p sq)) /\
  (forall b, ConsistentX zk k (setWhiteMove zk p b)) /\
  (forall ep, ConsistentX zk k (setEpSquare zk p ep)) /\
  (forall cm, ConsistentX zk k (setCastleMask zk p cm)) /\
  (forall h, ConsistentX zk k (setHalfMoveClock p h)).
Proof. exact ops_consistent. Qed.
Print Assumptions C02_rep_invariant_ops.

(** closure of well-formedness under moves: besides [Consistent] (C02_unmake_make_general) the
    number of kings of each colour is kept by makeMove unless a king is captured ([kc K sqs] counts
    the squares holding K) *)
Theorem C02_kings_preserved : forall zk p m K,
  Consistent zk p -> moveOk p m = true -> K = WKING \/ K = BKING -> getPiece p (mto m) <> K ->
  kc K (squares (fst (makeMove zk p m))) = kc K (squares p).
Proof. exact kings_preserved. Qed.
Print Assumptions C02_kings_preserved.

(** every position accepted by the FEN reader satisfies the invariant (so histories may start
    from any FEN) *)
Theorem C02_rep_invariant_readFEN : forall zk, emptyKeysZero zk -> forall s p,
  readFEN zk s = FenOk p -> Consistent zk p.
Proof. exact readFEN_consistent. Qed.
Print Assumptions C02_rep_invariant_readFEN.

(** every position produced by deSerialize from words whose nibbles are piece codes satisfies
    the invariant ([deserPairs d] = the 64 (square, nibble) pairs in the order of the loop) *)
Theorem C02_rep_invariant_deSerialize : forall zk, emptyKeysZero zk -> forall d,
  Forall (fun o => snd o < 13) (deserPairs d) -> Consistent zk (deSerialize zk d).
Proof. exact deSerialize_consistent. Qed.
Print Assumptions C02_rep_invariant_deSerialize.

Theorem C02_rep_invariant_decidable : forall zk p, consistentb zk p = true -> Consistent zk p.
Proof. exact consistentb_sound. Qed.
Print Assumptions C02_rep_invariant_decidable.

(** positions equal under the rules have equal keys *)
Theorem C02_equal_positions_equal_keys : forall zk p q,
  Consistent zk p -> Consistent zk q -> drawRuleEquals p q = true ->
  hashKey p = hashKey q /\ pHashKey p = pHashKey q /\ matId p = matId q /\
  (halfMoveClock p = halfMoveClock q -> forall mp, historyHash zk mp p = historyHash zk mp q) /\
  (halfMoveClock p = halfMoveClock q -> bookHash zk p = bookHash zk q).
Proof. exact equal_positions_equal_keys. Qed.
Print Assumptions C02_equal_positions_equal_keys.

(** material identifier: in range exactly while the black weight is below 2^15 ... *)
Theorem C02_matid_range : forall zk p,
  Consistent zk p -> (whiteWeight (squares p) < 65536)%Z ->
  (fitsInt (matId p) = true <-> (blackWeight (squares p) < 32768)%Z).
Proof. exact matid_overflow_iff. Qed.
Print Assumptions C02_matid_range.

(** ... and six black queens (reachable by promotions) exceed it: the C++ [int] accumulator
    overflows — finding F1 *)
Theorem C02_matid_overflow_refuted :
  exists p, Consistent zk0 p /\ readFEN zk0 sixQueensFEN = FenOk p /\ fitsInt (matId p) = false /\
            matId p = 2321154048%Z /\ wrapInt (matId p) = (-1973813248)%Z.
Proof. exact matid_overflow_refuted. Qed.
Print Assumptions C02_matid_overflow_refuted.

(** after the fix (unsigned accumulator): the held value is the exact identifier mod 2^32, for
    every history *)
Theorem C02_matid_wrap_consistent : forall zk p,
  Consistent zk p -> wrapInt (matId p) = wrapInt (matIdOf (squares p)).
Proof. exact matid_wrap_consistent. Qed.
Print Assumptions C02_matid_wrap_consistent.

(** array indices: partial form (piece codes, e.p. key index, move-count key index, castle masks) *)
Theorem C02_no_ub_partial : forall zk p s,
  Consistent zk p -> getPiece p s < 13 /\ (epInb (epSquare p) = true -> epIndex (epSquare p) < 9) /\
  ((0 <= halfMoveClock p)%Z -> moveCntInb (Z.min (halfMoveClock p) 100) = true) /\
  castleSqMask s < 16 /\ N.land (N.land (castleMask p) (castleSqMask (mfrom (mkMove s s 0)))) (castleSqMask s) < 16.
Proof. exact index_ranges. Qed.
Print Assumptions C02_no_ub_partial.
(** makeMove: every [int] field of the result fits 32 bits and every table index is in range,
    provided the material identifier fits (which C02_matid_range characterises) and the
    counters are below INT_MAX (the FEN reader accepts 2147483647, for which `halfMoveClock++`
    overflows); the scalar fields of the result are given explicitly *)
Theorem C02_no_ub : forall zk, emptyKeysZero zk -> forall p m,
  Consistent zk p -> moveOk p m = true -> epInb (epSquare p) = true -> intsFit p = true ->
  (halfMoveClock p < INT_MAX)%Z -> (fullMoveCounter p < INT_MAX)%Z ->
  let q := fst (makeMove zk p m) in
  fitsInt (matId q) = true ->
  intsFit q = true /\ epInb (epSquare q) = true /\ castleMask q < 16 /\
  Forall (fun pc => pc < 13) (squares q) /\ length (squares q) = 64%nat /\ length (pieceTypeBB q) = 13%nat /\
  mfrom m < 64 /\ mto m < 64.
Proof. exact makeMove_no_ub. Qed.
Print Assumptions C02_no_ub.

Theorem C02_makeMove_scalars : forall zk p m, madeScalarsOk p m (fst (makeMove zk p m)).
Proof. exact makeMove_scalars. Qed.
Print Assumptions C02_makeMove_scalars.

(** serialisation: false outside 8-bit / 16-bit counters (finding F6) *)
Theorem C02_serialize_roundtrip_refuted :
  (exists p, readFEN zk0 kk300FEN = FenOk p /\ Consistent zk0 p /\ halfMoveClock p = 300%Z /\
             halfMoveClock (deSerialize zk0 (serialize p)) = 44%Z) /\
  (exists p, readFEN zk0 kk70000FEN = FenOk p /\ Consistent zk0 p /\ fullMoveCounter p = 70000%Z /\
             fullMoveCounter (deSerialize zk0 (serialize p)) = 4464%Z).
Proof. exact serialize_roundtrip_refuted. Qed.
Print Assumptions C02_serialize_roundtrip_refuted.
(** inside the counter ranges the compact form round-trips (all live fields) *)
Theorem C02_serialize_roundtrip : forall zk, emptyKeysZero zk -> forall p,
  Consistent zk p -> (0 <= halfMoveClock p < 256)%Z -> (0 <= fullMoveCounter p < 65536)%Z ->
  castleMask p < 16 -> epInb (epSquare p) = true ->
  normEmpty (deSerialize zk (serialize p)) = normEmpty p.
Proof. exact serialize_roundtrip. Qed.
Print Assumptions C02_serialize_roundtrip.

(** FEN round trip *)
(** [fenAcceptable zk p] (Chess/PositionFen.v): p is consistent, has one king each, no pawn on the
    first/last rank, the side not to move is not in check, castle mask < 16 and compatible with
    king/rook placement, counters in 0..INT_MAX, e.p. square absent or plausible (right rank, empty,
    pawn behind it).  Then the reader gives back p, up to its documented e.p. fix-up. *)
Theorem C02_fen_roundtrip : forall zk, emptyKeysZero zk -> forall p, fenAcceptable zk p ->
  exists q, normEmpty q = normEmpty p /\ readFEN zk (toFEN p) = FenOk (fixupEPSquare zk q).
Proof. exact fen_roundtrip. Qed.
Print Assumptions C02_fen_roundtrip.

Theorem C02_fen_roundtrip_nonvacuous : fenAcceptable zk0 startPos.
Proof. exact startPos_acceptable. Qed.
Print Assumptions C02_fen_roundtrip_nonvacuous.

Theorem C02_fen_roundtrip_no_ep : forall zk, emptyKeysZero zk -> forall p, fenAcceptable zk p ->
  epSquare p = (-1)%Z -> exists q, normEmpty q = normEmpty p /\ readFEN zk (toFEN p) = FenOk q.
Proof. exact fen_roundtrip_no_ep. Qed.
Print Assumptions C02_fen_roundtrip_no_ep.

Theorem C02_fen_roundtrip_partial : toFEN startPos = startFEN /\ readFEN zk0 (toFEN startPos) = FenOk startPos.
Proof. exact fen_roundtrip_example. Qed.
Print Assumptions C02_fen_roundtrip_partial.

(** the regenerated tables satisfy the hypothesis of the theorems above *)
Theorem C02_tables_ok : emptyKeysZero zk0 /\ keysWF zk0 = true.
Proof. exact (conj zk0_emptyKeysZero zk0_wf). Qed.
Print Assumptions C02_tables_ok.
