(** C02 — position state survives any make/unmake history intact.
    Only statements; every proof is [exact <lemma>] into Chess/PositionProofs*.v.
    Model: Chess/Position.v, Chess/Fen.v (tied to lib/texellib/position.{hpp,cpp}, material.hpp,
    textio.cpp by the correspondence check); specification: Chess/PositionSpec.v. *)
From Coq Require Import ZArith NArith List Bool.
From Texel Require Import Chess.Types Chess.Position Chess.PositionSpec Chess.PositionProofs.
Import ListNotations.
Local Open Scope N_scope.

Theorem C02_setPiece_consistent : forall zk, emptyKeysZero zk -> forall k p sq pc,
  ConsistentX zk k p -> sq < 64 -> pc < 13 -> ConsistentX zk k (setPiece zk p sq pc).
Proof. intros zk H. exact (setPiece_consistent zk). Qed.
Print Assumptions C02_setPiece_consistent.
