(** C14 — Clear Hash makes the next search identical to a fresh start.
    Only statements; every proof is [exact <lemma>] into Persist/*Proofs.v, Persist/PersistTheorems.v.

    Model: Persist/PTable.v (transposition table with generation and replacement test, history,
    killers, eval cache), Persist/Persist.v (persistent state of a UCI session; commands Search
    (an oracle), SetOption, UciNewGame, ClearHash; [relevant c s] = what a search started by
    command [c] reads of state [s]).  Tied to app/texel/enginecontrol.cpp,
    lib/texellib/{transpositionTable,history,killerTable,evaluate}.* by the op-sequence and
    in-process session correspondence (harness/persist_harness.cpp vs drivers/persist_driver.ml),
    which also decides which [Variant] the code matches.

    FRAME ASSUMPTION (not proved, exercised by the check): the effect of a real search on the
    persistent state is [search_prologue] followed by a list of table/cache writes, and the
    writes and the UCI output are a function of the command, a clock input and [relevant c s]
    (Section variables [oracle]/[output]); for depth/node-limited single-thread searches they
    do not depend on the clock input ([clock_independent]). *)
From Coq Require Import ZArith NArith List Bool.
From Texel Require Import Persist.PTable Persist.Persist Persist.PTableProofs Persist.PersistProofs Persist.PersistTheorems.
Import ListNotations.
Local Open Scope N_scope.

(** For every variant of the code in which clear() resets the generation, stale eval-cache
    entries are either dropped by Clear Hash or unreachable (contempt in the key), and every go
    assigns all limit members: after ANY
    history whose option changes were reverted, Clear Hash gives exactly the view of a fresh
    process with the same options, for every depth/node-limited probe command at full strength. *)
Theorem C14_clear_equiv_fresh : forall V oracle os h c,
  fixedV V = true ->
  st_opts (run V oracle h (init V os)) = st_opts (init V os) ->
  weak (st_opts (init V os)) = false ->
  sc_limited c = true ->
  relevant V c (run V oracle (h ++ [ClearHash]) (init V os)) = relevant V c (init V os).
Proof. exact clear_equiv_fresh. Qed.
Print Assumptions C14_clear_equiv_fresh.

(** For EVERY variant (in particular the current code) all other components of the view agree;
    only "the next search runs with generation 0", the stale eval-cache entries and (if a go does
    not assign all of them) the limit members can differ. *)
Theorem C14_clear_diff_characterised : forall V oracle os h c,
  st_opts (run V oracle h (init V os)) = st_opts (init V os) ->
  weak (st_opts (init V os)) = false ->
  sc_limited c = true ->
  mask_view (relevant V c (run V oracle (h ++ [ClearHash]) (init V os))) =
  mask_view (relevant V c (init V os)).
Proof. exact clear_diff_characterised. Qed.
Print Assumptions C14_clear_diff_characterised.

(** The current code (clear() keeps [generation]): refuted by fifteen prior searches — the probe
    search runs with generation 0, a fresh process with generation 1 (finding F5). *)
Theorem C14_clear_equiv_fresh_refuted : exists oracle os h c,
  st_opts (run current_code oracle h (init current_code os)) = st_opts (init current_code os) /\
  weak (st_opts (init current_code os)) = false /\ sc_limited c = true /\
  v_gen0 (relevant current_code c (run current_code oracle (h ++ [ClearHash]) (init current_code os))) = true /\
  v_gen0 (relevant current_code c (init current_code os)) = false.
Proof. exists no_writes, [], f5_history, probe_cmd. exact f5_witness. Qed.
Print Assumptions C14_clear_equiv_fresh_refuted.

(** With only the generation repaired: refuted by a search under a reverted Contempt value — its
    eval-cache entries survive Clear Hash and are read under the other contempt (finding F3). *)
Theorem C14_clear_equiv_fresh_refuted_evalcache : exists oracle os h c,
  st_opts (run gen_fixed_only oracle h (init gen_fixed_only os)) = st_opts (init gen_fixed_only os) /\
  weak (st_opts (init gen_fixed_only os)) = false /\ sc_limited c = true /\
  v_evalStale (relevant gen_fixed_only c (run gen_fixed_only oracle (h ++ [ClearHash]) (init gen_fixed_only os)))
    = [(5, (123, 30%Z))] /\
  v_evalStale (relevant gen_fixed_only c (init gen_fixed_only os)) = [].
Proof. exists one_eval_write, [], f3_history, probe_cmd. exact f3_witness. Qed.
Print Assumptions C14_clear_equiv_fresh_refuted_evalcache.

(** Every go command assigns all limit members of EngineControl (minTimeLimit, maxTimeLimit,
    earlyStopPercentage, maxDepth, maxNodes, ponder, infinite, searchMoves): what an earlier go left
    behind is never read.  True of the code as it is ([go_resets_limits] decided by the check). *)
Theorem C14_go_overwrites_limits : forall o1 o2 g, compute_limits true o1 g = compute_limits true o2 g.
Proof. exact go_overwrites_limits. Qed.
Print Assumptions C14_go_overwrites_limits.

(** A variant whose computeTimeLimit does not assign maxNodes on every go is refuted by one prior
    `go nodes 100`: a later `go depth 9` still carries the node limit, Clear Hash or not. *)
Theorem C14_clear_equiv_fresh_refuted_limits : exists oracle os h c,
  st_opts (run limits_not_reset oracle h (init limits_not_reset os)) = st_opts (init limits_not_reset os) /\
  weak (st_opts (init limits_not_reset os)) = false /\ sc_limited c = true /\
  l_maxNodes (v_limits (relevant limits_not_reset c (run limits_not_reset oracle (h ++ [ClearHash]) (init limits_not_reset os)))) = 100%Z /\
  l_maxNodes (v_limits (relevant limits_not_reset c (init limits_not_reset os))) = (-1)%Z.
Proof. exists no_writes, [], [Search prior_cmd 0 true 0%Z], probe_cmd. exact limits_witness. Qed.
Print Assumptions C14_clear_equiv_fresh_refuted_limits.

(** The abstraction of the generation counter in [relevant] is exact.  On a cleared table any two
    non-zero generations give the same probe results for every sequence of inserts/probes ... *)
Theorem C14_nonzero_generations_equivalent : forall g1 g2 size ops,
  0 < g1 < 16 -> 0 < g2 < 16 ->
  snd (tt_run (cleared g1 size) ops) = snd (tt_run (cleared g2 size) ops).
Proof. exact nonzero_generations_equivalent. Qed.
Print Assumptions C14_nonzero_generations_equivalent.

(** ... whereas generation 0 is observable: two inserts into one bucket, then a probe. *)
Theorem C14_generation_zero_observable :
  snd (tt_run (cleared 1 1048576) f5_ops) <> snd (tt_run (cleared 0 1048576) f5_ops).
Proof. exact generation_zero_observable. Qed.
Print Assumptions C14_generation_zero_observable.

(** Equal views give equal probe results for every sequence of table operations of the search
    (the generation bits of entries are only ever compared with the current generation). *)
Theorem C14_view_sound : forall V s1 s2 c genOK mta ops,
  sc_limited c = true -> Inv s1 -> Inv s2 ->
  relevant V c s1 = relevant V c s2 ->
  snd (tt_run (st_tt (search_prologue V s1 c genOK mta)) ops) =
  snd (tt_run (st_tt (search_prologue V s2 c genOK mta)) ops).
Proof. exact view_sound_probes. Qed.
Print Assumptions C14_view_sound.

(** Repeating the same limited command in the same (relevant) state gives the same result:
    output and writes are a function of [relevant] and the command. *)
Theorem C14_deterministic : forall V oracle output,
  (forall c nd1 nd2 v, sc_limited c = true ->
     oracle c nd1 v = oracle c nd2 v /\ output c nd1 v = output c nd2 v) ->
  forall s1 s2 c nd1 nd2,
  sc_limited c = true -> relevant V c s1 = relevant V c s2 ->
  search_result V oracle output s1 c nd1 = search_result V oracle output s2 c nd2.
Proof. exact deterministic. Qed.
Print Assumptions C14_deterministic.

(** What [relevant] leaves out is overwritten before a limited search can read it. *)
Theorem C14_irrelevant_components : forall V s c k ch b nuc, sc_limited c = true ->
  relevant V c (with_irrelevant s k ch b nuc) = relevant V c s.
Proof. exact relevant_irrelevant. Qed.
Print Assumptions C14_irrelevant_components.

Theorem C14_prologue_overwrites : forall V s c k ch b genOK mta, sc_limited c = true ->
  let p := search_prologue V (with_irrelevant s k ch b (notUsedCnt (st_tt s))) c genOK mta in
  let q := search_prologue V s c genOK mta in
  st_tt p = st_tt q /\ st_hist p = st_hist q /\ st_killers p = st_killers q /\
  st_evalCache p = st_evalCache q /\ st_matCache p = st_matCache q /\ st_opts p = st_opts q /\
  st_randomSeed p = st_randomSeed q /\ st_requiredTime p = st_requiredTime q.
Proof. exact prologue_irrelevant. Qed.
Print Assumptions C14_prologue_overwrites.

(** every reachable state satisfies the invariant used above *)
Theorem C14_reachable_invariant : forall V oracle os h, Inv (run V oracle h (init V os)).
Proof. exact reachable_Inv. Qed.
Print Assumptions C14_reachable_invariant.
