(** C08 — the transposition table never returns mixed or out-of-range data.
    Only statements; every proof is [exact <lemma>] into coq/TT/*Proofs.v / TTTheorems.v.
    Gen  : coq/gen/TTGen.v is REGENERATED from lib/texellib/transpositionTable.{hpp,cpp} by
           tx/leaf.py on every check run (accessors, getBits/setBits, store/load, getScore/
           setScore, isCutOff, betterThan, getIndex, nextGeneration, setWhiteContempt, score
           constants, the (first,size) layout).
    Model: coq/TT/{Entry,Table,Atomic,TBRegion}.v (tied to the C++ by the correspondence and
           trace-validation stages of props/c08.py). *)
From Coq Require Import ZArith Bool List.
From Texel Require Import TT.Entry TT.Table TT.Atomic TT.TBRegion
     TT.EntryProofs TT.TableProofs TT.AtomicProofs TT.TBRegionProofs TT.TTTheorems TT.BucketProofs TT.Alloc TT.AllocProofs.
Import ListNotations.
Local Open Scope Z_scope.

(** Every bit field of the data word is a lens: the extracted layout tiles bits 0..63 without
    overlap, set-then-get returns the value (mod field width), get-then-set is the identity,
    a second set wins, other fields are untouched, and no shift is out of range. *)
Theorem C08_bitfields :
  layout_ok TTEntry_layout = true /\
  forall d, W64 d -> forall f s, In (f, s) TTEntry_layout ->
    (forall v, W64 (TTEntry_setBits d f s v) /\
               TTEntry_getBits (TTEntry_setBits d f s v) f s = v mod 2 ^ s) /\
    TTEntry_setBits d f s (TTEntry_getBits d f s) = d /\
    (forall v v', TTEntry_setBits (TTEntry_setBits d f s v) f s v' = TTEntry_setBits d f s v') /\
    (forall f' s' v, In (f', s') TTEntry_layout -> (f', s') <> (f, s) ->
       TTEntry_getBits (TTEntry_setBits d f s v) f' s' = TTEntry_getBits d f' s') /\
    (forall v, TTEntry_getBits_noovf d f s = true /\ TTEntry_setBits_noovf d f s v = true).
Proof. exact bitfields. Qed.
Print Assumptions C08_bitfields.

(** the named accessors are exactly these lenses (composed with the C++ integer conversions) *)
Theorem C08_accessors_use_layout : forall d,
  (forall x, TTEntry_setScore d x 0 = TTEntry_setBits d TTEntry_Score_first TTEntry_Score_size (wrap 32 (to_stored x 0))) /\
  TTEntry_getScore d 0 = from_stored (sext 16 (TTEntry_getBits d TTEntry_Score_first TTEntry_Score_size)) 0 /\
  (forall x, TTEntry_setDepth d x = TTEntry_setBits d TTEntry_Depth_first TTEntry_Depth_size (wrap 32 x)) /\
  TTEntry_getDepth d = sext 32 (TTEntry_getBits d TTEntry_Depth_first TTEntry_Depth_size) /\
  (forall b, TTEntry_setBusy d b = TTEntry_setBits d TTEntry_Busy_first TTEntry_Busy_size (b2z b)) /\
  TTEntry_getBusy d = z2b (TTEntry_getBits d TTEntry_Busy_first TTEntry_Busy_size) /\
  (forall x, TTEntry_setGeneration d x = TTEntry_setBits d TTEntry_Generation_first TTEntry_Generation_size (wrap 32 x)) /\
  TTEntry_getGeneration d = sext 32 (TTEntry_getBits d TTEntry_Generation_first TTEntry_Generation_size) /\
  (forall x, TTEntry_setType d x = TTEntry_setBits d TTEntry_Type_first TTEntry_Type_size (wrap 32 x)) /\
  TTEntry_getType d = sext 32 (TTEntry_getBits d TTEntry_Type_first TTEntry_Type_size) /\
  (forall x, TTEntry_setEvalScore d x = TTEntry_setBits d TTEntry_EvalScore_first TTEntry_EvalScore_size (wrap 32 x)) /\
  TTEntry_getEvalScore d = sext 16 (TTEntry_getBits d TTEntry_EvalScore_first TTEntry_EvalScore_size) /\
  (forall f t p, TTEntry_setMove d f t p =
       TTEntry_setBits d TTEntry_Move_first TTEntry_Move_size (wrap 32 (Move_getCompressedMove f t p))).
Proof. exact accessors_use_layout. Qed.
Print Assumptions C08_accessors_use_layout.

Theorem C08_accessor_roundtrips : forall d, W64 d ->
  (forall x, 0 <= x < 512 -> TTEntry_getDepth (TTEntry_setDepth d x) = x) /\
  (forall b, TTEntry_getBusy (TTEntry_setBusy d b) = b) /\
  (forall g, 0 <= g < 16 -> TTEntry_getGeneration (TTEntry_setGeneration d g) = g) /\
  (forall t, 0 <= t < 4 -> TTEntry_getType (TTEntry_setType d t) = t) /\
  (forall x, -32768 <= x < 32768 -> TTEntry_getEvalScore (TTEntry_setEvalScore d x) = x).
Proof. exact accessor_roundtrips. Qed.
Print Assumptions C08_accessor_roundtrips.

(** A mate score stored at ply p1 and read at ply p2 is shifted by exactly p2 - p1 (towards
    zero for wins, away from it for losses), any other score is returned unchanged, and no
    signed intermediate of setScore / getScore overflows -- for every score up to MATE0 in
    absolute value and plies up to twice the maximum search depth. *)
Theorem C08_mate_ply_shift : forall d s p1 p2,
  W64 d -> - SearchConst_MATE0 <= s <= SearchConst_MATE0 ->
  0 <= p1 <= 2 * SearchConst_MAX_SEARCH_DEPTH -> 0 <= p2 <= 2 * SearchConst_MAX_SEARCH_DEPTH ->
  TTEntry_setScore_noovf d s p1 = true /\
  TTEntry_getScore_noovf (TTEntry_setScore d s p1) p2 = true /\
  TTEntry_getScore (TTEntry_setScore d s p1) p2 =
    (if SearchConst_isWinScore s then s - (p2 - p1)
     else if SearchConst_isLoseScore s then s + (p2 - p1) else s).
Proof. exact mate_ply_shift. Qed.
Print Assumptions C08_mate_ply_shift.

(** No blend, for EVERY relaxed execution (Appendix A1): [l] is the log of all stores ever
    issued to a slot, by any number of threads, in any order; [w] is any pair of words a
    relaxed load may see.  If it decodes to key k then its data word is the data word of one
    store e2, its key word the key word of one store e1, k = k1 xor d1 xor d2; if k is the key
    of either store, the record (k, d2) was stored as a unit for k; otherwise the exact
    coincidence k xor k1 = d1 xor d2 <> 0 holds. *)
Theorem C08_no_blend : forall (l : store_log) (w : slot) (k : Z),
  may_load l w -> ekey (load_entry w) = k ->
  exists e1 e2, In e1 ((0, 0) :: l) /\ In e2 ((0, 0) :: l) /\
    fst w = Z.lxor (fst e1) (snd e1) /\ snd w = snd e2 /\
    edata (load_entry w) = snd e2 /\
    k = Z.lxor (Z.lxor (fst e1) (snd e1)) (snd e2) /\
    (k = fst e1 \/ k = fst e2 -> In (k, snd e2) ((0, 0) :: l)) /\
    (k <> fst e1 -> Z.lxor k (fst e1) = Z.lxor (snd e1) (snd e2) /\ snd e1 <> snd e2).
Proof. exact no_blend_load. Qed.
Print Assumptions C08_no_blend.

(** the same for what probe returns (the generation refresh included) *)
Theorem C08_no_blend_probe : forall g (b : list store_log) key r,
  probe_may_return g b key r ->
  exists l e1 e2, In l b /\ In e1 ((0, 0) :: l) /\ In e2 ((0, 0) :: l) /\
    fst r = key /\
    (snd r = snd e2 \/ snd r = TTEntry_setGeneration (snd e2) g) /\
    key = Z.lxor (Z.lxor (fst e1) (snd e1)) (snd e2) /\
    (key = fst e1 \/ key = fst e2 -> In (key, snd e2) ((0, 0) :: l)) /\
    (key <> fst e1 -> Z.lxor key (fst e1) = Z.lxor (snd e1) (snd e2) /\ snd e1 <> snd e2).
Proof. exact no_blend_probe. Qed.
Print Assumptions C08_no_blend_probe.

(** the trace validator run on recorded multi-threaded executions decides exactly the model *)
Theorem C08_validator_exact : forall g l key r,
  allowed g l key r = true <->
  exists w, may_load l w /\ ekey (load_entry w) = key /\ r = refresh g (load_entry w).
Proof. exact allowed_iff. Qed.
Print Assumptions C08_validator_exact.

(** For every used size >= 512 that is a multiple of 4 and every key, setUsedSize terminates
    and the bucket [index, index+3] computed by the regenerated getIndex is 4-aligned and
    inside the used part of the table; no shift count is out of range. *)
Theorem C08_index_in_bounds : forall s key,
  512 <= s < 2 ^ 64 -> s mod 4 = 0 -> 0 <= key < 2 ^ 64 ->
  exists tb sh mk, size_params s = Some (tb, sh, mk) /\
    TT_getIndex_noovf tb sh mk key = true /\
    0 <= TT_getIndex tb sh mk key /\
    TT_getIndex tb sh mk key mod 4 = 0 /\
    TT_getIndex tb sh mk key + 3 < s.
Proof. exact index_in_bounds. Qed.
Print Assumptions C08_index_in_bounds.

(** reSize only produces such sizes from requests >= 512 (every Hash value gives >= 65536) *)
Theorem C08_resize_sizes : forall n, 512 <= n < 2 ^ 64 ->
  512 <= round_size n < 2 ^ 64 /\ round_size n mod 4 = 0 /\ n - 3 <= round_size n <= n.
Proof. exact round_size_ok. Qed.
Print Assumptions C08_resize_sizes.

Theorem C08_setUsedSize_total : forall t s, 0 <= s < 2 ^ 64 -> setUsedSize t s <> OutOfFuel.
Proof. exact setUsedSize_total. Qed.
Print Assumptions C08_setUsedSize_total.

(** below 512 entries the bound fails: size 256 (what EngineMainThread's constructor requests
    before the Hash option resizes the table), key 0xffff000000000000 -> bucket 254..257 *)
Theorem C08_index_small_refuted :
  exists s key, 4 <= s < 512 /\ s mod 4 = 0 /\ 0 <= key < 2 ^ 64 /\
    exists tb sh mk, size_params s = Some (tb, sh, mk) /\ s <= TT_getIndex tb sh mk key + 3.
Proof. exact index_small_refuted. Qed.
Print Assumptions C08_index_small_refuted.

(** With a resident tablebase (any class of at most 4 men, any table that admits one): every
    entry the tablebase storage touches is >= usedSize and inside the table, every entry an
    insert / probe touches is < usedSize. *)
Theorem C08_tb_region_disjoint : forall t t' nPieces idx key i,
  tableSize t < 2 ^ 60 -> tableSize t mod 4 = 0 ->
  tbOn t = Ok (t', true) ->
  2 <= nPieces <= 4 -> 0 <= idx < nPositions nPieces ->
  0 <= key < 2 ^ 64 -> 0 <= i <= 3 ->
  usedSize t' = tableSize t - tbSize / entryBytes /\ tableSize t' = tableSize t /\
  tbResident t' = true /\
  0 <= getIndex t' key + i < usedSize t' /\
  usedSize t' <= tb_entry t' (nPositions nPieces) idx < tableSize t'.
Proof. exact tb_region_disjoint. Qed.
Print Assumptions C08_tb_region_disjoint.

(** Sequential refinement (insert / probe / setBusy / nextGeneration histories on a table of an
    admissible size, no tablebase writes): [view t k] is what probe's own search finds for
    internal key k.  After ANY history, a probe returns exactly the mapped record (generation
    refreshed, nothing else changes), and an insert either leaves the table alone (replacement
    guard) or maps its key to the record built from its arguments (on top of the previous record
    of that key, so the latest record for a key is the one returned), every other key keeping
    its record except the one in the victim slot chosen by the replacement policy. *)
Theorem C08_bucket_refines_map : forall t0 ops t,
  Inv t0 -> Forall (fun o => W64 (op_key o)) ops -> run t0 ops = Ok t ->
  Inv t /\
  (forall key0 res t' r, W64 key0 -> probe t key0 res = Ok (t', r) ->
     let key := Z.lxor key0 (contemptHash t) in
     match view t key with
     | None => t' = t /\ r = miss res
     | Some d =>
         fst r = key /\
         snd r = (if negb (getGeneration d =? generation t) then TTEntry_setGeneration d (generation t) else d) /\
         view t' key = Some (snd r) /\
         (forall k', k' <> key -> view t' k' = view t k')
     end) /\
  (forall key0 m type ply depth0 evalScore busy t', W64 key0 ->
     insert t key0 m type ply depth0 evalScore busy = Ok t' ->
     let key := Z.lxor key0 (contemptHash t) in
     let depth := if depth0 <? 0 then 0 else depth0 in
     t' = t \/
     exists idx, in_bucket (getIndex t key) idx /\
       view t' key = Some (match view t key with
                           | Some old => build_data old (m_from m =? m_to m) m type ply depth evalScore busy (generation t)
                           | None => build_data (snd (entry_at t idx)) false m type ply depth evalScore busy (generation t)
                           end) /\
       (forall k', 0 <= k' < 2 ^ 64 -> k' <> key ->
          view t' k' = view t k' \/
          (view t key = None /\ ekey (entry_at t idx) = k' /\ (k' <> 0 -> view t' k' = None)))).
Proof. exact bucket_refines_map. Qed.
Print Assumptions C08_bucket_refines_map.

(** the invariant holds for every freshly constructed table in the property's domain, and no
    operation of such a history can index outside the table *)
Theorem C08_bucket_initial : forall n t, 512 <= n < 2 ^ 64 -> new_tt n = Ok t -> Inv t.
Proof. exact new_tt_inv. Qed.
Print Assumptions C08_bucket_initial.

(** Allocation failure.  [obj] = table state + validity of the `table` pointer; the allocator is
    an oracle ([ok]).  Under the invariant "pointer valid with exactly tableSize entries, or
    pointer null AND tableSize = 0" (true of a default-constructed object, preserved by every
    reSize whatever the allocator answers):
    - a reSize that RETURNS leaves a valid table of exactly the rounded requested size (and, if it
      allocated, a cleared one satisfying the invariant of C08_bucket_refines_map);
    - a reSize that THROWS leaves pointer null and tableSize = 0, so the `numEntries == tableSize`
      early return can never be taken on a null table.
    Callers may call reSize / setupTT again at any time; insert / probe / setBusy / getByte / putByte
    require [valid = true], which every normal return of reSize establishes. *)
Theorem C08_resize_alloc_failure_safe : forall o n ok,
  AllocInv o -> 0 <= n < 2 ^ 64 ->
  match reSizeA o n ok with
  | Returned o' =>
      valid o' = true /\ tableSize (st o') = round_size n /\ AllocInv o' /\
      (round_size n <> tableSize (st o) ->
         ok = true /\ mem (st o') = [] /\ usedSize (st o') = round_size n /\ generation (st o') = 0 /\
         (512 <= round_size n -> W64 (contemptHash (st o)) -> Inv (st o')))
  | Threw o' =>
      ok = false /\ valid o' = false /\ tableSize (st o') = 0 /\ AllocInv o' /\
      round_size n <> tableSize (st o)
  | RErr => False
  end.
Proof. exact resize_alloc_failure_safe. Qed.
Print Assumptions C08_resize_alloc_failure_safe.

Theorem C08_resize_sequences_safe : forall calls o,
  AllocInv o -> Forall (fun c => 0 <= fst c < 2 ^ 64) calls ->
  exists o', run_resizes o calls = Some o' /\ AllocInv o'.
Proof. exact resize_sequences_safe. Qed.
Print Assumptions C08_resize_sequences_safe.

Theorem C08_resize_recovers : forall o n, AllocInv o -> valid o = false -> 0 <= n < 2 ^ 64 ->
  exists o', reSizeA o n true = Returned o' /\ valid o' = true /\ tableSize (st o') = round_size n.
Proof. exact resize_recovers. Qed.
Print Assumptions C08_resize_recovers.

(** the halve-and-retry loop of EngineMainThread::setupTT, for every allocator behaviour *)
Theorem C08_setupTT_safe : forall fuel o nEntries oracle,
  AllocInv o -> 0 <= nEntries < 2 ^ 64 ->
  let '(o', k) := setupTT fuel o nEntries oracle in
  AllocInv o' /\ (valid o' = false -> tableSize (st o') = 0) /\
  (valid o = true -> valid o' = false -> (1 <= k)%nat).
Proof. exact setupTT_safe. Qed.
Print Assumptions C08_setupTT_safe.

Theorem C08_fresh_object : AllocInv fresh.
Proof. exact fresh_inv. Qed.
Print Assumptions C08_fresh_object.
