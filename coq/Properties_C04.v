(** C04 — announced mates are real.
    Only statements; every proof is [exact <lemma>] into Search/{ScoreFacts,RulesSound,JustifySound}.v.
    Constants and isWinScore/isLoseScore: regenerated (gen/SearchConsts.v).  Leaf functions:
    Search/Score.v (tied by the leaf correspondence).  Specification: Search/Game.v.  Rule system:
    Search/Rules.v (tied to search.cpp by the per-node trace certificates of hook H3). *)
From Coq Require Import ZArith List Bool.
From Texel Require Import Search.Score Search.ScoreFacts Search.Game Search.GameFacts Search.Rules Search.RulesSound.
Import ListNotations.
Local Open Scope Z_scope.

(** getScore (setScore s p1) p2 shifts a mate score by exactly p1 - p2 plies towards the reader,
    leaves other scores alone, and nothing is truncated by the 16-bit field, for |s| <= MATE0 and
    plies in 0 .. 2*MAX_SEARCH_DEPTH *)
Theorem C04_score_ply_algebra : forall s p1 p2,
  - MATE0 <= s <= MATE0 -> 0 <= p1 <= max_ply -> 0 <= p2 <= max_ply ->
  ttSetScore_noovf s p1 = true /\
  0 <= ttSetScore s p1 < 65536 /\
  (isWinScore s = true -> ttGetScore (ttSetScore s p1) p2 = s + (p1 - p2)) /\
  (isLoseScore s = true -> ttGetScore (ttSetScore s p1) p2 = s - (p1 - p2)) /\
  (isWinScore s = false -> isLoseScore s = false -> ttGetScore (ttSetScore s p1) p2 = s).
Proof. exact score_ply_algebra. Qed.
Print Assumptions C04_score_ply_algebra.

(** the printed "mate n" inverts score_of_mate (n > 0: the mover mates with its n-th move;
    n <= 0: it is mated by the opponent's |n|-th move) *)
Theorem C04_mate_conversion : forall n, -7999 <= n <= 7999 ->
  mate_of_score (score_of_mate n) = Some n.
Proof. exact mate_of_score_of_mate. Qed.
Print Assumptions C04_mate_conversion.

(** a forced mate within an even number of plies is one within one ply less (the mover mates
    with a move of its own): "mate N" = N of the mover's own moves *)
Theorem C04_distance_parity : forall (pos : Type) (moves : pos -> list pos) (in_check : pos -> bool) j p,
  (wins moves in_check (2 * j) p -> wins moves in_check (2 * j - 1) p) /\
  (loses moves in_check (2 * j + 1) p -> loses moves in_check (2 * j) p).
Proof. intros pos moves in_check j p. split; [apply wins_even_to_odd|apply loses_odd_to_even]. Qed.
Print Assumptions C04_distance_parity.

(** every game, every derivation: a returned win score that is exact or a lower bound is a real
    forced mate within the announced distance; a returned lose score that is exact or an upper
    bound is a real forced loss *)
Theorem C04_rules_sound : forall (pos : Type) (moves : pos -> list pos) (in_check : pos -> bool) p ply a b s,
  Node moves in_check p ply a b s ->
  (a < s -> win_bound moves in_check s ply p) /\ (s < b -> lose_bound moves in_check s ply p).
Proof. exact rules_sound. Qed.
Print Assumptions C04_rules_sound.

(** the TT invariant holds for every entry any justified node can have stored *)
Theorem C04_tt_invariant : forall (pos : Type) (moves : pos -> list pos) (in_check : pos -> bool) p ty f,
  TTFact moves in_check p ty f -> tt_sound moves in_check p ty f.
Proof. exact tt_invariant. Qed.
Print Assumptions C04_tt_invariant.

(** root: an announced "mate N" (exact or lower bound) is real and the move it is announced
    for keeps a forced mate *)
Theorem C04_announced_mate_real : forall (pos : Type) (moves : pos -> list pos) (in_check : pos -> bool)
    root c alpha beta sc N,
  In c (moves root) ->
  Node moves in_check c 1 (- beta) (- alpha) sc ->
  alpha < - sc -> score_ok (- sc) ->
  mate_of_score (- sc) = Some N -> 0 < N ->
  loses moves in_check (Z.to_nat (2 * (N - 1))) c /\ wins moves in_check (Z.to_nat (2 * N - 1)) root.
Proof. exact announced_win_real. Qed.
Print Assumptions C04_announced_mate_real.

(** root: a completed iteration ending with "mate -N" is a real forced loss *)
Theorem C04_announced_loss_real : forall (pos : Type) (moves : pos -> list pos) (in_check : pos -> bool)
    root score N,
  moves root <> [] ->
  AllChildren moves in_check (moves root) 0 score ->
  score_ok score ->
  mate_of_score score = Some (- N) -> 0 < N ->
  loses moves in_check (Z.to_nat (2 * N)) root.
Proof. exact announced_loss_real. Qed.
Print Assumptions C04_announced_loss_real.
