(** C04 — announced mates are real.
    Only statements; every proof is [exact <lemma>] into Search/{ScoreFacts,RulesSound,JustifySound}.v.
    Constants and isWinScore/isLoseScore: regenerated (gen/SearchConsts.v).  Leaf functions:
    Search/Score.v (tied by the leaf correspondence).  Specification: Search/Game.v.  Rule system:
    Search/Rules.v (tied to search.cpp by the per-node trace certificates of hook H3). *)
From Coq Require Import ZArith List Bool.
From Texel Require Import Search.Score Search.ScoreFacts Search.Game Search.GameFacts Search.Rules Search.RulesSound.
From Texel Require Search.RulesExamples.   (* non-vacuity examples, checked with the theorems *)
Import ListNotations.
Local Open Scope Z_scope.

(** getScore (setScore s p1) p2 shifts a mate score by exactly p1 - p2 plies towards the reader,
    leaves other scores alone, and nothing is truncated by the 16-bit field, for |s| <= MATE0 and
    plies in 0 .. 2*MAX_SEARCH_DEPTH *)
Theorem C04_score_ply_algebra : forall s p1 p2,
  - MATE0 <= s <= MATE0 -> 0 <= p1 <= max_ply -> 0 <= p2 <= max_ply ->
  ttSetScore_noovf s p1 = true /\
  0 <= ttSetScore s p1 < 65536 /\
  (isWinScore s = true -> ttGetScore (ttSetScore s p1) p2 = s + (p1 - p2)) /\
  (isLoseScore s = true -> ttGetScore (ttSetScore s p1) p2 = s - (p1 - p2)) /\
  (isWinScore s = false -> isLoseScore s = false -> ttGetScore (ttSetScore s p1) p2 = s).
Proof. exact score_ply_algebra. Qed.
Print Assumptions C04_score_ply_algebra.

(** the printed "mate n" inverts score_of_mate (n > 0: the mover mates with its n-th move;
    n <= 0: it is mated by the opponent's |n|-th move) *)
Theorem C04_mate_conversion : forall n, -7999 <= n <= 7999 ->
  mate_of_score (score_of_mate n) = Some n.
Proof. exact mate_of_score_of_mate. Qed.
Print Assumptions C04_mate_conversion.

(** a forced mate within an even number of plies is one within one ply less (the mover mates
    with a move of its own): "mate N" = N of the mover's own moves *)
Theorem C04_distance_parity : forall (pos : Type) (moves : pos -> list pos) (in_check : pos -> bool) j p,
  (wins moves in_check (2 * j) p -> wins moves in_check (2 * j - 1) p) /\
  (loses moves in_check (2 * j + 1) p -> loses moves in_check (2 * j) p).
Proof. intros pos moves in_check j p. split; [apply wins_even_to_odd|apply loses_odd_to_even]. Qed.
Print Assumptions C04_distance_parity.

(** every game, every derivation: a returned win score that is exact or a lower bound is a real
    forced mate within the announced distance; a returned lose score that is exact or an upper
    bound is a real forced loss *)
Theorem C04_rules_sound : forall (pos : Type) (moves : pos -> list pos) (in_check : pos -> bool) p ply a b s,
  Node moves in_check p ply a b s ->
  (a < s -> win_bound moves in_check s ply p) /\ (s < b -> lose_bound moves in_check s ply p).
Proof. exact rules_sound. Qed.
Print Assumptions C04_rules_sound.

(** the TT invariant holds for every entry any justified node can have stored *)
Theorem C04_tt_invariant : forall (pos : Type) (moves : pos -> list pos) (in_check : pos -> bool) p ty f,
  TTFact moves in_check p ty f -> tt_sound moves in_check p ty f.
Proof. exact tt_invariant. Qed.
Print Assumptions C04_tt_invariant.

(** root: an announced "mate N" (exact or lower bound) is real and the move it is announced
    for keeps a forced mate *)
Theorem C04_announced_mate_real : forall (pos : Type) (moves : pos -> list pos) (in_check : pos -> bool)
    root c alpha beta sc N,
  In c (moves root) ->
  Node moves in_check c 1 (- beta) (- alpha) sc ->
  alpha < - sc -> score_ok (- sc) ->
  mate_of_score (- sc) = Some N -> 0 < N ->
  loses moves in_check (Z.to_nat (2 * (N - 1))) c /\ wins moves in_check (Z.to_nat (2 * N - 1)) root.
Proof. exact announced_win_real. Qed.
Print Assumptions C04_announced_mate_real.

(** root: a completed iteration ending with "mate -N" is a real forced loss *)
Theorem C04_announced_loss_real : forall (pos : Type) (moves : pos -> list pos) (in_check : pos -> bool)
    root score N,
  moves root <> [] ->
  AllChildren moves in_check (moves root) 0 score ->
  score_ok score ->
  mate_of_score score = Some (- N) -> 0 < N ->
  loses moves in_check (Z.to_nat (2 * N)) root.
Proof. exact announced_loss_real. Qed.
Print Assumptions C04_announced_loss_real.

(** mate in one: if the search of a mating root move returned the mated score (what the code
    returns at a checkmated node unless a repetition claim, a table hit or mate-distance pruning
    cuts the node short), the iteration's best score is exactly "mate 1", and every root move
    reported with that score as exact or lower bound delivers checkmate *)
From Texel Require Import Search.MateInOne.
Theorem C04_mate_in_one_found_partial : forall (pos : Type) (moves : pos -> list pos) (in_check : pos -> bool)
    root res best m,
  iteration_ok pos moves in_check root res ->
  In m res -> checkmated moves in_check (rr_pos pos m) -> rr_s pos m = mated_score 1 ->
  is_best pos res best ->
  (forall r, In r res -> - rr_s pos r = best -> rr_s pos r < rr_b pos r ->
     best = MATE0 - 2 /\ mate_of_score best = Some 1 /\ checkmated moves in_check (rr_pos pos r)) /\
  MATE0 - 2 <= best.
Proof. exact mate_in_one_partial. Qed.
Print Assumptions C04_mate_in_one_found_partial.

(** ---- completeness for mate in one: control-flow model Search/MateInOneFlow.v ----
    Modelling assumptions (oracle side, stated in the model's header and checked per traced run by
    the conformance part of props/c04.py): full strength (every legal root move is searched;
    no weakPlaySkipMove, no searchmoves), one thread (no helper results, no BUSY), no tablebases,
    the iteration completed (not stopped), the inCheck flag of the child is MoveGen::givesCheck of
    the move played, the checkmated position does not occur earlier in the game history (no
    repetition claim); for the other root moves: any result of the rule system, whose soundness
    carries the evaluation-range and no-hash-collision hypotheses. *)
From Texel Require Import Search.MateInOneFlow Search.MateInOneFlowSound.

(** every return site reachable for the node of a checkmated position yields the mated score
    -(MATE0-(ply+1)) - or, by mate-distance pruning, alpha >= MATE0-ply-1 -, and every table
    entry of such a position reads back as the mated score at every ply *)
Theorem C04_mated_node_value :
  (forall ply a b s, MatedNode ply a b s -> s = mated_score ply \/ (s = a /\ mdp_beta b ply <= a)) /\
  (forall ply a b s, MatedBody ply a b s -> ply_ok ply -> s = mated_score ply) /\
  (forall f, MatedTT f -> forall ply, ply_ok ply -> ttGetScore f ply = mated_score ply).
Proof. exact mated_node_all. Qed.
Print Assumptions C04_mated_node_value.

(** whenever a root move delivers checkmate, every completed iteration (any depth >= 1, any
    order of the root moves, any aspiration window of the first move, any re-search steps, any
    justified results for the other moves) ends with score MATE0-2, printed as "mate 1", and its
    best move delivers checkmate *)
Theorem C04_mate_in_one_found : forall (pos : Type) (moves : pos -> list pos) (in_check : pos -> bool)
    root order alpha0 beta0 bp bs,
  (forall c, In c (moves root) -> In c order) ->
  (exists c, In c (moves root) /\ checkmated moves in_check c) ->
  Iteration moves in_check order alpha0 beta0 (bp, bs) ->
  bs = MATE0 - 2 /\ mate_of_score bs = Some 1 /\ checkmated moves in_check bp /\ In bp order.
Proof. exact mate_in_one_found_root. Qed.
Print Assumptions C04_mate_in_one_found.

(** ---- the certificate checker (extracted to OCaml, run on the traces of hook H3) ---- *)
From Coq Require Import FMapPositive.
From Texel Require Import Search.Justify Search.JustifySound.

(** a node accepted by [check_node] has a derivation in the rule system, and the table fact
    recorded for it is a [TTFact] of its position — provided the oracle data is right
    ([oracle_ok]) and the state consists of accepted nodes / recorded facts *)
Theorem C04_justify_sound : forall (pos : Type) (moves : pos -> list pos) (in_check : pos -> bool)
    (posOf keyPos : positive -> pos) acc st id n o,
  acc_ok pos moves in_check posOf acc -> st_ok pos moves in_check keyPos st ->
  oracle_ok pos moves in_check posOf keyPos id n o ->
  check_node acc st n o = true ->
  Node moves in_check (posOf id) (r_ply n) (r_a n) (r_b n) (r_s n) /\
  (forall e, store_of n = Some e -> TTFact moves in_check (keyPos (r_key n)) (fst e) (snd e)).
Proof. exact check_node_sound. Qed.
Print Assumptions C04_justify_sound.

(** every node accepted while checking a whole trace from the empty state returned a sound
    result (rejected nodes leave the state unchanged and are reported) *)
Theorem C04_certificate_sound : forall (pos : Type) (moves : pos -> list pos) (in_check : pos -> bool)
    (posOf keyPos : positive -> pos) items id r,
  Forall (fun it => oracle_ok pos moves in_check posOf keyPos (fst (fst it)) (snd (fst it)) (snd it)) items ->
  PositiveMap.find id (fst (run items (PositiveMap.empty nrec) (PositiveMap.empty (list (Z * Z))))) = Some r ->
  (r_a r < r_s r -> win_bound moves in_check (r_s r) (r_ply r) (posOf id)) /\
  (r_s r < r_b r -> lose_bound moves in_check (r_s r) (r_ply r) (posOf id)).
Proof. exact certificate_sound. Qed.
Print Assumptions C04_certificate_sound.

(** the root checks imply the premises of the root theorems *)
Theorem C04_root_win_certificate : forall (pos : Type) (moves : pos -> list pos) (in_check : pos -> bool)
    (posOf : positive -> pos) acc root cid alpha beta score N,
  acc_ok pos moves in_check posOf acc -> In (posOf cid) (moves root) ->
  check_root_win acc cid alpha beta score N = true ->
  loses moves in_check (Z.to_nat (2 * (N - 1))) (posOf cid) /\ wins moves in_check (Z.to_nat (2 * N - 1)) root.
Proof. exact check_root_win_sound. Qed.
Print Assumptions C04_root_win_certificate.

Theorem C04_root_loss_certificate : forall (pos : Type) (moves : pos -> list pos) (in_check : pos -> bool)
    (posOf : positive -> pos) acc root o score N,
  acc_ok pos moves in_check posOf acc -> links pos moves posOf root (o_moves o) ->
  check_root_loss acc o score N = true ->
  loses moves in_check (Z.to_nat (2 * N)) root.
Proof. exact check_root_loss_sound. Qed.
Print Assumptions C04_root_loss_certificate.
