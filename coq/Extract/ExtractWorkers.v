From Coq Require Import Extraction ExtrOcamlBasic.
From Texel Require Import Workers.Workers Workers.Checker Workers.WorkersMeasure.
Extraction Language OCaml.
Extraction "workers_model.ml" lstep init check_ev quiescentb reconf cinit cmd_type cmd_job mu.
