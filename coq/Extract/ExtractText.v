From Coq Require Import Extraction ExtrOcamlBasic.
From Texel Require Import Chess.Types Chess.Position Chess.Fen Chess.PositionInst Chess.Spec
  TextIO.MoveText TextIO.MoveTextP TextIO.UciLine TextIO.FenIx TextIO.MoveTextFacts TextIO.MoveTextTheorems TextIO.PgnScan.
Extraction Language OCaml.
Extraction "text_model.ml"
  zk0 readFEN toFEN abs legal_moves_spec pseudo_moves accepted gives_check_spec make_spec in_checkb
  moveToUCIString uciStringToMove moveToString stringToMove
  legalOf gcOf mateOf moveToStringL moveToStringP stringToMoveP
  tokenize uciLine handlePosition emptyMove startPosFEN
  readFENix legalShapeb scan.
