From Coq Require Import Extraction ExtrOcamlBasic.
From Texel Require Import Workers.Race Workers.AccessProofs.
Extraction Language OCaml.
Extraction "race_model.ml" raceb_on f9_loc is_search is_quit is_params guarded.
