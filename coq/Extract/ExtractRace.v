From Coq Require Import Extraction ExtrOcamlBasic.
From Texel Require Import Workers.Race.
Extraction Language OCaml.
Extraction "race_model.ml" raceb_on loc_eqb.
