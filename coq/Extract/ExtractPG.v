From Coq Require Import Extraction ExtrOcamlBasic.
From Texel Require Import Chess.Types Chess.Spec PG.ProofGameCert PG.PieceCount PG.PgDriver.
Extraction Language OCaml.
Extraction "pg_model.ml" check_fen check_proofgame goal_of_fen validatePieceCounts pieceCountsValid enoughRemainingPieces.
