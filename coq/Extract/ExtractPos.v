From Coq Require Import Extraction ExtrOcamlBasic.
From Texel Require Import Chess.Types Chess.Position Chess.PositionSpec Chess.Fen Chess.PositionInst.
Extraction Language OCaml.
Extraction "pos_model.ml"
  zk0 maxPieces0 emptyPosition makeMove unMakeMove makeMoveB unMakeMoveB makeSEEMove unMakeSEEMove
  setWhiteMove setEpSquare setCastleMask setHalfMoveClock setFullMoveCounter setPiece clearPiece
  computeZobristHash historyHash bookHash kingZobristHash wKingSq bKingSq nPieces
  drawRuleEquals positionEquals serialize deSerialize readFEN toFEN fixupEPSquare
  consistencyBits moveOk normEmpty wrapInt pieceValueTbl materialIdTbl castleSqMask epMaskW epMaskB.
