From Coq Require Import Extraction ExtrOcamlBasic.
From Texel Require Import Persist.PTable Persist.Persist Persist.PersistTheorems.
Extraction Language OCaml.
Extraction "persist_model.ml"
  step fresh relevant ex_oracle
  tt_insert tt_probe tt_nextGeneration tt_resize tt_setWhiteContempt tt_clear tt_updateTB
  hist_addSuccess hist_addFail hist_reScale hist_init killers_add killers_clear sset
  empty_entry eval_default mkVariant.
