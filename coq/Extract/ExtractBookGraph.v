From Coq Require Import Extraction ExtrOcamlBasic.
From Texel Require Import gen.BookConsts BookGraph.NMap BookGraph.BookGraph BookGraph.Equations.
Extraction Language OCaml.
Extraction "bookgraph_model.ml" newBook apply_op run serializeBook check_all check_node acyclic_check
  nget nset nempty info children parents depth score_of has_node empty_book
  eq_negamax eq_cost eq_patherr eq_depth eq_links negateScore
  IGNORE_SCORE INVALID_SCORE INT_MAX.
