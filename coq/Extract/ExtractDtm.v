(* Extraction for the C12 driver (drivers/dtm_driver.ml).  Besides ExtrOcamlBasic this driver
   ALONE maps Coq's binary integers to OCaml native int (ExtrOcamlZInt: positive, N, Z -> int
   with + - * compare min max realised by OCaml's; DESIGN.md section 6 C12 / section 7 lists the
   directive): every number in the checker is a square 0..64, a file/rank offset in -14..14, or
   an engine score in -32768..32767, far inside 63 bits.  nat (mate distances, list lengths)
   stays Peano. *)
From Coq Require Import ZArith Extraction ExtrOcamlBasic ExtrOcamlZInt.
From Texel Require Import TB.DtmCert TB.MiniChess TB.Checker TB.Probe.
Extraction Language OCaml.
(* ExtrOcamlZInt of Coq 8.16 extracts the comparisons-to-bool and floor division from their
   binary definitions (bit loops); they are realised here (floor semantics, a / 0 = 0 and
   a mod 0 = a as in Coq; the checker divides by 8 and 2 only). *)
Extract Constant Z.eqb => "(fun (x:int) (y:int) -> x = y)".
Extract Constant Z.leb => "(fun (x:int) (y:int) -> x <= y)".
Extract Constant Z.ltb => "(fun (x:int) (y:int) -> x < y)".
Extract Constant Z.div => "(fun (a:int) (b:int) -> if b = 0 then 0 else let q = a / b and r = a mod b in if r <> 0 && ((r < 0) <> (b < 0)) then q - 1 else q)".
Extract Constant Z.modulo => "(fun (a:int) (b:int) -> if b = 0 then a else let r = a mod b in if r <> 0 && ((r < 0) <> (b < 0)) then r + b else r)".
Extract Constant Z.even => "(fun (a:int) -> a land 1 = 0)".
Extraction "dtm_model.ml" check_pos check_prefix check_table tlabel_of_answer score_of_label label_of_score
  legalb wfb moves in_check digits_of pos_of expected lab pstep prun pinit Nat.eqb.
