From Coq Require Import Extraction ExtrOcamlBasic.
From Texel Require Import Draw.Draw Draw.DrawSpec.
Extraction Language OCaml.
Extraction "draw_model.ml" canClaimDrawRep canClaimDraw50 drawPrefix setupPosition
  insufficientMaterial getGameState processCommand newGame gState getHistory haveDrawOffer
  cpCanClaimDraw repSpecb fiftySpec verdictScore historySpec clockAfter.
