From Coq Require Import Extraction ExtrOcamlBasic ZArith.
From Texel Require Import Search.Score Search.TBRules.
Extraction Language OCaml.
Extraction "tb_model.ml" rule50Margin tbProbe_ondemand swindleScore probe_of tb_site tb_node tbAdjust label_score best_of.
