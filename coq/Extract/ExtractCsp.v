From Coq Require Import Extraction ExtrOcamlBasic.
From Texel Require Import Csp.BitSet Csp.Csp Csp.CspSpec.
Extraction Language OCaml.
Extraction "csp_model.ml" run build solve.
