From Coq Require Import Extraction ExtrOcamlBasic.
From Texel Require Import Ctl.Uci Ctl.Engine Ctl.Dec Ctl.Checker.
Extraction Language OCaml.
Extraction "ctl_model.ml" reject_at accepts parse_line option_names.
