From Coq Require Import Extraction ExtrOcamlBasic.
From Texel Require Import Chess.Types Chess.Position Chess.BitBoard Chess.MoveGen Chess.Spec.
Extraction Language OCaml.
Extraction "movegen_model.ml"
  positionOfBoard zkDummy
  pseudoLegalMoves checkEvasions pseudoLegalCapturesAndChecks pseudoLegalCaptures
  givesCheck removeIllegal isLegal inCheck canTakeKing
  abs legal_moves_spec legal_specb gives_check_spec in_checkb make_spec accepted perft_spec pseudo_moves
  kingAttacks knightAttacks wPawnAttacks bPawnAttacks epMaskWF epMaskBF squaresBetween getDirection
  rookAttacks bishopAttacks rMasks bMasks rTableOf bTableOf rookAttacksMagicWith bishopAttacksMagicWith
  firstBitT lastBitT bitCountT.
