From Coq Require Import Extraction ExtrOcamlBasic ZArith FMapPositive.
From Texel Require Import Search.Score Search.Justify.
Extraction Language OCaml.
Extraction "search_model.ml" step check_node check_root_win check_root_loss store_of
  ttSetScore ttSetScore_noovf ttGetScore isCutOff mate_of_score score_of_mate isWinScore isLoseScore
  mated_score mdp_beta PositiveMap.empty.
