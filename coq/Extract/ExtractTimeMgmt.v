(** Extraction of the C06 time-management model.  Besides ExtrOcamlBasic this uses the two
    standard-library extraction modules for primitive numbers (allowed for this driver):
      ExtrOCamlFloats : PrimFloat.float => Float64.t and classify/abs/sqrt/opp/eqb/ltb/leb/compare/
                        Leibniz.eqb/mul/add/sub/div/of_uint63/normfr_mantissa/frshiftexp/
                        ldshiftexp/next_up/next_down => Float64.*  (Coq's own kernel module)
      ExtrOCamlInt63  : Uint63.int => Uint63.t and the Uint63 primitives => Uint63.*
    No further Extract directives.  The OCaml side links coq-core.kernel for Float64/Uint63. *)
From Coq Require Import Extraction ExtrOcamlBasic ExtrOCamlFloats ExtrOCamlInt63.
From Texel Require Import TimeMgmt.TimeMgmt.
Extraction Language OCaml.
Extraction "timemgmt_model.ml"
  ctl_full startSearch startPonder ponderHit stopThread search_timeLimit
  pollLimit pollLimit_noovf shouldStopTime rootMoveStop iterEndStop
  hf_init hf_failHigh hf_failLow hardOf hf_iterEnd nodeFraction usageFactor ponderBonusF
  truncInt truncInt_ok truncS64 truncS64_ok Z2F F2Z run limitsAfter.
