From Coq Require Import Extraction ExtrOcamlBasic.
From Texel Require Import NN.Feature NN.Accum NN.AccumSpec NN.AccumInst NN.EvalCache.
Extraction Language OCaml.
Extraction "nn_model.ml" init16 step16 observe l1OutClipped fresh16 stackTop
  gstep ginit boardOfList nonKingList flipBoard mirrorBoard flipSq mirrorSq getIndex ptValue
  evalPosM emptyTable cacheKey evalKeyContemptMul clipLaneG scaleClipSpec s16val addSub16.
