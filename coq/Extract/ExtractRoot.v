From Coq Require Import Extraction ExtrOcamlBasic.
From Texel Require Import Chess.Types gen.RootConsts Root.Root.
Extraction Language OCaml.
Extraction "root_model.ml" startMoves startThreadLimits getRootMoves notifyPV extractPVMoves getPonderMove
  formatScore iterativeDeepeningFrom iterativeDeepening engineAnswer.
