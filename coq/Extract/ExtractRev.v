From Coq Require Import Extraction ExtrOcamlBasic.
From Texel Require Import Chess.Types Chess.Position Chess.BitBoard Chess.MoveGen Chess.Fen Chess.Spec
  RevGen.RevGen RevGen.RevSpec RevGen.RevPremise.
Extraction Language OCaml.
Extraction "rev_model.ml"
  positionOfBoard zkDummy genMoves candidates revMoveList genMovesNoUndoInfo knownInvalid pieceCountsValid
  abs legal_specb make_spec accepted step_spec fixup_spec expected_undo counts_ok rev_domain
  complete_required complete_at consistent_at spos_eqb moveFactsb wfrevb revMoveList makeMove fixupEPSquare.
