From Coq Require Import Extraction ExtrOcamlBasic.
From Texel Require Import Chess.Types Book.Polyglot Book.BuiltIn.
Extraction Language OCaml.
Extraction "book_model.ml" mkPos mkMove getHashKey getMove getPGMove deSerialize serialize readEntry
  getBookEntriesPG getBookMove pgBookMove reachable weightSum sumLegal sumsInInt loop1InInt nextIntTry
  pgWeight builtinBookMove addToBook.
