From Coq Require Import Extraction ExtrOcamlBasic ZArith.
From Texel Require Import gen.LeafPrelude gen.TTGen TT.Entry TT.Table TT.TBRegion TT.Atomic TT.Alloc.
Extraction Language OCaml.
Extraction "tt_model.ml"
  new_tt reSize clear setWhiteContempt nextGeneration insert probe setBusy tbOn tbOff getIndex
  getByte putByte tbStore tbLoad tb_idx0 getType
  reSizeA setupTT setupFuel fresh round_size
  prep allowed_prep close_log
  SearchConst_isWinScore SearchConst_isLoseScore Move_getCompressedMove Move_setFromCompressed Move_isEmpty
  TTEntry_getBits TTEntry_setBits TTEntry_getKey TTEntry_setKey TTEntry_getData TTEntry_store TTEntry_load
  TTEntry_clear TTEntry_getMove TTEntry_setMove TTEntry_getScore TTEntry_setScore TTEntry_getDepth
  TTEntry_setDepth TTEntry_getBusy TTEntry_setBusy TTEntry_getGeneration TTEntry_setGeneration
  TTEntry_getType TTEntry_setType TTEntry_getEvalScore TTEntry_setEvalScore TTEntry_isCutOff
  TTEntry_betterThan TT_getIndex TT_nextGeneration
  TTEntry_getScore_noovf TTEntry_setScore_noovf.
