(** Top-level theorems for C20, assembled from CspProofs. *)
From Coq Require Import ZArith NArith List Bool Lia.
From Texel Require Import Csp.BitSet Csp.BitSetFacts Csp.Csp Csp.CspSpec Csp.CspProofs.
Import ListNotations.
Local Open Scope Z_scope.

Lemma wf_parts s : wf s -> wfc (constrs s) (length (doms s)) /\ Forall small (doms s).
Proof. intros [_ [H1 H2]]. split; assumption. Qed.

Lemma partial_ok_full cs ds r :
  wfc cs (length ds) -> partial_ok cs ds (length ds) r -> sol0 ds r /\ Forall (holds r) cs.
Proof.
  intros Hw [Hl [Hd Hc]]. split; [split; assumption|].
  apply Forall_forall. intros c Hin. unfold wfc in Hw. rewrite Forall_forall in Hw.
  destruct (Hw c Hin). apply Hc; assumption.
Qed.

Lemma makeArcConsistent_spec s :
  wf s ->
  match makeArcConsistent s with
  | ACOk ds' => length ds' = length (doms s) /\ Forall small ds' /\
                forall a, Forall (holds a) (constrs s) -> (sol0 (doms s) a <-> sol0 ds' a)
  | ACFail => forall a, Forall (holds a) (constrs s) -> ~ sol0 (doms s) a
  | ACErr => True
  end.
Proof. intros Hwf. destruct (wf_parts s Hwf). apply ac_loop_spec; assumption. Qed.

Theorem solve_sound s vals n : wf s -> solve s = Sat vals n -> sat s vals.
Proof.
  intros Hwf H. destruct (wf_parts s Hwf) as [Hc Hs]. unfold solve in H.
  destruct (length (doms s)) as [|nV'] eqn:En.
  - inversion H; subst. apply sat_iff. split.
    + split; [simpl; lia|]. intros i Hi. lia.
    + destruct (constrs s) as [|c cs']; [constructor|]. inversion Hc; subst. lia.
  - destruct (192 <? length (constrs s))%nat; [discriminate|].
    pose proof (makeArcConsistent_spec s Hwf) as Hac.
    destruct (makeArcConsistent s) as [|ds'|]; try discriminate.
    destruct Hac as [L [Sm Eq]].
    destruct (solveRec (constrs s) ds' (prefs s) (S nV') 0 (repeat (-1) (S nV')) 0) as [[r|] n0] eqn:Er; [|discriminate].
    inversion H; subst r n0; clear H.
    assert (Hc' : wfc (constrs s) (length ds')) by (rewrite L, En; exact Hc).
    assert (Hp : partial_ok (constrs s) ds' (length ds') vals).
    { eapply solveRec_sound with (varNo := 0%nat) (nrem := S nV'); [exact Hc'|exact Sm| | |exact Er].
      - rewrite L, En. reflexivity.
      - split; [rewrite repeat_length, L, En; reflexivity|]. split; [intros i Hi; lia|intros c _ Hi; lia]. }
    destruct (partial_ok_full _ _ _ Hc' Hp) as [Hsol Hh].
    apply sat_iff. split; [|exact Hh]. apply Eq; assumption.
Qed.

Theorem solve_complete s n : wf s -> solve s = Unsat n -> ~ solvable s.
Proof.
  intros Hwf H [a Ha]. apply sat_iff in Ha as [Hsol Hh].
  destruct (wf_parts s Hwf) as [Hc Hs]. unfold solve in H.
  destruct (length (doms s)) as [|nV'] eqn:En; [discriminate|].
  destruct (192 <? length (constrs s))%nat; [discriminate|].
  pose proof (makeArcConsistent_spec s Hwf) as Hac.
  destruct (makeArcConsistent s) as [|ds'|]; try discriminate.
  - exact (Hac a Hh Hsol).
  - destruct Hac as [L [Sm Eq]].
    destruct (solveRec (constrs s) ds' (prefs s) (S nV') 0 (repeat (-1) (S nV')) 0) as [[r|] n0] eqn:Er; [discriminate|].
    assert (Hc' : wfc (constrs s) (length ds')) by (rewrite L, En; exact Hc).
    assert (Hsum : (0 + S nV' = length ds')%nat) by (rewrite L, En; reflexivity).
    assert (Hlen : length (repeat (-1) (S nV')) = length ds') by (rewrite repeat_length, L, En; reflexivity).
    assert (Hsol' : is_sol (constrs s) ds' a) by (split; [apply Eq; assumption|exact Hh]).
    apply (solveRec_complete (constrs s) ds' (prefs s) Hc' Sm (S nV') 0%nat _ 0%N n0 Hsum ltac:(lia) Hlen Er a Hsol').
    intros i Hi. lia.
Qed.

Theorem solve_decides s : wf s -> solve s <> Err ->
  (is_sat (solve s) = Some true <-> solvable s) /\ (is_sat (solve s) = Some false <-> ~ solvable s).
Proof.
  intros Hwf Hne. destruct (solve s) as [vals n|n|] eqn:E; [| |congruence]; simpl.
  - pose proof (solve_sound s vals n Hwf E) as Hs. split.
    + split; [intros _; exists vals; exact Hs|reflexivity].
    + split; [discriminate|intros Hn; exfalso; apply Hn; exists vals; exact Hs].
  - pose proof (solve_complete s n Hwf E) as Hs. split.
    + split; [discriminate|intros H; exfalso; exact (Hs H)].
    + split; [intros _; exact Hs|reflexivity].
Qed.

(** the answer does not depend on the value-preference order *)
Theorem pref_irrelevant s s' :
  wf s -> wf s' -> doms s = doms s' -> constrs s = constrs s' ->
  solve s <> Err -> solve s' <> Err -> is_sat (solve s) = is_sat (solve s').
Proof.
  intros W W' Hd Hc N N'.
  destruct (solve_decides s W N) as [A B]. destruct (solve_decides s' W' N') as [A' B'].
  assert (Hiff : solvable s <-> solvable s').
  { unfold solvable, sat. rewrite Hd, Hc. tauto. }
  destruct (solve s) as [v n|n|]; [| |congruence]; destruct (solve s') as [v' n'|n'|]; try congruence; simpl in *;
    try reflexivity.
  - exfalso. apply (proj1 B' eq_refl). apply Hiff. apply A. reflexivity.
  - exfalso. apply (proj1 B eq_refl). apply Hiff. apply A'. reflexivity.
Qed.

(** ---- the building operations: well-formedness and meaning ---- *)
Definition dflt : vspec := mkV 0 0 false false.

Definition Inv (s : csp) (vs : list vspec) : Prop :=
  wf s /\ length vs = length (doms s) /\
  forall i, (i < length (doms s))%nat ->
            forall v, dmem (nth i (doms s) 0%N) v <-> (offs <= v < offs + numBits /\ vmem (nth i vs dflt) v).

Lemma wf_add_constr s cs' :
  wf s -> Forall (fun c => (cv1 c < length (doms s))%nat /\ (cv2 c < length (doms s))%nat) cs' ->
  wf (mkCsp (doms s) (prefs s) (constrs s ++ cs')).
Proof.
  intros [H1 [H2 H3]] H. unfold wf. simpl. split; [exact H1|]. split; [exact H2|].
  apply Forall_app. split; assumption.
Qed.

Lemma Inv_upd_dom s vs v d' sp' :
  Inv s vs -> (v < length (doms s))%nat -> small d' ->
  (forall x, dmem d' x <-> (offs <= x < offs + numBits /\ vmem sp' x)) ->
  Inv (mkCsp (upd (doms s) v d') (prefs s) (constrs s)) (upd vs v sp').
Proof.
  intros [[W1 [W2 W3]] [L M]] Hv Hs Hm. unfold Inv, wf. simpl. rewrite !upd_length.
  split; [split; [exact W1|split; [apply Forall_upd; assumption|exact W3]]|].
  split; [exact L|]. intros i Hi x. destruct (Nat.eq_dec i v) as [->|Hne].
  - rewrite !nth_upd_eq by lia. apply Hm.
  - rewrite !nth_upd_neq by exact Hne. apply M. exact Hi.
Qed.

Lemma apply_op_Inv s vs o s' : Inv s vs -> apply_op s o = Some s' -> Inv s' (spec_apply vs o).
Proof.
  intros HI H. pose proof HI as [[W1 [W2 W3]] [L M]].
  destruct o as [p lo hi|v|v|v x|v x|v1 v2 c|v1 v2 c|v1 v2 c]; simpl in H.
  - destruct (inRange lo && inRange hi) eqn:Er; [|discriminate].
    destruct (setRange lo hi) as [d|] eqn:Es; [|discriminate]. inversion H; subst s'; clear H.
    destruct (setRange_spec _ _ _ Es) as [Sd Md].
    unfold Inv, wf. simpl. rewrite !app_length. simpl. split; [split; [lia|split]|split; [lia|]].
    + apply Forall_app. split; [exact W2|constructor; [exact Sd|constructor]].
    + eapply Forall_impl; [|exact W3]. simpl. intros c [A B]. rewrite ?app_length. simpl. lia.
    + intros i Hi v. destruct (Nat.eq_dec i (length (doms s))) as [->|Hne].
      * rewrite app_nth2 by lia. rewrite Nat.sub_diag. simpl.
        rewrite <- L at 1. rewrite app_nth2 by lia. rewrite Nat.sub_diag. simpl.
        rewrite Md. unfold vmem, vspec_of_range. simpl. intuition congruence.
      * rewrite !app_nth1 by lia. apply M. lia.
  - destruct (v <? length (doms s))%nat eqn:Ev; [|discriminate]. apply Nat.ltb_lt in Ev. inversion H; subst s'; clear H.
    apply Inv_upd_dom; auto.
    + apply small_land. apply Forall_nth_small. exact W2.
    + intros x. rewrite removeOdd_spec, (M v Ev x). unfold vmem, dflt. simpl. intuition congruence.
  - destruct (v <? length (doms s))%nat eqn:Ev; [|discriminate]. apply Nat.ltb_lt in Ev. inversion H; subst s'; clear H.
    apply Inv_upd_dom; auto.
    + apply small_land. apply Forall_nth_small. exact W2.
    + intros x. rewrite removeEven_spec, (M v Ev x). unfold vmem, dflt. simpl. intuition congruence.
  - destruct (v <? length (doms s))%nat eqn:Ev; [|discriminate]. apply Nat.ltb_lt in Ev.
    destruct (removeSmaller (nth v (doms s) 0%N) x) as [d|] eqn:Ed; [|discriminate]. inversion H; subst s'; clear H.
    apply Inv_upd_dom; auto.
    + eapply removeSmaller_small; [|exact Ed]. apply Forall_nth_small. exact W2.
    + intros y. rewrite (removeSmaller_spec _ _ _ Ed), (M v Ev y). unfold vmem, dflt. simpl. rewrite ?Z.max_lub_iff, ?Z.min_glb_iff. tauto.
  - destruct (v <? length (doms s))%nat eqn:Ev; [|discriminate]. apply Nat.ltb_lt in Ev.
    destruct (removeLarger (nth v (doms s) 0%N) x) as [d|] eqn:Ed; [|discriminate]. inversion H; subst s'; clear H.
    apply Inv_upd_dom; auto.
    + eapply removeLarger_small; [|exact Ed]. apply Forall_nth_small. exact W2.
    + intros y. rewrite (removeLarger_spec _ _ _ Ed), (M v Ev y). unfold vmem, dflt. simpl. rewrite ?Z.max_lub_iff, ?Z.min_glb_iff. tauto.
  - destruct ((v1 <? length (doms s))%nat && (v2 <? length (doms s))%nat) eqn:Ev; [|discriminate].
    apply andb_true_iff in Ev as [E1 E2]. apply Nat.ltb_lt in E1, E2. inversion H; subst s'; clear H.
    split; [apply wf_add_constr; [exact (proj1 HI)|repeat constructor; simpl; assumption]|]. simpl. split; assumption.
  - destruct ((v1 <? length (doms s))%nat && (v2 <? length (doms s))%nat) eqn:Ev; [|discriminate].
    apply andb_true_iff in Ev as [E1 E2]. apply Nat.ltb_lt in E1, E2. inversion H; subst s'; clear H.
    split; [apply wf_add_constr; [exact (proj1 HI)|repeat constructor; simpl; assumption]|]. simpl. split; assumption.
  - destruct ((v1 <? length (doms s))%nat && (v2 <? length (doms s))%nat) eqn:Ev; [|discriminate].
    apply andb_true_iff in Ev as [E1 E2]. apply Nat.ltb_lt in E1, E2. inversion H; subst s'; clear H.
    split; [apply wf_add_constr; [exact (proj1 HI)|repeat constructor; simpl; assumption]|]. simpl. split; assumption.
Qed.

Lemma build_from_Inv ops : forall s vs s', Inv s vs -> build_from s ops = Some s' -> Inv s' (fold_left spec_apply ops vs).
Proof.
  induction ops as [|o ops IH]; intros s vs s' HI H; simpl in *.
  - inversion H; subst. exact HI.
  - destruct (apply_op s o) as [s1|] eqn:E; [|discriminate]. eapply IH; [|exact H]. eapply apply_op_Inv; eassumption.
Qed.

Lemma Inv_empty : Inv empty_csp [].
Proof.
  unfold Inv, wf, empty_csp. simpl. split; [split; [reflexivity|split; constructor]|]. split; [reflexivity|]. intros i Hi. lia.
Qed.

Theorem build_wf ops s : build ops = Some s -> wf s.
Proof. intros H. exact (proj1 (build_from_Inv ops _ _ _ Inv_empty H)). Qed.

Theorem build_meaning ops s :
  build ops = Some s ->
  length (spec_vars ops) = length (doms s) /\
  forall i, (i < length (doms s))%nat ->
    forall v, dmem (nth i (doms s) 0%N) v <-> (offs <= v < offs + numBits /\ vmem (nth i (spec_vars ops) dflt) v).
Proof. intros H. exact (proj2 (build_from_Inv ops _ _ _ Inv_empty H)). Qed.

(** word-array indices stay in bounds inside makeArcConsistent: the [SideErr] outcome (the
    only place where the model records an out-of-range word index) is unreachable *)
Theorem ac_sides_in_bounds cs ds mask c :
  Forall small ds -> (cv1 c < length ds)%nat -> (cv2 c < length ds)%nat ->
  ac_side0 cs ds mask c <> SideErr /\ ac_side1 cs ds mask c <> SideErr.
Proof.
  intros Hs H1 H2. split.
  - pose proof (ac_side0_spec cs ds mask c Hs H1 H2) as S. intros E. rewrite E in S. exact S.
  - pose proof (ac_side1_spec cs ds mask c Hs H1 H2) as S. intros E. rewrite E in S. exact S.
Qed.

(** non-vacuity: a concrete solvable and a concrete unsolvable system are well-formed, do not
    produce [Err], and are decided as expected *)
Example ex_sat :
  let ops := [AddVar SMALL 1 6; AddVar LARGE 1 6; MakeEven 0; AddLE 0 1 (-1); AddGE 1 0 3] in
  exists s, build ops = Some s /\ solve s = Sat [2; 6] 2.
Proof. eexists. split; [reflexivity|vm_compute; reflexivity]. Qed.

Example ex_unsat :
  let ops := [AddVar SMALL 1 6; AddVar MIDDLE_SMALL 1 6; MakeEven 0; MakeEven 1; AddEq 0 1 1] in
  exists s n, build ops = Some s /\ solve s = Unsat n.
Proof. eexists. eexists. split; [reflexivity|vm_compute; reflexivity]. Qed.
