(** Model of lib/texelutillib/pg/cspsolver.cpp (CspSolver), same control structure:
    addVariable/makeEven/makeOdd/addMinVal/addMaxVal/addIneq/addEq build the system,
    solve = varToConstr construction; makeArcConsistent (work-set loop, fuelled);
    solveRecursive (backtracking in preference order, node counter). *)
From Coq Require Import ZArith NArith List Bool Lia.
From Texel Require Import Csp.BitSet.
Import ListNotations.
Local Open Scope Z_scope.

Inductive pref := SMALL | LARGE | MIDDLE_SMALL | MIDDLE_LARGE.

Record constr := mkC { cv1 : nat; cv2 : nat; cc : Z }.   (* var_v1 <= var_v2 + c *)

Record csp := mkCsp { doms : list N; prefs : list pref; constrs : list constr }.

Definition empty_csp : csp := mkCsp [] [] [].

Inductive op :=
| AddVar (p : pref) (lo hi : Z)
| MakeEven (v : nat)
| MakeOdd (v : nat)
| AddMin (v : nat) (x : Z)
| AddMax (v : nat) (x : Z)
| AddLE (v1 v2 : nat) (c : Z)
| AddGE (v1 v2 : nat) (c : Z)
| AddEq (v1 v2 : nat) (c : Z).

Fixpoint upd {A} (l : list A) (i : nat) (x : A) : list A :=
  match l, i with
  | [], _ => []
  | _ :: t, O => x :: t
  | h :: t, S j => h :: upd t j x
  end.

Definition inRange (x : Z) : bool := (offs <=? x) && (x <? offs + numBits).

(** [None] = outside the solver's supported limits (a C++ assert fires or the word array is
    indexed out of range). *)
Definition apply_op (s : csp) (o : op) : option csp :=
  let nV := length (doms s) in
  match o with
  | AddVar p lo hi =>
      if inRange lo && inRange hi then
        match setRange lo hi with
        | Some d => Some (mkCsp (doms s ++ [d]) (prefs s ++ [p]) (constrs s))
        | None => None
        end
      else None
  | MakeEven v =>
      if (v <? nV)%nat then Some (mkCsp (upd (doms s) v (removeOdd (nth v (doms s) 0%N))) (prefs s) (constrs s)) else None
  | MakeOdd v =>
      if (v <? nV)%nat then Some (mkCsp (upd (doms s) v (removeEven (nth v (doms s) 0%N))) (prefs s) (constrs s)) else None
  | AddMin v x =>
      if (v <? nV)%nat then
        match removeSmaller (nth v (doms s) 0%N) x with
        | Some d => Some (mkCsp (upd (doms s) v d) (prefs s) (constrs s))
        | None => None
        end
      else None
  | AddMax v x =>
      if (v <? nV)%nat then
        match removeLarger (nth v (doms s) 0%N) x with
        | Some d => Some (mkCsp (upd (doms s) v d) (prefs s) (constrs s))
        | None => None
        end
      else None
  | AddLE v1 v2 c =>
      if (v1 <? nV)%nat && (v2 <? nV)%nat then Some (mkCsp (doms s) (prefs s) (constrs s ++ [mkC v1 v2 c])) else None
  | AddGE v1 v2 c =>
      if (v1 <? nV)%nat && (v2 <? nV)%nat then Some (mkCsp (doms s) (prefs s) (constrs s ++ [mkC v2 v1 (- c)])) else None
  | AddEq v1 v2 c =>
      if (v1 <? nV)%nat && (v2 <? nV)%nat then
        Some (mkCsp (doms s) (prefs s) (constrs s ++ [mkC v1 v2 c; mkC v2 v1 (- c)])) else None
  end.

Fixpoint build_from (s : csp) (ops : list op) : option csp :=
  match ops with
  | [] => Some s
  | o :: r => match apply_op s o with Some s' => build_from s' r | None => None end
  end.
Definition build (ops : list op) : option csp := build_from empty_csp ops.

(** varToConstr[v] : bit ci set iff constraint ci mentions v *)
Fixpoint varToConstr_from (cs : list constr) (ci : N) (v : nat) : N :=
  match cs with
  | [] => 0%N
  | c :: r =>
      let m := varToConstr_from r (N.succ ci) v in
      if (cv1 c =? v)%nat || (cv2 c =? v)%nat then csSetBit m ci else m
  end.
Definition varToConstr (cs : list constr) (v : nat) : N := varToConstr_from cs 0%N v.

(** getBitVal *)
Definition getBitVal (d : N) (p : pref) : Z :=
  match p with
  | SMALL => getMinBit d
  | LARGE => getMaxBit d
  | MIDDLE_SMALL =>
      if getBit d 3 then 3 else if getBit d 2 then 2 else if getBit d 1 then 1 else getMinBit d
  | MIDDLE_LARGE =>
      if getBit d 4 then 4 else if getBit d 5 then 5 else if getBit d 6 then 6 else getMaxBit d
  end.

(** ---- makeArcConsistent ---- *)
Inductive acres := ACFail | ACOk (ds : list N) | ACErr.

Inductive side := SideFail | SideErr | SideOk (ds : list N) (mask : N).

(** body of the [for vi] loop for vi = 0: restrict v1 by max(v2)+c *)
Definition ac_side0 (cs : list constr) (ds : list N) (mask : N) (c : constr) : side :=
  let v := cv1 c in
  let dOld := nth v ds 0%N in
  let maxVal := getMaxBit (nth (cv2 c) ds 0%N) + cc c in
  if maxVal >=? offs + numBits then SideOk ds mask
  else if maxVal <? offs then SideFail
  else match removeLarger dOld maxVal with
       | None => SideErr
       | Some d =>
           if N.eqb d dOld then SideOk ds mask
           else if N.eqb d 0 then SideFail
           else SideOk (upd ds v d) (N.lor mask (varToConstr cs v))
       end.

(** vi = 1: restrict v2 by min(v1)-c *)
Definition ac_side1 (cs : list constr) (ds : list N) (mask : N) (c : constr) : side :=
  let v := cv2 c in
  let dOld := nth v ds 0%N in
  let minVal := getMinBit (nth (cv1 c) ds 0%N) - cc c in
  if minVal <=? offs then SideOk ds mask
  else if minVal >=? offs + numBits then SideFail
  else match removeSmaller dOld minVal with
       | None => SideErr
       | Some d =>
           if N.eqb d dOld then SideOk ds mask
           else if N.eqb d 0 then SideFail
           else SideOk (upd ds v d) (N.lor mask (varToConstr cs v))
       end.

Fixpoint ac_loop (fuel : nat) (cs : list constr) (ds : list N) (mask : N) : acres :=
  match fuel with
  | O => ACErr
  | S f =>
      if N.eqb mask 0 then ACOk ds
      else
        let ci := csGetMinBit mask in
        match nth_error cs (N.to_nat ci) with
        | None => ACErr
        | Some c =>
            match ac_side0 cs ds mask c with
            | SideFail => ACFail
            | SideErr => ACErr
            | SideOk ds1 mask1 =>
                match ac_side1 cs ds1 mask1 c with
                | SideFail => ACFail
                | SideErr => ACErr
                | SideOk ds2 mask2 => ac_loop f cs ds2 (csClearBit mask2 ci)
                end
            end
        end
  end.

Definition ac_fuel (s : csp) : nat :=
  (64 * length (doms s) + 1) * (length (constrs s) + 1) + 1.

Definition makeArcConsistent (s : csp) : acres :=
  ac_loop (ac_fuel s) (constrs s) (doms s) (csFirstN (N.of_nat (length (constrs s)))).

(** ---- solveRecursive ---- *)
Fixpoint enum_vals (fuel : nat) (d : N) (p : pref) : list Z :=
  match fuel with
  | O => []
  | S f => if N.eqb d 0 then [] else
             let v := getBitVal d p in v :: enum_vals f (clearBit d v) p
  end.

(** the values of a domain in the order solveRecursive tries them *)
Definition dom_vals (d : N) (p : pref) : list Z := enum_vals 64 d p.

(** the constraint test of solveRecursive at variable [varNo] *)
Definition check_var (cs : list constr) (vals : list Z) (varNo : nat) : bool :=
  forallb (fun c =>
             if ((cv1 c =? varNo)%nat || (cv2 c =? varNo)%nat)
                && (cv1 c <=? varNo)%nat && (cv2 c <=? varNo)%nat
             then nth (cv1 c) vals (-1) <=? nth (cv2 c) vals (-1) + cc c
             else true) cs.

Section SolveRec.
  Variable cs : list constr.
  Variable ds : list N.
  Variable ps : list pref.

  (** the [while (!d.empty())] loop of solveRecursive over the values in preference order;
      [rec] is the recursive call for the next variable, [last] says varNo = nValues-1 *)
  Fixpoint try_vals (rec : list Z -> N -> option (list Z) * N) (last : bool)
           (varNo : nat) (vals : list Z) (l : list Z) (nodes : N) : option (list Z) * N :=
    match l with
    | [] => (None, nodes)
    | v :: l' =>
        let vals' := upd vals varNo v in
        if check_var cs vals' varNo then
          if last then (Some vals', nodes)
          else match rec vals' nodes with
               | (Some r, n') => (Some r, n')
               | (None, n') => try_vals rec last varNo vals l' n'
               end
        else try_vals rec last varNo vals l' nodes
    end.

  Fixpoint solveRec (nrem : nat) (varNo : nat) (vals : list Z) (nodes : N)
    : option (list Z) * N :=
    match nrem with
    | O => (None, nodes)
    | S k =>
        try_vals (solveRec k (S varNo)) (match k with O => true | S _ => false end) varNo vals
                 (dom_vals (nth varNo ds 0%N) (nth varNo ps SMALL)) (N.succ nodes)
    end.
End SolveRec.

Inductive result :=
| Sat (vals : list Z) (nodes : N)
| Unsat (nodes : N)
| Err.

Definition solve (s : csp) : result :=
  let nV := length (doms s) in
  match nV with
  | O => Sat [] 0
  | S _ =>
      if (192 <? length (constrs s))%nat then Err else
      match makeArcConsistent s with
      | ACErr => Err
      | ACFail => Unsat 0
      | ACOk ds =>
          match solveRec (constrs s) ds (prefs s) nV 0 (repeat (-1) nV) 0 with
          | (Some vals, n) => Sat vals n
          | (None, n) => Unsat n
          end
      end
  end.

Definition run (ops : list op) : result :=
  match build ops with
  | Some s => solve s
  | None => Err
  end.
