(** Specification side of C20: what a system of range / parity / difference constraints means,
    independently of bit sets and of the solver's algorithm. *)
From Coq Require Import ZArith NArith List Bool Lia.
From Texel Require Import Csp.BitSet Csp.Csp.
Import ListNotations.
Local Open Scope Z_scope.

(** An assignment satisfies a system: one value per variable, inside the variable's domain,
    and every constraint  a[v1] <= a[v2] + c  holds. *)
Definition sat (s : csp) (a : list Z) : Prop :=
  length a = length (doms s) /\
  (forall i d, nth_error (doms s) i = Some d -> dmem d (nth i a 0)) /\
  Forall (fun c => nth (cv1 c) a 0 <= nth (cv2 c) a 0 + cc c) (constrs s).

Definition solvable (s : csp) : Prop := exists a, sat s a.

(** Well-formed systems = what [build] produces within the supported limits. *)
Definition wf (s : csp) : Prop :=
  length (prefs s) = length (doms s) /\
  Forall small (doms s) /\
  Forall (fun c => (cv1 c < length (doms s))%nat /\ (cv2 c < length (doms s))%nat) (constrs s).

(** Meaning of the building operations on one variable's value set (the "ranges, parity
    restrictions, min/max tightenings" of the property). *)
Record vspec := mkV { v_lo : Z; v_hi : Z; v_even : bool; v_odd : bool }.
Definition vmem (s : vspec) (x : Z) : Prop :=
  v_lo s <= x <= v_hi s /\ (v_even s = true -> Z.even x = true) /\ (v_odd s = true -> Z.odd x = true).

Definition vspec_of_range (lo hi : Z) : vspec := mkV lo hi false false.

Definition spec_apply (vs : list vspec) (o : op) : list vspec :=
  match o with
  | AddVar _ lo hi => vs ++ [vspec_of_range lo hi]
  | MakeEven v => upd vs v (let s := nth v vs (mkV 0 0 false false) in mkV (v_lo s) (v_hi s) true (v_odd s))
  | MakeOdd v => upd vs v (let s := nth v vs (mkV 0 0 false false) in mkV (v_lo s) (v_hi s) (v_even s) true)
  | AddMin v x => upd vs v (let s := nth v vs (mkV 0 0 false false) in mkV (Z.max (v_lo s) x) (v_hi s) (v_even s) (v_odd s))
  | AddMax v x => upd vs v (let s := nth v vs (mkV 0 0 false false) in mkV (v_lo s) (Z.min (v_hi s) x) (v_even s) (v_odd s))
  | _ => vs
  end.

Definition spec_vars (ops : list op) : list vspec := fold_left spec_apply ops [].

Definition is_sat (r : result) : option bool :=
  match r with Sat _ _ => Some true | Unsat _ => Some false | Err => None end.
