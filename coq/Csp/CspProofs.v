(** Proofs for C20: arc consistency preserves solutions; the backtracking search is sound and
    complete; hence [solve] decides [solvable]. *)
From Coq Require Import ZArith NArith List Bool Lia.
From Texel Require Import Csp.BitSet Csp.BitSetFacts Csp.Csp Csp.CspSpec.
Import ListNotations.
Local Open Scope Z_scope.

(** ---- list update ---- *)
Lemma upd_length {A} (l : list A) i x : length (upd l i x) = length l.
Proof. revert i. induction l as [|h t IH]; intros [|i]; simpl; auto. Qed.

Lemma nth_upd_eq {A} (l : list A) i x d : (i < length l)%nat -> nth i (upd l i x) d = x.
Proof. revert i. induction l as [|h t IH]; intros [|i]; simpl; intros H; try lia; auto. apply IH. lia. Qed.

Lemma nth_upd_neq {A} (l : list A) i j x d : i <> j -> nth i (upd l j x) d = nth i l d.
Proof.
  revert i j. induction l as [|h t IH]; intros [|i] [|j]; simpl; intros H; auto; try congruence.
Qed.

Lemma nth_error_some_nth {A} (l : list A) i d x : nth_error l i = Some x -> nth i l d = x /\ (i < length l)%nat.
Proof.
  intros H. split.
  - apply nth_error_nth. exact H.
  - apply nth_error_Some. congruence.
Qed.

(** ---- solutions ---- *)
Definition holds (a : list Z) (c : constr) : Prop := nth (cv1 c) a 0 <= nth (cv2 c) a 0 + cc c.

(** domain part of being a solution *)
Definition sol0 (ds : list N) (a : list Z) : Prop :=
  length a = length ds /\ forall i, (i < length ds)%nat -> dmem (nth i ds 0%N) (nth i a 0).

Definition wfc (cs : list constr) (n : nat) : Prop :=
  Forall (fun c => (cv1 c < n)%nat /\ (cv2 c < n)%nat) cs.

Lemma sat_iff s a : sat s a <-> (sol0 (doms s) a /\ Forall (holds a) (constrs s)).
Proof.
  unfold sat, sol0, holds. split.
  - intros [H1 [H2 H3]]. split; [|exact H3]. split; [exact H1|]. intros j Hj. apply H2.
    apply nth_error_nth'. exact Hj.
  - intros [[H1 H2] H3]. split; [exact H1|]. split; [|exact H3]. intros j d Hn.
    apply (nth_error_some_nth _ _ 0%N) in Hn as [<- Hlt]. apply H2. exact Hlt.
Qed.

Lemma upd_sol0 ds v d' :
  (v < length ds)%nat ->
  (forall x, dmem d' x -> dmem (nth v ds 0%N) x) ->
  forall a, sol0 (upd ds v d') a <-> (sol0 ds a /\ dmem d' (nth v a 0)).
Proof.
  intros Hv Hsub a. unfold sol0. rewrite upd_length. split.
  - intros [Hl H]. split; [split; [exact Hl|]|].
    + intros i Hi. destruct (Nat.eq_dec i v) as [->|Hne].
      * apply Hsub. specialize (H v Hv). rewrite nth_upd_eq in H by exact Hv. exact H.
      * specialize (H i Hi). rewrite nth_upd_neq in H by exact Hne. exact H.
    + specialize (H v Hv). rewrite nth_upd_eq in H by exact Hv. exact H.
  - intros [[Hl H] Hd]. split; auto. intros i Hi. destruct (Nat.eq_dec i v) as [->|Hne].
    + rewrite nth_upd_eq by exact Hv. exact Hd.
    + rewrite nth_upd_neq by exact Hne. apply H. exact Hi.
Qed.

Lemma Forall_upd {A} (P : A -> Prop) l i x : Forall P l -> P x -> Forall P (upd l i x).
Proof.
  revert i. induction l as [|h t IH]; intros [|i] Hl Hx; simpl; auto; inversion Hl; subst; constructor; auto.
Qed.

Lemma Forall_nth_small ds i : Forall small ds -> small (nth i ds 0%N).
Proof.
  intros H. destruct (Nat.lt_ge_cases i (length ds)) as [Hi|Hi].
  - rewrite Forall_forall in H. apply H. apply nth_In. exact Hi.
  - rewrite nth_overflow by exact Hi. unfold small. reflexivity.
Qed.

(** ---- one side of an arc-consistency step ---- *)
Lemma ac_side0_spec cs ds mask c :
  Forall small ds -> (cv1 c < length ds)%nat -> (cv2 c < length ds)%nat ->
  match ac_side0 cs ds mask c with
  | SideOk ds' _ => length ds' = length ds /\ Forall small ds' /\
                    forall a, holds a c -> (sol0 ds a <-> sol0 ds' a)
  | SideFail => forall a, holds a c -> ~ sol0 ds a
  | SideErr => False
  end.
Proof.
  intros Hs H1 H2. unfold ac_side0.
  set (maxVal := getMaxBit (nth (cv2 c) ds 0%N) + cc c).
  assert (Hbound : forall a, holds a c -> sol0 ds a -> nth (cv1 c) a 0 <= maxVal).
  { intros a Hh [_ Hd]. unfold holds in Hh. pose proof (getMaxBit_greatest _ _ (Hd _ H2)). unfold maxVal. lia. }
  destruct (maxVal >=? offs + numBits) eqn:E1; [split; [reflexivity|]; split; [assumption|]; intros; tauto|].
  destruct (maxVal <? offs) eqn:E2.
  { intros a Hh Hsol. pose proof (Hbound a Hh Hsol). destruct Hsol as [_ Hd]. destruct (Hd _ H1) as [Hr _]. lia. }
  destruct (removeLarger (nth (cv1 c) ds 0%N) maxVal) as [d|] eqn:E3.
  2:{ apply (removeLarger_in_bounds (nth (cv1 c) ds 0%N) maxVal); [lia|exact E3]. }
  pose proof (removeLarger_spec _ _ _ E3) as Hspec.
  assert (Hsm : small d) by (eapply removeLarger_small; [apply Forall_nth_small; exact Hs|exact E3]).
  destruct (N.eqb_spec d (nth (cv1 c) ds 0%N)) as [Heq|Hne]; [split; [reflexivity|]; split; [assumption|]; intros; tauto|].
  destruct (N.eqb_spec d 0) as [Hz|Hnz].
  { subst d. intros a Hh Hsol. pose proof (Hbound a Hh Hsol). destruct Hsol as [_ Hd].
    apply (dmem_zero (nth (cv1 c) a 0)). apply Hspec. split; [apply Hd; exact H1|lia]. }
  split; [apply upd_length|]. split; [apply Forall_upd; assumption|].
  intros a Hh. rewrite upd_sol0; [|exact H1|intros x Hx; apply Hspec in Hx; tauto].
  split; [|tauto]. intros Hsol. split; [exact Hsol|]. apply Hspec. split; [apply Hsol; exact H1|].
  apply Hbound; assumption.
Qed.

Lemma ac_side1_spec cs ds mask c :
  Forall small ds -> (cv1 c < length ds)%nat -> (cv2 c < length ds)%nat ->
  match ac_side1 cs ds mask c with
  | SideOk ds' _ => length ds' = length ds /\ Forall small ds' /\
                    forall a, holds a c -> (sol0 ds a <-> sol0 ds' a)
  | SideFail => forall a, holds a c -> ~ sol0 ds a
  | SideErr => False
  end.
Proof.
  intros Hs H1 H2. unfold ac_side1.
  set (minVal := getMinBit (nth (cv1 c) ds 0%N) - cc c).
  assert (Hbound : forall a, holds a c -> sol0 ds a -> minVal <= nth (cv2 c) a 0).
  { intros a Hh [_ Hd]. unfold holds in Hh. pose proof (getMinBit_least _ _ (Hd _ H1)). unfold minVal. lia. }
  destruct (minVal <=? offs) eqn:E1; [split; [reflexivity|]; split; [assumption|]; intros; tauto|].
  destruct (minVal >=? offs + numBits) eqn:E2.
  { intros a Hh Hsol. pose proof (Hbound a Hh Hsol). destruct Hsol as [_ Hd]. destruct (Hd _ H2) as [Hr _]. lia. }
  destruct (removeSmaller (nth (cv2 c) ds 0%N) minVal) as [d|] eqn:E3.
  2:{ apply (removeSmaller_in_bounds (nth (cv2 c) ds 0%N) minVal); [lia|exact E3]. }
  pose proof (removeSmaller_spec _ _ _ E3) as Hspec.
  assert (Hsm : small d) by (eapply removeSmaller_small; [apply Forall_nth_small; exact Hs|exact E3]).
  destruct (N.eqb_spec d (nth (cv2 c) ds 0%N)) as [Heq|Hne]; [split; [reflexivity|]; split; [assumption|]; intros; tauto|].
  destruct (N.eqb_spec d 0) as [Hz|Hnz].
  { subst d. intros a Hh Hsol. pose proof (Hbound a Hh Hsol). destruct Hsol as [_ Hd].
    apply (dmem_zero (nth (cv2 c) a 0)). apply Hspec. split; [apply Hd; exact H2|lia]. }
  split; [apply upd_length|]. split; [apply Forall_upd; assumption|].
  intros a Hh. rewrite upd_sol0; [|exact H2|intros x Hx; apply Hspec in Hx; tauto].
  split; [|tauto]. intros Hsol. split; [exact Hsol|]. apply Hspec. split; [apply Hsol; exact H2|].
  apply Hbound; assumption.
Qed.

(** ---- the work-set loop ---- *)
Lemma ac_loop_spec fuel cs : forall ds mask,
  wfc cs (length ds) -> Forall small ds ->
  match ac_loop fuel cs ds mask with
  | ACOk ds' => length ds' = length ds /\ Forall small ds' /\
                forall a, Forall (holds a) cs -> (sol0 ds a <-> sol0 ds' a)
  | ACFail => forall a, Forall (holds a) cs -> ~ sol0 ds a
  | ACErr => True
  end.
Proof.
  induction fuel as [|f IH]; intros ds mask Hw Hs; cbn [ac_loop]; [exact I|].
  destruct (N.eqb mask 0); [split; [reflexivity|]; split; [assumption|]; intros; tauto|].
  destruct (nth_error cs (N.to_nat (csGetMinBit mask))) as [c|] eqn:En; [|exact I].
  assert (Hin : In c cs) by (eapply nth_error_In; exact En).
  assert (Hc : (cv1 c < length ds)%nat /\ (cv2 c < length ds)%nat).
  { unfold wfc in Hw. rewrite Forall_forall in Hw. apply Hw. exact Hin. }
  destruct Hc as [H1 H2].
  pose proof (ac_side0_spec cs ds mask c Hs H1 H2) as S0.
  destruct (ac_side0 cs ds mask c) as [| |ds1 mask1]; [|destruct S0|].
  { intros a Ha. apply S0. rewrite Forall_forall in Ha. apply Ha. exact Hin. }
  destruct S0 as [L1 [Sm1 Eq1]].
  assert (H1' : (cv1 c < length ds1)%nat) by lia. assert (H2' : (cv2 c < length ds1)%nat) by lia.
  pose proof (ac_side1_spec cs ds1 mask1 c Sm1 H1' H2') as S1.
  destruct (ac_side1 cs ds1 mask1 c) as [| |ds2 mask2]; [|destruct S1|].
  { intros a Ha Hsol. assert (Hh : holds a c) by (rewrite Forall_forall in Ha; apply Ha; exact Hin).
    apply (S1 a Hh). apply Eq1; assumption. }
  destruct S1 as [L2 [Sm2 Eq2]].
  assert (Hw2 : wfc cs (length ds2)) by (rewrite L2, L1; exact Hw).
  specialize (IH ds2 (csClearBit mask2 (csGetMinBit mask)) Hw2 Sm2).
  destruct (ac_loop f cs ds2 (csClearBit mask2 (csGetMinBit mask))) as [|ds'|]; [| |exact I].
  - intros a Ha Hsol. assert (Hh : holds a c) by (rewrite Forall_forall in Ha; apply Ha; exact Hin).
    apply (IH a Ha). apply Eq2; [exact Hh|]. apply Eq1; assumption.
  - destruct IH as [L3 [Sm3 Eq3]]. split; [lia|]. split; [exact Sm3|].
    intros a Ha. assert (Hh : holds a c) by (rewrite Forall_forall in Ha; apply Ha; exact Hin).
    rewrite (Eq1 a Hh), (Eq2 a Hh). apply Eq3. exact Ha.
Qed.

(** ---- enumeration of a domain in preference order ---- *)
Lemma getBit_dmem d v : offs <= v < offs + numBits -> getBit d v = true -> dmem d v.
Proof. unfold getBit, dmem. tauto. Qed.

Lemma getBitVal_mem d p : small d -> d <> 0%N -> dmem d (getBitVal d p).
Proof.
  intros Hs Hd. destruct p; simpl.
  - apply getMinBit_mem; assumption.
  - apply getMaxBit_mem; assumption.
  - destruct (getBit d 3) eqn:E3; [apply getBit_dmem; [unfold offs, numBits; lia|exact E3]|].
    destruct (getBit d 2) eqn:E2; [apply getBit_dmem; [unfold offs, numBits; lia|exact E2]|].
    destruct (getBit d 1) eqn:E1; [apply getBit_dmem; [unfold offs, numBits; lia|exact E1]|].
    apply getMinBit_mem; assumption.
  - destruct (getBit d 4) eqn:E3; [apply getBit_dmem; [unfold offs, numBits; lia|exact E3]|].
    destruct (getBit d 5) eqn:E2; [apply getBit_dmem; [unfold offs, numBits; lia|exact E2]|].
    destruct (getBit d 6) eqn:E1; [apply getBit_dmem; [unfold offs, numBits; lia|exact E1]|].
    apply getMaxBit_mem; assumption.
Qed.

Lemma clearBit_card d w : small d -> dmem d w -> (card (clearBit d w) < card d)%nat.
Proof.
  intros Hs [Hr Hb]. apply card_subset_neq; [exact Hs|apply clearBit_small; exact Hs| |].
  - intros i. unfold clearBit. rewrite N.clearbit_spec', N.ldiff_spec. intros H.
    apply andb_true_iff in H. tauto.
  - intros E. unfold clearBit in E. rewrite <- E in Hb. rewrite N.clearbit_eq in Hb. discriminate.
Qed.

Lemma enum_vals_spec fuel : forall d p, small d -> (card d <= fuel)%nat ->
  forall v, In v (enum_vals fuel d p) <-> dmem d v.
Proof.
  induction fuel as [|f IH]; intros d p Hs Hc v; cbn [enum_vals].
  - assert (d = 0%N) by (apply card_zero; [exact Hs|lia]). subst d. split; [intros []|intros H; exact (dmem_zero _ H)].
  - destruct (N.eqb_spec d 0) as [->|Hd]; [split; [intros []|intros H; exact (dmem_zero _ H)]|].
    pose proof (getBitVal_mem d p Hs Hd) as Hm. set (w := getBitVal d p) in *.
    assert (Hw : offs <= w) by (destruct Hm; lia).
    cbn [In]. rewrite IH; [|apply clearBit_small; exact Hs|pose proof (clearBit_card d w Hs Hm); lia].
    rewrite clearBit_spec by exact Hw. split.
    + intros [<-|[H _]]; assumption.
    + intros H. destruct (Z.eq_dec w v); [left; assumption|right; split; [assumption|congruence]].
Qed.

Lemma enum_vals_64 d p v : small d -> (In v (dom_vals d p) <-> dmem d v).
Proof. intros Hs. unfold dom_vals. apply enum_vals_spec; [exact Hs|apply card_le_64]. Qed.
Global Opaque dom_vals.

Lemma solveRec_S cs ds ps k varNo vals nodes :
  solveRec cs ds ps (S k) varNo vals nodes =
  try_vals cs (solveRec cs ds ps k (S varNo)) (match k with O => true | S _ => false end) varNo vals
           (dom_vals (nth varNo ds 0%N) (nth varNo ps SMALL)) (N.succ nodes).
Proof. reflexivity. Qed.

(** ---- the backtracking search ---- *)
Section Search.
  Variable cs : list constr.
  Variable ds : list N.
  Variable ps : list pref.
  Let nV := length ds.
  Hypothesis Hwfc : wfc cs nV.
  Hypothesis Hsmall : Forall small ds.

  (** the first [k] entries of [vals] are in their domains and satisfy every constraint
      whose variables are all below [k] *)
  Definition partial_ok (k : nat) (vals : list Z) : Prop :=
    length vals = nV /\
    (forall i, (i < k)%nat -> dmem (nth i ds 0%N) (nth i vals 0)) /\
    (forall c, In c cs -> (cv1 c < k)%nat -> (cv2 c < k)%nat -> holds vals c).

  Definition agree (k : nat) (a b : list Z) : Prop := forall i, (i < k)%nat -> nth i a 0 = nth i b 0.

  Lemma check_var_true_iff vals varNo :
    length vals = nV ->
    (check_var cs vals varNo = true <->
     forall c, In c cs -> ((cv1 c = varNo \/ cv2 c = varNo) /\ (cv1 c <= varNo)%nat /\ (cv2 c <= varNo)%nat) -> holds vals c).
  Proof.
    intros Hl. unfold check_var. rewrite forallb_forall. split.
    - intros H c Hin [Hor [Hle1 Hle2]]. specialize (H c Hin).
      assert (Hc : (cv1 c < nV)%nat /\ (cv2 c < nV)%nat) by (unfold wfc in Hwfc; rewrite Forall_forall in Hwfc; apply Hwfc; exact Hin).
      replace ((cv1 c =? varNo)%nat || (cv2 c =? varNo)%nat) with true in H
        by (symmetry; apply orb_true_iff; destruct Hor; [left|right]; apply Nat.eqb_eq; assumption).
      rewrite (proj2 (Nat.leb_le _ _) Hle1), (proj2 (Nat.leb_le _ _) Hle2) in H. simpl in H.
      apply Z.leb_le in H. unfold holds.
      rewrite (nth_indep vals 0 (-1) (n := cv1 c)) by lia. rewrite (nth_indep vals 0 (-1) (n := cv2 c)) by lia. exact H.
    - intros H c Hin.
      assert (Hc : (cv1 c < nV)%nat /\ (cv2 c < nV)%nat) by (unfold wfc in Hwfc; rewrite Forall_forall in Hwfc; apply Hwfc; exact Hin).
      destruct (((cv1 c =? varNo)%nat || (cv2 c =? varNo)%nat) && (cv1 c <=? varNo)%nat && (cv2 c <=? varNo)%nat) eqn:E; [|reflexivity].
      apply andb_true_iff in E as [E E3]. apply andb_true_iff in E as [E1 E2].
      apply Nat.leb_le in E2, E3. apply orb_true_iff in E1.
      assert (Hh : holds vals c).
      { apply H; [exact Hin|]. split; [|split; assumption]. destruct E1 as [E1|E1]; apply Nat.eqb_eq in E1; auto. }
      unfold holds in Hh. apply Z.leb_le.
      rewrite (nth_indep vals (-1) 0 (n := cv1 c)) by lia. rewrite (nth_indep vals (-1) 0 (n := cv2 c)) by lia. exact Hh.
  Qed.

  Lemma holds_agree a b c k : agree k a b -> (cv1 c < k)%nat -> (cv2 c < k)%nat -> holds a c -> holds b c.
  Proof. unfold holds, agree. intros Ha H1 H2 H. rewrite <- (Ha _ H1), <- (Ha _ H2). exact H. Qed.

  Lemma partial_ok_step varNo vals v :
    (varNo < nV)%nat -> partial_ok varNo vals -> dmem (nth varNo ds 0%N) v ->
    check_var cs (upd vals varNo v) varNo = true -> partial_ok (S varNo) (upd vals varNo v).
  Proof.
    intros Hlt [Hl [Hd Hc]] Hv Hchk. unfold partial_ok. rewrite upd_length. split; [exact Hl|]. split.
    - intros i Hi. destruct (Nat.eq_dec i varNo) as [->|Hne].
      + rewrite nth_upd_eq by lia. exact Hv.
      + rewrite nth_upd_neq by exact Hne. apply Hd. lia.
    - intros c Hin H1 H2.
      destruct (Nat.eq_dec (cv1 c) varNo) as [E1|N1]; [|destruct (Nat.eq_dec (cv2 c) varNo) as [E2|N2]].
      + apply (proj1 (check_var_true_iff _ varNo ltac:(rewrite upd_length; exact Hl)) Hchk c Hin). lia.
      + apply (proj1 (check_var_true_iff _ varNo ltac:(rewrite upd_length; exact Hl)) Hchk c Hin). lia.
      + apply holds_agree with (a := vals) (k := varNo); [|lia|lia|apply Hc; [exact Hin|lia|lia]].
        intros i Hi. rewrite nth_upd_neq by lia. reflexivity.
  Qed.

  (** soundness of the value loop, given soundness of the recursive call *)
  Lemma try_vals_sound rec last varNo vals :
    (varNo < nV)%nat -> partial_ok varNo vals ->
    (last = true -> S varNo = nV) ->
    (forall vals' nodes r n', partial_ok (S varNo) vals' -> rec vals' nodes = (Some r, n') -> partial_ok nV r) ->
    forall l nodes r n',
      (forall v, In v l -> dmem (nth varNo ds 0%N) v) ->
      try_vals cs rec last varNo vals l nodes = (Some r, n') -> partial_ok nV r.
  Proof.
    intros Hlt Hp Hlast Hrec. induction l as [|v l IH]; intros nodes r n' Hl H; cbn [try_vals] in H; [discriminate|].
    assert (Hl' : forall w, In w l -> dmem (nth varNo ds 0%N) w) by (intros w Hw; apply Hl; right; exact Hw).
    destruct (check_var cs (upd vals varNo v) varNo) eqn:Echk; [|eapply IH; eassumption].
    assert (Hp' : partial_ok (S varNo) (upd vals varNo v)).
    { apply partial_ok_step; auto. apply Hl. left. reflexivity. }
    destruct last.
    - inversion H; subst. rewrite <- (Hlast eq_refl). exact Hp'.
    - destruct (rec (upd vals varNo v) nodes) as [[r0|] n0] eqn:Er.
      + inversion H; subst. eapply Hrec; eassumption.
      + eapply IH; eassumption.
  Qed.

  Lemma solveRec_sound : forall nrem varNo vals nodes r n',
    (varNo + nrem = nV)%nat -> partial_ok varNo vals ->
    solveRec cs ds ps nrem varNo vals nodes = (Some r, n') -> partial_ok nV r.
  Proof.
    induction nrem as [|k IH]; intros varNo vals nodes r n' Hsum Hp H; [discriminate|]. rewrite solveRec_S in H.
    eapply try_vals_sound; [| exact Hp | | | | exact H].
    - lia.
    - destruct k; [intros _; lia|discriminate].
    - intros vals' nodes' r' n'' Hp' Hr. eapply IH; [|exact Hp'|exact Hr]. lia.
    - intros v Hv. apply enum_vals_64 in Hv; [exact Hv|]. apply Forall_nth_small. exact Hsmall.
  Qed.

  (** completeness *)
  Definition is_sol (a : list Z) : Prop := sol0 ds a /\ Forall (holds a) cs.

  Lemma check_var_of_sol a vals varNo :
    (varNo < nV)%nat -> length vals = nV -> is_sol a -> agree (S varNo) a vals -> check_var cs vals varNo = true.
  Proof.
    intros Hlt Hl [_ Hc] Ha. apply check_var_true_iff; [exact Hl|].
    intros c Hin [_ [H1 H2]]. apply holds_agree with (a := a) (k := S varNo); [exact Ha|lia|lia|].
    rewrite Forall_forall in Hc. apply Hc. exact Hin.
  Qed.

  Lemma agree_upd a vals varNo :
    (varNo < length vals)%nat -> agree varNo a vals -> agree (S varNo) a (upd vals varNo (nth varNo a 0)).
  Proof.
    intros Hlt Ha i Hi. destruct (Nat.eq_dec i varNo) as [->|Hne].
    - rewrite nth_upd_eq by exact Hlt. reflexivity.
    - rewrite nth_upd_neq by exact Hne. apply Ha. lia.
  Qed.

  Lemma try_vals_complete rec last varNo vals :
    (varNo < nV)%nat -> length vals = nV ->
    (last = false ->
     forall vals' nodes n', length vals' = nV -> rec vals' nodes = (None, n') ->
                            forall a, is_sol a -> ~ agree (S varNo) a vals') ->
    forall l nodes n',
      try_vals cs rec last varNo vals l nodes = (None, n') ->
      forall a, is_sol a -> agree varNo a vals -> ~ In (nth varNo a 0) l.
  Proof.
    intros Hlt Hl Hrec. induction l as [|v l IH]; intros nodes n' H a Hsol Ha; cbn [try_vals] in H; [intros []|].
    intros [Hv|Hin].
    - subst v. assert (Hag : agree (S varNo) a (upd vals varNo (nth varNo a 0))) by (apply agree_upd; [lia|exact Ha]).
      rewrite (check_var_of_sol a _ varNo Hlt ltac:(rewrite upd_length; exact Hl) Hsol Hag) in H.
      destruct last; [discriminate|].
      destruct (rec (upd vals varNo (nth varNo a 0)) nodes) as [[r0|] n0] eqn:Er; [discriminate|].
      apply (Hrec eq_refl _ _ _ ltac:(rewrite upd_length; exact Hl) Er a Hsol Hag).
    - destruct (check_var cs (upd vals varNo v) varNo).
      + destruct last; [discriminate|].
        destruct (rec (upd vals varNo v) nodes) as [[r0|] n0]; [discriminate|].
        exact (IH _ _ H a Hsol Ha Hin).
      + exact (IH _ _ H a Hsol Ha Hin).
  Qed.

  Lemma solveRec_complete : forall nrem varNo vals nodes n',
    (varNo + nrem = nV)%nat -> (0 < nrem)%nat -> length vals = nV ->
    solveRec cs ds ps nrem varNo vals nodes = (None, n') ->
    forall a, is_sol a -> ~ agree varNo a vals.
  Proof.
    induction nrem as [|k IH]; intros varNo vals nodes n' Hsum Hpos Hl H a Hsol Ha; [lia|].
    rewrite solveRec_S in H.
    refine (try_vals_complete _ _ varNo vals ltac:(lia) Hl _ _ _ _ H a Hsol Ha _).
    - intros Hlast vals' nodes' n'' Hl' Hr a' Hsol'. destruct k as [|k']; [discriminate|].
      eapply IH; [|lia|exact Hl'|exact Hr|exact Hsol']. lia.
    - apply enum_vals_64; [apply Forall_nth_small; exact Hsmall|]. destruct Hsol as [[_ Hd] _]. apply Hd. lia.
  Qed.
End Search.
