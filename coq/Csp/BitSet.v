(** Model of lib/texelutillib/bitSet.hpp as used by CspSolver:
    Domain = BitSet<64,-16> (one 64-bit word, bit i <-> value i-16) and
    ConstrSet = BitSet<192,0> (modelled as an N below 2^192).
    Every operation whose C++ code indexes the word array with a data-dependent index has a
    checked variant returning [None] exactly when the C++ index would be outside the array. *)
From Coq Require Import ZArith NArith List Bool Lia.
Import ListNotations.
Local Open Scope Z_scope.

Definition offs : Z := -16.          (* CspSolver::minAllowedValue *)
Definition numBits : Z := 64.        (* Domain::numBits *)
Definition allOnes64 : N := N.ones 64.

Definition idx (v : Z) : N := Z.to_N (v - offs).
Definition getBit (d : N) (v : Z) : bool := N.testbit d (idx v).
Definition clearBit (d : N) (v : Z) : N := N.clearbit d (idx v).
Definition isEmpty (d : N) : bool := N.eqb d 0.

(** specification-level reading of a domain word: value [v] is a member of [d] *)
Definition dmem (d : N) (v : Z) : Prop :=
  offs <= v < offs + numBits /\ N.testbit d (idx v) = true.
(** a word of the 64-bit array element *)
Definition small (d : N) : Prop := (d < 2 ^ 64)%N.

(** count trailing zeros of a positive = BitUtil::firstBit on a non-zero word *)
Fixpoint ctz (p : positive) : N :=
  match p with
  | xO p' => N.succ (ctz p')
  | _ => 0%N
  end.

Definition firstBit (d : N) : N := match d with N0 => 0%N | Npos p => ctz p end.
Definition lastBit (d : N) : N := N.log2 d.

(** getMinBit/getMaxBit return the literal -1 on the empty set (which is a legal value!) *)
Definition getMinBit (d : N) : Z := if N.eqb d 0 then -1 else Z.of_N (firstBit d) + offs.
Definition getMaxBit (d : N) : Z := if N.eqb d 0 then -1 else Z.of_N (lastBit d) + offs.

(** removeSmaller: word index (minVal-offs)>>6 must be 0 for the one-word Domain *)
Definition removeSmaller (d : N) (minVal : Z) : option N :=
  let m := minVal - offs in
  if m >? 0 then
    if m <? numBits then Some (N.ldiff d (N.ones (Z.to_N m))) else None
  else Some d.

(** removeLarger: maxVal-offs+1 < 0 gives word index -1 *)
Definition removeLarger (d : N) (maxVal : Z) : option N :=
  let m := maxVal - offs + 1 in
  if m <? numBits then
    if m <? 0 then None else Some (N.land d (N.ones (Z.to_N m)))
  else Some d.

Definition evenPattern : N := 0x5555555555555555%N.
Definition oddPattern : N := 0xAAAAAAAAAAAAAAAA%N.   (* evenPattern << 1, offs is even *)
Definition removeOdd (d : N) : N := N.land d evenPattern.
Definition removeEven (d : N) : N := N.land d oddPattern.

Definition setRange (minVal maxVal : Z) : option N :=
  match removeSmaller allOnes64 minVal with
  | Some d => removeLarger d maxVal
  | None => None
  end.

(** ConstrSet (192 bits, offset 0) *)
Definition csNumBits : N := 192%N.
Definition csGetMinBit (m : N) : N := firstBit m.
Definition csClearBit (m : N) (i : N) : N := N.clearbit m i.
Definition csSetBit (m : N) (i : N) : N := N.setbit m i.
(** setRange(0, n-1) on a ConstrSet, n <= 192 *)
Definition csFirstN (n : N) : N := N.ones n.
