(** C20: the fuel given to the arc-consistency loop always suffices, and no error outcome
    (out-of-range word index, constraint index outside the constraint vector) is reachable. *)
From Coq Require Import ZArith NArith List Bool Lia.
From Texel Require Import Csp.BitSet Csp.BitSetFacts Csp.Csp Csp.CspSpec Csp.CspProofs.
Import ListNotations.
Local Open Scope nat_scope.

(** ---- constraint masks: all set bits below n ---- *)
Definition mbound (n : nat) (m : N) : Prop := forall i, N.testbit m i = true -> (i < N.of_nat n)%N.
Definition idxs (n : nat) : list N := map N.of_nat (seq 0 n).
Definition cardn (n : nat) (m : N) : nat := length (filter (N.testbit m) (idxs n)).

Lemma in_idxs n i : (i < N.of_nat n)%N -> In i (idxs n).
Proof. intros H. unfold idxs. apply in_map_iff. exists (N.to_nat i). split; [lia|]. apply in_seq. lia. Qed.

Lemma cardn_le n m : cardn n m <= n.
Proof. unfold cardn, idxs. etransitivity; [apply filter_length_bound|]. rewrite map_length, seq_length. lia. Qed.

Lemma cardn_clear n m i : mbound n m -> N.testbit m i = true -> cardn n (N.clearbit m i) < cardn n m.
Proof.
  intros Hb Hi. unfold cardn. apply filter_length_lt with (y := i).
  - intros x _ Hx. destruct (N.eq_dec x i) as [->|Hne]; [rewrite N.clearbit_eq in Hx; discriminate|].
    rewrite N.clearbit_neq in Hx by congruence. exact Hx.
  - apply in_idxs. apply Hb. exact Hi.
  - apply N.clearbit_eq.
  - exact Hi.
Qed.

Lemma mbound_lor n a b : mbound n a -> mbound n b -> mbound n (N.lor a b).
Proof. intros Ha Hb i H. rewrite N.lor_spec in H. apply orb_true_iff in H as [H|H]; auto. Qed.

Lemma mbound_clear n a i : mbound n a -> mbound n (N.clearbit a i).
Proof.
  intros Ha j H. destruct (N.eq_dec j i) as [->|Hne]; [rewrite N.clearbit_eq in H; discriminate|].
  rewrite N.clearbit_neq in H by congruence. auto.
Qed.

Lemma mbound_ones n : mbound n (N.ones (N.of_nat n)).
Proof. intros i H. rewrite ones_testbit in H. apply N.ltb_lt in H. exact H. Qed.

Lemma varToConstr_from_bound cs : forall ci v i,
  N.testbit (varToConstr_from cs ci v) i = true -> (ci <= i < ci + N.of_nat (length cs))%N.
Proof.
  induction cs as [|c r IH]; intros ci v i H; simpl in H; [destruct i; discriminate|].
  assert (Hr : N.testbit (varToConstr_from r (N.succ ci) v) i = true -> (ci <= i < ci + N.of_nat (length (c :: r)))%N).
  { intros H'. apply IH in H'. simpl length. lia. }
  destruct ((cv1 c =? v) || (cv2 c =? v)); [|auto].
  unfold csSetBit in H. destruct (N.eq_dec i ci) as [->|Hne].
  - simpl length. lia.
  - rewrite N.setbit_neq in H by congruence. auto.
Qed.

Lemma mbound_varToConstr cs v : mbound (length cs) (varToConstr cs v).
Proof. intros i H. apply varToConstr_from_bound in H. lia. Qed.

(** ---- total domain size ---- *)
Fixpoint total (ds : list N) : nat := match ds with [] => 0 | d :: r => card d + total r end.

Lemma total_le ds : total ds <= 64 * length ds.
Proof. induction ds as [|d r IH]; simpl; [lia|]. pose proof (card_le_64 d). lia. Qed.

Lemma total_upd ds v d : v < length ds -> total (upd ds v d) + card (nth v ds 0%N) = total ds + card d.
Proof.
  revert v. induction ds as [|h t IH]; intros [|v] H; simpl in *; try lia.
  specialize (IH v ltac:(lia)). lia.
Qed.

(** ---- shape of one side of a step ---- *)
Definition shrunk cs (ds : list N) (mask : N) (v : nat) (ds' : list N) (mask' : N) : Prop :=
  (ds' = ds /\ mask' = mask) \/
  (exists d, ds' = upd ds v d /\ card d < card (nth v ds 0%N) /\ mask' = N.lor mask (varToConstr cs v)).

Lemma land_subset_card d m : small d -> N.land d m <> d -> card (N.land d m) < card d.
Proof.
  intros Hs Hne. apply card_subset_neq; [exact Hs|apply small_land; exact Hs| |exact Hne].
  intros i H. rewrite N.land_spec in H. apply andb_true_iff in H. tauto.
Qed.
Lemma ldiff_subset_card d m : small d -> N.ldiff d m <> d -> card (N.ldiff d m) < card d.
Proof.
  intros Hs Hne. apply card_subset_neq; [exact Hs|apply small_ldiff; exact Hs| |exact Hne].
  intros i H. rewrite N.ldiff_spec in H. apply andb_true_iff in H. tauto.
Qed.

Lemma ac_side0_shape cs ds mask c ds' mask' :
  Forall small ds -> ac_side0 cs ds mask c = SideOk ds' mask' -> shrunk cs ds mask (cv1 c) ds' mask'.
Proof.
  intros Hs H. unfold ac_side0 in H.
  destruct (_ >=? _)%Z; [inversion H; left; auto|].
  destruct (_ <? _)%Z; [discriminate|].
  destruct (removeLarger _ _) as [d|] eqn:E; [|discriminate].
  destruct (N.eqb_spec d (nth (cv1 c) ds 0%N)) as [Heq|Hne]; [inversion H; left; auto|].
  destruct (N.eqb d 0); [discriminate|]. inversion H; subst ds' mask'. right. exists d. split; [reflexivity|]. split; [|reflexivity].
  unfold removeLarger in E. destruct (_ <? numBits)%Z; [destruct (_ <? 0)%Z; [discriminate|]|]; inversion E; subst d.
  - apply land_subset_card; [apply Forall_nth_small; exact Hs|exact Hne].
  - congruence.
Qed.

Lemma ac_side1_shape cs ds mask c ds' mask' :
  Forall small ds -> ac_side1 cs ds mask c = SideOk ds' mask' -> shrunk cs ds mask (cv2 c) ds' mask'.
Proof.
  intros Hs H. unfold ac_side1 in H.
  destruct (_ <=? _)%Z; [inversion H; left; auto|].
  destruct (_ >=? _)%Z; [discriminate|].
  destruct (removeSmaller _ _) as [d|] eqn:E; [|discriminate].
  destruct (N.eqb_spec d (nth (cv2 c) ds 0%N)) as [Heq|Hne]; [inversion H; left; auto|].
  destruct (N.eqb d 0); [discriminate|]. inversion H; subst ds' mask'. right. exists d. split; [reflexivity|]. split; [|reflexivity].
  unfold removeSmaller in E. destruct (_ >? 0)%Z; [destruct (_ <? numBits)%Z; [|discriminate]|]; inversion E; subst d.
  - apply ldiff_subset_card; [apply Forall_nth_small; exact Hs|exact Hne].
  - congruence.
Qed.

Definition phi (nC : nat) (ds : list N) (mask : N) : nat := cardn nC mask + (nC + 1) * total ds.

Lemma shrunk_props cs ds mask v ds' mask' :
  v < length ds -> mbound (length cs) mask -> shrunk cs ds mask v ds' mask' ->
  mbound (length cs) mask' /\
  ((ds' = ds /\ mask' = mask) \/ total ds' < total ds).
Proof.
  intros Hv Hb [[-> ->]|[d [-> [Hc ->]]]].
  - split; [exact Hb|left; auto].
  - split; [apply mbound_lor; [exact Hb|apply mbound_varToConstr]|right].
    pose proof (total_upd ds v d Hv). lia.
Qed.

Lemma ac_loop_no_err fuel cs : forall ds mask,
  wfc cs (length ds) -> Forall small ds -> mbound (length cs) mask ->
  phi (length cs) ds mask < fuel -> ac_loop fuel cs ds mask <> ACErr.
Proof.
  induction fuel as [|f IH]; intros ds mask Hw Hs Hb Hphi; [lia|]. cbn [ac_loop].
  destruct (N.eqb_spec mask 0) as [Hz|Hnz]; [discriminate|].
  pose proof (firstBit_bit mask Hnz) as Hfb. unfold csGetMinBit.
  pose proof (Hb _ Hfb) as Hlt.
  destruct (nth_error cs (N.to_nat (firstBit mask))) as [c|] eqn:En.
  2:{ apply nth_error_None in En. lia. }
  assert (Hin : In c cs) by (eapply nth_error_In; exact En).
  assert (Hc : cv1 c < length ds /\ cv2 c < length ds) by (unfold wfc in Hw; rewrite Forall_forall in Hw; apply Hw; exact Hin).
  destruct Hc as [H1 H2].
  pose proof (ac_side0_spec cs ds mask c Hs H1 H2) as S0.
  destruct (ac_side0 cs ds mask c) as [| |ds1 mask1] eqn:E0; [discriminate|destruct S0|].
  destruct S0 as [L1 [Sm1 _]].
  pose proof (ac_side0_shape _ _ _ _ _ _ Hs E0) as Sh0.
  destruct (shrunk_props _ _ _ _ _ _ H1 Hb Sh0) as [Hb1 T1].
  assert (H1' : cv1 c < length ds1) by lia. assert (H2' : cv2 c < length ds1) by lia.
  pose proof (ac_side1_spec cs ds1 mask1 c Sm1 H1' H2') as S1.
  destruct (ac_side1 cs ds1 mask1 c) as [| |ds2 mask2] eqn:E1; [discriminate|destruct S1|].
  destruct S1 as [L2 [Sm2 _]].
  pose proof (ac_side1_shape _ _ _ _ _ _ Sm1 E1) as Sh1.
  destruct (shrunk_props _ _ _ _ _ _ H2' Hb1 Sh1) as [Hb2 T2].
  apply IH.
  - rewrite L2, L1. exact Hw.
  - exact Sm2.
  - apply mbound_clear. exact Hb2.
  - unfold phi in *. unfold csClearBit.
    pose proof (cardn_le (length cs) (N.clearbit mask2 (firstBit mask))) as Hle.
    destruct T1 as [[-> ->]|T1]; destruct T2 as [[-> ->]|T2].
    + pose proof (cardn_clear (length cs) mask (firstBit mask) Hb Hfb). lia.
    + nia.
    + nia.
    + nia.
Qed.

Lemma phi_init s : phi (length (constrs s)) (doms s) (csFirstN (N.of_nat (length (constrs s)))) < ac_fuel s.
Proof.
  unfold phi, ac_fuel, csFirstN. pose proof (cardn_le (length (constrs s)) (N.ones (N.of_nat (length (constrs s))))).
  pose proof (total_le (doms s)). nia.
Qed.

Theorem makeArcConsistent_no_err s : wf s -> makeArcConsistent s <> ACErr.
Proof.
  intros [_ [Hs Hc]]. unfold makeArcConsistent. apply ac_loop_no_err; auto.
  - apply mbound_ones.
  - apply phi_init.
Qed.

Theorem solve_no_err s : wf s -> length (constrs s) <= 192 -> solve s <> Err.
Proof.
  intros Hwf Hn. unfold solve. destruct (length (doms s)); [discriminate|].
  destruct (Nat.ltb_spec 192 (length (constrs s))); [lia|].
  pose proof (makeArcConsistent_no_err s Hwf). destruct (makeArcConsistent s); [discriminate| |congruence].
  destruct (solveRec _ _ _ _ _ _ _) as [[r|] n0]; discriminate.
Qed.
