(** Facts about the BitSet model: what each word operation means for set membership. *)
From Coq Require Import ZArith NArith List Bool Lia.
From Texel Require Import Csp.BitSet.
Import ListNotations.
Local Open Scope Z_scope.


Lemma idx_inj v w : offs <= v -> offs <= w -> idx v = idx w -> v = w.
Proof. unfold idx, offs. intros. apply Z2N.inj in H1; lia. Qed.

Lemma idx_lt v : offs <= v < offs + numBits -> (idx v < 64)%N.
Proof. unfold idx, offs, numBits. intros. lia. Qed.

Lemma small_high d i : small d -> (64 <= i)%N -> N.testbit d i = false.
Proof.
  unfold small. intros Hs Hi. destruct (N.eq_dec d 0) as [->|Hd]; [apply N.bits_0|].
  apply N.bits_above_log2. apply N.log2_lt_pow2 in Hs; lia.
Qed.

Lemma small_of_high d : (forall i, (64 <= i)%N -> N.testbit d i = false) -> small d.
Proof.
  intros H. unfold small. destruct (N.eq_dec d 0) as [->|Hd]; [reflexivity|].
  apply N.log2_lt_pow2; [lia|].
  destruct (N.lt_ge_cases (N.log2 d) 64) as [Hlt|Hge]; [exact Hlt|].
  specialize (H _ Hge). rewrite N.bit_log2 in H by exact Hd. discriminate.
Qed.

Lemma small_land d m : small d -> small (N.land d m).
Proof.
  intros Hs. apply small_of_high. intros i Hi. rewrite N.land_spec, (small_high d i Hs Hi). reflexivity.
Qed.

Lemma small_ldiff d m : small d -> small (N.ldiff d m).
Proof.
  intros Hs. apply small_of_high. intros i Hi. rewrite N.ldiff_spec, (small_high d i Hs Hi). reflexivity.
Qed.

Lemma small_ones64 : small allOnes64.
Proof. unfold small, allOnes64. vm_compute. reflexivity. Qed.

Lemma ones_testbit n i : N.testbit (N.ones n) i = (i <? n)%N.
Proof.
  destruct (N.ltb_spec i n) as [H|H].
  - apply N.ones_spec_low. exact H.
  - apply N.ones_spec_high. exact H.
Qed.

(** ---- removeLarger / removeSmaller ---- *)
Lemma removeLarger_spec d m d' :
  removeLarger d m = Some d' ->
  forall v, dmem d' v <-> (dmem d v /\ v <= m).
Proof.
  unfold removeLarger, dmem, numBits, offs. intros H v.
  destruct (m - -16 + 1 <? 64) eqn:E1.
  - destruct (m - -16 + 1 <? 0) eqn:E2; [discriminate|]. inversion H; subst d'; clear H.
    rewrite N.land_spec, ones_testbit. unfold idx, offs.
    split.
    + intros [Hr Hb]. apply andb_true_iff in Hb as [Hb1 Hb2].
      apply N.ltb_lt in Hb2. split; [split; assumption|]. lia.
    + intros [[Hr Hb] Hle]. split; [exact Hr|]. rewrite Hb. simpl. apply N.ltb_lt. lia.
  - inversion H; subst d'. split; [intros [Hr Hb]; split; [split; assumption| lia] | intros [Hd _]; exact Hd].
Qed.

Lemma removeSmaller_spec d m d' :
  removeSmaller d m = Some d' ->
  forall v, dmem d' v <-> (dmem d v /\ m <= v).
Proof.
  unfold removeSmaller, dmem, numBits, offs. intros H v.
  destruct (m - -16 >? 0) eqn:E1.
  - destruct (m - -16 <? 64) eqn:E2; [|discriminate]. inversion H; subst d'; clear H.
    rewrite N.ldiff_spec, ones_testbit. unfold idx, offs.
    split.
    + intros [Hr Hb]. apply andb_true_iff in Hb as [Hb1 Hb2].
      apply negb_true_iff in Hb2. apply N.ltb_ge in Hb2. split; [split; assumption|]. lia.
    + intros [[Hr Hb] Hle]. split; [exact Hr|]. rewrite Hb. simpl. apply negb_true_iff. apply N.ltb_ge. lia.
  - inversion H; subst d'. split; [intros [Hr Hb]; split; [split; assumption| lia] | intros [Hd _]; exact Hd].
Qed.

Lemma removeLarger_small d m d' : small d -> removeLarger d m = Some d' -> small d'.
Proof.
  unfold removeLarger. intros Hs H. destruct (_ <? numBits); [destruct (_ <? 0); [discriminate|]|];
    inversion H; subst; [apply small_land|]; assumption.
Qed.

Lemma removeSmaller_small d m d' : small d -> removeSmaller d m = Some d' -> small d'.
Proof.
  unfold removeSmaller. intros Hs H. destruct (_ >? 0); [destruct (_ <? numBits); [|discriminate]|];
    inversion H; subst; [apply small_ldiff|]; assumption.
Qed.

(** in-bounds: inside the guards used by makeArcConsistent the word index is always 0 *)
Lemma removeLarger_in_bounds d m : offs - 1 <= m -> removeLarger d m <> None.
Proof.
  unfold removeLarger, offs, numBits. intros H. destruct (_ <? 64); [|discriminate].
  destruct (m - -16 + 1 <? 0) eqn:E; [lia|discriminate].
Qed.

Lemma removeSmaller_in_bounds d m : m < offs + numBits -> removeSmaller d m <> None.
Proof.
  unfold removeSmaller, offs, numBits. intros H. destruct (_ >? 0); [|discriminate].
  destruct (m - -16 <? 64) eqn:E; [discriminate|lia].
Qed.

(** ---- parity masks: finite sweep over the 64 bit positions, lifted ---- *)
Definition bits64 : list N := map N.of_nat (seq 0 64).

Lemma in_bits64 i : (i < 64)%N -> In i bits64.
Proof.
  intros H. unfold bits64. apply in_map_iff. exists (N.to_nat i). split; [lia|].
  apply in_seq. lia.
Qed.

Lemma evenPattern_sweep :
  forallb (fun i => Bool.eqb (N.testbit evenPattern i) (N.even i)) bits64 = true.
Proof. vm_compute. reflexivity. Qed.
Lemma oddPattern_sweep :
  forallb (fun i => Bool.eqb (N.testbit oddPattern i) (N.odd i)) bits64 = true.
Proof. vm_compute. reflexivity. Qed.

Lemma evenPattern_bit i : (i < 64)%N -> N.testbit evenPattern i = N.even i.
Proof.
  intros H. pose proof evenPattern_sweep as S. rewrite forallb_forall in S.
  specialize (S i (in_bits64 i H)). apply Bool.eqb_prop in S. exact S.
Qed.
Lemma oddPattern_bit i : (i < 64)%N -> N.testbit oddPattern i = N.odd i.
Proof.
  intros H. pose proof oddPattern_sweep as S. rewrite forallb_forall in S.
  specialize (S i (in_bits64 i H)). apply Bool.eqb_prop in S. exact S.
Qed.

Lemma idx_even v : offs <= v -> N.even (idx v) = Z.even v.
Proof.
  unfold idx, offs. intros H.
  replace v with (Z.of_N (Z.to_N (v - -16)) + (-16)) at 2 by lia.
  rewrite Z.even_add. simpl (Z.even (-16)).
  generalize (Z.to_N (v - -16)). intros n. destruct n as [|p]; [reflexivity|]. destruct p; reflexivity.
Qed.
Lemma idx_odd v : offs <= v -> N.odd (idx v) = Z.odd v.
Proof.
  intros H. rewrite <- N.negb_even, <- Z.negb_even, idx_even by exact H. reflexivity.
Qed.

Lemma removeOdd_spec d v : dmem (removeOdd d) v <-> (dmem d v /\ Z.even v = true).
Proof.
  unfold removeOdd, dmem. rewrite N.land_spec. split.
  - intros [Hr Hb]. apply andb_true_iff in Hb as [Hb1 Hb2].
    rewrite evenPattern_bit in Hb2 by (apply idx_lt; exact Hr). rewrite idx_even in Hb2 by lia. tauto.
  - intros [[Hr Hb] He]. split; [exact Hr|]. rewrite Hb, evenPattern_bit by (apply idx_lt; exact Hr).
    rewrite idx_even by lia. rewrite He. reflexivity.
Qed.
Lemma removeEven_spec d v : dmem (removeEven d) v <-> (dmem d v /\ Z.odd v = true).
Proof.
  unfold removeEven, dmem. rewrite N.land_spec. split.
  - intros [Hr Hb]. apply andb_true_iff in Hb as [Hb1 Hb2].
    rewrite oddPattern_bit in Hb2 by (apply idx_lt; exact Hr). rewrite idx_odd in Hb2 by lia. tauto.
  - intros [[Hr Hb] He]. split; [exact Hr|]. rewrite Hb, oddPattern_bit by (apply idx_lt; exact Hr).
    rewrite idx_odd by lia. rewrite He. reflexivity.
Qed.

Lemma allOnes_mem v : dmem allOnes64 v <-> offs <= v < offs + numBits.
Proof.
  unfold dmem, allOnes64. rewrite ones_testbit. split; [tauto|]. intros H. split; [exact H|].
  apply N.ltb_lt. apply idx_lt. exact H.
Qed.

Lemma setRange_spec lo hi d :
  setRange lo hi = Some d ->
  small d /\ forall v, dmem d v <-> (offs <= v < offs + numBits /\ lo <= v <= hi).
Proof.
  unfold setRange. destruct (removeSmaller allOnes64 lo) as [d1|] eqn:E1; [|discriminate].
  intros E2. split.
  - eapply removeLarger_small; [|exact E2]. eapply removeSmaller_small; [apply small_ones64|exact E1].
  - intros v. rewrite (removeLarger_spec _ _ _ E2), (removeSmaller_spec _ _ _ E1), allOnes_mem. lia.
Qed.

(** ---- first / last bit ---- *)
Lemma ctz_bit p : N.testbit (Npos p) (ctz p) = true.
Proof.
  induction p as [p IH|p IH|]; simpl ctz; try reflexivity.
  change (Npos p~0) with (2 * Npos p)%N. rewrite N.testbit_even_succ by lia. exact IH.
Qed.

Lemma ctz_low p i : (i < ctz p)%N -> N.testbit (Npos p) i = false.
Proof.
  revert i. induction p as [p IH|p IH|]; simpl ctz; intros i Hi; try lia.
  change (Npos p~0) with (2 * Npos p)%N.
  destruct (N.eq_dec i 0) as [->|Hn]; [apply N.testbit_even_0|].
  replace i with (N.succ (N.pred i)) by lia. rewrite N.testbit_even_succ by lia. apply IH. lia.
Qed.

Lemma firstBit_bit d : d <> 0%N -> N.testbit d (firstBit d) = true.
Proof. destruct d; [congruence|]. intros _. apply ctz_bit. Qed.
Lemma firstBit_low d i : (i < firstBit d)%N -> N.testbit d i = false.
Proof. destruct d; [intros; apply N.bits_0|]. apply ctz_low. Qed.
Lemma firstBit_small d : small d -> d <> 0%N -> (firstBit d < 64)%N.
Proof.
  intros Hs Hd. destruct (N.lt_ge_cases (firstBit d) 64) as [H|H]; [exact H|].
  pose proof (firstBit_bit d Hd) as Hb. rewrite (small_high d _ Hs H) in Hb. discriminate.
Qed.
Lemma lastBit_small d : small d -> d <> 0%N -> (lastBit d < 64)%N.
Proof. unfold small, lastBit. intros Hs Hd. apply N.log2_lt_pow2 in Hs; lia. Qed.

Lemma getMinBit_mem d : small d -> d <> 0%N -> dmem d (getMinBit d).
Proof.
  intros Hs Hd. unfold getMinBit. rewrite (proj2 (N.eqb_neq d 0) Hd).
  pose proof (firstBit_small d Hs Hd). unfold dmem, idx, offs, numBits. split; [lia|].
  replace (Z.to_N (Z.of_N (firstBit d) + -16 - -16)) with (firstBit d) by lia.
  apply firstBit_bit. exact Hd.
Qed.
Lemma getMinBit_least d v : dmem d v -> getMinBit d <= v.
Proof.
  intros [Hr Hb]. unfold getMinBit. destruct (N.eqb_spec d 0) as [->|Hd]; [rewrite N.bits_0 in Hb; discriminate|].
  destruct (Z_lt_le_dec v (Z.of_N (firstBit d) + offs)) as [Hlt|Hle]; [|lia].
  rewrite firstBit_low in Hb; [discriminate|]. unfold idx, offs in *. lia.
Qed.
Lemma getMaxBit_mem d : small d -> d <> 0%N -> dmem d (getMaxBit d).
Proof.
  intros Hs Hd. unfold getMaxBit. rewrite (proj2 (N.eqb_neq d 0) Hd).
  pose proof (lastBit_small d Hs Hd). unfold dmem, idx, offs, numBits. split; [lia|].
  replace (Z.to_N (Z.of_N (lastBit d) + -16 - -16)) with (lastBit d) by lia.
  apply N.bit_log2. exact Hd.
Qed.
Lemma getMaxBit_greatest d v : dmem d v -> v <= getMaxBit d.
Proof.
  intros [Hr Hb]. unfold getMaxBit. destruct (N.eqb_spec d 0) as [->|Hd]; [rewrite N.bits_0 in Hb; discriminate|].
  destruct (Z_lt_le_dec (Z.of_N (lastBit d) + offs) v) as [Hlt|Hle]; [|lia].
  unfold lastBit in *. rewrite N.bits_above_log2 in Hb; [discriminate|]. unfold idx, offs in *. lia.
Qed.

Lemma dmem_zero v : ~ dmem 0%N v.
Proof. intros [_ H]. rewrite N.bits_0 in H. discriminate. Qed.

Lemma nonzero_has_member d : small d -> d <> 0%N -> exists v, dmem d v.
Proof. intros Hs Hd. exists (getMinBit d). apply getMinBit_mem; assumption. Qed.

(** two small words with the same members are equal *)
Lemma dmem_ext d e : small d -> small e -> (forall v, dmem d v <-> dmem e v) -> d = e.
Proof.
  intros Hd He H. apply N.bits_inj. intros i.
  destruct (N.lt_ge_cases i 64) as [Hi|Hi].
  - specialize (H (Z.of_N i + offs)). unfold dmem, idx, offs, numBits in H.
    replace (Z.to_N (Z.of_N i + -16 - -16)) with i in H by lia.
    destruct (N.testbit d i), (N.testbit e i); try reflexivity.
    + assert (X : (-16 <= Z.of_N i + -16 < -16 + 64) /\ true = true) by (split; [lia|reflexivity]).
      apply H in X. destruct X as [_ X]. discriminate.
    + assert (X : (-16 <= Z.of_N i + -16 < -16 + 64) /\ true = true) by (split; [lia|reflexivity]).
      apply H in X. destruct X as [_ X]. discriminate.
  - rewrite (small_high d i Hd Hi), (small_high e i He Hi). reflexivity.
Qed.

(** clearBit removes exactly one member *)
Lemma clearBit_spec d w v : offs <= w -> dmem (clearBit d w) v <-> (dmem d v /\ v <> w).
Proof.
  intros Hw. unfold clearBit, dmem. split.
  - intros [Hr Hb]. destruct (Z.eq_dec v w) as [->|Hne].
    + rewrite N.clearbit_eq in Hb. discriminate.
    + rewrite N.clearbit_neq in Hb; [tauto|]. intros E. apply idx_inj in E; lia.
  - intros [[Hr Hb] Hne]. split; [exact Hr|]. rewrite N.clearbit_neq; [exact Hb|].
    intros E. apply idx_inj in E; lia.
Qed.
Lemma clearBit_small d w : small d -> small (clearBit d w).
Proof. intros Hs. unfold clearBit. rewrite N.clearbit_spec'. apply small_ldiff. exact Hs. Qed.

(** ---- cardinality (for fuel arguments) ---- *)
Definition card (d : N) : nat := length (filter (N.testbit d) bits64).

Lemma filter_length_le {A} (f g : A -> bool) l :
  (forall x, In x l -> f x = true -> g x = true) -> (length (filter f l) <= length (filter g l))%nat.
Proof.
  induction l as [|x l IH]; simpl; intros H; [lia|].
  assert (IH' := IH (fun y Hy => H y (or_intror Hy))).
  destruct (f x) eqn:Ef.
  - rewrite (H x (or_introl eq_refl) Ef). simpl. lia.
  - destruct (g x); simpl; lia.
Qed.

Lemma filter_length_lt {A} (f g : A -> bool) l y :
  (forall x, In x l -> f x = true -> g x = true) -> In y l -> f y = false -> g y = true ->
  (length (filter f l) < length (filter g l))%nat.
Proof.
  induction l as [|x l IH]; simpl; intros H Hy Hf Hg; [tauto|].
  assert (Hle := filter_length_le f g l (fun z Hz => H z (or_intror Hz))).
  destruct Hy as [->|Hy].
  - rewrite Hf, Hg. simpl. lia.
  - assert (IH' := IH (fun z Hz => H z (or_intror Hz)) Hy Hf Hg).
    destruct (f x) eqn:Ef.
    + rewrite (H x (or_introl eq_refl) Ef). simpl. lia.
    + destruct (g x); simpl; lia.
Qed.

Lemma filter_length_bound {A} (f : A -> bool) l : (length (filter f l) <= length l)%nat.
Proof. induction l as [|x l IH]; simpl; [lia|]. destruct (f x); simpl; lia. Qed.

Lemma card_le_64 d : (card d <= 64)%nat.
Proof.
  unfold card. etransitivity; [apply filter_length_bound|].
  unfold bits64. rewrite map_length, seq_length. lia.
Qed.

Lemma card_subset_neq d e :
  small d -> small e -> (forall i, N.testbit e i = true -> N.testbit d i = true) -> e <> d ->
  (card e < card d)%nat.
Proof.
  intros Hd He Hsub Hne.
  assert (Hex : exists i, (i < 64)%N /\ N.testbit e i = false /\ N.testbit d i = true).
  { destruct (existsb (fun i => negb (N.testbit e i) && N.testbit d i) bits64) eqn:E.
    - apply existsb_exists in E as [i [Hi Hb]]. apply andb_true_iff in Hb as [H1 H2].
      apply negb_true_iff in H1. exists i. repeat split; try assumption.
      unfold bits64 in Hi. apply in_map_iff in Hi as [k [<- Hk]]. apply in_seq in Hk. lia.
    - exfalso. apply Hne. apply N.bits_inj. intros i.
      destruct (N.lt_ge_cases i 64) as [Hi|Hi].
      + destruct (N.testbit e i) eqn:Ee; [symmetry; apply Hsub; exact Ee|].
        destruct (N.testbit d i) eqn:Ed; [|reflexivity].
        assert (X : existsb (fun i => negb (N.testbit e i) && N.testbit d i) bits64 = true).
        { apply existsb_exists. exists i. split; [apply in_bits64; exact Hi|]. rewrite Ee, Ed. reflexivity. }
        congruence.
      + rewrite (small_high d i Hd Hi), (small_high e i He Hi). reflexivity. }
  destruct Hex as [i [Hi [Hei Hdi]]]. unfold card.
  apply filter_length_lt with (y := i); auto. apply in_bits64. exact Hi.
Qed.

Lemma card_pos d i : (i < 64)%N -> N.testbit d i = true -> (0 < card d)%nat.
Proof.
  intros Hi Hb. unfold card.
  assert (X : In i (filter (N.testbit d) bits64)) by (apply filter_In; split; [apply in_bits64; exact Hi|exact Hb]).
  destruct (filter (N.testbit d) bits64); [destruct X|simpl; lia].
Qed.

Lemma card_zero d : small d -> card d = 0%nat -> d = 0%N.
Proof.
  intros Hs Hc. apply N.bits_inj. intros i. rewrite N.bits_0.
  destruct (N.lt_ge_cases i 64) as [Hi|Hi]; [|apply small_high; assumption].
  destruct (N.testbit d i) eqn:E; [|reflexivity].
  pose proof (card_pos d i Hi E). lia.
Qed.
