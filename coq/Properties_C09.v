(** C09 — multi-threaded operation is free of data races: PARTIAL (logical half, modelled shared
    state only; see DESIGN.md section 6, C09).  Only statements; proofs are [exact <lemma>] into
    Workers/RaceProofs.v, Workers/AccessProofs.v and Workers/HandshakeProofs.v.
    Spec: Workers/Race.v — traces of accesses (thread, location, read/write, plain / seq_cst atomic /
    relaxed atomic) and mutex acquire/release; [hb] = transitive closure of program order,
    unlock->lock edges and atomic-store -> atomic-load-that-reads-it edges; [race_on tr P] = two
    conflicting accesses (at least one plain) to a location selected by P not ordered by [hb].
    Model: Workers/Access.v — the C10 control LTS (Workers/Workers.v) extended with the UCI option
    hand-shake (setOptionWhenIdle / setOptions / waitOptionsSet) and the accesses and lock operations
    of every transition; [trace_of N parent gp x ls] is the access trace of schedule ls from x
    (gp = true: go ponder waits for pending options, as in the code).
    Modelled locations: mailboxes, notifier flags, search, quitFlag, search parameters,
    ponder/infinite, pendingOptions, optionsSetFinished, option values, TT geometry/generation.
    NOT covered (stated in the evidence on every run): every other memory location. *)
From Coq Require Import ZArith List Bool Arith.
From Texel Require Import Workers.Workers Workers.Race Workers.RaceProofs Workers.Access Workers.AccessProofs
  Workers.WorkersInv Workers.HandshakeProofs Workers.HelperReads Workers.HelperReadProofs Workers.HelperReadExample.
Import ListNotations.

(** the executable one-pass detector used on recorded traces decides the relational definition *)
Theorem C09_detector_exact : forall P tr, raceb_on P tr = true <-> race_on tr P.
Proof. exact raceb_on_spec. Qed.
Print Assumptions C09_detector_exact.

(** for every number of helpers, tree, start state and schedule: no data race on a mailbox, a
    notifier flag, pendingOptions or optionsSetFinished (always accessed under their mutex) ... *)
Theorem C09_model_drf_locked : forall N parent gp x ls tr,
  trace_of N parent gp x ls = Some tr -> ~ race_on tr guarded.
Proof. exact model_guarded_drf. Qed.
Print Assumptions C09_model_drf_locked.

(** ... nor on search, quitFlag, ponder/infinite (std::atomic objects, never accessed plainly) *)
Theorem C09_model_drf_atomic : forall N parent gp x ls tr,
  trace_of N parent gp x ls = Some tr -> ~ race_on tr atomic_loc.
Proof. exact model_atomic_drf. Qed.
Print Assumptions C09_model_drf_atomic.

(** the hand-off locations — search parameters, option values, TT geometry/generation — are plain
    objects handed between the UCI thread and the engine thread: for every N, tree and schedule
    from the initial state every pair of conflicting accesses to them by these two threads is
    ordered by happens-before: through the engine mutex (waitOptionsSet / waitStop hand-shakes)
    or through the seq_cst store / load of [search] *)
Theorem C09_model_drf_handoff : forall N parent ls tr,
  trace_of N parent true xinit ls = Some tr -> ~ race_between tr (uci N) 0 handoff_loc.
Proof. exact model_handoff_drf. Qed.
Print Assumptions C09_model_drf_handoff.

(** the hand-shake is what orders them: if go ponder does not wait for pending options (gp = false)
    the model races on the option values and on the table geometry / generation *)
Theorem C09_unguarded_ponder_races :
  exists tr, trace_of 0 par0 false xinit noguard_sched = Some tr /\ race_on tr is_opt /\ race_on tr is_tt.
Proof. exact unguarded_ponder_races. Qed.
Print Assumptions C09_unguarded_ponder_races.

(** intermediate summary (lock discipline + atomics + UCI/engine hand-off): two conflicting
    accesses to a modelled location that are not ordered by happens-before could only be an access
    to the option values or the table geometry / generation by a HELPER thread against an access
    of another thread - the case C09_helper_reads_ordered settles *)
Theorem C09_model_drf_partial : forall N parent ls tr i j a b,
  trace_of N parent true xinit ls = Some tr ->
  i < j -> at_ tr i = Some a -> at_ tr j = Some b -> conflictb a b = true -> ~ hb tr i j ->
  sel opt_or_tt a = true /\
  ((ev_tid a <> 0 /\ ev_tid a <> uci N) \/ (ev_tid b <> 0 /\ ev_tid b <> uci N)).
Proof. exact model_drf_partial. Qed.
Print Assumptions C09_model_drf_partial.

(** the helpers' reads: for every number of helpers, every communicator tree and every schedule,
    every access of a helper thread to the option values / table geometry and every conflicting
    access of another thread are ordered by happens-before:
    write -> engine thread -> START_SEARCH down the tree through the mailbox mutexes -> read, and
    read -> STOP_ACK up the tree through the mailbox mutexes -> barrier -> write *)
Theorem C09_helper_reads_ordered : forall N parent, WorkersInv.tree_ok N parent ->
  forall ls tr i j a b,
  trace_of N parent true xinit ls = Some tr ->
  i < j -> at_ tr i = Some a -> at_ tr j = Some b -> conflictb a b = true ->
  sel opt_or_tt a = true -> (helper N (ev_tid a) \/ helper N (ev_tid b)) -> hb tr i j.
Proof. exact helper_reads_ordered. Qed.
Print Assumptions C09_helper_reads_ordered.

(** ... hence: the model has no data race on ANY modelled location, for every number of helper
    threads, every communicator tree createWorkers can build and every schedule (from the
    initial state, with go / go ponder waiting for pending options as the code does) *)
Theorem C09_model_drf : forall N parent, WorkersInv.tree_ok N parent ->
  forall ls tr, trace_of N parent true xinit ls = Some tr -> ~ race tr.
Proof. exact model_drf. Qed.
Print Assumptions C09_model_drf.

(** non-vacuity: a schedule in which a helper reads between writes of both writers *)
Theorem C09_helper_reads_example :
  WorkersInv.tree_ok 1 par1 /\
  exists tr, trace_of 1 par1 true xinit ex_read_sched = Some tr /\
    nth_error tr 17 = Some (Acc 0 LTT true Plain) /\
    nth_error tr 31 = Some (Acc 2 LTT true Plain) /\
    nth_error tr 80 = Some (Acc 1 LTT false Plain) /\
    nth_error tr 130 = Some (Acc 0 LTT true Plain) /\
    raceb tr = false.
Proof. split; [exact par1_tree | exact ex_read_trace]. Qed.
Print Assumptions C09_helper_reads_example.
