(** C09 — multi-threaded operation is free of data races: PARTIAL (logical half, modelled shared
    state only; see DESIGN.md section 6, C09).  Only statements; proofs are [exact <lemma>] into
    Workers/RaceProofs.v and Workers/AccessProofs.v.
    Spec: Workers/Race.v — traces of accesses (thread, location, read/write, plain/atomic) and
    mutex acquire/release; [hb] = transitive closure of program order and unlock->lock edges;
    [race_on tr P] = two conflicting accesses to a location selected by P not ordered by [hb].
    Model: Workers/Access.v — the accesses and lock operations of every transition of the C10
    control LTS (Workers/Workers.v); [trace_of N parent s ls] is the access trace of schedule ls.
    NOT covered (stated in the evidence on every run): every memory location outside
    {mailboxes, notifier flags, search, quitFlag, search parameters, ponder/infinite}. *)
From Coq Require Import ZArith List Bool Arith.
From Texel Require Import Workers.Workers Workers.Race Workers.RaceProofs Workers.Access Workers.AccessProofs.
Import ListNotations.

(** the executable one-pass detector used on recorded traces decides the relational definition *)
Theorem C09_detector_exact : forall P tr, raceb_on P tr = true <-> race_on tr P.
Proof. exact raceb_on_spec. Qed.
Print Assumptions C09_detector_exact.

(** for every number of helpers, every communicator tree, every start state and every schedule:
    no data race on any mailbox (cmdQueue) or notifier flag — every access is made inside a
    critical section of the object's own mutex *)
Theorem C09_model_drf_partial : forall N parent s ls tr,
  trace_of N parent s ls = Some tr -> ~ race_on tr guarded.
Proof. exact model_guarded_drf. Qed.
Print Assumptions C09_model_drf_partial.

(** ... and no schedule races on anything but [search], [quitFlag] and the search parameters *)
Theorem C09_model_races_only_f9 : forall N parent s ls tr,
  trace_of N parent s ls = Some tr -> ~ race_on tr (fun l => negb (f9_loc l)).
Proof. exact model_races_only_f9. Qed.
Print Assumptions C09_model_races_only_f9.

(** the full claim "no reachable trace of the LTS has a race" is FALSE of the faithful model
    (finding F9): EngineMainThread::mainLoop reads [search] and [quitFlag] without the mutex that
    guards their writers.  Witness schedules: a stale notification (setoption) wakes the engine
    thread, which then reads the flag concurrently with the UCI thread's go / quit. *)
Definition C09_model_drf_statement : Prop :=
  forall N parent ls tr, trace_of N parent init ls = Some tr -> ~ race tr.

Theorem C09_model_drf_refuted :
  (exists tr, trace_of 0 par0 init f9_search_sched = Some tr /\ race_on tr is_search /\ race_on tr is_params) /\
  (exists tr, trace_of 0 par0 init f9_quit_sched = Some tr /\ race_on tr is_quit).
Proof. exact model_drf_refuted. Qed.
Print Assumptions C09_model_drf_refuted.
