(** C18 — executable model of the polyglot book probe.

    Shaped like the C++ (lib/texellib/book/book.cpp: Book::getBookEntries, Book::getBookMove;
    lib/texellib/book/polyglot.cpp: getHashKey, getMove, getPGMove, serialize, deSerialize;
    lib/texellib/util/random.cpp: Random::nextInt).  No proofs in this file.

    Numeric constants (hashRandoms, piece -> pVal table, hash offsets, field shifts/masks of the
    16-bit move, promotion table, castling conversions, entry layout, entSize, nextInt range)
    come from gen/PolyglotRandoms.v, regenerated from the C++ text on every run. *)
From Coq Require Import ZArith NArith List Bool.
From Texel Require Import Chess.Types gen.PolyglotRandoms.
Import ListNotations.
Local Open Scope Z_scope.

Definition byte := N.                       (* a file byte; the C++ U8 is < 256 *)
Definition two64 : N := Eval vm_compute in (2 ^ 64)%N.
Definition two16 : N := 65536%N.

(** * The book file as seen through std::fstream

    [None] = the file could not be opened: every stream operation fails, tellg() gives -1. *)
Definition bookFile := option (list byte).

Definition fileLen (f : bookFile) : Z :=
  match f with Some b => Z.of_nat (length b) | None => -1 end.

(** [int numEntries = fileLen / entSize] — C++ division truncates towards zero *)
Definition numEntries (f : bookFile) : Z := Z.quot (fileLen f) pgEntSize.

Definition entry := list byte.              (* PGEntry::data, 16 bytes *)
Definition entBytes : nat := Z.to_nat pgEntSize.
Definition zeroEntry : entry := repeat 0%N entBytes.

(** the [readEntry] lambda: seek to [entNo * entSize], read 16 bytes; when the stream is not good
    afterwards (seek to a negative offset, fewer than 16 bytes left, unopened file) the whole entry
    is zero-filled *)
Definition readEntry (f : bookFile) (entNo : Z) : entry :=
  match f with
  | None => zeroEntry
  | Some b =>
      let offs := entNo * pgEntSize in
      if offs <? 0 then zeroEntry
      else
        let got := firstn entBytes (skipn (Z.to_nat offs) b) in
        if (length got =? entBytes)%nat then got else zeroEntry
  end.

(** * Entry codec *)
Record pgEntry := mkEnt { entHash : N; entMove : N; entWeight : N }.

(** [x = 0; for i: x = (x << 8) | data[off+i]] in an unsigned type of the given modulus *)
Definition beField (e : entry) (off len : nat) (modulus : N) : N :=
  fold_left (fun h b => (N.lor (N.shiftl h 8) b) mod modulus)%N (firstn len (skipn off e)) 0%N.

Definition deSerialize (e : entry) : pgEntry :=
  mkEnt (beField e pg_hash_off pg_hash_len two64)
        (beField e pg_move_off pg_move_len two16)
        (beField e pg_weight_off pg_weight_len two16).

(** [data[off+i] = x >> (8*(len-1-i))] truncated to a byte: the last byte is the low byte of [x],
    the bytes before it are the bytes of [x >> 8] *)
Fixpoint beBytes (x : N) (len : nat) : list byte :=
  match len with
  | O => []
  | S l => beBytes (N.shiftr x 8) l ++ [x mod 256]%N
  end.

Definition serialize (h m w : N) : entry :=
  beBytes h pg_hash_len ++ beBytes m pg_move_len ++ beBytes w pg_weight_len ++ repeat 0%N 4.

(** * PolyglotBook::getMove *)
Definition field (mv sh mask : N) : N := N.land (N.shiftr mv sh) mask.

Definition promPiece (wtm : bool) (prom : N) : piece :=
  match find (fun e => (fst e =? prom)%N) pgPromTable with
  | Some (_, (w, b)) => if wtm then w else b
  | None => pgPromDefault
  end.

(** the two sequential [if ((from == E1) && (pos.getPiece(from) == WKING)) {...}] blocks;
    [pcFrom] is the piece standing on the from-square *)
Definition castleConv (pcFrom : piece) (from to : square) : square :=
  fold_left (fun t c =>
               match c with
               | (f, pc, (a, a'), (b, b')) =>
                   if ((from =? f) && (pcFrom =? pc))%N
                   then (if (t =? a)%N then a' else if (t =? b)%N then b' else t)
                   else t
               end) pgCastleConv to.

Definition moveFrom (mv : N) : square :=
  mkSq (field mv pg_fromFile_shift pg_fromFile_mask) (field mv pg_fromRow_shift pg_fromRow_mask).

(** getMove as a function of the two things it reads from the position *)
Definition getMoveP (wtm : bool) (pcFrom : piece) (mv : N) : move :=
  let toFile := field mv pg_toFile_shift pg_toFile_mask in
  let toRow := field mv pg_toRow_shift pg_toRow_mask in
  let prom := field mv pg_prom_shift pg_prom_mask in
  let from := moveFrom mv in
  let to := mkSq toFile toRow in
  mkMove from (castleConv pcFrom from to) (promPiece wtm prom).

Definition getMove (pos : position) (mv : N) : move :=
  getMoveP (whiteMove pos) (getPiece pos (moveFrom mv)) mv.

(** * PolyglotBook::getPGMove *)
Definition getPGMoveP (pcFrom : piece) (m : move) : N :=
  let fromX := sqX (mfrom m) in
  let fromY := sqY (mfrom m) in
  let toY := sqY (mto m) in
  let toX :=
    fold_left (fun tx c =>
                 match c with
                 | (f, pc, (a, ax), (b, bx)) =>
                     if ((mfrom m =? f) && (pcFrom =? pc))%N
                     then (let tx1 := if (mto m =? a)%N then ax else tx in
                           if (mto m =? b)%N then bx else tx1)
                     else tx
                 end) pgEncCastle (sqX (mto m)) in
  let prom := match find (fun e => (fst e =? mpromote m)%N) pgEncProm with
              | Some (_, c) => c
              | None => 0%N
              end in
  ((N.lor toX (N.lor (N.shiftl toY pgEnc_toY_shift) (N.lor (N.shiftl fromX pgEnc_fromX_shift)
     (N.lor (N.shiftl fromY pgEnc_fromY_shift) (N.shiftl prom pgEnc_prom_shift))))) mod two16)%N.

Definition getPGMove (pos : position) (m : move) : N := getPGMoveP (getPiece pos (mfrom m)) m.

(** * PolyglotBook::getHashKey *)
Definition hashRandom (i : N) : N := nth (N.to_nat i) hashRandoms 0%N.

Definition pieceVal (p : piece) : option N :=
  match find (fun e => (fst e =? p)%N) pgPieceVals with Some (_, v) => Some v | None => None end.

(** indices into hashRandoms xor-ed into the key, in program order *)
Definition hashIndices (pos : position) : list N :=
  flat_map (fun sq => match pieceVal (getPiece pos sq) with
                      | Some v => [pgPieceStride * v + sq]%N
                      | None => []
                      end) (map N.of_nat (seq 0 64))
  ++ flat_map (fun c => if N.testbit (castleMask pos) (fst c) then [snd c] else []) pgCastleIdx
  ++ (if epSquare pos =? -1 then [] else [pgEpBase + N.land (Z.to_N (epSquare pos)) 7]%N)
  ++ (if whiteMove pos then [pgWtmIdx] else []).

Definition getHashKey (pos : position) : N :=
  fold_left (fun k i => N.lxor k (hashRandom i)) (hashIndices pos) 0%N.

(** * Book::getBookEntries, polyglot branch *)

(** binary search: [lo = -1; hi = numEntries; while (hi - lo > 1) { mid = (lo+hi)/2; ... }].
    [hk i] is the hash field of entry [i].  Returns the final [hi] and the list of entry numbers
    read, in order.  [None] = fuel exhausted (excluded by C18_search_terminates). *)
Fixpoint bsearch (fuel : nat) (hk : Z -> N) (key : N) (lo hi : Z) : option (Z * list Z) :=
  if hi - lo >? 1 then
    match fuel with
    | O => None
    | S f =>
        let mid := Z.quot (lo + hi) 2 in
        match (if (hk mid <? key)%N then bsearch f hk key mid hi else bsearch f hk key lo mid) with
        | Some (h, tr) => Some (h, mid :: tr)
        | None => None
        end
    end
  else Some (hi, []).

Definition searchFuel (n : Z) : nat := if n <=? 0 then O else S (Z.to_nat (Z.log2 n)).

(** [for (entNo = hi; entNo < numEntries; entNo++) { read; if (entHash != key) break; push }]
    — [k] is the number of iterations left before [entNo] reaches [numEntries] *)
Fixpoint collect (k : nat) (ent : Z -> pgEntry) (key : N) (pos : position) (entNo : Z) : list (move * Z) :=
  match k with
  | O => []
  | S k' =>
      let e := ent entNo in
      if (entHash e =? key)%N
      then (getMove pos (entMove e), Z.of_N (entWeight e)) :: collect k' ent key pos (entNo + 1)
      else []
  end.

Definition fileEntry (f : bookFile) (i : Z) : pgEntry := deSerialize (readEntry f i).

Record probeResult := mkProbe { pr_cands : list (move * Z); pr_hi : Z; pr_reads : list Z }.

Definition getBookEntriesPG (f : bookFile) (key : N) (pos : position) : option probeResult :=
  let n := numEntries f in
  match bsearch (searchFuel n) (fun i => entHash (fileEntry f i)) key (-1) n with
  | None => None
  | Some (hi, tr) => Some (mkProbe (collect (Z.to_nat (n - hi)) (fileEntry f) key pos hi) hi tr)
  end.

(** * Book::getBookMove *)
Definition emptyMove : move := mkMove 0%N 0%N 0%N.      (* Move() *)

Definition moveEqb (a b : move) : bool :=
  ((mfrom a =? mfrom b) && (mto a =? mto b) && (mpromote a =? mpromote b))%N.

Definition containsMove (legal : list move) (m : move) : bool := existsb (fun l => moveEqb l m) legal.

(** the largest weight sum Book::getBookMove accepts: [if (sum > (1 << 30)) return;] *)
Definition sumLimit : Z := 2 ^ pgSumLimitBits.

(** first loop: every candidate must be in the legal list (else return at once); weights are
    summed and the probe gives up (no move) as soon as the running sum exceeds [sumLimit] — the
    sum is then too large for Random::nextInt and the next addition could overflow [int].
    [wf] is Book::getWeight for the kind of book in use.  [None] = returned inside the loop. *)
Fixpoint sumLegal (wf : Z -> Z) (legal : list move) (ents : list (move * Z)) (sum : Z) : option Z :=
  match ents with
  | [] => Some sum
  | (m, c) :: t =>
      if containsMove legal m
      then (let s := sum + wf c in if s >? sumLimit then None else sumLegal wf legal t s)
      else None
  end.

Inductive outcome := OutMove (m : move) | OutAssert.     (* OutAssert = assert(false) reached *)

(** second loop *)
Fixpoint pick (wf : Z -> Z) (ents : list (move * Z)) (rnd sum : Z) : outcome :=
  match ents with
  | [] => OutAssert
  | (m, c) :: t => let s := sum + wf c in if rnd <? s then OutMove m else pick wf t rnd s
  end.

Definition getBookMove (wf : Z -> Z) (legal : list move) (ents : list (move * Z)) (rnd : Z) : outcome :=
  match ents with
  | [] => OutMove emptyMove
  | _ =>
      match sumLegal wf legal ents 0 with
      | None => OutMove emptyMove
      | Some sum => if sum <=? 0 then OutMove emptyMove else pick wf ents rnd 0
      end
  end.

Definition pgWeight (c : Z) : Z := c.                    (* getWeight(count, true) *)

(** total weight of an entry list (exact integers; what the first loop computes when it runs to
    the end) *)
Fixpoint weightSum (wf : Z -> Z) (ents : list (move * Z)) : Z :=
  match ents with
  | [] => 0
  | e :: t => wf (snd e) + weightSum wf t
  end.

(** the whole polyglot probe for an arbitrary file, key, legal-move list and random number *)
Definition pgBookMove (f : bookFile) (key : N) (pos : position) (legal : list move) (rnd : Z) : option outcome :=
  match getBookEntriesPG f key pos with
  | None => None
  | Some pr => Some (getBookMove pgWeight legal (pr_cands pr) rnd)
  end.

(** * C++ [int] range *)
Definition intMax : Z := 2147483647.
Definition inInt (x : Z) : bool := (- intMax - 1 <=? x) && (x <=? intMax).

(** every partial sum of the second loop (all prefix sums) stays inside [int] *)
Fixpoint sumsInInt (wf : Z -> Z) (ents : list (move * Z)) (sum : Z) : bool :=
  match ents with
  | [] => true
  | (_, c) :: t => inInt (sum + wf c) && sumsInInt wf t (sum + wf c)
  end.

(** every addition the first loop actually executes stays inside [int] (it stops at an illegal
    candidate and at the first running sum above [sumLimit]) *)
Fixpoint loop1InInt (wf : Z -> Z) (legal : list move) (ents : list (move * Z)) (sum : Z) : bool :=
  match ents with
  | [] => true
  | (m, c) :: t =>
      if containsMove legal m
      then inInt (sum + wf c) && (if sum + wf c >? sumLimit then true else loop1InInt wf legal t (sum + wf c))
      else true
  end.

(** * Random::nextInt(modulo): one trial of the rejection loop on a raw 64-bit value [u].
    [None] = rejected, the loop draws again. *)
Definition nextIntN : Z := 2 ^ nextIntBits.
Definition nextIntMaxVal (modulo : Z) : Z := Z.quot nextIntN modulo * modulo.
Definition nextIntTry (modulo : Z) (u : N) : option Z :=
  let r := Z.of_N (N.land u (Z.to_N (nextIntN - 1))) in
  if r <? nextIntMaxVal modulo then Some (Z.rem r modulo) else None.

(** * Reachable results: the moves [getBookMove] can return over all [rnd] that nextInt can
    deliver (used by the correspondence driver) *)
Definition reachable (wf : Z -> Z) (legal : list move) (ents : list (move * Z)) : list move :=
  match ents with
  | [] => [emptyMove]
  | _ =>
      match sumLegal wf legal ents 0 with
      | None => [emptyMove]
      | Some sum => if sum <=? 0 then [emptyMove]
                    else map fst (filter (fun e => 0 <? wf (snd e)) ents)
      end
  end.
