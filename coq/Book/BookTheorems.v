(** C18 — the theorems cited by Properties_C18.v, with concrete examples (non-vacuity). *)
From Coq Require Import ZArith NArith List Bool Lia ZifyBool.
From Texel Require Import Chess.Types gen.PolyglotRandoms Book.Polyglot Book.BuiltIn Book.BookSpec
  Book.PolyglotProofs Book.SearchProofs Book.RangeProofs Book.DecodeProofs Book.CodecProofs.
Import ListNotations.
Local Open Scope Z_scope.

(** * result legal — every file content, key, legal list, random number *)
Theorem result_legal : forall f key pos legal rnd,
  match pgBookMove f key pos legal rnd with
  | None => False
  | Some (OutMove m) => m = emptyMove \/ In m legal
  | Some OutAssert =>
      forall pr, getBookEntriesPG f key pos = Some pr -> ~ (0 <= rnd < weightSum pgWeight (pr_cands pr))
  end.
Proof.
  intros f key pos legal rnd.
  destruct (probe_terminates f key pos) as [pr [Hp _]].
  unfold pgBookMove. rewrite Hp.
  destruct (getBookMove pgWeight legal (pr_cands pr) rnd) as [m|] eqn:E.
  - eapply getBookMove_legal; exact E.
  - intros pr' H. inversion H; subst pr'. intros Hr.
    apply (getBookMove_no_assert pgWeight legal) in Hr. contradiction.
Qed.

(** * the search terminates, reads little, reads inside the file, stays inside [int] *)
Theorem search_terminates : forall f key pos,
  exists pr, getBookEntriesPG f key pos = Some pr /\
    0 <= pr_hi pr <= numEntries f /\
    Z.of_nat (length (pr_reads pr)) <= (if numEntries f <=? 0 then 0 else Z.log2 (numEntries f) + 1) /\
    Forall (fun m => 0 <= m * pgEntSize /\ m * pgEntSize + pgEntSize <= fileLen f) (pr_reads pr) /\
    (forall e, pr_hi pr <= e < numEntries f -> 0 <= e * pgEntSize /\ e * pgEntSize + pgEntSize <= fileLen f) /\
    (fileLen f <= intMax ->
       inInt (numEntries f) = true /\ inInt (2 * numEntries f) = true /\
       forall e, -1 <= e <= numEntries f -> inInt (e * pgEntSize) = true).
Proof.
  intros f key pos.
  destruct (probe_terminates f key pos) as [pr [Hp [Hh [Hl [Hf _]]]]].
  exists pr. split; [exact Hp|]. split; [exact Hh|]. split; [exact Hl|].
  split; [|split].
  - eapply Forall_impl; [|exact Hf]. cbv beta. intros m Hm. apply entry_in_file. exact Hm.
  - intros e He. apply entry_in_file. lia.
  - intros Hlen. pose proof (numEntries_nonneg f) as Hn.
    assert (Hq : numEntries f * pgEntSize <= Z.max (fileLen f) 0).
    { destruct f as [b|]; unfold numEntries, fileLen in *; rewrite pgEntSize_val in *.
      - rewrite Z.quot_div_nonneg by lia. lia.
      - change (Z.quot (-1) 16) with 0. lia. }
    rewrite pgEntSize_val in *. unfold inInt, intMax in *.
    split; [lia|]. split; [lia|]. intros e He. lia.
Qed.

(** * exactness on a sorted file *)
Theorem sorted_book_exact : forall f key pos, sortedFile f ->
  exists pr, getBookEntriesPG f key pos = Some pr /\
    pr_cands pr = map (decodeCand pos) (filter (fun e => (entHash e =? key)%N) (fileEntries f)).
Proof.
  intros f key pos Hs. destruct (probe_terminates f key pos) as [pr [Hp _]].
  exists pr. split; [exact Hp|]. eapply probe_sorted_exact; eauto.
Qed.

(** * every stored legal move of positive weight is returned for some random number, and that
    number is one Random::nextInt delivers (the weight sum being within the limit the probe
    accepts; above it the probe gives no move at all, see [over_limit_no_move]) *)
Theorem positive_weight_reachable : forall f key pos legal e,
  sortedFile f -> In e (fileEntries f) -> entHash e = key -> (0 < entWeight e)%N ->
  (forall e', In e' (fileEntries f) -> entHash e' = key -> In (getMove pos (entMove e')) legal) ->
  exists pr, getBookEntriesPG f key pos = Some pr /\
    (weightSum pgWeight (pr_cands pr) <= sumLimit ->
     exists rnd, 0 <= rnd < weightSum pgWeight (pr_cands pr) /\
       pgBookMove f key pos legal rnd = Some (OutMove (getMove pos (entMove e))) /\
       nextIntTry (weightSum pgWeight (pr_cands pr)) (Z.to_N rnd) = Some rnd).
Proof.
  intros f key pos legal e Hs Hin Hk Hw Hlegal.
  destruct (sorted_book_exact f key pos Hs) as [pr [Hp Hc]].
  exists pr. split; [exact Hp|]. intros Hlim.
  assert (Hall : Forall (fun c => In (fst c) legal) (pr_cands pr)).
  { rewrite Hc. apply Forall_forall. intros c Hc'. apply in_map_iff in Hc'. destruct Hc' as [e' [<- He']].
    apply filter_In in He'. destruct He' as [He' Hk']. apply N.eqb_eq in Hk'. cbn [decodeCand fst].
    apply Hlegal; assumption. }
  assert (Hnn : forall c, In c (pr_cands pr) -> 0 <= pgWeight (snd c)).
  { rewrite Hc. intros c Hc'. apply in_map_iff in Hc'. destruct Hc' as [e' [<- _]]. unfold pgWeight; cbn [decodeCand snd]. lia. }
  assert (Hme : In (getMove pos (entMove e), Z.of_N (entWeight e)) (pr_cands pr)).
  { rewrite Hc. change (getMove pos (entMove e), Z.of_N (entWeight e)) with (decodeCand pos e).
    apply in_map. apply filter_In. split; [exact Hin | apply N.eqb_eq; exact Hk]. }
  destruct (getBookMove_reachable pgWeight legal (pr_cands pr) _ _ Hall Hnn Hlim Hme) as [rnd [Hr Hg]];
    [unfold pgWeight; lia|].
  exists rnd. split; [exact Hr|]. split.
  - unfold pgBookMove. rewrite Hp, Hg. reflexivity.
  - rewrite sumLimit_val in Hlim. apply nextIntTry_reaches; lia.
Qed.

(** * the int weight sum: no guard on the number of entries is needed any more *)
Theorem weight_sum_range : forall f key pos legal pr, getBookEntriesPG f key pos = Some pr ->
  Forall weightOk (pr_cands pr) /\
  loop1InInt pgWeight legal (pr_cands pr) 0 = true /\
  (forall sum, sumLegal pgWeight legal (pr_cands pr) 0 = Some sum ->
     0 <= sum <= sumLimit /\ sum = weightSum pgWeight (pr_cands pr) /\ sumsInInt pgWeight (pr_cands pr) 0 = true).
Proof.
  intros f key pos legal pr Hp.
  destruct (probe_terminates f key pos) as [pr' [Hp' [_ [_ [_ Hc]]]]].
  rewrite Hp in Hp'. inversion Hp'; subst pr'; clear Hp'.
  assert (Hw : Forall weightOk (pr_cands pr)).
  { rewrite Hc. apply collect_weights. intros i. apply entWeight_range. }
  split; [exact Hw|]. split.
  - apply loop1InInt_ok; [exact Hw | rewrite sumLimit_val; lia].
  - intros sum Hs. pose proof (sumLegal_le_limit _ _ _ _ Hs) as Hle.
    apply sumLegal_some in Hs. destruct Hs as [-> [_ Hpref]].
    pose proof (weightSum_bounds _ Hw). split; [lia|]. split; [lia|].
    apply sumsInInt_of_prefixes; [exact Hw | lia | exact Hpref].
Qed.

(** above the limit the probe gives no move (for every legal list and random number) *)
Theorem over_limit_no_move : forall wf legal ents rnd,
  (forall e, In e ents -> 0 <= wf (snd e)) -> sumLimit < weightSum wf ents ->
  getBookMove wf legal ents rnd = OutMove emptyMove.
Proof.
  intros wf legal ents rnd Hnn Hgt. unfold getBookMove.
  destruct ents as [|e t]; [reflexivity|].
  destruct (sumLegal wf legal (e :: t) 0) as [sum|] eqn:Hs; [|reflexivity].
  pose proof (sumLegal_le_limit _ _ _ _ Hs). apply sumLegal_some in Hs. destruct Hs as [-> _]. lia.
Qed.

(** * Random::nextInt: whenever Book::getBookMove reaches the draw, 0 < sum <= 2^30, so every trial
    of the rejection loop is accepted with probability above one half (the loop ends with
    probability one), only values below the sum come out, and every such value can come out *)
Theorem choice_terminates : forall wf legal ents sum,
  sumLegal wf legal ents 0 = Some sum -> 0 < sum ->
  sum <= 1073741824 /\
  536870912 < nextIntMaxVal sum <= 1073741824 /\
  (forall u, Z.of_N u mod 1073741824 < nextIntMaxVal sum -> nextIntTry sum u <> None) /\
  (forall u r, nextIntTry sum u = Some r -> 0 <= r < sum) /\
  (forall rnd, 0 <= rnd < sum -> nextIntTry sum (Z.to_N rnd) = Some rnd).
Proof.
  intros wf legal ents sum Hs Hpos.
  pose proof (sumLegal_le_limit _ _ _ _ Hs) as Hle. rewrite sumLimit_val in Hle.
  split; [exact Hle|]. split; [apply nextIntMaxVal_large; lia|]. split; [|split].
  - intros u Hu. apply nextIntTry_accepts; [lia|exact Hu].
  - intros u r H. eapply nextIntTry_sound; eauto.
  - intros rnd Hr. apply nextIntTry_reaches; lia.
Qed.

(** * built-in book: the same filter *)
Theorem builtin_legal : forall bm zob wf legal rnd,
  match builtinBookMove bm zob wf legal rnd with
  | OutMove m => m = emptyMove \/ In m legal
  | OutAssert => ~ (0 <= rnd < weightSum wf (getBookEntriesBuiltin bm zob))
  end.
Proof.
  intros bm zob wf legal rnd. unfold builtinBookMove.
  destruct (getBookMove wf legal (getBookEntriesBuiltin bm zob) rnd) as [m|] eqn:E.
  - eapply getBookMove_legal; exact E.
  - intros Hr. apply (getBookMove_no_assert wf legal) in Hr. contradiction.
Qed.

Theorem builtin_reachable : forall bm zob wf legal m c,
  Forall (fun e => In (fst e) legal) (getBookEntriesBuiltin bm zob) ->
  (forall e, In e (getBookEntriesBuiltin bm zob) -> 0 <= wf (snd e)) ->
  weightSum wf (getBookEntriesBuiltin bm zob) <= sumLimit ->
  In (m, c) (getBookEntriesBuiltin bm zob) -> 0 < wf c ->
  exists rnd, 0 <= rnd < weightSum wf (getBookEntriesBuiltin bm zob) /\
              builtinBookMove bm zob wf legal rnd = OutMove m.
Proof. intros. unfold builtinBookMove. eapply getBookMove_reachable; eauto. Qed.

(** * move decoding = the polyglot format's definition, for every candidate of every probe *)
Theorem move_decode_spec : forall pos mv, (mv < 65536)%N -> getMove pos mv = specDecode pos mv.
Proof. exact getMove_spec. Qed.

Theorem candidates_decode_spec : forall f key pos pr, sortedFile f -> getBookEntriesPG f key pos = Some pr ->
  pr_cands pr = map (fun e => (specDecode pos (entMove e), Z.of_N (entWeight e)))
                    (filter (fun e => (entHash e =? key)%N) (fileEntries f)).
Proof.
  intros f key pos pr Hs Hp. rewrite (probe_sorted_exact f key pos pr Hs Hp).
  apply map_ext_in. intros e He. apply filter_In in He. destruct He as [He _].
  unfold fileEntries in He. apply in_map_iff in He. destruct He as [i [<- _]].
  unfold decodeCand. rewrite getMove_spec; [reflexivity|]. apply entMove_range.
Qed.

(** * round trips *)
Theorem entry_codec_roundtrip : forall h m w, (h < two64)%N -> (m < 65536)%N -> (w < 65536)%N ->
  deSerialize (serialize h m w) = mkEnt h m w /\ length (serialize h m w) = 16%nat.
Proof. exact codec_roundtrip. Qed.

Theorem pgmove_decode_roundtrip : forall pos m,
  roundTripDomain (whiteMove pos) (getPiece pos (mfrom m)) m = true ->
  getMove pos (getPGMove pos m) = m.
Proof. exact pgmove_roundtrip. Qed.

(** * hash key table accesses *)
Theorem hash_indices_in_table : forall pos,
  Forall (fun i => (N.to_nat i < length hashRandoms)%nat) (hashIndices pos).
Proof.
  intros pos. eapply Forall_impl; [|apply hashIndices_in_range].
  cbv beta. intros i Hi. rewrite hashRandoms_length. lia.
Qed.

(** * adjacent-sorted check (for concrete files) *)
Definition sortedFileb (f : bookFile) : bool :=
  forallb (fun i => (entHash (fileEntry f i) <=? entHash (fileEntry f (i + 1)))%N)
          (zseq 0 (Z.to_nat (numEntries f - 1))).

Lemma sortedFileb_correct : forall f, sortedFileb f = true -> sortedFile f.
Proof.
  intros f H. unfold sortedFileb in H. rewrite forallb_forall in H.
  assert (A : forall i, 0 <= i -> i + 1 < numEntries f ->
              (entHash (fileEntry f i) <= entHash (fileEntry f (i + 1)))%N).
  { intros i H0 H1. apply N.leb_le. apply H. apply zseq_In. lia. }
  intros i j Hij.
  assert (G : forall d : nat, 0 <= i -> i + Z.of_nat d < numEntries f ->
              (entHash (fileEntry f i) <= entHash (fileEntry f (i + Z.of_nat d)))%N).
  { induction d as [|d IH]; intros Hi Hd.
    - rewrite Z.add_0_r. lia.
    - rewrite Nat2Z.inj_succ in *. specialize (IH Hi ltac:(lia)).
      pose proof (A (i + Z.of_nat d) ltac:(lia) ltac:(lia)).
      replace (i + Z.succ (Z.of_nat d)) with (i + Z.of_nat d + 1) by lia. lia. }
  specialize (G (Z.to_nat (j - i)) ltac:(lia)).
  rewrite Z2Nat.id in G by lia. replace (i + (j - i)) with j in G by lia. apply G. lia.
Qed.

(** * Examples *)
Definition startSquares : list piece :=
  [3;5;4;2;1;4;5;3; 6;6;6;6;6;6;6;6; 0;0;0;0;0;0;0;0; 0;0;0;0;0;0;0;0;
   0;0;0;0;0;0;0;0; 0;0;0;0;0;0;0;0; 12;12;12;12;12;12;12;12; 9;11;10;8;7;10;11;9]%N.

Definition mkSimplePos (sq : list piece) (wtm : bool) (castle : N) (ep : Z) : position :=
  mkPos sq [] 0%N 0%N wtm 0 1 castle ep 0%N 0%N 0 0 0 0 0.

Definition startPos : position := mkSimplePos startSquares true 15%N (-1).

(** the regenerated table is the standard polyglot table: key of the initial position *)
Example ex_start_key : getHashKey startPos = 0x463b96181691fc9c%N.
Proof. vm_compute. reflexivity. Qed.

(** the whole table: xor of all 781 constants and position-weighted sum modulo 2^64 (values of the
    published Random64 table; any changed, swapped, missing or extra constant alters one of them) *)
Example ex_table_checksum :
  length hashRandoms = 781%nat /\
  fold_left N.lxor hashRandoms 0%N = 0xeaa4dc0dd06542b6%N /\
  (fst (fold_left (fun a x => ((fst a + x * snd a) mod two64, snd a + 1))%N hashRandoms (0, 1)%N)) = 0x9ed769c526b32c64%N.
Proof. vm_compute. auto. Qed.

(** en-passant term: after 1.e4 d5 2.e5 f5 (published polyglot test vector) *)
Definition epSquares : list piece :=
  [3;5;4;2;1;4;5;3; 6;6;6;6;0;6;6;6; 0;0;0;0;0;0;0;0; 0;0;0;0;0;0;0;0;
   0;0;0;12;6;12;0;0; 0;0;0;0;0;0;0;0; 12;12;12;0;12;0;12;12; 9;11;10;8;7;10;11;9]%N.
Example ex_ep_key : getHashKey (mkSimplePos epSquares true 15%N 45) = 0x22a48b5a8e47ff78%N.
Proof. vm_compute. reflexivity. Qed.

(** castle flags and black to move: published vector after 1.e4 d5 2.e5 f5 3.Ke2 (white castling
    rights lost, no en-passant square) *)
Definition ke2Squares : list piece :=
  [3;5;4;2;0;4;5;3; 6;6;6;6;1;6;6;6; 0;0;0;0;0;0;0;0; 0;0;0;0;0;0;0;0;
   0;0;0;12;6;12;0;0; 0;0;0;0;0;0;0;0; 12;12;12;0;12;0;12;12; 9;11;10;8;7;10;11;9]%N.
Example ex_ke2_key : getHashKey (mkSimplePos ke2Squares false 12%N (-1)) = 0x652a607ca3f242c1%N.
Proof. vm_compute. reflexivity. Qed.

Definition mv (f t : N) : move := mkMove f t 0%N.
Definition exLegal : list move := [mv 12 28; mv 11 27; mv 6 21; mv 1 18].       (* e4 d4 Nf3 Nc3 *)

(** five entries sorted by key, three under key 7: e2e4 w3, d2d4 w0, g1f3 w2; then 7 stray bytes *)
Definition exFile : bookFile :=
  Some (serialize 5 796 9 ++ serialize 7 796 3 ++ serialize 7 731 0 ++ serialize 7 405 2 ++ serialize 9 82 1
        ++ [1;2;3;4;5;6;7])%N.

Example ex_file_len : fileLen exFile = 87 /\ numEntries exFile = 5.
Proof. vm_compute. auto. Qed.

Example ex_sorted : sortedFile exFile.
Proof. apply sortedFileb_correct. vm_compute. reflexivity. Qed.

Example ex_probe : getBookEntriesPG exFile 7 startPos =
  Some (mkProbe [(mv 12 28, 3); (mv 11 27, 0); (mv 6 21, 2)] 1 [2; 0; 1]).
Proof. vm_compute. reflexivity. Qed.

Example ex_choice :
  map (pgBookMove exFile 7 startPos exLegal) [0; 2; 3; 4; 5] =
  [Some (OutMove (mv 12 28)); Some (OutMove (mv 12 28)); Some (OutMove (mv 6 21)); Some (OutMove (mv 6 21)); Some OutAssert].
Proof. vm_compute. reflexivity. Qed.

(** an illegal candidate under the key empties the answer; a missing file and an absent key too *)
Example ex_filtered : pgBookMove exFile 7 startPos [mv 12 28; mv 6 21] 0 = Some (OutMove emptyMove).
Proof. vm_compute. reflexivity. Qed.
Example ex_missing : pgBookMove None 7 startPos exLegal 0 = Some (OutMove emptyMove).
Proof. vm_compute. reflexivity. Qed.
Example ex_absent_key : pgBookMove exFile 8 startPos exLegal 0 = Some (OutMove emptyMove).
Proof. vm_compute. reflexivity. Qed.

(** hypotheses of positive_weight_reachable are satisfiable: g1f3 (weight 2) is returned for rnd 3 *)
Example ex_reachable_hyps :
  sortedFile exFile /\ In (mkEnt 7 405 2) (fileEntries exFile) /\
  (forall e', In e' (fileEntries exFile) -> entHash e' = 7%N -> In (getMove startPos (entMove e')) exLegal).
Proof.
  split; [exact ex_sorted|]. split; [vm_compute; tauto|].
  intros e' Hin Hk. vm_compute in Hin.
  repeat (destruct Hin as [<-|Hin]; [vm_compute in Hk; try discriminate; vm_compute; tauto|]). destruct Hin.
Qed.

(** castling conversion depends on the piece on e1 / e8 *)
Definition castleSquares : list piece :=
  [3;0;0;0;1;0;0;3; 0;0;0;0;0;0;0;0; 0;0;0;0;0;0;0;0; 0;0;0;0;0;0;0;0;
   0;0;0;0;0;0;0;0; 0;0;0;0;0;0;0;0; 0;0;0;0;0;0;0;0; 9;0;0;0;7;0;0;9]%N.
Definition rookE1Squares : list piece :=
  [1;0;0;0;3;0;0;0; 0;0;0;0;0;0;0;0; 0;0;0;0;0;0;0;0; 0;0;0;0;0;0;0;0;
   0;0;0;0;0;0;0;0; 0;0;0;0;0;0;0;0; 0;0;0;0;0;0;0;0; 7;0;0;0;0;0;0;0]%N.

Example ex_castle :
  map (getMove (mkSimplePos castleSquares true 15%N (-1))) [263; 256; 3903; 3896; 262]%N =
  [mv 4 6; mv 4 2; mv 60 62; mv 60 58; mv 4 6]
  /\ map (getMove (mkSimplePos rookE1Squares true 0%N (-1))) [263; 256]%N = [mv 4 7; mv 4 0].
Proof. vm_compute. auto. Qed.

(** getPGMove writes castling as king-takes-rook and getMove reads it back; the domain predicate
    holds for the castling moves themselves *)
Example ex_pgmove :
  let p := mkSimplePos castleSquares true 15%N (-1) in
  map (getPGMove p) [mkMove 4 6 0; mkMove 4 2 0; mkMove 4 12 0; mkMove 0 8 0]%N = [263; 256; 268; 8]%N /\
  forallb (roundTripDomain true WKING) [mkMove 4 6 0; mkMove 4 2 0; mkMove 4 12 0]%N = true /\
  roundTripDomain true WKING (mkMove 4 7 0)%N = false /\
  roundTripDomain true WPAWN (mkMove 48 56 WQUEEN)%N = true /\
  roundTripDomain true WPAWN (mkMove 48 56 BQUEEN)%N = false.
Proof. vm_compute. auto 10. Qed.

(** promotion codes: white a7a8 with codes 1..4 and an out-of-range code *)
Example ex_promotion :
  map (fun c => mpromote (getMove startPos (3128 + 4096 * c)%N)) [1; 2; 3; 4; 5; 0]%N = [5; 4; 3; 2; 0; 0]%N.
Proof. vm_compute. reflexivity. Qed.

(** codec: serialize then deSerialize *)
Example ex_codec : deSerialize (serialize 0x463b96181691fc9c 796 65535) = mkEnt 0x463b96181691fc9c 796 65535.
Proof. vm_compute. reflexivity. Qed.

(** the crafted lists of the former findings: 16385 and 32769 entries of weight 65535 under one key.
    The guarded first loop stays inside [int] and gives no move; without the guard the prefix sums
    of 32769 such entries leave [int] and nextInt would reject every trial for 16385 of them. *)
Example ex_former_findings :
  let big := f7_entries in
  let mid := repeat (mkMove 12%N 28%N 0%N, 65535) (Z.to_nat 16385) in
  loop1InInt pgWeight [mv 12 28] big 0 = true /\ getBookMove pgWeight [mv 12 28] big 5 = OutMove emptyMove /\
  loop1InInt pgWeight [mv 12 28] mid 0 = true /\ getBookMove pgWeight [mv 12 28] mid 5 = OutMove emptyMove /\
  sumsInInt pgWeight big 0 = false /\ weightSum pgWeight mid = 1073790975 /\
  getBookMove pgWeight [mv 12 28] (repeat (mkMove 12%N 28%N 0%N, 65535) (Z.to_nat 16384) ++ [(mv 12 28, 16384)]) 1073741823
    = OutMove (mv 12 28).
Proof. vm_compute. auto 10. Qed.

(** built-in book path: addToBook counts repeated moves; the probe filters *)
Example ex_builtin :
  let bm := addToBook (addToBook (addToBook [] 77 (mv 12 28)) 77 (mv 11 27)) 77 (mv 12 28) in
  getBookEntriesBuiltin bm 77 = [(mv 12 28, 2); (mv 11 27, 1)] /\
  builtinBookMove bm 77 (fun c => c * 10) exLegal 20 = OutMove (mv 11 27) /\
  builtinBookMove bm 77 (fun c => c * 10) [mv 12 28] 0 = OutMove emptyMove.
Proof. vm_compute. auto. Qed.
