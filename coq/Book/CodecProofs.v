(** C18 — round trips: deSerialize o serialize on 16-byte entries (all 64-bit hashes, 16-bit moves
    and weights) and getMove o getPGMove on moves (finite sweep inside Coq). *)
From Coq Require Import ZArith NArith List Bool Lia.
From Texel Require Import Chess.Types gen.PolyglotRandoms Book.Polyglot Book.DecodeProofs.
Import ListNotations.
Local Open Scope N_scope.

(** * Entry codec *)
Lemma byte_join : forall x k, N.lor (N.shiftl ((N.shiftr x 8) mod 2 ^ k) 8) (x mod 256) = x mod 2 ^ (k + 8).
Proof.
  intros x k. apply N.bits_inj. intros n. rewrite N.lor_spec.
  change 256 with (2 ^ 8).
  destruct (N.lt_ge_cases n 8) as [Hl|Hg].
  - rewrite N.shiftl_spec_low by exact Hl. rewrite !N.mod_pow2_bits_low by lia. reflexivity.
  - rewrite N.shiftl_spec_high' by exact Hg.
    rewrite (N.mod_pow2_bits_high x 8 n) by exact Hg. rewrite orb_false_r.
    destruct (N.lt_ge_cases (n - 8) k) as [Hk|Hk].
    + rewrite !N.mod_pow2_bits_low by lia. rewrite N.shiftr_spec'. f_equal. lia.
    + rewrite !N.mod_pow2_bits_high by lia. reflexivity.
Qed.

Lemma beBytes_length : forall len x, length (beBytes x len) = len.
Proof. induction len; intros; cbn [beBytes]; [reflexivity|]. rewrite app_length, IHlen. cbn. lia. Qed.

Lemma fold_beBytes : forall mbits len x, 8 * N.of_nat len <= mbits ->
  fold_left (fun h b => (N.lor (N.shiftl h 8) b) mod 2 ^ mbits) (beBytes x len) 0 = x mod 2 ^ (8 * N.of_nat len).
Proof.
  intros mbits len; induction len as [|l IH]; intros x Hb.
  - cbn. rewrite N.mod_1_r. reflexivity.
  - cbn [beBytes]. rewrite fold_left_app. cbn [fold_left]. rewrite IH by lia.
    rewrite byte_join. replace (8 * N.of_nat l + 8) with (8 * N.of_nat (S l)) by lia.
    apply N.mod_small.
    eapply N.lt_le_trans; [apply N.mod_lt; apply N.pow_nonzero; discriminate|].
    apply N.pow_le_mono_r; [discriminate|exact Hb].
Qed.

Lemma firstn_app_len : forall (A : Type) (a b : list A) n, length a = n -> firstn n (a ++ b) = a.
Proof. intros A a b n <-. rewrite firstn_app, Nat.sub_diag, firstn_all. cbn. apply app_nil_r. Qed.

Lemma skipn_app_len : forall (A : Type) (a b : list A) n, length a = n -> skipn n (a ++ b) = b.
Proof. intros A a b n <-. rewrite skipn_app, Nat.sub_diag, skipn_all. reflexivity. Qed.

Theorem codec_roundtrip : forall h m w, h < two64 -> m < 65536 -> w < 65536 ->
  deSerialize (serialize h m w) = mkEnt h m w /\ length (serialize h m w) = 16%nat.
Proof.
  intros h m w Hh Hm Hw. unfold deSerialize, serialize, beField.
  change pg_hash_off with 0%nat. change pg_hash_len with 8%nat.
  change pg_move_off with 8%nat. change pg_move_len with 2%nat.
  change pg_weight_off with 10%nat. change pg_weight_len with 2%nat.
  change two64 with (2 ^ 64) in *. change two16 with (2 ^ 16). change 65536 with (2 ^ 16) in *.
  split.
  - f_equal.
    + cbn [skipn]. rewrite firstn_app_len by apply beBytes_length.
      rewrite fold_beBytes by (cbn; lia). apply N.mod_small. exact Hh.
    + rewrite skipn_app_len by apply beBytes_length. rewrite firstn_app_len by apply beBytes_length.
      rewrite fold_beBytes by (cbn; lia). apply N.mod_small. exact Hm.
    + rewrite (app_assoc (beBytes h 8)).
      rewrite skipn_app_len by (rewrite app_length, !beBytes_length; reflexivity).
      rewrite firstn_app_len by apply beBytes_length.
      rewrite fold_beBytes by (cbn; lia). apply N.mod_small. exact Hw.
  - rewrite !app_length, !beBytes_length. reflexivity.
Qed.

(** * getMove o getPGMove *)
Definition whiteProms : list piece := [WQUEEN; WROOK; WBISHOP; WKNIGHT].
Definition blackProms : list piece := [BQUEEN; BROOK; BBISHOP; BKNIGHT].

(** moves for which the round trip is claimed: squares on the board, promotion piece of the side
    to move (or none), and not the "king takes own rook" pattern itself (never a legal move;
    getPGMove would leave it as it is and getMove would read it as castling) *)
Definition roundTripDomain (wtm : bool) (pcFrom : piece) (m : move) : bool :=
  (mfrom m <? 64) && (mto m <? 64) &&
  ((mpromote m =? EMPTY) || existsb (N.eqb (mpromote m)) (if wtm then whiteProms else blackProms)) &&
  negb ((mfrom m =? 4) && (pcFrom =? WKING) && ((mto m =? 7) || (mto m =? 0))) &&
  negb ((mfrom m =? 60) && (pcFrom =? BKING) && ((mto m =? 63) || (mto m =? 56))).

Lemma enc_castle_table_pieces :
  forallb (fun c => match c with (_, pc, _, _) => (pc =? WKING) || (pc =? BKING) end) pgEncCastle = true.
Proof. vm_compute. reflexivity. Qed.

Lemma getPGMoveP_other : forall pc m, pc <> WKING -> pc <> BKING -> getPGMoveP pc m = getPGMoveP EMPTY m.
Proof.
  intros pc m H1 H7. unfold getPGMoveP. do 2 f_equal.
  pose proof enc_castle_table_pieces as T. generalize (sqX (mto m)) as t.
  induction pgEncCastle as [|c l IH]; intros t; [reflexivity|].
  cbn [forallb] in T. apply andb_true_iff in T. destruct T as [Tc Tl].
  cbn [fold_left]. destruct c as [[[f' pc'] [a ax]] [b bx]].
  assert (E1 : (pc =? pc') = false).
  { apply N.eqb_neq. intros ->. apply orb_true_iff in Tc. destruct Tc as [Tc|Tc]; apply N.eqb_eq in Tc; congruence. }
  assert (E2 : (EMPTY =? pc') = false).
  { apply orb_true_iff in Tc. destruct Tc as [Tc|Tc]; apply N.eqb_eq in Tc; subst pc'; reflexivity. }
  rewrite E1, E2, !andb_false_r. apply IH. exact Tl.
Qed.

Lemma roundTripDomain_other : forall wtm pc m, pc <> WKING -> pc <> BKING ->
  roundTripDomain wtm pc m = roundTripDomain wtm EMPTY m.
Proof.
  intros wtm pc m H1 H7. unfold roundTripDomain.
  apply N.eqb_neq in H1. apply N.eqb_neq in H7. rewrite H1, H7.
  change (EMPTY =? WKING) with false. change (EMPTY =? BKING) with false. reflexivity.
Qed.

Definition allProms : list piece := EMPTY :: whiteProms ++ blackProms.

Definition roundTripAgree (wtm : bool) (pc : piece) (f t p : N) : bool :=
  let m := mkMove f t p in
  negb (roundTripDomain wtm pc m) || moveEqb (getMoveP wtm pc (getPGMoveP pc m)) m.

Lemma roundtrip_sweep :
  forallb (fun wtm => forallb (fun pc => forallb (fun f => forallb (fun t => forallb (fun p =>
    roundTripAgree wtm pc f t p) allProms) (nrange 6)) (nrange 6)) [EMPTY; WKING; BKING]) [true; false] = true.
Proof. vm_compute. reflexivity. Qed.

Lemma roundtrip_class : forall wtm pc m, In pc [EMPTY; WKING; BKING] ->
  roundTripDomain wtm pc m = true -> getMoveP wtm pc (getPGMoveP pc m) = m.
Proof.
  intros wtm pc [f t p] Hpc Hd. pose proof roundtrip_sweep as S.
  assert (Hd' := Hd). unfold roundTripDomain in Hd'. cbn [mfrom mto mpromote] in Hd'.
  apply andb_true_iff in Hd'. destruct Hd' as [Hd' _].
  apply andb_true_iff in Hd'. destruct Hd' as [Hd' _].
  apply andb_true_iff in Hd'. destruct Hd' as [Hd' Hprom].
  apply andb_true_iff in Hd'. destruct Hd' as [Hf Ht]. apply N.ltb_lt in Hf. apply N.ltb_lt in Ht.
  assert (Hp : In p allProms).
  { unfold allProms. apply orb_true_iff in Hprom. destruct Hprom as [H|H].
    - apply N.eqb_eq in H. left. symmetry. exact H.
    - right. apply existsb_exists in H. destruct H as [q [Hq E]]. apply N.eqb_eq in E. subst q.
      apply in_or_app. destruct wtm; [left|right]; exact Hq. }
  rewrite forallb_forall in S. specialize (S wtm ltac:(destruct wtm; cbn; auto)).
  rewrite forallb_forall in S. specialize (S pc Hpc).
  rewrite forallb_forall in S. specialize (S f (nrange_In 6 f Hf)).
  rewrite forallb_forall in S. specialize (S t (nrange_In 6 t Ht)).
  rewrite forallb_forall in S. specialize (S p Hp).
  unfold roundTripAgree in S. rewrite Hd in S. cbn [negb orb] in S.
  apply moveEqb_true. exact S.
Qed.

Theorem pgmove_roundtrip : forall pos m,
  roundTripDomain (whiteMove pos) (getPiece pos (mfrom m)) m = true ->
  getMove pos (getPGMove pos m) = m.
Proof.
  intros pos m Hd. unfold getMove, getPGMove.
  set (pc := getPiece pos (mfrom m)) in *. set (wtm := whiteMove pos) in *.
  assert (G : getMoveP wtm pc (getPGMoveP pc m) = m).
  { destruct (N.eq_dec pc WKING) as [E|H1]; [rewrite E in *; apply roundtrip_class; cbn; auto|].
    destruct (N.eq_dec pc BKING) as [E|H7]; [rewrite E in *; apply roundtrip_class; cbn; auto|].
    rewrite roundTripDomain_other in Hd by assumption.
    rewrite getPGMoveP_other, getMoveP_other by assumption. apply roundtrip_class; cbn; auto. }
  (* the piece getMove looks at stands on the decoded origin square, which is m's origin *)
  assert (Hfrom : moveFrom (getPGMoveP pc m) = mfrom m).
  { pose proof (f_equal mfrom G) as Hf. exact Hf. }
  rewrite Hfrom. fold pc. exact G.
Qed.
