(** C18 — PolyglotBook::getMove (model over the regenerated tables) equals the polyglot format's
    definition (BookSpec.v) for every position and every 16-bit code.  The dependence on the
    position is reduced to (side to move, piece on the origin square); the piece is reduced to
    three classes (white king, black king, anything else); the remaining 6 x 65536 cases are
    checked by computation inside Coq. *)
From Coq Require Import ZArith NArith List Bool Lia.
From Texel Require Import Chess.Types gen.PolyglotRandoms Book.Polyglot Book.BookSpec.
Import ListNotations.
Local Open Scope N_scope.

(** all N below 2^k *)
Fixpoint nrange (k : nat) : list N :=
  match k with
  | O => [0]
  | S k' => let l := nrange k' in l ++ map (N.add (2 ^ N.of_nat k')) l
  end.

Lemma nrange_In : forall k x, x < 2 ^ N.of_nat k -> In x (nrange k).
Proof.
  induction k as [|k IH]; intros x Hx.
  - cbn in Hx. left. lia.
  - cbn [nrange]. rewrite Nat2N.inj_succ, N.pow_succ_r' in Hx.
    apply in_or_app. destruct (N.lt_ge_cases x (2 ^ N.of_nat k)) as [Hl|Hg].
    + left. apply IH. exact Hl.
    + right. apply in_map_iff. exists (x - 2 ^ N.of_nat k). split; [lia|]. apply IH. lia.
Qed.

(** the castling table only ever tests for the two kings *)
Lemma castle_table_pieces :
  forallb (fun c => match c with (_, pc, _, _) => (pc =? WKING) || (pc =? BKING) end) pgCastleConv = true.
Proof. vm_compute. reflexivity. Qed.

Lemma castleConv_other : forall pc f t, pc <> WKING -> pc <> BKING -> castleConv pc f t = castleConv EMPTY f t.
Proof.
  intros pc f t H1 H7. unfold castleConv.
  pose proof castle_table_pieces as T. revert t. induction pgCastleConv as [|c l IH]; intros t; [reflexivity|].
  cbn [forallb] in T. apply andb_true_iff in T. destruct T as [Tc Tl].
  cbn [fold_left]. destruct c as [[[f' pc'] [a a']] [b b']].
  assert (E1 : (pc =? pc') = false).
  { apply N.eqb_neq. intros ->. apply orb_true_iff in Tc. destruct Tc as [Tc|Tc]; apply N.eqb_eq in Tc; congruence. }
  assert (E2 : (EMPTY =? pc') = false).
  { apply orb_true_iff in Tc. destruct Tc as [Tc|Tc]; apply N.eqb_eq in Tc; subst pc'; reflexivity. }
  rewrite E1, E2, !andb_false_r. apply IH. exact Tl.
Qed.

Lemma getMoveP_other : forall wtm pc mv, pc <> WKING -> pc <> BKING -> getMoveP wtm pc mv = getMoveP wtm EMPTY mv.
Proof. intros. unfold getMoveP. rewrite castleConv_other by assumption. reflexivity. Qed.

Lemma specDecodeP_other : forall wtm pc mv, pc <> WKING -> pc <> BKING -> specDecodeP wtm pc mv = specDecodeP wtm EMPTY mv.
Proof.
  intros wtm pc mv H1 H7. unfold specDecodeP.
  apply N.eqb_neq in H1. apply N.eqb_neq in H7. rewrite H1, H7.
  change (EMPTY =? WKING) with false. change (EMPTY =? BKING) with false. reflexivity.
Qed.

Definition decodeAgree (wtm : bool) (pc : piece) (mv : N) : bool :=
  moveEqb (getMoveP wtm pc mv) (specDecodeP wtm pc mv) &&
  (moveFrom mv =? N.land (N.shiftr mv 6) 63).

Lemma decode_sweep :
  forallb (fun wtm => forallb (fun pc => forallb (decodeAgree wtm pc) (nrange 16)) [EMPTY; WKING; BKING]) [true; false] = true.
Proof. vm_compute. reflexivity. Qed.

Lemma moveEqb_true : forall a b, moveEqb a b = true -> a = b.
Proof.
  intros [f1 t1 p1] [f2 t2 p2]; unfold moveEqb; cbn.
  rewrite !andb_true_iff, !N.eqb_eq. intros [[-> ->] ->]; reflexivity.
Qed.

Lemma decode_class : forall wtm pc mv, In pc [EMPTY; WKING; BKING] -> mv < 65536 ->
  getMoveP wtm pc mv = specDecodeP wtm pc mv /\ moveFrom mv = N.land (N.shiftr mv 6) 63.
Proof.
  intros wtm pc mv Hpc Hmv. pose proof decode_sweep as S.
  rewrite forallb_forall in S. specialize (S wtm ltac:(destruct wtm; cbn; auto)).
  rewrite forallb_forall in S. specialize (S pc Hpc).
  rewrite forallb_forall in S. specialize (S mv (nrange_In 16 mv Hmv)).
  unfold decodeAgree in S. apply andb_true_iff in S. destruct S as [A B].
  split; [apply moveEqb_true; exact A | apply N.eqb_eq; exact B].
Qed.

Theorem getMoveP_spec : forall wtm pc mv, mv < 65536 ->
  getMoveP wtm pc mv = specDecodeP wtm pc mv /\ moveFrom mv = N.land (N.shiftr mv 6) 63.
Proof.
  intros wtm pc mv Hmv.
  destruct (N.eq_dec pc WKING) as [->|H1]; [apply decode_class; cbn; auto|].
  destruct (N.eq_dec pc BKING) as [->|H7]; [apply decode_class; cbn; auto|].
  rewrite getMoveP_other, specDecodeP_other by assumption. apply decode_class; cbn; auto.
Qed.

Theorem getMove_spec : forall pos mv, mv < 65536 -> getMove pos mv = specDecode pos mv.
Proof.
  intros pos mv Hmv. unfold getMove, specDecode.
  destruct (getMoveP_spec (whiteMove pos) (getPiece pos (moveFrom mv)) mv Hmv) as [A B].
  rewrite A, B. reflexivity.
Qed.
