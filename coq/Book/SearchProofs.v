(** C18 — proofs about the file-reading half of the probe: binary search (termination, number of
    reads, reads inside the file, [int] range of the offsets), the collection loop, and exactness
    on a file sorted by key. *)
From Coq Require Import ZArith NArith List Bool Lia ZifyBool.
From Texel Require Import Chess.Types gen.PolyglotRandoms Book.Polyglot.
Import ListNotations.
Local Open Scope Z_scope.

Ltac Zify.zify_post_hook ::= Z.div_mod_to_equations.

(** * Binary search: the fuel suffices *)
Lemma bsearch_unfold : forall fuel hk key lo hi,
  bsearch fuel hk key lo hi =
  if hi - lo >? 1 then
    match fuel with
    | O => None
    | S f =>
        match (if (hk (Z.quot (lo + hi) 2) <? key)%N then bsearch f hk key (Z.quot (lo + hi) 2) hi
               else bsearch f hk key lo (Z.quot (lo + hi) 2)) with
        | Some (h, tr) => Some (h, Z.quot (lo + hi) 2 :: tr)
        | None => None
        end
    end
  else Some (hi, []).
Proof. intros; destruct fuel; reflexivity. Qed.

Lemma mid_between : forall lo hi, -1 <= lo -> hi - lo > 1 ->
  Z.quot (lo + hi) 2 = (lo + hi) / 2 /\ lo < Z.quot (lo + hi) 2 < hi.
Proof.
  intros lo hi H1 H2.
  assert (E : Z.quot (lo + hi) 2 = (lo + hi) / 2) by (apply Z.quot_div_nonneg; lia).
  rewrite E. split; [reflexivity|lia].
Qed.

Lemma bsearch_terminates : forall fuel hk key lo hi,
  -1 <= lo -> lo < hi -> hi - lo <= 2 ^ Z.of_nat fuel ->
  exists h tr, bsearch fuel hk key lo hi = Some (h, tr) /\ lo < h <= hi /\
               (length tr <= fuel)%nat /\ Forall (fun m => lo < m < hi) tr.
Proof.
  induction fuel as [|f IH]; intros hk key lo hi Hlo Hlt Hsz; rewrite bsearch_unfold.
  - change (2 ^ Z.of_nat 0) with 1 in Hsz.
    destruct (hi - lo >? 1) eqn:E; rewrite Z.gtb_ltb in E; [lia|].
    exists hi, []. repeat split; auto; lia.
  - destruct (hi - lo >? 1) eqn:E; rewrite Z.gtb_ltb in E.
    + rewrite Nat2Z.inj_succ, Z.pow_succ_r in Hsz by lia.
      destruct (mid_between lo hi Hlo ltac:(lia)) as [Em Hm].
      set (mid := Z.quot (lo + hi) 2) in *.
      set (P := 2 ^ Z.of_nat f) in *.
      destruct (hk mid <? key)%N.
      * destruct (IH hk key mid hi ltac:(lia) ltac:(lia) ltac:(lia)) as [h [tr [Hb [Hh [Hl Hf]]]]].
        rewrite Hb. exists h, (mid :: tr). repeat split; try lia.
        -- cbn [length]. lia.
        -- constructor; [lia|]. eapply Forall_impl; [|exact Hf]. cbv beta. intros; lia.
      * destruct (IH hk key lo mid ltac:(lia) ltac:(lia) ltac:(lia)) as [h [tr [Hb [Hh [Hl Hf]]]]].
        rewrite Hb. exists h, (mid :: tr). repeat split; try lia.
        -- cbn [length]. lia.
        -- constructor; [lia|]. eapply Forall_impl; [|exact Hf]. cbv beta. intros; lia.
    + exists hi, []. repeat split; try lia; try constructor. cbn; lia.
Qed.

Lemma searchFuel_enough : forall n, 0 <= n -> n + 1 <= 2 ^ Z.of_nat (searchFuel n).
Proof.
  intros n Hn. unfold searchFuel. destruct (n <=? 0) eqn:E.
  - assert (n = 0) by lia. subst. cbn. lia.
  - assert (Hp : 0 < n) by lia.
    pose proof (Z.log2_spec n Hp) as [_ Hu]. pose proof (Z.log2_nonneg n).
    rewrite Nat2Z.inj_succ, Z2Nat.id by lia. lia.
Qed.

Lemma searchFuel_value : forall n, Z.of_nat (searchFuel n) = if n <=? 0 then 0 else Z.log2 n + 1.
Proof.
  intros n. unfold searchFuel. destruct (n <=? 0); [reflexivity|].
  pose proof (Z.log2_nonneg n). rewrite Nat2Z.inj_succ, Z2Nat.id by lia. lia.
Qed.

(** * The file *)
Lemma pgEntSize_val : pgEntSize = 16.
Proof. reflexivity. Qed.

Lemma numEntries_nonneg : forall f, 0 <= numEntries f.
Proof.
  intros [b|]; unfold numEntries, fileLen.
  - apply Z.quot_pos; [lia | rewrite pgEntSize_val; lia].
  - rewrite pgEntSize_val. cbv. discriminate.
Qed.

(** every entry number below numEntries lies completely inside the file: the zero-fill branch of
    readEntry is never taken by the probe *)
Lemma entry_in_file : forall f i, 0 <= i < numEntries f ->
  0 <= i * pgEntSize /\ i * pgEntSize + pgEntSize <= fileLen f.
Proof.
  intros [b|] i H; unfold numEntries, fileLen in *; rewrite pgEntSize_val in *.
  - rewrite Z.quot_div_nonneg in H by lia. lia.
  - change (Z.quot (-1) 16) with 0 in H. lia.
Qed.

Lemma readEntry_in_file : forall b i, 0 <= i < numEntries (Some b) ->
  readEntry (Some b) i = firstn entBytes (skipn (Z.to_nat (i * pgEntSize)) b) /\
  length (readEntry (Some b) i) = entBytes.
Proof.
  intros b i H. apply entry_in_file in H. unfold fileLen in H. unfold readEntry.
  destruct (i * pgEntSize <? 0) eqn:E; [lia|].
  assert (L : length (firstn entBytes (skipn (Z.to_nat (i * pgEntSize)) b)) = entBytes).
  { rewrite firstn_length, skipn_length. rewrite pgEntSize_val in *. change entBytes with 16%nat. lia. }
  rewrite L, Nat.eqb_refl. split; [reflexivity|exact L].
Qed.

(** a read that does not fit into the file gives the zero entry *)
Lemma readEntry_past_end : forall b i, Z.of_nat (length b) < i * pgEntSize + pgEntSize ->
  readEntry (Some b) i = zeroEntry.
Proof.
  intros b i H. unfold readEntry. destruct (i * pgEntSize <? 0) eqn:E; [reflexivity|].
  destruct (length (firstn entBytes (skipn (Z.to_nat (i * pgEntSize)) b)) =? entBytes)%nat eqn:L; [|reflexivity].
  apply Nat.eqb_eq in L. rewrite firstn_length, skipn_length in L.
  rewrite pgEntSize_val in *. change entBytes with 16%nat in L. lia.
Qed.

(** * Exactness on a sorted file *)
Fixpoint zseq (s : Z) (k : nat) : list Z :=
  match k with O => [] | S k' => s :: zseq (s + 1) k' end.

Lemma zseq_app : forall a b s, zseq s (a + b) = zseq s a ++ zseq (s + Z.of_nat a) b.
Proof.
  induction a as [|a IH]; intros b s.
  - cbn. f_equal. lia.
  - cbn [Nat.add zseq app]. rewrite IH. do 3 f_equal. lia.
Qed.

Lemma zseq_In : forall k s i, In i (zseq s k) <-> s <= i < s + Z.of_nat k.
Proof.
  induction k as [|k IH]; intros s i; cbn [zseq In].
  - split; [tauto|lia].
  - rewrite IH. lia.
Qed.

Lemma zseq_length : forall k s, length (zseq s k) = k.
Proof. induction k; intros; cbn; auto. Qed.

Definition fileEntries (f : bookFile) : list pgEntry :=
  map (fileEntry f) (zseq 0 (Z.to_nat (numEntries f))).

Definition decodeCand (pos : position) (e : pgEntry) : move * Z :=
  (getMove pos (entMove e), Z.of_N (entWeight e)).

Definition sortedFile (f : bookFile) : Prop :=
  forall i j, 0 <= i <= j /\ j < numEntries f -> (entHash (fileEntry f i) <= entHash (fileEntry f j))%N.

Section SortedSearch.
  Variable hk : Z -> N.
  Variable key : N.
  Variable n : Z.
  Hypothesis mono : forall i j, 0 <= i <= j /\ j < n -> (hk i <= hk j)%N.

  Lemma bsearch_sorted : forall fuel lo hi h tr,
    -1 <= lo < hi -> hi <= n ->
    (forall i, 0 <= i <= lo -> (hk i < key)%N) ->
    (forall i, hi <= i < n -> (key <= hk i)%N) ->
    bsearch fuel hk key lo hi = Some (h, tr) ->
    (forall i, 0 <= i < h -> (hk i < key)%N) /\ (forall i, h <= i < n -> (key <= hk i)%N) /\ lo < h <= hi.
  Proof.
    induction fuel as [|f IH]; intros lo hi h tr Hlo Hhi Hbelow Habove Hb; rewrite bsearch_unfold in Hb.
    - destruct (hi - lo >? 1) eqn:E; rewrite Z.gtb_ltb in E; [discriminate|]. inversion Hb; subst.
      repeat split; try lia; auto. intros; apply Hbelow; lia.
    - destruct (hi - lo >? 1) eqn:E; rewrite Z.gtb_ltb in E.
      + destruct (mid_between lo hi ltac:(lia) ltac:(lia)) as [_ Hm].
        set (mid := Z.quot (lo + hi) 2) in *.
        destruct (hk mid <? key)%N eqn:Ec.
        * destruct (bsearch f hk key mid hi) as [[h' tr']|] eqn:Hr; [|discriminate].
          inversion Hb; subst h' tr; clear Hb.
          apply N.ltb_lt in Ec.
          destruct (IH mid hi h tr' ltac:(lia) Hhi) as [A [B C]]; auto.
          -- intros i Hi. pose proof (mono i mid ltac:(lia)). lia.
          -- repeat split; auto; lia.
        * destruct (bsearch f hk key lo mid) as [[h' tr']|] eqn:Hr; [|discriminate].
          inversion Hb; subst h' tr; clear Hb.
          apply N.ltb_ge in Ec.
          destruct (IH lo mid h tr' ltac:(lia) ltac:(lia)) as [A [B C]]; auto.
          -- intros i Hi. pose proof (mono mid i ltac:(lia)). lia.
          -- repeat split; auto; lia.
      + inversion Hb; subst. repeat split; try lia; auto. intros; apply Hbelow; lia.
  Qed.
End SortedSearch.

Lemma filter_none : forall (ent : Z -> pgEntry) key k e0,
  (forall i, e0 <= i < e0 + Z.of_nat k -> entHash (ent i) <> key) ->
  filter (fun e => (entHash e =? key)%N) (map ent (zseq e0 k)) = [].
Proof.
  intros ent key; induction k as [|k IH]; intros e0 H; cbn [zseq map filter]; [reflexivity|].
  destruct (entHash (ent e0) =? key)%N eqn:E.
  - apply N.eqb_eq in E. exfalso. apply (H e0); [lia|exact E].
  - apply IH. intros i Hi. apply H. lia.
Qed.

Lemma collect_sorted : forall (ent : Z -> pgEntry) key pos k e0,
  (forall i j, e0 <= i <= j /\ j < e0 + Z.of_nat k -> (entHash (ent i) <= entHash (ent j))%N) ->
  (forall i, e0 <= i < e0 + Z.of_nat k -> (key <= entHash (ent i))%N) ->
  collect k ent key pos e0 =
  map (decodeCand pos) (filter (fun e => (entHash e =? key)%N) (map ent (zseq e0 k))).
Proof.
  intros ent key pos; induction k as [|k IH]; intros e0 Hmono Hge; cbn [collect zseq map filter]; [reflexivity|].
  destruct (entHash (ent e0) =? key)%N eqn:E.
  - cbn [map]. unfold decodeCand at 1. f_equal. apply IH.
    + intros i j Hij. apply Hmono. lia.
    + intros i Hi. apply Hge. lia.
  - rewrite filter_none; [reflexivity|].
    intros i Hi. apply N.eqb_neq in E.
    pose proof (Hge e0 ltac:(lia)). pose proof (Hmono e0 i ltac:(lia)). lia.
Qed.

(** the probe always produces a result (the fuel suffices) and describes its reads *)
Lemma probe_terminates : forall f key pos,
  exists pr, getBookEntriesPG f key pos = Some pr /\
    0 <= pr_hi pr <= numEntries f /\
    Z.of_nat (length (pr_reads pr)) <= (if numEntries f <=? 0 then 0 else Z.log2 (numEntries f) + 1) /\
    Forall (fun m => 0 <= m < numEntries f) (pr_reads pr) /\
    pr_cands pr = collect (Z.to_nat (numEntries f - pr_hi pr)) (fileEntry f) key pos (pr_hi pr).
Proof.
  intros f key pos. unfold getBookEntriesPG.
  pose proof (numEntries_nonneg f) as Hn. set (n := numEntries f) in *.
  destruct (bsearch_terminates (searchFuel n) (fun i => entHash (fileEntry f i)) key (-1) n) as [h [tr [Hb [Hh [Hl Hf]]]]];
    [lia | lia | pose proof (searchFuel_enough n Hn); lia |].
  rewrite Hb. eexists. split; [reflexivity|]. cbn [pr_hi pr_reads pr_cands].
  repeat split; try lia.
  - rewrite <- searchFuel_value. lia.
  - eapply Forall_impl; [|exact Hf]. cbv beta. intros; lia.
Qed.

Lemma probe_sorted_exact : forall f key pos pr,
  sortedFile f -> getBookEntriesPG f key pos = Some pr ->
  pr_cands pr = map (decodeCand pos) (filter (fun e => (entHash e =? key)%N) (fileEntries f)).
Proof.
  intros f key pos pr Hs Hp. unfold getBookEntriesPG in Hp.
  pose proof (numEntries_nonneg f) as Hn. set (n := numEntries f) in *.
  destruct (bsearch (searchFuel n) (fun i => entHash (fileEntry f i)) key (-1) n) as [[hi tr]|] eqn:Hb; [|discriminate].
  inversion Hp; subst pr; clear Hp. cbn [pr_cands].
  destruct (bsearch_sorted (fun i => entHash (fileEntry f i)) key n Hs (searchFuel n) (-1) n hi tr
              ltac:(lia) ltac:(lia) ltac:(intros; lia) ltac:(intros; lia) Hb) as [A [B C]].
  unfold fileEntries. fold n.
  replace (Z.to_nat n) with (Z.to_nat hi + Z.to_nat (n - hi))%nat by lia.
  rewrite zseq_app, map_app, filter_app, map_app.
  rewrite filter_none.
  - cbn [map app]. rewrite Z2Nat.id, Z.add_0_l by lia.
    apply collect_sorted.
    + intros i j Hij. apply Hs. fold n. lia.
    + intros i Hi. apply B. lia.
  - intros i Hi. pose proof (A i ltac:(lia)). lia.
Qed.
