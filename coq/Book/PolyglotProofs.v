(** C18 — proofs about the book probe model (Book/Polyglot.v). *)
From Coq Require Import ZArith NArith List Bool Lia ZifyBool.
From Texel Require Import Chess.Types gen.PolyglotRandoms Book.Polyglot.
Import ListNotations.
Local Open Scope Z_scope.

Ltac Zify.zify_post_hook ::= Z.div_mod_to_equations.

(** * Move equality *)
Lemma moveEqb_eq : forall a b, moveEqb a b = true <-> a = b.
Proof.
  intros [f1 t1 p1] [f2 t2 p2]; unfold moveEqb; cbn.
  rewrite !andb_true_iff, !N.eqb_eq. split.
  - intros [[-> ->] ->]; reflexivity.
  - intros H; inversion H; auto.
Qed.

Lemma containsMove_In : forall legal m, containsMove legal m = true <-> In m legal.
Proof.
  intros legal m; unfold containsMove. rewrite existsb_exists. split.
  - intros [l [Hin Heq]]. apply moveEqb_eq in Heq. subst; exact Hin.
  - intros Hin. exists m. split; [exact Hin | apply moveEqb_eq; reflexivity].
Qed.

(** * First loop *)
Lemma sumLimit_val : sumLimit = 1073741824.
Proof. reflexivity. Qed.

(** every running sum of the first loop is at most [L] *)
Fixpoint prefixesLe (wf : Z -> Z) (ents : list (move * Z)) (s L : Z) : Prop :=
  match ents with
  | [] => True
  | e :: t => s + wf (snd e) <= L /\ prefixesLe wf t (s + wf (snd e)) L
  end.

Lemma sumLegal_some : forall wf legal ents s sum,
  sumLegal wf legal ents s = Some sum ->
  sum = s + weightSum wf ents /\ Forall (fun e => In (fst e) legal) ents /\ prefixesLe wf ents s sumLimit.
Proof.
  intros wf legal ents; induction ents as [|[m c] t IH]; intros s sum H; cbn [sumLegal weightSum prefixesLe snd fst] in *.
  - inversion H; subst. split; [lia | split; [constructor | exact I]].
  - destruct (containsMove legal m) eqn:Hc; [|discriminate].
    destruct (s + wf c >? sumLimit) eqn:Hl; [discriminate|]. rewrite Z.gtb_ltb in Hl.
    apply IH in H. destruct H as [-> [Hall Hp]]. split; [lia|]. split.
    + constructor; [apply containsMove_In; exact Hc | exact Hall].
    + split; [lia | exact Hp].
Qed.

Lemma sumLegal_all_legal : forall wf legal ents s,
  Forall (fun e => In (fst e) legal) ents -> prefixesLe wf ents s sumLimit ->
  sumLegal wf legal ents s = Some (s + weightSum wf ents).
Proof.
  intros wf legal ents; induction ents as [|[m c] t IH]; intros s H Hp; cbn [sumLegal weightSum prefixesLe snd fst] in *.
  - f_equal; lia.
  - inversion H; subst. cbn [fst] in H2. apply containsMove_In in H2. rewrite H2.
    destruct Hp as [Hle Hp]. destruct (s + wf c >? sumLimit) eqn:Hl; [rewrite Z.gtb_ltb in Hl; lia|].
    rewrite IH by assumption. f_equal; lia.
Qed.

(** the sum handed to Random::nextInt never exceeds the limit *)
Lemma sumLegal_le_limit : forall wf legal ents sum,
  sumLegal wf legal ents 0 = Some sum -> sum <= sumLimit.
Proof.
  intros wf legal ents sum H.
  assert (G : forall l s x, s <= sumLimit -> sumLegal wf legal l s = Some x -> x <= sumLimit).
  { induction l as [|[m c] t IH]; intros s x Hs Hx; cbn [sumLegal] in Hx.
    - inversion Hx; subst; exact Hs.
    - destruct (containsMove legal m); [|discriminate].
      destruct (s + wf c >? sumLimit) eqn:Hl; [discriminate|]. rewrite Z.gtb_ltb in Hl.
      eapply IH; [|exact Hx]. lia. }
  eapply G; [|exact H]. rewrite sumLimit_val. lia.
Qed.

(** * Second loop *)
Lemma pick_move_in : forall wf ents rnd s m,
  pick wf ents rnd s = OutMove m -> In m (map fst ents).
Proof.
  intros wf ents; induction ents as [|[m' c] t IH]; intros rnd s m H; cbn in *.
  - discriminate.
  - destruct (rnd <? s + wf c).
    + inversion H; subst; left; reflexivity.
    + right; eapply IH; exact H.
Qed.

Lemma pick_no_assert : forall wf ents rnd s,
  s <= rnd < s + weightSum wf ents -> pick wf ents rnd s <> OutAssert.
Proof.
  intros wf ents; induction ents as [|[m c] t IH]; intros rnd s H; cbn in *.
  - lia.
  - destruct (rnd <? s + wf c) eqn:E; [discriminate|].
    apply IH. lia.
Qed.

(** * Book::getBookMove returns the empty move or a legal move — for every entry list, weight
    function, legal list and random number *)
Lemma getBookMove_legal : forall wf legal ents rnd m,
  getBookMove wf legal ents rnd = OutMove m -> m = emptyMove \/ In m legal.
Proof.
  intros wf legal ents rnd m H. unfold getBookMove in H.
  destruct ents as [|e t]; [inversion H; auto|].
  destruct (sumLegal wf legal (e :: t) 0) as [sum|] eqn:Hs; [|inversion H; auto].
  destruct (sum <=? 0); [inversion H; auto|].
  right. apply sumLegal_some in Hs. destruct Hs as [_ [Hall _]].
  apply pick_move_in in H. apply in_map_iff in H. destruct H as [e' [<- Hin]].
  rewrite Forall_forall in Hall. apply Hall; exact Hin.
Qed.

Lemma getBookMove_no_assert : forall wf legal ents rnd,
  0 <= rnd < weightSum wf ents -> getBookMove wf legal ents rnd <> OutAssert.
Proof.
  intros wf legal ents rnd Hr. unfold getBookMove.
  destruct ents as [|e t]; [discriminate|].
  destruct (sumLegal wf legal (e :: t) 0) as [sum|] eqn:Hs; [|discriminate].
  destruct (sum <=? 0); [discriminate|].
  apply pick_no_assert. lia.
Qed.

(** * Reachability of every positive-weight entry *)
Lemma weightSum_app : forall wf a b, weightSum wf (a ++ b) = weightSum wf a + weightSum wf b.
Proof. intros wf a b; induction a as [|e t IH]; cbn; lia. Qed.

Lemma weightSum_nonneg : forall wf ents,
  (forall e, In e ents -> 0 <= wf (snd e)) -> 0 <= weightSum wf ents.
Proof.
  intros wf ents; induction ents as [|e t IH]; intros H; cbn; [lia|].
  pose proof (H e (or_introl eq_refl)). assert (0 <= weightSum wf t) by (apply IH; intros; apply H; right; assumption). lia.
Qed.

Lemma prefixes_of_total : forall wf ents s L,
  (forall e, In e ents -> 0 <= wf (snd e)) -> s + weightSum wf ents <= L -> prefixesLe wf ents s L.
Proof.
  intros wf ents; induction ents as [|e t IH]; intros s L Hnn Ht; cbn in *; [exact I|].
  assert (0 <= weightSum wf t) by (apply weightSum_nonneg; intros; apply Hnn; right; assumption).
  pose proof (Hnn e (or_introl eq_refl)).
  split; [lia|]. apply IH; [intros; apply Hnn; right; assumption | lia].
Qed.

Lemma pick_at : forall wf pre m c post s,
  (forall e, In e pre -> 0 <= wf (snd e)) -> 0 < wf c ->
  pick wf (pre ++ (m, c) :: post) (s + weightSum wf pre) s = OutMove m.
Proof.
  intros wf pre; induction pre as [|[m' c'] t IH]; intros m c post s Hnn Hpos; cbn.
  - destruct (s + 0 <? s + wf c) eqn:E; [reflexivity|lia].
  - assert (0 <= wf c') by (apply (Hnn (m', c')); left; reflexivity).
    assert (0 <= weightSum wf t) by (apply weightSum_nonneg; intros; apply Hnn; right; assumption).
    destruct (s + (wf c' + weightSum wf t) <? s + wf c') eqn:E; [lia|].
    replace (s + (wf c' + weightSum wf t)) with ((s + wf c') + weightSum wf t) by lia.
    apply IH; [intros; apply Hnn; right; assumption | exact Hpos].
Qed.

Lemma getBookMove_nonempty : forall wf legal ents rnd, ents <> [] ->
  getBookMove wf legal ents rnd =
  match sumLegal wf legal ents 0 with
  | None => OutMove emptyMove
  | Some sum => if sum <=? 0 then OutMove emptyMove else pick wf ents rnd 0
  end.
Proof. intros wf legal ents rnd H; destruct ents; [contradiction | reflexivity]. Qed.

Lemma getBookMove_reachable : forall wf legal ents m c,
  Forall (fun e => In (fst e) legal) ents ->
  (forall e, In e ents -> 0 <= wf (snd e)) ->
  weightSum wf ents <= sumLimit ->
  In (m, c) ents -> 0 < wf c ->
  exists rnd, 0 <= rnd < weightSum wf ents /\ getBookMove wf legal ents rnd = OutMove m.
Proof.
  intros wf legal ents m c Hall Hnn Hlim Hin Hpos.
  assert (Hpref : prefixesLe wf ents 0 sumLimit) by (apply prefixes_of_total; [exact Hnn | lia]).
  clear Hlim. apply in_split in Hin. destruct Hin as [pre [post ->]].
  assert (Hpre : forall e, In e pre -> 0 <= wf (snd e)) by (intros; apply Hnn; apply in_or_app; left; assumption).
  assert (Hpost : 0 <= weightSum wf post) by (apply weightSum_nonneg; intros; apply Hnn; apply in_or_app; right; right; assumption).
  pose proof (weightSum_nonneg wf pre Hpre) as H0.
  exists (weightSum wf pre).
  rewrite weightSum_app. cbn [weightSum snd]. split; [lia|].
  rewrite getBookMove_nonempty by (destruct pre; discriminate).
  rewrite sumLegal_all_legal by assumption.
  rewrite weightSum_app. cbn [weightSum snd].
  destruct (0 + (weightSum wf pre + (wf c + weightSum wf post)) <=? 0) eqn:E; [lia|].
  pose proof (pick_at wf pre m c post 0 Hpre Hpos) as P. rewrite Z.add_0_l in P. exact P.
Qed.

(** every move returned for a non-negative random number is in [reachable] *)
Lemma pick_positive : forall wf l rnd s m,
  s <= rnd -> pick wf l rnd s = OutMove m ->
  In m (map fst (filter (fun e => 0 <? wf (snd e)) l)).
Proof.
  intros wf l; induction l as [|[m' c] t IH]; intros rnd s m Hs H; cbn in *; [discriminate|].
  destruct (rnd <? s + wf c) eqn:E.
  - inversion H; subst. destruct (0 <? wf c) eqn:E2; [left; reflexivity|lia].
  - destruct (0 <? wf c); [right|]; (eapply IH; [|exact H]; lia).
Qed.

Lemma reachable_complete : forall wf legal ents rnd m,
  0 <= rnd -> getBookMove wf legal ents rnd = OutMove m -> In m (reachable wf legal ents).
Proof.
  intros wf legal ents rnd m Hr H. unfold getBookMove in H. unfold reachable.
  destruct ents as [|e t]; [inversion H; left; reflexivity|].
  destruct (sumLegal wf legal (e :: t) 0) as [sum|] eqn:Hs; [|inversion H; left; reflexivity].
  destruct (sum <=? 0); [inversion H; left; reflexivity|].
  eapply pick_positive; [|exact H]. lia.
Qed.
