(** C18 — specification side: the polyglot book format's definition of a 16-bit move code, written
    with literal constants (nothing here is regenerated from the code or shared with the model).

    bits 0-2 target file, 3-5 target row, 6-8 origin file, 9-11 origin row, 12-14 promotion piece
    (1 knight, 2 bishop, 3 rook, 4 queen, anything else: none).  Castling is stored as "king takes
    own rook": e1h1, e1a1, e8h8, e8a8 mean e1g1, e1c1, e8g8, e8c8 when the piece on the origin
    square is the king of that side. *)
From Coq Require Import ZArith NArith List Bool.
From Texel Require Import Chess.Types.
Import ListNotations.
Local Open Scope N_scope.

Definition specPromPiece (wtm : bool) (prom : N) : piece :=
  match prom with
  | 1 => if wtm then WKNIGHT else BKNIGHT
  | 2 => if wtm then WBISHOP else BBISHOP
  | 3 => if wtm then WROOK else BROOK
  | 4 => if wtm then WQUEEN else BQUEEN
  | _ => EMPTY
  end.

Definition specDecodeP (wtm : bool) (pcFrom : piece) (mv : N) : move :=
  let to := N.land mv 63 in
  let from := N.land (N.shiftr mv 6) 63 in
  let prom := N.land (N.shiftr mv 12) 7 in
  let to' :=
    if (from =? 4) && (pcFrom =? WKING) then (if to =? 7 then 6 else if to =? 0 then 2 else to)
    else if (from =? 60) && (pcFrom =? BKING) then (if to =? 63 then 62 else if to =? 56 then 58 else to)
    else to in
  mkMove from to' (specPromPiece wtm prom).

Definition specDecode (pos : position) (mv : N) : move :=
  specDecodeP (whiteMove pos) (getPiece pos (N.land (N.shiftr mv 6) 63)) mv.
