(** C18 — range facts: decoded fields, the [int] weight sum, Random::nextInt, hashRandoms indices. *)
From Coq Require Import ZArith NArith List Bool Lia ZifyBool.
From Texel Require Import Chess.Types gen.PolyglotRandoms Book.Polyglot Book.PolyglotProofs Book.SearchProofs.
Import ListNotations.
Local Open Scope Z_scope.

(** * Decoded fields are inside their C++ type *)
Lemma beField_lt : forall e off len modulus, (0 < modulus)%N -> (beField e off len modulus < modulus)%N.
Proof.
  intros e off len modulus Hm. unfold beField.
  generalize (firstn len (skipn off e)) as l.
  assert (G : forall l acc, (acc < modulus)%N ->
              (fold_left (fun h b => (N.lor (N.shiftl h 8) b) mod modulus)%N l acc < modulus)%N).
  { induction l as [|b t IH]; intros acc Ha; cbn [fold_left]; [exact Ha|].
    apply IH. apply N.mod_lt. lia. }
  intros l. apply G. exact Hm.
Qed.

Lemma entWeight_range : forall e, (entWeight (deSerialize e) < 65536)%N.
Proof. intros e. cbn [deSerialize entWeight]. apply beField_lt. reflexivity. Qed.

Lemma entMove_range : forall e, (entMove (deSerialize e) < 65536)%N.
Proof. intros e. cbn [deSerialize entMove]. apply beField_lt. reflexivity. Qed.

Lemma entHash_range : forall e, (entHash (deSerialize e) < two64)%N.
Proof. intros e. cbn [deSerialize entHash]. apply beField_lt. reflexivity. Qed.

Definition weightOk (c : move * Z) : Prop := 0 <= snd c <= 65535.

Lemma collect_weights : forall k ent key pos e0,
  (forall i, (entWeight (ent i) < 65536)%N) -> Forall weightOk (collect k ent key pos e0).
Proof.
  induction k as [|k IH]; intros ent key pos e0 H; cbn [collect]; [constructor|].
  destruct (entHash (ent e0) =? key)%N; [|constructor].
  constructor; [|apply IH; exact H].
  unfold weightOk; cbn [snd]. pose proof (H e0). lia.
Qed.

Lemma collect_length : forall k ent key pos e0, (length (collect k ent key pos e0) <= k)%nat.
Proof.
  induction k as [|k IH]; intros; cbn [collect]; [auto|].
  destruct (entHash (ent e0) =? key)%N; cbn [length]; [|lia]. specialize (IH ent key pos (e0 + 1)). lia.
Qed.

(** * The int accumulator *)
Lemma weightSum_bounds : forall ents, Forall weightOk ents ->
  0 <= weightSum pgWeight ents <= Z.of_nat (length ents) * 65535.
Proof.
  induction ents as [|e t IH]; intros H; cbn [weightSum length]; [lia|].
  inversion H; subst. unfold weightOk, pgWeight in *. specialize (IH H3). lia.
Qed.

Lemma sumsInInt_bound : forall ents s, Forall weightOk ents ->
  0 <= s -> s + Z.of_nat (length ents) * 65535 <= intMax ->
  sumsInInt pgWeight ents s = true.
Proof.
  induction ents as [|[m c] t IH]; intros s H Hs Hb; cbn [sumsInInt length] in *; [reflexivity|].
  inversion H; subst. unfold weightOk in H2; cbn [snd] in H2. unfold pgWeight in *.
  apply andb_true_iff. split.
  - unfold inInt, intMax in *. lia.
  - apply IH; [assumption | lia | lia].
Qed.

(** the first loop as executed (it leaves at the first running sum above [sumLimit]) never leaves
    [int], whatever the number of entries *)
Lemma loop1InInt_ok : forall legal ents s, Forall weightOk ents ->
  0 <= s <= sumLimit -> loop1InInt pgWeight legal ents s = true.
Proof.
  intros legal ents; induction ents as [|[m c] t IH]; intros s H Hs; cbn [loop1InInt]; [reflexivity|].
  destruct (containsMove legal m); [|reflexivity].
  inversion H; subst. unfold weightOk in H2; cbn [snd] in H2. unfold pgWeight in *.
  rewrite sumLimit_val in *. apply andb_true_iff. split.
  - unfold inInt, intMax. lia.
  - destruct (s + c >? 1073741824) eqn:E; [reflexivity|]. rewrite Z.gtb_ltb in E.
    apply IH; [assumption|lia].
Qed.

(** when the first loop ran to its end, every prefix sum of the second loop is inside [int] too *)
Lemma sumsInInt_of_prefixes : forall ents s, Forall weightOk ents ->
  0 <= s -> prefixesLe pgWeight ents s sumLimit -> sumsInInt pgWeight ents s = true.
Proof.
  induction ents as [|[m c] t IH]; intros s H Hs Hp; cbn [sumsInInt prefixesLe snd] in *; [reflexivity|].
  inversion H; subst. unfold weightOk in H2; cbn [snd] in H2. unfold pgWeight in *.
  destruct Hp as [Hle Hp]. rewrite sumLimit_val in *. apply andb_true_iff. split.
  - unfold inInt, intMax. lia.
  - apply IH; [assumption | lia | exact Hp].
Qed.

(** the crafted list of the former finding F7: 32769 entries of weight 65535 *)
Definition f7_entries : list (move * Z) := repeat (mkMove 12%N 28%N 0%N, 65535) (Z.to_nat 32769).

Lemma f7_weightOk : Forall weightOk f7_entries.
Proof.
  unfold f7_entries. apply Forall_forall. intros x Hx. apply repeat_spec in Hx. subst. unfold weightOk; cbn; lia.
Qed.

(** * Random::nextInt *)
Lemma nextIntN_val : nextIntN = 1073741824.
Proof. reflexivity. Qed.

Lemma nextInt_mask : forall u, Z.of_N (N.land u (Z.to_N (nextIntN - 1))) = Z.of_N u mod 1073741824.
Proof.
  intros u. rewrite nextIntN_val.
  change (Z.to_N (1073741824 - 1)) with (N.ones 30).
  rewrite N.land_ones. rewrite N2Z.inj_mod. reflexivity.
Qed.

Lemma nextIntTry_sound : forall sum u r, 0 < sum -> nextIntTry sum u = Some r -> 0 <= r < sum.
Proof.
  intros sum u r Hs H. unfold nextIntTry in H. rewrite nextInt_mask in H.
  destruct (Z.of_N u mod 1073741824 <? nextIntMaxVal sum); [|discriminate].
  inversion H; subst. apply Z.rem_bound_pos; [|lia].
  apply Z.mod_pos_bound. lia.
Qed.

Lemma nextIntTry_reaches : forall sum rnd, 0 < sum <= 1073741824 -> 0 <= rnd < sum ->
  nextIntTry sum (Z.to_N rnd) = Some rnd.
Proof.
  intros sum rnd Hs Hr. unfold nextIntTry. rewrite nextInt_mask.
  rewrite Z2N.id by lia. rewrite Z.mod_small by lia.
  unfold nextIntMaxVal. rewrite nextIntN_val.
  assert (1 <= Z.quot 1073741824 sum).
  { rewrite Z.quot_div_nonneg by lia. apply Z.div_le_lower_bound; lia. }
  destruct (rnd <? Z.quot 1073741824 sum * sum) eqn:E; [|nia].
  rewrite Z.rem_small by lia. reflexivity.
Qed.

(** each trial of the rejection loop is accepted with probability above one half *)
Lemma nextIntMaxVal_large : forall sum, 0 < sum <= 1073741824 -> 536870912 < nextIntMaxVal sum <= 1073741824.
Proof.
  intros sum Hs. unfold nextIntMaxVal. rewrite nextIntN_val.
  rewrite Z.quot_div_nonneg by lia.
  pose proof (Z.div_mod 1073741824 sum ltac:(lia)) as D.
  pose proof (Z.mod_pos_bound 1073741824 sum ltac:(lia)) as M.
  assert (1 <= 1073741824 / sum) by (apply Z.div_le_lower_bound; lia).
  nia.
Qed.

Lemma nextIntTry_accepts : forall sum u, 0 < sum ->
  Z.of_N u mod 1073741824 < nextIntMaxVal sum -> nextIntTry sum u <> None.
Proof.
  intros sum u Hs H. unfold nextIntTry. rewrite nextInt_mask.
  destruct (Z.of_N u mod 1073741824 <? nextIntMaxVal sum) eqn:E; [discriminate|lia].
Qed.

(** above 2^30 every trial would be rejected (why Book::getBookMove gives up above the limit) *)
Lemma nextIntTry_rejects : forall sum u, 1073741824 < sum -> nextIntTry sum u = None.
Proof.
  intros sum u Hs. unfold nextIntTry. rewrite nextInt_mask.
  unfold nextIntMaxVal. rewrite nextIntN_val. rewrite Z.quot_small by lia.
  pose proof (Z.mod_pos_bound (Z.of_N u) 1073741824 ltac:(lia)).
  destruct (Z.of_N u mod 1073741824 <? 0 * sum) eqn:E; [lia|reflexivity].
Qed.

(** * getHashKey reads hashRandoms inside the table *)
Lemma hashRandoms_length : length hashRandoms = 781%nat.
Proof. vm_compute. reflexivity. Qed.

Lemma pieceVals_small : forallb (fun e => (pgPieceStride * snd e + 63 <? 781)%N) pgPieceVals = true.
Proof. vm_compute. reflexivity. Qed.

Lemma castleIdx_small : forallb (fun e => (snd e <? 781)%N) pgCastleIdx = true.
Proof. vm_compute. reflexivity. Qed.

Lemma pieceVal_small : forall p v, pieceVal p = Some v -> (pgPieceStride * v + 63 < 781)%N.
Proof.
  intros p v H. unfold pieceVal in H.
  destruct (find (fun e => (fst e =? p)%N) pgPieceVals) as [[p' v']|] eqn:E; [|discriminate].
  inversion H; subst. apply find_some in E. destruct E as [Hin _].
  pose proof pieceVals_small as A. rewrite forallb_forall in A. specialize (A _ Hin). cbn [snd] in A. lia.
Qed.

Lemma hashIndices_in_range : forall pos, Forall (fun i => (i < 781)%N) (hashIndices pos).
Proof.
  intros pos. unfold hashIndices.
  apply Forall_app; split; [|apply Forall_app; split; [|apply Forall_app; split]].
  - apply Forall_forall. intros i Hi. apply in_flat_map in Hi. destruct Hi as [sq [Hsq Hi]].
    apply in_map_iff in Hsq. destruct Hsq as [n [<- Hn]]. apply in_seq in Hn.
    destruct (pieceVal (getPiece pos (N.of_nat n))) as [v|] eqn:E; [|destruct Hi].
    destruct Hi as [<-|[]]. apply pieceVal_small in E. lia.
  - apply Forall_forall. intros i Hi. apply in_flat_map in Hi. destruct Hi as [c [Hc Hi]].
    destruct (N.testbit (castleMask pos) (fst c)); [|destruct Hi]. destruct Hi as [<-|[]].
    pose proof castleIdx_small as A. rewrite forallb_forall in A. specialize (A _ Hc). lia.
  - destruct (epSquare pos =? -1); [constructor|]. constructor; [|constructor].
    assert (N.land (Z.to_N (epSquare pos)) 7 < 8)%N.
    { change 7%N with (N.ones 3). rewrite N.land_ones. apply N.mod_lt. discriminate. }
    change pgEpBase with 772%N. lia.
  - destruct (whiteMove pos); constructor; [reflexivity|constructor].
Qed.
