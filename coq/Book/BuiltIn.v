(** C18 — the built-in book's probe path (Book::getBookEntries non-polyglot branch +
    Book::getBookMove) and Book::addToBook.  The book map is an arbitrary finite map from
    Zobrist keys to entry lists; Book::getWeight(count, false) (a double computation) is an
    arbitrary function [wf].  No proofs in this file. *)
From Coq Require Import ZArith NArith List Bool.
From Texel Require Import Chess.Types Book.Polyglot.
Import ListNotations.
Local Open Scope Z_scope.

Definition bookMap := list (N * list (move * Z)).        (* std::map<U64, vector<BookEntry>> *)

Fixpoint mapFind (bm : bookMap) (k : N) : option (list (move * Z)) :=
  match bm with
  | [] => None
  | (k', v) :: t => if (k' =? k)%N then Some v else mapFind t k
  end.

(** [it = bookMap.find(pos.zobristHash()); if (it != end) bookMoves = it->second;] *)
Definition getBookEntriesBuiltin (bm : bookMap) (zob : N) : list (move * Z) :=
  match mapFind bm zob with Some v => v | None => [] end.

Definition builtinBookMove (bm : bookMap) (zob : N) (wf : Z -> Z) (legal : list move) (rnd : Z) : outcome :=
  getBookMove wf legal (getBookEntriesBuiltin bm zob) rnd.

(** Book::addToBook on the entry vector of one key *)
Fixpoint addEntry (ent : list (move * Z)) (m : move) : list (move * Z) :=
  match ent with
  | [] => [(m, 1)]
  | (m', c) :: t => if moveEqb m' m then (m', c + 1) :: t else (m', c) :: addEntry t m
  end.

Fixpoint addToBook (bm : bookMap) (zob : N) (m : move) : bookMap :=
  match bm with
  | [] => [(zob, [(m, 1)])]
  | (k, v) :: t => if (k =? zob)%N then (k, addEntry v m) :: t else (k, v) :: addToBook t zob m
  end.
