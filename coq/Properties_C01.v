(** C01 — generated legal moves are exactly the legal moves of chess.
    Only statements; every proof is [exact <lemma>].
    Model: Chess/BitBoard.v, Chess/MoveGen.v (+ Chess/Position.v), written like
    lib/texellib/bitBoard.{hpp,cpp} and moveGen.{hpp,cpp} over the tables regenerated into
    gen/BitBoardTables.v; tied to the code by the correspondence check (props/c01.py).
    Specification: Chess/Spec.v (mailbox-style FIDE rules). *)
From Coq Require Import ZArith NArith List Bool.
From Texel Require Import Chess.Types Chess.Position Chess.PositionSpec Chess.PositionB Chess.BitBoard Chess.MoveGen Chess.Spec Chess.MoveGenWF
  Chess.BitBoardProofs Chess.RayProofs Chess.MagicSweep Chess.MagicProofs Chess.MoveGenProofs Chess.AttackProofs
  Chess.SliderProofs Chess.PawnProofs Chess.PseudoProofs Chess.MakeSpecProofs Chess.TryMoveProofs Chess.CastleProofs
  Chess.LegalProofs Chess.ShortcutProofs Chess.IsLegalProofs Chess.CapturesProofs Chess.NoDupProofs Chess.WfProofs Chess.IsLegalFull Chess.EvasionsIn Chess.CapChecksSub
  Chess.IsLegalAll Chess.RemoveIllegalIndep Chess.EvasionsComplete Chess.GivesCheckProofs Chess.CapChecksComplete
  Chess.GivesCheckCommon Chess.GivesCheckPromo Chess.GivesCheckEp Chess.GivesCheckCastle Chess.GivesCheckAll gen.BitBoardTables.
Import ListNotations.
Local Open Scope N_scope.

(** The tables computed in staticInitialize (same shift-and-mask formulas over the regenerated
    masks) equal their coordinate definitions for all 64 squares / 64x64 pairs; the regenerated
    literal dirTable gives getDirection its meaning; the de-Bruijn bit scan is the lowest-set-bit
    function for EVERY non-zero 64-bit word; [mask &= mask-1] removes exactly that bit. *)
Theorem C01_tables :
  (forall s, s < 64 ->
     kingAttacks s < 2 ^ 64 /\ knightAttacks s < 2 ^ 64 /\ wPawnAttacks s < 2 ^ 64 /\ bPawnAttacks s < 2 ^ 64) /\
  (forall s t, s < 64 -> t < 64 ->
     N.testbit (kingAttacks s) t = step_rel king_offsets s t /\
     N.testbit (knightAttacks s) t = step_rel knight_offsets s t /\
     N.testbit (wPawnAttacks s) t = step_rel wpawn_offsets s t /\
     N.testbit (bPawnAttacks s) t = step_rel bpawn_offsets s t) /\
  (forall f t, f < 8 -> t < 64 ->
     N.testbit (epMaskWF f) t = ((zr t =? 3) && (Z.abs (zf t - Z.of_N f) =? 1))%Z /\
     N.testbit (epMaskBF f) t = ((zr t =? 4) && (Z.abs (zf t - Z.of_N f) =? 1))%Z) /\
  (forall a b, a < 64 -> b < 64 ->
     squaresBetween a b < 2 ^ 64 /\
     (forall t, t < 64 -> N.testbit (squaresBetween a b) t = between_rel a b t) /\
     getDirection a b = dir_rel a b) /\
  (forall m, 0 < m -> m < 2 ^ 64 ->
     firstBitT m = firstBit m /\ N.testbit m (firstBit m) = true /\
     (forall i, N.testbit m i = true -> firstBit m <= i) /\
     (forall i, N.testbit (clearLowest m) i = N.testbit m i && negb (i =? firstBit m))) /\
  (forall i, i < 64 -> lastBitT (bit i) = i /\ lastBitT (N.ones (i + 1)) = i /\ bitCountT (N.ones (i + 1)) = i + 1).
Proof. exact tables_all. Qed.
Print Assumptions C01_tables.

(** Ray-walk lemma, for every occupancy word: a square is in the rook (bishop) attack set of s
    iff it is aligned with s and no square strictly between them is occupied; attack sets
    contain board squares only. *)
Theorem C01_rays : forall s t occ, s < 64 ->
  (t < 64 -> (N.testbit (rookAttacks s occ) t = true <->
              rookAligned s t = true /\ N.land (squaresBetween s t) occ = 0)) /\
  (t < 64 -> (N.testbit (bishopAttacks s occ) t = true <->
              bishopAligned s t = true /\ N.land (squaresBetween s t) occ = 0)) /\
  (N.testbit (rookAttacks s occ) t = true -> t < 64) /\
  (N.testbit (bishopAttacks s occ) t = true -> t < 64).
Proof. exact rays_all. Qed.
Print Assumptions C01_rays.

(** Magic tables: with the regenerated magic numbers and shift counts every square's table is
    built without a failed assert and without an index outside the table (the model returns
    None otherwise), and for EVERY occupancy word the table lookup equals the ray walk. *)
Theorem C01_magic : forall s occ, s < 64 ->
  rTableOf s <> None /\ bTableOf s <> None /\
  rookAttacksMagic s occ = rookAttacks s occ /\ bishopAttacksMagic s occ = bishopAttacks s occ.
Proof. exact magic_all. Qed.
Print Assumptions C01_magic.

(** The loops over set bits: a move is in the list built by
    [while (mask != 0) { sq = extractSquare(mask); addMovesByMask(list, sq, g(sq)); }]
    iff it was there before or it is (sq, t) for a set bit sq of mask and a set bit t of g(sq)
    (any 64-bit mask; the fuel of the model's loop always suffices). *)
Theorem C01_bit_loops : forall (g : square -> N) mask l0 m,
  mask < 2 ^ 64 -> (forall sq, sq < 64 -> g sq < 2 ^ 64) ->
  (In m (forSquares mask (fun l sq => addMovesByMask l sq (g sq)) l0) <->
   In m l0 \/ exists sq t, N.testbit mask sq = true /\ N.testbit (g sq) t = true /\ m = mkMove sq t EMPTY).
Proof. exact forSquares_moves_In. Qed.
Print Assumptions C01_bit_loops.

(** The engine's attack test = the Spec's, on every square of every well-formed position and
    for either side; hence "in check" means the same in both worlds. *)
Theorem C01_inCheck : forall p, WF p ->
  inCheck p = in_checkb (squares p) (whiteMove p) /\
  forall wtm sq, sq < 64 ->
    sqAttackedT wtm p sq (occupiedBB p) = attacked_by (squares p) (negb wtm) (zf sq) (zr sq).
Proof. exact (fun p H => conj (inCheck_spec p H) (fun wtm sq Hs => sqAttacked_spec p wtm sq H Hs)). Qed.
Print Assumptions C01_inCheck.

(** The same holds under the weaker [BoardOK] (bitboards agree with the board, piece codes in
    range), i.e. also for the position in the middle of removeIllegal's make / test / unmake,
    which need not be an accepted position: the king test there is the Spec's in_checkb. *)
Theorem C01_attack_test_general : forall p w, BoardOK p ->
  (forall sq, sq < 64 -> sqAttackedT w p sq (occupiedBB p) = attacked_by (squares p) (negb w) (zf sq) (zr sq)) /\
  ((exists s, s < 64 /\ getPiece p s = mk_piece w King) ->
   (forall s1 s2, s1 < 64 -> s2 < 64 -> getPiece p s1 = mk_piece w King -> getPiece p s2 = mk_piece w King -> s1 = s2) ->
   sqAttackedT w p (kingSq p w) (occupiedBB p) = in_checkb (squares p) w).
Proof. exact (fun p w H => conj (fun sq Hs => sqAttacked_spec_B p w sq H Hs) (kingAttacked_spec_B p w H)). Qed.
Print Assumptions C01_attack_test_general.

(** Every piece block of pseudoLegalMoves generates exactly the Spec's pseudo-moves of that
    piece kind (queen, rook, bishop, knight, king without castling, pawn incl. double push,
    en passant and the four promotions), for every well-formed position. *)
Theorem C01_piece_blocks : forall p m, WF p ->
  let w := whiteMove p in let b := squares p in
  let on k (moves : Z -> Z -> list move) :=
    exists f r, on_board f r = true /\ at_ b f r = mk_piece w k /\ In m (moves f r) in
  (In m (queenBlock w p []) <-> on Queen (fun f r => slider_moves b w f r (rook_dirs ++ bishop_dirs))) /\
  (In m (rookBlock w p []) <-> on Rook (fun f r => slider_moves b w f r rook_dirs)) /\
  (In m (bishopBlock w p []) <-> on Bishop (fun f r => slider_moves b w f r bishop_dirs)) /\
  (In m (knightBlock w p []) <-> on Knight (fun f r => step_moves b w f r knight_offsets)) /\
  (In m (kingBlock w p []) <-> on King (fun f r => step_moves b w f r king_offsets)) /\
  (In m (pawnBlock w p []) <-> on Pawn (fun f r => pawn_moves (abs p) f r)).
Proof.
  exact (fun p m H =>
    match slider_blocks_spec p m H, step_blocks_spec p m H with
    | conj HR (conj HB HQ), conj HN HK => conj HQ (conj HR (conj HB (conj HN (conj HK (pawnBlock_spec p m H)))))
    end).
Qed.
Print Assumptions C01_piece_blocks.

(** pseudoLegalMoves = the Spec's pseudo-moves as sets.  The only difference between the two
    notions of pseudo-legal is explicit: the engine's castling moves do not test the king's
    target square (the legality filter does); [pseudo_moves_engine] is the Spec's list with
    exactly that test removed ([castle_moves_pseudo]).  Consequently no legal move of chess
    is missing from the engine's pseudo-legal list. *)
Theorem C01_pseudo_exact : forall p m, WF p ->
  (In m (pseudoLegalMoves p) <-> In m (pseudo_moves_engine (abs p))) /\
  (In m (pseudo_moves (abs p)) -> In m (pseudoLegalMoves p)) /\
  (legal_spec (abs p) m -> In m (pseudoLegalMoves p)).
Proof. exact pseudo_exact_all. Qed.
Print Assumptions C01_pseudo_exact.

(** the relaxed castling list vs the Spec's: same moves, plus "target square not attacked" *)
Theorem C01_castling_relaxation : forall sp m,
  In m (castle_moves sp) <->
  In m (castle_moves_pseudo sp) /\
  let r := (if sp_white sp then 0 else 7)%Z in
  (m = mv 4 r 6 r EMPTY -> attacked_by (sp_board sp) (negb (sp_white sp)) 6 r = false) /\
  (m = mv 4 r 2 r EMPTY -> attacked_by (sp_board sp) (negb (sp_white sp)) 2 r = false).
Proof. exact castle_moves_relax. Qed.
Print Assumptions C01_castling_relaxation.

(** the Spec's boolean legality test reflects the relation; the Spec's move list is the set of
    legal moves *)
Theorem C01_spec_reflect : forall sp m,
  (legal_specb sp m = true <-> legal_spec sp m) /\ (In m (legal_moves_spec sp) <-> legal_spec sp m).
Proof. exact (fun sp m => conj (legal_specb_spec sp m) (legal_moves_spec_In sp m)). Qed.
Print Assumptions C01_spec_reflect.

(** For every pseudo-legal move of a well-formed position: the board after makeMoveB (and
    after makeMove) is the board of the Spec's make_spec - per move kind: quiet, capture, double
    push, promotion, en passant, castling - and the move has the shape ([moveOk]) under which
    the position model's make/unmake theorems (C02) apply. *)
Theorem C01_make_spec_agrees : forall p m, WF p -> In m (pseudoLegalMoves p) ->
  squares (fst (makeMoveB p m)) = sp_board (make_spec (abs p) m) /\ moveOk p m = true.
Proof. exact (fun p m H Hm => match pseudo_move_good p H m Hm with conj A (conj B _) => conj A B end). Qed.
Print Assumptions C01_make_spec_agrees.

(** The make / test / unmake step of removeIllegal ([tryMove]) and of isLegal ([tryMoveB]):
    its verdict is "the mover's king is not attacked on the Spec's board after the move", which
    for a pseudo-legal move is exactly legality under the FIDE rules (incl. castling onto an
    attacked square, which the engine only rejects here), and the position is restored
    (all fields; pieceTypeBB[EMPTY] is dead state).  [Consistent zk p] is C02's invariant. *)
Theorem C01_tryMove : forall zk p m, emptyKeysZero zk -> WF p -> Consistent zk p -> In m (pseudoLegalMoves p) ->
  snd (tryMove zk p m) = negb (in_checkb (sp_board (make_spec (abs p) m)) (whiteMove p)) /\
  (snd (tryMove zk p m) = true <-> legal_spec (abs p) m) /\
  normEmpty (fst (tryMove zk p m)) = normEmpty p.
Proof.
  exact (fun zk p m E H C Hm =>
    conj (proj1 (tryMove_spec zk E p H C m Hm))
         (conj (proj1 (tryMove_legal zk E p H C m Hm)) (proj2 (tryMove_legal zk E p H C m Hm)))).
Qed.
Print Assumptions C01_tryMove.

(** isLegal (partial form of C01_isLegal): for a pseudo-legal move its verdict is the Spec's
    legality and the position is restored
    - always when the side to move is in check (early "cannot help" exit and make/test/unmake),
    - when not in check, for every non-king move that is not decided by the "moves along the
      king's line" exit (en passant, source square not visible from the king, or directions
      differ),
    - and whenever the make/test/unmake path [tryMoveB] is the one taken.
    Not covered: king moves when not in check (attack test with the king lifted from the
    occupancy) and the same-direction exit; see C01_isLegal_statement. *)
Theorem C01_isLegal_partial : forall zk p m, emptyKeysZero zk -> WF p -> Consistent zk p -> In m (pseudoLegalMoves p) ->
  let ks := kingSq p (whiteMove p) in
  (inCheck p = true ->
     snd (isLegal p m true) = legal_specb (abs p) m /\ restoredB p (fst (isLegal p m true))) /\
  (inCheck p = false -> mfrom m <> ks ->
     (Z.of_N (mto m) = epSquare p \/
      N.testbit (N.lor (rookAttacks ks (occupiedBB p)) (bishopAttacks ks (occupiedBB p))) (mfrom m) = false \/
      getDirection ks (mfrom m) <> getDirection ks (mto m)) ->
     snd (isLegal p m false) = legal_specb (abs p) m /\ restoredB p (fst (isLegal p m false))) /\
  (snd (tryMoveB p m) = legal_specb (abs p) m /\ restoredB p (fst (tryMoveB p m))).
Proof.
  exact (fun zk p m E H C Hm =>
    conj (isLegal_in_check zk E p H C m Hm)
         (conj (isLegal_not_in_check_nonking zk E p H C m Hm) (tryMoveB_verdict zk E p H C m Hm))).
Qed.
Print Assumptions C01_isLegal_partial.

(** C01_legal_exact without the king-ray shortcut: filtering the pseudo-legal list with the
    make / test / unmake verdict yields exactly the legal moves of chess. *)
Theorem C01_legal_exact_noshortcut : forall zk p m, emptyKeysZero zk -> WF p -> Consistent zk p ->
  (In m (filter (fun m => snd (tryMove zk p m)) (pseudoLegalMoves p)) <-> legal_spec (abs p) m).
Proof. exact (fun zk p m E H C => legal_exact_noshortcut zk E p H C m). Qed.
Print Assumptions C01_legal_exact_noshortcut.

(** Spec-level fact behind the engine's castling convention: with king and rook in place and
    the squares between empty, the king's target square is attacked before castling iff the
    king is attacked on it after castling. *)
Theorem C01_castling_target : forall (b : board) (A : bool) (r : Z) (K R : piece),
  length b = 64%nat -> (r = 0 \/ r = 7)%Z ->
  has_color A K = false -> has_color A R = false -> (K =? EMPTY) = false -> (R =? EMPTY) = false ->
  at_ b 4 r = K ->
  (at_ b 5 r = EMPTY -> at_ b 6 r = EMPTY -> at_ b 7 r = R ->
   attacked_by (updN (sq_of 5 r) R (updN (sq_of 7 r) EMPTY (updN (sq_of 6 r) K (updN (sq_of 4 r) EMPTY b)))) A 6 r
   = attacked_by b A 6 r) /\
  (at_ b 3 r = EMPTY -> at_ b 2 r = EMPTY -> at_ b 1 r = EMPTY -> at_ b 0 r = R ->
   attacked_by (updN (sq_of 3 r) R (updN (sq_of 0 r) EMPTY (updN (sq_of 2 r) K (updN (sq_of 4 r) EMPTY b)))) A 2 r
   = attacked_by b A 2 r).
Proof.
  exact (fun b A r K R Hl Hr cK cR nK nR H4 =>
    conj (fun H5 H6 H7 => castle_attack_kingside b A r K R Hl Hr H4 H5 H6 H7 cK cR nK nR)
         (fun H3 H2 H1 H0 => castle_attack_queenside b A r K R Hl Hr H4 H3 H2 H1 H0 cK cR nK nR)).
Qed.
Print Assumptions C01_castling_target.

(** C01_legal_exact: the list removeIllegal computes from the pseudo-legal moves - with its
    king-ray shortcut, for positions in check and not in check - consists of exactly the legal
    moves of chess, is the pseudo-legal list filtered by the Spec's legality (so it inherits the
    generator's order and multiplicities), and the position is restored. *)
Theorem C01_legal_exact : forall zk p, emptyKeysZero zk -> WF p -> Consistent zk p ->
  let r := removeIllegal zk p (pseudoLegalMoves p) in
  (forall m, In m (snd r) <-> legal_spec (abs p) m) /\
  snd r = filter (legal_specb (abs p)) (pseudoLegalMoves p) /\
  normEmpty (fst r) = normEmpty p.
Proof. exact legal_exact. Qed.
Print Assumptions C01_legal_exact.

(** the king-ray shortcut is sound: removeIllegal = the filter that always plays the move *)
Theorem C01_shortcut : forall zk p, emptyKeysZero zk -> WF p -> Consistent zk p ->
  snd (removeIllegal zk p (pseudoLegalMoves p)) = filter (fun m => snd (tryMove zk p m)) (pseudoLegalMoves p).
Proof. exact shortcut_sound. Qed.
Print Assumptions C01_shortcut.

(** removeIllegal on ANY list of pseudo-legal moves (evasions, captures, captures-and-checks)
    keeps exactly its legal moves and restores the position: what remains open for the
    specialised generators is only which pseudo-legal moves they contain. *)
Theorem C01_removeIllegal_sublist : forall zk p ml, emptyKeysZero zk -> WF p -> Consistent zk p ->
  (forall m, In m ml -> In m (pseudoLegalMoves p)) ->
  (forall m, In m (snd (removeIllegal zk p ml)) <-> In m ml /\ legal_spec (abs p) m) /\
  normEmpty (fst (removeIllegal zk p ml)) = normEmpty p.
Proof. exact removeIllegal_sublist. Qed.
Print Assumptions C01_removeIllegal_sublist.

(** C01_captures_complete: every move pseudoLegalCaptures generates is pseudo-legal; its
    legality-filtered list contains every legal move of its class (captures incl. en passant,
    promotions to queen or knight; rook/bishop under-promotions are outside the class by the
    generator's contract) and only legal moves; the position is restored. *)
Theorem C01_captures_complete : forall zk p m, emptyKeysZero zk -> WF p -> Consistent zk p ->
  (forall m', In m' (pseudoLegalCaptures p) -> In m' (pseudoLegalMoves p)) /\
  (legal_spec (abs p) m -> captureClass (abs p) m = true ->
   In m (snd (removeIllegal zk p (pseudoLegalCaptures p)))) /\
  (In m (snd (removeIllegal zk p (pseudoLegalCaptures p))) -> legal_spec (abs p) m) /\
  normEmpty (fst (removeIllegal zk p (pseudoLegalCaptures p))) = normEmpty p.
Proof. exact captures_complete. Qed.
Print Assumptions C01_captures_complete.

(** * All statements of C01 are proved (C01_givesCheck, the last open one, is at the end:
    its promotion, e.p. and castling branches are in Chess/GivesCheckPromo.v, GivesCheckEp.v,
    GivesCheckCastle.v, the rest is C01_givesCheck_partial). *)

(** C01_nodup: no duplicates in the pseudo-legal list of a well-formed position (distinct
    (from, to, promotion) inside each block; blocks told apart by the piece on the from-square,
    king step vs castling, pawn offset) *)
Theorem C01_nodup : forall p, WF p -> NoDup (pseudoLegalMoves p).
Proof. exact nodup_all. Qed.
Print Assumptions C01_nodup.

(** ... hence (filter equation of C01_legal_exact) none in the legal list removeIllegal computes:
    "generated legal moves = legal moves of chess, without duplicates" *)
Theorem C01_nodup_legal : forall zk p, emptyKeysZero zk -> WF p -> Consistent zk p ->
  NoDup (snd (removeIllegal zk p (pseudoLegalMoves p))).
Proof. exact nodup_legal. Qed.
Print Assumptions C01_nodup_legal.

(** C01_isLegal: for every move of any of the four generators, in every well-formed position
    (nothing assumed about hash / material fields), isLegal's verdict is the Spec's legality and
    the position is handed back unchanged.  Beyond C01_isLegal_partial: king moves when not in
    check (the attack test with the king lifted from the occupancy = the test on the board after
    the move; for castling: lifting the king cannot matter when it is not in check), and the
    "moves along the king's line" exit (the moved piece still shields the king; no other line
    through the king contains the from-square). *)
Theorem C01_isLegal : forall p m, WF p ->
    (In m (pseudoLegalMoves p) \/ In m (checkEvasions p) \/ In m (pseudoLegalCapturesAndChecks p) \/ In m (pseudoLegalCaptures p)) ->
    snd (isLegal p m (inCheck p)) = legal_specb (abs p) m /\ samePosition (fst (isLegal p m (inCheck p))) p.
Proof. exact isLegal_all. Qed.
Print Assumptions C01_isLegal.

(** every move of checkEvasions / pseudoLegalCapturesAndChecks is pseudo-legal (with
    C01_removeIllegal_sublist: removeIllegal keeps exactly their legal moves) *)
Theorem C01_generators_sub : forall p m, WF p ->
  (In m (checkEvasions p) -> In m (pseudoLegalMoves p)) /\
  (In m (pseudoLegalCapturesAndChecks p) -> In m (pseudoLegalMoves p)).
Proof. exact (fun p m H => conj (evasions_sub p H m) (capchecks_sub p H m)). Qed.
Print Assumptions C01_generators_sub.

(** the list removeIllegal computes depends neither on the Zobrist tables nor on the hash /
    material fields of the position (twin = the position with these fields recomputed): every
    statement about that list proved under C02's invariant holds without it *)
Theorem C01_removeIllegal_independent : forall zk p ml,
  snd (removeIllegal zk p ml) = snd (removeIllegal zkDummy (twin p) ml).
Proof. exact removeIllegal_twin. Qed.
Print Assumptions C01_removeIllegal_independent.

(** C01_legal_exact without any assumption on the Zobrist tables or the redundant fields: the
    legal list is exactly the set of legal moves, is the pseudo-legal list filtered by the
    Spec's legality, and has no duplicates *)
Theorem C01_legal_exact_any : forall zk p, WF p ->
  let r := removeIllegal zk p (pseudoLegalMoves p) in
  (forall m, In m (snd r) <-> legal_spec (abs p) m) /\
  snd r = filter (legal_specb (abs p)) (pseudoLegalMoves p) /\ NoDup (snd r).
Proof. exact legal_exact_any. Qed.
Print Assumptions C01_legal_exact_any.

(** C01_evasions_complete: when the side to move is in check, removeIllegal (checkEvasions p)
    is exactly the set of legal moves: every legal move is generated (king moves; a non-king
    move must capture the single checking piece or land between it and the king - validTargets -
    or be the e.p. capture, which is always generated; no castling in check; with two checking
    pieces only king moves), and only legal moves survive the filter. *)
Theorem C01_evasions_complete : forall zk p m, WF p -> inCheck p = true ->
    (In m (snd (removeIllegal zk p (checkEvasions p))) <-> legal_spec (abs p) m).
Proof. exact evasions_complete. Qed.
Print Assumptions C01_evasions_complete.

(** C01_captures_checks_complete: every legal move of the class of pseudoLegalCapturesAndChecks
    - captures incl. en passant, promotions to queen or knight, moves that give check (rook /
    bishop under-promotions are outside the class by the generator's contract) - is in the
    legality-filtered list, for any Zobrist tables and any redundant fields.  A quiet
    non-special move gives check iff it is a direct check (target in the king's rook / bishop /
    knight / pawn attack set) or a discovered check (from-square in the [discovered] set:
    C01-level characterisation from the proof of C01_givesCheck_partial); captures, promotions
    and castling are generated unconditionally. *)
Theorem C01_captures_checks_complete : forall zk p m, WF p -> legal_spec (abs p) m -> captureCheckClass (abs p) m = true ->
    In m (snd (removeIllegal zk p (pseudoLegalCapturesAndChecks p))).
Proof. exact captures_checks_complete. Qed.
Print Assumptions C01_captures_checks_complete.

(** C01_givesCheck, partial form: proved for every legal move that is not a promotion, not an
    en-passant capture and not castling - direct checks by the moved piece (rook / bishop /
    queen through nextPiece towards the king, knight by the direction code, pawn by the
    adjacent diagonal square; a king never checks) and discovered checks (the from-square leaves
    the line between the king and an own slider: nextPiece towards the king, nextPieceSafe away
    from it, and the move does not stay on that line).  nextPiece never leaves the board on
    these calls and its fuel suffices.  The promotion branch (check by the promoted piece, also
    along the pawn's own line), the e.p. discovered-check branches and the castling branch
    (check by the castled rook) are C01_givesCheck_special below. *)
Theorem C01_givesCheck_partial : forall p m, WF p -> legal_spec (abs p) m ->
  let w := whiteMove p in let pc := getPiece p (mfrom m) in
  mpromote m = EMPTY ->
  is_piece w Pawn pc && negb (zf (mto m) =? zf (mfrom m))%Z && (getPiece p (mto m) =? EMPTY) = false ->
  is_piece w King pc && (zf (mto m) - zf (mfrom m) =? 2)%Z = false ->
  is_piece w King pc && (zf (mto m) - zf (mfrom m) =? -2)%Z = false ->
  givesCheck p m = gives_check_spec (abs p) m.
Proof. exact givesCheck_partial. Qed.
Print Assumptions C01_givesCheck_partial.

(** the three special branches of givesCheck, each for every legal move of its kind:
    - promotions (with or without capture): check by the promoted piece from the target square,
      including along the line through the pawn's vacated from-square (third block of
      givesCheck), and discovered checks through the from-square;
    - en-passant captures: direct check by the capturing pawn, discovered check through the
      capturing pawn's square, through the captured pawn's square (a diagonal) and through both
      (the rank the two pawns shared: max/min walk);
    - castling: check by the castled rook along the home rank through the vacated king square
      or up its file; the king gives no check and nothing is uncovered. *)
Theorem C01_givesCheck_special : forall p m, WF p -> legal_spec (abs p) m ->
  let w := whiteMove p in let pc := getPiece p (mfrom m) in
  (mpromote m <> EMPTY -> givesCheck p m = gives_check_spec (abs p) m) /\
  (is_piece w Pawn pc && negb (zf (mto m) =? zf (mfrom m))%Z && (getPiece p (mto m) =? EMPTY) = true ->
     givesCheck p m = gives_check_spec (abs p) m) /\
  (is_piece w King pc && (zf (mto m) - zf (mfrom m) =? 2)%Z = true \/
   is_piece w King pc && (zf (mto m) - zf (mfrom m) =? -2)%Z = true ->
     givesCheck p m = gives_check_spec (abs p) m).
Proof.
  exact (fun p m H Hl => conj (givesCheck_promotion p m H Hl)
                              (conj (givesCheck_enpassant p m H Hl) (givesCheck_castling p m H Hl))).
Qed.
Print Assumptions C01_givesCheck_special.

(** C01_givesCheck: gives-check verdict for the moves the engine may play - for EVERY legal move
    of every well-formed position MoveGen::givesCheck answers exactly "the opponent's king is
    attacked on the Spec's board after the move" *)
Theorem C01_givesCheck : forall p m, WF p -> legal_spec (abs p) m -> givesCheck p m = gives_check_spec (abs p) m.
Proof. exact givesCheck_all. Qed.
Print Assumptions C01_givesCheck.

(** C01_wf_preserved: a legal move leads from a well-formed position to a well-formed position
    (for any Zobrist tables; nothing is assumed about the hash / material fields): bitboards
    agree with the board, one king each (a pseudo-move onto an occupied square attacks it, so
    no king can be captured in an accepted position), no pawn on ranks 1/8, the side that moved
    is not in check (= legality), castle flags kept only with king and rook at home
    (castleSqMask), e.p. square only behind a pawn that just made a double step. *)
Theorem C01_wf_preserved : forall zk p m, WF p -> legal_spec (abs p) m -> WF (fst (makeMove zk p m)).
Proof. exact wf_preserved. Qed.
Print Assumptions C01_wf_preserved.
