(** C01 — generated legal moves are exactly the legal moves of chess.  (work in progress) *)
From Coq Require Import ZArith NArith List Bool.
From Texel Require Import Chess.Types Chess.Spec.

Theorem C01_spec_reflect : forall sp m, legal_specb sp m = true <-> legal_spec sp m.
Proof. exact legal_specb_spec. Qed.
Print Assumptions C01_spec_reflect.
