(** C01 — generated legal moves are exactly the legal moves of chess.
    Only statements; every proof is [exact <lemma>].
    Model: Chess/BitBoard.v, Chess/MoveGen.v (+ Chess/Position.v), written like
    lib/texellib/bitBoard.{hpp,cpp} and moveGen.{hpp,cpp} over the tables regenerated into
    gen/BitBoardTables.v; tied to the code by the correspondence check (props/c01.py).
    Specification: Chess/Spec.v (mailbox-style FIDE rules). *)
From Coq Require Import ZArith NArith List Bool.
From Texel Require Import Chess.Types Chess.Position Chess.BitBoard Chess.MoveGen Chess.Spec Chess.MoveGenWF
  Chess.BitBoardProofs Chess.RayProofs Chess.MagicSweep Chess.MagicProofs Chess.MoveGenProofs Chess.AttackProofs
  Chess.SliderProofs Chess.PawnProofs Chess.PseudoProofs gen.BitBoardTables.
Import ListNotations.
Local Open Scope N_scope.

(** The tables computed in staticInitialize (same shift-and-mask formulas over the regenerated
    masks) equal their coordinate definitions for all 64 squares / 64x64 pairs; the regenerated
    literal dirTable gives getDirection its meaning; the de-Bruijn bit scan is the lowest-set-bit
    function for EVERY non-zero 64-bit word; [mask &= mask-1] removes exactly that bit. *)
Theorem C01_tables :
  (forall s, s < 64 ->
     kingAttacks s < 2 ^ 64 /\ knightAttacks s < 2 ^ 64 /\ wPawnAttacks s < 2 ^ 64 /\ bPawnAttacks s < 2 ^ 64) /\
  (forall s t, s < 64 -> t < 64 ->
     N.testbit (kingAttacks s) t = step_rel king_offsets s t /\
     N.testbit (knightAttacks s) t = step_rel knight_offsets s t /\
     N.testbit (wPawnAttacks s) t = step_rel wpawn_offsets s t /\
     N.testbit (bPawnAttacks s) t = step_rel bpawn_offsets s t) /\
  (forall f t, f < 8 -> t < 64 ->
     N.testbit (epMaskWF f) t = ((zr t =? 3) && (Z.abs (zf t - Z.of_N f) =? 1))%Z /\
     N.testbit (epMaskBF f) t = ((zr t =? 4) && (Z.abs (zf t - Z.of_N f) =? 1))%Z) /\
  (forall a b, a < 64 -> b < 64 ->
     squaresBetween a b < 2 ^ 64 /\
     (forall t, t < 64 -> N.testbit (squaresBetween a b) t = between_rel a b t) /\
     getDirection a b = dir_rel a b) /\
  (forall m, 0 < m -> m < 2 ^ 64 ->
     firstBitT m = firstBit m /\ N.testbit m (firstBit m) = true /\
     (forall i, N.testbit m i = true -> firstBit m <= i) /\
     (forall i, N.testbit (clearLowest m) i = N.testbit m i && negb (i =? firstBit m))) /\
  (forall i, i < 64 -> lastBitT (bit i) = i /\ lastBitT (N.ones (i + 1)) = i /\ bitCountT (N.ones (i + 1)) = i + 1).
Proof. exact tables_all. Qed.
Print Assumptions C01_tables.

(** Ray-walk lemma, for every occupancy word: a square is in the rook (bishop) attack set of s
    iff it is aligned with s and no square strictly between them is occupied; attack sets
    contain board squares only. *)
Theorem C01_rays : forall s t occ, s < 64 ->
  (t < 64 -> (N.testbit (rookAttacks s occ) t = true <->
              rookAligned s t = true /\ N.land (squaresBetween s t) occ = 0)) /\
  (t < 64 -> (N.testbit (bishopAttacks s occ) t = true <->
              bishopAligned s t = true /\ N.land (squaresBetween s t) occ = 0)) /\
  (N.testbit (rookAttacks s occ) t = true -> t < 64) /\
  (N.testbit (bishopAttacks s occ) t = true -> t < 64).
Proof. exact rays_all. Qed.
Print Assumptions C01_rays.

(** Magic tables: with the regenerated magic numbers and shift counts every square's table is
    built without a failed assert and without an index outside the table (the model returns
    None otherwise), and for EVERY occupancy word the table lookup equals the ray walk. *)
Theorem C01_magic : forall s occ, s < 64 ->
  rTableOf s <> None /\ bTableOf s <> None /\
  rookAttacksMagic s occ = rookAttacks s occ /\ bishopAttacksMagic s occ = bishopAttacks s occ.
Proof. exact magic_all. Qed.
Print Assumptions C01_magic.

(** The loops over set bits: a move is in the list built by
    [while (mask != 0) { sq = extractSquare(mask); addMovesByMask(list, sq, g(sq)); }]
    iff it was there before or it is (sq, t) for a set bit sq of mask and a set bit t of g(sq)
    (any 64-bit mask; the fuel of the model's loop always suffices). *)
Theorem C01_bit_loops : forall (g : square -> N) mask l0 m,
  mask < 2 ^ 64 -> (forall sq, sq < 64 -> g sq < 2 ^ 64) ->
  (In m (forSquares mask (fun l sq => addMovesByMask l sq (g sq)) l0) <->
   In m l0 \/ exists sq t, N.testbit mask sq = true /\ N.testbit (g sq) t = true /\ m = mkMove sq t EMPTY).
Proof. exact forSquares_moves_In. Qed.
Print Assumptions C01_bit_loops.

(** The engine's attack test = the Spec's, on every square of every well-formed position and
    for either side; hence "in check" means the same in both worlds. *)
Theorem C01_inCheck : forall p, WF p ->
  inCheck p = in_checkb (squares p) (whiteMove p) /\
  forall wtm sq, sq < 64 ->
    sqAttackedT wtm p sq (occupiedBB p) = attacked_by (squares p) (negb wtm) (zf sq) (zr sq).
Proof. exact (fun p H => conj (inCheck_spec p H) (fun wtm sq Hs => sqAttacked_spec p wtm sq H Hs)). Qed.
Print Assumptions C01_inCheck.

(** The same holds under the weaker [BoardOK] (bitboards agree with the board, piece codes in
    range), i.e. also for the position in the middle of removeIllegal's make / test / unmake,
    which need not be an accepted position: the king test there is the Spec's in_checkb. *)
Theorem C01_attack_test_general : forall p w, BoardOK p ->
  (forall sq, sq < 64 -> sqAttackedT w p sq (occupiedBB p) = attacked_by (squares p) (negb w) (zf sq) (zr sq)) /\
  ((exists s, s < 64 /\ getPiece p s = mk_piece w King) ->
   (forall s1 s2, s1 < 64 -> s2 < 64 -> getPiece p s1 = mk_piece w King -> getPiece p s2 = mk_piece w King -> s1 = s2) ->
   sqAttackedT w p (kingSq p w) (occupiedBB p) = in_checkb (squares p) w).
Proof. exact (fun p w H => conj (fun sq Hs => sqAttacked_spec_B p w sq H Hs) (kingAttacked_spec_B p w H)). Qed.
Print Assumptions C01_attack_test_general.

(** Every piece block of pseudoLegalMoves generates exactly the Spec's pseudo-moves of that
    piece kind (queen, rook, bishop, knight, king without castling, pawn incl. double push,
    en passant and the four promotions), for every well-formed position. *)
Theorem C01_piece_blocks : forall p m, WF p ->
  let w := whiteMove p in let b := squares p in
  let on k (moves : Z -> Z -> list move) :=
    exists f r, on_board f r = true /\ at_ b f r = mk_piece w k /\ In m (moves f r) in
  (In m (queenBlock w p []) <-> on Queen (fun f r => slider_moves b w f r (rook_dirs ++ bishop_dirs))) /\
  (In m (rookBlock w p []) <-> on Rook (fun f r => slider_moves b w f r rook_dirs)) /\
  (In m (bishopBlock w p []) <-> on Bishop (fun f r => slider_moves b w f r bishop_dirs)) /\
  (In m (knightBlock w p []) <-> on Knight (fun f r => step_moves b w f r knight_offsets)) /\
  (In m (kingBlock w p []) <-> on King (fun f r => step_moves b w f r king_offsets)) /\
  (In m (pawnBlock w p []) <-> on Pawn (fun f r => pawn_moves (abs p) f r)).
Proof.
  exact (fun p m H =>
    match slider_blocks_spec p m H, step_blocks_spec p m H with
    | conj HR (conj HB HQ), conj HN HK => conj HQ (conj HR (conj HB (conj HN (conj HK (pawnBlock_spec p m H)))))
    end).
Qed.
Print Assumptions C01_piece_blocks.

(** pseudoLegalMoves = the Spec's pseudo-moves as sets.  The only difference between the two
    notions of pseudo-legal is explicit: the engine's castling moves do not test the king's
    target square (the legality filter does); [pseudo_moves_engine] is the Spec's list with
    exactly that test removed ([castle_moves_pseudo]).  Consequently no legal move of chess
    is missing from the engine's pseudo-legal list. *)
Theorem C01_pseudo_exact : forall p m, WF p ->
  (In m (pseudoLegalMoves p) <-> In m (pseudo_moves_engine (abs p))) /\
  (In m (pseudo_moves (abs p)) -> In m (pseudoLegalMoves p)) /\
  (legal_spec (abs p) m -> In m (pseudoLegalMoves p)).
Proof. exact pseudo_exact_all. Qed.
Print Assumptions C01_pseudo_exact.

(** the relaxed castling list vs the Spec's: same moves, plus "target square not attacked" *)
Theorem C01_castling_relaxation : forall sp m,
  In m (castle_moves sp) <->
  In m (castle_moves_pseudo sp) /\
  let r := (if sp_white sp then 0 else 7)%Z in
  (m = mv 4 r 6 r EMPTY -> attacked_by (sp_board sp) (negb (sp_white sp)) 6 r = false) /\
  (m = mv 4 r 2 r EMPTY -> attacked_by (sp_board sp) (negb (sp_white sp)) 2 r = false).
Proof. exact castle_moves_relax. Qed.
Print Assumptions C01_castling_relaxation.

(** the Spec's boolean legality test reflects the relation; the Spec's move list is the set of
    legal moves *)
Theorem C01_spec_reflect : forall sp m,
  (legal_specb sp m = true <-> legal_spec sp m) /\ (In m (legal_moves_spec sp) <-> legal_spec sp m).
Proof. exact (fun sp m => conj (legal_specb_spec sp m) (legal_moves_spec_In sp m)). Qed.
Print Assumptions C01_spec_reflect.

(** * Full statements not (yet) proved: carried by the correspondence against the Spec

    What is proved above covers the pseudo-legal generator completely (C01_pseudo_exact), the
    attack / in-check test (C01_inCheck) and all table geometry.  C01_legal_exact then
    decomposes into two remaining links, both stated here:
      (a) the make/test/unmake path of removeIllegal gives the Spec's verdict
          (needs "squares after makeMove = board of make_spec", Position.v side), and
      (b) the king-ray shortcut of removeIllegal / isLegal agrees with (a) (level L5 of the
          proof plan, the only non-mechanical argument).
    They, the evasion / capture generators and givesCheck are tied to the Spec by the
    correspondence check on every run. *)

(** (a): for a pseudo-legal move, playing it and testing the mover's king = Spec verdict,
    and the position is restored *)
Definition C01_tryMove_statement : Prop :=
  forall zk p m, WF p -> In m (pseudoLegalMoves p) ->
    snd (tryMove zk p m) = negb (in_checkb (sp_board (make_spec (abs p) m)) (whiteMove p)) /\
    samePosition (fst (tryMove zk p m)) p.

(** (b): removeIllegal computes the same list as the filter that always plays the move *)
Definition C01_shortcut_statement : Prop :=
  forall zk p, WF p ->
    snd (removeIllegal zk p (pseudoLegalMoves p)) =
    filter (fun m => snd (tryMove zk p m)) (pseudoLegalMoves p).

(** generated legal moves = legal moves of chess, without duplicates; the position is restored *)
Definition C01_legal_exact_statement : Prop :=
  forall zk p, WF p ->
    let r := removeIllegal zk p (pseudoLegalMoves p) in
    NoDup (snd r) /\ (forall m, In m (snd r) <-> legal_spec (abs p) m) /\ samePosition (fst r) p.

Definition C01_isLegal_statement : Prop :=
  forall p m, WF p ->
    (In m (pseudoLegalMoves p) \/ In m (checkEvasions p) \/ In m (pseudoLegalCapturesAndChecks p) \/ In m (pseudoLegalCaptures p)) ->
    snd (isLegal p m (inCheck p)) = legal_specb (abs p) m /\ samePosition (fst (isLegal p m (inCheck p))) p.

Definition C01_evasions_complete_statement : Prop :=
  forall zk p m, WF p -> inCheck p = true ->
    (In m (snd (removeIllegal zk p (checkEvasions p))) <-> legal_spec (abs p) m).

Definition C01_captures_complete_statement : Prop :=
  forall zk p m, WF p -> legal_spec (abs p) m -> captureClass (abs p) m = true ->
    In m (snd (removeIllegal zk p (pseudoLegalCaptures p))).

Definition C01_captures_checks_complete_statement : Prop :=
  forall zk p m, WF p -> legal_spec (abs p) m -> captureCheckClass (abs p) m = true ->
    In m (snd (removeIllegal zk p (pseudoLegalCapturesAndChecks p))).

(** gives-check verdict for the moves the engine may play (legal moves) *)
Definition C01_givesCheck_statement : Prop :=
  forall p m, WF p -> legal_spec (abs p) m -> givesCheck p m = gives_check_spec (abs p) m.

Definition C01_wf_preserved_statement : Prop :=
  forall zk p m, WF p -> legal_spec (abs p) m -> WF (fst (makeMove zk p m)).
