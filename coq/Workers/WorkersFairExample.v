(** C10 — non-vacuity of the progress theorem: a concrete weakly fair infinite execution
    (N = 2, chain 0 - 1 - 2) that goes through a complete search and stop round and then idles. *)
From Coq Require Import ZArith List Bool Arith Lia.
From Texel Require Import Workers.Workers Workers.WorkersLemmas Workers.WorkersInv Workers.WorkersTheorems
  Workers.WorkersLive Workers.WorkersExamples Workers.WorkersMeasureProofs Workers.WorkersFair.
Import ListNotations.

(** the barrier schedule of WorkersExamples, then: barrier passed, final notify, search :=
    false, the engine thread re-reads its flags and blocks; the helpers consume their last
    notifications and block *)
Definition ex_fair_sched : list label :=
  ex_barrier_sched ++
  [LT 0 APollEmpty; LT 0 ANotifySelf; LT 0 AClear; LT 0 AWait; LT 0 ARdQuit; LT 0 ARdSearch;
   LT 2 AWait; LT 2 APollEmpty; LT 1 AWait; LT 1 APollEmpty].

Fixpoint exec_from (s : state) (ls : list label) (i : nat) : state :=
  match i, ls with
  | S i', lb :: r => match lstep 2 ex_parent s lb with Some s' => exec_from s' r i' | None => s end
  | _, _ => s
  end.
(** after the schedule the UCI thread repeats "stop" (a no-op) for ever *)
Definition ex_fair_exec (i : nat) : state := exec_from init ex_fair_sched i.

Lemma exec_from_ge : forall ls s i, length ls <= i -> exec_from s ls i = exec_from s ls (length ls).
Proof.
  induction ls as [|lb r IH]; intros s i H.
  - destruct i; reflexivity.
  - destruct i; [simpl in H; lia|]. simpl. destruct (lstep 2 ex_parent s lb); auto.
    apply IH. simpl in H. lia.
Qed.

Lemma exec_from_step : forall ls s s', run 2 ex_parent s ls = Some s' ->
  forall i, i < length ls ->
  exists lb, lstep 2 ex_parent (exec_from s ls i) lb = Some (exec_from s ls (S i)).
Proof.
  induction ls as [|lb r IH]; intros s s' H i Hi; [simpl in Hi; lia|].
  simpl in H. destruct (lstep 2 ex_parent s lb) as [s1|] eqn:E; [|discriminate].
  destruct i.
  - exists lb. simpl. rewrite E. destruct r; reflexivity.
  - simpl in Hi. destruct (IH s1 s' H i ltac:(lia)) as (lb' & Hlb). exists lb'.
    change (exec_from s (lb :: r) (S i)) with
      (match lstep 2 ex_parent s lb with Some s' => exec_from s' r i | None => s end).
    change (exec_from s (lb :: r) (S (S i))) with
      (match lstep 2 ex_parent s lb with Some s' => exec_from s' r (S i) | None => s end).
    rewrite E. exact Hlb.
Qed.

Lemma ex_final_quiet : forall t i, t <= 2 -> length ex_fair_sched <= i ->
  ~ can_progress 2 ex_parent (ex_fair_exec i) t.
Proof.
  intros t i Ht Hi (a & s' & H & Hn). unfold ex_fair_exec in H.
  rewrite (exec_from_ge _ _ i Hi) in H.
  assert (t = 0 \/ t = 1 \/ t = 2) as [-> | [-> | ->]] by lia;
    destruct a; vm_compute in H; discriminate.
Qed.

Example ex_fair_execution :
  reach 2 ex_parent (ex_fair_exec 0) /\ execution 2 ex_parent ex_fair_exec /\
  weakly_fair 2 ex_parent ex_fair_exec /\
  Stop (ex_fair_exec 15) /\ master_idle (ex_fair_exec 30).
Proof.
  split; [apply reach_init|]. split; [|split; [|split]].
  - intros i. destruct (Nat.lt_ge_cases i (length ex_fair_sched)) as [Hi|Hi].
    + destruct (run 2 ex_parent init ex_fair_sched) as [s'|] eqn:E; [|vm_compute in E; discriminate].
      apply (exec_from_step _ _ _ E i Hi).
    + exists (LE EUnponder). unfold ex_fair_exec.
      rewrite (exec_from_ge _ _ i Hi), (exec_from_ge _ _ (S i)) by lia.
      vm_compute. reflexivity.
  - intros t i Ht. exists (i + length ex_fair_sched). split; [lia|]. left.
    apply (ex_final_quiet t (i + length ex_fair_sched) Ht). lia.
  - vm_compute. reflexivity.
  - vm_compute. reflexivity.
Qed.
