(** Global versions of the proof tactics (the ones inside WorkersInvProofs' section are local). *)
From Coq Require Import ZArith List Bool Arith Lia.
From Texel Require Import Workers.Workers Workers.WorkersLemmas Workers.WorkersInv Workers.WorkersInvFacts.
Import ListNotations.

Ltac phase_facts' I :=
  let ph := fresh "ph" in let E1 := fresh "Eph" in let E2 := fresh "Eeq" in
  destruct (e_phase _ _ _ I) as (ph & E1 & E2);
  match goal with Hpc : pc (th _ 0) = _ |- _ => rewrite Hpc in E1 end; simpl in E1;
  repeat match type of E1 with context [match ?x with _ => _ end] => destruct x; try discriminate end;
  try discriminate; injection E1 as <-; simpl in E2.

Ltac use_eqs :=
  repeat match goal with
  | Hpc : pc (th _ _) = _ |- _ => rewrite Hpc in *
  | Hq : qu _ _ = _ |- _ => rewrite Hq in *
  end.

Ltac boolfacts :=
  repeat match goal with
  | H : (_ =? _)%Z = true |- _ => apply Z.eqb_eq in H
  | H : (_ =? _)%Z = false |- _ => apply Z.eqb_neq in H
  | H : _ && _ = true |- _ => apply andb_prop in H; destruct H
  | H : negb _ = true |- _ => apply negb_true_iff in H
  | H : negb _ = false |- _ => apply negb_false_iff in H
  end.

Ltac stop_facts I :=
  match goal with
  | Hq : qu ?s0 (S ?c) = CStop :: _, Hp : ?parent (S ?c) = Some ?p,
    Hl : Nat.leb (S ?c) ?N = true, Ht : tree_ok ?N ?parent |- _ =>
      destruct (stop_head_lag N parent Ht s0 (S c) p _ I (helper_leb N _ Hl) Hp Hq)
        as (? & ? & ? & ? & ?)
  end.

Ltac sendack_facts I :=
  match goal with
  | Hpc : pc (th ?s0 (S ?t)) = PSend (CStopAck _) _ , Hl : Nat.leb (S ?t) ?N = true |- _ =>
      let X := fresh in pose proof (e_a2 _ _ _ I (S t) (helper_leb N _ Hl)) as X; rewrite Hpc in X;
      specialize (X eq_refl); destruct X as (? & ? & ?)
  | Hpc : pc (th ?s0 (S ?t)) = PSendW _ , Hl : Nat.leb (S ?t) ?N = true |- _ =>
      let X := fresh in pose proof (e_a2 _ _ _ I (S t) (helper_leb N _ Hl)) as X; rewrite Hpc in X;
      specialize (X eq_refl); destruct X as (? & ? & ?)
  end.

Ltac pcs_facts I :=
  match goal with
  | Hpc : pc (th ?s0 (S ?t)) = PSend _ _, Hl : Nat.leb (S ?t) ?N = true |- _ =>
      let X := fresh "Hpcs" in
      pose proof (e_pcs _ _ _ I (S t) (proj1 (Nat.leb_le _ _) Hl)) as X; rewrite Hpc in X; simpl in X;
      try contradiction; try subst
  | Hpc : pc (th ?s0 (S ?t)) = PSendW _, Hl : Nat.leb (S ?t) ?N = true |- _ =>
      let X := fresh "Hpcs" in
      pose proof (e_pcs _ _ _ I (S t) (proj1 (Nat.leb_le _ _) Hl)) as X; rewrite Hpc in X; simpl in X;
      try discriminate; try (injection X as ->)
  end.

Ltac spec_fwd H :=
  first [ specialize (H eq_refl)
        | specialize (H (or_introl eq_refl))
        | specialize (H (or_intror (ex_intro _ _ eq_refl)))
        | clear H ].

Ltac fwd_facts I :=
  match goal with
  | Hpc : pc (th ?s0 0) = PFwd ?w ?k ?rest, Hm : mem_tid ?x ?rest = true,
    Ht : tree_ok ?N ?parent |- _ =>
      let A := fresh "Fh" in let B := fresh "Fp" in let C := fresh "Fne" in
      let D := fresh "Fpg" in let E := fresh "Fst" in let F := fresh "Fss" in
      destruct (fwd_push_facts N parent Ht s0 0 w k rest x I (Nat.le_0_l _) Hpc Hm)
        as (A & B & C & D & E & F);
      spec_fwd D; spec_fwd E; spec_fwd F
  | Hpc : pc (th ?s0 (S ?t)) = PFwd ?w ?k ?rest, Hm : mem_tid ?x ?rest = true,
    Hl : Nat.leb (S ?t) ?N = true, Ht : tree_ok ?N ?parent |- _ =>
      let A := fresh "Fh" in let B := fresh "Fp" in let C := fresh "Fne" in
      let D := fresh "Fpg" in let E := fresh "Fst" in let F := fresh "Fss" in
      destruct (fwd_push_facts N parent Ht s0 (S t) w k rest x I (proj1 (Nat.leb_le _ _) Hl) Hpc Hm)
        as (A & B & C & D & E & F);
      spec_fwd D; spec_fwd E; spec_fwd F
  end.

Ltac ack_facts I :=
  match goal with
  | Hq : qu ?s0 0 = CStopAck ?f :: ?l |- _ =>
      destruct (ack_head_facts _ _ s0 0 f l I (Nat.le_0_l _) Hq) as (? & ? & ? & ? & ? & ? & ? & ?)
  | Hq : qu ?s0 (S ?t) = CStopAck ?f :: ?l, Hl : Nat.leb (S ?t) ?N = true |- _ =>
      destruct (ack_head_facts _ _ s0 (S t) f l I (proj1 (Nat.leb_le _ _) Hl) Hq)
        as (? & ? & ? & ? & ? & ? & ? & ?)
  end.

Ltac dmatch :=
  repeat match goal with
  | |- context [match ?x with _ => _ end] => destruct x
  | H : context [match ?x with _ => _ end] |- _ => destruct x
  end.

Ltac fwd_mem :=
  repeat match goal with
  | E : remove_tid ?x ?rest = [], Hne : ?c <> ?x, S1 : context [mem_tid ?c ?rest] |- _ =>
      rewrite (remove_nil_mem c x rest E Hne) in S1
  | E : remove_tid ?x ?rest = ?a :: ?l, Hne : ?c <> ?x |- context [mem_tid ?c (?a :: ?l)] =>
      rewrite <- E, (mem_remove_other c x rest Hne)
  | E : remove_tid ?x ?rest = ?a :: ?l |- context [mem_tid ?x (?a :: ?l)] =>
      rewrite <- E, (mem_remove_same x rest)
  end.
