(** C10 — the theorems about the search-control protocol, for every number of helpers, every
    communicator tree createWorkers can build, and every schedule (= every path of the LTS). *)
From Coq Require Import ZArith List Bool Arith Lia.
From Texel Require Import Workers.Workers Workers.WorkersLemmas Workers.WorkersInv
  Workers.WorkersInvProofs Workers.WorkersInvMain Workers.WorkersTac
  Workers.WorkersJob Workers.WorkersJobProofs Workers.WorkersWake Workers.WorkersWakeProofs.
Import ListNotations.

Section T.
Variable N : nat.
Variable parent : tid -> option tid.
Hypothesis Htree : tree_ok N parent.
Notation lstep := (lstep N parent).
Notation helper := (helper N).

(** reachable states: any finite sequence of thread / environment transitions from [init] *)
Inductive reach : state -> Prop :=
| reach_init : reach init
| reach_step : forall s lb s', reach s -> lstep s lb = Some s' -> reach s'.

Definition Inv (s : state) : Prop := InvE N parent s /\ InvJ N s /\ InvL N s.

Lemma Inv_init : Inv init.
Proof. split; [apply InvE_init | split; [apply InvJ_init | apply (InvL_init N parent)]]. Qed.

Lemma Inv_step : forall s lb s', Inv s -> lstep s lb = Some s' -> Inv s'.
Proof.
  intros s lb s' (I & J & L) H. split; [|split].
  - eapply InvE_step; eauto.
  - eapply InvJ_step; eauto.
  - eapply InvL_step; eauto.
Qed.

Theorem reach_inv : forall s, reach s -> Inv s.
Proof. induction 1; [apply Inv_init | eapply Inv_step; eauto]. Qed.

Lemma run_reach : forall ls s s', reach s -> run N parent s ls = Some s' -> reach s'.
Proof.
  induction ls as [|lb ls IH]; simpl; intros s s' R H.
  - now injection H as <-.
  - destruct (lstep s lb) as [s0|] eqn:E; [|discriminate]. apply (IH s0 s'); auto. eapply reach_step; eauto.
Qed.

(** ---- states of interest ---- *)

(** the engine thread is outside doSearch's search/stop part: before a search starts, or after
    the stop-ack barrier (incl. the final notify / clearing of [search]), or quitting *)
Definition master_idle (s : state) : Prop := mphase (pc (th s 0)) = Some PhIdle.
(** the engine thread is in iterativeDeepening *)
Definition master_searching (s : state) : Prop := mphase (pc (th s 0)) = Some PhSearch.

(** p's view: child c (i.e. the subtree below c) has not been acknowledged in p's current round *)
Definition unacked (s : state) (p c : tid) : bool := pendingb s p c.

(** what may still sit in a mailbox when nothing is going on *)
Definition quit_only (m : cmd) : Prop := m = CQuit \/ exists f, m = CQuitAck f.

(** helper c neither holds nor is about to get a job, and owes no acknowledgement *)
Definition helper_idle (s : state) (c : tid) : Prop :=
  job (th s c) = (-1)%Z /\ self (th s c) = false /\ wc (th s c) = 0%Z /\
  (forall m, In m (qu s c) -> quit_only m) /\
  sendack (pc (th s c)) = false /\ instop (pc (th s c)) = false /\
  (forall w k rest, pc (th s c) = PFwd w k rest -> w = FQuit) /\
  (forall j sd f k, pc (th s c) <> PSend (CReport j sd f) k).

(** ---- C10_acks_exact ---- *)

Theorem acks_exact_inv : forall s, Inv s ->
  (* every stop-ack counter is exactly the number of children not yet acknowledged *)
  (forall p, p <= N ->
     wc (th s p) = Z.of_nat (length (filter (unacked s p) (children N parent p))) /\
     (0 <= wc (th s p))%Z) /\
  (* when the engine thread finds its counters zero at the barrier test, every helper has
     acknowledged the current round *)
  (pc (th s 0) = PPoll KAck -> hasStopAck (th s 0) = true ->
     forall c, helper c -> ae (th s c) = se (th s 0) /\ se (th s c) = se (th s 0) /\
                           self (th s c) = false /\ wc (th s c) = 0%Z /\
                           (job (th s c) = (-1)%Z)).
Proof.
  intros s (I & J & L). split.
  - intros p Hp. pose proof (e_w1 _ _ _ I p Hp) as W. unfold npending in W. split; [exact W|lia].
  - intros Hpc Hb c Hc. apply andb_prop in Hb. destruct Hb as (Hw & _). apply Z.eqb_eq in Hw.
    destruct (barrier_all N parent Htree s I Hw c c (le_n _) Hc) as (A & B).
    destruct (e_a1 _ _ _ I c Hc ltac:(lia)) as (S1 & W1 & K1 & K2).
    repeat split; auto.
    destruct (Z.eq_dec (job (th s c)) (-1)) as [|Hne]; auto. exfalso.
    destruct (j_j1 _ _ J c Hc Hne) as ([X|X] & _); [|congruence].
    destruct (e_phase _ _ _ I) as (ph & E1 & E2). rewrite Hpc in E1. injection E1 as <-.
    simpl in E2. lia.
Qed.

(** ---- C10_no_stale_search ---- *)

Lemma idle_epochs : forall s, InvE N parent s -> master_idle s ->
  sid s = ae (th s 0) /\ se (th s 0) = ae (th s 0) /\ nbest s = sid s.
Proof.
  intros s I Hm. destruct (e_phase _ _ _ I) as (ph & E1 & E2). unfold master_idle in Hm.
  rewrite Hm in E1. injection E1 as <-. simpl in E2. lia.
Qed.

Lemma in_stops_pos : forall l, In CStop l -> 1 <= stops l.
Proof.
  induction l as [|m l IH]; simpl; intros H; [tauto|]. rewrite stops_cons.
  destruct H as [->|H]; simpl; [lia|]. specialize (IH H). lia.
Qed.

Lemma rep_ok_in : forall a sv l j sd f, rep_ok a sv l -> In (CReport j sd f) l ->
  a f < sd + acks f l /\ sd <= sv /\ (1 <= j)%Z.
Proof.
  induction l as [|m l IH]; simpl; intros j sd f R Hin; [tauto|].
  destruct Hin as [->|Hin].
  - destruct R as ((R1 & R2 & R3) & _). rewrite acks_cons. simpl. repeat split; auto; lia.
  - assert (R' : rep_ok a sv l) by (destruct m; simpl in R; tauto).
    destruct (IH j sd f R' Hin) as (A & B & C). rewrite acks_cons. repeat split; auto; lia.
Qed.

(** in the idle phase no mailbox holds a result or a stop acknowledgement ... *)
Lemma idle_no_result : forall s t m, Inv s -> master_idle s -> t <= N -> In m (qu s t) ->
  (forall j sd f, m <> CReport j sd f) /\ (forall f, m <> CStopAck f).
Proof.
  intros s t m (I & J & L) Hm Ht Hin.
  destruct (idle_epochs s I Hm) as (E1 & E2 & E3).
  assert (Hack : forall f, helper f -> parent f = Some t -> 1 <= acks f (qu s t) -> False).
  { intros f Hf Hp Ha. pose proof (e_w3 _ _ _ I f t Hf Hp Ha).
    destruct (quiet_all N parent s I E2 f Hf). lia. }
  split.
  - intros j sd f ->. destruct (e_snd _ _ _ I t _ Ht Hin) as (Hp & Hf).
    destruct (rep_ok_in _ _ _ _ _ _ (j_rep _ _ J t Ht) Hin) as (A & B & _).
    destruct (quiet_all N parent s I E2 f Hf). apply (Hack f Hf Hp). lia.
  - intros f ->. destruct (e_snd _ _ _ I t _ Ht Hin) as (Hp & Hf).
    apply (Hack f Hf Hp). now apply in_acks_pos.
Qed.

(** ... and a helper's mailbox holds nothing but quit traffic *)
Lemma idle_helper_queue : forall s c m, Inv s -> master_idle s -> helper c -> In m (qu s c) ->
  quit_only m.
Proof.
  intros s c m (I & J & L) Hm Hc Hin.
  destruct (idle_epochs s I Hm) as (E1 & E2 & E3).
  destruct (quiet_all N parent s I E2 c Hc) as (Q1 & Q2).
  destruct (idle_no_result s c m (conj I (conj J L)) Hm (helper_le _ _ Hc) Hin) as (NR & NA).
  destruct m; unfold quit_only; eauto; exfalso.
  - pose proof (e_j2 _ _ _ I c CInit Hc Hin (or_introl eq_refl)). lia.
  - pose proof (e_j2 _ _ _ I c (CStart j) Hc Hin (or_intror (ex_intro _ j eq_refl))). lia.
  - destruct (Htree c Hc) as (p & Hp & _).
    pose proof (e_s1 _ _ _ I c p Hc Hp) as S1. pose proof (in_stops_pos _ Hin).
    destruct (parent_le N parent Htree c p Hc Hp) as (HpN & _).
    destruct (e_g1 _ _ _ I p HpN). lia.
  - eapply NR; eauto.
  - eapply NA; eauto.
Qed.

Theorem no_stale_search_inv : forall s, Inv s -> master_idle s ->
  forall c, helper c -> helper_idle s c.
Proof.
  intros s HI Hm c Hc. destruct HI as (I & J & L).
  destruct (idle_epochs s I Hm) as (E1 & E2 & E3).
  destruct (quiet_all N parent s I E2 c Hc) as (Q1 & Q2).
  destruct (e_a1 _ _ _ I c Hc ltac:(lia)) as (A1 & A2 & A3 & A4).
  unfold helper_idle. repeat split; auto.
  - apply (idle_nojob N parent s c I J Hc E1).
  - intros m Hin. apply (idle_helper_queue s c m (conj I (conj J L)) Hm Hc Hin).
  - intros w k rest Hpc. destruct w; auto; exfalso.
    + pose proof (e_j3 _ _ _ I c _ _ _ (helper_le _ _ Hc) Hpc (or_introl eq_refl)). lia.
    + pose proof (e_j3 _ _ _ I c _ _ _ (helper_le _ _ Hc) Hpc (or_intror (ex_intro _ j eq_refl))). lia.
    + rewrite Hpc in A4. discriminate.
  - intros j sd f k Hpc. destruct (j_psend _ _ J c j sd f k Hc Hpc) as (_ & X & _). lia.
Qed.

(** ---- C10_result_current_job ---- *)

(** the result the engine thread is about to take from its mailbox while searching belongs to
    the current search; it is accepted (HelperThreadResult) iff its jobId is the current one *)
Theorem result_current_job_inv : forall s j sd f r, Inv s -> master_searching s ->
  qu s 0 = CReport j sd f :: r ->
  sd = sid s /\ (1 <= j)%Z /\ helper f /\ parent f = Some 0.
Proof.
  intros s j sd f r (I & J & L) Hm Hq.
  destruct (e_phase _ _ _ I) as (ph & E1 & E2). unfold master_searching in Hm.
  rewrite Hm in E1. injection E1 as <-. simpl in E2.
  destruct (report_current N parent s 0 j sd f r I J (Nat.le_0_l _) Hq ltac:(lia))
    as (A & B & C & D & E). auto.
Qed.

(** ---- C10_one_bestmove ---- *)

Theorem one_bestmove_inv : forall s, Inv s ->
  nbest s <= sid s <= S (nbest s) /\
  (master_idle s -> nbest s = sid s) /\
  (master_searching s -> S (nbest s) = sid s).
Proof.
  intros s (I & J & L).
  destruct (e_phase _ _ _ I) as (ph & E1 & E2).
  unfold master_idle, master_searching. rewrite E1.
  destruct ph; simpl in E2; repeat split; try lia; intros X; try discriminate; lia.
Qed.

(** ---- C10_no_lost_wakeup ---- *)

Theorem no_lost_wakeup_inv : forall s, Inv s ->
  (* a helper blocked in threadNotifier.wait() with work to do has its flag set *)
  (forall c, helper c -> pc (th s c) = PWait KMain ->
     (qu s c <> [] \/ job (th s c) <> (-1)%Z \/ self (th s c) = true) -> flag s c = true) /\
  (* the engine thread blocked in the ack / quit loops with a non-empty mailbox has its flag set *)
  ((pc (th s 0) = PWait KAck \/ pc (th s 0) = PWait KQuit) -> qu s 0 <> [] -> flag s 0 = true) /\
  (* the engine thread blocked in mainLoop with a search or quit request pending has its flag
     set, or the UCI thread is just about to call notify *)
  (pc (th s 0) = PWait KTop -> (search s = true \/ quitf s = true) ->
     flag s 0 = true \/ epc s <> EIdle).
Proof.
  intros s (I & J & L). repeat split.
  - intros c Hc Hpc [Hq|[Hj|Hs]].
    + destruct (l_q _ _ L c Hc Hq) as [F|F]; auto. rewrite Hpc in F. discriminate.
    + destruct (l_wait _ _ L c Hc (or_introl Hpc)) as (_ & F). auto.
    + destruct (l_wait _ _ L c Hc (or_introl Hpc)) as (F & _). congruence.
  - apply (l_mq _ _ L).
  - apply (l_mtop _ _ L).
Qed.

(** ---- the same statements for reachable states ---- *)
Definition acks_exact s (R : reach s) := acks_exact_inv s (reach_inv s R).
Definition no_stale_search s (R : reach s) := no_stale_search_inv s (reach_inv s R).
Definition result_current_job s j sd f r (R : reach s) := result_current_job_inv s j sd f r (reach_inv s R).
Definition one_bestmove s (R : reach s) := one_bestmove_inv s (reach_inv s R).
Definition no_lost_wakeup s (R : reach s) := no_lost_wakeup_inv s (reach_inv s R).

(** states reachable from an arbitrary start state *)
Inductive reachF (s0 : state) : state -> Prop :=
| reachF_refl : reachF s0 s0
| reachF_step : forall s lb s', reachF s0 s -> lstep s lb = Some s' -> reachF s0 s'.

Lemma reachF_inv : forall s0 s, Inv s0 -> reachF s0 s -> Inv s.
Proof. induction 2; auto. eapply Inv_step; eauto. Qed.

End T.
