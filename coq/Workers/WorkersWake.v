(** C10 — no lost wake-up: invariant [InvL] about notifier flags (self-contained). *)
From Coq Require Import ZArith List Bool Arith Lia.
From Texel Require Import Workers.Workers Workers.WorkersLemmas Workers.WorkersInv Workers.WorkersJob.
Import ListNotations.

(** the helper is inside mainLoop's comm->poll(handler): queued commands will be seen without
    a further notification *)
Definition inmainpoll (pcv : pcT) : bool :=
  match pcv with
  | PPoll KMain | PFwd _ KMain _ | PStopNotify KMain | PSend _ KMain => true
  | _ => false
  end.

(** the engine thread is inside doSearch (or about to clear [search]) *)
Definition mbusy (pcv : pcT) : bool :=
  match pcv with
  | PWait KTop | MRdQuit | MRdSearch | PExit | PWait KQuit | PPoll KQuit | PFwd FQuit KQuit _ => false
  | _ => true
  end.

Section Inv.
Variable N : nat.
Variable parent : tid -> option tid.

Record InvL (s : state) : Prop := {
  l_q : forall c, helper N c -> qu s c <> [] ->
          flag s c = true \/ inmainpoll (pc (th s c)) = true;
  l_srch : forall c j, helper N c -> ctx_of (pc (th s c)) = Some (KSearch j) ->
          (job (th s c) <> j \/ pc (th s c) <> PPoll (KSearch j)) -> flag s c = true;
  l_wait : forall c, helper N c ->
          (pc (th s c) = PWait KMain \/ exists m, pc (th s c) = PSendW m) ->
          self (th s c) = false /\ (job (th s c) <> (-1)%Z -> flag s c = true);
  l_mq : (pc (th s 0) = PWait KAck \/ pc (th s 0) = PWait KQuit) -> qu s 0 <> [] -> flag s 0 = true;
  l_mtop : pc (th s 0) = PWait KTop -> (search s = true \/ quitf s = true) ->
          flag s 0 = true \/ epc s <> EIdle;
  l_mrd : pc (th s 0) = MRdSearch -> quitf s = true -> flag s 0 = true \/ epc s <> EIdle;
  l_sq : search s = true -> quitf s = false;
  l_busy : mbusy (pc (th s 0)) = true -> search s = true
}.
End Inv.
