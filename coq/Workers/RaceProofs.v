(** C09 — the one-pass race decision procedure [raceb] decides [race]. *)
From Coq Require Import List Bool Arith Lia Relations Relation_Operators Operators_Properties.
From Texel Require Import Workers.Race.
Import ListNotations.

Lemma mem_nat_In : forall x l, mem_nat x l = true <-> In x l.
Proof.
  intros; unfold mem_nat. rewrite existsb_exists. split.
  - intros (y & Hy & E). apply Nat.eqb_eq in E. now subst.
  - intros H; exists x; split; auto. apply Nat.eqb_refl.
Qed.
Lemma mem_mutex_In : forall x l, mem_mutex x l = true <-> In x l.
Proof.
  intros; unfold mem_mutex. rewrite existsb_exists. split.
  - intros (y & Hy & E). apply mutex_eqb_eq in E. now subst.
  - intros H; exists x; split; auto. now apply mutex_eqb_eq.
Qed.

Section S.
Variable tr : list tev.
Notation at_ := (at_ tr).
Notation hb := (hb tr).
Notation edge := (edge tr).

Lemma edge_lt : forall i j, edge i j -> i < j.
Proof. intros i j [[H _]|[[H _]|[H _]]]; auto. Qed.
Lemma hb_lt : forall i j, hb i j -> i < j.
Proof. induction 1; [now apply edge_lt | lia]. Qed.

(** last-step decomposition *)
Lemma hb_last : forall i k, hb i k -> exists m, (m = i \/ hb i m) /\ edge m k.
Proof.
  intros i k H. apply clos_trans_tn1 in H. inversion H; subst.
  - exists i; auto.
  - exists y. split; auto. right. now apply clos_tn1_trans.
Qed.

Lemma mem_loc_In : forall x l, mem_loc x l = true <-> In x l.
Proof.
  intros; unfold mem_loc. rewrite existsb_exists. split.
  - intros (y & Hy & E). apply loc_eqb_eq in E. now subst.
  - intros H; exists x; split; auto. now apply loc_eqb_eq.
Qed.
Lemma In_rm_loc : forall x y l, In y (rm_loc x l) <-> In y l /\ y <> x.
Proof.
  intros. unfold rm_loc. rewrite filter_In. destruct (loc_eqb x y) eqn:E; simpl.
  - apply loc_eqb_eq in E. subst. intuition congruence.
  - assert (y <> x) by (intros ->; rewrite (proj2 (loc_eqb_eq x x) eq_refl) in E; discriminate). intuition.
Qed.
Lemma writes_store : forall l t l0 kd, writes l (Acc t l0 true kd) = true <-> l0 = l.
Proof. intros. simpl. apply loc_eqb_eq. Qed.

Section From.
Variable i : nat.

Definition R (m : nat) : Prop := m = i \/ hb i m.

Definition sets_ok (k : nat) (st : sets) : Prop :=
  (forall t, In t (s_ts st) <-> exists m e, i <= m < k /\ at_ m = Some e /\ ev_tid e = t /\ R m) /\
  (forall x, In x (s_ms st) <-> exists m t, i <= m < k /\ at_ m = Some (Rel t x) /\ R m) /\
  (forall l, In l (s_ls st) <-> exists m t, i <= m < k /\ at_ m = Some (Acc t l true Atomic) /\ R m /\
                               forall k' e, m < k' < k -> at_ k' = Some e -> writes l e = false).

Lemma R_edge : forall m k, R m -> edge m k -> hb i k.
Proof.
  intros m k [->|H] E; [apply t_step; auto | eapply t_trans; [exact H | apply t_step; auto]].
Qed.

Lemma reached_spec : forall k st e, sets_ok k st -> at_ k = Some e -> i < k ->
  (reachedb st e = true <-> hb i k).
Proof.
  intros k st e (HT & HM & HL) He Hik. unfold reachedb. rewrite orb_true_iff. split.
  - intros [H|H].
    + apply mem_nat_In, HT in H. destruct H as (m & e' & Hm & He' & Et & Hr).
      apply (R_edge m k Hr). left. split; [lia|]. exists e', e. auto.
    + destruct e as [t l w kd|t m|t m]; try discriminate.
      * destruct w; try discriminate. destruct kd; try discriminate.
        apply mem_loc_In, HL in H. destruct H as (m & t' & Hm & He' & Hr & Hnw).
        apply (R_edge m k Hr). right. right. split; [lia|]. exists t', t, l. auto.
      * apply mem_mutex_In, HM in H. destruct H as (m' & t' & Hm & He' & Hr).
        apply (R_edge m' k Hr). right. left. split; [lia|]. exists t', t, m. auto.
  - intros H. destruct (hb_last i k H) as (m & Hr & Ed).
    assert (Hm : i <= m < k).
    { pose proof (edge_lt _ _ Ed). destruct Hr as [->|Hr]; [lia|]. pose proof (hb_lt _ _ Hr). lia. }
    destruct Ed as [(_ & a & b & Ha & Hb & Et)|[(_ & t1 & t2 & x & Ha & Hb)|(_ & t1 & t2 & l & Ha & Hb & Hnw)]].
    + left. apply mem_nat_In, HT. rewrite He in Hb. injection Hb as <-. exists m, a. auto.
    + right. rewrite He in Hb. injection Hb as ->. apply mem_mutex_In, HM. exists m, t1. auto.
    + right. rewrite He in Hb. injection Hb as ->. apply mem_loc_In, HL. exists m, t1. auto.
Qed.

Lemma sets_next : forall k st e rb, sets_ok k st -> at_ k = Some e -> i < k ->
  (rb = true <-> hb i k) -> sets_ok (S k) (next_sets st e rb).
Proof.
  intros k st e rb (HT & HM & HL) He Hik Hrb.
  assert (Hnk : rb = false -> forall m, i <= m < S k -> R m -> m < k).
  { intros E m Hm [->|Hr]; [lia|]. destruct (Nat.eq_dec m k) as [->|]; [|lia].
    apply Hrb in Hr. congruence. }
  unfold next_sets; split; [|split]; cbn [s_ts s_ms s_ls].
  - intros t. destruct rb.
    + simpl. rewrite HT. split.
      * intros [<-|(m & e' & Hm & Q)].
        -- exists k, e. repeat split; auto; try lia. right. now apply Hrb.
        -- exists m, e'. split; [lia|auto].
      * intros (m & e' & Hm & He' & Et & Hr). destruct (Nat.eq_dec m k) as [->|Hne].
        -- left. rewrite He in He'. injection He' as <-. auto.
        -- right. exists m, e'. split; [lia|auto].
    + rewrite HT. split.
      * intros (m & e' & Hm & Q). exists m, e'. split; [lia|auto].
      * intros (m & e' & Hm & He' & Et & Hr). exists m, e'. split; auto.
        pose proof (Hnk eq_refl m Hm Hr). lia.
  - intros x.
    assert (Hkeep : In x (s_ms st) <-> exists m t, i <= m < S k /\ at_ m = Some (Rel t x) /\ R m /\ m <> k).
    { rewrite HM. split.
      - intros (m & t & Hm & Q1 & Q2). exists m, t. repeat split; auto; lia.
      - intros (m & t & Hm & Q1 & Q2 & Q3). exists m, t. repeat split; auto; lia. }
    destruct e as [t l w kd|t m0|t m0].
    + rewrite Hkeep. split.
      * intros (m & t' & Hm & Q1 & Q2 & _). exists m, t'. auto.
      * intros (m & t' & Hm & Q1 & Q2). exists m, t'. split; [exact Hm|]. split; [exact Q1|]. split; [exact Q2|].
        intros ->. rewrite He in Q1. discriminate.
    + rewrite Hkeep. split.
      * intros (m & t' & Hm & Q1 & Q2 & _). exists m, t'. auto.
      * intros (m & t' & Hm & Q1 & Q2). exists m, t'. split; [exact Hm|]. split; [exact Q1|]. split; [exact Q2|].
        intros ->. rewrite He in Q1. discriminate.
    + destruct rb.
      * simpl. rewrite Hkeep. split.
        -- intros [<-|(m & t' & Hm & Q1 & Q2 & _)].
           ++ exists k, t. repeat split; auto; try lia. right. now apply Hrb.
           ++ exists m, t'. auto.
        -- intros (m & t' & Hm & Q1 & Q2). destruct (Nat.eq_dec m k) as [->|Hne].
           ++ left. rewrite He in Q1. injection Q1 as _ <-. auto.
           ++ right. exists m, t'. auto.
      * rewrite Hkeep. split.
        -- intros (m & t' & Hm & Q1 & Q2 & _). exists m, t'. auto.
        -- intros (m & t' & Hm & Q1 & Q2). exists m, t'. split; [exact Hm|]. split; [exact Q1|]. split; [exact Q2|].
           pose proof (Hnk eq_refl m Hm Q2). lia.
  - intros l.
    (* membership before, re-expressed for the window up to S k when k does not write l *)
    assert (Hext : writes l e = false ->
              (In l (s_ls st) <-> exists m t, i <= m < S k /\ at_ m = Some (Acc t l true Atomic) /\ R m /\
                                    (forall k' e0, m < k' < S k -> at_ k' = Some e0 -> writes l e0 = false))).
    { intros Hw. rewrite HL. split.
      - intros (m & t & Hm & Q1 & Q2 & Q3). exists m, t. repeat split; auto; try lia.
        intros k' e0 Hk' He0. destruct (Nat.eq_dec k' k) as [->|]; [rewrite He in He0; injection He0 as <-; auto|].
        apply (Q3 k' e0); auto. lia.
      - intros (m & t & Hm & Q1 & Q2 & Q3).
        assert (m <> k).
        { intros ->. rewrite He in Q1. injection Q1 as ->. simpl in Hw.
          rewrite (proj2 (loc_eqb_eq l l) eq_refl) in Hw. discriminate. }
        exists m, t. repeat split; auto; try lia. intros k' e0 Hk'. apply Q3. lia. }
    destruct e as [t l0 w kd|t m0|t m0]; try (apply Hext; reflexivity).
    destruct w; [|apply Hext; reflexivity].
    destruct (rb && is_atomic kd) eqn:Eb.
    + apply andb_prop in Eb. destruct Eb as (-> & Ek). destruct kd; try discriminate.
      assert (Wk : exists m t0, i <= m < S k /\ at_ m = Some (Acc t0 l0 true Atomic) /\ R m /\
                     (forall k' e0, m < k' < S k -> at_ k' = Some e0 -> writes l0 e0 = false)).
      { exists k, t. split; [lia|]. split; [exact He|]. split; [right; apply Hrb; reflexivity|].
        intros k' e0 Hk'; lia. }
      simpl. split.
      * intros [<-|Hin]; [exact Wk|].
        destruct (loc_eqb l0 l) eqn:El.
        -- apply loc_eqb_eq in El. subst. exact Wk.
        -- apply Hext; auto.
      * intros (m & t' & Hm & Q1 & Q2 & Q3). destruct (Nat.eq_dec m k) as [->|Hne].
        -- left. rewrite He in Q1. now injection Q1 as _ ->.
        -- right. assert (Hw : writes l (Acc t l0 true Atomic) = false) by (apply (Q3 k); auto; lia).
           apply Hext; auto. exists m, t'. auto.
    + rewrite In_rm_loc. split.
      * intros (Hin & Hne). assert (Hw : writes l (Acc t l0 true kd) = false).
        { simpl. destruct (loc_eqb l0 l) eqn:El; auto. apply loc_eqb_eq in El. congruence. }
        apply Hext; auto.
      * intros (m & t' & Hm & Q1 & Q2 & Q3). destruct (Nat.eq_dec m k) as [->|Hne].
        -- exfalso. rewrite He in Q1. injection Q1 as -> -> ->.
           destruct Q2 as [->|Q2]; [lia|]. apply Hrb in Q2. subst rb. discriminate.
        -- assert (Hw : writes l (Acc t l0 true kd) = false) by (apply (Q3 k); auto; lia).
           split.
           ++ apply Hext; auto. exists m, t'. auto.
           ++ intros ->. simpl in Hw. rewrite (proj2 (loc_eqb_eq l0 l0) eq_refl) in Hw. discriminate.
Qed.

Lemma skipn_cons_at : forall k e r, skipn k tr = e :: r -> at_ k = Some e /\ skipn (S k) tr = r.
Proof.
  unfold Race.at_. intros k. generalize tr. induction k as [|k IH]; intros l e r H.
  - simpl in H. subst. auto.
  - destruct l as [|x l]; [discriminate|]. simpl in H. destruct (IH l e r H). auto.
Qed.
Lemma skipn_nil_at : forall k j, skipn k tr = [] -> k <= j -> at_ j = None.
Proof.
  unfold Race.at_. intros k j H Hle. apply nth_error_None.
  assert (length (skipn k tr) = 0) by (rewrite H; auto). rewrite skipn_length in H0. lia.
Qed.

Lemma scan_spec : forall a rest k st, skipn k tr = rest -> i < k -> sets_ok k st ->
  (scan a st rest = true <->
   exists j b, k <= j /\ at_ j = Some b /\ conflictb a b = true /\ ~ hb i j).
Proof.
  intros a. induction rest as [|e r IH]; intros k st Hs Hik Hok; simpl.
  - split; [discriminate|]. intros (j & b & Hj & Hb & _). rewrite (skipn_nil_at k j Hs Hj) in Hb. discriminate.
  - destruct (skipn_cons_at k e r Hs) as (He & Hs').
    pose proof (reached_spec k st e Hok He Hik) as Hr.
    assert (Hok' : sets_ok (S k) (next_sets st e (reachedb st e))) by (apply sets_next; auto).
    rewrite orb_true_iff, (IH (S k) _ Hs' ltac:(lia) Hok'). split.
    + intros [H|(j & b & Hj & Q)].
      * apply andb_prop in H. destruct H as (H1 & H2). apply negb_true_iff in H1.
        exists k, e. repeat split; auto. intros Hh. apply Hr in Hh. congruence.
      * exists j, b. split; [lia|auto].
    + intros (j & b & Hj & Hb & Hc & Hn). destruct (Nat.eq_dec j k) as [->|Hne].
      * left. rewrite He in Hb. injection Hb as <-. rewrite Hc, andb_true_r. apply negb_true_iff.
        destruct (reachedb st e) eqn:E; auto. exfalso. apply Hn. now apply Hr.
      * right. exists j, b. split; [lia|auto].
Qed.
End From.

Lemma start_ok : forall i a, at_ i = Some a -> sets_ok i (S i) (start_sets a).
Proof.
  intros i a Ha. unfold start_sets. split; [|split]; cbn [s_ts s_ms s_ls].
  - intros t. simpl. split.
    + intros [<-|[]]. exists i, a. repeat split; auto. left; auto.
    + intros (m & e & Hm & He & Et & _). assert (m = i) by lia. subst. rewrite Ha in He. injection He as <-. auto.
  - intros x. split.
    + destruct a; simpl; try tauto. intros [<-|[]]. exists i, t. repeat split; auto. left; auto.
    + intros (m & t & Hm & He & _). assert (m = i) by lia. subst. rewrite Ha in He. injection He as ->.
      simpl. auto.
  - intros l. split.
    + destruct a as [t l0 w kd| |]; simpl; try tauto. destruct w; simpl; try tauto. destruct kd; simpl; try tauto.
      intros [<-|[]]. exists i, t. repeat split; auto. left; auto. intros k' e Hk'. lia.
    + intros (m & t & Hm & He & _). assert (m = i) by lia. subst. rewrite Ha in He. injection He as ->.
      simpl. auto.
Qed.

Lemma raceb_spec_gen : forall P suf pre, tr = pre ++ suf ->
  (raceb_on P suf = true <->
   exists i j a b, length pre <= i /\ i < j /\ at_ i = Some a /\ at_ j = Some b /\
                   conflictb a b = true /\ sel P a = true /\ ~ hb i j).
Proof.
  intros P. induction suf as [|a r IH]; intros pre Htr; simpl.
  - split; [discriminate|]. intros (i & j & x & y & Hi & Hij & Hx & _).
    unfold Race.at_ in Hx. rewrite Htr, app_nil_r in Hx.
    assert (nth_error pre i = None) by (apply nth_error_None; lia). congruence.
  - assert (Ha : at_ (length pre) = Some a).
    { unfold Race.at_. rewrite Htr, nth_error_app2, Nat.sub_diag by lia. reflexivity. }
    assert (Hsk : skipn (S (length pre)) tr = r).
    { rewrite Htr. replace (S (length pre)) with (length (pre ++ [a])) by (rewrite app_length; simpl; lia).
      replace (pre ++ a :: r) with ((pre ++ [a]) ++ r) by (rewrite <- app_assoc; reflexivity).
      now rewrite skipn_app, Nat.sub_diag, skipn_all. }
    assert (Htr' : tr = (pre ++ [a]) ++ r) by (rewrite <- app_assoc; exact Htr).
    rewrite orb_true_iff, (IH (pre ++ [a]) Htr'). rewrite app_length; simpl.
    pose proof (start_ok (length pre) _ Ha) as Hok.
    split.
    + intros [H|(i & j & x & y & Hi & R)].
      * destruct (sel P a) eqn:Sa; [|discriminate].
        apply (scan_spec (length pre) _ r (S (length pre)) _ Hsk ltac:(lia) Hok) in H.
        destruct H as (j & b & Hj & Hb & Hc & Hn).
        exists (length pre), j, a, b. repeat split; auto; lia.
      * exists i, j, x, y. split; [lia|auto].
    + intros (i & j & x & y & Hi & Hij & Hx & Hy & Hc & Hs & Hn).
      destruct (Nat.eq_dec i (length pre)) as [->|Hne].
      * left. rewrite Ha in Hx. injection Hx as ->. rewrite Hs.
        apply (scan_spec (length pre) _ r (S (length pre)) _ Hsk ltac:(lia) Hok).
        exists j, y. repeat split; auto; lia.
      * right. exists i, j, x, y. split; [lia|]. repeat split; auto.
Qed.
End S.

Theorem raceb_on_spec : forall P tr, raceb_on P tr = true <-> race_on tr P.
Proof.
  intros P tr. rewrite (raceb_spec_gen tr P tr [] eq_refl). unfold race_on. simpl. split.
  - intros (i & j & a & b & _ & R). exists i, j, a, b. auto.
  - intros (i & j & a & b & R). exists i, j, a, b. split; [lia|auto].
Qed.

Theorem raceb_spec : forall tr, raceb tr = true <-> race tr.
Proof. intros tr. apply raceb_on_spec. Qed.
