(** C09 — the one-pass race decision procedure [raceb] decides [race]. *)
From Coq Require Import List Bool Arith Lia Relations Relation_Operators Operators_Properties.
From Texel Require Import Workers.Race.
Import ListNotations.

Lemma mem_nat_In : forall x l, mem_nat x l = true <-> In x l.
Proof.
  intros; unfold mem_nat. rewrite existsb_exists. split.
  - intros (y & Hy & E). apply Nat.eqb_eq in E. now subst.
  - intros H; exists x; split; auto. apply Nat.eqb_refl.
Qed.
Lemma mem_mutex_In : forall x l, mem_mutex x l = true <-> In x l.
Proof.
  intros; unfold mem_mutex. rewrite existsb_exists. split.
  - intros (y & Hy & E). apply mutex_eqb_eq in E. now subst.
  - intros H; exists x; split; auto. now apply mutex_eqb_eq.
Qed.

Section S.
Variable tr : list tev.
Notation at_ := (at_ tr).
Notation hb := (hb tr).
Notation edge := (edge tr).

Lemma edge_lt : forall i j, edge i j -> i < j.
Proof. intros i j [[H _]|[H _]]; auto. Qed.
Lemma hb_lt : forall i j, hb i j -> i < j.
Proof. induction 1; [now apply edge_lt | lia]. Qed.

(** last-step decomposition *)
Lemma hb_last : forall i k, hb i k -> exists m, (m = i \/ hb i m) /\ edge m k.
Proof.
  intros i k H. apply clos_trans_tn1 in H. inversion H; subst.
  - exists i; auto.
  - exists y. split; auto. right. now apply clos_tn1_trans.
Qed.

Section From.
Variable i : nat.

Definition sets_ok (k : nat) (ts : list tid) (ms : list mutex) : Prop :=
  (forall t, In t ts <-> exists m e, i <= m < k /\ at_ m = Some e /\ ev_tid e = t /\ (m = i \/ hb i m)) /\
  (forall x, In x ms <-> exists m t, i <= m < k /\ at_ m = Some (Rel t x) /\ (m = i \/ hb i m)).

Lemma reached_spec : forall k ts ms e, sets_ok k ts ms -> at_ k = Some e -> i < k ->
  (reachedb ts ms e = true <-> hb i k).
Proof.
  intros k ts ms e (HT & HM) He Hik. unfold reachedb. rewrite orb_true_iff. split.
  - intros [H|H].
    + apply mem_nat_In, HT in H. destruct H as (m & e' & Hm & He' & Et & Hr).
      assert (Ed : edge m k).
      { left. split; [lia|]. exists e', e. auto. }
      destruct Hr as [->|Hr]; [apply t_step; auto | eapply t_trans; [exact Hr | apply t_step; auto]].
    + destruct e; try discriminate. apply mem_mutex_In, HM in H.
      destruct H as (m' & t' & Hm & He' & Hr).
      assert (Ed : edge m' k).
      { right. split; [lia|]. exists t', t, m. auto. }
      destruct Hr as [->|Hr]; [apply t_step; auto | eapply t_trans; [exact Hr | apply t_step; auto]].
  - intros H. destruct (hb_last i k H) as (m & Hr & Ed).
    assert (Hm : i <= m < k).
    { pose proof (edge_lt _ _ Ed). destruct Hr as [->|Hr]; [lia|]. pose proof (hb_lt _ _ Hr). lia. }
    destruct Ed as [(_ & a & b & Ha & Hb & Et)|(_ & t1 & t2 & x & Ha & Hb)].
    + left. apply mem_nat_In, HT. rewrite He in Hb. injection Hb as <-.
      exists m, a. auto.
    + right. rewrite He in Hb. injection Hb as ->. apply mem_mutex_In, HM. exists m, t1. auto.
Qed.

Lemma sets_ok_skip : forall k ts ms, sets_ok k ts ms -> ~ hb i k -> i < k -> sets_ok (S k) ts ms.
Proof.
  intros k ts ms (HT & HM) Hn Hik. split.
  - intros t. rewrite HT. split.
    + intros (m & e & Hm & R). exists m, e. split; [lia|auto].
    + intros (m & e & Hm & He & Et & Hr). exists m, e.
      assert (m <> k) by (intros ->; destruct Hr as [->|Hr]; [lia|contradiction]).
      split; [lia|auto].
  - intros x. rewrite HM. split.
    + intros (m & t & Hm & R). exists m, t. split; [lia|auto].
    + intros (m & t & Hm & He & Hr). exists m, t.
      assert (m <> k) by (intros ->; destruct Hr as [->|Hr]; [lia|contradiction]).
      split; [lia|auto].
Qed.

Lemma sets_ok_add : forall k ts ms e, sets_ok k ts ms -> hb i k -> at_ k = Some e -> i < k ->
  sets_ok (S k) (fst (upd_sets ts ms e)) (snd (upd_sets ts ms e)).
Proof.
  intros k ts ms e (HT & HM) Hh He Hik. unfold upd_sets; simpl. split.
  - intros t. simpl. rewrite HT. split.
    + intros [<-|(m & e' & Hm & R)].
      * exists k, e. repeat split; auto; lia.
      * exists m, e'. split; [lia|auto].
    + intros (m & e' & Hm & He' & Et & Hr).
      destruct (Nat.eq_dec m k) as [->|Hne].
      * left. rewrite He in He'. injection He' as <-. auto.
      * right. exists m, e'. split; [lia|auto].
  - intros x. destruct e as [t l w a|t m0|t m0]; simpl.
    + rewrite HM. split.
      * intros (m & t' & Hm & R). exists m, t'. split; [lia|auto].
      * intros (m & t' & Hm & He' & Hr). exists m, t'.
        assert (m <> k) by (intros ->; rewrite He in He'; discriminate). split; [lia|auto].
    + rewrite HM. split.
      * intros (m & t' & Hm & R). exists m, t'. split; [lia|auto].
      * intros (m & t' & Hm & He' & Hr). exists m, t'.
        assert (m <> k) by (intros ->; rewrite He in He'; discriminate). split; [lia|auto].
    + rewrite HM. split.
      * intros [<-|(m & t' & Hm & R)].
        -- exists k, t. repeat split; auto; lia.
        -- exists m, t'. split; [lia|auto].
      * intros (m & t' & Hm & He' & Hr).
        destruct (Nat.eq_dec m k) as [->|Hne].
        -- left. rewrite He in He'. injection He' as _ <-. auto.
        -- right. exists m, t'. split; [lia|auto].
Qed.

Lemma skipn_cons_at : forall k e r, skipn k tr = e :: r -> at_ k = Some e /\ skipn (S k) tr = r.
Proof.
  unfold Race.at_. intros k. generalize tr. induction k as [|k IH]; intros l e r H.
  - simpl in H. subst. auto.
  - destruct l as [|x l]; [discriminate|]. simpl in H. destruct (IH l e r H). auto.
Qed.
Lemma skipn_nil_at : forall k j, skipn k tr = [] -> k <= j -> at_ j = None.
Proof.
  unfold Race.at_. intros k j H Hle. apply nth_error_None.
  assert (length (skipn k tr) = 0) by (rewrite H; auto). rewrite skipn_length in H0. lia.
Qed.

Lemma scan_spec : forall a rest k ts ms, skipn k tr = rest -> i < k -> sets_ok k ts ms ->
  (scan a ts ms rest = true <->
   exists j b, k <= j /\ at_ j = Some b /\ conflictb a b = true /\ ~ hb i j).
Proof.
  intros a. induction rest as [|e r IH]; intros k ts ms Hs Hik Hok; simpl.
  - split; [discriminate|]. intros (j & b & Hj & Hb & _). rewrite (skipn_nil_at k j Hs Hj) in Hb. discriminate.
  - destruct (skipn_cons_at k e r Hs) as (He & Hs').
    destruct (reachedb ts ms e) eqn:Er.
    + assert (Hh : hb i k) by (apply (reached_spec k ts ms e Hok He Hik); auto).
      pose proof (sets_ok_add k ts ms e Hok Hh He Hik) as Hok'.
      unfold upd_sets in *. simpl in Hok'.
      rewrite (IH (S k) _ _ Hs' ltac:(lia) Hok'). split.
      * intros (j & b & Hj & R). exists j, b. split; [lia|auto].
      * intros (j & b & Hj & Hb & Hc & Hn). exists j, b.
        assert (j <> k) by (intros ->; contradiction). split; [lia|auto].
    + assert (Hn : ~ hb i k).
      { intros Hh. apply (reached_spec k ts ms e Hok He Hik) in Hh. congruence. }
      pose proof (sets_ok_skip k ts ms Hok Hn Hik) as Hok'.
      rewrite orb_true_iff, (IH (S k) ts ms Hs' ltac:(lia) Hok'). split.
      * intros [Hc|(j & b & Hj & R)].
        -- exists k, e. auto.
        -- exists j, b. split; [lia|auto].
      * intros (j & b & Hj & Hb & Hc & Hnj).
        destruct (Nat.eq_dec j k) as [->|Hne].
        -- left. rewrite He in Hb. injection Hb as <-. auto.
        -- right. exists j, b. split; [lia|auto].
Qed.
End From.

Lemma start_ok : forall i a, at_ i = Some a ->
  sets_ok i (S i) (fst (start_sets a)) (snd (start_sets a)).
Proof.
  intros i a Ha. unfold start_sets; simpl. split.
  - intros t. simpl. split.
    + intros [<-|[]]. exists i, a. repeat split; auto.
    + intros (m & e & Hm & He & Et & _). assert (m = i) by lia. subst. rewrite Ha in He. injection He as <-. auto.
  - intros x. split.
    + destruct a; simpl; try tauto. intros [<-|[]]. exists i, t. repeat split; auto.
    + intros (m & t & Hm & He & _). assert (m = i) by lia. subst. rewrite Ha in He. injection He as ->.
      simpl. auto.
Qed.

Lemma raceb_spec_gen : forall P suf pre, tr = pre ++ suf ->
  (raceb_on P suf = true <->
   exists i j a b, length pre <= i /\ i < j /\ at_ i = Some a /\ at_ j = Some b /\
                   conflictb a b = true /\ sel P a = true /\ ~ hb i j).
Proof.
  intros P. induction suf as [|a r IH]; intros pre Htr; simpl.
  - split; [discriminate|]. intros (i & j & x & y & Hi & Hij & Hx & _).
    unfold Race.at_ in Hx. rewrite Htr, app_nil_r in Hx.
    assert (nth_error pre i = None) by (apply nth_error_None; lia). congruence.
  - assert (Ha : at_ (length pre) = Some a).
    { unfold Race.at_. rewrite Htr, nth_error_app2, Nat.sub_diag by lia. reflexivity. }
    assert (Hsk : skipn (S (length pre)) tr = r).
    { rewrite Htr. replace (S (length pre)) with (length (pre ++ [a])) by (rewrite app_length; simpl; lia).
      replace (pre ++ a :: r) with ((pre ++ [a]) ++ r) by (rewrite <- app_assoc; reflexivity).
      now rewrite skipn_app, Nat.sub_diag, skipn_all. }
    assert (Htr' : tr = (pre ++ [a]) ++ r) by (rewrite <- app_assoc; exact Htr).
    rewrite orb_true_iff, (IH (pre ++ [a]) Htr'). rewrite app_length; simpl.
    pose proof (start_ok (length pre) _ Ha) as Hok.
    unfold start_sets in Hok; simpl in Hok.
    split.
    + intros [H|(i & j & x & y & Hi & R)].
      * destruct (sel P a) eqn:Sa; [|discriminate].
        apply (scan_spec (length pre) _ r (S (length pre)) _ _ Hsk ltac:(lia) Hok) in H.
        destruct H as (j & b & Hj & Hb & Hc & Hn).
        exists (length pre), j, a, b. repeat split; auto; lia.
      * exists i, j, x, y. split; [lia|auto].
    + intros (i & j & x & y & Hi & Hij & Hx & Hy & Hc & Hs & Hn).
      destruct (Nat.eq_dec i (length pre)) as [->|Hne].
      * left. rewrite Ha in Hx. injection Hx as ->. rewrite Hs.
        apply (scan_spec (length pre) _ r (S (length pre)) _ _ Hsk ltac:(lia) Hok).
        exists j, y. repeat split; auto; lia.
      * right. exists i, j, x, y. split; [lia|]. repeat split; auto.
Qed.
End S.

Theorem raceb_on_spec : forall P tr, raceb_on P tr = true <-> race_on tr P.
Proof.
  intros P tr. rewrite (raceb_spec_gen tr P tr [] eq_refl). unfold race_on. simpl. split.
  - intros (i & j & a & b & _ & R). exists i, j, a, b. auto.
  - intros (i & j & a & b & R). exists i, j, a, b. split; [lia|auto].
Qed.

Theorem raceb_spec : forall tr, raceb tr = true <-> race tr.
Proof. intros tr. apply raceb_on_spec. Qed.
