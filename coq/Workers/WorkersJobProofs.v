(** C10 — the job / result invariant [InvJ] is inductive (relative to [InvE]). *)
From Coq Require Import ZArith List Bool Arith Lia.
From Texel Require Import Workers.Workers Workers.WorkersLemmas Workers.WorkersInv Workers.WorkersInvProofs Workers.WorkersTac Workers.WorkersJob.
Import ListNotations.
Section P.
Variable N : nat.
Variable parent : tid -> option tid.
Hypothesis Htree : tree_ok N parent.
Notation InvE := (InvE N parent).
Notation InvJ := (InvJ N).
Notation lstep := (lstep N parent).
Notation children := (children N parent).
Notation helper := (helper N).

Lemma helper_ne0 : forall c, helper c -> c <> 0.
Proof. unfold WorkersInv.helper; lia. Qed.

Lemma step_job0 : forall s lb s', InvE s -> InvJ s -> lstep s lb = Some s' -> (0 <= job (th s' O))%Z.
Proof.
  intros s lb s' I J H. pose proof (j_job0 _ _ J) as J0.
  step_inv_fine H; crunch; lia.
Qed.

Lemma inv_sid : forall s, InvE s -> se (th s O) <= sid s.
Proof.
  intros s I. destruct (e_phase _ _ _ I) as (ph & _ & E). destruct ph; simpl in E; lia.
Qed.

(** in the idle phase no helper holds a job *)
Lemma idle_nojob : forall s c, InvE s -> InvJ s -> helper c -> sid s = ae (th s O) ->
  job (th s c) = (-1)%Z.
Proof.
  intros s c I J Hc E.
  destruct (Z.eq_dec (job (th s c)) (-1)) as [|Hne]; auto. exfalso.
  destruct (j_j1 _ _ J c Hc Hne) as ([H|H] & _).
  - destruct (e_g1 _ _ _ I c (helper_le _ _ Hc)). lia.
  - destruct (e_g1 _ _ _ I c (helper_le _ _ Hc)). destruct (e_g2 _ _ _ I c Hc) as (? & ? & ?).
    destruct (inv_se0 _ _ s I) as (? & ? & ? & ?). pose proof (inv_sid s I).
    assert (E2 : ae (th s c) = se (th s c)) by lia.
    destruct (e_a1 _ _ _ I c Hc E2) as (_ & _ & _ & X). congruence.
Qed.

Lemma step_j1 : forall s lb s', InvE s -> InvJ s -> lstep s lb = Some s' ->
  forall c, helper c -> job (th s' c) <> (-1)%Z ->
    (S (se (th s' c)) = sid s' \/ instop (pc (th s' c)) = true) /\
    (1 <= job (th s' c) <= job (th s' O))%Z.
Proof.
  intros s lb s' I J H c Hc.
  pose proof (j_j1 _ _ J c Hc) as J1. pose proof (j_job0 _ _ J) as J0.
  pose proof (helper_ne0 c Hc) as Hc0.
  step_inv_fine H; crunch; use_eqs; cbn [instop] in *; auto; try congruence.
  all: intros Hne.
  all: try (destruct (J1 Hne) as (Ha & Hb); split; [auto | lia]; fail).
  all: try (exfalso; phase_facts' I; apply Hne; apply idle_nojob; auto; lia).
  all: try (split; [left | ]).
  all: try match goal with Hq : qu ?s0 (S ?t) = CStart ?j :: _, Hl : Nat.leb (S ?t) N = true |- _ =>
         first [ apply (e_j2 _ _ _ I (S t) (CStart j) (helper_leb _ _ Hl)); [rewrite Hq; left; auto | right; eauto]
               | apply (j_start _ _ J (S t) j (helper_leb _ _ Hl)); rewrite Hq; left; auto ] end.
  all: try match goal with Hpc : pc (th ?s0 (S ?t)) = PFwd (FStart ?j) ?k ?r, Hl : Nat.leb (S ?t) N = true |- _ =>
         first [ apply (e_j3 _ _ _ I (S t) _ k r (proj1 (Nat.leb_le _ _) Hl) Hpc); right; eauto
               | apply (j_fwd _ _ J (S t) j k r (proj1 (Nat.leb_le _ _) Hl) Hpc) ] end.
Qed.

Lemma step_jstart : forall s lb s', InvE s -> InvJ s -> lstep s lb = Some s' ->
  forall c j, helper c -> In (CStart j) (qu s' c) -> (1 <= j <= job (th s' O))%Z.
Proof.
  intros s lb s' I J H c j Hc.
  pose proof (j_start _ _ J c j Hc) as JS. pose proof (j_job0 _ _ J) as J0.
  pose proof (helper_ne0 c Hc) as Hc0.
  step_inv_fine H; crunch; use_eqs; auto.
  all: try (intros Hin; apply JS; right; exact Hin).
  all: try (intros Hin; specialize (JS Hin); lia).
  all: try pcs_facts I.
  all: try match goal with w : fwd |- _ => destruct w end; cbn [fwd_purge fwd_cmd] in *.
  all: intros Hin.
  all: try (apply in_app_or in Hin; destruct Hin as [Hin|[Hin|[]]];
            try (apply in_purge in Hin; destruct Hin as (Hin & Hpg); try discriminate); auto;
            try discriminate).
  all: try (injection Hin as <-).
  all: try match goal with Hpc : pc (th ?s0 ?t) = PFwd (FStart ?j) ?k ?r |- _ =>
         first [ apply (j_fwd _ _ J t j k r (Nat.le_0_l _) Hpc)
               | apply (j_fwd _ _ J t j k r (proj1 (Nat.leb_le _ _) ltac:(eassumption)) Hpc) ] end.
  all: try (exfalso; pose proof (e_j2 _ _ _ I c (CStart j) Hc Hin (or_intror (ex_intro _ j eq_refl)));
            destruct (e_g1 _ _ _ I c (helper_le _ _ Hc)); phase_facts' I; lia).
Qed.

Lemma step_jfwd : forall s lb s', InvE s -> InvJ s -> lstep s lb = Some s' ->
  forall t j k rest, t <= N -> pc (th s' t) = PFwd (FStart j) k rest -> (1 <= j <= job (th s' O))%Z.
Proof.
  intros s lb s' I J H t j k rest Ht.
  pose proof (j_fwd _ _ J t j k) as JF. pose proof (j_job0 _ _ J) as J0.
  step_inv_fine H; crunch; use_eqs; eauto; try discriminate.
  all: intros E; try (injection E as <- <- <-); try (injection E as <- <-).
  all: try lia.
  all: try (specialize (JF _ Ht E); lia).
  all: try (eapply JF; eauto; fail).
  all: try (inversion E; subst; eapply JF; eauto; fail).
  all: try (exfalso; pose proof (e_j3 _ _ _ I t _ _ _ Ht E (or_intror (ex_intro _ j eq_refl)));
            destruct (e_g1 _ _ _ I t Ht); phase_facts' I; lia).
  all: try match goal with Hq : qu ?s0 (S ?t) = CStart ?j :: _, Hl : Nat.leb (S ?t) N = true |- _ =>
         apply (j_start _ _ J (S t) j (helper_leb _ _ Hl)); rewrite Hq; left; auto end.
Qed.

Lemma step_jks : forall s lb s', InvE s -> InvJ s -> lstep s lb = Some s' ->
  forall c j, helper c -> ctx_of (pc (th s' c)) = Some (KSearch j) -> (1 <= j)%Z.
Proof.
  intros s lb s' I J H c j Hc.
  pose proof (j_ks _ _ J c j Hc) as JK.
  pose proof (helper_ne0 c Hc) as Hc0.
  step_inv_fine H; crunch; use_eqs; cbn [ctx_of] in *; auto; try discriminate.
  intros E; injection E as <-. boolfacts.
  destruct (j_j1 _ _ J (S t0) Hc Heqb1) as (_ & ?). lia.
Qed.

(** a queued result at a node that has not entered the stop round of the current search
    belongs to the current search *)
Lemma report_current : forall s t j sd f r, InvE s -> InvJ s -> t <= N ->
  qu s t = CReport j sd f :: r -> se (th s t) = ae (th s O) ->
  sd = sid s /\ sid s = S (ae (th s O)) /\ (1 <= j)%Z /\ helper f /\ parent f = Some t.
Proof.
  intros s t j sd f r I J Ht Hq Hse.
  pose proof (j_rep _ _ J t Ht) as R. rewrite Hq in R. simpl in R. destruct R as ((R1 & R2 & R3) & _).
  assert (Hin : In (CReport j sd f) (qu s t)) by (rewrite Hq; left; auto).
  destruct (e_snd _ _ _ I t _ Ht Hin) as (Hp & Hf).
  pose proof (e_w3 _ _ _ I f t Hf Hp) as W3. rewrite Hq, acks_cons in W3. simpl in W3.
  pose proof (inv_child_le _ _ s f t I Hf Hp).
  destruct (e_g2 _ _ _ I f Hf) as (? & ? & ?).
  destruct (inv_se0 _ _ s I) as (? & ? & ? & ?).
  assert (acks f r = 0) by (destruct (acks f r); auto; specialize (W3 ltac:(lia)); lia).
  split; [lia|]. split; [lia|]. split; auto.
Qed.

Lemma step_jpsend : forall s lb s', InvE s -> InvJ s -> lstep s lb = Some s' ->
  forall c j sd f k, helper c -> pc (th s' c) = PSend (CReport j sd f) k ->
    sd = sid s' /\ S (se (th s' c)) = sid s' /\ (1 <= j)%Z.
Proof.
  intros s lb s' I J H c j sd f k Hc.
  pose proof (j_psend _ _ J c j sd f k Hc) as JP.
  pose proof (helper_ne0 c Hc) as Hc0.
  step_inv_fine H; crunch; use_eqs; auto; try discriminate.
  all: intros E.
  all: try (exfalso; destruct (JP E) as (_ & ? & _); destruct (e_g1 _ _ _ I c (helper_le _ _ Hc));
            phase_facts' I; lia).
  all: injection E as <- <- <- <-; boolfacts.
  all: match goal with Hq : qu ?s0 (S ?t) = CReport ?j ?sd ?f :: ?r, Hl : Nat.leb (S ?t) N = true |- _ =>
         pose proof (j_rep _ _ J (S t) (proj1 (Nat.leb_le _ _) Hl)) as R; rewrite Hq in R; simpl in R;
         destruct R as ((R1 & R2 & R3) & _);
         destruct (j_j1 _ _ J (S t) Hc ltac:(lia)) as ([Hs|Hs] & _); [|rewrite Heqp in Hs; cbn in Hs; discriminate];
         destruct (e_g1 _ _ _ I (S t) (proj1 (Nat.leb_le _ _) Hl)); destruct (inv_se0 _ _ s0 I) as (? & ? & ? & ?);
         destruct (report_current s0 (S t) j sd f r I J (proj1 (Nat.leb_le _ _) Hl) Hq ltac:(lia)) as (? & ? & ? & ? & ?)
       end.
  all: repeat split; auto; lia.
Qed.

Lemma rep_ok_ext2 : forall a a' sv sv' l,
  (forall j sd f, In (CReport j sd f) l -> a' f = a f) -> sv <= sv' ->
  rep_ok a sv l -> rep_ok a' sv' l.
Proof.
  induction l as [|m l IH]; simpl; auto. intros Ha Hs H.
  destruct m; try (apply IH; auto; intros; eapply Ha; eauto; fail).
  destruct H as ((H1 & H2 & H3) & H4). rewrite (Ha j sd from) by auto. repeat split; auto; try lia.
  apply IH; auto. intros; eapply Ha; eauto.
Qed.

Lemma step_jrep : forall s lb s', InvE s -> InvJ s -> lstep s lb = Some s' ->
  forall t, t <= N -> rep_ok (fun f => ae (th s' f)) (sid s') (qu s' t).
Proof.
  intros s lb s' I J H t Ht.
  pose proof (j_rep _ _ J t Ht) as R.
  step_inv_fine H.
  all: try pcs_facts I.
  all: try match goal with w : fwd |- _ => destruct w end; cbn [fwd_purge fwd_cmd] in *.
  all: try (crunch; use_eqs; try (apply rep_ok_tail in R);
            (eapply rep_ok_ext; [ | | exact R]; [intros f0; crunch; reflexivity | lia]); fail).
  (* pushes that leave every ae unchanged *)
  all: try (apply rep_ok_ext with (a := fun f => ae (th s f)) (sv := sid s);
            [ intros f0; crunch; reflexivity | crunch; lia | ];
            crunch; use_eqs; auto;
            first [ apply rep_ok_app_other; [intros; discriminate | intros; discriminate | ];
                    first [ exact R | apply rep_ok_purge ]
                  | idtac ]; fail).
  (* report pushes *)
  all: try (apply rep_ok_ext with (a := fun f => ae (th s f)) (sv := sid s);
            [ intros f0; crunch; reflexivity | crunch; lia | ];
            crunch; use_eqs; auto; boolfacts;
            match goal with Hl : Nat.leb (S ?c) N = true |- _ =>
              pose proof (helper_leb _ _ Hl) as Hc;
              destruct (e_g2 _ _ _ I (S c) Hc) as (? & ? & ?);
              first [ destruct (j_psend _ _ J (S c) _ _ _ _ Hc ltac:(eassumption)) as (? & ? & ?)
                    | (assert (Hj1 : (1 <= job (th s (S c)))%Z)
                         by (match goal with Hpc : pc (th _ (S c)) = PPoll (KSearch ?j) |- _ =>
                               pose proof (j_ks _ _ J (S c) j Hc ltac:(rewrite Hpc; reflexivity)); lia end);
                       destruct (j_j1 _ _ J (S c) Hc ltac:(lia)) as ([Hs|Hs] & _);
                       [| match goal with Hpc : pc (th _ (S c)) = _ |- _ => rewrite Hpc in Hs; cbn in Hs; discriminate end]) ]
            end;
            apply rep_ok_app_report; auto; lia).
  (* barrier: only the master's ae changes, and the master never sends a result *)
  - crunch. apply rep_ok_ext2 with (a := fun f => ae (th s f)) (sv := sid s); auto.
    intros j sd f Hin. destruct (e_snd _ _ _ I t _ Ht Hin) as (_ & Hf).
    pose proof (helper_ne0 f Hf). crunch; reflexivity.
  (* STOP_ACK pushes *)
  - destruct (Nat.eq_dec t t2) as [->|Hne].
    + crunch. apply rep_ok_app_ack with (a := fun f => ae (th s f)); auto.
      * crunch; reflexivity.
      * intros f Hf. crunch; reflexivity.
    + crunch. apply rep_ok_ext2 with (a := fun f => ae (th s f)) (sv := sid s); auto.
      intros j sd f Hin. destruct (e_snd _ _ _ I t _ Ht Hin) as (Hp & Hf).
      crunch; auto; congruence.
  - destruct (Nat.eq_dec t t2) as [->|Hne].
    + crunch. apply rep_ok_app_ack with (a := fun f => ae (th s f)); auto.
      * crunch; reflexivity.
      * intros f Hf. crunch; reflexivity.
    + crunch. apply rep_ok_ext2 with (a := fun f => ae (th s f)) (sv := sid s); auto.
      intros j sd f Hin. destruct (e_snd _ _ _ I t _ Ht Hin) as (Hp & Hf).
      crunch; auto; congruence.
Qed.

Lemma InvJ_init : InvJ init.
Proof.
  constructor; unfold init; cbn [th qu flag sid nbest search]; intros.
  all: try (cbn; auto; lia).
  all: try (cbn in *; tauto).
  all: try (dmatch; cbn in *; try discriminate; try lia; unfold WorkersInv.helper in *; lia).
Qed.

Theorem InvJ_step : forall s lb s', InvE s -> InvJ s -> lstep s lb = Some s' -> InvJ s'.
Proof.
  intros s lb s' I J H. constructor.
  - eapply step_job0; eauto.
  - eapply step_j1; eauto.
  - eapply step_jstart; eauto.
  - eapply step_jfwd; eauto.
  - eapply step_jks; eauto.
  - eapply step_jrep; eauto.
  - eapply step_jpsend; eauto.
Qed.

End P.
