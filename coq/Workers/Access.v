(** C09 — the shared-memory accesses and lock operations each transition of the control LTS
    (Workers.v) performs, in program order.  Locations and mutexes: Race.v.
    The UCI thread is thread [S N]. *)
From Coq Require Import ZArith List Bool Arith.
From Texel Require Import Workers.Workers Workers.Race.
Import ListNotations.

Section Acc.
Variable N : nat.
Variable parent : tid -> option tid.
Definition uci : tid := S N.

(** ThreadCommunicator::doSend* of thread t into mailbox x: lock(mailbox x); cmdQueue.push_back;
    notifier->notify() { lock(notifier x); notified = true; unlock }; unlock *)
Definition push_events (t x : tid) : list tev :=
  [Acq t (MQ x); Acc t (LQueue x) true false;
   Acq t (MN x); Acc t (LFlag x) true false; Rel t (MN x); Rel t (MQ x)].

Definition notify_events (t x : tid) : list tev :=
  [Acq t (MN x); Acc t (LFlag x) true false; Rel t (MN x)].

Definition act_events (s : state) (t : tid) (a : act) : list tev :=
  match a with
  | AWait => [Acq t (MN t); Acc t (LFlag t) false false; Acc t (LFlag t) true false; Rel t (MN t)]
  | APollEmpty => [Acq t (MQ t); Acc t (LQueue t) false false; Rel t (MQ t)]
  | APop => [Acq t (MQ t); Acc t (LQueue t) false false; Acc t (LQueue t) true false; Rel t (MQ t)]
  | APush x => push_events t x
  | ANotifySelf => notify_events t t
  | AFinish =>
      if hasres (th s t) then []
      else match parent t with Some p => push_events t p | None => [] end
  | ARdQuit =>
      (* if (quitFlag) break;  -- no lock;  then setOptions(): lock(mutex) ... unlock *)
      Acc t LQuit false false :: (if quitf s then [] else [Acq t ME; Rel t ME])
  | ARdSearch =>
      (* if (search) -- no lock; doSearch then reads sc, pos, moves, ... -- no lock *)
      Acc t LSearch false false :: (if search s then [Acc t LParams false false] else [])
  | AClear => [Acq t ME; Acc t LSearch true false; Rel t ME]
  | ABest => [Acc t LPonder false true]
  | AMaxDepth | AInitSearch | AStartJob | AStopSearch => []
  end.

Definition env_events (s : state) (e : eact) : list tev :=
  match e with
  | EGo p =>
      (* stopThread: ponder = infinite = false (atomic); waitStop: lock; read search; unlock;
         startSearch: lock; write parameters; search = true; unlock *)
      [Acc uci LPonder true true;
       Acq uci ME; Acc uci LSearch false false; Rel uci ME;
       Acq uci ME; Acc uci LParams true false; Acc uci LSearch true false; Rel uci ME]
  | ENotify => notify_events uci 0
  | EUnponder => [Acc uci LPonder true true]
  | ESpur => notify_events uci 0
  | EQuit => [Acq uci ME; Acc uci LQuit true false; Rel uci ME]
  end.

Definition label_events (s : state) (lb : label) : list tev :=
  match lb with LT t a => act_events s t a | LE e => env_events s e end.

(** the access trace of a schedule (None if the schedule is not a path of the LTS) *)
Fixpoint trace_of (s : state) (ls : list label) : option (list tev) :=
  match ls with
  | [] => Some []
  | lb :: r =>
      match lstep N parent s lb with
      | Some s' =>
          match trace_of s' r with
          | Some tr => Some (label_events s lb ++ tr)
          | None => None
          end
      | None => None
      end
  end.

End Acc.
