(** C09 — the shared-memory accesses and lock operations of the control code, as a layer over the
    C10 transition system (Workers.v).  Locations, mutexes, access kinds: Race.v.

    The LTS of Workers.v is extended (as a product, its transitions are untouched) with the UCI
    option hand-shake of EngineMainThread:
      setOptionWhenIdle (UCI thread)   lock; pendingOptions[n] = v; optionsSetFinished = false; unlock; notify
      setOptions        (engine thread) loop { lock; swap pendingOptions; if empty { optionsSetFinished = true; return }
                                               unlock; Parameters::set -> listeners (setupTT -> reSize/clear, ...) }
      waitOptionsSet    (UCI thread)   lock; while (!optionsSetFinished) wait; unlock   -- in EngineControl::stopThread
    and every transition is annotated with the accesses it performs, in program order.
    ponder / infinite are std::atomic<bool> with seq_cst accesses in the code; the model tags them
    [Relaxed], i.e. derives no ordering from them (fewer happens-before edges: sound for race freedom).
    Thread numbers: 0 engine thread, 1..N helpers, [uci] = S N the UCI thread.
    [gp]: does `go ponder` wait for pending options like `go` does (true in the code: both call
    stopThread()); gp = false is the variant in which only startSearch waits. *)
From Coq Require Import ZArith List Bool Arith.
From Texel Require Import Workers.Workers Workers.Race.
Import ListNotations.

(** where the engine thread is inside EngineMainThread::setOptions *)
Inductive eopt := EOIdle | EONeed | EOTaken.

Record xstate := mkX {
  base : state;
  xpend : bool;      (* pendingOptions is non-empty *)
  xfin : bool;       (* optionsSetFinished *)
  xeo : eopt
}.

Inductive xlabel :=
| XL (lb : label)    (* a transition of the control LTS *)
| XSetOpt            (* UCI thread: setoption -> setOptionWhenIdle *)
| XTake              (* engine thread: setOptions: lock; swap / test pendingOptions; unlock *)
| XApply             (* engine thread: setOptions: params.set(...) for the options taken *)
| XWaitOpt.          (* UCI thread: waitOptionsSet returns (isready / stop: EngineControl::waitReady, stopThread) *)

Section Acc.
Variable N : nat.
Variable parent : tid -> option tid.
Variable gp : bool.
Definition uci : tid := S N.

Definition xinit : xstate := mkX init false true EOIdle.

(** [go] waits for the options (stopThread -> waitOptionsSet); [go ponder] does iff gp *)
Definition go_waits (p : bool) : bool := negb p || gp.

Definition xstep (x : xstate) (xl : xlabel) : option xstate :=
  match xl with
  | XL lb =>
      let ok :=
        match lb with
        | LT O ARdSearch | LT O AClear => match xeo x with EOIdle => true | _ => false end
        | LE (EGo p) => if go_waits p then xfin x else true
        | _ => true
        end in
      if ok then
        match lstep N parent (base x) lb with
        | Some s' =>
            let eo' :=
              match lb with
              | LT O ARdQuit => if quitf (base x) then xeo x else EONeed     (* setOptions() in mainLoop *)
              | LT O ANotifySelf =>
                  match pc (th (base x) 0) with MFinalNotify => EONeed | _ => xeo x end  (* setOptions() after doSearch *)
              | _ => xeo x
              end in
            Some (mkX s' (xpend x) (xfin x) eo')
        | None => None
        end
      else None
  | XSetOpt =>
      match epc (base x) with
      | EIdle => if quitf (base x) then None
                 else Some (mkX (set_flag (base x) 0 true) true false (xeo x))
      | _ => None
      end
  | XTake =>
      match xeo x with
      | EONeed => if xpend x then Some (mkX (base x) false (xfin x) EOTaken)
                  else Some (mkX (base x) false true EOIdle)
      | _ => None
      end
  | XApply =>
      match xeo x with
      | EOTaken => Some (mkX (base x) (xpend x) (xfin x) EONeed)
      | _ => None
      end
  | XWaitOpt => if xfin x then Some x else None
  end.

(** ThreadCommunicator::doSend* of thread t into mailbox m: lock(mailbox m); cmdQueue.push_back;
    notifier->notify() { lock(notifier m); notified = true; unlock }; unlock *)
Definition push_events (t m : tid) : list tev :=
  [Acq t (MQ m); Acc t (LQueue m) true Plain;
   Acq t (MN m); Acc t (LFlag m) true Plain; Rel t (MN m); Rel t (MQ m)].

Definition notify_events (t m : tid) : list tev :=
  [Acq t (MN m); Acc t (LFlag m) true Plain; Rel t (MN m)].

(** a searcher starting to search reads option values and the table geometry / generation *)
Definition search_reads (t : tid) : list tev :=
  [Acc t LOpt false Plain; Acc t LTT false Plain].

Definition act_events (s : state) (t : tid) (a : act) : list tev :=
  match a with
  | AWait => [Acq t (MN t); Acc t (LFlag t) false Plain; Acc t (LFlag t) true Plain; Rel t (MN t)]
  | APollEmpty =>
      [Acq t (MQ t); Acc t (LQueue t) false Plain; Rel t (MQ t)] ++
      (* helper mainLoop: jobId != -1 -> doSearch *)
      match t, pc (th s t) with
      | S _, PPoll KMain =>
          if negb (qa (th s t) =? 0)%Z && negb (job (th s t) =? -1)%Z then search_reads t else []
      | _, _ => []
      end
  | APop => [Acq t (MQ t); Acc t (LQueue t) false Plain; Acc t (LQueue t) true Plain; Rel t (MQ t)]
  | APush m => push_events t m
  | ANotifySelf => notify_events t t
  | AFinish =>
      if hasres (th s t) then []
      else match parent t with Some p => push_events t p | None => [] end
  | ARdQuit => [Acc t LQuit false Atomic]                 (* if (quitFlag) break; *)
  | ARdSearch =>
      (* if (search) doSearch(): sc, pos, moves, ... then options and the table are read *)
      Acc t LSearch false Atomic ::
      (if search s then Acc t LParams false Plain :: search_reads t else [])
  | AClear => [Acq t ME; Acc t LSearch true Atomic; Rel t ME]
  | ABest => [Acc t LPonder false Relaxed; Acc t LTT false Plain]   (* getPonderMove probes the table *)
  | AMaxDepth | AInitSearch | AStartJob | AStopSearch => []
  end.

Definition env_events (e : eact) : list tev :=
  match e with
  | EGo p =>
      (* stopThread: ponder = infinite = false; waitStop: lock; read search; unlock; [waitOptionsSet];
         startThread: reads UciParams, tt.nextGeneration(); EngineMainThread::startSearch: lock;
         write parameters; search = true; unlock *)
      [Acc uci LPonder true Relaxed; Acq uci ME; Acc uci LSearch false Atomic; Rel uci ME] ++
      (if go_waits p then [Acq uci ME; Acc uci LFin false Plain; Rel uci ME] else []) ++
      [Acc uci LOpt false Plain; Acc uci LTT true Plain;
       Acq uci ME; Acc uci LParams true Plain; Acc uci LSearch true Atomic; Rel uci ME]
  | ENotify => notify_events uci 0
  | EUnponder => [Acc uci LPonder true Relaxed]
  | ESpur => notify_events uci 0
  | EQuit => [Acq uci ME; Acc uci LQuit true Atomic; Rel uci ME]
  end.

Definition label_events (s : state) (lb : label) : list tev :=
  match lb with LT t a => act_events s t a | LE e => env_events e end.

Definition xevents (x : xstate) (xl : xlabel) : list tev :=
  match xl with
  | XL lb => label_events (base x) lb
  | XSetOpt =>
      [Acq uci ME; Acc uci LPend true Plain; Acc uci LFin true Plain; Rel uci ME] ++ notify_events uci 0
  | XTake =>
      if xpend x then [Acq 0 ME; Acc 0 LPend false Plain; Acc 0 LPend true Plain; Rel 0 ME]
      else [Acq 0 ME; Acc 0 LPend false Plain; Acc 0 LFin true Plain; Rel 0 ME]
  | XApply => [Acc 0 LOpt true Plain; Acc 0 LTT true Plain]
  | XWaitOpt => [Acq uci ME; Acc uci LFin false Plain; Rel uci ME]
  end.

(** run a schedule: final state and access trace (None if it is not a path) *)
Fixpoint xrun (x : xstate) (ls : list xlabel) : option (xstate * list tev) :=
  match ls with
  | [] => Some (x, [])
  | xl :: r =>
      match xstep x xl with
      | Some x' =>
          match xrun x' r with
          | Some (xf, tr) => Some (xf, xevents x xl ++ tr)
          | None => None
          end
      | None => None
      end
  end.

Definition trace_of (x : xstate) (ls : list xlabel) : option (list tev) :=
  option_map snd (xrun x ls).

End Acc.
