(** C10 — facts derived from the epoch invariant [InvE], shared by the preservation proofs. *)
From Coq Require Import ZArith List Bool Arith Lia.
From Texel Require Import Workers.Workers Workers.WorkersLemmas Workers.WorkersInv.
Import ListNotations.

Ltac eqb_cases :=
  repeat match goal with
  | |- context [Nat.eqb ?a ?b] => destruct (Nat.eqb_spec a b); try subst; try congruence
  | H : context [Nat.eqb ?a ?b] |- _ => destruct (Nat.eqb_spec a b); try subst; try congruence
  end.

Ltac crunch := ssimpl; unfold upd in *; eqb_cases; ssimpl.

Ltac phase_facts I :=
  let ph := fresh "ph" in let E1 := fresh "Eph" in let E2 := fresh "Eeq" in
  destruct (e_phase _ _ _ I) as (ph & E1 & E2);
  match goal with Hpc : pc (th _ 0) = _ |- _ => rewrite Hpc in E1 end; simpl in E1;
  try discriminate; injection E1 as <-; simpl in E2.
Ltac bar_facts :=
  match goal with Hb : (wc _ =? 0)%Z && negb (self _) = true |- _ =>
    let Hw := fresh "Hw" in let Hs := fresh "Hs" in
    apply andb_prop in Hb; destruct Hb as [Hw Hs]; apply Z.eqb_eq in Hw; apply negb_true_iff in Hs end.


Ltac ltb_eq :=
  match goal with |- (?a <? ?b) = (?c <? ?d) =>
    destruct (Nat.ltb_spec a b), (Nat.ltb_spec c d); auto; try lia end.

Section P.
Variable N : nat.
Variable parent : tid -> option tid.
Hypothesis Htree : tree_ok N parent.
Notation InvE := (InvE N parent).
Notation lstep := (lstep N parent).
Notation children := (children N parent).
Notation helper := (helper N).
Notation npending := (npending N parent).

Lemma helper_le : forall c, helper c -> c <= N.
Proof. unfold helper; lia. Qed.

Lemma helper_S : forall t, S t <= N -> helper (S t).
Proof. unfold helper; lia. Qed.

Lemma helper_leb : forall t, Nat.leb (S t) N = true -> helper (S t).
Proof. intros t H; apply Nat.leb_le in H; unfold helper; lia. Qed.

Lemma inv_se0 : forall s, InvE s -> se (th s 0) <= S (ae (th s 0)) /\ ae (th s 0) <= se (th s 0) /\
                                     sid s <= S (ae (th s 0)) /\ ae (th s 0) <= sid s.
Proof.
  intros s I. destruct (e_phase _ _ _ I) as (ph & _ & E). destruct ph; simpl in E; lia.
Qed.

Lemma inv_child_le : forall s c p, InvE s -> helper c -> parent c = Some p ->
  se (th s c) <= se (th s p).
Proof. intros s c p I Hc Hp. pose proof (e_s1 _ _ _ I c p Hc Hp). lia. Qed.

Lemma parent_le : forall c p, helper c -> parent c = Some p -> p <= N /\ p < c.
Proof.
  intros c p Hc Hp. destruct (Htree c Hc) as (p' & E & L). rewrite Hp in E; injection E as <-.
  unfold helper in Hc; lia.
Qed.

Lemma child_settled : forall s p c, InvE s -> p <= N -> wc (th s p) = 0%Z ->
  helper c -> parent c = Some p ->
  ae (th s c) = se (th s p) /\ se (th s c) = se (th s p) /\ acks c (qu s p) = 0.
Proof.
  intros s p c I Hp Hwc Hc Hpar.
  pose proof (e_w1 _ _ _ I p Hp) as W1. rewrite Hwc in W1.
  assert (Z0 : npending s p = 0) by lia.
  unfold WorkersInv.npending in Z0.
  pose proof (count_zero _ _ Z0 c) as Hz.
  assert (Hin : In c (children p)) by (apply in_children; auto).
  specialize (Hz Hin). unfold pendingb in Hz. apply Nat.ltb_ge in Hz.
  destruct (e_g2 _ _ _ I c Hc) as (_ & G2 & _).
  pose proof (inv_child_le s c p I Hc Hpar). lia.
Qed.

Lemma barrier_all : forall s, InvE s -> wc (th s 0) = 0%Z ->
  forall n c, c <= n -> helper c -> ae (th s c) = se (th s 0) /\ se (th s c) = se (th s 0).
Proof.
  intros s I Hwc. induction n as [|n IH]; intros c Hcn Hc.
  - unfold helper in Hc; lia.
  - destruct (Htree c Hc) as (p & Hp & Lt).
    destruct p as [|p'].
    + destruct (child_settled s 0 c I (Nat.le_0_l _) Hwc Hc Hp) as (A & B & _). auto.
    + assert (Hph : helper (S p')) by (unfold helper in *; lia).
      destruct (IH (S p') ltac:(lia) Hph) as (A & B).
      destruct (e_a1 _ _ _ I (S p') Hph ltac:(lia)) as (_ & W & _).
      destruct (child_settled s (S p') c I (helper_le _ Hph) W Hc Hp) as (A' & B' & _). lia.
Qed.

Lemma barrier_noacks : forall s, InvE s -> wc (th s 0) = 0%Z ->
  forall c p, helper c -> parent c = Some p -> acks c (qu s p) = 0.
Proof.
  intros s I Hwc c p Hc Hp.
  destruct (parent_le c p Hc Hp) as (HpN & _).
  destruct p as [|p'].
  - now destruct (child_settled s 0 c I HpN Hwc Hc Hp) as (_ & _ & A).
  - assert (Hph : helper (S p')) by (unfold helper in *; lia).
    destruct (barrier_all s I Hwc (S p') (S p') (le_n _) Hph) as (A & B).
    destruct (e_a1 _ _ _ I (S p') Hph ltac:(lia)) as (_ & W & _).
    now destruct (child_settled s (S p') c I HpN W Hc Hp) as (_ & _ & A').
Qed.

(** in a phase with se0 = ae0 every helper is at the same epoch *)

Lemma quiet_all : forall s, InvE s -> se (th s 0) = ae (th s 0) ->
  forall c, helper c -> ae (th s c) = se (th s 0) /\ se (th s c) = se (th s 0).
Proof.
  intros s I E c Hc.
  destruct (e_g1 _ _ _ I c (helper_le _ Hc)). destruct (e_g2 _ _ _ I c Hc) as (? & ? & ?). lia.
Qed.

Lemma stop_head_lag : forall s c p r, InvE s -> helper c -> parent c = Some p -> qu s c = CStop :: r ->
  se (th s c) = ae (th s 0) /\ se (th s p) = S (ae (th s 0)) /\ se (th s 0) = S (ae (th s 0)) /\
  stops r = 0 /\ owes (pc (th s p)) c = false.
Proof.
  intros s c p r I Hc Hp Hq.
  pose proof (e_s1 _ _ _ I c p Hc Hp) as S1. rewrite Hq, stops_cons in S1. simpl in S1.
  destruct (parent_le c p Hc Hp) as (HpN & _).
  destruct (e_g1 _ _ _ I p HpN). destruct (e_g1 _ _ _ I c (helper_le _ Hc)).
  destruct (inv_se0 s I) as (? & ? & ? & ?).
  destruct (owes (pc (th s p)) c); simpl in S1; repeat split; try lia; auto.
Qed.

Lemma fwd_push_facts : forall s t w k rest x, InvE s -> t <= N ->
  pc (th s t) = PFwd w k rest -> mem_tid x rest = true ->
  helper x /\ parent x = Some t /\ x <> t /\
  (fwd_purge w = true -> stops (qu s x) = 0) /\
  (w = FStop -> se (th s t) = S (se (th s x))) /\
  (fwd_startish w -> se (th s x) = se (th s t) /\ S (se (th s t)) = sid s /\ stops (qu s x) = 0).
Proof.
  intros s t w k rest x I Ht Hpc Hm.
  destruct (e_fwd _ _ _ I t w k rest Ht Hpc) as (_ & _ & Hin).
  apply mem_tid_In in Hm. specialize (Hin x Hm). apply in_children in Hin. destruct Hin as (Hx & Hp).
  destruct (parent_le x t Hx Hp) as (_ & Hlt).
  pose proof (e_s1 _ _ _ I x t Hx Hp) as S1. rewrite Hpc in S1.
  destruct (e_g1 _ _ _ I t Ht) as (G1a & G1b). destruct (e_g1 _ _ _ I x (helper_le _ Hx)) as (G1c & G1d).
  destruct (inv_se0 s I) as (? & ? & ? & ?).
  assert (Hst : fwd_startish w -> se (th s x) = se (th s t) /\ S (se (th s t)) = sid s /\ stops (qu s x) = 0).
  { intros Hw. pose proof (e_j3 _ _ _ I t w k rest Ht Hpc Hw) as J3.
    assert (owes (PFwd w k rest) x = false) as Ho by (destruct Hw as [->|(j & ->)]; reflexivity).
    rewrite Ho in S1. simpl in S1. lia. }
  assert (Hsp : w = FStop -> se (th s t) = S (se (th s x)) /\ stops (qu s x) = 0).
  { intros ->. simpl in S1. apply mem_tid_In in Hm. rewrite Hm in S1. simpl in S1. lia. }
  repeat split; auto; try lia.
  - intros Hpg. destruct w; try discriminate.
    + apply Hst. right; eauto.
    + now apply Hsp.
  - intros ->. now apply Hsp.
  - apply Hst; auto.
  - apply Hst; auto.
  - apply Hst; auto.
Qed.

Lemma count_pos : forall (f : tid -> bool) l x, In x l -> f x = true -> 1 <= length (filter f l).
Proof.
  induction l as [|a l IH]; simpl; intros x Hin Hf; [tauto|].
  destruct Hin as [->|Hin].
  - rewrite Hf; simpl; lia.
  - destruct (f a); simpl; [lia|eauto].
Qed.

Lemma ack_head_facts : forall s t f l, InvE s -> t <= N -> qu s t = CStopAck f :: l ->
  helper f /\ parent f = Some t /\ acks f l = 0 /\ ae (th s f) = se (th s t) /\
  se (th s f) = se (th s t) /\ se (th s t) = S (ae (th s 0)) /\
  pendingb s t f = true /\ (1 <= wc (th s t))%Z.
Proof.
  intros s t f l I Ht Hq.
  assert (Hin : In (CStopAck f) (qu s t)) by (rewrite Hq; left; auto).
  destruct (e_snd _ _ _ I t _ Ht Hin) as (Hp & Hf).
  pose proof (e_w2 _ _ _ I f t Hf Hp) as W2.
  pose proof (e_w3 _ _ _ I f t Hf Hp) as W3.
  rewrite Hq, acks_cons in W2, W3. simpl in W2, W3. rewrite Nat.eqb_refl in W2, W3.
  specialize (W3 ltac:(lia)).
  destruct (e_g2 _ _ _ I f Hf) as (? & ? & ?).
  pose proof (inv_child_le s f t I Hf Hp).
  assert (Hpd : pendingb s t f = true).
  { unfold pendingb. rewrite Hq, acks_cons. simpl. rewrite Nat.eqb_refl. apply Nat.ltb_lt. lia. }
  assert (Hwc : (1 <= wc (th s t))%Z).
  { rewrite (e_w1 _ _ _ I t Ht). unfold WorkersInv.npending.
    assert (Hic : In f (children t)) by (apply in_children; auto).
    pose proof (count_pos (pendingb s t) (children t) f Hic Hpd). lia. }
  split; [auto|]. split; [auto|]. split; [lia|]. split; [lia|]. split; [lia|]. split; [lia|]. split; auto.
Qed.

Lemma startfree_sclean : forall l, startfree l -> sclean l.
Proof.
  induction l as [|m l IH]; simpl; auto. intros H.
  assert (startfree l) by (intros x Hx; apply H; right; auto).
  destruct m; auto.
Qed.

Lemma sclean_tail : forall m l, sclean (m :: l) -> sclean l.
Proof. intros m l H. destruct m; simpl in H; auto. now apply startfree_sclean. Qed.

Lemma sclean_app_nostop : forall l m, stops l = 0 -> m <> CStop -> sclean (l ++ [m]).
Proof.
  induction l as [|a l IH]; simpl; intros m H Hm.
  - destruct m; simpl; auto. congruence.
  - rewrite stops_cons in H. destruct a; simpl in *; try (apply IH; auto; lia). lia.
Qed.

Lemma sclean_app_stop : forall l, stops l = 0 -> sclean (l ++ [CStop]).
Proof.
  induction l as [|a l IH]; simpl; intros H.
  - intros m [].
  - rewrite stops_cons in H. destruct a; simpl in *; try (apply IH; auto; lia). lia.
Qed.

Lemma startfree_app : forall l m, startfree l -> ~ is_startish m -> startfree (l ++ [m]).
Proof.
  intros l m H Hm x Hx. apply in_app_or in Hx. destruct Hx as [Hx|[<-|[]]]; auto.
Qed.

Lemma sclean_app_other : forall l m, sclean l -> ~ is_startish m -> sclean (l ++ [m]).
Proof.
  induction l as [|a l IH]; simpl; intros m H Hm.
  - destruct m; simpl; auto. intros x [].
  - destruct a; simpl in *; auto. now apply startfree_app.
Qed.

Lemma w1_frame : forall s s' p, InvE s -> p <= N -> wc (th s' p) = wc (th s p) ->
  (forall y, helper y -> parent y = Some p -> y <> 0 -> p < y -> pendingb s' p y = pendingb s p y) ->
  wc (th s' p) = Z.of_nat (npending s' p).
Proof.
  intros s s' p I Hp Hwc Hpd. rewrite Hwc, (e_w1 _ _ _ I p Hp). f_equal.
  unfold WorkersInv.npending. apply count_ext. intros y Hy.
  apply in_children in Hy. destruct Hy as (Hy & Hyp). symmetry. apply Hpd; auto.
  - unfold WorkersInv.helper in Hy; lia.
  - now destruct (parent_le y p Hy Hyp).
Qed.

Lemma w1_enter_round : forall s s' p, InvE s -> p <= N ->
  se (th s' p) = S (se (th s p)) -> wc (th s' p) = nchildren N parent p ->
  (forall y, ae (th s' y) = ae (th s y)) ->
  wc (th s' p) = Z.of_nat (npending s' p).
Proof.
  intros s s' p I Hp Hse Hwc Hae. rewrite Hwc. unfold nchildren, WorkersInv.npending. f_equal.
  symmetry. apply count_all. intros y Hy. apply in_children in Hy. destruct Hy as (Hy & Hyp).
  unfold pendingb. apply Nat.ltb_lt. rewrite Hae, Hse.
  destruct (e_g2 _ _ _ I y Hy) as (_ & ? & _). pose proof (inv_child_le s y p I Hy Hyp). lia.
Qed.

Lemma w1_pop_ack : forall s s' p f l, InvE s -> p <= N ->
  qu s p = CStopAck f :: l -> qu s' p = l -> wc (th s' p) = (wc (th s p) - 1)%Z ->
  se (th s' p) = se (th s p) -> (forall y, ae (th s' y) = ae (th s y)) ->
  wc (th s' p) = Z.of_nat (npending s' p).
Proof.
  intros s s' p f l I Hp Hq Hq' Hwc Hse Hae.
  destruct (ack_head_facts s p f l I Hp Hq) as (Hf & Hfp & Ha0 & Haf & _ & _ & Hpd & _).
  rewrite Hwc, (e_w1 _ _ _ I p Hp). unfold WorkersInv.npending.
  assert (Hin : In f (children p)) by (apply in_children; auto).
  rewrite (count_flip (pendingb s p) (pendingb s' p) (children p) f (NoDup_children _ _ _) Hin Hpd).
  - lia.
  - unfold pendingb. rewrite Hae, Hse, Hq', Ha0. apply Nat.ltb_ge. lia.
  - intros y Hy Hne. unfold pendingb. rewrite Hae, Hse, Hq', Hq, acks_cons. simpl.
    destruct (Nat.eqb_spec f y); [congruence|]. reflexivity.
Qed.

End P.
