(** C10 — [InvD] is inductive (relative to [InvE]). *)
From Coq Require Import ZArith List Bool Arith Lia.
From Texel Require Import Workers.Workers Workers.WorkersLemmas Workers.WorkersInv Workers.WorkersInvProofs Workers.WorkersTac Workers.WorkersJob Workers.WorkersDead.
Import ListNotations.
Section P.
Variable N : nat.
Variable parent : tid -> option tid.
Hypothesis Htree : tree_ok N parent.
Notation InvE := (InvE N parent).
Notation InvD := (InvD N).
Notation lstep := (lstep N parent).
Notation helper := (helper N).

Lemma helper_ne0d : forall c, helper c -> c <> 0.
Proof. unfold WorkersInv.helper; lia. Qed.

Lemma stepd_kind : forall s lb s', InvD s -> lstep s lb = Some s' ->
  forall c, helper c -> hkind (pc (th s' c)) = true.
Proof.
  intros s lb s' D H c Hc. pose proof (d_kind _ _ D c Hc) as K. pose proof (helper_ne0d c Hc).
  step_inv_fine H; crunch; use_eqs; cbn [hkind] in *; auto; try congruence.
Qed.

Lemma mquit_absorb : forall s lb s', lstep s lb = Some s' -> mquit (pc (th s 0)) = true -> mquit (pc (th s' 0)) = true.
Proof.
  intros s lb s' H. step_inv_fine H; crunch; use_eqs; cbn [mquit] in *; auto; try discriminate.
  all: try (intros X; repeat match type of X with context [match ?x with _ => _ end] => destruct x; try discriminate end; auto).
Qed.

Lemma stepd_quit : forall s lb s', InvE s -> InvD s -> lstep s lb = Some s' ->
  mquit (pc (th s' 0)) = false -> forall c, helper c ->
    qa (th s' c) = (-1)%Z /\ (forall m, In m (qu s' c) -> is_quitmsg m = false) /\
    pcquit (pc (th s' c)) = false.
Proof.
  intros s lb s' I D H Hm c Hc.
  assert (Hm0 : mquit (pc (th s 0)) = false).
  { destruct (mquit (pc (th s 0))) eqn:E; auto. rewrite (mquit_absorb s lb s' H E) in Hm. discriminate. }
  pose proof (d_quit _ _ D Hm0) as Q. pose proof (helper_ne0d c Hc) as Hc0.
  destruct (Q c Hc) as (Q1 & Q2 & Q3).
  step_inv_fine H.
  (* facts about the acting helper *)
  all: try match goal with Hl : Nat.leb (S ?t) N = true |- _ =>
         destruct (Q (S t) (helper_leb _ _ Hl)) as (T1 & T2 & T3) end.
  all: try match goal with Hq : qu _ (S ?t) = ?m :: _ |- _ =>
         pose proof (T2 m) as T4; rewrite Hq in T4; specialize (T4 (or_introl eq_refl)); cbn in T4 end.
  all: try match goal with Hpc : pc (th _ (S ?t)) = _ |- _ => rewrite Hpc in T3; cbn in T3 end.
  all: try discriminate.
  all: try pcs_facts I.
  all: try match goal with w : fwd |- _ => destruct w end; cbn [fwd_purge fwd_cmd] in *; try discriminate.
  all: try (phase_facts' I; crunch; cbn [mquit] in Hm; discriminate).
  all: crunch; use_eqs; cbn [pcquit mquit] in *; auto; try discriminate.
  all: repeat split; auto; try discriminate; try lia.
  all: try (intros m Hin; try (apply in_app_or in Hin; destruct Hin as [Hin|[<-|[]]]);
            try (apply in_purge in Hin; destruct Hin as (Hin & _)); auto; try reflexivity;
            try (apply Q2; auto; right; auto; fail)).
Qed.

Lemma stepd_round : forall s lb s', InvE s -> InvD s -> lstep s lb = Some s' ->
  forall c, helper c -> se (th s' c) = S (ae (th s' c)) ->
    self (th s' c) = true \/ (0 < wc (th s' c))%Z \/ sendack (pc (th s' c)) = true.
Proof.
  intros s lb s' I D H c Hc.
  pose proof (d_round _ _ D c Hc) as R. pose proof (helper_ne0d c Hc) as Hc0.
  pose proof (e_w1 _ _ _ I c (helper_le _ _ Hc)) as W1.
  pose proof (e_g2 _ _ _ I c Hc) as G2.
  step_inv_fine H; crunch; use_eqs; cbn [sendack] in *; auto.
  all: intros E; boolfacts; auto.
  all: try lia.
  all: try (destruct (R ltac:(lia)) as [R1|[R1|R1]]; auto; try congruence; try discriminate; try lia; fail).
  all: try match goal with X : _ && _ = false |- _ => apply andb_false_iff in X; destruct X as [X|X]; boolfacts end.
  all: try (ack_facts I; right; left; lia).
  all: try (left; assumption).
  all: try (pcs_facts I; fail).
Qed.

Lemma stepd_m : forall s lb s', InvE s -> InvD s -> lstep s lb = Some s' ->
  ((pc (th s' 0) = PPoll KAck \/ pc (th s' 0) = PWait KAck) -> self (th s' 0) = false) /\
  (pc (th s' 0) = PWait KAck -> wc (th s' 0) <> 0%Z).
Proof.
  intros s lb s' I D H.
  pose proof (d_mself _ _ D) as M1. pose proof (d_mwait _ _ D) as M2.
  step_inv_fine H; crunch; use_eqs; auto.
  all: split; try (intros [E|E]; try discriminate; auto); try (intros E; try discriminate; auto).
  all: boolfacts; auto.
  all: try (rewrite (M1 (or_introl eq_refl)) in *; apply andb_false_iff in Heqb; destruct Heqb as [X|X];
            [apply Z.eqb_neq in X; auto | discriminate]).
  all: try (phase_facts' I; cbn in *; auto; try discriminate; fail).
Qed.

Lemma InvD_init : InvD init.
Proof.
  constructor; unfold init; cbn [th qu flag sid nbest search]; intros.
  all: try (cbn in *; auto; try tauto; try discriminate; try lia; fail).
  all: try (dmatch; cbn in *; try discriminate; try tauto; try lia; auto; fail).
  destruct c; cbn; auto. unfold WorkersInv.helper in *; lia.
Qed.

Theorem InvD_step : forall s lb s', InvE s -> InvD s -> lstep s lb = Some s' -> InvD s'.
Proof.
  intros s lb s' I D H.
  destruct (stepd_m s lb s' I D H) as (M1 & M2).
  constructor; auto.
  - eapply stepd_kind; eauto.
  - eapply stepd_quit; eauto.
  - eapply stepd_round; eauto.
Qed.

End P.
