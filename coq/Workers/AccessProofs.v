(** C09 — lock discipline of the control LTS: every plain access to a mailbox or a notifier flag
    is made inside a critical section of that object's mutex, hence no schedule has a data race
    on those locations; and the F9 schedules: races on [search] / [quitFlag]. *)
From Coq Require Import ZArith List Bool Arith Lia Relations.
From Texel Require Import Workers.Workers Workers.Race Workers.RaceProofs Workers.Access.
Import ListNotations.

Definition guarded (l : loc) : bool :=
  match l with LQueue _ | LFlag _ => true | _ => false end.
Definition mof (l : loc) : mutex :=
  match l with LQueue x => MQ x | LFlag x => MN x | _ => ME end.

Definition rm_mutex (m : mutex) (l : list mutex) : list mutex :=
  filter (fun x => negb (mutex_eqb m x)) l.

(** one transition's events: all by thread t, every guarded plain access under its mutex,
    every acquired mutex released again *)
Fixpoint blk_ok (t : tid) (held : list mutex) (l : list tev) : bool :=
  match l with
  | [] => match held with [] => true | _ => false end
  | Acq t' m :: r => Nat.eqb t' t && blk_ok t (m :: held) r
  | Rel t' m :: r => Nat.eqb t' t && mem_mutex m held && blk_ok t (rm_mutex m held) r
  | Acc t' lc w a :: r =>
      Nat.eqb t' t && (if guarded lc then mem_mutex (mof lc) held else true) &&
      (match lc with LPonder => a | _ => true end) &&
      blk_ok t held r
  end.

Lemma blk_tid : forall t l held, blk_ok t held l = true ->
  forall k e, nth_error l k = Some e -> ev_tid e = t.
Proof.
  induction l as [|x l IH]; intros held H k e Hk; [destruct k; discriminate|].
  destruct x; simpl in H; repeat (apply andb_prop in H; destruct H as [H ?]);
    (destruct k; simpl in Hk; [injection Hk as <-; simpl; now apply Nat.eqb_eq | eapply IH; eauto]).
Qed.

Lemma in_rm_mutex : forall m x l, In x l -> x <> m -> In x (rm_mutex m l).
Proof.
  intros m x l Hin Hne. unfold rm_mutex. apply filter_In. split; auto.
  destruct (mutex_eqb m x) eqn:E; auto. apply mutex_eqb_eq in E. congruence.
Qed.

Lemma rel_after : forall t l held m, blk_ok t held l = true -> In m held ->
  exists r, nth_error l r = Some (Rel t m).
Proof.
  induction l as [|x l IH]; intros held m H Hin; simpl in H.
  - destruct held; [destruct Hin | discriminate].
  - destruct x as [t' lc w a|t' m'|t' m'].
    + repeat (apply andb_prop in H; destruct H as [H ?]).
      destruct (IH held m H0 Hin) as (r & Hr). exists (S r). auto.
    + apply andb_prop in H. destruct H as [H1 H2].
      destruct (IH (m' :: held) m H2 (or_intror Hin)) as (r & Hr). exists (S r). auto.
    + repeat (apply andb_prop in H; destruct H as [H ?]).
      apply Nat.eqb_eq in H. subst t'.
      destruct (mutex_eqb m' m) eqn:E.
      * apply mutex_eqb_eq in E. subst. exists 0. reflexivity.
      * assert (In m (rm_mutex m' held)).
        { apply in_rm_mutex; auto. intros ->. rewrite (proj2 (mutex_eqb_eq m' m') eq_refl) in E. discriminate. }
        destruct (IH _ m H0 H) as (r & Hr). exists (S r). auto.
Qed.

Lemma blk_access : forall t l held i lc w at0, blk_ok t held l = true ->
  nth_error l i = Some (Acc t lc w at0) -> guarded lc = true ->
  (In (mof lc) held \/ exists a, a < i /\ nth_error l a = Some (Acq t (mof lc))) /\
  (exists r, i < r /\ nth_error l r = Some (Rel t (mof lc))).
Proof.
  induction l as [|x l IH]; intros held i lc w at0 H Hi Hg; [destruct i; discriminate|].
  destruct i as [|i].
  - simpl in Hi. injection Hi as ->. simpl in H. rewrite Hg in H.
    assert (Hm : mem_mutex (mof lc) held = true /\ blk_ok t held l = true)
      by (repeat (apply andb_prop in H; destruct H as [H ?]); split; assumption).
    destruct Hm as (H1 & H0).
    apply mem_mutex_In in H1. split; auto.
    destruct (rel_after t l held _ H0 H1) as (r & Hr). exists (S r). split; [lia|auto].
  - simpl in Hi. destruct x as [t' lc' w' a'|t' m'|t' m']; simpl in H.
    + repeat (apply andb_prop in H; destruct H as [H ?]).
      destruct (IH held i lc w at0 H0 Hi Hg) as ([A|(a & Ha & Ea)] & (r & Hr & Er)).
      * split; auto. exists (S r). split; [lia|auto].
      * split; [right; exists (S a); split; [lia|auto]|]. exists (S r). split; [lia|auto].
    + apply andb_prop in H. destruct H as [H1 H2]. apply Nat.eqb_eq in H1. subst t'.
      destruct (IH (m' :: held) i lc w at0 H2 Hi Hg) as ([A|(a & Ha & Ea)] & (r & Hr & Er)).
      * destruct A as [A|A]; [subst m'|].
        -- split; [right; exists 0; split; [lia|reflexivity]|]. exists (S r). split; [lia|auto].
        -- split; auto. exists (S r). split; [lia|auto].
      * split; [right; exists (S a); split; [lia|auto]|]. exists (S r). split; [lia|auto].
    + repeat (apply andb_prop in H; destruct H as [H ?]).
      destruct (IH _ i lc w at0 H0 Hi Hg) as ([A|(a & Ha & Ea)] & (r & Hr & Er)).
      * unfold rm_mutex in A. apply filter_In in A. destruct A as (A & _).
        split; auto. exists (S r). split; [lia|auto].
      * split; [right; exists (S a); split; [lia|auto]|]. exists (S r). split; [lia|auto].
Qed.

Lemma blk_ponder : forall t l held i t' w a, blk_ok t held l = true ->
  nth_error l i = Some (Acc t' LPonder w a) -> a = true.
Proof.
  induction l as [|x l IH]; intros held i t' w a H Hi; [destruct i; discriminate|].
  destruct i as [|i]; simpl in Hi.
  - injection Hi as ->. simpl in H. repeat (apply andb_prop in H; destruct H as [H ?]). auto.
  - destruct x; simpl in H; repeat (apply andb_prop in H; destruct H as [H ?]); eapply IH; eauto.
Qed.

(** trace-level property: each guarded plain access sits inside a same-thread stretch that
    contains an earlier acquire and a later release of its mutex *)
Definition good (tr : list tev) : Prop :=
  forall i t lc w at0, nth_error tr i = Some (Acc t lc w at0) -> guarded lc = true ->
    (exists r, i < r /\ nth_error tr r = Some (Rel t (mof lc)) /\
               forall k e, i <= k <= r -> nth_error tr k = Some e -> ev_tid e = t) /\
    (exists a, a < i /\ nth_error tr a = Some (Acq t (mof lc)) /\
               forall k e, a <= k <= i -> nth_error tr k = Some e -> ev_tid e = t).

Lemma good_app : forall t B rest, blk_ok t [] B = true -> good rest -> good (B ++ rest).
Proof.
  intros t B rest HB HR i t' lc w at0 Hi Hg.
  destruct (Nat.lt_ge_cases i (length B)) as [Hlt|Hge].
  - rewrite nth_error_app1 in Hi by auto.
    assert (t' = t) by (apply (blk_tid t B [] HB i _ Hi)). subst t'.
    destruct (blk_access t B [] i lc w at0 HB Hi Hg) as ([[]|(a & Ha & Ea)] & (r & Hr & Er)).
    assert (Hrl : r < length B) by (apply nth_error_Some; congruence).
    split.
    + exists r. split; auto. split; [rewrite nth_error_app1; auto|].
      intros k e Hk He. rewrite nth_error_app1 in He by lia. apply (blk_tid t B [] HB k e He).
    + exists a. split; auto. split; [rewrite nth_error_app1; auto; lia|].
      intros k e Hk He. rewrite nth_error_app1 in He by lia. apply (blk_tid t B [] HB k e He).
  - rewrite nth_error_app2 in Hi by auto.
    destruct (HR _ _ _ _ _ Hi Hg) as ((r & Hr & Er & Sr) & (a & Ha & Ea & Sa)). split.
    + exists (length B + r). split; [lia|]. split.
      * rewrite nth_error_app2 by lia. replace (length B + r - length B) with r by lia. auto.
      * intros k e Hk He. rewrite nth_error_app2 in He by lia. apply (Sr (k - length B) e); auto. lia.
    + exists (length B + a). split; [lia|]. split.
      * rewrite nth_error_app2 by lia. replace (length B + a - length B) with a by lia. auto.
      * intros k e Hk He. rewrite nth_error_app2 in He by lia. apply (Sa (k - length B) e); auto. lia.
Qed.

Lemma good_nil : good [].
Proof. intros i t lc w at0 Hi. destruct i; discriminate. Qed.

Section L.
Variable N : nat.
Variable parent : tid -> option tid.

Ltac blk := repeat (cbn; rewrite ?Nat.eqb_refl); try reflexivity.
Lemma push_blk : forall t x, blk_ok t [] (push_events t x) = true.
Proof. intros. blk. Qed.
Lemma notify_blk : forall t x, blk_ok t [] (notify_events t x) = true.
Proof. intros. blk. Qed.

Lemma label_blk : forall s lb, exists t, blk_ok t [] (label_events N parent s lb) = true.
Proof.
  intros s [t a|e].
  - exists t. destruct a; try (blk; fail).
    + simpl. destruct (hasres (th s t)); [reflexivity|]. destruct (parent t); [apply push_blk|reflexivity].
    + simpl. destruct (quitf s); blk.
    + simpl. destruct (search s); blk.
  - exists (uci N). destruct e; blk.
Qed.

Lemma trace_good : forall ls s tr, trace_of N parent s ls = Some tr -> good tr.
Proof.
  induction ls as [|lb ls IH]; intros s tr H; simpl in H.
  - injection H as <-. apply good_nil.
  - destruct (lstep N parent s lb) as [s'|]; [|discriminate].
    destruct (trace_of N parent s' ls) as [tr'|] eqn:E; [|discriminate].
    injection H as <-. destruct (label_blk s lb) as (t & Ht).
    eapply good_app; eauto.
Qed.
End L.

(** ---- from the lock discipline to race freedom ---- *)
Lemma conflictb_inv : forall a b, conflictb a b = true ->
  exists t1 l w1 a1 t2 w2 a2, a = Acc t1 l w1 a1 /\ b = Acc t2 l w2 a2 /\ t1 <> t2 /\
                              (a1 && a2 = false).
Proof.
  intros a b H. destruct a as [t1 l1 w1 a1| |]; try discriminate.
  destruct b as [t2 l2 w2 a2| |]; try discriminate. simpl in H.
  repeat (apply andb_prop in H; destruct H as [H ?]).
  apply loc_eqb_eq in H. subst l2. apply negb_true_iff in H2. apply Nat.eqb_neq in H2.
  apply negb_true_iff in H0. exists t1, l1, w1, a1, t2, w2, a2. auto.
Qed.

Theorem good_no_race : forall tr, good tr -> ~ race_on tr guarded.
Proof.
  intros tr G (i & j & a & b & Hij & Ha & Hb & Hc & Hs & Hn).
  destruct (conflictb_inv a b Hc) as (t1 & l & w1 & a1 & t2 & w2 & a2 & -> & -> & Hne & _).
  simpl in Hs. unfold at_ in *.
  destruct (G i t1 l w1 a1 Ha Hs) as ((r & Hr & Er & Sr) & _).
  destruct (G j t2 l w2 a2 Hb Hs) as (_ & (q & Hq & Eq & Sq)).
  (* r < q: the two same-thread stretches cannot overlap *)
  assert (Hjr : r < j).
  { destruct (Nat.lt_ge_cases r j); auto. exfalso.
    assert (X : ev_tid (Acc t2 l w2 a2) = t1) by (apply (Sr j); auto; lia). simpl in X. congruence. }
  assert (Hrq : r < q).
  { destruct (Nat.lt_ge_cases r q); auto. exfalso.
    assert (X : ev_tid (Rel t1 (mof l)) = t2) by (apply (Sq r); auto; lia). simpl in X. congruence. }
  apply Hn.
  apply t_trans with r.
  - apply t_step. left. split; auto. exists (Acc t1 l w1 a1), (Rel t1 (mof l)). auto.
  - apply t_trans with q.
    + apply t_step. right. split; auto. exists t1, t2, (mof l). auto.
    + apply t_step. left. split; auto. exists (Acq t2 (mof l)), (Acc t2 l w2 a2). auto.
Qed.

(** the ponder / infinite flags are only accessed atomically *)
Definition ponder_atomic (tr : list tev) : Prop :=
  forall i t w a, nth_error tr i = Some (Acc t LPonder w a) -> a = true.

Lemma ponder_app : forall t B rest, blk_ok t [] B = true -> ponder_atomic rest -> ponder_atomic (B ++ rest).
Proof.
  intros t B rest HB HR i t' w a Hi.
  destruct (Nat.lt_ge_cases i (length B)).
  - rewrite nth_error_app1 in Hi by auto. eapply blk_ponder; eauto.
  - rewrite nth_error_app2 in Hi by auto. eapply HR; eauto.
Qed.

Lemma trace_ponder : forall N parent ls s tr, trace_of N parent s ls = Some tr -> ponder_atomic tr.
Proof.
  induction ls as [|lb ls IH]; intros s tr H; simpl in H.
  - injection H as <-. intros i t w a Hi. destruct i; discriminate.
  - destruct (lstep N parent s lb) as [s'|]; [|discriminate].
    destruct (trace_of N parent s' ls) as [tr'|] eqn:E; [|discriminate].
    injection H as <-. destruct (label_blk N parent s lb) as (t & Ht).
    eapply ponder_app; eauto.
Qed.

(** ---- the theorems ---- *)

(** for every number of helpers, tree and schedule: no data race on any mailbox or notifier flag *)
Theorem model_guarded_drf : forall N parent s ls tr,
  trace_of N parent s ls = Some tr -> ~ race_on tr guarded.
Proof. intros. apply good_no_race. eapply trace_good; eauto. Qed.

(** ... and the only locations of the model on which any schedule can race are [search],
    [quitFlag] and the search parameters handed over together with [search] *)
Definition f9_loc (l : loc) : bool :=
  match l with LSearch | LQuit | LParams => true | _ => false end.

Theorem model_races_only_f9 : forall N parent s ls tr,
  trace_of N parent s ls = Some tr -> ~ race_on tr (fun l => negb (f9_loc l)).
Proof.
  intros N parent s ls tr H (i & j & a & b & Hij & Ha & Hb & Hc & Hs & Hn).
  destruct (conflictb_inv a b Hc) as (t1 & l & w1 & a1 & t2 & w2 & a2 & -> & -> & Hne & Hat).
  simpl in Hs. destruct l; simpl in Hs; try discriminate.
  - apply (model_guarded_drf N parent s ls tr H). exists i, j, (Acc t1 (LQueue t) w1 a1), (Acc t2 (LQueue t) w2 a2).
    repeat split; auto.
  - apply (model_guarded_drf N parent s ls tr H). exists i, j, (Acc t1 (LFlag t) w1 a1), (Acc t2 (LFlag t) w2 a2).
    repeat split; auto.
  - pose proof (trace_ponder N parent ls s tr H) as P. unfold at_ in *.
    rewrite (P i _ _ _ Ha), (P j _ _ _ Hb) in Hat. discriminate.
Qed.

(** F9: EngineMainThread::mainLoop reads [search] and [quitFlag] without the mutex that guards
    their writers; after a stale notification (setoption followed at once by go / quit) the read
    is concurrent with the write *)
Definition par0 : tid -> option tid := fun _ => None.
Definition is_search (l : loc) : bool := match l with LSearch => true | _ => false end.
Definition is_quit (l : loc) : bool := match l with LQuit => true | _ => false end.
Definition is_params (l : loc) : bool := match l with LParams => true | _ => false end.
Definition f9_search_sched : list label :=
  [LE ESpur; LT 0 AWait; LT 0 ARdQuit; LE (EGo false); LT 0 ARdSearch].
Definition f9_quit_sched : list label :=
  [LE ESpur; LT 0 AWait; LE EQuit; LT 0 ARdQuit].

Theorem model_drf_refuted :
  (exists tr, trace_of 0 par0 init f9_search_sched = Some tr /\ race_on tr is_search /\ race_on tr is_params) /\
  (exists tr, trace_of 0 par0 init f9_quit_sched = Some tr /\ race_on tr is_quit).
Proof.
  split.
  - destruct (trace_of 0 par0 init f9_search_sched) as [tr|] eqn:E; [|vm_compute in E; discriminate].
    exists tr. split; auto. vm_compute in E. injection E as <-.
    split; apply raceb_on_spec; vm_compute; reflexivity.
  - destruct (trace_of 0 par0 init f9_quit_sched) as [tr|] eqn:E; [|vm_compute in E; discriminate].
    exists tr. split; auto. vm_compute in E. injection E as <-.
    apply raceb_on_spec; vm_compute; reflexivity.
Qed.
