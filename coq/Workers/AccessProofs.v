(** C09 — lock discipline of the control LTS: every access to a mailbox, a notifier flag,
    pendingOptions or optionsSetFinished is made inside a critical section of the guarding mutex,
    and search / quitFlag / ponder are only accessed atomically: no schedule has a data race on
    any of those locations. *)
From Coq Require Import ZArith List Bool Arith Lia Relations.
From Texel Require Import Workers.Workers Workers.Race Workers.RaceProofs Workers.Access.
Import ListNotations.

Definition guarded (l : loc) : bool :=
  match l with LQueue _ | LFlag _ | LPend | LFin => true | _ => false end.
Definition mof (l : loc) : mutex :=
  match l with LQueue x => MQ x | LFlag x => MN x | _ => ME end.
(** locations that are std::atomic objects *)
Definition atomic_loc (l : loc) : bool :=
  match l with LSearch | LQuit | LPonder => true | _ => false end.

Definition rm_mutex (m : mutex) (l : list mutex) : list mutex :=
  filter (fun x => negb (mutex_eqb m x)) l.

(** one transition's events: all by thread t, every guarded plain access under its mutex,
    every acquired mutex released again *)
Fixpoint blk_ok (t : tid) (held : list mutex) (l : list tev) : bool :=
  match l with
  | [] => match held with [] => true | _ => false end
  | Acq t' m :: r => Nat.eqb t' t && blk_ok t (m :: held) r
  | Rel t' m :: r => Nat.eqb t' t && mem_mutex m held && blk_ok t (rm_mutex m held) r
  | Acc t' lc w a :: r =>
      Nat.eqb t' t && (if guarded lc then mem_mutex (mof lc) held else true) &&
      (if atomic_loc lc then negb (is_plain a) else true) &&
      blk_ok t held r
  end.

Lemma blk_tid : forall t l held, blk_ok t held l = true ->
  forall k e, nth_error l k = Some e -> ev_tid e = t.
Proof.
  induction l as [|x l IH]; intros held H k e Hk; [destruct k; discriminate|].
  destruct x; simpl in H; repeat (apply andb_prop in H; destruct H as [H ?]);
    (destruct k; simpl in Hk; [injection Hk as <-; simpl; now apply Nat.eqb_eq | eapply IH; eauto]).
Qed.

Lemma in_rm_mutex : forall m x l, In x l -> x <> m -> In x (rm_mutex m l).
Proof.
  intros m x l Hin Hne. unfold rm_mutex. apply filter_In. split; auto.
  destruct (mutex_eqb m x) eqn:E; auto. apply mutex_eqb_eq in E. congruence.
Qed.

Lemma rel_after : forall t l held m, blk_ok t held l = true -> In m held ->
  exists r, nth_error l r = Some (Rel t m).
Proof.
  induction l as [|x l IH]; intros held m H Hin; simpl in H.
  - destruct held; [destruct Hin | discriminate].
  - destruct x as [t' lc w a|t' m'|t' m'].
    + repeat (apply andb_prop in H; destruct H as [H ?]).
      destruct (IH held m H0 Hin) as (r & Hr). exists (S r). auto.
    + apply andb_prop in H. destruct H as [H1 H2].
      destruct (IH (m' :: held) m H2 (or_intror Hin)) as (r & Hr). exists (S r). auto.
    + repeat (apply andb_prop in H; destruct H as [H ?]).
      apply Nat.eqb_eq in H. subst t'.
      destruct (mutex_eqb m' m) eqn:E.
      * apply mutex_eqb_eq in E. subst. exists 0. reflexivity.
      * assert (In m (rm_mutex m' held)).
        { apply in_rm_mutex; auto. intros ->. rewrite (proj2 (mutex_eqb_eq m' m') eq_refl) in E. discriminate. }
        destruct (IH _ m H0 H) as (r & Hr). exists (S r). auto.
Qed.

Lemma blk_access : forall t l held i lc w at0, blk_ok t held l = true ->
  nth_error l i = Some (Acc t lc w at0) -> guarded lc = true ->
  (In (mof lc) held \/ exists a, a < i /\ nth_error l a = Some (Acq t (mof lc))) /\
  (exists r, i < r /\ nth_error l r = Some (Rel t (mof lc))).
Proof.
  induction l as [|x l IH]; intros held i lc w at0 H Hi Hg; [destruct i; discriminate|].
  destruct i as [|i].
  - simpl in Hi. injection Hi as ->. simpl in H. rewrite Hg in H.
    assert (Hm : mem_mutex (mof lc) held = true /\ blk_ok t held l = true)
      by (repeat (apply andb_prop in H; destruct H as [H ?]); split; assumption).
    destruct Hm as (H1 & H0).
    apply mem_mutex_In in H1. split; auto.
    destruct (rel_after t l held _ H0 H1) as (r & Hr). exists (S r). split; [lia|auto].
  - simpl in Hi. destruct x as [t' lc' w' a'|t' m'|t' m']; simpl in H.
    + repeat (apply andb_prop in H; destruct H as [H ?]).
      destruct (IH held i lc w at0 H0 Hi Hg) as ([A|(a & Ha & Ea)] & (r & Hr & Er)).
      * split; auto. exists (S r). split; [lia|auto].
      * split; [right; exists (S a); split; [lia|auto]|]. exists (S r). split; [lia|auto].
    + apply andb_prop in H. destruct H as [H1 H2]. apply Nat.eqb_eq in H1. subst t'.
      destruct (IH (m' :: held) i lc w at0 H2 Hi Hg) as ([A|(a & Ha & Ea)] & (r & Hr & Er)).
      * destruct A as [A|A]; [subst m'|].
        -- split; [right; exists 0; split; [lia|reflexivity]|]. exists (S r). split; [lia|auto].
        -- split; auto. exists (S r). split; [lia|auto].
      * split; [right; exists (S a); split; [lia|auto]|]. exists (S r). split; [lia|auto].
    + repeat (apply andb_prop in H; destruct H as [H ?]).
      destruct (IH _ i lc w at0 H0 Hi Hg) as ([A|(a & Ha & Ea)] & (r & Hr & Er)).
      * unfold rm_mutex in A. apply filter_In in A. destruct A as (A & _).
        split; auto. exists (S r). split; [lia|auto].
      * split; [right; exists (S a); split; [lia|auto]|]. exists (S r). split; [lia|auto].
Qed.

Lemma blk_atomic : forall t l held i t' lc w a, blk_ok t held l = true ->
  nth_error l i = Some (Acc t' lc w a) -> atomic_loc lc = true -> is_plain a = false.
Proof.
  induction l as [|x l IH]; intros held i t' lc w a H Hi Ha; [destruct i; discriminate|].
  destruct i as [|i]; simpl in Hi.
  - injection Hi as ->. simpl in H. rewrite Ha in H.
    repeat (apply andb_prop in H; destruct H as [H ?]). now apply negb_true_iff.
  - destruct x; simpl in H; repeat (apply andb_prop in H; destruct H as [H ?]); eapply IH; eauto.
Qed.

(** trace-level property: each guarded plain access sits inside a same-thread stretch that
    contains an earlier acquire and a later release of its mutex *)
Definition good (tr : list tev) : Prop :=
  forall i t lc w at0, nth_error tr i = Some (Acc t lc w at0) -> guarded lc = true ->
    (exists r, i < r /\ nth_error tr r = Some (Rel t (mof lc)) /\
               forall k e, i <= k <= r -> nth_error tr k = Some e -> ev_tid e = t) /\
    (exists a, a < i /\ nth_error tr a = Some (Acq t (mof lc)) /\
               forall k e, a <= k <= i -> nth_error tr k = Some e -> ev_tid e = t).

Lemma good_app : forall t B rest, blk_ok t [] B = true -> good rest -> good (B ++ rest).
Proof.
  intros t B rest HB HR i t' lc w at0 Hi Hg.
  destruct (Nat.lt_ge_cases i (length B)) as [Hlt|Hge].
  - rewrite nth_error_app1 in Hi by auto.
    assert (t' = t) by (apply (blk_tid t B [] HB i _ Hi)). subst t'.
    destruct (blk_access t B [] i lc w at0 HB Hi Hg) as ([[]|(a & Ha & Ea)] & (r & Hr & Er)).
    assert (Hrl : r < length B) by (apply nth_error_Some; congruence).
    split.
    + exists r. split; auto. split; [rewrite nth_error_app1; auto|].
      intros k e Hk He. rewrite nth_error_app1 in He by lia. apply (blk_tid t B [] HB k e He).
    + exists a. split; auto. split; [rewrite nth_error_app1; auto; lia|].
      intros k e Hk He. rewrite nth_error_app1 in He by lia. apply (blk_tid t B [] HB k e He).
  - rewrite nth_error_app2 in Hi by auto.
    destruct (HR _ _ _ _ _ Hi Hg) as ((r & Hr & Er & Sr) & (a & Ha & Ea & Sa)). split.
    + exists (length B + r). split; [lia|]. split.
      * rewrite nth_error_app2 by lia. replace (length B + r - length B) with r by lia. auto.
      * intros k e Hk He. rewrite nth_error_app2 in He by lia. apply (Sr (k - length B) e); auto. lia.
    + exists (length B + a). split; [lia|]. split.
      * rewrite nth_error_app2 by lia. replace (length B + a - length B) with a by lia. auto.
      * intros k e Hk He. rewrite nth_error_app2 in He by lia. apply (Sa (k - length B) e); auto. lia.
Qed.

Lemma good_nil : good [].
Proof. intros i t lc w at0 Hi. destruct i; discriminate. Qed.

(** ---- from the lock discipline to race freedom ---- *)
Lemma conflictb_inv : forall a b, conflictb a b = true ->
  exists t1 l w1 a1 t2 w2 a2, a = Acc t1 l w1 a1 /\ b = Acc t2 l w2 a2 /\ t1 <> t2 /\
                              (is_plain a1 || is_plain a2 = true).
Proof.
  intros a b H. destruct a as [t1 l1 w1 a1| |]; try discriminate.
  destruct b as [t2 l2 w2 a2| |]; try discriminate. simpl in H.
  repeat (apply andb_prop in H; destruct H as [H ?]).
  apply loc_eqb_eq in H. subst l2. apply negb_true_iff in H2. apply Nat.eqb_neq in H2.
  exists t1, l1, w1, a1, t2, w2, a2. auto.
Qed.

Theorem good_no_race : forall tr, good tr -> ~ race_on tr guarded.
Proof.
  intros tr G (i & j & a & b & Hij & Ha & Hb & Hc & Hs & Hn).
  destruct (conflictb_inv a b Hc) as (t1 & l & w1 & a1 & t2 & w2 & a2 & -> & -> & Hne & _).
  simpl in Hs. unfold at_ in *.
  destruct (G i t1 l w1 a1 Ha Hs) as ((r & Hr & Er & Sr) & _).
  destruct (G j t2 l w2 a2 Hb Hs) as (_ & (q & Hq & Eq & Sq)).
  assert (Hjr : r < j).
  { destruct (Nat.lt_ge_cases r j); auto. exfalso.
    assert (X : ev_tid (Acc t2 l w2 a2) = t1) by (apply (Sr j); auto; lia). simpl in X. congruence. }
  assert (Hrq : r < q).
  { destruct (Nat.lt_ge_cases r q); auto. exfalso.
    assert (X : ev_tid (Rel t1 (mof l)) = t2) by (apply (Sq r); auto; lia). simpl in X. congruence. }
  apply Hn.
  apply t_trans with r.
  - apply t_step. left. split; auto. exists (Acc t1 l w1 a1), (Rel t1 (mof l)). auto.
  - apply t_trans with q.
    + apply t_step. right. left. split; auto. exists t1, t2, (mof l). auto.
    + apply t_step. left. split; auto. exists (Acq t2 (mof l)), (Acc t2 l w2 a2). auto.
Qed.

(** the std::atomic locations are only accessed atomically *)
Definition atomic_ok (tr : list tev) : Prop :=
  forall i t lc w a, nth_error tr i = Some (Acc t lc w a) -> atomic_loc lc = true -> is_plain a = false.

Lemma atomic_app : forall t B rest, blk_ok t [] B = true -> atomic_ok rest -> atomic_ok (B ++ rest).
Proof.
  intros t B rest HB HR i t' lc w a Hi Ha.
  destruct (Nat.lt_ge_cases i (length B)).
  - rewrite nth_error_app1 in Hi by auto. eapply blk_atomic; eauto.
  - rewrite nth_error_app2 in Hi by auto. eapply HR; eauto.
Qed.

Theorem atomic_no_race : forall tr, atomic_ok tr -> ~ race_on tr atomic_loc.
Proof.
  intros tr A (i & j & a & b & Hij & Ha & Hb & Hc & Hs & Hn).
  destruct (conflictb_inv a b Hc) as (t1 & l & w1 & a1 & t2 & w2 & a2 & -> & -> & Hne & Hp).
  simpl in Hs. unfold at_ in *.
  rewrite (A i _ _ _ _ Ha Hs), (A j _ _ _ _ Hb Hs) in Hp. discriminate.
Qed.

Section L.
Variable N : nat.
Variable parent : tid -> option tid.
Variable gp : bool.

Ltac blk := repeat (cbn; rewrite ?Nat.eqb_refl); try reflexivity.
Lemma push_blk : forall t x, blk_ok t [] (push_events t x) = true.
Proof. intros. blk. Qed.

Lemma xevents_blk : forall x xl, exists t, blk_ok t [] (xevents N parent gp x xl) = true.
Proof.
  intros x [[t a|e]| | | |].
  - exists t. destruct a; try (blk; fail).
    + simpl. destruct t; [blk|]. destruct (pc (th (base x) (S t))); try (blk; fail).
      destruct k; try (blk; fail).
      destruct (negb (qa (th (base x) (S t)) =? 0)%Z && negb (job (th (base x) (S t)) =? -1)%Z); blk.
    + simpl. destruct (hasres (th (base x) t)); [reflexivity|]. destruct (parent t); [apply push_blk|reflexivity].
    + simpl. destruct (search (base x)); blk.
  - exists (uci N). destruct e; try (blk; fail).
    simpl. destruct (go_waits gp p); blk.
  - exists (uci N). blk.
  - exists 0. simpl. destruct (xpend x); blk.
  - exists 0. blk.
  - exists (uci N). blk.
Qed.

Lemma xrun_good : forall ls x xf tr, xrun N parent gp x ls = Some (xf, tr) -> good tr /\ atomic_ok tr.
Proof.
  induction ls as [|xl ls IH]; intros x xf tr H; simpl in H.
  - injection H as <- <-. split; [apply good_nil|]. intros i t lc w a Hi. destruct i; discriminate.
  - destruct (xstep N parent gp x xl) as [x'|]; [|discriminate].
    destruct (xrun N parent gp x' ls) as [[xf' tr']|] eqn:E; [|discriminate].
    injection H as <- <-. destruct (IH _ _ _ E) as (G & A). destruct (xevents_blk x xl) as (t & Ht).
    split; [eapply good_app; eauto | eapply atomic_app; eauto].
Qed.

(** for every number of helpers, tree, start state and schedule (and both variants of go ponder):
    no data race on a mailbox, a notifier flag, pendingOptions or optionsSetFinished ... *)
Theorem model_guarded_drf : forall x ls tr,
  trace_of N parent gp x ls = Some tr -> ~ race_on tr guarded.
Proof.
  intros x ls tr H. unfold trace_of in H.
  destruct (xrun N parent gp x ls) as [[xf tr']|] eqn:E; [|discriminate].
  injection H as <-. apply good_no_race. eapply xrun_good; eauto.
Qed.

(** ... nor on search, quitFlag, ponder/infinite (atomic objects) *)
Theorem model_atomic_drf : forall x ls tr,
  trace_of N parent gp x ls = Some tr -> ~ race_on tr atomic_loc.
Proof.
  intros x ls tr H. unfold trace_of in H.
  destruct (xrun N parent gp x ls) as [[xf tr']|] eqn:E; [|discriminate].
  injection H as <-. apply atomic_no_race. eapply xrun_good; eauto.
Qed.
End L.

(** ---- the hand-shake matters: without the wait in go ponder the model races ---- *)
Definition par0 : tid -> option tid := fun _ => None.
Definition is_opt (l : loc) : bool := match l with LOpt => true | _ => false end.
Definition is_tt (l : loc) : bool := match l with LTT => true | _ => false end.
(** setoption; the engine thread wakes up and takes the option; go ponder does not wait; the
    engine thread applies the option while / after the UCI thread set up the ponder search *)
Definition noguard_sched : list xlabel :=
  [XSetOpt; XL (LT 0 AWait); XL (LT 0 ARdQuit); XTake; XL (LE (EGo true)); XApply].

Theorem unguarded_ponder_races :
  exists tr, trace_of 0 par0 false (xinit) noguard_sched = Some tr /\ race_on tr is_opt /\ race_on tr is_tt.
Proof.
  destruct (trace_of 0 par0 false xinit noguard_sched) as [tr|] eqn:E; [|vm_compute in E; discriminate].
  exists tr. split; auto. vm_compute in E. injection E as <-.
  split; apply raceb_on_spec; vm_compute; reflexivity.
Qed.

(** the same schedule is not a path when go ponder waits (the guard [optionsSetFinished]) *)
Example guarded_ponder_blocks : trace_of 0 par0 true xinit noguard_sched = None.
Proof. vm_compute. reflexivity. Qed.
