(** C09 — happens-before and data races on traces of synchronisation and access events.

    A trace is a list of events in an order consistent with the modification order of every
    location (the model produces interleavings; hook H5 logs an access and its event under one
    lock): memory accesses (thread, location, read/write, kind) and mutex acquire / release.
    Access kinds: [Plain] (ordinary object), [Atomic] (std::atomic with the default seq_cst
    order), [Relaxed] (std::atomic with memory_order_relaxed: never races, orders nothing).
    [hb] is the C++11 happens-before relation restricted to what the control code uses:
      - sequenced-before (program order),
      - an unlock synchronises with every later lock of the same mutex,
      - an [Atomic] store synchronises with every [Atomic] load that reads from it; a load reads
        from the last write to its location that precedes it in the trace,
    closed transitively.  Condition variables order nothing by themselves (their mutex does).
    [race_on tr P]: two conflicting accesses to a location selected by P — same location,
    different threads, at least one write, at least one of them [Plain] — not ordered by [hb].
    [raceb_on] is an executable one-pass decision procedure, proved equivalent (RaceProofs.v). *)
From Coq Require Import List Bool Arith Lia Relations.
Import ListNotations.

Definition tid := nat.

Inductive loc :=
| LQueue (t : tid)        (* Communicator::cmdQueue of thread t *)
| LFlag (t : tid)         (* Notifier::notified of thread t's notifier *)
| LSearch                 (* EngineMainThread::search      (std::atomic<bool>) *)
| LQuit                   (* EngineMainThread::quitFlag    (std::atomic<bool>) *)
| LParams                 (* EngineMainThread::{sc,pos,moves,maxDepth,...}: parameters of the next search *)
| LPonder                 (* EngineControl::ponder / infinite (std::atomic<bool>) *)
| LPend                   (* EngineMainThread::pendingOptions *)
| LFin                    (* EngineMainThread::optionsSetFinished *)
| LOpt                    (* option values: Parameters / UciParams::* (plain members) *)
| LTT.                    (* TranspositionTable geometry and generation (table, usedSize, generation, ...) *)

Inductive mutex :=
| MQ (t : tid)            (* Communicator::mutex of thread t's communicator *)
| MN (t : tid)            (* Notifier::mutex of thread t's notifier *)
| ME.                     (* EngineMainThread::mutex *)

Inductive kind := Plain | Atomic | Relaxed.

Inductive tev :=
| Acc (t : tid) (l : loc) (w : bool) (k : kind)
| Acq (t : tid) (m : mutex)
| Rel (t : tid) (m : mutex).

Definition loc_eqb (a b : loc) : bool :=
  match a, b with
  | LQueue x, LQueue y | LFlag x, LFlag y => Nat.eqb x y
  | LSearch, LSearch | LQuit, LQuit | LParams, LParams | LPonder, LPonder
  | LPend, LPend | LFin, LFin | LOpt, LOpt | LTT, LTT => true
  | _, _ => false
  end.
Definition mutex_eqb (a b : mutex) : bool :=
  match a, b with
  | MQ x, MQ y | MN x, MN y => Nat.eqb x y
  | ME, ME => true
  | _, _ => false
  end.
Lemma loc_eqb_eq : forall a b, loc_eqb a b = true <-> a = b.
Proof.
  destruct a, b; simpl; split; intros H; try discriminate; try reflexivity;
    try (apply Nat.eqb_eq in H; now subst); try (injection H as ->; apply Nat.eqb_refl).
Qed.
Lemma mutex_eqb_eq : forall a b, mutex_eqb a b = true <-> a = b.
Proof.
  destruct a, b; simpl; split; intros H; try discriminate; try reflexivity;
    try (apply Nat.eqb_eq in H; now subst); try (injection H as ->; apply Nat.eqb_refl).
Qed.

Definition ev_tid (e : tev) : tid :=
  match e with Acc t _ _ _ | Acq t _ | Rel t _ => t end.

Definition is_plain (k : kind) : bool := match k with Plain => true | _ => false end.
Definition is_atomic (k : kind) : bool := match k with Atomic => true | _ => false end.

Definition conflictb (e1 e2 : tev) : bool :=
  match e1, e2 with
  | Acc t1 l1 w1 k1, Acc t2 l2 w2 k2 =>
      loc_eqb l1 l2 && negb (Nat.eqb t1 t2) && (w1 || w2) && (is_plain k1 || is_plain k2)
  | _, _ => false
  end.

(** e writes location l *)
Definition writes (l : loc) (e : tev) : bool :=
  match e with Acc _ l' true _ => loc_eqb l' l | _ => false end.

Definition sel (P : loc -> bool) (e : tev) : bool :=
  match e with Acc _ l _ _ => P l | _ => false end.

(** ---- relational definition ---- *)
Section Rel.
Variable tr : list tev.
Definition at_ (i : nat) : option tev := nth_error tr i.

Definition po (i j : nat) : Prop :=
  i < j /\ exists a b, at_ i = Some a /\ at_ j = Some b /\ ev_tid a = ev_tid b.
Definition sw (i j : nat) : Prop :=
  i < j /\ exists t1 t2 m, at_ i = Some (Rel t1 m) /\ at_ j = Some (Acq t2 m).
(** the atomic load at j reads from the atomic store at i: no write to the location in between *)
Definition rf (i j : nat) : Prop :=
  i < j /\ exists t1 t2 l, at_ i = Some (Acc t1 l true Atomic) /\ at_ j = Some (Acc t2 l false Atomic) /\
           forall k e, i < k < j -> at_ k = Some e -> writes l e = false.
Definition edge (i j : nat) : Prop := po i j \/ sw i j \/ rf i j.
Definition hb : nat -> nat -> Prop := clos_trans nat edge.

(** a race on one of the locations selected by P *)
Definition race_on (P : loc -> bool) : Prop :=
  exists i j a b, i < j /\ at_ i = Some a /\ at_ j = Some b /\ conflictb a b = true /\
                  sel P a = true /\ ~ hb i j.
Definition race : Prop := race_on (fun _ => true).
End Rel.

(** ---- executable decision procedure ----
    Scan forward from position i keeping what is already "reached": the threads with a reached
    event, the mutexes released by a reached event, and the locations whose latest write is an
    atomic store that is reached.  An event is hb-after i iff its thread is reached, or it
    acquires a reached mutex, or it is an atomic load of a location whose latest write is such
    a store. *)
Definition mem_nat (x : nat) (l : list nat) : bool := existsb (Nat.eqb x) l.
Definition mem_mutex (m : mutex) (l : list mutex) : bool := existsb (mutex_eqb m) l.
Definition mem_loc (x : loc) (l : list loc) : bool := existsb (loc_eqb x) l.
Definition rm_loc (x : loc) (l : list loc) : list loc := filter (fun y => negb (loc_eqb x y)) l.

Record sets := mkSets { s_ts : list tid; s_ms : list mutex; s_ls : list loc }.

Definition reachedb (st : sets) (e : tev) : bool :=
  mem_nat (ev_tid e) (s_ts st) ||
  match e with
  | Acq _ m => mem_mutex m (s_ms st)
  | Acc _ l false Atomic => mem_loc l (s_ls st)
  | _ => false
  end.

(** sets after event e, which is reached iff r *)
Definition next_sets (st : sets) (e : tev) (r : bool) : sets :=
  mkSets (if r then ev_tid e :: s_ts st else s_ts st)
         (match e with Rel _ m => if r then m :: s_ms st else s_ms st | _ => s_ms st end)
         (match e with
          | Acc _ l true k => if r && is_atomic k then l :: s_ls st else rm_loc l (s_ls st)
          | _ => s_ls st
          end).

(** does some event of [rest] conflict with [a] without being hb-after it? *)
Fixpoint scan (a : tev) (st : sets) (rest : list tev) : bool :=
  match rest with
  | [] => false
  | e :: r =>
      let rb := reachedb st e in
      (negb rb && conflictb a e) || scan a (next_sets st e rb) r
  end.

Definition start_sets (a : tev) : sets :=
  mkSets [ev_tid a]
         (match a with Rel _ m => [m] | _ => [] end)
         (match a with Acc _ l true Atomic => [l] | _ => [] end).

Fixpoint raceb_on (P : loc -> bool) (tr : list tev) : bool :=
  match tr with
  | [] => false
  | a :: r => (if sel P a then scan a (start_sets a) r else false) || raceb_on P r
  end.
Definition raceb (tr : list tev) : bool := raceb_on (fun _ => true) tr.
