(** C09 — happens-before and data races on traces of synchronisation and access events.

    A trace is a list of events: memory accesses (thread, location, read/write, plain/atomic)
    and mutex acquire / release.  [hb] is the C++11 happens-before relation restricted to what
    the control code uses: sequenced-before (program order) and the synchronises-with edges of
    mutexes (an unlock synchronises with every later lock of the same mutex), closed
    transitively.  Relaxed atomics give no ordering; condition variables order nothing by
    themselves (their mutex does).  [race tr]: two conflicting accesses — same location,
    different threads, at least one write, not both atomic — that are not ordered by [hb].
    [raceb] is an executable one-pass decision procedure, proved equivalent. *)
From Coq Require Import List Bool Arith Lia Relations.
Import ListNotations.

Definition tid := nat.

Inductive loc :=
| LQueue (t : tid)        (* Communicator::cmdQueue of thread t *)
| LFlag (t : tid)         (* Notifier::notified of thread t's notifier *)
| LSearch                 (* EngineMainThread::search *)
| LQuit                   (* EngineMainThread::quitFlag *)
| LParams                 (* EngineMainThread::{sc,pos,moves,maxDepth,...}: parameters of the next search *)
| LPonder.                (* EngineControl::ponder / infinite (std::atomic<bool>) *)

Inductive mutex :=
| MQ (t : tid)            (* Communicator::mutex of thread t's communicator *)
| MN (t : tid)            (* Notifier::mutex of thread t's notifier *)
| ME.                     (* EngineMainThread::mutex *)

Inductive tev :=
| Acc (t : tid) (l : loc) (w : bool) (atomic : bool)
| Acq (t : tid) (m : mutex)
| Rel (t : tid) (m : mutex).

Definition loc_eqb (a b : loc) : bool :=
  match a, b with
  | LQueue x, LQueue y | LFlag x, LFlag y => Nat.eqb x y
  | LSearch, LSearch | LQuit, LQuit | LParams, LParams | LPonder, LPonder => true
  | _, _ => false
  end.
Definition mutex_eqb (a b : mutex) : bool :=
  match a, b with
  | MQ x, MQ y | MN x, MN y => Nat.eqb x y
  | ME, ME => true
  | _, _ => false
  end.
Lemma loc_eqb_eq : forall a b, loc_eqb a b = true <-> a = b.
Proof.
  destruct a, b; simpl; split; intros H; try discriminate; try reflexivity;
    try (apply Nat.eqb_eq in H; now subst); try (injection H as ->; apply Nat.eqb_refl).
Qed.
Lemma mutex_eqb_eq : forall a b, mutex_eqb a b = true <-> a = b.
Proof.
  destruct a, b; simpl; split; intros H; try discriminate; try reflexivity;
    try (apply Nat.eqb_eq in H; now subst); try (injection H as ->; apply Nat.eqb_refl).
Qed.

Definition ev_tid (e : tev) : tid :=
  match e with Acc t _ _ _ | Acq t _ | Rel t _ => t end.

Definition conflictb (e1 e2 : tev) : bool :=
  match e1, e2 with
  | Acc t1 l1 w1 a1, Acc t2 l2 w2 a2 =>
      loc_eqb l1 l2 && negb (Nat.eqb t1 t2) && (w1 || w2) && negb (a1 && a2)
  | _, _ => false
  end.

Definition sel (P : loc -> bool) (e : tev) : bool :=
  match e with Acc _ l _ _ => P l | _ => false end.

(** ---- relational definition ---- *)
Section Rel.
Variable tr : list tev.
Definition at_ (i : nat) : option tev := nth_error tr i.

Definition po (i j : nat) : Prop :=
  i < j /\ exists a b, at_ i = Some a /\ at_ j = Some b /\ ev_tid a = ev_tid b.
Definition sw (i j : nat) : Prop :=
  i < j /\ exists t1 t2 m, at_ i = Some (Rel t1 m) /\ at_ j = Some (Acq t2 m).
Definition edge (i j : nat) : Prop := po i j \/ sw i j.
Definition hb : nat -> nat -> Prop := clos_trans nat edge.

(** a race on one of the locations selected by P *)
Definition race_on (P : loc -> bool) : Prop :=
  exists i j a b, i < j /\ at_ i = Some a /\ at_ j = Some b /\ conflictb a b = true /\
                  sel P a = true /\ ~ hb i j.
Definition race : Prop := race_on (fun _ => true).
End Rel.

(** ---- executable decision procedure ----
    Scan forward from position i keeping the threads and mutexes already "reached": an event is
    hb-after i iff its thread has a reached event before it, or it acquires a mutex released by
    a reached event before it. *)
Definition mem_nat (x : nat) (l : list nat) : bool := existsb (Nat.eqb x) l.
Definition mem_mutex (m : mutex) (l : list mutex) : bool := existsb (mutex_eqb m) l.

Definition reachedb (ts : list tid) (ms : list mutex) (e : tev) : bool :=
  mem_nat (ev_tid e) ts ||
  match e with Acq _ m => mem_mutex m ms | _ => false end.

Definition upd_sets (ts : list tid) (ms : list mutex) (e : tev) : list tid * list mutex :=
  (ev_tid e :: ts, match e with Rel _ m => m :: ms | _ => ms end).

(** does some event of [rest] conflict with [a] without being hb-after it? *)
Fixpoint scan (a : tev) (ts : list tid) (ms : list mutex) (rest : list tev) : bool :=
  match rest with
  | [] => false
  | e :: r =>
      if reachedb ts ms e
      then let (ts', ms') := upd_sets ts ms e in scan a ts' ms' r
      else conflictb a e || scan a ts ms r
  end.

Definition start_sets (a : tev) : list tid * list mutex :=
  ([ev_tid a], match a with Rel _ m => [m] | _ => [] end).

Fixpoint raceb_on (P : loc -> bool) (tr : list tev) : bool :=
  match tr with
  | [] => false
  | a :: r =>
      (if sel P a then let (ts, ms) := start_sets a in scan a ts ms r else false) || raceb_on P r
  end.
Definition raceb (tr : list tev) : bool := raceb_on (fun _ => true) tr.
