(** C10 — non-vacuity: concrete schedules (N = 2, helper 2 below helper 1, as createWorkers
    arranges threads 6..8) reaching the states the theorems speak about. *)
From Coq Require Import ZArith List Bool Arith Lia.
From Texel Require Import Workers.Workers Workers.WorkersLemmas Workers.WorkersInv Workers.WorkersTheorems.
Import ListNotations.

Definition ex_parent (c : tid) : option tid :=
  match c with 1 => Some 0 | 2 => Some 1 | _ => None end.

Lemma ex_tree : tree_ok 2 ex_parent.
Proof.
  intros c Hc. assert (c = 1 \/ c = 2) as [-> | ->] by lia; simpl; eauto.
Qed.

(** go; the engine thread sends INIT and START(1); helper 1 forwards them, searches job 1 and
    reports: the engine thread finds a result for the current job at the head of its mailbox *)
Definition ex_accept_sched : list label :=
  [LE (EGo false); LE ENotify; LT 0 AWait; LT 0 ARdQuit; LT 0 ARdSearch; LT 0 AInitSearch; LT 0 (APush 1); LT 1 AWait;
   LT 0 AStartJob; LT 1 APop; LT 0 (APush 1); LT 1 (APush 2); LT 1 APop; LT 1 (APush 2);
   LT 1 APollEmpty; LT 1 AFinish].

Example ex_accept :
  match run 2 ex_parent init ex_accept_sched with
  | Some s =>
      match pc (th s 0), qu s 0 with
      | PPoll KMSearch, CReport j sd f :: _ => Z.eqb j (job (th s 0)) && Nat.eqb sd (sid s)
      | _, _ => false
      end
  | None => false
  end = true.
Proof. vm_compute. reflexivity. Qed.

(** a whole search: bestmove, STOP_SEARCH down the tree, STOP_ACKs up the tree, barrier *)
Definition ex_barrier_sched : list label :=
  [LE (EGo false); LE ENotify; LT 0 AWait; LT 0 ARdQuit; LT 0 ARdSearch; LT 0 AInitSearch; LT 0 (APush 1); LT 1 AWait;
   LT 0 ABest; LT 1 APop; LT 0 AStopSearch; LT 0 ANotifySelf; LT 1 (APush 2); LT 0 (APush 1);
   LT 1 APop; LT 2 AWait; LT 1 ANotifySelf; LT 2 APop; LT 1 (APush 2); LT 2 APop; LT 2 ANotifySelf;
   LT 2 APollEmpty; LT 2 (APush 1); LT 1 APop; LT 1 APollEmpty; LT 1 (APush 0); LT 0 APop].

(** ... the engine thread is at the barrier test with both counters zero *)
Example ex_barrier :
  match run 2 ex_parent init ex_barrier_sched with
  | Some s =>
      match pc (th s 0) with
      | PPoll KAck => hasStopAck (th s 0) && Nat.eqb (nbest s) 1 && Nat.eqb (sid s) 1
      | _ => false
      end
  | None => false
  end = true.
Proof. vm_compute. reflexivity. Qed.

(** ... and in the middle of the round the counters are non-zero (helper 1 waits for helper 2) *)
Example ex_midround :
  match run 2 ex_parent init (firstn 19 ex_barrier_sched) with
  | Some s => Z.eqb (wc (th s 0)) 1 && Z.eqb (wc (th s 1)) 1
  | None => false
  end = true.
Proof. vm_compute. reflexivity. Qed.

(** after the barrier: notify, search := false, back to waiting: the idle phase *)
Example ex_idle :
  match run 2 ex_parent init (ex_barrier_sched ++ [LT 0 APollEmpty; LT 0 ANotifySelf; LT 0 AClear]) with
  | Some s =>
      match pc (th s 0) with
      | PWait KTop => Nat.eqb (nbest s) 1 && Nat.eqb (sid s) 1 && negb (search s)
      | _ => false
      end
  | None => false
  end = true.
Proof. vm_compute. reflexivity. Qed.

(** a helper blocked with a non-empty mailbox (its flag is set: the wake-up is not lost) *)
Example ex_wakeup :
  match run 2 ex_parent init (firstn 7 ex_accept_sched) with
  | Some s =>
      match pc (th s 1), qu s 1 with
      | PWait KMain, _ :: _ => flag s 1
      | _, _ => false
      end
  | None => false
  end = true.
Proof. vm_compute. reflexivity. Qed.

Lemma examples_reach :
  tree_ok 2 ex_parent /\
  (exists s, run 2 ex_parent init ex_accept_sched = Some s /\ master_searching s /\
             exists j sd f r, qu s 0 = CReport j sd f :: r /\ j = job (th s 0)) /\
  (exists s, run 2 ex_parent init ex_barrier_sched = Some s /\ pc (th s 0) = PPoll KAck /\
             hasStopAck (th s 0) = true).
Proof.
  split; [exact ex_tree|]. split.
  - destruct (run 2 ex_parent init ex_accept_sched) as [s|] eqn:E; [|vm_compute in E; discriminate].
    exists s. split; auto.
    assert (X : pc (th s 0) = PPoll KMSearch /\
                exists j sd f r, qu s 0 = CReport j sd f :: r /\ j = job (th s 0)).
    { vm_compute in E. injection E as <-. vm_compute. split; [reflexivity|]. repeat eexists. }
    destruct X as (X1 & X2). split; auto. unfold master_searching. now rewrite X1.
  - destruct (run 2 ex_parent init ex_barrier_sched) as [s|] eqn:E; [|vm_compute in E; discriminate].
    exists s. split; auto. vm_compute in E. injection E as <-. vm_compute. auto.
Qed.
