(** C10 — preservation of the epoch invariant [InvE]: part A. *)
From Coq Require Import ZArith List Bool Arith Lia.
From Texel Require Import Workers.Workers Workers.WorkersLemmas Workers.WorkersInv Workers.WorkersInvFacts Workers.WorkersTac.
Import ListNotations.

Section P.
Variable N : nat.
Variable parent : tid -> option tid.
Hypothesis Htree : tree_ok N parent.
Notation InvE := (InvE N parent).
Notation lstep := (lstep N parent).
Notation children := (children N parent).
Notation helper := (helper N).
Notation npending := (npending N parent).
Notation helper_le := (helper_le N).
Notation helper_leb := (helper_leb N).
Notation helper_S := (helper_S N).
Notation inv_se0 := (inv_se0 N parent).
Notation inv_child_le := (inv_child_le N parent).
Notation parent_le := (parent_le N parent Htree).
Notation child_settled := (child_settled N parent).
Notation barrier_all := (barrier_all N parent Htree).
Notation barrier_noacks := (barrier_noacks N parent Htree).
Notation quiet_all := (quiet_all N parent).
Notation stop_head_lag := (stop_head_lag N parent Htree).
Notation fwd_push_facts := (fwd_push_facts N parent Htree).
Notation ack_head_facts := (ack_head_facts N parent).
Notation w1_frame := (ltac:(first [exact (WorkersInvFacts.w1_frame N parent Htree) | exact (WorkersInvFacts.w1_frame N parent)])) (only parsing).
Notation w1_enter_round := (ltac:(first [exact (WorkersInvFacts.w1_enter_round N parent Htree) | exact (WorkersInvFacts.w1_enter_round N parent)])) (only parsing).
Notation w1_pop_ack := (ltac:(first [exact (WorkersInvFacts.w1_pop_ack N parent Htree) | exact (WorkersInvFacts.w1_pop_ack N parent)])) (only parsing).

Lemma step_g1 : forall s lb s', InvE s -> lstep s lb = Some s' ->
  forall t, t <= N -> ae (th s' 0) <= se (th s' t) /\ se (th s' t) <= se (th s' 0).
Proof.
  intros s lb s' I H t Ht.
  pose proof (e_g1 _ _ _ I t Ht) as G1.
  pose proof (e_g1 _ _ _ I) as G1a.
  step_inv_fine H; crunch; try lia.
  all: try match goal with
    | Hq : qu ?s0 (S ?c) = CStop :: _, Hp : parent (S ?c) = Some ?p, Hl : Nat.leb (S ?c) N = true |- _ =>
        destruct (stop_head_lag s0 (S c) p _ I (helper_leb _ Hl) Hp Hq) as (? & ? & ? & ? & ?); lia
    end.
  all: phase_facts I.
  all: bar_facts.
  - lia.
  - assert (helper t) by (unfold WorkersInv.helper; lia).
    destruct (barrier_all s I Hw t t (le_n _) H). lia.
Qed.

Lemma step_phase : forall s lb s', InvE s -> lstep s lb = Some s' ->
  exists ph, mphase (pc (th s' 0)) = Some ph /\
             phase_eqs ph (sid s') (se (th s' 0)) (ae (th s' 0)) (nbest s').
Proof.
  intros s lb s' I H.
  step_inv_fine H; crunch; try exact (e_phase _ _ _ I).
  all: phase_facts' I.
  all: try (eexists; split; [reflexivity | simpl; lia]).
Qed.

Lemma step_g2 : forall s lb s', InvE s -> lstep s lb = Some s' ->
  forall c, helper c ->
    ae (th s' 0) <= ae (th s' c) /\ ae (th s' c) <= se (th s' c) /\ se (th s' c) <= S (ae (th s' c)).
Proof.
  intros s lb s' I H c Hc.
  pose proof (e_g2 _ _ _ I c Hc) as G2.
  assert (Hc0 : c <> 0) by (unfold WorkersInv.helper in Hc; lia).
  step_inv_fine H; crunch; try lia.
  all: try (stop_facts I; lia).
  all: try (sendack_facts I; lia).
  - phase_facts' I. bar_facts.
    destruct (barrier_all s I Hw c c (le_n _) Hc). lia.
Qed.

Lemma step_s1 : forall s lb s', InvE s -> lstep s lb = Some s' ->
  forall c p, helper c -> parent c = Some p ->
    se (th s' p) = se (th s' c) + stops (qu s' c) + b2n (owes (pc (th s' p)) c).
Proof.
  intros s lb s' I H c p Hc Hp.
  pose proof (e_s1 _ _ _ I c p Hc Hp) as S1.
  assert (Hc0 : c <> 0) by (unfold WorkersInv.helper in Hc; lia).
  destruct (parent_le c p Hc Hp) as (HpN & Hpc).
  step_inv_fine H; crunch; use_eqs; rewrite ?stops_app, ?stops_purge, ?stops_cons in *; cbn [is_stop owes b2n stops filter length] in *; try lia.
  all: try pcs_facts I.
  all: try match goal with w : fwd |- _ => destruct w end.
  all: try fwd_facts I.
  all: try congruence.
  all: fwd_mem; cbn [fwd_purge fwd_cmd is_stop b2n] in *; rewrite ?stops_purge.
  all: try lia.
  all: match goal with E : Workers.children N parent ?t = _ , Hc : helper ?c, Hp : parent ?c = Some ?t |- _ =>
         let X := fresh in assert (X : In c (children t)) by (apply in_children; auto); rewrite E in X;
         try (now destruct X); try rewrite (proj2 (mem_tid_In c _) X) end.
  all: simpl; lia.
Qed.

Lemma step_a1 : forall s lb s', InvE s -> lstep s lb = Some s' ->
  forall c, helper c -> ae (th s' c) = se (th s' c) ->
    self (th s' c) = false /\ wc (th s' c) = 0%Z /\
    sendack (pc (th s' c)) = false /\ instop (pc (th s' c)) = false.
Proof.
  intros s lb s' I H c Hc.
  pose proof (e_a1 _ _ _ I c Hc) as A1.
  pose proof (e_a2 _ _ _ I c Hc) as A2.
  assert (Hc0 : c <> 0) by (unfold WorkersInv.helper in Hc; lia).
  pose proof (e_g2 _ _ _ I c Hc) as G2.
  step_inv_fine H; crunch; use_eqs; cbn [sendack instop] in *; auto.
  all: intros E; try (destruct (A1 ltac:(lia)) as (? & ? & ? & ?)); try discriminate;
       repeat split; auto; try congruence; try lia.
  all: try (ack_facts I; lia).
  all: try (sendack_facts I; auto).
Qed.

Lemma step_a2 : forall s lb s', InvE s -> lstep s lb = Some s' ->
  forall c, helper c -> sendack (pc (th s' c)) = true ->
    self (th s' c) = false /\ wc (th s' c) = 0%Z /\ se (th s' c) = S (ae (th s' c)).
Proof.
  intros s lb s' I H c Hc.
  pose proof (e_a1 _ _ _ I c Hc) as A1.
  pose proof (e_a2 _ _ _ I c Hc) as A2.
  pose proof (e_g2 _ _ _ I c Hc) as G2.
  assert (Hc0 : c <> 0) by (unfold WorkersInv.helper in Hc; lia).
  step_inv_fine H; crunch; use_eqs; cbn [sendack instop] in *; auto; try discriminate.
  all: intros _; boolfacts; try ack_facts I.
  all: match goal with |- context [th ?s0 ?x] =>
         destruct (Nat.eq_dec (ae (th s0 x)) (se (th s0 x))) as [E|E];
         [destruct (A1 E) as (? & ? & ? & ?); try congruence; try lia | ] end.
  all: repeat split; auto; try lia.
Qed.

End P.
