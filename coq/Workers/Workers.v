(** C10 / C09 — executable model of texel's search-control protocol.

    Code modelled (peterosterlund2/texel):
      lib/texellib/hw/parallel.{hpp,cpp}   Notifier, Communicator/ThreadCommunicator (mailbox
                                           cmdQueue, purge rule of doSendStartSearch /
                                           doSendStopSearch, sendStopSearch / sendStopAck /
                                           sendQuit / sendQuitAck, poll), WorkerThread::mainLoop,
                                           CommHandler::*, sendReportResult, doSearch,
                                           ThreadStopHandler::shouldStop
      app/texel/enginecontrol.cpp          EngineMainThread::mainLoop / startSearch / quit /
                                           doSearch (ponder wait, bestmove, stop-ack collection)
      lib/texellib/search.cpp              iterativeDeepening (sendInitSearch), negaScoutRoot
                                           (jobId++, sendStartSearch), Search::shouldStop (poll,
                                           result accepted iff jobId equal)

    Threads: tid 0 is the engine thread (master), tids 1..N are the helper threads; the UCI
    thread is the environment ([estep]).  The communicator tree is the parameter [parent]
    (createWorkers gives every helper a parent with a smaller thread number).

    One transition = one critical section (mailbox pop / push+notify under the mailbox mutex,
    engine mutex) or one notifier operation, together with the thread-local computation that
    follows it up to the next synchronisation point.  No proofs in this file. *)
From Coq Require Import ZArith List Bool Arith.
Import ListNotations.
Local Open Scope Z_scope.

Definition tid := nat.

(** Commands (Communicator::CommandType).  [sd] and [from] are ghost fields: the search number
    a result belongs to and the sender; the C++ commands do not carry them and no transition
    guard reads them. ASSIGN_THREADS / SET_PARAM / REPORT_STATS / TT_* are only sent to cluster
    children and never occur between thread communicators. *)
Inductive cmd :=
| CInit
| CStart (j : Z)
| CStop
| CReport (j : Z) (sd : nat) (from : tid)
| CStopAck (from : tid)
| CQuit
| CQuitAck (from : tid).

(** the remove_if predicate of doSendStartSearch / doSendStopSearch *)
Definition purged (c : cmd) : bool :=
  match c with CStart _ | CStop | CReport _ _ _ => true | _ => false end.
Definition purge (l : list cmd) : list cmd := filter (fun c => negb (purged c)) l.

(** which poll loop / handler a thread is in *)
Inductive ctx :=
| KMain                (* helper: WorkerThread::mainLoop *)
| KSearch (j : Z)      (* helper: doSearch for job j (ThreadStopHandler::shouldStop) *)
| KTop                 (* master: EngineMainThread::mainLoop *)
| KMSearch             (* master: iterativeDeepening (Search::shouldStop) *)
| KAck                 (* master: stop-ack collection loop of doSearch *)
| KQuit.               (* master: quit-ack collection loop of mainLoop *)

(** what is being sent to all children *)
Inductive fwd := FInit | FStart (j : Z) | FStop | FQuit.
Definition fwd_cmd (w : fwd) : cmd :=
  match w with FInit => CInit | FStart j => CStart j | FStop => CStop | FQuit => CQuit end.
Definition fwd_purge (w : fwd) : bool :=
  match w with FStart _ | FStop => true | _ => false end.

Inductive pcT :=
| PWait (k : ctx)                          (* blocked in Notifier::wait *)
| PPoll (k : ctx)                          (* in / between Communicator::poll; next: lock mailbox *)
| PFwd (w : fwd) (k : ctx) (rest : list tid)   (* loop over children, [rest] still to be sent *)
| PStopNotify (k : ctx)                    (* sendStopSearch: counters set, next notifyThread() *)
| PSend (c : cmd) (k : ctx)                (* next: push c to the parent's mailbox, then poll on *)
| PSendW (c : cmd)                         (* same, from mainLoop's sendStopAck(false); then wait *)
| PExit                                    (* thread function returned *)
| MRdQuit | MRdSearch                      (* master: reads of quitFlag / search after wake-up *)
| MStopPre                                 (* master: bestmove delivered, next sendStopSearch *)
| MFinalNotify                             (* master: notifier.notify() after the ack loop *)
| MClear.                                  (* master: lock; search = false *)

Record local := mkLocal {
  pc : pcT;
  job : Z;          (* WorkerThread::jobId / Search::jobId *)
  hasres : bool;    (* WorkerThread::hasResult *)
  self : bool;      (* Communicator::stopAckWaitSelf *)
  wc : Z;           (* Communicator::stopAckWaitChildren *)
  qa : Z;           (* Communicator::quitAckWaitChildren *)
  se : nat;         (* ghost: stop rounds entered (sendStopSearch executed) *)
  ae : nat          (* ghost: stop rounds acknowledged upwards (master: barriers passed) *)
}.

Definition set_pc (l : local) (p : pcT) : local :=
  mkLocal p (job l) (hasres l) (self l) (wc l) (qa l) (se l) (ae l).
Definition set_job (l : local) (j : Z) : local :=
  mkLocal (pc l) j (hasres l) (self l) (wc l) (qa l) (se l) (ae l).
Definition set_hasres (l : local) (b : bool) : local :=
  mkLocal (pc l) (job l) b (self l) (wc l) (qa l) (se l) (ae l).
Definition set_self (l : local) (b : bool) : local :=
  mkLocal (pc l) (job l) (hasres l) b (wc l) (qa l) (se l) (ae l).
Definition set_wc (l : local) (z : Z) : local :=
  mkLocal (pc l) (job l) (hasres l) (self l) z (qa l) (se l) (ae l).
Definition set_qa (l : local) (z : Z) : local :=
  mkLocal (pc l) (job l) (hasres l) (self l) (wc l) z (se l) (ae l).
Definition set_se (l : local) (n : nat) : local :=
  mkLocal (pc l) (job l) (hasres l) (self l) (wc l) (qa l) n (ae l).
Definition set_ae (l : local) (n : nat) : local :=
  mkLocal (pc l) (job l) (hasres l) (self l) (wc l) (qa l) (se l) n.

Inductive envpc := EIdle | ENotifyGo | ENotifyQuit.

Record state := mkState {
  th : tid -> local;
  qu : tid -> list cmd;       (* Communicator::cmdQueue *)
  flag : tid -> bool;         (* Notifier::notified of the thread's notifier *)
  search : bool;              (* EngineMainThread::search *)
  quitf : bool;               (* EngineMainThread::quitFlag *)
  ponder : bool;              (* *ponder || *infinite *)
  epc : envpc;                (* UCI thread inside EngineMainThread::startSearch *)
  sid : nat;                  (* ghost: searches started *)
  nbest : nat                 (* ghost: bestmoves delivered (finishSearch calls) *)
}.

Definition upd {A} (f : tid -> A) (t : tid) (v : A) : tid -> A :=
  fun x => if Nat.eqb x t then v else f x.

Definition set_th (s : state) (t : tid) (l : local) : state :=
  mkState (upd (th s) t l) (qu s) (flag s) (search s) (quitf s) (ponder s) (epc s) (sid s) (nbest s).
Definition set_qu (s : state) (t : tid) (q : list cmd) : state :=
  mkState (th s) (upd (qu s) t q) (flag s) (search s) (quitf s) (ponder s) (epc s) (sid s) (nbest s).
Definition set_flag (s : state) (t : tid) (b : bool) : state :=
  mkState (th s) (qu s) (upd (flag s) t b) (search s) (quitf s) (ponder s) (epc s) (sid s) (nbest s).
Definition set_search (s : state) (b : bool) : state :=
  mkState (th s) (qu s) (flag s) b (quitf s) (ponder s) (epc s) (sid s) (nbest s).
Definition set_quitf (s : state) (b : bool) : state :=
  mkState (th s) (qu s) (flag s) (search s) b (ponder s) (epc s) (sid s) (nbest s).
Definition set_ponder (s : state) (b : bool) : state :=
  mkState (th s) (qu s) (flag s) (search s) (quitf s) b (epc s) (sid s) (nbest s).
Definition set_epc (s : state) (e : envpc) : state :=
  mkState (th s) (qu s) (flag s) (search s) (quitf s) (ponder s) e (sid s) (nbest s).
Definition set_sid (s : state) (n : nat) : state :=
  mkState (th s) (qu s) (flag s) (search s) (quitf s) (ponder s) (epc s) n (nbest s).
Definition set_nbest (s : state) (n : nat) : state :=
  mkState (th s) (qu s) (flag s) (search s) (quitf s) (ponder s) (epc s) (sid s) n.

(** ThreadCommunicator::doSend*: lock(mailbox); [purge;] push_back; notifier->notify(); unlock *)
Definition push (s : state) (x : tid) (c : cmd) (pg : bool) : state :=
  set_flag (set_qu s x ((if pg then purge (qu s x) else qu s x) ++ [c])) x true.

(** thread actions: every action is one synchronisation operation of the real code (plus the
    thread-local computation up to the next one); the thread-local decisions AFinish (when
    hasResult is already set), AMaxDepth, AInitSearch / AStartJob (without children), ABest,
    AStopSearch and the unsynchronised reads ARdQuit / ARdSearch are logged by the hooked engine
    as events of their own.  The model over-approximates the code in harmless ways: AFinish /
    AMaxDepth / AStartJob / ABest are enabled also in the middle of a poll loop, and the order in
    which a communicator serves its children is free. *)
Inductive act :=
| AWait                 (* Notifier::wait returns (flag consumed) *)
| APollEmpty            (* poll: mailbox locked and found empty *)
| APop                  (* poll: mailbox locked, front command removed, handler runs *)
| APush (x : tid)       (* push + notify into mailbox x (child or parent) *)
| ANotifySelf           (* notifyThread() / notifier.notify() on the own notifier *)
| AFinish               (* helper: negaScout returned; sendReportResult(jobId, score) *)
| AMaxDepth             (* helper: searchDepth >= MAX_SEARCH_DEPTH: jobId = -1, leave doSearch *)
| ARdQuit | ARdSearch   (* master: unsynchronised reads in mainLoop *)
| AInitSearch           (* master: iterativeDeepening: comm.sendInitSearch (skipped when there is no legal move) *)
| AStartJob             (* master: negaScoutRoot: jobId++, sendStartSearch *)
| ABest                 (* master: ponder/infinite wait over, finishSearch (bestmove) *)
| AStopSearch           (* master: comm->sendStopSearch() entry *)
| AClear.               (* master: lock; search = false; unlock; notify_all *)

Inductive eact :=
| EGo (p : bool)        (* go / go ponder|infinite: lock; search = true; unlock *)
| ENotify               (* ... notifier.notify() of startSearch *)
| EUnponder             (* stop / ponderhit: ponder = infinite = false *)
| ESpur                 (* setoption: setOptionWhenIdle's notifier.notify() *)
| EQuit.                (* quit: lock; quitFlag = true; (the notify inside the lock is ENotify) *)

Section Model.
Variable N : nat.
Variable parent : tid -> option tid.

Definition is_child_of (t c : tid) : bool :=
  match parent c with Some p => Nat.eqb p t | None => false end.
Definition children (t : tid) : list tid := filter (is_child_of t) (seq 1 N).
Definition nchildren (t : tid) : Z := Z.of_nat (length (children t)).

Definition remove_tid (x : tid) (l : list tid) : list tid :=
  filter (fun y => negb (Nat.eqb y x)) l.
Definition mem_tid (x : tid) (l : list tid) : bool := existsb (Nat.eqb x) l.

Definition hasStopAck (l : local) : bool := (wc l =? 0) && negb (self l).

(** ---- helper threads ---- *)

(** local completion of a handler once all children have been served *)
Definition finish_fwd_h (w : fwd) (k : ctx) (l : local) : local :=
  match w with
  | FInit => set_pc (set_job l (-1)) (PPoll k)
  | FStart j => set_pc (set_hasres (set_job l j) false) (PPoll k)
  | FStop => set_pc (set_job l (-1)) (PPoll k)
  | FQuit => set_pc l (PPoll k)
  end.

Definition enter_fwd_h (w : fwd) (k : ctx) (chs : list tid) (l : local) : local :=
  match chs with [] => finish_fwd_h w k l | _ => set_pc l (PFwd w k chs) end.

(** mainLoop: comm->sendStopAck(false); then back to threadNotifier.wait() *)
Definition self_ack_h (t : tid) (l : local) : local :=
  if self l then
    let l' := set_self l false in
    if wc l' =? 0 then set_pc l' (PSendW (CStopAck t)) else set_pc l' (PWait KMain)
  else set_pc l (PWait KMain).

(** CommHandler::* for the command just removed from the mailbox *)
Definition handle_h (t : tid) (k : ctx) (c : cmd) (l : local) : local :=
  match c with
  | CInit => enter_fwd_h FInit k (children t) l
  | CStart j => enter_fwd_h (FStart j) k (children t) l
  | CStop =>
      set_pc (set_se (set_wc (set_self l true) (nchildren t)) (S (se l))) (PStopNotify k)
  | CReport j sd _ =>
      if negb (hasres l) && (job l =? j)
      then set_pc (set_hasres l true) (PSend (CReport j sd t) k)
      else set_pc l (PPoll k)
  | CStopAck _ =>
      let l' := set_wc l (wc l - 1) in
      if hasStopAck l' then set_pc l' (PSend (CStopAck t) k) else set_pc l' (PPoll k)
  | CQuit =>
      match children t with
      | [] => set_pc (set_qa l 0) (PSend (CQuitAck t) k)
      | chs => set_pc (set_qa l (nchildren t)) (PFwd FQuit k chs)
      end
  | CQuitAck _ =>
      let l' := set_qa l (qa l - 1) in
      if qa l' =? 0 then set_pc l' (PSend (CQuitAck t) k) else set_pc l' (PPoll k)
  end.

Definition bump_ae (c : cmd) (l : local) : local :=
  match c with CStopAck _ => set_ae l (S (ae l)) | _ => l end.

Definition step_h (s : state) (t : tid) (p : tid) (a : act) : option state :=
  let l := th s t in
  match pc l, a with
  | PWait KMain, AWait =>
      if flag s t then Some (set_th (set_flag s t false) t (set_pc l (PPoll KMain))) else None
  | PPoll k, APollEmpty =>
      match qu s t with
      | [] =>
          match k with
          | KMain =>
              if qa l =? 0 then Some (set_th s t (set_pc l PExit))
              else if negb (job l =? -1) then Some (set_th s t (set_pc l (PPoll (KSearch (job l)))))
              else Some (set_th s t (self_ack_h t l))
          | KSearch j =>
              if job l =? j then Some s
              else Some (set_th s t (self_ack_h t l))
          | _ => None
          end
      | _ => None
      end
  | PPoll k, APop =>
      match k with
      | KMain | KSearch _ =>
          match qu s t with
          | c :: rest => Some (set_th (set_qu s t rest) t (handle_h t k c l))
          | [] => None
          end
      | _ => None
      end
  | PPoll (KSearch j), AFinish =>
      if job l =? j then
        if hasres l then Some s
        else Some (set_th (push s p (CReport j (S (se l)) t) false) t (set_hasres l true))
      else None
  | PPoll (KSearch j), AMaxDepth =>
      if job l =? j then Some (set_th s t (self_ack_h t (set_job l (-1)))) else None
  | PStopNotify k, ANotifySelf =>
      Some (set_th (set_flag s t true) t (enter_fwd_h FStop k (children t) l))
  | PFwd w k rest, APush x =>
      if mem_tid x rest then
        let s1 := push s x (fwd_cmd w) (fwd_purge w) in
        match remove_tid x rest with
        | [] => Some (set_th s1 t (finish_fwd_h w k l))
        | r => Some (set_th s1 t (set_pc l (PFwd w k r)))
        end
      else None
  | PSend c k, APush x =>
      if Nat.eqb x p then Some (set_th (push s p c false) t (set_pc (bump_ae c l) (PPoll k))) else None
  | PSendW c, APush x =>
      if Nat.eqb x p then Some (set_th (push s p c false) t (set_pc (bump_ae c l) (PWait KMain))) else None
  | _, _ => None
  end.

(** ---- master (engine thread) ---- *)

Definition finish_fwd_m (w : fwd) (k : ctx) (l : local) : local :=
  match w with
  | FStop => set_pc (set_self l false) (PPoll k)     (* doSearch: comm->sendStopAck(false) *)
  | _ => set_pc l (PPoll k)
  end.

Definition enter_fwd_m (w : fwd) (k : ctx) (chs : list tid) (l : local) : local :=
  match chs with [] => finish_fwd_m w k l | _ => set_pc l (PFwd w k chs) end.

(** the three CommandHandler subclasses used by the engine thread *)
Definition handle_m (k : ctx) (c : cmd) (l : local) : local :=
  match k, c with
  | KAck, CStopAck _ => set_wc l (wc l - 1)          (* doSearch Handler::stopAck *)
  | KQuit, CQuitAck _ => set_qa l (qa l - 1)         (* mainLoop Handler::quitAck *)
  | _, _ => l      (* KMSearch, CReport j: accepted (HelperThreadResult) iff j = jobId *)
  end.

Definition step_m (s : state) (a : act) : option state :=
  let t := 0%nat in
  let l := th s t in
  match pc l, a with
  | PWait KTop, AWait =>
      if flag s t then Some (set_th (set_flag s t false) t (set_pc l MRdQuit)) else None
  | PWait KAck, AWait =>
      if flag s t then Some (set_th (set_flag s t false) t (set_pc l (PPoll KAck))) else None
  | PWait KQuit, AWait =>
      if flag s t then Some (set_th (set_flag s t false) t (set_pc l (PPoll KQuit))) else None
  | MRdQuit, ARdQuit =>
      if quitf s then
        match children t with
        | [] => Some (set_th s t (set_pc (set_qa l 0) (PPoll KQuit)))
        | chs => Some (set_th s t (set_pc (set_qa l (nchildren t)) (PFwd FQuit KQuit chs)))
        end
      else Some (set_th s t (set_pc l MRdSearch))
  | MRdSearch, ARdSearch =>
      if search s then
        Some (set_th (set_sid s (S (sid s))) t (set_pc (set_job l 0) (PPoll KMSearch)))
      else Some (set_th s t (set_pc l (PWait KTop)))
  | PPoll KMSearch, AInitSearch =>
      Some (set_th s t (enter_fwd_m FInit KMSearch (children t) l))
  | PPoll KMSearch, AStartJob =>
      let j := job l + 1 in
      Some (set_th s t (enter_fwd_m (FStart j) KMSearch (children t) (set_job l j)))
  | PPoll KMSearch, ABest =>
      if ponder s then None
      else Some (set_th (set_nbest s (S (nbest s))) t (set_pc l MStopPre))
  | MStopPre, AStopSearch =>
      Some (set_th s t (set_pc (set_se (set_wc (set_self l true) (nchildren t)) (S (se l)))
                               (PStopNotify KAck)))
  | PStopNotify KAck, ANotifySelf =>
      Some (set_th (set_flag s t true) t (enter_fwd_m FStop KAck (children t) l))
  | PFwd w k rest, APush x =>
      if mem_tid x rest then
        let s1 := push s x (fwd_cmd w) (fwd_purge w) in
        match remove_tid x rest with
        | [] => Some (set_th s1 t (finish_fwd_m w k l))
        | r => Some (set_th s1 t (set_pc l (PFwd w k r)))
        end
      else None
  | PPoll k, APop =>
      match k with
      | KMSearch | KAck | KQuit =>
          match qu s t with
          | c :: rest => Some (set_th (set_qu s t rest) t (handle_m k c l))
          | [] => None
          end
      | _ => None
      end
  | PPoll k, APollEmpty =>
      match qu s t with
      | [] =>
          match k with
          | KMSearch => Some s
          | KAck =>
              if hasStopAck l then Some (set_th s t (set_pc (set_ae l (S (ae l))) MFinalNotify))
              else Some (set_th s t (set_pc l (PWait KAck)))
          | KQuit =>
              if qa l =? 0 then Some (set_th s t (set_pc l PExit))
              else Some (set_th s t (set_pc l (PWait KQuit)))
          | _ => None
          end
      | _ => None
      end
  | MFinalNotify, ANotifySelf =>
      Some (set_th (set_flag s t true) t (set_pc l MClear))
  | MClear, AClear =>
      Some (set_th (set_search s false) t (set_pc l (PWait KTop)))
  | _, _ => None
  end.

(** ---- the transition function ---- *)

Definition step (s : state) (t : tid) (a : act) : option state :=
  match t with
  | O => step_m s a
  | S _ =>
      if Nat.leb t N then
        match parent t with
        | Some p => step_h s t p a
        | None => None
        end
      else None
  end.

(** UCI thread (environment) *)
Definition estep (s : state) (e : eact) : option state :=
  match e with
  | EGo p =>
      match epc s with
      | EIdle =>
          if search s || quitf s then None
          else Some (set_epc (set_ponder (set_search s true) p) ENotifyGo)
      | _ => None
      end
  | ENotify =>
      match epc s with
      | EIdle => None
      | _ => Some (set_epc (set_flag s 0%nat true) EIdle)
      end
  | EUnponder => Some (set_ponder s false)
  | ESpur => Some (set_flag s 0%nat true)
  | EQuit =>
      match epc s with
      | EIdle => if search s || quitf s then None else Some (set_epc (set_quitf s true) ENotifyQuit)
      | _ => None
      end
  end.

Inductive label := LT (t : tid) (a : act) | LE (e : eact).

Definition lstep (s : state) (lb : label) : option state :=
  match lb with LT t a => step s t a | LE e => estep s e end.

Definition enabled (s : state) (lb : label) : bool :=
  match lstep s lb with Some _ => true | None => false end.

Fixpoint run (s : state) (ls : list label) : option state :=
  match ls with
  | [] => Some s
  | lb :: r => match lstep s lb with Some s' => run s' r | None => None end
  end.

(** ---- initial states ---- *)

Definition init_local (k : ctx) : local := mkLocal (PWait k) (-1) false false 0 (-1) 0 0.

Definition init : state :=
  mkState (fun t => match t with O => set_job (init_local KTop) 0 | _ => init_local KMain end)
          (fun _ => []) (fun _ => false) false false false EIdle 0 0.

End Model.
