(** C10 — the wake-up invariant [InvL] is inductive (on its own). *)
From Coq Require Import ZArith List Bool Arith Lia.
From Texel Require Import Workers.Workers Workers.WorkersLemmas Workers.WorkersInv Workers.WorkersInvProofs Workers.WorkersTac Workers.WorkersJob Workers.WorkersWake.
Import ListNotations.
Section P.
Variable N : nat.
Variable parent : tid -> option tid.
Notation InvL := (InvL N).
Notation lstep := (lstep N parent).
Notation helper := (helper N).

Lemma helper_ne0' : forall c, helper c -> c <> 0.
Proof. unfold WorkersInv.helper; lia. Qed.

Lemma stepl_q : forall s lb s', InvL s -> lstep s lb = Some s' ->
  forall c, helper c -> qu s' c <> [] -> flag s' c = true \/ inmainpoll (pc (th s' c)) = true.
Proof.
  intros s lb s' L H c Hc.
  pose proof (l_q _ _ L c Hc) as LQ. pose proof (helper_ne0' c Hc) as Hc0.
  step_inv_fine H; crunch; use_eqs; cbn [inmainpoll] in *; auto; try congruence.
  all: intros _; destruct LQ as [F|F]; try discriminate; auto.
Qed.

Lemma stepl_srch : forall s lb s', InvL s -> lstep s lb = Some s' ->
  forall c j, helper c -> ctx_of (pc (th s' c)) = Some (KSearch j) ->
    (job (th s' c) <> j \/ pc (th s' c) <> PPoll (KSearch j)) -> flag s' c = true.
Proof.
  intros s lb s' L H c j Hc.
  pose proof (l_srch _ _ L c j Hc) as LS. pose proof (l_q _ _ L c Hc) as LQ.
  pose proof (helper_ne0' c Hc) as Hc0.
  step_inv_fine H; crunch; use_eqs; cbn [ctx_of inmainpoll] in *; auto; try discriminate.
  all: intros E D.
  all: try (destruct (LQ ltac:(discriminate)) as [F|F]; [exact F | discriminate]).
  all: try (apply LS; [exact E | right; discriminate]; fail).
  all: try (injection E as ->; apply LS; [reflexivity | right; discriminate]; fail).
  injection E as E'. destruct D as [D|D]; [congruence | exfalso; apply D; rewrite E'; reflexivity].
Qed.

Lemma stepl_wait : forall s lb s', InvL s -> lstep s lb = Some s' ->
  forall c, helper c ->
    (pc (th s' c) = PWait KMain \/ exists m, pc (th s' c) = PSendW m) ->
    self (th s' c) = false /\ (job (th s' c) <> (-1)%Z -> flag s' c = true).
Proof.
  intros s lb s' L H c Hc.
  pose proof (l_wait _ _ L c Hc) as LW. pose proof (l_srch _ _ L c) as LS.
  pose proof (helper_ne0' c Hc) as Hc0.
  step_inv_fine H; crunch; use_eqs; cbn [ctx_of] in *; auto.
  all: intros [E|(m & E)]; try discriminate.
  all: try (destruct LW as (W1 & W2); [eauto|]; split; auto; fail).
  all: boolfacts; split; auto; intros Hj; try congruence.
  all: try (eapply (LS j); [auto | reflexivity | left; auto]).
Qed.

Lemma stepl_m : forall s lb s', InvL s -> lstep s lb = Some s' ->
  ((pc (th s' 0) = PWait KAck \/ pc (th s' 0) = PWait KQuit) -> qu s' 0 <> [] -> flag s' 0 = true) /\
  (pc (th s' 0) = PWait KTop -> (search s' = true \/ quitf s' = true) ->
     flag s' 0 = true \/ epc s' <> EIdle) /\
  (pc (th s' 0) = MRdSearch -> quitf s' = true -> flag s' 0 = true \/ epc s' <> EIdle) /\
  (search s' = true -> quitf s' = false) /\
  (mbusy (pc (th s' 0)) = true -> search s' = true).
Proof.
  intros s lb s' L H.
  pose proof (l_mq _ _ L) as M1. pose proof (l_mtop _ _ L) as M2.
  pose proof (l_mrd _ _ L) as M3. pose proof (l_sq _ _ L) as M4. pose proof (l_busy _ _ L) as M5.
  step_inv_fine H; crunch; use_eqs; cbn [mbusy] in *; auto.
  all: repeat split; auto; try discriminate; try tauto; try congruence.
  all: try (intros [E|E]; discriminate).
  all: try (intros E; discriminate).
  all: intros; try congruence.
  all: try (destruct (search s); destruct (quitf s); simpl in *; try discriminate; intuition congruence).
Qed.

Lemma InvL_init : InvL init.
Proof.
  constructor; unfold init; cbn [th qu flag sid nbest search quitf epc]; intros.
  all: try (cbn in *; auto; try tauto; try discriminate; fail).
  all: try (dmatch; cbn in *; try discriminate; try tauto; try lia; fail).
  destruct c; cbn in *; [unfold WorkersInv.helper in *; lia|]. split; auto.
Qed.

Theorem InvL_step : forall s lb s', InvL s -> lstep s lb = Some s' -> InvL s'.
Proof.
  intros s lb s' L H.
  destruct (stepl_m s lb s' L H) as (M1 & M2 & M3 & M4 & M5).
  constructor; auto.
  - eapply stepl_q; eauto.
  - eapply stepl_srch; eauto.
  - eapply stepl_wait; eauto.
Qed.

End P.
