(** C10 — progress: on every weakly fair execution the stop-acknowledgement phase ends, for
    every number of helper threads and every communicator tree.

    Argument: the measure [mu] (WorkersMeasure) never increases while the engine thread is in
    the stop phase; in every such state some thread [t] is a "witness" ([PW]): it can make
    progress, it stays a witness as long as [mu] does not change, and its own state-changing
    transitions decrease [mu] (or, for the engine thread blocked in wait with a non-empty
    mailbox, lead to a state from which they do).  Weak fairness forces the witness to move, so
    [mu] decreases until the barrier is passed. *)
From Coq Require Import ZArith List Bool Arith Lia.
From Texel Require Import Workers.Workers Workers.WorkersLemmas Workers.WorkersInv Workers.WorkersInvProofs
  Workers.WorkersInvMain Workers.WorkersTac Workers.WorkersJob Workers.WorkersWake Workers.WorkersDead
  Workers.WorkersDeadProofs Workers.WorkersLive Workers.WorkersTheorems Workers.WorkersLiveProofs
  Workers.WorkersMeasure Workers.WorkersMeasureProofs.
Import ListNotations.

Section F.
Variable N : nat.
Variable parent : tid -> option tid.
Hypothesis Htree : tree_ok N parent.
Notation InvE := (InvE N parent).
Notation InvD := (InvD N).
Notation InvL := (InvL N).
Notation helper := (helper N).
Notation step := (step N parent).
Notation lstep := (lstep N parent).
Notation can_progress := (can_progress N parent).
Notation mu := (mu N parent).
Notation reach := (reach N parent).

(** ---- what a transition of another thread cannot do to a thread ---- *)
Lemma step_le : forall s t a s', step s t a = Some s' -> t <= N.
Proof.
  intros s t a s' H. unfold Workers.step in H. destruct t; [lia|].
  destruct (Nat.leb (S t) N) eqn:E; [|discriminate]. now apply Nat.leb_le.
Qed.

Lemma other_frame : forall s lb s' c, lstep s lb = Some s' -> (forall a, lb <> LT c a) ->
  th s' c = th s c /\ (flag s c = true -> flag s' c = true) /\ (qu s c <> [] -> qu s' c <> []).
Proof.
  intros s lb s' c H Hne.
  assert (Hc : forall t a, lb = LT t a -> t <> c).
  { intros t a -> ->. now apply (Hne a). }
  destruct lb as [t a|e].
  - specialize (Hc t a eq_refl). unfold Workers.lstep in H.
    step_inv_fine H; crunch; repeat split; auto; try congruence.
    all: try (intros _ E; apply app_eq_nil in E; destruct E; discriminate).
  - clear Hc. unfold Workers.lstep in H. step_inv H; crunch; repeat split; auto.
Qed.

(** ---- witnesses ---- *)
(** a helper thread that is not blocked *)
Definition hw (s : state) (c : tid) : Prop :=
  pc (th s c) <> PExit /\ (pc (th s c) = PWait KMain -> flag s c = true).
Definition SW (t : tid) (s : state) : Prop := (helper t /\ hw s t) \/ (t = 0 /\ good0 s).
Definition PW (t : tid) (s : state) : Prop := (helper t /\ hw s t) \/ (t = 0 /\ (good0 s \/ semi s)).

Lemma SW_PW : forall t s, SW t s -> PW t s.
Proof. intros t s [H|(H & G)]; [left; auto|right; auto]. Qed.

Lemma progress_hw : forall s c, helper c -> can_progress s c -> hw s c.
Proof.
  intros s c Hc (a & s' & H & _). destruct (Htree c Hc) as (p & Hp & _).
  rewrite (step_helper N parent s c p a Hc Hp) in H. unfold step_h in H.
  split; intros E; rewrite E in H; destruct a; try discriminate.
  destruct (flag s c); [reflexivity|discriminate].
Qed.

Lemma PW_progress : forall s t, InvE s -> InvD s -> InvL s -> Stop s -> PW t s -> can_progress s t.
Proof.
  intros s t I D L Hm [(Hc & H1 & H2)|(-> & G)].
  - apply (helper_progress N parent Htree s t I D Hc); auto.
  - apply (master_progress_stop N parent s I Hm).
    intros E. destruct G as [[G|[(r & G)|(G & _)]]|(_ & G)]; try congruence.
    apply (l_mq _ _ L (or_introl E) G).
Qed.

(** existence: the refinement of [stop_no_deadlock_inv] *)
Lemma witness : forall s, InvE s -> InvD s -> InvL s -> Stop s -> exists t, t <= N /\ PW t s.
Proof.
  intros s I D L Hm. pose proof (stop_not_quit _ Hm) as Hq.
  assert (Hh : qu s 0 = [] -> wc (th s 0) <> 0%Z -> (forall c, owes (pc (th s 0)) c = false) ->
               exists t, t <= N /\ PW t s).
  { intros Hqe Wn Ho. destruct (pending_helper N parent Htree s I D L Hq Hqe Wn Ho) as (c & Hc & Hp).
    exists c. split; [apply helper_le; auto|]. left. split; auto. apply progress_hw; auto. }
  unfold Stop in Hm.
  destruct (pc (th s 0)) eqn:Hpc; cbn in Hm; try discriminate.
  - destruct k; cbn in Hm; try discriminate.
    destruct (qu s 0) as [|m r] eqn:Hqe.
    + apply Hh; auto. apply (d_mwait _ _ D Hpc).
    + exists 0. split; [lia|]. right. split; auto. right. split; auto. rewrite Hqe. discriminate.
  - destruct k; cbn in Hm; try discriminate.
    destruct (qu s 0) as [|m r] eqn:Hqe.
    + destruct (hasStopAck (th s 0)) eqn:Hs.
      * exists 0. split; [lia|]. right. split; auto. left. right. right. auto.
      * apply Hh; auto. pose proof (d_mself _ _ D (or_introl Hpc)) as Hself.
        unfold hasStopAck in Hs. rewrite Hself in Hs. cbn in Hs. rewrite andb_true_r in Hs.
        now apply Z.eqb_neq in Hs.
    + exists 0. split; [lia|]. right. split; auto. left. right. right. split; auto. left.
      rewrite Hqe. discriminate.
  - destruct w; cbn in Hm; try discriminate; destruct k; cbn in Hm; try discriminate.
    exists 0. split; [lia|]. right. split; auto. left. right. left. exists rest. exact Hpc.
  - destruct k; cbn in Hm; try discriminate.
    exists 0. split; [lia|]. right. split; auto. left. left. exact Hpc.
Qed.

(** ---- one transition: [mu] does not grow, and a witness stays one while [mu] is unchanged ---- *)
Lemma hw_frame : forall s lb s' c, lstep s lb = Some s' -> (forall a, lb <> LT c a) -> hw s c -> hw s' c.
Proof.
  intros s lb s' c H Hne (H1 & H2). destruct (other_frame s lb s' c H Hne) as (E & F & _).
  unfold hw. rewrite E. split; auto.
Qed.

Lemma good0_contra2 : forall s, good0 s -> pc (th s 0) = PWait KAck -> False.
Proof. intros s [G|[(r & G)|(G & _)]] E; congruence. Qed.
Lemma PW_step : forall s t lb s', InvE s -> InvD s -> Stop s -> PW t s -> lstep s lb = Some s' ->
  Idle s' \/ (Stop s' /\ mu s' < mu s) \/
  (Stop s' /\ mu s' = mu s /\ PW t s' /\ (SW t s -> SW t s')).
Proof.
  intros s t lb s' I D Hm W H.
  pose proof (stop_not_quit _ Hm) as Hq.
  destruct lb as [t' a|e].
  - cbn [Workers.lstep] in H. destruct t' as [|t'].
    + (* the engine thread *)
      destruct (mu_step_m N parent Htree s a s' I Hm H) as [X|(S' & [(X & _)|[(X & E1 & E2 & E3)|(X & E1 & E2 & E3 & E4)]])]; auto.
      * (* wake-up *)
        right; right. split; auto. split; auto.
        destruct W as [(Hc & W)|(-> & [G|(G1 & G2)])].
        -- assert (hw s' t).
           { apply (hw_frame s (LT 0 a) s' t H); auto. intros a' E. injection E as <- _.
             unfold WorkersInv.helper in Hc. lia. }
           split; [left; auto|]. intros _. left; auto.
        -- exfalso. destruct G as [G|[(r & G)|(G & _)]]; congruence.
        -- assert (G' : good0 s') by (right; right; split; auto; left; congruence).
           split; [right; auto|]. intros [(Hc & _)|(_ & G)].
           ++ unfold WorkersInv.helper in Hc; lia.
           ++ exfalso. destruct G as [G|[(r & G)|(G & _)]]; congruence.
      * (* back to wait *)
        right; right. split; auto. split; auto.
        destruct W as [(Hc & W)|(-> & [G|(G1 & G2)])].
        -- assert (hw s' t).
           { apply (hw_frame s (LT 0 a) s' t H); auto. intros a' E. injection E as <- _.
             unfold WorkersInv.helper in Hc. lia. }
           split; [left; auto|]. intros _. left; auto.
        -- exfalso. destruct G as [G|[(r & G)|(G & [G'|G'])]]; congruence.
        -- congruence.
    + (* a helper thread *)
      assert (Hh : helper (S t')) by (apply step_le in H; unfold WorkersInv.helper; lia).
      assert (E0 : th s' 0 = th s 0).
      { apply (other_frame s (LT (S t') a) s' 0 H). intros a' E. discriminate. }
      assert (S' : Stop s') by (unfold Stop in *; rewrite E0; auto).
      destruct (mu_step_h N parent Htree s (S t') a s' I D Hq Hh H) as [X| ->]; auto.
      right; right. auto.
  - (* the UCI thread *)
    cbn [Workers.lstep] in H. destruct (mu_estep N parent s e s' H) as (X & E).
    assert (S' : Stop s') by (unfold Stop in *; rewrite E; auto).
    right; right. split; auto. split; auto.
    assert (Hne : forall c a, LE e <> LT c a) by (intros; discriminate).
    destruct (other_frame s (LE e) s' 0 H (Hne 0)) as (E0 & _ & Q0).
    assert (G0 : good0 s -> good0 s').
    { unfold good0. rewrite E0. intros [G|[G|(G & [G'|G'])]]; auto.
      all: right; right; split; auto. }
    destruct W as [(Hc & W)|(-> & G)].
    + assert (hw s' t) by (apply (hw_frame s (LE e) s' t H); auto).
      split; [left; auto|]. intros _; left; auto.
    + split.
      * right. split; auto. destruct G as [G|(G1 & G2)]; auto.
        right. unfold semi. rewrite E0. auto.
      * intros [(Hc & _)|(_ & G')]; [unfold WorkersInv.helper in Hc; lia|]. right; auto.
Qed.

(** ---- executions ---- *)
Section Exec.
Variable e : nat -> state.
Hypothesis Hinit : reach (e 0).
Hypothesis Hexec : execution N parent e.
Hypothesis Hfair : weakly_fair N parent e.

Lemma exec_reach : forall i, reach (e i).
Proof.
  induction i; auto. destruct (Hexec i) as (lb & H). eapply reach_step; eauto.
Qed.
Lemma exec_inv : forall i, InvE (e i) /\ InvD (e i) /\ InvL (e i).
Proof.
  intros i. pose proof (exec_reach i) as R.
  destruct (reach_inv N parent Htree _ R) as (I & _ & L).
  split; auto. split; auto. apply (reach_invD N parent Htree); auto.
Qed.

(** the witness survives until [mu] drops or the phase ends *)
Lemma segment : forall t d i, Stop (e i) -> PW t (e i) ->
  (exists k, i <= k /\ Idle (e k)) \/
  (exists k, i <= k /\ Stop (e k) /\ mu (e k) < mu (e i)) \/
  (Stop (e (i + d)) /\ mu (e (i + d)) = mu (e i) /\ PW t (e (i + d)) /\
   (SW t (e i) -> SW t (e (i + d)))).
Proof.
  intros t. induction d as [|d IH]; intros i Hs W.
  - right; right. rewrite Nat.add_0_r. auto.
  - destruct (IH i Hs W) as [X|[X|(S1 & M1 & W1 & K1)]]; auto.
    destruct (Hexec (i + d)) as (lb & H).
    destruct (exec_inv (i + d)) as (I & D & _).
    replace (i + S d) with (S (i + d)) by lia.
    destruct (PW_step _ t lb _ I D S1 W1 H) as [X|[(S2 & X)|(S2 & M2 & W2 & K2)]].
    + left. exists (S (i + d)). split; [lia|auto].
    + right; left. exists (S (i + d)). split; [lia|]. split; auto. lia.
    + right; right. split; auto. split; [lia|]. split; auto.
Qed.

Lemma helper_step_stop : forall s t a s', helper t -> step s t a = Some s' -> Stop s -> Stop s'.
Proof.
  intros s t a s' Hc H Hs.
  assert (E0 : th s' 0 = th s 0).
  { apply (other_frame s (LT t a) s' 0 H). intros a' E. inversion E. subst.
    unfold WorkersInv.helper in Hc. lia. }
  unfold Stop in *. now rewrite E0.
Qed.

Section Ind.
Variable n : nat.
Hypothesis IH : forall j, Stop (e j) -> mu (e j) < n -> exists k, j <= k /\ Idle (e k).

(** a witness all of whose transitions decrease [mu] *)
Lemma strong_case : forall j t, t <= N -> mu (e j) = n -> Stop (e j) -> SW t (e j) ->
  exists k, j <= k /\ Idle (e k).
Proof.
  intros j t Ht Hmu Hs W.
  destruct (Hfair t j Ht) as (k & Hk & Hf).
  destruct (segment t (k - j) j Hs (SW_PW _ _ W)) as [(k' & Hk' & X)|[(k' & Hk' & S' & X)|(S1 & M1 & W1 & K1)]].
  - exists k'; auto.
  - destruct (IH k' S' ltac:(lia)) as (k'' & ? & ?). exists k''. split; [lia|auto].
  - replace (j + (k - j)) with k in * by lia. specialize (K1 W).
    destruct (exec_inv k) as (I & D & L).
    destruct Hf as [Hf|(a & Ha & Hn)]; [exfalso; apply Hf; apply PW_progress; auto|].
    assert (Hlt : Stop (e (S k)) -> mu (e (S k)) < mu (e k) -> exists k0, j <= k0 /\ Idle (e k0)).
    { intros S2 X. destruct (IH (S k) S2 ltac:(lia)) as (k'' & ? & ?). exists k''. split; [lia|auto]. }
    destruct K1 as [(Hc & _)|(-> & G)].
    + destruct (mu_step_h N parent Htree _ t a _ I D (stop_not_quit _ S1) Hc Ha) as [X|X]; [|congruence].
      apply Hlt; auto. apply (helper_step_stop _ t a _ Hc Ha S1).
    + destruct (mu_step_m N parent Htree _ a _ I S1 Ha)
        as [X|(S2 & [(X & _)|[(X & E1 & E2 & E3)|(X & E1 & E2 & E3 & E4)]])].
      * exists (S k). split; [lia|auto].
      * apply Hlt; auto.
      * exfalso. destruct G as [G|[(r & G)|(G & _)]]; congruence.
      * exfalso. destruct G as [G|[(r & G)|(G & [G'|G'])]]; congruence.
Qed.

Lemma any_case : forall j, mu (e j) = n -> Stop (e j) -> exists k, j <= k /\ Idle (e k).
Proof.
  intros j Hmu Hs.
  destruct (exec_inv j) as (I & D & L).
  destruct (witness _ I D L Hs) as (t & Ht & [W|(-> & [G|G])]).
  - apply (strong_case j t); auto. left; auto.
  - apply (strong_case j 0); auto. right; auto.
  - (* the engine thread is blocked in wait with a non-empty mailbox *)
    assert (W : PW 0 (e j)) by (right; auto).
    destruct (Hfair 0 j Ht) as (k & Hk & Hf).
    destruct (segment 0 (k - j) j Hs W) as [(k' & Hk' & X)|[(k' & Hk' & S' & X)|(S1 & M1 & W1 & _)]].
    + exists k'; auto.
    + destruct (IH k' S' ltac:(lia)) as (k'' & ? & ?). exists k''. split; [lia|auto].
    + replace (j + (k - j)) with k in * by lia.
      destruct (exec_inv k) as (Ik & Dk & Lk).
      destruct W1 as [(Hc & _)|(_ & [G1|G1])]; [unfold WorkersInv.helper in Hc; lia | |].
      * destruct (strong_case k 0 Ht ltac:(lia) S1 (or_intror (conj eq_refl G1))) as (k'' & ? & ?).
        exists k''. split; [lia|auto].
      * destruct Hf as [Hf|(a & Ha & Hn)];
          [exfalso; apply Hf; apply PW_progress; auto; right; auto|].
        destruct (mu_step_m N parent Htree _ a _ Ik S1 Ha)
          as [X|(S2 & [(X & _)|[(X & E1 & E2 & E3)|(X & E1 & E2 & E3 & E4)]])].
        -- exists (S k). split; [lia|auto].
        -- destruct (IH (S k) S2 ltac:(lia)) as (k'' & ? & ?). exists k''. split; [lia|auto].
        -- assert (G' : good0 (e (S k))).
           { right; right. split; auto. left. rewrite E3. apply G1. }
           destruct (strong_case (S k) 0 Ht ltac:(lia) S2 (or_intror (conj eq_refl G'))) as (k'' & ? & ?).
           exists k''. split; [lia|auto].
        -- destruct G1 as (G1 & _). congruence.
Qed.
End Ind.

Theorem stop_ends : forall i, Stop (e i) -> exists k, i <= k /\ Idle (e k).
Proof.
  intros i. remember (mu (e i)) as n eqn:En. revert i En.
  induction n as [n IHn] using lt_wf_ind. intros i En Hs.
  apply (any_case n); auto.
  intros j Sj Hj. apply (IHn (mu (e j)) Hj j eq_refl Sj).
Qed.

End Exec.

(** the stop phase ends on every weakly fair execution *)
Theorem stop_terminates : forall e : nat -> state,
  reach (e 0) -> execution N parent e -> weakly_fair N parent e ->
  forall i, mphase (pc (th (e i) 0)) = Some PhStop ->
  exists k, i <= k /\ master_idle (e k).
Proof.
  intros e R X F i Hs. apply (stop_ends e R X F i Hs).
Qed.

End F.
