(** C09 — the hand-off locations (search parameters, option values, TT geometry/generation) are
    plain objects passed between the UCI thread and the engine thread; every conflicting pair of
    accesses by these two threads is ordered by happens-before, for every schedule of the model in
    which go and go ponder wait for pending options (gp = true). *)
From Coq Require Import ZArith List Bool Arith Lia Relations.
From Texel Require Import Workers.Workers Workers.WorkersLemmas Workers.WorkersInv Workers.WorkersInvProofs
  Workers.WorkersJob Workers.WorkersWake Workers.WorkersWakeProofs
  Workers.Race Workers.RaceProofs Workers.Access Workers.AccessProofs.
Import ListNotations.

Definition handoff_loc (l : loc) : bool :=
  match l with LParams | LOpt | LTT => true | _ => false end.

(** a race on a P-location between threads t1 and t2 *)
Definition race_between (tr : list tev) (t1 t2 : tid) (P : loc -> bool) : Prop :=
  exists i j a b, i < j /\ at_ tr i = Some a /\ at_ tr j = Some b /\ conflictb a b = true /\
                  sel P a = true /\
                  ((ev_tid a = t1 /\ ev_tid b = t2) \/ (ev_tid a = t2 /\ ev_tid b = t1)) /\
                  ~ hb tr i j.

(** ---- traces grow by appending ---- *)
Lemma nth_app_l : forall (tr B : list tev) p, p < length tr -> nth_error (tr ++ B) p = nth_error tr p.
Proof. intros. now apply nth_error_app1. Qed.
Lemma nth_app_r : forall (tr B : list tev) k, nth_error (tr ++ B) (length tr + k) = nth_error B k.
Proof. intros. rewrite nth_error_app2 by lia. f_equal. lia. Qed.
Lemma nth_some_lt : forall (tr : list tev) p e, nth_error tr p = Some e -> p < length tr.
Proof. intros. apply nth_error_Some. congruence. Qed.

Lemma edge_app : forall tr B i j, edge tr i j -> edge (tr ++ B) i j.
Proof.
  intros tr B i j [(L & a & b & Ha & Hb & E)|[(L & t1 & t2 & m & Ha & Hb)|(L & t1 & t2 & l & Ha & Hb & Hn)]];
    unfold at_ in *.
  - left. split; auto. exists a, b. rewrite !nth_app_l by (eapply nth_some_lt; eauto). auto.
  - right. left. split; auto. exists t1, t2, m. rewrite !nth_app_l by (eapply nth_some_lt; eauto). auto.
  - right. right. split; auto. exists t1, t2, l. rewrite !nth_app_l by (eapply nth_some_lt; eauto).
    repeat split; auto. intros k e Hk He. pose proof (nth_some_lt _ _ _ Hb).
    unfold at_ in He. rewrite nth_app_l in He by lia. eapply Hn; eauto.
Qed.
Lemma hb_app : forall tr B i j, hb tr i j -> hb (tr ++ B) i j.
Proof. induction 1; [apply t_step; now apply edge_app | eapply t_trans; eauto]. Qed.

Lemma hb_po : forall tr i j a b, i < j -> nth_error tr i = Some a -> nth_error tr j = Some b ->
  ev_tid a = ev_tid b -> hb tr i j.
Proof. intros. apply t_step. left. split; auto. exists a, b. auto. Qed.
Lemma hb_sw : forall tr i j t1 t2 m, i < j -> nth_error tr i = Some (Rel t1 m) ->
  nth_error tr j = Some (Acq t2 m) -> hb tr i j.
Proof. intros. apply t_step. right. left. split; auto. exists t1, t2, m. auto. Qed.

(** p --po--> r (release) --sw--> a (acquire) --po--> q *)
Lemma hb_chain_mutex : forall tr p r a q ep eq t1 t2 m,
  p < r -> r < a -> a < q ->
  nth_error tr p = Some ep -> ev_tid ep = t1 -> nth_error tr r = Some (Rel t1 m) ->
  nth_error tr a = Some (Acq t2 m) -> nth_error tr q = Some eq -> ev_tid eq = t2 ->
  hb tr p q.
Proof.
  intros. eapply t_trans; [eapply (hb_po tr p r); eauto|].
  eapply t_trans; [eapply (hb_sw tr r a); eauto|]. eapply (hb_po tr a q); eauto.
Qed.

Section H.
Variable N : nat.
Variable parent : tid -> option tid.
Notation U := (uci N).
Notation lstep := (lstep N parent).

(** ---- facts about the control LTS ---- *)
Lemma lstep_search : forall s lb s', lstep s lb = Some s' ->
  search s' = search s \/
  (exists p, lb = LE (EGo p) /\ search s = false /\ search s' = true) \/
  (lb = LT 0 AClear /\ search s' = false).
Proof.
  intros s lb s' H. step_inv_fine H; ssimpl; auto.
  all: right; left; eexists; apply orb_false_iff in Heqb; destruct Heqb; eauto.
Qed.

Lemma lstep_busy : forall s lb s', lstep s lb = Some s' -> mbusy (pc (th s' 0)) = true ->
  mbusy (pc (th s 0)) = true \/ (lb = LT 0 ARdSearch /\ search s = true).
Proof.
  intros s lb s' H. step_inv_fine H; ssimpl; unfold upd; cbn [Nat.eqb];
    repeat match goal with Hp : pc (th _ 0) = _ |- _ => rewrite Hp end; cbn [mbusy]; auto; try discriminate.
  all: cbn; rewrite ?Heqp; cbn; auto; try discriminate.
Qed.

Lemma lstep_tid : forall s t a s', lstep s (LT t a) = Some s' -> t <= N.
Proof.
  intros s t a s' H. simpl in H. unfold step in H. destruct t; [lia|].
  destruct (Nat.leb (S t) N) eqn:E; [|discriminate]. now apply Nat.leb_le.
Qed.

Lemma lstep_best_busy : forall s s', lstep s (LT 0 ABest) = Some s' ->
  mbusy (pc (th s 0)) = true /\ mbusy (pc (th s' 0)) = true.
Proof.
  intros s s' H. step_inv_fine H; ssimpl; unfold upd; cbn [Nat.eqb]; rewrite ?Heqp; cbn; auto.
Qed.

Lemma lstep_rdsearch_busy : forall s s', lstep s (LT 0 ARdSearch) = Some s' -> search s = true ->
  mbusy (pc (th s' 0)) = true.
Proof.
  intros s s' H Hs. step_inv_fine H; ssimpl; unfold upd; cbn [Nat.eqb]; try congruence; cbn; auto.
Qed.

(** ---- what the blocks contain ---- *)
Definition isU (e : tev) : Prop := ev_tid e = U /\ sel handoff_loc e = true.
Definition isE (e : tev) : Prop := ev_tid e = 0 /\ sel handoff_loc e = true.
Definition is_wr (e : tev) : bool := match e with Acc _ _ w _ => w | _ => false end.

(** a block with no hand-off access by the two threads and no write of [search] *)
Definition quiet_blk (B : list tev) : Prop :=
  forall k e, nth_error B k = Some e -> ~ isU e /\ ~ isE e /\ writes LSearch e = false.

Ltac enum_nth H :=
  repeat (match type of H with nth_error _ ?k = Some _ => destruct k; simpl in H end;
          try discriminate; try (injection H as <-)).

Lemma push_quiet : forall t m, t <= N -> quiet_blk (push_events t m).
Proof.
  intros t m Ht k e H. unfold push_events in H. enum_nth H; unfold isU, isE; simpl; intuition discriminate.
Qed.

Lemma act_quiet : forall s t a, t <= N ->
  a <> ARdSearch -> a <> ABest -> a <> AClear -> quiet_blk (act_events parent s t a).
Proof.
  intros s t a Ht H1 H2 H3 k e H.
  destruct a; try congruence; simpl in H.
  - enum_nth H; unfold isU, isE; simpl; intuition discriminate.
  - destruct t.
    + simpl in H. enum_nth H; unfold isU, isE; simpl; intuition discriminate.
    + assert (HU : S t <> U) by (unfold uci; lia).
      destruct (pc (th s (S t))); simpl in H;
        try (enum_nth H; unfold isU, isE; simpl; intuition discriminate).
      destruct k0; simpl in H; try (enum_nth H; unfold isU, isE; simpl; intuition discriminate).
      destruct (negb (qa (th s (S t)) =? 0)%Z && negb (job (th s (S t)) =? -1)%Z); simpl in H;
        enum_nth H; unfold isU, isE; simpl; intuition (try discriminate; try congruence).
  - enum_nth H; unfold isU, isE; simpl; intuition discriminate.
  - now apply (push_quiet t x Ht k e).
  - unfold notify_events in H. enum_nth H; unfold isU, isE; simpl; intuition discriminate.
  - destruct (hasres (th s t)); [destruct k; discriminate|].
    destruct (parent t); [now apply (push_quiet t t0 Ht k e) | destruct k; discriminate].
  - destruct k; discriminate.
  - enum_nth H; unfold isU, isE; simpl; intuition discriminate.
  - destruct k; discriminate.
  - destruct k; discriminate.
  - destruct k; discriminate.
Qed.

Lemma env_quiet : forall e, (forall p, e <> EGo p) -> quiet_blk (env_events N true e).
Proof.
  intros e He k ev H. destruct e; try (exfalso; eapply He; eauto; fail); simpl in H;
    unfold notify_events in H; enum_nth H; unfold isU, isE; simpl; intuition discriminate.
Qed.

Lemma lstep_master_only : forall s t a s', lstep s (LT t a) = Some s' ->
  (a = ARdSearch \/ a = ABest \/ a = AClear) -> t = 0.
Proof.
  intros s t a s' H Ha. destruct t; auto. exfalso.
  destruct Ha as [->|[->| ->]]; step_inv_fine H.
Qed.

Lemma lstep_clear : forall s s', lstep s (LT 0 AClear) = Some s' ->
  search s' = false /\ mbusy (pc (th s' 0)) = false.
Proof. intros s s' H. step_inv_fine H; ssimpl; unfold upd; cbn; auto. Qed.

Lemma conflict_sel : forall P a b, conflictb a b = true -> sel P a = true -> sel P b = true.
Proof.
  intros P a b H Hs. destruct (conflictb_inv a b H) as (t1 & l & w1 & a1 & t2 & w2 & a2 & -> & -> & _). auto.
Qed.
Lemma conflict_tid : forall a b, conflictb a b = true -> ev_tid a <> ev_tid b.
Proof.
  intros a b H. destruct (conflictb_inv a b H) as (t1 & l & w1 & a1 & t2 & w2 & a2 & -> & -> & Hne & _). auto.
Qed.

Lemma app_case : forall (tr B : list tev) p e, nth_error (tr ++ B) p = Some e ->
  (p < length tr /\ nth_error tr p = Some e) \/ (exists k, p = length tr + k /\ nth_error B k = Some e).
Proof.
  intros tr B p e H. destruct (Nat.lt_ge_cases p (length tr)).
  - left. rewrite nth_error_app1 in H by auto. auto.
  - right. exists (p - length tr). rewrite nth_error_app2 in H by auto. split; [lia|auto].
Qed.

(** ---- the invariant ---- *)
Notation xstep := (xstep N parent true).
Notation xevents := (xevents N parent true).

Inductive xreach : xstate -> list tev -> Prop :=
| xr0 : xreach xinit []
| xrS : forall x tr xl x', xreach x tr -> xstep x xl = Some x' -> xreach x' (tr ++ xevents x xl).

Record HI (x : xstate) (tr : list tev) : Prop := {
  h_L : InvL N (base x);
  h_taken : xeo x = EOTaken -> xfin x = false;
  h_pend : xpend x = true -> xfin x = false;
  h_urel : forall p e, nth_error tr p = Some e -> isU e ->
             exists r, p < r /\ nth_error tr r = Some (Rel U ME);
  h_fin : xfin x = true -> forall p e, nth_error tr p = Some e -> isE e -> is_wr e = true ->
             exists r, p < r /\ nth_error tr r = Some (Rel 0 ME);
  h_idle : search (base x) = false -> forall p e, nth_error tr p = Some e -> isE e -> is_wr e = false ->
             exists r, p < r /\ nth_error tr r = Some (Rel 0 ME);
  h_tk : xeo x = EOTaken -> forall p e, nth_error tr p = Some e -> isU e ->
             exists r a, p < r /\ r < a /\ nth_error tr r = Some (Rel U ME) /\ nth_error tr a = Some (Acq 0 ME);
  h_go : search (base x) = true ->
             exists w, nth_error tr w = Some (Acc U LSearch true Atomic) /\
               (forall k e, w < k -> nth_error tr k = Some e -> writes LSearch e = false) /\
               (forall p e, nth_error tr p = Some e -> isU e -> p < w);
  h_busy : mbusy (pc (th (base x) 0)) = true ->
             exists q0 e0, nth_error tr q0 = Some e0 /\ ev_tid e0 = 0 /\
               forall p e, nth_error tr p = Some e -> isU e -> hb tr p q0;
  h_nr : forall p q a b, p < q -> nth_error tr p = Some a -> nth_error tr q = Some b ->
             conflictb a b = true -> sel handoff_loc a = true ->
             ((ev_tid a = U /\ ev_tid b = 0) \/ (ev_tid a = 0 /\ ev_tid b = U)) -> hb tr p q
}.

(** persistence of the trace-indexed fields when a block is appended *)
Lemma keep_urel : forall tr B,
  (forall p e, nth_error tr p = Some e -> isU e -> exists r, p < r /\ nth_error tr r = Some (Rel U ME)) ->
  (forall k e, nth_error B k = Some e -> ~ isU e) ->
  forall p e, nth_error (tr ++ B) p = Some e -> isU e -> exists r, p < r /\ nth_error (tr ++ B) r = Some (Rel U ME).
Proof.
  intros tr B H HB p e Hp Hu. destruct (app_case _ _ _ _ Hp) as [(L & Q)|(k & -> & Q)].
  - destruct (H p e Q Hu) as (r & Hr & Er). exists r. split; auto. rewrite nth_app_l; auto. eapply nth_some_lt; eauto.
  - exfalso. eapply HB; eauto.
Qed.

Lemma keep_rel0 : forall tr B (C : tev -> Prop),
  (forall p e, nth_error tr p = Some e -> C e -> exists r, p < r /\ nth_error tr r = Some (Rel 0 ME)) ->
  (forall k e, nth_error B k = Some e -> ~ C e) ->
  forall p e, nth_error (tr ++ B) p = Some e -> C e -> exists r, p < r /\ nth_error (tr ++ B) r = Some (Rel 0 ME).
Proof.
  intros tr B C H HB p e Hp Hc. destruct (app_case _ _ _ _ Hp) as [(L & Q)|(k & -> & Q)].
  - destruct (H p e Q Hc) as (r & Hr & Er). exists r. split; auto. rewrite nth_app_l; auto. eapply nth_some_lt; eauto.
  - exfalso. eapply HB; eauto.
Qed.

(** a fresh Rel 0 ME in the block serves every old position *)
Lemma gain_rel0 : forall tr B (C : tev -> Prop) j,
  nth_error B j = Some (Rel 0 ME) -> (forall k e, nth_error B k = Some e -> ~ C e) ->
  forall p e, nth_error (tr ++ B) p = Some e -> C e -> exists r, p < r /\ nth_error (tr ++ B) r = Some (Rel 0 ME).
Proof.
  intros tr B C j Hj HB p e Hp Hc. destruct (app_case _ _ _ _ Hp) as [(L & Q)|(k & -> & Q)].
  - exists (length tr + j). split; [lia|]. now rewrite nth_app_r.
  - exfalso. eapply HB; eauto.
Qed.

Lemma keep_tk : forall tr B,
  (forall p e, nth_error tr p = Some e -> isU e ->
     exists r a, p < r /\ r < a /\ nth_error tr r = Some (Rel U ME) /\ nth_error tr a = Some (Acq 0 ME)) ->
  (forall k e, nth_error B k = Some e -> ~ isU e) ->
  forall p e, nth_error (tr ++ B) p = Some e -> isU e ->
     exists r a, p < r /\ r < a /\ nth_error (tr ++ B) r = Some (Rel U ME) /\ nth_error (tr ++ B) a = Some (Acq 0 ME).
Proof.
  intros tr B H HB p e Hp Hu. destruct (app_case _ _ _ _ Hp) as [(L & Q)|(k & -> & Q)].
  - destruct (H p e Q Hu) as (r & a & H1 & H2 & H3 & H4). exists r, a. repeat split; auto;
      rewrite nth_app_l; auto; eapply nth_some_lt; eauto.
  - exfalso. eapply HB; eauto.
Qed.

Lemma keep_go : forall tr B,
  (exists w, nth_error tr w = Some (Acc U LSearch true Atomic) /\
     (forall k e, w < k -> nth_error tr k = Some e -> writes LSearch e = false) /\
     (forall p e, nth_error tr p = Some e -> isU e -> p < w)) ->
  (forall k e, nth_error B k = Some e -> ~ isU e /\ writes LSearch e = false) ->
  exists w, nth_error (tr ++ B) w = Some (Acc U LSearch true Atomic) /\
     (forall k e, w < k -> nth_error (tr ++ B) k = Some e -> writes LSearch e = false) /\
     (forall p e, nth_error (tr ++ B) p = Some e -> isU e -> p < w).
Proof.
  intros tr B (w & Hw & H1 & H2) HB. exists w. split; [rewrite nth_app_l; auto; eapply nth_some_lt; eauto|]. split.
  - intros k e Hk He. destruct (app_case _ _ _ _ He) as [(L & Q)|(k' & -> & Q)]; [eapply H1; eauto | now apply (HB k' e)].
  - intros p e Hp Hu. destruct (app_case _ _ _ _ Hp) as [(L & Q)|(k' & -> & Q)]; [eapply H2; eauto|].
    exfalso. now apply (HB k' e Q).
Qed.

Lemma keep_busy : forall tr B,
  (exists q0 e0, nth_error tr q0 = Some e0 /\ ev_tid e0 = 0 /\
     forall p e, nth_error tr p = Some e -> isU e -> hb tr p q0) ->
  (forall k e, nth_error B k = Some e -> ~ isU e) ->
  exists q0 e0, nth_error (tr ++ B) q0 = Some e0 /\ ev_tid e0 = 0 /\
     forall p e, nth_error (tr ++ B) p = Some e -> isU e -> hb (tr ++ B) p q0.
Proof.
  intros tr B (q0 & e0 & H0 & H1 & H2) HB. exists q0, e0.
  split; [rewrite nth_app_l; auto; eapply nth_some_lt; eauto|]. split; auto.
  intros p e Hp Hu. destruct (app_case _ _ _ _ Hp) as [(L & Q)|(k' & -> & Q)].
  - apply hb_app. eapply H2; eauto.
  - exfalso. eapply HB; eauto.
Qed.

(** new pairs only arise with the later access in the appended block *)
Lemma keep_nr : forall tr B,
  (forall p q a b, p < q -> nth_error tr p = Some a -> nth_error tr q = Some b ->
     conflictb a b = true -> sel handoff_loc a = true ->
     ((ev_tid a = U /\ ev_tid b = 0) \/ (ev_tid a = 0 /\ ev_tid b = U)) -> hb tr p q) ->
  (forall p k a b, nth_error (tr ++ B) p = Some a -> nth_error B k = Some b -> p < length tr + k ->
     conflictb a b = true -> sel handoff_loc a = true ->
     ((ev_tid a = U /\ ev_tid b = 0) \/ (ev_tid a = 0 /\ ev_tid b = U)) -> hb (tr ++ B) p (length tr + k)) ->
  forall p q a b, p < q -> nth_error (tr ++ B) p = Some a -> nth_error (tr ++ B) q = Some b ->
     conflictb a b = true -> sel handoff_loc a = true ->
     ((ev_tid a = U /\ ev_tid b = 0) \/ (ev_tid a = 0 /\ ev_tid b = U)) -> hb (tr ++ B) p q.
Proof.
  intros tr B Hold Hnew p q a b Hpq Hp Hq Hc Hs Ht.
  destruct (app_case _ _ _ _ Hq) as [(L & Q)|(k & -> & Q)].
  - apply hb_app. eapply Hold; eauto. rewrite nth_app_l in Hp by lia. auto.
  - eapply Hnew; eauto.
Qed.

Lemma quiet_nu : forall B, quiet_blk B -> forall k e, nth_error B k = Some e -> ~ isU e.
Proof. intros B Q k e H. now destruct (Q k e H). Qed.
Lemma quiet_ne : forall B, quiet_blk B -> forall k e, nth_error B k = Some e -> ~ isE e.
Proof. intros B Q k e H. now destruct (Q k e H) as (_ & ? & _). Qed.

(** a step whose block contains no hand-off access of the two threads *)
Lemma HI_quiet : forall x tr x' B, HI x tr ->
  (forall k e, nth_error B k = Some e -> ~ isU e /\ ~ isE e) -> InvL N (base x') ->
  (search (base x') = true ->
     search (base x) = true /\ forall k e, nth_error B k = Some e -> writes LSearch e = false) ->
  (search (base x') = false -> search (base x) = false \/ exists j, nth_error B j = Some (Rel 0 ME)) ->
  (xfin x' = true -> xfin x = true \/ exists j, nth_error B j = Some (Rel 0 ME)) ->
  (xeo x' = EOTaken -> xfin x' = false) -> (xpend x' = true -> xfin x' = false) ->
  (xeo x' = EOTaken -> xeo x = EOTaken \/ exists j, nth_error B j = Some (Acq 0 ME)) ->
  (mbusy (pc (th (base x') 0)) = true -> mbusy (pc (th (base x) 0)) = true) ->
  HI x' (tr ++ B).
Proof.
  intros x tr x' B H Q L Hs1 Hs0 Hf Ht Hp He Hb.
  assert (QU : forall k e, nth_error B k = Some e -> ~ isU e) by (intros k e A; now destruct (Q k e A)).
  assert (QE : forall k e, nth_error B k = Some e -> ~ isE e) by (intros k e A; now destruct (Q k e A)).
  constructor; auto.
  - apply keep_urel; [apply (h_urel _ _ H) | exact QU].
  - intros E p e Hpe He1 He2. destruct (Hf E) as [F|(j & Hj)].
    + apply (keep_rel0 tr B (fun e => isE e /\ is_wr e = true)) with (p := p) (e := e); auto.
      * intros p0 e0 A (B1 & B2). eapply (h_fin _ _ H); eauto.
      * intros k e0 A (B1 & _). eapply QE; eauto.
    + apply (gain_rel0 tr B (fun e => isE e) j Hj QE p e Hpe He1).
  - intros E p e Hpe He1 He2. destruct (Hs0 E) as [F|(j & Hj)].
    + apply (keep_rel0 tr B (fun e => isE e /\ is_wr e = false)) with (p := p) (e := e); auto.
      * intros p0 e0 A (B1 & B2). eapply (h_idle _ _ H); eauto.
      * intros k e0 A (B1 & _). eapply QE; eauto.
    + apply (gain_rel0 tr B (fun e => isE e) j Hj QE p e Hpe He1).
  - intros E p e Hpe Hu. destruct (He E) as [F|(j & Hj)].
    + apply (keep_tk tr B (h_tk _ _ H F) QU p e Hpe Hu).
    + destruct (app_case _ _ _ _ Hpe) as [(Lt & Qp)|(k & -> & Qp)]; [|exfalso; eapply QU; eauto].
      destruct (h_urel _ _ H p e Qp Hu) as (r & Hr & Er). pose proof (nth_some_lt _ _ _ Er).
      exists r, (length tr + j). repeat split; auto; try lia.
      * rewrite nth_app_l; auto.
      * now rewrite nth_app_r.
  - intros E. destruct (Hs1 E) as (E0 & NW). apply keep_go; [apply (h_go _ _ H); auto|].
    intros k e A. split; [eapply QU; eauto | eapply NW; eauto].
  - intros E. apply keep_busy; [apply (h_busy _ _ H); auto | exact QU].
  - apply keep_nr; [apply (h_nr _ _ H)|].
    intros p k a b Ha Hkb _ Hc Hsel Htid. exfalso.
    pose proof (conflict_sel _ _ _ Hc Hsel) as Sb.
    destruct Htid as [(_ & T)|(_ & T)]; [eapply QE | eapply QU]; eauto; split; auto.
Qed.

Lemma U_ne0 : U <> 0.
Proof. unfold uci. lia. Qed.

(** ---- the four steps that touch the hand-off locations ---- *)

(** engine thread applies the options it has taken *)
Lemma HI_apply : forall x tr, HI x tr -> xeo x = EOTaken ->
  HI (mkX (base x) (xpend x) (xfin x) EONeed) (tr ++ [Acc 0 LOpt true Plain; Acc 0 LTT true Plain]).
Proof.
  intros x tr H E. set (B := [Acc 0 LOpt true Plain; Acc 0 LTT true Plain]).
  assert (QU : forall k e, nth_error B k = Some e -> ~ isU e).
  { intros k e A (T & _). unfold B in A. enum_nth A; simpl in T; pose proof U_ne0; congruence. }
  pose proof (h_taken _ _ H E) as Ffalse.
  constructor; cbn [base xpend xfin xeo].
  - apply (h_L _ _ H).
  - discriminate.
  - apply (h_pend _ _ H).
  - apply keep_urel; [apply (h_urel _ _ H) | exact QU].
  - congruence.
  - intros Es p e Hpe He1 He2.
    apply (keep_rel0 tr B (fun e => isE e /\ is_wr e = false)) with (p := p) (e := e); auto.
    + intros p0 e0 A (B1 & B2). eapply (h_idle _ _ H); eauto.
    + intros k e0 A (_ & W). unfold B in A. enum_nth A; discriminate.
  - discriminate.
  - intros Es. apply keep_go; [apply (h_go _ _ H); auto|].
    intros k e A. split; [eapply QU; eauto|]. unfold B in A. enum_nth A; reflexivity.
  - intros Eb. apply keep_busy; [apply (h_busy _ _ H); auto | exact QU].
  - apply keep_nr; [apply (h_nr _ _ H)|].
    intros p k a b Ha Hkb Hlt Hc Hsel Htid.
    assert (Tb : ev_tid b = 0) by (unfold B in Hkb; enum_nth Hkb; reflexivity).
    destruct Htid as [(Ta & _)|(_ & Tb')]; [|pose proof U_ne0; congruence].
    destruct (app_case _ _ _ _ Ha) as [(Lt & Qp)|(k' & -> & Qp)];
      [|exfalso; eapply QU; eauto; split; auto].
    destruct (h_tk _ _ H E p a Qp (conj Ta Hsel)) as (r & a' & H1 & H2 & H3 & H4).
    pose proof (nth_some_lt _ _ _ H4).
    eapply (hb_chain_mutex (tr ++ B) p r a' (length tr + k) a b U 0 ME); eauto; try lia.
    + rewrite nth_app_l; auto. lia.
    + rewrite nth_app_l; auto.
    + now rewrite nth_app_r.
Qed.

(** UCI thread: go / go ponder (after waitStop and waitOptionsSet) *)
Lemma HI_go : forall x tr p s', HI x tr -> xfin x = true ->
  lstep (base x) (LE (EGo p)) = Some s' ->
  HI (mkX s' (xpend x) (xfin x) (xeo x)) (tr ++ env_events N true (EGo p)).
Proof.
  intros x tr p s' H Ef Hst.
  assert (Hsr : search (base x) = false /\ search s' = true).
  { destruct (lstep_search _ _ _ Hst) as [A|[(p' & _ & A & B)|(A & _)]]; auto; try discriminate.
    exfalso. simpl in Hst. destruct (epc (base x)); try discriminate.
    destruct (search (base x) || quitf (base x)) eqn:O; try discriminate. injection Hst as <-.
    simpl in A. apply orb_false_iff in O. destruct O. congruence. }
  destruct Hsr as (S0 & S1).
  set (B := env_events N true (EGo p)).
  assert (HB : B = [Acc U LPonder true Relaxed; Acq U ME; Acc U LSearch false Atomic; Rel U ME;
                    Acq U ME; Acc U LFin false Plain; Rel U ME;
                    Acc U LOpt false Plain; Acc U LTT true Plain;
                    Acq U ME; Acc U LParams true Plain; Acc U LSearch true Atomic; Rel U ME]).
  { unfold B. simpl. unfold go_waits. rewrite orb_true_r. reflexivity. }
  assert (QE : forall k e, nth_error B k = Some e -> ~ isE e).
  { intros k e A (T & _). rewrite HB in A. enum_nth A; simpl in T; pose proof U_ne0; congruence. }
  assert (L' : InvL N s') by (eapply InvL_step; [apply (h_L _ _ H) | exact Hst]).
  assert (NB : mbusy (pc (th s' 0)) = true -> False).
  { intros E. destruct (lstep_busy _ _ _ Hst E) as [A|(A & _)]; [|discriminate].
    pose proof (l_busy _ _ (h_L _ _ H) A). congruence. }
  constructor; cbn [base xpend xfin xeo]; auto.
  - apply (h_taken _ _ H).
  - apply (h_pend _ _ H).
  - (* every U access is followed by a release of the engine mutex by the UCI thread *)
    intros q e Hq Hu. destruct (app_case _ _ _ _ Hq) as [(Lt & Qq)|(k & -> & Qq)].
    + destruct (h_urel _ _ H q e Qq Hu) as (r & Hr & Er). exists r. split; auto.
      rewrite nth_app_l; auto. eapply nth_some_lt; eauto.
    + exists (length tr + 12). destruct Hu as (_ & Su). rewrite HB in Qq.
      split; [|rewrite nth_app_r, HB; reflexivity].
      enum_nth Qq; simpl in Su; try discriminate; lia.
  - intros _ q e Hq He1 He2.
    apply (keep_rel0 tr B (fun e => isE e /\ is_wr e = true)) with (p := q) (e := e); auto.
    + intros p0 e0 A (B1 & B2). eapply (h_fin _ _ H); eauto.
    + intros k e0 A (B1 & _). eapply QE; eauto.
  - congruence.
  - intros E. pose proof (h_taken _ _ H E). congruence.
  - intros _. exists (length tr + 11). split; [rewrite nth_app_r, HB; reflexivity|]. split.
    + intros k e Hk He. destruct (app_case _ _ _ _ He) as [(Lt & Q)|(k' & -> & Q)]; [lia|].
      rewrite HB in Q. pose proof (nth_some_lt _ _ _ Q) as X; simpl in X. assert (k' = 12) by lia.
      subst k'. simpl in Q. injection Q as <-. reflexivity.
    + intros q e Hq (_ & Su). destruct (app_case _ _ _ _ Hq) as [(Lt & Q)|(k' & -> & Q)]; [lia|].
      rewrite HB in Q. enum_nth Q; simpl in Su; try discriminate; lia.
  - intros E. exfalso. auto.
  - apply keep_nr; [apply (h_nr _ _ H)|].
    intros q k a b Ha Hkb Hlt Hc Hsel Htid.
    assert (Tb : ev_tid b = U) by (rewrite HB in Hkb; enum_nth Hkb; reflexivity).
    pose proof U_ne0 as UN.
    destruct Htid as [(_ & Tb')|(Ta & _)]; [congruence|].
    pose proof (conflict_sel _ _ _ Hc Hsel) as Sb.
    assert (Hk : 7 <= k) by (rewrite HB in Hkb; enum_nth Hkb; simpl in Sb; try discriminate; lia).
    destruct (app_case _ _ _ _ Ha) as [(Lt & Qp)|(k' & -> & Qp)];
      [|exfalso; eapply QE; eauto; split; auto].
    assert (Hr : exists r, q < r /\ nth_error tr r = Some (Rel 0 ME)).
    { destruct (is_wr a) eqn:W.
      - eapply (h_fin _ _ H Ef q a Qp); auto. split; auto.
      - eapply (h_idle _ _ H S0 q a Qp); auto. split; auto. }
    destruct Hr as (r & Hr & Er). pose proof (nth_some_lt _ _ _ Er).
    eapply (hb_chain_mutex (tr ++ B) q r (length tr + 1) (length tr + k) a b 0 U ME); try lia; eauto.
    all: try (rewrite nth_app_l by lia; eauto; fail).
    all: try (rewrite nth_app_r; exact Hkb).
    all: try (rewrite nth_app_r; rewrite ?HB; eauto; reflexivity).
Qed.

Lemma hb_rf : forall tr w q t1 t2 l, w < q ->
  nth_error tr w = Some (Acc t1 l true Atomic) -> nth_error tr q = Some (Acc t2 l false Atomic) ->
  (forall k e, w < k < q -> nth_error tr k = Some e -> writes l e = false) -> hb tr w q.
Proof. intros. apply t_step. right. right. split; auto. exists t1, t2, l. auto. Qed.

(** engine thread: if (search) doSearch(): reads the parameters, the options and the table *)
Lemma HI_rdsearch : forall x tr s', HI x tr -> search (base x) = true ->
  lstep (base x) (LT 0 ARdSearch) = Some s' ->
  HI (mkX s' (xpend x) (xfin x) (xeo x)) (tr ++ act_events parent (base x) 0 ARdSearch).
Proof.
  intros x tr s' H S1 Hst.
  assert (S1' : search s' = true).
  { destruct (lstep_search _ _ _ Hst) as [A|[(p' & A & _)|(A & _)]]; try discriminate. congruence. }
  set (B := act_events parent (base x) 0 ARdSearch).
  assert (HB : B = [Acc 0 LSearch false Atomic; Acc 0 LParams false Plain; Acc 0 LOpt false Plain; Acc 0 LTT false Plain]).
  { unfold B. simpl. rewrite S1. reflexivity. }
  pose proof U_ne0 as UN.
  assert (QU : forall k e, nth_error B k = Some e -> ~ isU e).
  { intros k e A (T & _). rewrite HB in A. enum_nth A; simpl in T; congruence. }
  assert (L' : InvL N s') by (eapply InvL_step; [apply (h_L _ _ H) | exact Hst]).
  destruct (h_go _ _ H S1) as (w & Hw & NW & UW).
  pose proof (nth_some_lt _ _ _ Hw) as Lw.
  (* every U access happens-before the engine thread's load of [search] *)
  assert (HQ0 : forall p e, nth_error (tr ++ B) p = Some e -> isU e -> hb (tr ++ B) p (length tr)).
  { intros p e Hp Hu. destruct (app_case _ _ _ _ Hp) as [(Lt & Q)|(k' & -> & Q)]; [|exfalso; eapply QU; eauto].
    pose proof (UW p e Q Hu) as Lpw.
    assert (E1 : nth_error (tr ++ B) p = Some e) by (rewrite nth_app_l; auto).
    assert (E2 : nth_error (tr ++ B) w = Some (Acc U LSearch true Atomic)) by (rewrite nth_app_l; auto).
    assert (E3 : nth_error (tr ++ B) (length tr) = Some (Acc 0 LSearch false Atomic)).
    { replace (length tr) with (length tr + 0) at 1 by lia. rewrite nth_app_r, HB. reflexivity. }
    eapply t_trans.
    - apply (hb_po (tr ++ B) p w e _ Lpw E1 E2). destruct Hu as (T & _). simpl. auto.
    - apply (hb_rf (tr ++ B) w (length tr) U 0 LSearch Lw E2 E3).
      intros k e0 Hk He0. rewrite nth_app_l in He0 by lia. apply (NW k e0); [lia | exact He0]. }
  constructor; cbn [base xpend xfin xeo]; auto.
  - apply (h_taken _ _ H).
  - apply (h_pend _ _ H).
  - apply keep_urel; [apply (h_urel _ _ H) | exact QU].
  - intros Ef p e Hpe He1 He2.
    apply (keep_rel0 tr B (fun e => isE e /\ is_wr e = true)) with (p := p) (e := e); auto.
    + intros p0 e0 A (B1 & B2). eapply (h_fin _ _ H); eauto.
    + intros k e0 A (_ & W). rewrite HB in A. enum_nth A; discriminate.
  - congruence.
  - intros E. apply keep_tk; [apply (h_tk _ _ H); auto | exact QU].
  - intros _. apply keep_go; [exists w; auto|].
    intros k e A. split; [eapply QU; eauto|]. rewrite HB in A. enum_nth A; reflexivity.
  - intros _. exists (length tr), (Acc 0 LSearch false Atomic). split; [|split; auto].
    replace (length tr) with (length tr + 0) at 1 by lia. rewrite nth_app_r, HB. reflexivity.
  - apply keep_nr; [apply (h_nr _ _ H)|].
    intros p k a b Ha Hkb Hlt Hc Hsel Htid.
    assert (Tb : ev_tid b = 0) by (rewrite HB in Hkb; enum_nth Hkb; reflexivity).
    destruct Htid as [(Ta & _)|(_ & Tb')]; [|congruence].
    pose proof (conflict_sel _ _ _ Hc Hsel) as Sb.
    assert (Hk : 1 <= k) by (rewrite HB in Hkb; enum_nth Hkb; simpl in Sb; try discriminate; lia).
    eapply t_trans; [apply (HQ0 p a Ha (conj Ta Hsel))|].
    assert (E3 : nth_error (tr ++ B) (length tr) = Some (Acc 0 LSearch false Atomic)).
    { replace (length tr) with (length tr + 0) at 1 by lia. rewrite nth_app_r, HB. reflexivity. }
    assert (E4 : nth_error (tr ++ B) (length tr + k) = Some b) by (now rewrite nth_app_r).
    apply (hb_po (tr ++ B) (length tr) (length tr + k) _ b ltac:(lia) E3 E4). simpl. auto.
Qed.

(** engine thread: bestmove (getPonderMove probes the table) *)
Lemma HI_best : forall x tr s', HI x tr -> lstep (base x) (LT 0 ABest) = Some s' ->
  HI (mkX s' (xpend x) (xfin x) (xeo x)) (tr ++ act_events parent (base x) 0 ABest).
Proof.
  intros x tr s' H Hst.
  destruct (lstep_best_busy _ _ Hst) as (B0 & B1).
  pose proof (l_busy _ _ (h_L _ _ H) B0) as S1.
  assert (S1' : search s' = true).
  { destruct (lstep_search _ _ _ Hst) as [A|[(p' & A & _)|(A & _)]]; try discriminate. congruence. }
  set (B := act_events parent (base x) 0 ABest).
  assert (HB : B = [Acc 0 LPonder false Relaxed; Acc 0 LTT false Plain]) by reflexivity.
  pose proof U_ne0 as UN.
  assert (QU : forall k e, nth_error B k = Some e -> ~ isU e).
  { intros k e A (T & _). rewrite HB in A. enum_nth A; simpl in T; congruence. }
  assert (L' : InvL N s') by (eapply InvL_step; [apply (h_L _ _ H) | exact Hst]).
  constructor; cbn [base xpend xfin xeo]; auto.
  - apply (h_taken _ _ H).
  - apply (h_pend _ _ H).
  - apply keep_urel; [apply (h_urel _ _ H) | exact QU].
  - intros Ef p e Hpe He1 He2.
    apply (keep_rel0 tr B (fun e => isE e /\ is_wr e = true)) with (p := p) (e := e); auto.
    + intros p0 e0 A (B1' & B2). eapply (h_fin _ _ H); eauto.
    + intros k e0 A (_ & W). rewrite HB in A. enum_nth A; discriminate.
  - congruence.
  - intros E. apply keep_tk; [apply (h_tk _ _ H); auto | exact QU].
  - intros _. apply keep_go; [apply (h_go _ _ H S1)|].
    intros k e A. split; [eapply QU; eauto|]. rewrite HB in A. enum_nth A; reflexivity.
  - intros _. apply keep_busy; [apply (h_busy _ _ H B0) | exact QU].
  - apply keep_nr; [apply (h_nr _ _ H)|].
    intros p k a b Ha Hkb Hlt Hc Hsel Htid.
    assert (Tb : ev_tid b = 0) by (rewrite HB in Hkb; enum_nth Hkb; reflexivity).
    destruct Htid as [(Ta & _)|(_ & Tb')]; [|congruence].
    destruct (app_case _ _ _ _ Ha) as [(Lt & Qp)|(k' & -> & Qp)]; [|exfalso; eapply QU; eauto; split; auto].
    destruct (h_busy _ _ H B0) as (q0 & e0 & H0 & T0 & HH).
    pose proof (nth_some_lt _ _ _ H0).
    eapply t_trans; [apply hb_app; apply (HH p a Qp (conj Ta Hsel))|].
    assert (E3 : nth_error (tr ++ B) q0 = Some e0) by (rewrite nth_app_l; auto).
    assert (E4 : nth_error (tr ++ B) (length tr + k) = Some b) by (now rewrite nth_app_r).
    apply (hb_po (tr ++ B) q0 (length tr + k) e0 b ltac:(lia) E3 E4). congruence.
Qed.

(** ---- the invariant is inductive ---- *)
Lemma HI_init : HI xinit [].
Proof.
  constructor; simpl; try discriminate; auto.
  - apply (InvL_init N parent).
  - intros p e A. destruct p; discriminate.
  - intros _ p e A. destruct p; discriminate.
  - intros _ p e A. destruct p; discriminate.
  - intros p q a b _ A. destruct p; discriminate.
Qed.

Definition eo_next (x : xstate) (lb : label) : eopt :=
  match lb with
  | LT O ARdQuit => if quitf (base x) then xeo x else EONeed
  | LT O ANotifySelf => match pc (th (base x) 0) with MFinalNotify => EONeed | _ => xeo x end
  | _ => xeo x
  end.
Lemma eo_next_taken : forall x lb, eo_next x lb = EOTaken -> xeo x = EOTaken.
Proof.
  intros x lb. unfold eo_next. destruct lb as [t a|e]; auto. destruct t; auto. destruct a; auto.
  - destruct (pc (th (base x) 0)); auto; discriminate.
  - destruct (quitf (base x)); auto; discriminate.
Qed.

Lemma xstep_XL : forall x lb x', xstep x (XL lb) = Some x' ->
  exists s', lstep (base x) lb = Some s' /\ x' = mkX s' (xpend x) (xfin x) (eo_next x lb) /\
    (forall p, lb = LE (EGo p) -> xfin x = true) /\
    ((lb = LT 0 ARdSearch \/ lb = LT 0 AClear) -> xeo x = EOIdle).
Proof.
  intros x lb x' H. unfold Access.xstep in H.
  match type of H with (if ?c then _ else _) = _ => destruct c eqn:Ok; [|discriminate] end.
  destruct (lstep (base x) lb) as [s'|] eqn:E; [|discriminate]. injection H as <-.
  exists s'. split; auto. split; [reflexivity|]. split.
  - intros p ->. unfold go_waits in Ok. rewrite orb_true_r in Ok. exact Ok.
  - intros [->| ->]; destruct (xeo x); auto; discriminate.
Qed.

Lemma eact_is_go : forall e, (exists p, e = EGo p) \/ (forall p, e <> EGo p).
Proof. destruct e; eauto; right; intros; discriminate. Qed.

Lemma act_eq_dec : forall a b : act, {a = b} + {a <> b}.
Proof. decide equality. apply Nat.eq_dec. Qed.

(** a transition of the control LTS whose block is quiet and which leaves [search] alone *)
Lemma HI_xl_quiet : forall x tr lb s', HI x tr -> lstep (base x) lb = Some s' ->
  quiet_blk (label_events N parent true (base x) lb) ->
  search s' = search (base x) ->
  (mbusy (pc (th s' 0)) = true -> mbusy (pc (th (base x) 0)) = true) ->
  HI (mkX s' (xpend x) (xfin x) (eo_next x lb)) (tr ++ label_events N parent true (base x) lb).
Proof.
  intros x tr lb s' H Hl Q Ss Hb.
  apply (HI_quiet x tr); cbn [base xpend xfin xeo].
  - exact H.
  - intros k e A. destruct (Q k e A) as (? & ? & _). auto.
  - eapply InvL_step; [apply (h_L _ _ H) | exact Hl].
  - intros E. split; [congruence|]. intros k e A. now destruct (Q k e A) as (_ & _ & ?).
  - intros E. left. congruence.
  - intros E. left. exact E.
  - intros E. apply (h_taken _ _ H). now apply eo_next_taken in E.
  - apply (h_pend _ _ H).
  - intros E. left. now apply eo_next_taken in E.
  - exact Hb.
Qed.

Lemma HI_step : forall x tr xl x', HI x tr -> xstep x xl = Some x' -> HI x' (tr ++ xevents x xl).
Proof.
  intros x tr xl x' H Hst. pose proof U_ne0 as UN. destruct xl as [lb| | | |].
  - (* a transition of the control LTS *)
    destruct (xstep_XL _ _ _ Hst) as (s' & Hl & -> & Hgo & Hidle).
    change (xevents x (XL lb)) with (label_events N parent true (base x) lb).
    destruct lb as [t a|e].
    + pose proof (lstep_tid _ _ _ _ Hl) as Ht.
      destruct (act_eq_dec a ARdSearch) as [->|N1].
      { assert (t = 0) by (eapply lstep_master_only; eauto). subst t.
        destruct (search (base x)) eqn:S1.
        - apply (HI_rdsearch x tr s' H S1 Hl).
        - apply HI_xl_quiet; auto.
          + intros k e A. simpl in A. rewrite S1 in A. enum_nth A. unfold isU, isE; simpl; intuition discriminate.
          + destruct (lstep_search _ _ _ Hl) as [A|[(p' & A & _)|(A & _)]]; try discriminate. congruence.
          + intros E. destruct (lstep_busy _ _ _ Hl E) as [A|(_ & A)]; auto. congruence. }
      destruct (act_eq_dec a ABest) as [->|N2].
      { assert (t = 0) by (eapply lstep_master_only; eauto). subst t. apply (HI_best x tr s' H Hl). }
      destruct (act_eq_dec a AClear) as [->|N3].
      { assert (t = 0) by (eapply lstep_master_only; eauto). subst t.
        destruct (lstep_clear _ _ Hl) as (C1 & C2).
        apply (HI_quiet x tr); cbn [base xpend xfin xeo].
        - exact H.
        - intros k e A. simpl in A. enum_nth A; unfold isU, isE; simpl; intuition discriminate.
        - eapply InvL_step; [apply (h_L _ _ H) | exact Hl].
        - congruence.
        - intros _. right. exists 2. reflexivity.
        - intros E; left; auto.
        - apply (h_taken _ _ H).
        - apply (h_pend _ _ H).
        - intros E; left; auto.
        - congruence. }
      apply HI_xl_quiet; auto.
      * apply (act_quiet (base x) t a Ht N1 N2 N3).
      * destruct (lstep_search _ _ _ Hl) as [A|[(p' & A & _)|(A & _)]]; auto; try discriminate.
        injection A as _ A. congruence.
      * intros E. destruct (lstep_busy _ _ _ Hl E) as [A|(A & _)]; auto. injection A as _ A. congruence.
    + destruct (eact_is_go e) as [(p & ->)|Hng].
      * apply (HI_go x tr p s' H (Hgo p eq_refl) Hl).
      * apply HI_xl_quiet; auto.
        -- apply (env_quiet e Hng).
        -- destruct (lstep_search _ _ _ Hl) as [A|[(p' & A & _)|(A & _)]]; auto; try discriminate.
           injection A as A. exfalso. exact (Hng p' A).
        -- intros E. destruct (lstep_busy _ _ _ Hl E) as [A|(A & _)]; auto. discriminate.
  - (* setoption *)
    unfold Access.xstep in Hst. destruct (epc (base x)) eqn:Ep; try discriminate.
    destruct (quitf (base x)) eqn:Eq; try discriminate. injection Hst as <-.
    assert (Hl : lstep (base x) (LE ESpur) = Some (set_flag (base x) 0 true)) by reflexivity.
    apply (HI_quiet x tr); cbn [base xpend xfin xeo].
    + exact H.
    + intros k e A. simpl in A. unfold notify_events in A. enum_nth A; unfold isU, isE; simpl; intuition discriminate.
    + eapply InvL_step; [apply (h_L _ _ H) | exact Hl].
    + intros E. split; [exact E|]. intros k e A. simpl in A. enum_nth A; reflexivity.
    + intros E. left. exact E.
    + discriminate.
    + reflexivity.
    + reflexivity.
    + intros E. left. exact E.
    + intros E. exact E.
  - (* setOptions: take / test pendingOptions *)
    unfold Access.xstep in Hst. destruct (xeo x) eqn:Eo; try discriminate.
    destruct (xpend x) eqn:Ep; injection Hst as <-.
    + apply (HI_quiet x tr); cbn [base xpend xfin xeo].
      * exact H.
      * intros k e A. simpl in A. rewrite Ep in A. enum_nth A; unfold isU, isE; simpl; intuition discriminate.
      * apply (h_L _ _ H).
      * intros E. split; [exact E|]. intros k e A. simpl in A. rewrite Ep in A. enum_nth A; reflexivity.
      * intros E; left; auto.
      * intros E; left; auto.
      * intros _. apply (h_pend _ _ H Ep).
      * discriminate.
      * intros _. right. exists 0. simpl. rewrite Ep. reflexivity.
      * auto.
    + apply (HI_quiet x tr); cbn [base xpend xfin xeo].
      * exact H.
      * intros k e A. simpl in A. rewrite Ep in A. enum_nth A; unfold isU, isE; simpl; intuition discriminate.
      * apply (h_L _ _ H).
      * intros E. split; [exact E|]. intros k e A. simpl in A. rewrite Ep in A. enum_nth A; reflexivity.
      * intros E; left; auto.
      * intros _. right. exists 3. simpl. rewrite Ep. reflexivity.
      * discriminate.
      * discriminate.
      * discriminate.
      * auto.
  - (* setOptions: apply the options taken *)
    unfold Access.xstep in Hst. destruct (xeo x) eqn:Eo; try discriminate. injection Hst as <-.
    apply (HI_apply x tr H Eo).
  - (* waitOptionsSet returns *)
    unfold Access.xstep in Hst. destruct (xfin x) eqn:Ef; try discriminate. injection Hst as <-.
    apply (HI_quiet x tr); cbn [base xpend xfin xeo].
    + exact H.
    + intros k e A. simpl in A. enum_nth A; unfold isU, isE; simpl; intuition discriminate.
    + apply (h_L _ _ H).
    + intros E. split; [exact E|]. intros k e A. simpl in A. enum_nth A; reflexivity.
    + intros E; left; auto.
    + intros E; left; auto.
    + apply (h_taken _ _ H).
    + apply (h_pend _ _ H).
    + intros E; left; auto.
    + auto.
Qed.

Lemma xreach_HI : forall x tr, xreach x tr -> HI x tr.
Proof. induction 1; [apply HI_init | eapply HI_step; eauto]. Qed.

Lemma xrun_xreach : forall ls x tr0 xf tr, xreach x tr0 ->
  xrun N parent true x ls = Some (xf, tr) -> xreach xf (tr0 ++ tr).
Proof.
  induction ls as [|xl ls IH]; intros x tr0 xf tr R H; simpl in H.
  - injection H as <- <-. now rewrite app_nil_r.
  - destruct (xstep x xl) as [x'|] eqn:E; [|discriminate].
    destruct (xrun N parent true x' ls) as [[xf' tr']|] eqn:E2; [|discriminate].
    injection H as <- <-. rewrite app_assoc. eapply IH; eauto. eapply xrS; eauto.
Qed.

(** for every N, tree and schedule: every conflicting pair of accesses of the UCI thread and the
    engine thread to the search parameters, the option values or the table geometry / generation
    is ordered by happens-before *)
Theorem model_handoff_drf : forall ls tr,
  trace_of N parent true xinit ls = Some tr -> ~ race_between tr U 0 handoff_loc.
Proof.
  intros ls tr H. unfold trace_of in H.
  destruct (xrun N parent true xinit ls) as [[xf tr']|] eqn:E; [|discriminate]. injection H as <-.
  pose proof (xrun_xreach ls xinit [] xf tr' xr0 E) as R. simpl in R.
  pose proof (xreach_HI _ _ R) as HIv.
  intros (i & j & a & b & Hij & Ha & Hb & Hc & Hs & Ht & Hn). apply Hn.
  apply (h_nr _ _ HIv i j a b Hij Ha Hb Hc Hs Ht).
Qed.

(** the search parameters are only touched by the UCI thread and the engine thread *)
Definition params_tids (tr : list tev) : Prop :=
  forall p t w k, nth_error tr p = Some (Acc t LParams w k) -> t = 0 \/ t = U.

Lemma xevents_params : forall x xl x', xstep x xl = Some x' -> params_tids (xevents x xl).
Proof.
  intros x xl x' Hst p t w k A. destruct xl as [lb| | | |].
  - destruct (xstep_XL _ _ _ Hst) as (s' & Hl & _).
    change (xevents x (XL lb)) with (label_events N parent true (base x) lb) in A.
    destruct lb as [t0 a|e].
    + destruct (act_eq_dec a ARdSearch) as [->|N1].
      * assert (t0 = 0) by (eapply lstep_master_only; eauto). subst t0.
        simpl in A. destruct (search (base x)); simpl in A; enum_nth A; auto.
      * exfalso. destruct a; try congruence; simpl in A;
          try (unfold push_events, notify_events in A; enum_nth A; fail);
          try (destruct p; discriminate).
        -- destruct t0; simpl in A; [enum_nth A|].
           destruct (pc (th (base x) (S t0))); simpl in A; try (enum_nth A; fail).
           destruct k0; simpl in A; try (enum_nth A; fail).
           destruct (negb (qa (th (base x) (S t0)) =? 0)%Z && negb (job (th (base x) (S t0)) =? -1)%Z); simpl in A; enum_nth A.
        -- destruct (hasres (th (base x) t0)); [destruct p; discriminate|].
           destruct (parent t0); [unfold push_events in A; enum_nth A | destruct p; discriminate].
    + destruct e; simpl in A; unfold notify_events in A.
      * unfold go_waits in A. rewrite orb_true_r in A. simpl in A. enum_nth A. auto.
      * enum_nth A.
      * enum_nth A.
      * enum_nth A.
      * enum_nth A.
  - simpl in A. unfold notify_events in A. enum_nth A.
  - simpl in A. destruct (xpend x); enum_nth A.
  - simpl in A. enum_nth A.
  - simpl in A. enum_nth A.
Qed.

Lemma xreach_params : forall x tr, xreach x tr -> params_tids tr.
Proof.
  induction 1 as [|x tr xl x' R IH Hst].
  - intros p t w k A. destruct p; discriminate.
  - intros p t w k A. destruct (app_case _ _ _ _ A) as [(L & Q)|(k' & -> & Q)].
    + eapply IH; eauto.
    + eapply (xevents_params x xl x' Hst); eauto.
Qed.

(** Summary: in every schedule from the initial state, two conflicting accesses to a modelled
    location that are not ordered by happens-before can only be an access to the option values or
    the table geometry / generation by a HELPER thread against one of another thread (the part
    whose ordering goes through the START / STOP_ACK message edges and is left to the trace check) *)
Definition opt_or_tt (l : loc) : bool := match l with LOpt | LTT => true | _ => false end.

Theorem model_drf_partial : forall ls tr i j a b,
  trace_of N parent true xinit ls = Some tr ->
  i < j -> at_ tr i = Some a -> at_ tr j = Some b -> conflictb a b = true -> ~ hb tr i j ->
  sel opt_or_tt a = true /\
  ((ev_tid a <> 0 /\ ev_tid a <> U) \/ (ev_tid b <> 0 /\ ev_tid b <> U)).
Proof.
  intros ls tr i j a b H Hij Ha Hb Hc Hn.
  pose proof (model_guarded_drf N parent true xinit ls tr H) as G.
  pose proof (model_atomic_drf N parent true xinit ls tr H) as A.
  pose proof (model_handoff_drf ls tr H) as HO.
  assert (PT : params_tids tr).
  { unfold trace_of in H. destruct (xrun N parent true xinit ls) as [[xf tr']|] eqn:E; [|discriminate].
    injection H as <-. pose proof (xrun_xreach ls xinit [] xf tr' xr0 E) as R. simpl in R.
    eapply xreach_params; eauto. }
  destruct (conflictb_inv a b Hc) as (t1 & l & w1 & k1 & t2 & w2 & k2 & -> & -> & Hne & Hp).
  assert (Hcases : guarded l = true \/ atomic_loc l = true \/ handoff_loc l = true) by (destruct l; simpl; auto).
  destruct Hcases as [Hg|[Hat|Hh]].
  - exfalso. apply G. exists i, j, (Acc t1 l w1 k1), (Acc t2 l w2 k2). repeat split; auto.
  - exfalso. apply A. exists i, j, (Acc t1 l w1 k1), (Acc t2 l w2 k2). repeat split; auto.
  - simpl.
    destruct (Nat.eq_dec t1 0) as [E1|E1]; destruct (Nat.eq_dec t1 U) as [E1u|E1u];
    destruct (Nat.eq_dec t2 0) as [E2|E2]; destruct (Nat.eq_dec t2 U) as [E2u|E2u];
      try (subst; pose proof U_ne0; congruence);
      try (exfalso; apply HO; exists i, j, (Acc t1 l w1 k1), (Acc t2 l w2 k2); simpl;
           repeat split; auto; fail).
    all: destruct l; simpl in Hh; try discriminate; simpl.
    all: try (split; [reflexivity|]; auto; fail).
    all: unfold at_ in *; try (destruct (PT i _ _ _ Ha); congruence); try (destruct (PT j _ _ _ Hb); congruence).
Qed.

(** C10: option changes end with the engine ready for the next command.  Whenever the UCI thread
    gets past waitOptionsSet — [XWaitOpt] (isready answer, stop) or the set-up of a search
    [go] / [go ponder] — no option is pending and none is being applied, on every schedule *)
Definition options_settled (x : xstate) : Prop := xpend x = false /\ xeo x <> EOTaken.

Theorem options_applied_before_ready : forall x tr xl x',
  xreach x tr -> xstep x xl = Some x' ->
  (xl = XWaitOpt \/ exists p, xl = XL (LE (EGo p))) -> options_settled x.
Proof.
  intros x tr xl x' R Hst Hxl. pose proof (xreach_HI _ _ R) as H.
  assert (Ef : xfin x = true).
  { destruct Hxl as [->|(p & ->)].
    - unfold Access.xstep in Hst. destruct (xfin x); [reflexivity|discriminate].
    - destruct (xstep_XL _ _ _ Hst) as (s' & _ & _ & Hgo & _). apply (Hgo p eq_refl). }
  split.
  - destruct (xpend x) eqn:E; auto. pose proof (h_pend _ _ H E). congruence.
  - intros E. pose proof (h_taken _ _ H E). congruence.
Qed.
End H.
