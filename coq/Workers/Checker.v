(** C10 — trace checker: replays the synchronisation events logged by hook H5
    (lib/texellib/hw/verifsync.hpp) against the transition system of Workers.v.
    Every event must be an enabled transition (or, for events that only report thread-local
    values, must agree with the model's state), and the observable parts of the abstract state
    carried by the event — command type, jobId, mailbox length, ack counters, flags read —
    must agree with the model.  Executable; extracted by Extract/ExtractWorkers.v. *)
From Coq Require Import ZArith List Bool Arith.
From Texel Require Import Workers.Workers Workers.Race Workers.Access.
Import ListNotations.
Local Open Scope Z_scope.

(** Communicator::CommandType numbering *)
Definition cmd_type (c : cmd) : nat :=
  match c with
  | CInit => 1 | CStart _ => 2 | CStop => 3 | CQuit => 5
  | CReport _ _ _ => 6 | CStopAck _ => 7 | CQuitAck _ => 8
  end%nat.
(** Command::jobId as constructed by the doSend* functions *)
Definition cmd_job (c : cmd) : Z :=
  match c with CStart j => j | CReport j _ _ => j | _ => -1 end.

Inductive ev :=
| EvN (t o : tid)                                  (* t = UCI thread: use [uci] *)
| EvW (t : tid)
| EvPush (t o : tid) (ty : nat) (j : Z) (qlen : nat)
| EvPop (t : tid) (ty : nat) (j : Z) (qlen : nat)
| EvEmpty (t : tid)
| EvStopSearch (t : tid) (sf : bool) (w : Z)
| EvAck (t : tid) (sf : bool) (w : Z)
| EvJob (t : tid) (j : Z)
| EvMaxD (t : tid)
| EvStart (t : tid) (j : Z)
| EvInit (t : tid)
| EvBest | EvClear
| EvRdQuit (v : bool) | EvRdSearch (v : bool)
| EvGo (p : bool) | EvQuit | EvUnponder
| EvResult (r cur : Z)                             (* Search::shouldStop handler: reported / current jobId *)
| EvSetOpt                                         (* H5b: setOptionWhenIdle queued an option *)
| EvOptTake (b : bool)                             (* H5b: setOptions: pendingOptions was non-empty? *)
| EvWOpt                                           (* H5b: setOptions applies an option *)
| EvRdFin                                          (* H5b: waitOptionsSet returned *)
| EvSendQuit (t : tid) (q : Z)
| EvQAck (t : tid) (q : Z).

(** option hand-shake part of the replay state (Access.v); [om]: the trace carries the H5b events *)
Record ostate := mkO { om : bool; opend : bool; ofin : bool; oeo : eopt; owopt : bool }.

Record cstate := mkC {
  cs : state;
  pend : tid -> option (tid * nat * Z * nat);   (* PUSH seen, its notify not yet *)
  pendres : option (Z * Z);                     (* RESULT seen: the engine thread's next event decides *)
  copt : ostate
}.

Inductive result :=
| Ok (c : cstate)
| Bad (code : nat).     (* see [drivers/workers_driver.ml] for the texts *)

Section Check.
Variable N : nat.
Variable parent : tid -> option tid.
Variable uci : tid.       (* a number above N standing for the UCI thread *)

Definition last_cmd (l : list cmd) : option cmd :=
  match rev l with c :: _ => Some c | [] => None end.

Definition cx (c : cstate) : xstate :=
  mkX (cs c) (opend (copt c)) (ofin (copt c)) (oeo (copt c)).
Definition set_opt (c : cstate) (x : xstate) (w : bool) : cstate :=
  mkC (cs c) (pend c) (pendres c) (mkO (om (copt c)) (xpend x) (xfin x) (xeo x) w).
Definition with_eo (eo : eopt) (r : result) : result :=
  match r with
  | Ok c => Ok (mkC (cs c) (pend c) (pendres c)
                    (mkO (om (copt c)) (opend (copt c)) (ofin (copt c)) eo (owopt (copt c))))
  | Bad n => Bad n
  end.

(** a transition of the control LTS; with H5b also the guards of the option layer (Access.xstep):
    the engine thread reads [search] / clears it only after setOptions() has finished, and go is
    set up only after waitOptionsSet *)
Definition do_label (c : cstate) (lb : label) (k : state -> result) : result :=
  match lstep N parent (cs c) lb with
  | Some s' =>
      if om (copt c) then
        match xstep N parent true (cx c) (XL lb) with
        | Some x' => with_eo (xeo x') (k s')
        | None => Bad 19
        end
      else k s'
  | None => Bad 1
  end.

Definition ok_state (c : cstate) (s : state) : result := Ok (mkC s (pend c) (pendres c) (copt c)).

Definition beq (a b : bool) : bool := Bool.eqb a b.

Definition check_ev0 (c : cstate) (e : ev) : result :=
  let s := cs c in
  match e with
  | EvPush t o ty j ql =>
      match pend c t with
      | Some _ => Bad 2
      | None => Ok (mkC s (upd (pend c) t (Some (o, ty, j, ql))) (pendres c) (copt c))
      end
  | EvN t o =>
      if Nat.eqb t uci then
        (* notifies by the UCI thread: startSearch / quit / setOptionWhenIdle *)
        match epc s with
        | EIdle => do_label c (LE ESpur) (ok_state c)
        | _ => do_label c (LE ENotify) (ok_state c)
        end
      else
        match pend c t with
        | Some (o', ty, j, ql) =>
            if negb (Nat.eqb o o') then Bad 3 else
            let lb := match pc (th s t) with
                      | PPoll (KSearch _) => LT t AFinish
                      | _ => LT t (APush o)
                      end in
            (* AFinish with hasResult set would be a silent no-op in the model: a push was seen *)
            match pc (th s t), hasres (th s t) with
            | PPoll (KSearch _), true => Bad 4
            | _, _ =>
              do_label c lb (fun s' =>
                match last_cmd (qu s' o) with
                | Some m =>
                    if Nat.eqb (cmd_type m) ty && (cmd_job m =? j) && Nat.eqb (length (qu s' o)) ql
                    then Ok (mkC s' (upd (pend c) t None) (pendres c) (copt c))
                    else Bad 5
                | None => Bad 5
                end)
            end
        | None =>
            if Nat.eqb t o then do_label c (LT t ANotifySelf) (ok_state c) else Bad 6
        end
  | EvW t => do_label c (LT t AWait) (ok_state c)
  | EvPop t ty j ql =>
      match qu s t with
      | m :: _ =>
          if Nat.eqb (cmd_type m) ty && (cmd_job m =? j) then
            do_label c (LT t APop) (fun s' =>
              if Nat.eqb (length (qu s' t)) ql then ok_state c s' else Bad 8)
          else Bad 7
      | [] => Bad 7
      end
  | EvEmpty t => do_label c (LT t APollEmpty) (ok_state c)
  | EvStopSearch t sf w =>
      match t with
      | O => do_label c (LT 0%nat AStopSearch) (fun s' =>
               if beq (self (th s' 0%nat)) sf && (wc (th s' 0%nat) =? w) then ok_state c s' else Bad 9)
      | _ => if beq (self (th s t)) sf && (wc (th s t) =? w) then Ok c else Bad 9
      end
  | EvAck t sf w =>
      if beq (self (th s t)) sf && (wc (th s t) =? w) then Ok c else Bad 10
  | EvJob t j => if job (th s t) =? j then Ok c else Bad 11
  | EvMaxD t => do_label c (LT t AMaxDepth) (ok_state c)
  | EvStart t j =>
      match t with
      | O => do_label c (LT 0%nat AStartJob) (fun s' =>
               if job (th s' 0%nat) =? j then ok_state c s' else Bad 12)
      | _ => Ok c
      end
  | EvInit t =>
      match t with
      | O => do_label c (LT 0%nat AInitSearch) (ok_state c)
      | _ => Ok c
      end
  | EvBest => do_label c (LT 0%nat ABest) (ok_state c)
  | EvClear => do_label c (LT 0%nat AClear) (ok_state c)
  | EvRdQuit v => if beq (quitf s) v then do_label c (LT 0%nat ARdQuit) (ok_state c) else Bad 13
  | EvRdSearch v => if beq (search s) v then do_label c (LT 0%nat ARdSearch) (ok_state c) else Bad 14
  | EvGo p => do_label c (LE (EGo p)) (ok_state c)
  | EvQuit => do_label c (LE EQuit) (ok_state c)
  | EvUnponder => do_label c (LE EUnponder) (ok_state c)
  | EvResult r cur =>
      (* the handler runs for the REPORT_RESULT just popped while the engine thread searches *)
      match pc (th s 0%nat) with
      | PPoll KMSearch => if job (th s 0%nat) =? cur then Ok (mkC s (pend c) (Some (r, cur)) (copt c)) else Bad 12
      | _ => Bad 17
      end
  | EvSetOpt =>
      Ok (mkC s (pend c) (pendres c) (mkO (om (copt c)) true false (oeo (copt c)) (owopt (copt c))))
  | EvOptTake b =>
      if negb (beq b (opend (copt c))) then Bad 32 else
      match xstep N parent true (cx c) XTake with
      | Some x' => Ok (set_opt c x' false)
      | None => Bad 31
      end
  | EvWOpt =>
      match oeo (copt c), owopt (copt c) with
      | EONeed, true => Ok c                      (* further options of the same batch *)
      | _, _ =>
          match xstep N parent true (cx c) XApply with
          | Some x' => Ok (set_opt c x' true)
          | None => Bad 33
          end
      end
  | EvRdFin =>
      (* C10_options_applied_before_ready: the model lets the UCI thread pass only when settled *)
      match xstep N parent true (cx c) XWaitOpt with
      | Some _ => Ok c
      | None => Bad 30
      end
  | EvSendQuit t q => if qa (th s t) =? q then Ok c else Bad 15
  | EvQAck t q => if qa (th s t) =? q then Ok c else Bad 16
  end.

(** thread performing the event (the UCI thread for environment events) *)
Definition ev_thread (e : ev) : tid :=
  match e with
  | EvN t _ | EvW t | EvPush t _ _ _ _ | EvPop t _ _ _ | EvEmpty t | EvStopSearch t _ _
  | EvAck t _ _ | EvJob t _ | EvMaxD t | EvStart t _ | EvInit t | EvSendQuit t _ | EvQAck t _ => t
  | EvBest | EvClear | EvRdQuit _ | EvRdSearch _ | EvResult _ _ | EvOptTake _ | EvWOpt => 0%nat
  | EvGo _ | EvQuit | EvUnponder | EvSetOpt | EvRdFin => uci
  end.

(** a result is accepted (HelperThreadResult thrown, poll left) iff its jobId is the current one:
    after RESULT r cur the engine thread's next event continues the poll loop iff r <> cur *)
Definition check_ev (c : cstate) (e : ev) : result :=
  match pendres c with
  | Some (r, cur) =>
      if Nat.eqb (ev_thread e) 0 then
        let continues := match e with EvPop _ _ _ _ | EvEmpty _ => true | _ => false end in
        if Bool.eqb continues (negb (r =? cur))
        then check_ev0 (mkC (cs c) (pend c) None (copt c)) e
        else Bad 18
      else check_ev0 c e
  | None => check_ev0 c e
  end.

(** ---- (re)configuration between searches ---- *)

(** nothing is going on: the state in which the UCI thread may create / destroy workers *)
Definition helper_quietb (s : state) (t : tid) : bool :=
  let l := th s t in
  (job l =? -1) && negb (self l) && (wc l =? 0) && (qa l =? -1) &&
  match qu s t with [] => true | _ => false end &&
  match pc l with PWait KMain | PPoll KMain => true | _ => false end.

Definition quiescentb (s : state) : bool :=
  negb (search s) && negb (quitf s) &&
  match epc s with EIdle => true | _ => false end &&
  match pc (th s 0%nat) with PWait KTop | MRdQuit | MRdSearch => true | _ => false end &&
  negb (self (th s 0%nat)) && (wc (th s 0%nat) =? 0) && (qa (th s 0%nat) =? -1) &&
  match qu s 0%nat with [] => true | _ => false end &&
  forallb (helper_quietb s) (seq 1 N).

End Check.

(** the state after the UCI thread has rebuilt the worker tree: threads with [keep t] survive
    with their local state and notifier flag, all others are fresh; ghost round counters of
    fresh helpers start at the engine thread's *)
Definition reconf (s : state) (keep : tid -> bool) : state :=
  let m := th s 0%nat in
  let fresh := set_ae (set_se (init_local KMain) (se m)) (ae m) in
  mkState (fun t => match t with O => m | _ => if keep t then th s t else fresh end)
          (fun t => match t with O => qu s 0%nat | _ => if keep t then qu s t else [] end)
          (fun t => match t with O => flag s 0%nat | _ => if keep t then flag s t else false end)
          (search s) (quitf s) (ponder s) (epc s) (sid s) (nbest s).

Definition oinit (m : bool) : ostate := mkO m false true EOIdle false.
Definition cinit (m : bool) : cstate := mkC init (fun _ => None) None (oinit m).
