(** C09 — non-vacuity of the helper-read theorems: one helper below the engine thread; the
    options are changed (engine thread writes), go (UCI thread bumps the table generation), the
    helper gets START_SEARCH and reads, stop round, the options are changed again. *)
From Coq Require Import ZArith List Bool Arith Lia.
From Texel Require Import Workers.Workers Workers.WorkersInv Workers.Race Workers.RaceProofs Workers.Access
  Workers.HelperReads.
Import ListNotations.

Definition par1 (c : tid) : option tid := match c with 1 => Some 0 | _ => None end.

Lemma par1_tree : tree_ok 1 par1.
Proof. intros c Hc. assert (c = 1) as -> by lia. exists 0. split; [reflexivity|lia]. Qed.

Definition ex_read_sched : list xlabel :=
  [XSetOpt; XL (LT 0 AWait); XL (LT 0 ARdQuit); XTake; XApply; XTake; XL (LT 0 ARdSearch);
   XL (LE (EGo false)); XL (LE ENotify); XL (LT 0 AWait); XL (LT 0 ARdQuit); XTake; XL (LT 0 ARdSearch);
   XL (LT 0 AInitSearch); XL (LT 0 (APush 1)); XL (LT 0 AStartJob); XL (LT 0 (APush 1));
   XL (LT 1 AWait); XL (LT 1 APop); XL (LT 1 APop); XL (LT 1 APollEmpty);
   XL (LT 0 ABest); XL (LT 0 AStopSearch); XL (LT 0 ANotifySelf); XL (LT 0 (APush 1));
   XL (LT 1 APop); XL (LT 1 ANotifySelf); XL (LT 1 APollEmpty); XL (LT 1 (APush 0));
   XL (LT 0 APop); XL (LT 0 APollEmpty); XL (LT 0 ANotifySelf);
   XSetOpt; XTake; XApply; XTake; XL (LT 0 AClear)].

(** the schedule is a path; the helper's reads (positions 79, 80) lie between the engine
    thread's writes (16, 17), the UCI thread's write (31) and the next writes (129, 130) *)
Example ex_read_trace :
  exists tr, trace_of 1 par1 true xinit ex_read_sched = Some tr /\
    nth_error tr 17 = Some (Acc 0 LTT true Plain) /\
    nth_error tr 31 = Some (Acc 2 LTT true Plain) /\
    nth_error tr 80 = Some (Acc 1 LTT false Plain) /\
    nth_error tr 130 = Some (Acc 0 LTT true Plain) /\
    raceb tr = false.
Proof.
  destruct (trace_of 1 par1 true xinit ex_read_sched) as [tr|] eqn:E; [|vm_compute in E; discriminate].
  exists tr. split; auto. vm_compute in E. injection E as <-. vm_compute. repeat split; reflexivity.
Qed.
