(** List / update lemmas and the step-inversion tactics used by the C10 proofs. *)
From Coq Require Import ZArith List Bool Arith Lia.
From Texel Require Import Workers.Workers.
Import ListNotations.

(** ---- function update ---- *)
Lemma upd_same : forall A (f : tid -> A) t v, upd f t v t = v.
Proof. intros; unfold upd; now rewrite Nat.eqb_refl. Qed.
Lemma upd_other : forall A (f : tid -> A) t v x, x <> t -> upd f t v x = f x.
Proof. intros; unfold upd. destruct (Nat.eqb_spec x t); congruence. Qed.

(** ---- counting messages ---- *)
Definition is_ack_from (c : tid) (m : cmd) : bool :=
  match m with CStopAck f => Nat.eqb f c | _ => false end.
Definition acks (c : tid) (l : list cmd) : nat := length (filter (is_ack_from c) l).
Definition is_stop (m : cmd) : bool := match m with CStop => true | _ => false end.
Definition stops (l : list cmd) : nat := length (filter is_stop l).

Lemma acks_nil : forall c, acks c [] = 0. Proof. reflexivity. Qed.
Lemma acks_cons : forall c m l, acks c (m :: l) = (if is_ack_from c m then 1 else 0) + acks c l.
Proof. intros; unfold acks; simpl. destruct (is_ack_from c m); reflexivity. Qed.
Lemma acks_app : forall c l1 l2, acks c (l1 ++ l2) = acks c l1 + acks c l2.
Proof. intros; unfold acks. now rewrite filter_app, app_length. Qed.
Lemma acks_purge : forall c l, acks c (purge l) = acks c l.
Proof.
  intros; unfold acks, purge. induction l as [|m l IH]; simpl; auto.
  destruct m; simpl; auto; destruct (Nat.eqb from c); simpl; auto.
Qed.
Lemma stops_cons : forall m l, stops (m :: l) = (if is_stop m then 1 else 0) + stops l.
Proof. intros; unfold stops; simpl. destruct (is_stop m); reflexivity. Qed.
Lemma stops_app : forall l1 l2, stops (l1 ++ l2) = stops l1 + stops l2.
Proof. intros; unfold stops. now rewrite filter_app, app_length. Qed.
Lemma stops_purge : forall l, stops (purge l) = 0.
Proof.
  intros; unfold stops, purge. induction l as [|m l IH]; simpl; auto.
  destruct m; simpl; auto.
Qed.
Lemma acks_pos_in : forall c l, 1 <= acks c l -> In (CStopAck c) l.
Proof.
  induction l as [|m l IH]; simpl; intros H.
  - unfold acks in H; simpl in H; lia.
  - rewrite acks_cons in H. destruct m; simpl in H; try (right; apply IH; lia).
    destruct (Nat.eqb_spec from c); subst; auto.
Qed.
Lemma in_acks_pos : forall c l, In (CStopAck c) l -> 1 <= acks c l.
Proof.
  induction l as [|m l IH]; simpl; intros H; [tauto|].
  rewrite acks_cons. destruct H as [->|H]; simpl.
  - rewrite Nat.eqb_refl; lia.
  - specialize (IH H); lia.
Qed.
Lemma in_purge : forall m l, In m (purge l) <-> In m l /\ purged m = false.
Proof.
  intros; unfold purge. rewrite filter_In. destruct (purged m); simpl; intuition congruence.
Qed.

(** ---- counting list elements satisfying a predicate ---- *)
Lemma count_ext : forall (f g : tid -> bool) l,
  (forall x, In x l -> f x = g x) -> length (filter f l) = length (filter g l).
Proof.
  induction l as [|a l IH]; simpl; intros H; auto.
  rewrite (H a) by auto. destruct (g a); simpl; rewrite IH; auto.
Qed.
Lemma count_all : forall (f : tid -> bool) l,
  (forall x, In x l -> f x = true) -> length (filter f l) = length l.
Proof.
  induction l as [|a l IH]; simpl; intros H; auto.
  rewrite (H a) by auto. simpl; rewrite IH; auto.
Qed.
Lemma count_zero : forall (f : tid -> bool) l,
  length (filter f l) = 0 -> forall x, In x l -> f x = false.
Proof.
  induction l as [|a l IH]; simpl; intros H x Hx; [tauto|].
  destruct (f a) eqn:E; simpl in H; [discriminate|].
  destruct Hx as [->|Hx]; auto.
Qed.
Lemma count_flip : forall (f g : tid -> bool) l c,
  NoDup l -> In c l -> f c = true -> g c = false ->
  (forall x, In x l -> x <> c -> f x = g x) ->
  length (filter f l) = S (length (filter g l)).
Proof.
  induction l as [|a l IH]; simpl; intros c ND Hin Hf Hg Hext; [tauto|].
  inversion ND as [|? ? Hni ND']; subst.
  destruct Hin as [->|Hin].
  - rewrite Hf, Hg; simpl. f_equal. apply count_ext. intros x Hx. apply Hext; auto.
    intros ->; contradiction.
  - assert (a <> c) by (intros ->; contradiction).
    rewrite (Hext a) by auto. destruct (g a); simpl; erewrite IH; eauto.
Qed.

(** ---- tid lists ---- *)
Lemma mem_tid_In : forall x l, mem_tid x l = true <-> In x l.
Proof.
  intros; unfold mem_tid. rewrite existsb_exists. split.
  - intros (y & Hy & E). apply Nat.eqb_eq in E; now subst.
  - intros H; exists x; split; auto. apply Nat.eqb_refl.
Qed.
Lemma mem_tid_false : forall x l, mem_tid x l = false <-> ~ In x l.
Proof.
  intros. rewrite <- mem_tid_In. destruct (mem_tid x l); intuition congruence.
Qed.
Lemma in_remove_tid : forall x y l, In y (remove_tid x l) <-> In y l /\ y <> x.
Proof.
  intros; unfold remove_tid. rewrite filter_In. destruct (Nat.eqb_spec y x); simpl; intuition congruence.
Qed.
Lemma NoDup_remove_tid : forall x l, NoDup l -> NoDup (remove_tid x l).
Proof. intros; apply NoDup_filter; auto. Qed.
Lemma mem_remove_same : forall x l, mem_tid x (remove_tid x l) = false.
Proof. intros. apply mem_tid_false. intros H. apply in_remove_tid in H. tauto. Qed.
Lemma mem_remove_other : forall c x l, c <> x -> mem_tid c (remove_tid x l) = mem_tid c l.
Proof.
  intros. destruct (mem_tid c l) eqn:E.
  - apply mem_tid_In. apply in_remove_tid. split; auto. now apply mem_tid_In.
  - apply mem_tid_false. intros H0. apply in_remove_tid in H0. apply mem_tid_false in E. tauto.
Qed.
Lemma remove_nil_mem : forall c x l, remove_tid x l = [] -> c <> x -> mem_tid c l = false.
Proof.
  intros c x l E Hne. rewrite <- (mem_remove_other c x l Hne), E. reflexivity.
Qed.

(** ---- children ---- *)
Section Tree.
Variable N : nat.
Variable parent : tid -> option tid.

Lemma in_children : forall t c, In c (children N parent t) <-> (1 <= c <= N /\ parent c = Some t).
Proof.
  intros; unfold children, is_child_of. rewrite filter_In, in_seq.
  destruct (parent c) as [p|]; [destruct (Nat.eqb_spec p t)|]; split; intros [H1 H2];
    try discriminate; try (split; [lia|congruence]); try congruence.
Qed.
Lemma NoDup_children : forall t, NoDup (children N parent t).
Proof. intros; unfold children. apply NoDup_filter, seq_NoDup. Qed.

End Tree.

(** ---- step inversion ---- *)
Ltac break_H H :=
  repeat match type of H with
  | context [match ?x with _ => _ end] => destruct x eqn:?; try discriminate
  | context [if ?x then _ else _] => destruct x eqn:?; try discriminate
  end.

(** coarse: one goal per (pc, action) pair; handlers stay folded *)
Ltac step_inv H :=
  unfold lstep, step, estep, step_h, step_m in H;
  break_H H; inversion H; subst; clear H.

(** fine: handlers unfolded as well *)
Ltac step_inv_fine H :=
  unfold lstep, step, estep, step_h, step_m in H;
  unfold handle_h, handle_m, self_ack_h, enter_fwd_h, enter_fwd_m, finish_fwd_h, finish_fwd_m,
         bump_ae, hasStopAck in H;
  break_H H; inversion H; subst; clear H.

(** projections of updated states *)
Ltac ssimpl :=
  cbn [th qu flag search quitf ponder epc sid nbest
       set_th set_qu set_flag set_search set_quitf set_ponder set_epc set_sid set_nbest push
       pc job hasres self wc qa se ae
       set_pc set_job set_hasres set_self set_wc set_qa set_se set_ae] in *.

Ltac upd_cases :=
  repeat match goal with
  | |- context [upd _ ?t _ ?x] =>
      destruct (Nat.eq_dec x t);
      [subst; rewrite ?upd_same in * | rewrite ?(upd_other _ _ t _ x) in * by assumption]
  | H : context [upd _ ?t _ ?x] |- _ =>
      destruct (Nat.eq_dec x t);
      [subst; rewrite ?upd_same in * | rewrite ?(upd_other _ _ t _ x) in * by assumption]
  end.
