(** C10 — progress: executions, weak fairness (statement side) and deadlock freedom of the
    stop-acknowledgement phase. *)
From Coq Require Import ZArith List Bool Arith Lia.
From Texel Require Import Workers.Workers Workers.WorkersLemmas Workers.WorkersInv.
Import ListNotations.

Section Live.
Variable N : nat.
Variable parent : tid -> option tid.

(** an infinite execution: every step is a transition of some thread or of the environment *)
Definition execution (e : nat -> state) : Prop :=
  forall i, exists lb, lstep N parent (e i) lb = Some (e (S i)).

(** thread t can take a transition that changes the state *)
Definition can_progress (s : state) (t : tid) : Prop :=
  exists a s', step N parent s t a = Some s' /\ s' <> s.

(** weak fairness: a thread that can make progress from some point on forever eventually takes
    a state-changing transition *)
Definition weakly_fair (e : nat -> state) : Prop :=
  forall t i, t <= N -> (forall k, i <= k -> can_progress (e k) t) ->
  exists k a, i <= k /\ step N parent (e k) t a = Some (e (S k)) /\ e (S k) <> e k.

End Live.
