(** C10 — progress: executions, weak fairness (statement side) and deadlock freedom of the
    stop-acknowledgement phase. *)
From Coq Require Import ZArith List Bool Arith Lia.
From Texel Require Import Workers.Workers Workers.WorkersLemmas Workers.WorkersInv.
Import ListNotations.

Section Live.
Variable N : nat.
Variable parent : tid -> option tid.

(** an infinite execution: every step is a transition of some thread or of the environment *)
Definition execution (e : nat -> state) : Prop :=
  forall i, exists lb, lstep N parent (e i) lb = Some (e (S i)).

(** thread t can take a transition that changes the state *)
Definition can_progress (s : state) (t : tid) : Prop :=
  exists a s', step N parent s t a = Some s' /\ s' <> s.

(** thread t takes a state-changing transition at position k of the execution *)
Definition takes_step (e : nat -> state) (t : tid) (k : nat) : Prop :=
  exists a, step N parent (e k) t a = Some (e (S k)) /\ e (S k) <> e k.

(** weak fairness (justice): no thread can be able to make progress continuously from some
    point on without ever doing so -- from every position there is a later one at which the
    thread either cannot make progress or takes a state-changing transition.  (Classically
    this is the same as "continuously able to progress from some point on implies a later
    transition"; the form below is the one a constructive proof can use, and it implies the
    other one, [weakly_fair_impl].) *)
Definition weakly_fair (e : nat -> state) : Prop :=
  forall t i, t <= N -> exists k, i <= k /\ (~ can_progress (e k) t \/ takes_step e t k).

Lemma weakly_fair_impl : forall e, weakly_fair e ->
  forall t i, t <= N -> (forall k, i <= k -> can_progress (e k) t) ->
  exists k a, i <= k /\ step N parent (e k) t a = Some (e (S k)) /\ e (S k) <> e k.
Proof.
  intros e F t i Ht H. destruct (F t i Ht) as (k & Hk & [X|(a & Ha & Hn)]).
  - exfalso. apply X. auto.
  - exists k, a. auto.
Qed.

End Live.
