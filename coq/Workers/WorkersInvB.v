(** C10 — preservation of the epoch invariant [InvE]: part B. *)
From Coq Require Import ZArith List Bool Arith Lia.
From Texel Require Import Workers.Workers Workers.WorkersLemmas Workers.WorkersInv Workers.WorkersInvFacts Workers.WorkersTac.
Import ListNotations.

Section P.
Variable N : nat.
Variable parent : tid -> option tid.
Hypothesis Htree : tree_ok N parent.
Notation InvE := (InvE N parent).
Notation lstep := (lstep N parent).
Notation children := (children N parent).
Notation helper := (helper N).
Notation npending := (npending N parent).
Notation helper_le := (helper_le N).
Notation helper_leb := (helper_leb N).
Notation helper_S := (helper_S N).
Notation inv_se0 := (inv_se0 N parent).
Notation inv_child_le := (inv_child_le N parent).
Notation parent_le := (parent_le N parent Htree).
Notation child_settled := (child_settled N parent).
Notation barrier_all := (barrier_all N parent Htree).
Notation barrier_noacks := (barrier_noacks N parent Htree).
Notation quiet_all := (quiet_all N parent).
Notation stop_head_lag := (stop_head_lag N parent Htree).
Notation fwd_push_facts := (fwd_push_facts N parent Htree).
Notation ack_head_facts := (ack_head_facts N parent).
Notation w1_frame := (ltac:(first [exact (WorkersInvFacts.w1_frame N parent Htree) | exact (WorkersInvFacts.w1_frame N parent)])) (only parsing).
Notation w1_enter_round := (ltac:(first [exact (WorkersInvFacts.w1_enter_round N parent Htree) | exact (WorkersInvFacts.w1_enter_round N parent)])) (only parsing).
Notation w1_pop_ack := (ltac:(first [exact (WorkersInvFacts.w1_pop_ack N parent Htree) | exact (WorkersInvFacts.w1_pop_ack N parent)])) (only parsing).

Lemma step_w2 : forall s lb s', InvE s -> lstep s lb = Some s' ->
  forall c p, helper c -> parent c = Some p ->
    se (th s' p) + acks c (qu s' p) <= S (ae (th s' c)).
Proof.
  intros s lb s' I H c p Hc Hp.
  pose proof (e_w2 _ _ _ I c p Hc Hp) as W2.
  pose proof (e_w3 _ _ _ I c p Hc Hp) as W3.
  pose proof (e_g2 _ _ _ I c Hc) as G2.
  pose proof (inv_child_le s c p I Hc Hp) as CL.
  assert (Hc0 : c <> 0) by (unfold WorkersInv.helper in Hc; lia).
  destruct (parent_le c p Hc Hp) as (HpN & Hpc).
  step_inv_fine H; crunch; use_eqs; rewrite ?acks_app, ?acks_purge, ?acks_cons in *;
    cbn [is_ack_from acks filter length] in *; try lia.
  all: try pcs_facts I.
  all: try match goal with w : fwd |- _ => destruct w end.
  all: cbn [fwd_purge fwd_cmd is_ack_from] in *; rewrite ?acks_purge; eqb_cases; try lia.
  all: try (stop_facts I; lia).
  all: try (sendack_facts I; lia).
  all: try (phase_facts' I; lia).
Qed.

Lemma step_w3 : forall s lb s', InvE s -> lstep s lb = Some s' ->
  forall c p, helper c -> parent c = Some p -> 1 <= acks c (qu s' p) ->
    ae (th s' c) = S (ae (th s' 0)).
Proof.
  intros s lb s' I H c p Hc Hp.
  pose proof (e_w2 _ _ _ I c p Hc Hp) as W2.
  pose proof (e_w3 _ _ _ I c p Hc Hp) as W3.
  pose proof (e_g2 _ _ _ I c Hc) as G2.
  pose proof (e_g1 _ _ _ I c (helper_le _ Hc)) as G1.
  pose proof (inv_se0 s I) as G0.
  pose proof (inv_child_le s c p I Hc Hp) as CL.
  assert (Hc0 : c <> 0) by (unfold WorkersInv.helper in Hc; lia).
  destruct (parent_le c p Hc Hp) as (HpN & Hpc).
  step_inv_fine H; crunch; use_eqs; rewrite ?acks_app, ?acks_purge, ?acks_cons in *;
    cbn [is_ack_from acks filter length] in *; try lia.
  all: try pcs_facts I.
  all: try match goal with w : fwd |- _ => destruct w end.
  all: cbn [fwd_purge fwd_cmd is_ack_from] in *; rewrite ?acks_purge; eqb_cases; try lia.
  all: try (stop_facts I; lia).
  all: try (sendack_facts I; lia).
  all: try (phase_facts' I; lia).
  bar_facts. rewrite (barrier_noacks s I Hw c p Hc Hp). lia.
Qed.

Lemma step_fwd : forall s lb s', InvE s -> lstep s lb = Some s' ->
  forall t w k rest, t <= N -> pc (th s' t) = PFwd w k rest ->
    rest <> [] /\ NoDup rest /\ (forall x, In x rest -> In x (children t)).
Proof.
  intros s lb s' I H t w k rest Ht.
  pose proof (e_fwd _ _ _ I t) as F.
  step_inv_fine H; crunch; use_eqs; eauto; try discriminate.
  all: intros E; injection E as <- <- <-.
  all: try match goal with E : Workers.children N parent ?t = ?a :: ?l |- _ =>
         rewrite <- E; split; [rewrite E; discriminate|]; split; [apply NoDup_children | auto] end.
  all: match goal with E : remove_tid ?x ?r = ?a :: ?l, Hpc : pc (th ?s0 ?t) = PFwd ?w ?k ?r |- _ =>
         destruct (F w k r Ht eq_refl) as (F1 & F2 & F3);
         rewrite <- E; split; [rewrite E; discriminate|]; split; [now apply NoDup_remove_tid|];
         intros y Hy; apply in_remove_tid in Hy; apply F3; tauto end.
Qed.

Lemma step_snd : forall s lb s', InvE s -> lstep s lb = Some s' ->
  forall t m, t <= N -> In m (qu s' t) -> sender_ok N parent t m.
Proof.
  intros s lb s' I H t m Ht.
  pose proof (e_snd _ _ _ I t m Ht) as Sn.
  step_inv_fine H; crunch; use_eqs; auto.
  all: try (intros Hin; apply Sn; right; exact Hin).
  all: try pcs_facts I.
  all: try match goal with w : fwd |- _ => destruct w end; cbn [fwd_purge fwd_cmd] in *.
  all: intros Hin; apply in_app_or in Hin; destruct Hin as [Hin|[<-|[]]];
       try (apply in_purge in Hin; destruct Hin as (Hin & _)); auto; simpl; auto.
  all: split; auto; apply helper_leb; auto.
Qed.

Lemma step_pcs : forall s lb s', InvE s -> lstep s lb = Some s' ->
  forall t, t <= N -> pcsend_ok t (pc (th s' t)).
Proof.
  intros s lb s' I H t Ht.
  pose proof (e_pcs _ _ _ I t Ht) as P.
  step_inv_fine H; crunch; use_eqs; cbn [pcsend_ok] in *; auto.
Qed.

Lemma step_j3 : forall s lb s', InvE s -> lstep s lb = Some s' ->
  forall t w k rest, t <= N -> pc (th s' t) = PFwd w k rest -> fwd_startish w ->
    S (se (th s' t)) = sid s'.
Proof.
  intros s lb s' I H t w k rest Ht.
  pose proof (e_j3 _ _ _ I t) as J3.
  pose proof (e_j2 _ _ _ I t) as J2.
  pose proof (e_g1 _ _ _ I t Ht) as G1.
  step_inv_fine H; crunch; use_eqs; eauto; try discriminate.
  all: intros E Hw; try (injection E as <- <- <-).
  all: try (destruct Hw as [Hw|(j' & Hw)]; discriminate).
  all: try (phase_facts' I; lia).
  all: try (stop_facts I; lia).
  all: try (apply (J2 _ (helper_leb _ ltac:(eassumption)) (or_introl eq_refl)); unfold is_startish; eauto).
  all: try (specialize (J3 _ _ _ Ht E Hw); phase_facts' I; lia).
  all: try (eapply J3; eauto).
Qed.

Lemma step_sc : forall s lb s', InvE s -> lstep s lb = Some s' ->
  forall c, helper c -> sclean (qu s' c).
Proof.
  intros s lb s' I H c Hc.
  pose proof (e_sc _ _ _ I c Hc) as SC.
  step_inv_fine H; crunch; use_eqs; auto.
  all: try (eapply sclean_tail; eassumption).
  all: try pcs_facts I.
  all: try match goal with w : fwd |- _ => destruct w end; cbn [fwd_purge fwd_cmd] in *.
  all: try (apply sclean_app_nostop; [apply stops_purge | discriminate]).
  all: try (apply sclean_app_stop; apply stops_purge).
  all: try (apply sclean_app_other; [assumption | intros [E|(j' & E)]; discriminate]).
  all: try (fwd_facts I; apply sclean_app_nostop; [lia | discriminate]).
Qed.

Lemma step_j2 : forall s lb s', InvE s -> lstep s lb = Some s' ->
  forall c m, helper c -> In m (qu s' c) -> is_startish m -> S (se (th s' c)) = sid s'.
Proof.
  intros s lb s' I H c m Hc.
  pose proof (e_j2 _ _ _ I c m Hc) as J2.
  assert (Hc0 : c <> 0) by (unfold WorkersInv.helper in Hc; lia).
  pose proof (e_sc _ _ _ I c Hc) as SC.
  pose proof (e_g1 _ _ _ I c (helper_le _ Hc)) as G1.
  step_inv_fine H; crunch; use_eqs; auto.
  all: try (intros Hin Hm; apply J2; auto; right; exact Hin).
  all: try pcs_facts I.
  all: try match goal with w : fwd |- _ => destruct w end; cbn [fwd_purge fwd_cmd] in *.
  all: try fwd_facts I; try congruence.
  all: intros Hin Hm.
  all: try (exfalso; simpl in SC; exact (SC m Hin Hm)).
  all: try (specialize (J2 Hin Hm); phase_facts' I; lia).
  all: try (apply in_app_or in Hin; destruct Hin as [Hin|[<-|[]]];
            try (apply in_purge in Hin; destruct Hin as (Hin & _)); auto;
            try (destruct Hm as [Hm|(j' & Hm)]; discriminate); try lia).
Qed.

End P.
