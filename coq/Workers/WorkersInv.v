(** C10 — the epoch invariant of the stop-acknowledgement protocol (definitions). *)
From Coq Require Import ZArith List Bool Arith Lia.
From Texel Require Import Workers.Workers Workers.WorkersLemmas.
Import ListNotations.

Section Inv.
Variable N : nat.
Variable parent : tid -> option tid.

(** the communicator tree createWorkers builds: every helper has a parent with a smaller number *)
Definition tree_ok : Prop := forall c, 1 <= c <= N -> exists p, parent c = Some p /\ p < c.

Definition helper (c : tid) : Prop := 1 <= c <= N.

(** p still has to push STOP_SEARCH to c in its current sendStopSearch *)
Definition owes (pcv : pcT) (c : tid) : bool :=
  match pcv with
  | PStopNotify _ => true
  | PFwd FStop _ rest => mem_tid c rest
  | _ => false
  end.
(** about to push STOP_ACK to the parent *)
Definition sendack (pcv : pcT) : bool :=
  match pcv with PSend (CStopAck _) _ => true | PSendW _ => true | _ => false end.
(** inside sendStopSearch *)
Definition instop (pcv : pcT) : bool :=
  match pcv with PStopNotify _ => true | PFwd FStop _ _ => true | _ => false end.
Definition b2n (b : bool) : nat := if b then 1 else 0.

(** child c has not yet been acknowledged towards p in p's current stop round: the number of
    STOP_ACKs of c that p has consumed, ae c - acks c (mailbox p), is below p's round number *)
Definition pendingb (s : state) (p c : tid) : bool :=
  ae (th s c) <? se (th s p) + acks c (qu s p).
Definition npending (s : state) (p : tid) : nat :=
  length (filter (pendingb s p) (children N parent p)).

(** phases of the engine thread *)
Inductive phase := PhIdle | PhSearch | PhPre | PhStop.
Definition mphase (pcv : pcT) : option phase :=
  match pcv with
  | PWait KTop | MRdQuit | MRdSearch | MFinalNotify | MClear | PExit
  | PWait KQuit | PPoll KQuit | PFwd FQuit KQuit _ => Some PhIdle
  | PPoll KMSearch | PFwd FInit KMSearch _ | PFwd (FStart _) KMSearch _ => Some PhSearch
  | MStopPre => Some PhPre
  | PStopNotify KAck | PFwd FStop KAck _ | PPoll KAck | PWait KAck => Some PhStop
  | _ => None
  end.
Definition phase_eqs (ph : phase) (sidv se0 ae0 nb : nat) : Prop :=
  match ph with
  | PhIdle => sidv = se0 /\ se0 = ae0 /\ nb = sidv
  | PhSearch => sidv = S se0 /\ se0 = ae0 /\ nb = se0
  | PhPre => sidv = S se0 /\ se0 = ae0 /\ nb = sidv
  | PhStop => sidv = se0 /\ se0 = S ae0 /\ nb = sidv
  end.

Definition sender_ok (t : tid) (m : cmd) : Prop :=
  match m with
  | CStopAck f | CReport _ _ f | CQuitAck f => parent f = Some t /\ helper f
  | _ => True
  end.
Definition pcsend_ok (t : tid) (pcv : pcT) : Prop :=
  match pcv with
  | PSend (CStopAck f) _ | PSend (CReport _ _ f) _ | PSend (CQuitAck f) _ => f = t
  | PSend _ _ => False
  | PSendW m => m = CStopAck t
  | _ => True
  end.
Definition is_startish (m : cmd) : Prop := m = CInit \/ exists j, m = CStart j.
Definition fwd_startish (w : fwd) : Prop := w = FInit \/ exists j, w = FStart j.

(** a queued STOP_SEARCH is never followed by an INIT_SEARCH / START_SEARCH *)
Definition startfree (l : list cmd) : Prop := forall m, In m l -> ~ is_startish m.
Fixpoint sclean (l : list cmd) : Prop :=
  match l with
  | [] => True
  | CStop :: r => startfree r
  | _ :: r => sclean r
  end.

Record InvE (s : state) : Prop := {
  e_phase : exists ph, mphase (pc (th s 0)) = Some ph /\
                       phase_eqs ph (sid s) (se (th s 0)) (ae (th s 0)) (nbest s);
  e_g1 : forall t, t <= N -> ae (th s 0) <= se (th s t) /\ se (th s t) <= se (th s 0);
  e_g2 : forall c, helper c ->
           ae (th s 0) <= ae (th s c) /\ ae (th s c) <= se (th s c) /\ se (th s c) <= S (ae (th s c));
  e_s1 : forall c p, helper c -> parent c = Some p ->
           se (th s p) = se (th s c) + stops (qu s c) + b2n (owes (pc (th s p)) c);
  e_a1 : forall c, helper c -> ae (th s c) = se (th s c) ->
           self (th s c) = false /\ wc (th s c) = 0%Z /\
           sendack (pc (th s c)) = false /\ instop (pc (th s c)) = false;
  e_a2 : forall c, helper c -> sendack (pc (th s c)) = true ->
           self (th s c) = false /\ wc (th s c) = 0%Z /\ se (th s c) = S (ae (th s c));
  e_w1 : forall p, p <= N -> wc (th s p) = Z.of_nat (npending s p);
  e_w2 : forall c p, helper c -> parent c = Some p ->
           se (th s p) + acks c (qu s p) <= S (ae (th s c));
  e_w3 : forall c p, helper c -> parent c = Some p -> 1 <= acks c (qu s p) ->
           ae (th s c) = S (ae (th s 0));
  e_fwd : forall t w k rest, t <= N -> pc (th s t) = PFwd w k rest ->
           rest <> [] /\ NoDup rest /\ (forall x, In x rest -> In x (children N parent t));
  e_snd : forall t m, t <= N -> In m (qu s t) -> sender_ok t m;
  e_pcs : forall t, t <= N -> pcsend_ok t (pc (th s t));
  e_sc : forall c, helper c -> sclean (qu s c);
  e_j2 : forall c m, helper c -> In m (qu s c) -> is_startish m -> S (se (th s c)) = sid s;
  e_j3 : forall t w k rest, t <= N -> pc (th s t) = PFwd w k rest -> fwd_startish w ->
           S (se (th s t)) = sid s
}.

End Inv.
