(** C10 — auxiliary invariant [InvD] for the deadlock-freedom of the stop phase. *)
From Coq Require Import ZArith List Bool Arith Lia.
From Texel Require Import Workers.Workers Workers.WorkersLemmas Workers.WorkersInv Workers.WorkersJob.
Import ListNotations.

(** program counters a helper thread can have *)
Definition hkind (pcv : pcT) : bool :=
  match pcv with
  | PWait KMain | PSendW _ | PExit => true
  | PPoll k | PFwd _ k _ | PStopNotify k | PSend _ k =>
      match k with KMain | KSearch _ => true | _ => false end
  | _ => false
  end.

(** the engine thread has started to quit (absorbing) *)
Definition mquit (pcv : pcT) : bool :=
  match pcv with
  | PFwd FQuit KQuit _ | PPoll KQuit | PWait KQuit | PExit => true
  | _ => false
  end.

Definition is_quitmsg (m : cmd) : bool :=
  match m with CQuit | CQuitAck _ => true | _ => false end.
Definition pcquit (pcv : pcT) : bool :=
  match pcv with
  | PExit | PFwd FQuit _ _ | PSend (CQuitAck _) _ => true
  | _ => false
  end.

Section Inv.
Variable N : nat.

Record InvD (s : state) : Prop := {
  d_kind : forall c, helper N c -> hkind (pc (th s c)) = true;
  d_quit : mquit (pc (th s 0)) = false -> forall c, helper N c ->
             qa (th s c) = (-1)%Z /\ (forall m, In m (qu s c) -> is_quitmsg m = false) /\
             pcquit (pc (th s c)) = false;
  d_round : forall c, helper N c -> se (th s c) = S (ae (th s c)) ->
             self (th s c) = true \/ (0 < wc (th s c))%Z \/ sendack (pc (th s c)) = true;
  d_mself : (pc (th s 0) = PPoll KAck \/ pc (th s 0) = PWait KAck) -> self (th s 0) = false;
  d_mwait : pc (th s 0) = PWait KAck -> wc (th s 0) <> 0%Z
}.
End Inv.
