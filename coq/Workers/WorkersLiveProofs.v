(** C10 — progress, proved part: the stop-acknowledgement phase is never stuck. *)
From Coq Require Import ZArith List Bool Arith Lia.
From Texel Require Import Workers.Workers Workers.WorkersLemmas Workers.WorkersInv Workers.WorkersInvProofs
  Workers.WorkersInvMain Workers.WorkersTac Workers.WorkersJob Workers.WorkersWake Workers.WorkersDead
  Workers.WorkersDeadProofs Workers.WorkersLive Workers.WorkersTheorems.
Import ListNotations.
Section P.
Variable N : nat.
Variable parent : tid -> option tid.
Hypothesis Htree : tree_ok N parent.
Notation InvE := (InvE N parent).
Notation InvD := (InvD N).
Notation InvL := (InvL N).
Notation helper := (helper N).
Notation can_progress := (can_progress N parent).

Lemma neq_by_pc : forall (s s' : state) t, pc (th s' t) <> pc (th s t) -> s' <> s.
Proof. intros s s' t H E. apply H. now rewrite E. Qed.
Lemma neq_by_qu : forall (s s' : state) t, qu s' t <> qu s t -> s' <> s.
Proof. intros s s' t H E. apply H. now rewrite E. Qed.
Lemma cons_neq : forall (A : Type) (x : A) l, l <> x :: l.
Proof. intros A x l E. apply (f_equal (@length A)) in E. simpl in E. lia. Qed.

Lemma step_helper : forall s c p a, helper c -> parent c = Some p ->
  step N parent s c a = step_h N parent s c p a.
Proof.
  intros s c p a Hc Hp. unfold step. destruct c; [unfold WorkersInv.helper in Hc; lia|].
  assert (E : Nat.leb (S c) N = true) by (apply Nat.leb_le; unfold WorkersInv.helper in Hc; lia).
  now rewrite E, Hp.
Qed.

Lemma th_set_th : forall s t l, th (set_th s t l) t = l.
Proof. intros; simpl. apply upd_same. Qed.

Ltac prog a :=
  exists a; eexists; split; [reflexivity|].

Lemma helper_progress : forall s c, InvE s -> InvD s -> helper c ->
  pc (th s c) <> PExit ->
  (pc (th s c) = PWait KMain -> flag s c = true) ->
  can_progress s c.
Proof.
  intros s c I D Hc Hne Hw.
  destruct (Htree c Hc) as (p & Hp & _).
  pose proof (d_kind _ _ D c Hc) as K.
  unfold WorkersLive.can_progress. setoid_rewrite (step_helper s c p _ Hc Hp).
  unfold step_h.
  destruct (pc (th s c)) eqn:Hpc; try discriminate; try congruence.
  - (* PWait *) destruct k; try discriminate. rewrite (Hw eq_refl).
    exists AWait; eexists; split; [reflexivity|]. apply (neq_by_pc _ _ c). rewrite th_set_th. cbn. congruence.
  - (* PPoll *)
    destruct (qu s c) as [|m r] eqn:Hq.
    + destruct k; try discriminate.
      * exists APollEmpty.
        destruct (qa (th s c) =? 0)%Z; [|destruct (negb (job (th s c) =? -1)%Z)];
          (eexists; split; [reflexivity|]; apply (neq_by_pc _ _ c); rewrite th_set_th;
           unfold self_ack_h; repeat match goal with |- context [if ?b then _ else _] => destruct b end;
           cbn; congruence).
      * destruct (job (th s c) =? j)%Z eqn:Ej.
        -- exists AMaxDepth. eexists; split; [reflexivity|]. apply (neq_by_pc _ _ c).
           rewrite th_set_th. unfold self_ack_h;
           repeat match goal with |- context [if ?b then _ else _] => destruct b end; cbn; congruence.
        -- exists APollEmpty. eexists; split; [reflexivity|]. apply (neq_by_pc _ _ c).
           rewrite th_set_th. unfold self_ack_h;
           repeat match goal with |- context [if ?b then _ else _] => destruct b end; cbn; congruence.
    + exists APop. destruct k; try discriminate;
        (eexists; split; [reflexivity|]; apply (neq_by_qu _ _ c); cbn; rewrite upd_same, Hq; apply cons_neq).
  - (* PFwd *)
    destruct (e_fwd _ _ _ I c w k rest (helper_le _ _ Hc) Hpc) as (Hn & Hnd & _).
    destruct rest as [|x rest']; [congruence|].
    exists (APush x).
    assert (Hm : mem_tid x (x :: rest') = true) by (apply mem_tid_In; left; auto).
    rewrite Hm.
    destruct (remove_tid x (x :: rest')) eqn:Er;
      (eexists; split; [reflexivity|]; apply (neq_by_pc _ _ c); rewrite th_set_th).
    + destruct w; cbn; congruence.
    + cbn. rewrite Hpc. intros E. inversion E; subst.
      assert (X : In x (remove_tid x (x :: rest'))) by (rewrite Er; left; auto).
      apply in_remove_tid in X. tauto.
  - (* PStopNotify *)
    exists ANotifySelf. eexists; split; [reflexivity|]. apply (neq_by_pc _ _ c). rewrite th_set_th.
    unfold enter_fwd_h. destruct (children N parent c); cbn; congruence.
  - (* PSend *)
    exists (APush p). rewrite Nat.eqb_refl. eexists; split; [reflexivity|]. apply (neq_by_pc _ _ c).
    rewrite th_set_th. cbn. destruct c0; cbn; congruence.
  - (* PSendW *)
    exists (APush p). rewrite Nat.eqb_refl. eexists; split; [reflexivity|]. apply (neq_by_pc _ _ c).
    rewrite th_set_th. cbn. destruct c0; cbn; congruence.
Qed.

Lemma master_progress_stop : forall s, InvE s -> mphase (pc (th s 0)) = Some PhStop ->
  (pc (th s 0) = PWait KAck -> flag s 0 = true) -> can_progress s 0.
Proof.
  intros s I Hm Hw. unfold WorkersLive.can_progress. cbn [step]. unfold step_m.
  destruct (pc (th s 0)) eqn:Hpc; cbn in Hm; try discriminate.
  - destruct k; cbn in Hm; try discriminate. rewrite (Hw eq_refl).
    exists AWait; eexists; split; [reflexivity|]. apply (neq_by_pc _ _ 0). rewrite th_set_th. cbn. congruence.
  - destruct k; cbn in Hm; try discriminate.
    destruct (qu s 0) as [|m r] eqn:Hq.
    + exists APollEmpty. destruct (hasStopAck (th s 0));
        (eexists; split; [reflexivity|]; apply (neq_by_pc _ _ 0); rewrite th_set_th; cbn; congruence).
    + exists APop. eexists; split; [reflexivity|]. apply (neq_by_qu _ _ 0). cbn. unfold upd. cbn. rewrite ?Hq. apply cons_neq.
  - destruct w; cbn in Hm; try discriminate; destruct k; cbn in Hm; try discriminate.
    destruct (e_fwd _ _ _ I 0 _ _ rest (Nat.le_0_l _) Hpc) as (Hn & _ & _).
    destruct rest as [|x rest']; [congruence|].
    exists (APush x).
    assert (Hmm : mem_tid x (x :: rest') = true) by (apply mem_tid_In; left; auto).
    rewrite Hmm.
    destruct (remove_tid x (x :: rest')) eqn:Er;
      (eexists; split; [reflexivity|]; apply (neq_by_pc _ _ 0); rewrite th_set_th).
    + cbn; congruence.
    + cbn. rewrite Hpc. intros E. inversion E; subst.
      assert (X : In x (remove_tid x (x :: rest'))) by (rewrite Er; left; auto).
      apply in_remove_tid in X. tauto.
  - destruct k; cbn in Hm; try discriminate.
    exists ANotifySelf. eexists; split; [reflexivity|]. apply (neq_by_pc _ _ 0). rewrite th_set_th.
    unfold enter_fwd_m. destruct (children N parent 0); cbn; congruence.
Qed.

Lemma count_pos_ex : forall (f : tid -> bool) l, 1 <= length (filter f l) -> exists x, In x l /\ f x = true.
Proof.
  induction l as [|a l IH]; simpl; intros H; [lia|].
  destruct (f a) eqn:E; [exists a; auto|]. destruct (IH H) as (x & Hx & Fx). exists x; auto.
Qed.

(** a thread that is owed a STOP (or has it queued) ... *)
Lemma progress_up : forall s, InvE s -> InvD s -> InvL s -> mquit (pc (th s 0)) = false ->
  (forall c, owes (pc (th s 0)) c = true -> can_progress s 0) ->
  forall n c, c <= n -> helper c -> se (th s c) < se (th s 0) ->
  exists t, t <= N /\ can_progress s t /\ (helper t \/ exists c', owes (pc (th s 0)) c' = true).
Proof.
  intros s I D L Hq Hm0. induction n as [|n IH]; intros c Hcn Hc Hlt.
  - unfold WorkersInv.helper in Hc; lia.
  - destruct (Htree c Hc) as (p & Hp & Hpc).
    pose proof (e_s1 _ _ _ I c p Hc Hp) as S1.
    destruct (parent_le N parent Htree c p Hc Hp) as (HpN & _).
    destruct (owes (pc (th s p)) c) eqn:Ho.
    + (* the parent still has to push the STOP *)
      exists p. split; auto.
      destruct p as [|p'].
      * split; [apply (Hm0 c Ho)|]. right. exists c. exact Ho.
      * assert (Hph : helper (S p')) by (unfold WorkersInv.helper in *; lia).
        split; [|left; auto].
        apply (helper_progress s (S p') I D Hph).
        -- intros E. rewrite E in Ho. discriminate.
        -- intros E. rewrite E in Ho. discriminate.
    + simpl in S1.
      destruct (stops (qu s c)) eqn:Hs.
      * (* the parent has not entered the round either *)
        destruct p as [|p']; [lia|].
        assert (Hph : helper (S p')) by (unfold WorkersInv.helper in *; lia).
        apply (IH (S p')); auto; lia.
      * (* STOP is in c's mailbox: c can move *)
        exists c. split; [apply helper_le; auto|].
        assert (Hne : qu s c <> []) by (intros E; rewrite E in Hs; discriminate).
        destruct (d_quit _ _ D Hq c Hc) as (_ & _ & Q3).
        split; [|left; auto].
        apply (helper_progress s c I D Hc).
        -- intros E. rewrite E in Q3. discriminate.
        -- intros E. destruct (l_q _ _ L c Hc Hne) as [F|F]; auto. rewrite E in F. discriminate.
Qed.

(** ... and a thread that has entered the round but not acknowledged it *)
Lemma progress_down : forall s, InvE s -> InvD s -> InvL s -> mquit (pc (th s 0)) = false ->
  (forall c, owes (pc (th s 0)) c = true -> can_progress s 0) ->
  forall k c, helper c -> N - c <= k -> se (th s c) = se (th s 0) -> ae (th s c) < se (th s c) ->
  exists t, t <= N /\ can_progress s t /\ (helper t \/ exists c', owes (pc (th s 0)) c' = true).
Proof.
  intros s I D L Hq Hm0. induction k as [|k IH]; intros c Hc Hk Hse Hae.
  - (* c = N: same argument without the recursive case; handled uniformly below *)
    assert (HcN : c = N) by (unfold WorkersInv.helper in Hc; lia). subst c.
    destruct (d_quit _ _ D Hq N Hc) as (_ & _ & Q3).
    destruct (e_g2 _ _ _ I N Hc) as (_ & _ & G2).
    destruct (d_round _ _ D N Hc ltac:(lia)) as [R|[R|R]].
    + exists N. split; auto. split; [|left; auto]. apply (helper_progress s N I D Hc).
      * intros E; rewrite E in Q3; discriminate.
      * intros E. destruct (l_wait _ _ L N Hc (or_introl E)) as (X & _). congruence.
    + (* wc > 0: a pending child would have a larger number than N *)
      exfalso. pose proof (e_w1 _ _ _ I N (le_n _)) as W1.
      assert (P1 : 1 <= npending N parent s N) by lia.
      destruct (count_pos_ex _ _ P1) as (g & Hg & _). apply in_children in Hg. destruct Hg as (Hg & Hgp).
      destruct (parent_le N parent Htree g N Hg Hgp). unfold WorkersInv.helper in Hg. lia.
    + exists N. split; auto. split; [|left; auto]. apply (helper_progress s N I D Hc).
      * intros E; rewrite E in Q3; discriminate.
      * intros E. rewrite E in R. discriminate.
  - destruct (d_quit _ _ D Hq c Hc) as (_ & _ & Q3).
    destruct (e_g2 _ _ _ I c Hc) as (_ & _ & G2).
    assert (Hprog : (pc (th s c) = PWait KMain -> flag s c = true) ->
              exists t, t <= N /\ can_progress s t /\ (helper t \/ exists c', owes (pc (th s 0)) c' = true)).
    { intros Hw. exists c. split; [apply helper_le; auto|]. split; [|left; auto].
      apply (helper_progress s c I D Hc); auto.
      intros E; rewrite E in Q3; discriminate. }
    destruct (d_round _ _ D c Hc ltac:(lia)) as [R|[R|R]].
    + apply Hprog. intros E. destruct (l_wait _ _ L c Hc (or_introl E)) as (X & _). congruence.
    + destruct (list_eq_dec (fun a b : cmd => ltac:(decide equality; try apply Z.eq_dec; try apply Nat.eq_dec))
                  (qu s c) []) as [Hqe|Hqne].
      2:{ apply Hprog. intros E. destruct (l_q _ _ L c Hc Hqne) as [F|F]; auto. rewrite E in F; discriminate. }
      pose proof (e_w1 _ _ _ I c (helper_le _ _ Hc)) as W1.
      assert (P1 : 1 <= npending N parent s c) by lia.
      destruct (count_pos_ex _ _ P1) as (g & Hg & Pg). apply in_children in Hg. destruct Hg as (Hg & Hgp).
      unfold pendingb in Pg. rewrite Hqe, acks_nil in Pg. apply Nat.ltb_lt in Pg.
      destruct (parent_le N parent Htree g c Hg Hgp) as (_ & Hlt).
      destruct (e_g1 _ _ _ I g (helper_le _ _ Hg)) as (_ & G1).
      destruct (e_g2 _ _ _ I g Hg) as (_ & G2g & _).
      destruct (Nat.eq_dec (se (th s g)) (se (th s 0))) as [Eg|Ng].
      * apply (IH g Hg); try lia.
      * apply (progress_up s I D L Hq Hm0 g g (le_n _) Hg). lia.
    + apply Hprog. intros E. rewrite E in R. discriminate.
Qed.

Lemma stop_not_quit : forall pcv, mphase pcv = Some PhStop -> mquit pcv = false.
Proof.
  intros pcv Hm. destruct pcv; cbn in *; try discriminate; auto.
  - destruct k; try discriminate; auto.
  - destruct k; try discriminate; auto.
  - destruct w; try discriminate; auto. destruct k; discriminate.
Qed.

(** the engine thread waits for acknowledgements, its mailbox is empty and it owes no STOP:
    some HELPER thread can make progress *)
Lemma pending_helper : forall s, InvE s -> InvD s -> InvL s -> mquit (pc (th s 0)) = false ->
  qu s 0 = [] -> wc (th s 0) <> 0%Z -> (forall c, owes (pc (th s 0)) c = false) ->
  exists c, helper c /\ can_progress s c.
Proof.
  intros s I D L Hq Hqe Wn Ho.
  assert (Hm0 : forall c, owes (pc (th s 0)) c = true -> can_progress s 0).
  { intros c X. rewrite Ho in X. discriminate. }
  pose proof (e_w1 _ _ _ I 0 (Nat.le_0_l _)) as W1.
  assert (P1 : 1 <= npending N parent s 0) by lia.
  destruct (count_pos_ex _ _ P1) as (g & Hg & Pg). apply in_children in Hg. destruct Hg as (Hg & Hgp).
  unfold pendingb in Pg. rewrite Hqe, acks_nil in Pg. apply Nat.ltb_lt in Pg.
  destruct (e_g1 _ _ _ I g (helper_le _ _ Hg)) as (_ & G1).
  destruct (e_g2 _ _ _ I g Hg) as (_ & G2g & _).
  assert (X : exists t, t <= N /\ can_progress s t /\ (helper t \/ exists c', owes (pc (th s 0)) c' = true)).
  { destruct (Nat.eq_dec (se (th s g)) (se (th s 0))) as [Eg|Ng].
    - apply (progress_down s I D L Hq Hm0 (N - g) g Hg (le_n _) Eg). lia.
    - apply (progress_up s I D L Hq Hm0 g g (le_n _) Hg). lia. }
  destruct X as (t & Ht & Hp & [Hh|(c' & Hc')]).
  - exists t; auto.
  - rewrite Ho in Hc'. discriminate.
Qed.

(** no deadlock while the engine thread collects the stop acknowledgements *)
Theorem stop_no_deadlock_inv : forall s, InvE s -> InvD s -> InvL s ->
  mphase (pc (th s 0)) = Some PhStop ->
  exists t a s', t <= N /\ step N parent s t a = Some s' /\ s' <> s.
Proof.
  intros s I D L Hm.
  pose proof (stop_not_quit _ Hm) as Hq.
  assert (Hres : exists t, t <= N /\ can_progress s t).
  { destruct (pc (th s 0)) eqn:Hpc; cbn in Hm; try discriminate.
    - (* PWait KAck *)
      destruct k; cbn in Hm; try discriminate.
      rewrite <- Hpc in Hq.
      destruct (flag s 0) eqn:Hf.
      + exists 0. split; [lia|]. apply master_progress_stop; auto; rewrite Hpc; auto.
      + assert (Hqe : qu s 0 = []).
        { destruct (qu s 0) eqn:E; auto. exfalso.
          assert (X : qu s 0 <> []) by (rewrite E; discriminate).
          pose proof (l_mq _ _ L (or_introl Hpc) X). congruence. }
        pose proof (d_mwait _ _ D Hpc) as Wn.
        destruct (pending_helper s I D L Hq Hqe Wn) as (c & Hc & Hp).
        * intros c. rewrite Hpc. reflexivity.
        * exists c. split; [apply helper_le; auto|auto].
    - exists 0. split; [lia|]. apply master_progress_stop; auto; rewrite Hpc; auto. intros E; discriminate.
    - exists 0. split; [lia|]. apply master_progress_stop; auto; rewrite Hpc; auto. intros E; discriminate.
    - exists 0. split; [lia|]. apply master_progress_stop; auto; rewrite Hpc; auto. intros E; discriminate. }
  destruct Hres as (t & Ht & a & s' & Hs & Hn). exists t, a, s'. auto.
Qed.

Lemma reach_invD : forall s, reach N parent s -> InvD s.
Proof.
  induction 1.
  - apply InvD_init.
  - destruct (reach_inv N parent Htree s H) as (I & _ & _).
    first [eapply (InvD_step N parent Htree); eauto | eapply (InvD_step N parent); eauto].
Qed.

Theorem stop_no_deadlock : forall s, reach N parent s -> mphase (pc (th s 0)) = Some PhStop ->
  exists t a s', t <= N /\ step N parent s t a = Some s' /\ s' <> s.
Proof.
  intros s R Hm. destruct (reach_inv N parent Htree s R) as (I & _ & L).
  apply stop_no_deadlock_inv; auto. now apply reach_invD.
Qed.

End P.
