(** C10 — job / result invariant [InvJ] (on top of the epoch invariant [InvE]). *)
From Coq Require Import ZArith List Bool Arith Lia.
From Texel Require Import Workers.Workers Workers.WorkersLemmas Workers.WorkersInv.
Import ListNotations.

(** every queued REPORT_RESULT of child f belongs to a search f has not yet acknowledged the
    stop of: its search number exceeds the number of STOP_ACKs f has sent, not counting the
    ones queued behind it *)
Fixpoint rep_ok (aef : tid -> nat) (sidv : nat) (l : list cmd) : Prop :=
  match l with
  | [] => True
  | CReport j sd f :: r => (aef f < sd + acks f r /\ sd <= sidv /\ (1 <= j)%Z) /\ rep_ok aef sidv r
  | _ :: r => rep_ok aef sidv r
  end.

Definition ctx_of (pcv : pcT) : option ctx :=
  match pcv with
  | PWait k | PPoll k | PFwd _ k _ | PStopNotify k | PSend _ k => Some k
  | _ => None
  end.

Section Inv.
Variable N : nat.
Variable parent : tid -> option tid.

Record InvJ (s : state) : Prop := {
  j_job0 : (0 <= job (th s O))%Z;
  j_j1 : forall c, helper N c -> job (th s c) <> (-1)%Z ->
           (S (se (th s c)) = sid s \/ instop (pc (th s c)) = true) /\
           (1 <= job (th s c) <= job (th s O))%Z;
  j_start : forall c j, helper N c -> In (CStart j) (qu s c) -> (1 <= j <= job (th s O))%Z;
  j_fwd : forall t j k rest, t <= N -> pc (th s t) = PFwd (FStart j) k rest ->
           (1 <= j <= job (th s O))%Z;
  j_ks : forall c j, helper N c -> ctx_of (pc (th s c)) = Some (KSearch j) -> (1 <= j)%Z;
  j_rep : forall t, t <= N -> rep_ok (fun f => ae (th s f)) (sid s) (qu s t);
  j_psend : forall c j sd f k, helper N c -> pc (th s c) = PSend (CReport j sd f) k ->
           sd = sid s /\ S (se (th s c)) = sid s /\ (1 <= j)%Z
}.
End Inv.

(** ---- rep_ok lemmas ---- *)
Lemma rep_ok_ext : forall a a' sv sv' l,
  (forall f, a' f = a f) -> sv <= sv' -> rep_ok a sv l -> rep_ok a' sv' l.
Proof.
  induction l as [|m l IH]; simpl; auto. intros Ha Hs H.
  destruct m; auto. destruct H as ((H1 & H2 & H3) & H4). rewrite Ha. repeat split; auto; lia.
Qed.
Lemma rep_ok_tail : forall a sv m l, rep_ok a sv (m :: l) -> rep_ok a sv l.
Proof. intros a sv m l H. destruct m; simpl in H; tauto. Qed.
Lemma rep_ok_purge : forall a sv l, rep_ok a sv (purge l).
Proof. induction l as [|m l IH]; simpl; auto. destruct m; simpl; auto. Qed.
Lemma rep_ok_app_other : forall a sv l m,
  (forall f, m <> CStopAck f) -> (forall j sd f, m <> CReport j sd f) ->
  rep_ok a sv l -> rep_ok a sv (l ++ [m]).
Proof.
  induction l as [|x l IH]; simpl; intros m H1 H2 H.
  - destruct m; simpl; auto. exfalso; eapply H2; eauto.
  - destruct x; auto. destruct H as ((Ha & Hb & Hc) & Hd). split; auto.
    rewrite acks_app. repeat split; auto; lia.
Qed.
Lemma rep_ok_app_report : forall a sv l j sd f,
  a f < sd -> sd <= sv -> (1 <= j)%Z -> rep_ok a sv l -> rep_ok a sv (l ++ [CReport j sd f]).
Proof.
  induction l as [|x l IH]; simpl; intros j sd f H1 H2 H3 H.
  - repeat split; auto. rewrite acks_nil. lia.
  - destruct x; auto. destruct H as ((Ha & Hb & Hc) & Hd). split; auto.
    rewrite acks_app. repeat split; auto; lia.
Qed.
(** child c pushes a STOP_ACK and its ack count goes up by one *)
Lemma rep_ok_app_ack : forall a a' sv l c,
  a' c = S (a c) -> (forall f, f <> c -> a' f = a f) ->
  rep_ok a sv l -> rep_ok a' sv (l ++ [CStopAck c]).
Proof.
  induction l as [|x l IH]; simpl; intros c H1 H2 H; auto.
  destruct x; auto. destruct H as ((Ha & Hb & Hc) & Hd). split; auto.
  rewrite acks_app, acks_cons, acks_nil. simpl.
  destruct (Nat.eqb_spec c from).
  - subst. rewrite H1. repeat split; auto; lia.
  - rewrite H2 by auto. repeat split; auto; lia.
Qed.
