(** C09 — the helper threads' reads of the option values and of the table geometry / generation
    are ordered, by happens-before, against every write of these objects (engine thread:
    setOptions; UCI thread: go), for every schedule of the model, every number of helpers and
    every communicator tree.
    Together with AccessProofs / HandshakeProofs: no data race on any modelled location. *)
From Coq Require Import ZArith List Bool Arith Lia Relations.
From Texel Require Import Workers.Workers Workers.WorkersLemmas Workers.WorkersInv Workers.WorkersInvProofs
  Workers.WorkersTac Workers.WorkersJob Workers.WorkersWake Workers.WorkersWakeProofs Workers.WorkersTheorems
  Workers.Race Workers.RaceProofs Workers.Access Workers.AccessProofs Workers.HandshakeProofs
  Workers.HelperReads Workers.HelperReadFrames Workers.WorkersFair.
Import ListNotations.

Ltac enum_nth H :=
  repeat (match type of H with nth_error _ ?k = Some _ => destruct k; simpl in H end;
          try discriminate; try (injection H as <-)).

Section R.
Variable N : nat.
Variable parent : tid -> option tid.
Hypothesis Htree : tree_ok N parent.
Notation U := (uci N).
Notation hlp := (helper N).
Notation lstep := (lstep N parent).
Notation xstep := (xstep N parent true).
Notation xevents := (xevents N parent true).
Notation xreach := (xreach N parent).
Notation HI := (HI N).
Notation below := (below N parent).

(** an access to the options / table by a thread of the sub-tree below c *)
Definition RdSub (tr : list tev) (c : tid) (p : nat) : Prop :=
  exists d, below c d /\ Rd tr d p.

Record HR (x : xstate) (tr : list tev) : Prop := {
  r_eo : xeo x <> EOIdle -> pc (th (base x) 0) = MRdSearch \/ pc (th (base x) 0) = MClear;
  r_wt : forall p e, nth_error tr p = Some e -> wopt e = true -> ev_tid e = 0 \/ ev_tid e = U;
  r_rt : forall p e, nth_error tr p = Some e -> sel opt_or_tt e = true -> hlp (ev_tid e) -> is_wr e = false;
  (* writes travel down with START_SEARCH *)
  r_a2 : forall c j, hlp c -> In (CStart j) (qu (base x) c) -> forall p, Wr tr p -> relq tr (MQ c) p;
  r_a3 : forall c, hlp c ->
           (job (th (base x) c) <> (-1)%Z \/ fwdstart (pc (th (base x) c)) = true) ->
           forall p, Wr tr p -> seenby tr c p;
  r_A : forall p q c, p < q -> Wr tr p -> hlp c -> Rd tr c q -> hb tr p q;
  (* reads travel up with STOP_ACK *)
  r_b1 : forall c pp, hlp c -> parent c = Some pp -> 1 <= acks c (qu (base x) pp) ->
           forall p, RdSub tr c p -> relq tr (MQ pp) p;
  r_b2 : forall c pp, hlp c -> parent c = Some pp -> ackdone (base x) pp c ->
           forall p, RdSub tr c p -> seenby tr pp p;
  r_b3 : master_idle (base x) -> forall c p, hlp c -> Rd tr c p -> seenby tr 0 p;
  r_b4 : search (base x) = false -> forall c p, hlp c -> Rd tr c p -> relq tr ME p;
  r_B : forall p q c, p < q -> hlp c -> Rd tr c p -> Wr tr q -> hb tr p q
}.

(** no access of helper c to the options / table in block B *)
Definition NR (B : list tev) (c : tid) : Prop :=
  forall k e, nth_error B k = Some e -> ev_tid e = c -> sel opt_or_tt e = false.

(** what must hold after a block in which helper [c0] reads: it has seen all writes, and no
    communicator above it holds or has taken an acknowledgement of the current round from the
    branch that contains c0 *)
Definition CondRead (x' : xstate) (tr : list tev) (c0 : tid) : Prop :=
  (forall p, Wr tr p -> seenby tr c0 p) /\
  (forall c pp, hlp c -> parent c = Some pp -> below c c0 ->
     acks c (qu (base x') pp) = 0 /\ ~ ackdone (base x') pp c) /\
  ~ master_idle (base x') /\ search (base x') = true.

(** appending a block without writes; helper [c0] may read in it ([CondRead]).  Each of the
    knowledge fields is either inherited (its condition held before) or established by the block *)
Lemma HR_mono : forall x tr x' B c0, HR x tr ->
  (forall k e, nth_error B k = Some e -> wopt e = false) ->
  (forall c, hlp c -> NR B c \/ (c = c0 /\ CondRead x' tr c0)) ->
  (forall k e, nth_error B k = Some e -> sel opt_or_tt e = true -> hlp (ev_tid e) -> is_wr e = false) ->
  (xeo x' <> EOIdle -> pc (th (base x') 0) = MRdSearch \/ pc (th (base x') 0) = MClear) ->
  (forall c j, hlp c -> In (CStart j) (qu (base x') c) ->
     (exists j', In (CStart j') (qu (base x) c)) \/ (forall p, Wr tr p -> relq (tr ++ B) (MQ c) p)) ->
  (forall c, hlp c -> (job (th (base x') c) <> (-1)%Z \/ fwdstart (pc (th (base x') c)) = true) ->
     (job (th (base x) c) <> (-1)%Z \/ fwdstart (pc (th (base x) c)) = true) \/
     (forall p, Wr tr p -> seenby (tr ++ B) c p)) ->
  (forall c pp, hlp c -> parent c = Some pp -> 1 <= acks c (qu (base x') pp) ->
     1 <= acks c (qu (base x) pp) \/ (forall p, RdSub tr c p -> relq (tr ++ B) (MQ pp) p)) ->
  (forall c pp, hlp c -> parent c = Some pp -> ackdone (base x') pp c ->
     ackdone (base x) pp c \/ (forall p, RdSub tr c p -> seenby (tr ++ B) pp p)) ->
  (master_idle (base x') ->
     master_idle (base x) \/ (forall c p, hlp c -> Rd tr c p -> seenby (tr ++ B) 0 p)) ->
  (search (base x') = false ->
     search (base x) = false \/ (forall c p, hlp c -> Rd tr c p -> relq (tr ++ B) ME p)) ->
  HR x' (tr ++ B).
Proof.
  intros x tr x' B c0 H NW HR0 RT Heo Ha2 Ha3 Hb1 Hb2 Hb3 Hb4.
  assert (WO : forall p, Wr (tr ++ B) p -> Wr tr p) by (intros p; apply Wr_app_old; auto).
  (* a read position of helper d in the new trace is an old one, or d = c0 reads now *)
  assert (RO : forall d p, hlp d -> Rd (tr ++ B) d p ->
            Rd tr d p \/ (length tr <= p /\ d = c0 /\ CondRead x' tr c0)).
  { intros d p Hd R. destruct (HR0 d Hd) as [Hn|(E & Hs)].
    - left. eapply Rd_app_old; eauto.
    - destruct (Nat.lt_ge_cases p (length tr)) as [L|L].
      + left. destruct R as (e & He & Ht & Hs'). rewrite nth_app_l in He by auto. exists e; auto.
      + right. split; auto. }
  assert (ROS : forall c p, hlp c -> RdSub (tr ++ B) c p ->
            RdSub tr c p \/ (below c c0 /\ CondRead x' tr c0)).
  { intros c p Hc (d & Bd & Rd'). pose proof (below_hlp N parent c d Hc Bd) as Hd.
    destruct (RO d p Hd Rd') as [Ro|(_ & -> & Cr)].
    - left. exists d; auto.
    - right; auto. }
  constructor.
  - exact Heo.
  - intros p e He Hw. destruct (app_case _ _ _ _ He) as [(L & Q)|(k & -> & Q)].
    + eapply (r_wt _ _ H); eauto.
    + rewrite (NW k e Q) in Hw. discriminate.
  - intros p e He Hs Hh. destruct (app_case _ _ _ _ He) as [(L & Q)|(k & -> & Q)].
    + eapply (r_rt _ _ H); eauto.
    + eapply RT; eauto.
  - intros c j Hc Hin p Hp. apply WO in Hp. destruct (Ha2 c j Hc Hin) as [(j' & Hj)|Hn]; auto.
    apply relq_app. eapply (r_a2 _ _ H); eauto.
  - intros c Hc Hj p Hp. apply WO in Hp. destruct (Ha3 c Hc Hj) as [Hj'|Hn]; auto.
    apply seenby_app. eapply (r_a3 _ _ H); eauto.
  - intros p q c Hpq Hp Hc Hq. apply WO in Hp.
    destruct (RO c q Hc Hq) as [Hq'|(L & -> & Hs & _)].
    + apply hb_app. eapply (r_A _ _ H); eauto.
    + destruct Hq as (e & He & Ht & _).
      destruct (app_case _ _ _ _ He) as [(L' & Q)|(k & -> & Q)]; [lia|].
      eapply seenby_po; eauto.
  - intros c pp Hc Hpp Hk p Hp.
    destruct (ROS c p Hc Hp) as [Hp'|(Bc & _ & Z & _)]; [|destruct (Z c pp Hc Hpp Bc); lia].
    destruct (Hb1 c pp Hc Hpp Hk) as [Hk'|Hn]; auto. apply relq_app. eapply (r_b1 _ _ H); eauto.
  - intros c pp Hc Hpp Hd p Hp.
    destruct (ROS c p Hc Hp) as [Hp'|(Bc & _ & Z & _)]; [|destruct (Z c pp Hc Hpp Bc); tauto].
    destruct (Hb2 c pp Hc Hpp Hd) as [Hd'|Hn]; auto. apply seenby_app. eapply (r_b2 _ _ H); eauto.
  - intros Hi c p Hc Hp. destruct (RO c p Hc Hp) as [Hp'|(_ & _ & _ & _ & Z & _)]; [|tauto].
    destruct (Hb3 Hi) as [Hi'|Hn]; eauto. apply seenby_app. eapply (r_b3 _ _ H); eauto.
  - intros Hs c p Hc Hp. destruct (RO c p Hc Hp) as [Hp'|(_ & _ & _ & _ & _ & Z)]; [|congruence].
    destruct (Hb4 Hs) as [Hs'|Hn]; eauto. apply relq_app. eapply (r_b4 _ _ H); eauto.
  - intros p q c Hpq Hc Hp Hq. apply WO in Hq. pose proof (Wr_lt _ _ Hq).
    assert (Hp' : Rd tr c p).
    { destruct Hp as (e & He & Ht & Hs). rewrite nth_app_l in He by lia. exists e; auto. }
    apply hb_app. eapply (r_B _ _ H); eauto.
Qed.

(** appending a block with writes (setOptions applies options / go bumps the table generation):
    the engine thread is idle, so no helper holds or is about to get a job *)
Lemma HR_write : forall x tr x' B, HR x tr -> Inv N parent (base x) -> master_idle (base x) ->
  th (base x') = th (base x) -> qu (base x') = qu (base x) ->
  (forall k e, nth_error B k = Some e -> sel opt_or_tt e = true -> ~ hlp (ev_tid e)) ->
  (forall k e, nth_error B k = Some e -> wopt e = true -> ev_tid e = 0 \/ ev_tid e = U) ->
  (forall c p k e, hlp c -> Rd tr c p -> nth_error B k = Some e -> wopt e = true ->
     hb (tr ++ B) p (length tr + k)) ->
  (xeo x' <> EOIdle -> pc (th (base x') 0) = MRdSearch \/ pc (th (base x') 0) = MClear) ->
  (search (base x') = false -> search (base x) = false) ->
  HR x' (tr ++ B).
Proof.
  intros x tr x' B H IV Hi Eth Equ NH WT HB Heo Hs.
  pose proof (no_stale_search_inv N parent Htree (base x) IV Hi) as NS.
  assert (RO : forall c p, hlp c -> Rd (tr ++ B) c p -> Rd tr c p).
  { intros c p Hc R. eapply Rd_app_old; eauto. intros k e Hk Ht.
    destruct (sel opt_or_tt e) eqn:E; auto. exfalso. apply (NH k e Hk E). now rewrite Ht. }
  assert (ROS : forall c p, hlp c -> RdSub (tr ++ B) c p -> RdSub tr c p).
  { intros c p Hc (d & Bd & R). exists d. split; auto. apply RO; auto. eapply below_hlp; eauto. }
  constructor.
  - exact Heo.
  - intros p e He Hw. destruct (app_case _ _ _ _ He) as [(L & Q)|(k & -> & Q)].
    + eapply (r_wt _ _ H); eauto.
    + eapply WT; eauto.
  - intros p e He Hse Hh. destruct (app_case _ _ _ _ He) as [(L & Q)|(k & -> & Q)].
    + eapply (r_rt _ _ H); eauto.
    + exfalso. eapply NH; eauto.
  - intros c j Hc Hin. exfalso. rewrite Equ in Hin.
    destruct (NS c Hc) as (_ & _ & _ & Q & _). destruct (Q _ Hin) as [X|(f & X)]; discriminate.
  - intros c Hc Hj. exfalso. rewrite Eth in Hj. destruct (NS c Hc) as (J & _ & _ & _ & _ & _ & F & _).
    destruct Hj as [Hj|Hj]; [congruence|].
    destruct (pc (th (base x) c)) eqn:Hpc; try discriminate. destruct w; try discriminate.
    specialize (F _ _ _ eq_refl). discriminate.
  - intros p q c Hpq Hp Hc Hq. apply RO in Hq; auto. pose proof (Rd_lt _ _ _ Hq).
    assert (Hp' : Wr tr p).
    { destruct Hp as (e & He & Hw). rewrite nth_app_l in He by lia. exists e; auto. }
    apply hb_app. eapply (r_A _ _ H); eauto.
  - intros c pp Hc Hpp Hk p Hp. apply ROS in Hp; auto. rewrite Equ in Hk.
    apply relq_app. eapply (r_b1 _ _ H); eauto.
  - intros c pp Hc Hpp Hd p Hp. apply ROS in Hp; auto. unfold ackdone in Hd. rewrite Eth, Equ in Hd.
    apply seenby_app. eapply (r_b2 _ _ H); eauto.
  - intros _ c p Hc Hp. apply RO in Hp; auto. apply seenby_app. eapply (r_b3 _ _ H); eauto.
  - intros S0 c p Hc Hp. apply RO in Hp; auto. apply relq_app. eapply (r_b4 _ _ H); eauto.
  - intros p q c Hpq Hc Hp (e & He & Hw). apply RO in Hp; auto.
    destruct (app_case _ _ _ _ He) as [(L & Q)|(k & -> & Q)].
    + apply hb_app. eapply (r_B _ _ H); eauto. exists e; auto.
    + eapply HB; eauto.
Qed.

(** ---- the blocks of the transitions ---- *)
Lemma U_not_hlp : ~ hlp U.
Proof. unfold WorkersInv.helper, uci. lia. Qed.

Lemma push_tid : forall t m k e, nth_error (push_events t m) k = Some e ->
  ev_tid e = t /\ sel opt_or_tt e = false /\ wopt e = false.
Proof. intros t m k e H. unfold push_events in H. enum_nth H; auto. Qed.

Lemma act_block : forall s t a k e, nth_error (act_events parent s t a) k = Some e ->
  ev_tid e = t /\ wopt e = false /\
  (sel opt_or_tt e = true -> is_wr e = false /\
     (t = 0 \/ a = ARdSearch \/ a = ABest \/ (a = APollEmpty /\ reads_now s t = true))).
Proof.
  intros s t a k e H. destruct a; simpl in H;
    try solve [enum_nth H; repeat split; auto; simpl; try discriminate; auto];
    try solve [apply push_tid in H; destruct H as (? & E & ?); repeat split; auto; try congruence; intros X; rewrite E in X; discriminate];
    try solve [destruct k; discriminate].
  - (* APollEmpty *)
    unfold reads_now. destruct t as [|t].
    + simpl in H. enum_nth H; repeat split; auto; simpl; try discriminate; auto.
    + destruct (pc (th s (S t))) eqn:Hpc; simpl in H;
        try solve [enum_nth H; repeat split; auto; simpl; try discriminate; auto].
      match type of Hpc with _ = PPoll ?kk => destruct kk end; simpl in H; try solve [enum_nth H; repeat split; auto; simpl; try discriminate; auto].
      destruct (negb (qa (th s (S t)) =? 0)%Z && negb (job (th s (S t)) =? -1)%Z) eqn:Hc; simpl in H;
        enum_nth H; try (injection H as <-); repeat split; auto; simpl; try discriminate; auto.
  - (* AFinish *)
    destruct (hasres (th s t)); [destruct k; discriminate|].
    destruct (parent t); [|destruct k; discriminate].
    apply push_tid in H; destruct H as (? & E & ?); repeat split; auto; try congruence; try (intros X; rewrite E in X; discriminate).
  - (* ARdSearch *)
    destruct (search s); simpl in H; enum_nth H; repeat split; auto; simpl; try discriminate; auto.
Qed.

Lemma env_block : forall e k ev, (forall p, e <> EGo p) -> nth_error (env_events N true e) k = Some ev ->
  ev_tid ev = U /\ wopt ev = false /\ sel opt_or_tt ev = false.
Proof.
  intros e k ev Hne H. destruct e; try (exfalso; eapply Hne; eauto; fail); simpl in H;
    unfold notify_events in H; enum_nth H; auto.
Qed.

Lemma go_block : forall p, env_events N true (EGo p) =
  [Acc U LPonder true Relaxed; Acq U ME; Acc U LSearch false Atomic; Rel U ME;
   Acq U ME; Acc U LFin false Plain; Rel U ME;
   Acc U LOpt false Plain; Acc U LTT true Plain;
   Acq U ME; Acc U LParams true Plain; Acc U LSearch true Atomic; Rel U ME].
Proof. intros p. simpl. unfold go_waits. rewrite orb_true_r. reflexivity. Qed.

(** ---- facts about the control LTS ---- *)
Lemma not_busy_idle : forall pcv, mbusy pcv = false -> mphase pcv = Some PhIdle.
Proof.
  intros pcv H. destruct pcv; cbn in *; try discriminate; auto.
  - destruct k; cbn in *; try discriminate; auto.
  - destruct k; cbn in *; try discriminate; auto.
  - destruct w; cbn in *; try discriminate; auto. destruct k; cbn in *; try discriminate; auto.
Qed.

Lemma nosearch_idle : forall s, InvL N s -> search s = false -> master_idle s.
Proof.
  intros s L Hs. apply not_busy_idle. destruct (mbusy (pc (th s 0))) eqn:E; auto.
  pose proof (l_busy _ _ L E). congruence.
Qed.

Lemma master_step_pc : forall s a s', lstep s (LT 0 a) = Some s' ->
  (pc (th s 0) = MRdSearch -> a = ARdSearch) /\ (pc (th s 0) = MClear -> a = AClear).
Proof.
  intros s a s' H. simpl in H. unfold step_m in H.
  split; intros E; rewrite E in H; destruct a; try discriminate; auto.
Qed.

Lemma xreach_reach : forall x tr, xreach x tr -> reach N parent (base x).
Proof.
  induction 1 as [|x tr xl x' R IH Hst]; [apply reach_init|].
  destruct xl as [lb| | | |].
  - destruct (xstep_XL N parent _ _ _ Hst) as (s' & Hl & -> & _). simpl. eapply reach_step; eauto.
  - unfold Access.xstep in Hst. destruct (epc (base x)); try discriminate.
    destruct (quitf (base x)); try discriminate. injection Hst as <-. simpl.
    apply (reach_step N parent (base x) (LE ESpur)); auto.
  - unfold Access.xstep in Hst. destruct (xeo x); try discriminate.
    destruct (xpend x); injection Hst as <-; simpl; auto.
  - unfold Access.xstep in Hst. destruct (xeo x); try discriminate. injection Hst as <-; simpl; auto.
  - unfold Access.xstep in Hst. destruct (xfin x); try discriminate. injection Hst as <-; auto.
Qed.

(** every write is visible to the busy engine thread *)
Lemma busy_sees_writes : forall x tr, HI x tr -> HR x tr -> mbusy (pc (th (base x) 0)) = true ->
  forall p, Wr tr p -> seenby tr 0 p.
Proof.
  intros x tr HIv H Hb p (e & He & Hw).
  destruct (r_wt _ _ H p e He Hw) as [T|T].
  - eapply seenby_own; eauto.
  - destruct (h_busy _ _ _ HIv Hb) as (q0 & e0 & H0 & T0 & HH).
    exists q0, e0. split; auto. split; auto. right. apply (HH p e He). split; auto.
    destruct e; simpl in *; try discriminate. destruct w; try discriminate. destruct l; auto; discriminate.
Qed.

(** a helper that is about to read holds a current job: no communicator above it holds or has
    taken an acknowledgement of the current round from its branch *)
Lemma reader_facts : forall s d, Inv N parent s -> hlp d -> reads_now s d = true ->
  job (th s d) <> (-1)%Z /\
  (forall c pp, hlp c -> parent c = Some pp -> below c d ->
     acks c (qu s pp) = 0 /\ ~ ackdone s pp c) /\
  ~ master_idle s /\ search s = true.
Proof.
  intros s d (I & J & L) Hd Hr. unfold reads_now in Hr.
  destruct (pc (th s d)) eqn:Hpc; try discriminate. destruct k; try discriminate.
  apply andb_prop in Hr. destruct Hr as (_ & Hj). apply negb_true_iff, Z.eqb_neq in Hj.
  destruct (j_j1 _ _ J d Hd Hj) as ([S1|S1] & _); [|rewrite Hpc in S1; discriminate].
  destruct (e_phase _ _ _ I) as (ph & E1 & E2).
  assert (NI : ~ master_idle s).
  { intros Hi. destruct (no_stale_search_inv N parent Htree s (conj I (conj J L)) Hi d Hd) as (X & _).
    congruence. }
  split; auto. split; [|split; auto].
  - intros c pp Hc Hpp Bc.
    destruct (e_g2 _ _ _ I c Hc) as (G1 & G2 & G3).
    destruct (e_g1 _ _ _ I c (helper_le _ _ Hc)) as (_ & G4).
    pose proof (inv_child_le N parent s c pp I Hc Hpp) as CL.
    destruct (parent_le N parent Htree c pp Hc Hpp) as (HppN & _).
    destruct (e_g1 _ _ _ I pp HppN) as (_ & G5).
    assert (G6 : ae (th s 0) <= ae (th s pp)).
    { destruct pp as [|p']; auto. apply (e_g2 _ _ _ I (S p')). unfold WorkersInv.helper in *; lia. }
    split.
    + destruct (acks c (qu s pp)) eqn:Ea; auto. exfalso.
      pose proof (e_w3 _ _ _ I c pp Hc Hpp ltac:(lia)) as W3.
      destruct ph; simpl in E2; try lia.
      assert (Ac : ae (th s c) = se (th s c)) by lia.
      destruct (sub_settled N parent s c I Hc Ac d Bc). lia.
    + intros (R1 & R2 & R3).
      assert (Ac : ae (th s c) = se (th s c)) by lia.
      destruct (sub_settled N parent s c I Hc Ac d Bc).
      destruct ph; simpl in E2; lia.
  - destruct (search s) eqn:Es; auto. exfalso. apply NI. apply nosearch_idle; auto.
Qed.

Lemma Wr_nil : forall p, ~ Wr [] p.
Proof. intros p (e & He & _). destruct p; discriminate. Qed.
Lemma Rd_nil : forall c p, ~ Rd [] c p.
Proof. intros c p (e & He & _). destruct p; discriminate. Qed.

Lemma RdSub_nil : forall c p, ~ RdSub [] c p.
Proof. intros c p (d & _ & X). eapply Rd_nil; eauto. Qed.

Lemma HR_init : HR xinit [].
Proof.
  constructor; simpl.
  - intros X; congruence.
  - intros p e A; destruct p; discriminate.
  - intros p e A; destruct p; discriminate.
  - intros c j _ [].
  - intros c _ _ p X. exfalso. eapply Wr_nil; eauto.
  - intros p q c _ X. exfalso. eapply Wr_nil; eauto.
  - intros c pp _ _ _ p X. exfalso. eapply RdSub_nil; eauto.
  - intros c pp _ _ _ p X. exfalso. eapply RdSub_nil; eauto.
  - intros _ c p _ X. exfalso. eapply Rd_nil; eauto.
  - intros _ c p _ X. exfalso. eapply Rd_nil; eauto.
  - intros p q c _ _ X. exfalso. eapply Rd_nil; eauto.
Qed.

(** a step that changes neither a thread's local state nor a mailbox nor [search] *)
Lemma HR_same : forall x tr x' B, HR x tr ->
  th (base x') = th (base x) -> qu (base x') = qu (base x) -> search (base x') = search (base x) ->
  (forall k e, nth_error B k = Some e -> wopt e = false /\ (sel opt_or_tt e = true -> ~ hlp (ev_tid e))) ->
  (xeo x' <> EOIdle -> pc (th (base x') 0) = MRdSearch \/ pc (th (base x') 0) = MClear) ->
  HR x' (tr ++ B).
Proof.
  intros x tr x' B H Eth Equ Es HB Heo.
  apply (HR_mono x tr x' B 0 H); auto.
  - intros k e A. now destruct (HB k e A).
  - intros c Hc. left. intros k e A T. destruct (HB k e A) as (_ & X).
    destruct (sel opt_or_tt e); auto. exfalso. apply X; auto. now rewrite T.
  - intros k e A S1 Hh. exfalso. destruct (HB k e A) as (_ & X). now apply X.
  - intros c j Hc Hin. left. exists j. now rewrite Equ in Hin.
  - intros c Hc Hj. left. now rewrite Eth in Hj.
  - intros c pp Hc Hpp Hk. left. now rewrite Equ in Hk.
  - intros c pp Hc Hpp Hd. left. unfold ackdone in *. rewrite Eth, Equ in *. auto.
  - intros Hi. left. unfold master_idle in *. now rewrite Eth in Hi.
  - intros S0. left. congruence.
Qed.

(** ---- a thread transition ---- *)
Lemma read_step : forall s t s', lstep s (LT (S t) APollEmpty) = Some s' -> reads_now s (S t) = true ->
  s' = set_th s (S t) (set_pc (th s (S t)) (PPoll (KSearch (job (th s (S t)))))).
Proof.
  intros s t s' H R. unfold reads_now in R.
  destruct (pc (th s (S t))) eqn:Hpc; try discriminate. destruct k; try discriminate.
  apply andb_prop in R. destruct R as (R1 & R2).
  unfold Workers.lstep, step in H. destruct (Nat.leb (S t) N); [|discriminate].
  destruct (parent (S t)); [|discriminate]. unfold step_h in H. rewrite Hpc in H.
  destruct (qu s (S t)); [|discriminate H].
  apply negb_true_iff in R1. rewrite R1 in H. rewrite R2 in H. now injection H as <-.
Qed.

Lemma rdquit_pc : forall s s', lstep s (LT 0 ARdQuit) = Some s' -> quitf s = false -> pc (th s' 0) = MRdSearch.
Proof. intros s s' H Q. step_inv_fine H; crunch; congruence. Qed.
Lemma finalnotify_pc : forall s s', lstep s (LT 0 ANotifySelf) = Some s' -> pc (th s 0) = MFinalNotify ->
  pc (th s' 0) = MClear.
Proof. intros s s' H Q. step_inv_fine H; crunch; congruence. Qed.
Lemma clear_pc : forall s s', lstep s (LT 0 AClear) = Some s' -> pc (th s 0) = MClear.
Proof. intros s s' H. step_inv_fine H; auto. Qed.
Lemma pop_block : forall s t, act_events parent s t APop =
  [Acq t (MQ t); Acc t (LQueue t) false Plain; Acc t (LQueue t) true Plain; Rel t (MQ t)].
Proof. reflexivity. Qed.

Lemma HR_thread : forall x tr t a s', xreach x tr -> HR x tr ->
  lstep (base x) (LT t a) = Some s' ->
  ((LT t a = LT 0 ARdSearch \/ LT t a = LT 0 AClear) -> xeo x = EOIdle) ->
  HR (mkX s' (xpend x) (xfin x) (eo_next x (LT t a))) (tr ++ act_events parent (base x) t a).
Proof.
  intros x tr t a s' XR H Hl Hidle.
  pose proof (xreach_HI N parent x tr XR) as HIv.
  pose proof (reach_inv N parent Htree _ (xreach_reach x tr XR)) as IV.
  destruct IV as (I & J & L).
  pose proof (lstep_tid N parent _ _ _ _ Hl) as HtN.
  set (s := base x) in *. set (B := act_events parent s t a).
  assert (BT : forall k e, nth_error B k = Some e -> ev_tid e = t /\ wopt e = false).
  { intros k e A. destruct (act_block s t a k e A) as (? & ? & _). auto. }
  (* the engine thread's part of the state, and the new setOptions status *)
  assert (Heo : eo_next x (LT t a) <> EOIdle -> pc (th s' 0) = MRdSearch \/ pc (th s' 0) = MClear).
  { intros E.
    assert (Keep : eo_next x (LT t a) = xeo x -> pc (th s' 0) = MRdSearch \/ pc (th s' 0) = MClear).
    { intros E'. rewrite E' in E. pose proof (r_eo _ _ H E) as P.
      destruct t as [|t].
      - exfalso. destruct (master_step_pc _ _ _ Hl) as (M1 & M2).
        destruct P as [P|P]; [rewrite (M1 P) in *|rewrite (M2 P) in *];
          rewrite Hidle in E; auto.
      - assert (E0 : th s' 0 = th s 0).
        { apply (other_frame N parent s (LT (S t) a) s' 0 Hl). intros a' X. discriminate. }
        rewrite E0. exact P. }
    unfold eo_next in *. destruct t as [|t]; auto. destruct a; auto.
    - destruct (pc (th (base x) 0)) eqn:Hp; auto. right. apply (finalnotify_pc _ _ Hl Hp).
    - destruct (quitf (base x)) eqn:Hq; auto. left. apply (rdquit_pc _ _ Hl Hq). }
  destruct (match a with APollEmpty => negb (Nat.eqb t 0) && reads_now s t | _ => false end) eqn:Erd.
  - (* a helper enters doSearch and reads *)
    destruct a; try discriminate. apply andb_prop in Erd. destruct Erd as (Et & Er).
    apply negb_true_iff, Nat.eqb_neq in Et. destruct t as [|t]; [congruence|].
    assert (Hc : hlp (S t)) by (unfold WorkersInv.helper; lia).
    pose proof (read_step _ _ _ Hl Er) as Es'.
    destruct (reader_facts s (S t) (conj I (conj J L)) Hc Er) as (Rj & Ra & Ri & Rse).
    assert (Eq : qu s' = qu s) by (rewrite Es'; reflexivity).
    assert (Esr : search s' = search s) by (rewrite Es'; reflexivity).
    assert (Eth : forall c, job (th s' c) = job (th s c) /\ ae (th s' c) = ae (th s c) /\
                            se (th s' c) = se (th s c) /\ (c <> S t -> th s' c = th s c)).
    { intros c. rewrite Es'. simpl. unfold upd. destruct (Nat.eqb_spec c (S t)) as [->|]; simpl; auto.
      repeat split; auto. congruence. }
    assert (E0 : th s' 0 = th s 0) by (apply (Eth 0); discriminate).
    assert (Ead : forall pp c, ackdone s' pp c -> ackdone s pp c).
    { intros pp c (D1 & D2 & D3). unfold ackdone. rewrite Eq in D3.
      destruct (Eth pp) as (_ & A1 & S1 & _). destruct (Eth c) as (_ & A2 & _).
      rewrite A1, S1 in D1. rewrite A2, S1 in D2. auto. }
    apply (HR_mono x tr _ B (S t) H); cbn [base xeo]; auto.
    + intros k e A. now destruct (BT k e A).
    + intros c Hc'. destruct (Nat.eq_dec c (S t)) as [->|Hne].
      * right. split; auto. split; [apply (r_a3 _ _ H (S t) Hc (or_introl Rj))|].
        split; [|split].
        -- intros c pp Hc1 Hpp Bc. cbn [base]. destruct (Ra c pp Hc1 Hpp Bc) as (K & D).
           split; [rewrite Eq; exact K | intros X; apply D; apply Ead; exact X].
        -- cbn [base]. unfold master_idle in *. now rewrite E0.
        -- cbn [base]. congruence.
      * left. intros k e A T. destruct (BT k e A) as (T' & _). congruence.
    + intros k e A Ss _. destruct (act_block s (S t) APollEmpty k e A) as (_ & _ & X). now destruct (X Ss).
    + intros c j _ Hin. left. exists j. now rewrite Eq in Hin.
    + intros c _ Hj. left. destruct (Eth c) as (Jc & _ & _ & Oc). rewrite Jc in Hj.
      destruct Hj as [Hj|Hj]; auto. destruct (Nat.eq_dec c (S t)) as [->|Hne]; [left; exact Rj|].
      right. now rewrite (Oc Hne) in Hj.
    + intros c pp _ _ Hk. left. now rewrite Eq in Hk.
    + intros Hi. left. unfold master_idle in *. now rewrite E0 in Hi.
    + intros S0. left. congruence.
  - (* every other transition: no helper access to the options / table *)
    assert (NRall : forall c, hlp c -> NR B c).
    { intros c Hc k e A T. destruct (act_block s t a k e A) as (T' & _ & X).
      destruct (sel opt_or_tt e) eqn:Ss; auto. exfalso.
      assert (c <> 0) by (unfold WorkersInv.helper in Hc; lia).
      destruct (X eq_refl) as (_ & [Z|[Z|[Z|(Z1 & Z2)]]]).
      - congruence.
      - subst a. pose proof (lstep_master_only N parent _ _ _ _ Hl (or_introl eq_refl)). congruence.
      - subst a. pose proof (lstep_master_only N parent _ _ _ _ Hl (or_intror (or_introl eq_refl))). congruence.
      - subst a. rewrite Z2 in Erd. assert (Nat.eqb t 0 = false) by (apply Nat.eqb_neq; congruence).
        rewrite H1 in Erd. discriminate. }
    apply (HR_mono x tr _ B 0 H); cbn [base xeo]; auto.
    + intros k e A. now destruct (BT k e A).
    + intros k e A Ss Hh. exfalso. destruct (BT k e A) as (T & _).
      rewrite T in Hh. rewrite (NRall t Hh k e A T) in Ss. discriminate.
    + (* START_SEARCH pushed by the parent, which has seen all writes *)
      intros c j Hc Hin. destruct (Htree c Hc) as (pp & Hpp & _).
      destruct (start_queue_frame N parent Htree s (LT t a) s' c pp j I Hc Hpp Hl Hin) as [X|(X & Hf)].
      * left. eauto.
      * right. injection X as -> ->. intros p Hp.
        apply (relq_make tr B pp (MQ c) p 5); [|reflexivity].
        destruct pp as [|p'].
        -- apply (busy_sees_writes x tr HIv H); auto. fold s.
           destruct (pc (th s 0)); try discriminate. destruct w; try discriminate. reflexivity.
        -- apply (r_a3 _ _ H (S p')); auto. unfold WorkersInv.helper; lia.
    + (* START_SEARCH taken by the helper *)
      intros c Hc Hj.
      destruct (job_frame N parent s (LT t a) s' c I Hc Hl Hj) as [X|(X & j & r & Hq)].
      * left; auto.
      * right. injection X as -> ->. intros p Hp.
        apply (relq_seen tr B (MQ c) p 0 c); [|reflexivity].
        apply (r_a2 _ _ H c j Hc); auto. fold s. rewrite Hq. left; auto.
    + (* STOP_ACK pushed by the helper: it has seen the reads of its whole sub-tree *)
      intros c pp Hc Hpp Hk.
      destruct (ack_frame N parent s (LT t a) s' c pp I Hc Hpp Hl Hk) as [X|(X & Hsa)].
      * left; auto.
      * right. injection X as -> ->. intros p (d & Bd & Rd').
        apply (relq_make tr B c (MQ pp) p 5); [|reflexivity].
        destruct (below_top N parent c d Bd) as [->|(h & Hh & Hhp & Bh)].
        -- destruct Rd' as (e & He & Te & _). eapply seenby_own; eauto.
        -- destruct (e_a2 _ _ _ I c Hc Hsa) as (_ & W & R).
           destruct (child_settled N parent s c h I (helper_le _ _ Hc) W Hh Hhp) as (A1 & _ & K1).
           apply (r_b2 _ _ H h c Hh Hhp); [|exists d; auto].
           unfold ackdone. fold s. auto.
    + (* STOP_ACK taken by the parent *)
      intros c pp Hc Hpp Hd.
      destruct (acked_frame N parent Htree s (LT t a) s' c pp I Hc Hpp Hl Hd) as [X|(X & r & Hq)].
      * left; auto.
      * right. injection X as -> ->. intros p Hp.
        apply (relq_seen tr B (MQ pp) p 0 pp); [|reflexivity].
        apply (r_b1 _ _ H c pp Hc Hpp); auto. fold s. rewrite Hq, acks_cons. simpl. rewrite Nat.eqb_refl. lia.
    + (* the barrier *)
      intros Hi. destruct (idle_frame N parent s (LT t a) s' I Hl Hi) as [X|(X & Hp & Hs & Hq)].
      * left; auto.
      * right. intros d p Hd Hr. apply seenby_app.
        unfold hasStopAck in Hs. apply andb_prop in Hs. destruct Hs as (Hw & _). apply Z.eqb_eq in Hw.
        destruct (below_root_child N parent Htree d d (le_n _) Hd) as (c & Hc & Hc0 & Bc).
        destruct (child_settled N parent s 0 c I (Nat.le_0_l _) Hw Hc Hc0) as (A1 & _ & K1).
        apply (r_b2 _ _ H c 0 Hc Hc0); [|exists d; auto].
        unfold ackdone. fold s. split; auto.
        destruct (e_phase _ _ _ I) as (ph & E1 & E2). rewrite Hp in E1. injection E1 as <-.
        simpl in E2. lia.
    + (* search := false *)
      intros S0. destruct (lstep_search N parent _ _ _ Hl) as [X|[(p' & X & _)|(X & _)]].
      * left. fold s. rewrite <- X. exact S0.
      * discriminate.
      * right. injection X as -> ->. intros c p Hc Hr.
        apply (relq_make tr B 0 ME p 2); [|reflexivity].
        assert (Hi : master_idle (base x)) by (unfold master_idle; fold s; now rewrite (clear_pc _ _ Hl)).
        apply (r_b3 _ _ H Hi c p Hc Hr).
Qed.

(** ---- go: the UCI thread bumps the table generation ---- *)
Lemma HR_go : forall x tr p s', xreach x tr -> HR x tr ->
  lstep (base x) (LE (EGo p)) = Some s' ->
  HR (mkX s' (xpend x) (xfin x) (xeo x)) (tr ++ env_events N true (EGo p)).
Proof.
  intros x tr p s' XR H Hl.
  pose proof (reach_inv N parent Htree _ (xreach_reach x tr XR)) as IV.
  destruct IV as (I & J & L).
  assert (Es' : search (base x) = false /\ s' = set_epc (set_ponder (set_search (base x) true) p) ENotifyGo).
  { simpl in Hl. destruct (epc (base x)); try discriminate.
    destruct (search (base x) || quitf (base x)) eqn:O; try discriminate.
    apply orb_false_iff in O. destruct O. injection Hl as <-. auto. }
  destruct Es' as (S0 & ->).
  pose proof (nosearch_idle _ L S0) as Hi.
  set (B := env_events N true (EGo p)). pose proof (go_block p) as HB. fold B in HB.
  apply (HR_write x tr _ B H (conj I (conj J L)) Hi); cbn [base xeo]; auto.
  - intros k e A _ Hh. rewrite HB in A. enum_nth A; simpl in Hh; apply U_not_hlp; auto.
  - intros k e A _. right. rewrite HB in A. enum_nth A; reflexivity.
  - intros c q k e Hc Hr A W.
    assert (k = 8) by (rewrite HB in A; enum_nth A; simpl in W; try discriminate; reflexivity). subst k.
    pose proof (r_b4 _ _ H S0 c q Hc Hr) as R.
    eapply t_trans; [apply (relq_acq tr B ME q 1 U R); rewrite HB; reflexivity|].
    apply (hb_po (tr ++ B) (length tr + 1) (length tr + 8) (Acq U ME) e); [lia| | |].
    + rewrite nth_app_r, HB. reflexivity.
    + now rewrite nth_app_r.
    + rewrite HB in A. simpl in A. injection A as <-. reflexivity.
  - apply (r_eo _ _ H).
Qed.

Lemma HR_step : forall x tr xl x', xreach x tr -> HR x tr -> xstep x xl = Some x' ->
  HR x' (tr ++ xevents x xl).
Proof.
  intros x tr xl x' XR H Hst.
  destruct xl as [lb| | | |].
  - destruct (xstep_XL N parent _ _ _ Hst) as (s' & Hl & -> & Hgo & Hidle).
    change (xevents x (XL lb)) with (label_events N parent true (base x) lb).
    destruct lb as [t a|e].
    + apply (HR_thread x tr t a s' XR H Hl Hidle).
    + destruct (eact_is_go e) as [(p & ->)|Hng].
      * apply (HR_go x tr p s' XR H Hl).
      * assert (F : th s' = th (base x) /\ qu s' = qu (base x) /\ search s' = search (base x)).
        { simpl in Hl. destruct e; try (exfalso; eapply Hng; eauto; fail); simpl in Hl.
          - destruct (epc (base x)); try discriminate; injection Hl as <-; auto.
          - injection Hl as <-; auto.
          - injection Hl as <-; auto.
          - destruct (epc (base x)); try discriminate.
            destruct (search (base x) || quitf (base x)); try discriminate. injection Hl as <-; auto. }
        destruct F as (F1 & F2 & F3).
        apply (HR_same x tr); cbn [base xeo]; auto.
        -- intros k ev A. destruct (env_block e k ev Hng A) as (T & W & Ss). split; auto.
           rewrite Ss. discriminate.
        -- simpl. rewrite F1. apply (r_eo _ _ H).
  - (* setoption *)
    unfold Access.xstep in Hst. destruct (epc (base x)); try discriminate.
    destruct (quitf (base x)); try discriminate. injection Hst as <-.
    apply (HR_same x tr); cbn [base xeo]; auto.
    + intros k e A. simpl in A. unfold notify_events in A. enum_nth A; split; auto; discriminate.
    + apply (r_eo _ _ H).
  - (* setOptions: take *)
    unfold Access.xstep in Hst. destruct (xeo x) eqn:Eo; try discriminate.
    assert (P : pc (th (base x) 0) = MRdSearch \/ pc (th (base x) 0) = MClear).
    { apply (r_eo _ _ H). congruence. }
    destruct (xpend x) eqn:Ep; injection Hst as <-; apply (HR_same x tr); cbn [base xeo]; auto.
    all: intros k e A; simpl in A; rewrite Ep in A; enum_nth A; split; auto; discriminate.
  - (* setOptions: apply *)
    unfold Access.xstep in Hst. destruct (xeo x) eqn:Eo; try discriminate. injection Hst as <-.
    pose proof (reach_inv N parent Htree _ (xreach_reach x tr XR)) as IV.
    assert (P : pc (th (base x) 0) = MRdSearch \/ pc (th (base x) 0) = MClear).
    { apply (r_eo _ _ H). congruence. }
    assert (Hi : master_idle (base x)) by (unfold master_idle; destruct P as [-> | ->]; reflexivity).
    apply (HR_write x tr _ _ H IV Hi); cbn [base xeo]; auto.
    + intros k e A _ Hh. simpl in A. enum_nth A; simpl in Hh; unfold WorkersInv.helper in Hh; lia.
    + intros k e A _. left. simpl in A. enum_nth A; reflexivity.
    + intros c q k e Hc Hr A W. apply (seenby_po tr _ 0 q k e); auto.
      * apply (r_b3 _ _ H Hi c q Hc Hr).
      * simpl in A. enum_nth A; reflexivity.
  - (* waitOptionsSet *)
    unfold Access.xstep in Hst. destruct (xfin x); try discriminate. injection Hst as <-.
    apply (HR_same x tr); auto.
    + intros k e A. simpl in A. enum_nth A; split; auto; discriminate.
    + apply (r_eo _ _ H).
Qed.

Lemma xreach_HR : forall x tr, xreach x tr -> HR x tr.
Proof. induction 1; [apply HR_init | eapply HR_step; eauto]. Qed.

(** ---- the theorems ---- *)

(** every write of the option values / table geometry and every helper access to them are
    ordered by happens-before, in whichever order they occur *)
Theorem helper_reads_ordered : forall ls tr i j a b,
  trace_of N parent true xinit ls = Some tr ->
  i < j -> at_ tr i = Some a -> at_ tr j = Some b -> conflictb a b = true ->
  sel opt_or_tt a = true -> (hlp (ev_tid a) \/ hlp (ev_tid b)) -> hb tr i j.
Proof.
  intros ls tr i j a b Htr Hij Ha Hb Hc Hs Hh. unfold trace_of in Htr.
  destruct (xrun N parent true xinit ls) as [[xf tr']|] eqn:E; [|discriminate]. injection Htr as <-.
  pose proof (xrun_xreach N parent ls xinit [] xf tr' (xr0 N parent) E) as R. simpl in R.
  pose proof (xreach_HR _ _ R) as H. unfold at_ in *.
  pose proof (conflict_sel _ _ _ Hc Hs) as Sb.
  destruct (conflictb_inv a b Hc) as (t1 & l & w1 & k1 & t2 & w2 & k2 & -> & -> & Hne & _).
  assert (Hw : w1 || w2 = true).
  { simpl in Hc. repeat (apply andb_prop in Hc; destruct Hc as [Hc ?]). auto. }
  simpl in Hs, Hh.
  assert (Both : ~ (hlp t1 /\ hlp t2)).
  { intros (H1 & H2).
    pose proof (r_rt _ _ H i _ Ha Hs H1) as X1. pose proof (r_rt _ _ H j _ Hb Sb H2) as X2.
    simpl in X1, X2. subst. discriminate. }
  destruct Hh as [H1|H2].
  - (* helper access first: it is a read, so the later one is a write *)
    pose proof (r_rt _ _ H i _ Ha Hs H1) as X1. simpl in X1. subst w1. simpl in Hw. subst w2.
    apply (r_B _ _ H i j t1 Hij H1).
    + eexists; eauto.
    + eexists; split; eauto.
  - pose proof (r_rt _ _ H j _ Hb Sb H2) as X2. simpl in X2. subst w2.
    rewrite orb_false_r in Hw. subst w1.
    apply (r_A _ _ H i j t2 Hij); auto.
    + eexists; split; eauto.
    + eexists; eauto.
Qed.

(** every event belongs to the engine thread, a helper or the UCI thread *)
Lemma xreach_tids : forall x tr, xreach x tr -> forall p e, nth_error tr p = Some e -> ev_tid e <= S N.
Proof.
  induction 1 as [|x tr xl x' R IH Hst]; intros p e A; [destruct p; discriminate|].
  destruct (app_case _ _ _ _ A) as [(L & Q)|(k & -> & Q)]; [eapply IH; eauto|].
  destruct xl as [lb| | | |].
  - destruct (xstep_XL N parent _ _ _ Hst) as (s' & Hl & _).
    change (xevents x (XL lb)) with (label_events N parent true (base x) lb) in Q.
    destruct lb as [t a|ev].
    + pose proof (lstep_tid N parent _ _ _ _ Hl). simpl in Q.
      destruct (act_block _ _ _ _ _ Q) as (T & _). lia.
    + simpl in Q. destruct (eact_is_go ev) as [(p0 & ->)|Hng].
      * rewrite go_block in Q. enum_nth Q; simpl; unfold uci; lia.
      * destruct (env_block ev k e Hng Q) as (T & _). rewrite T. unfold uci; lia.
  - simpl in Q. unfold notify_events in Q. enum_nth Q; simpl; unfold uci; lia.
  - simpl in Q. destruct (xpend x); enum_nth Q; simpl; lia.
  - simpl in Q. enum_nth Q; simpl; lia.
  - simpl in Q. enum_nth Q; simpl; unfold uci; lia.
Qed.

(** the model has no data race on any modelled location, for any number of helper threads, any
    communicator tree and any schedule *)
Theorem model_drf : forall ls tr,
  trace_of N parent true xinit ls = Some tr -> ~ race tr.
Proof.
  intros ls tr Htr (i & j & a & b & Hij & Ha & Hb & Hc & _ & Hn).
  destruct (model_drf_partial N parent ls tr i j a b Htr Hij Ha Hb Hc Hn) as (Hs & Hh).
  apply Hn. apply (helper_reads_ordered ls tr i j a b Htr Hij Ha Hb Hc Hs).
  assert (TI : forall p e, nth_error tr p = Some e -> ev_tid e <= S N).
  { unfold trace_of in Htr.
    destruct (xrun N parent true xinit ls) as [[xf tr']|] eqn:E; [|discriminate]. injection Htr as <-.
    pose proof (xrun_xreach N parent ls xinit [] xf tr' (xr0 N parent) E) as R. simpl in R.
    apply (xreach_tids _ _ R). }
  unfold at_ in *. pose proof (TI _ _ Ha). pose proof (TI _ _ Hb).
  unfold WorkersInv.helper, uci in *. destruct Hh as [(X1 & X2)|(X1 & X2)]; [left|right]; lia.
Qed.

End R.
