(** C09 — the helper threads' reads of the option values and of the table geometry / generation
    are ordered, by happens-before, against every write of these objects (engine thread:
    setOptions; UCI thread: go), for every schedule of the model with a single-level
    communicator tree (every helper is a child of the engine thread) and any number of helpers.
    Together with AccessProofs / HandshakeProofs: no data race on any modelled location. *)
From Coq Require Import ZArith List Bool Arith Lia Relations.
From Texel Require Import Workers.Workers Workers.WorkersLemmas Workers.WorkersInv Workers.WorkersInvProofs
  Workers.WorkersTac Workers.WorkersJob Workers.WorkersWake Workers.WorkersWakeProofs Workers.WorkersTheorems
  Workers.Race Workers.RaceProofs Workers.Access Workers.AccessProofs Workers.HandshakeProofs
  Workers.HelperReads Workers.HelperReadFrames.
Import ListNotations.

Ltac enum_nth H :=
  repeat (match type of H with nth_error _ ?k = Some _ => destruct k; simpl in H end;
          try discriminate; try (injection H as <-)).

Section R.
Variable N : nat.
Variable parent : tid -> option tid.
Hypothesis Hflat : forall c, helper N c -> parent c = Some 0.
Notation U := (uci N).
Notation hlp := (helper N).
Notation lstep := (lstep N parent).
Notation xstep := (xstep N parent true).
Notation xevents := (xevents N parent true).
Notation xreach := (xreach N parent).
Notation HI := (HI N).

Definition StopP (s : state) : Prop := mphase (pc (th s 0)) = Some PhStop.

Record HR (x : xstate) (tr : list tev) : Prop := {
  r_eo : xeo x <> EOIdle -> pc (th (base x) 0) = MRdSearch \/ pc (th (base x) 0) = MClear;
  r_wt : forall p e, nth_error tr p = Some e -> wopt e = true -> ev_tid e = 0 \/ ev_tid e = U;
  r_rt : forall p e, nth_error tr p = Some e -> sel opt_or_tt e = true -> hlp (ev_tid e) -> is_wr e = false;
  (* writes travel down with START_SEARCH *)
  r_a2 : forall c j, hlp c -> In (CStart j) (qu (base x) c) -> forall p, Wr tr p -> relq tr (MQ c) p;
  r_a3 : forall c, hlp c -> job (th (base x) c) <> (-1)%Z -> forall p, Wr tr p -> seenby tr c p;
  r_A : forall p q c, p < q -> Wr tr p -> hlp c -> Rd tr c q -> hb tr p q;
  (* reads travel up with STOP_ACK *)
  r_b1 : forall c, hlp c -> 1 <= acks c (qu (base x) 0) -> forall p, Rd tr c p -> relq tr (MQ 0) p;
  r_b2 : forall c, hlp c -> StopP (base x) -> ae (th (base x) c) = se (th (base x) 0) ->
           acks c (qu (base x) 0) = 0 -> forall p, Rd tr c p -> seenby tr 0 p;
  r_b3 : master_idle (base x) -> forall c p, hlp c -> Rd tr c p -> seenby tr 0 p;
  r_b4 : search (base x) = false -> forall c p, hlp c -> Rd tr c p -> relq tr ME p;
  r_B : forall p q c, p < q -> hlp c -> Rd tr c p -> Wr tr q -> hb tr p q
}.

(** no access of helper c to the options / table in block B *)
Definition NR (B : list tev) (c : tid) : Prop :=
  forall k e, nth_error B k = Some e -> ev_tid e = c -> sel opt_or_tt e = false.

(** appending a block without writes; helper [c0] may read in it provided it has seen all writes
    and none of the "c0 is done reading" conditions holds afterwards.  Each of the knowledge
    fields is either inherited (its condition held before) or established by the block *)
Lemma HR_mono : forall x tr x' B c0, HR x tr ->
  (forall k e, nth_error B k = Some e -> wopt e = false) ->
  (forall c, hlp c -> NR B c \/
     (c = c0 /\ (forall p, Wr tr p -> seenby tr c0 p) /\
      acks c0 (qu (base x') 0) = 0 /\
      ~ (StopP (base x') /\ ae (th (base x') c0) = se (th (base x') 0)) /\
      ~ master_idle (base x') /\ search (base x') = true)) ->
  (forall k e, nth_error B k = Some e -> sel opt_or_tt e = true -> hlp (ev_tid e) -> is_wr e = false) ->
  (xeo x' <> EOIdle -> pc (th (base x') 0) = MRdSearch \/ pc (th (base x') 0) = MClear) ->
  (forall c j, hlp c -> In (CStart j) (qu (base x') c) ->
     (exists j', In (CStart j') (qu (base x) c)) \/ (forall p, Wr tr p -> relq (tr ++ B) (MQ c) p)) ->
  (forall c, hlp c -> job (th (base x') c) <> (-1)%Z ->
     job (th (base x) c) <> (-1)%Z \/ (forall p, Wr tr p -> seenby (tr ++ B) c p)) ->
  (forall c, hlp c -> 1 <= acks c (qu (base x') 0) ->
     1 <= acks c (qu (base x) 0) \/ (forall p, Rd tr c p -> relq (tr ++ B) (MQ 0) p)) ->
  (forall c, hlp c -> StopP (base x') -> ae (th (base x') c) = se (th (base x') 0) ->
     acks c (qu (base x') 0) = 0 ->
     (StopP (base x) /\ ae (th (base x) c) = se (th (base x) 0) /\ acks c (qu (base x) 0) = 0) \/
     (forall p, Rd tr c p -> seenby (tr ++ B) 0 p)) ->
  (master_idle (base x') ->
     master_idle (base x) \/ (forall c p, hlp c -> Rd tr c p -> seenby (tr ++ B) 0 p)) ->
  (search (base x') = false ->
     search (base x) = false \/ (forall c p, hlp c -> Rd tr c p -> relq (tr ++ B) ME p)) ->
  HR x' (tr ++ B).
Proof.
  intros x tr x' B c0 H NW HR0 RT Heo Ha2 Ha3 Hb1 Hb2 Hb3 Hb4.
  assert (WO : forall p, Wr (tr ++ B) p -> Wr tr p) by (intros p; apply Wr_app_old; auto).
  (* a read position of helper c in the new trace is an old one, or c = c0 reads now *)
  assert (RO : forall c p, hlp c -> Rd (tr ++ B) c p ->
            Rd tr c p \/ (length tr <= p /\ c = c0 /\ (forall p, Wr tr p -> seenby tr c0 p) /\
                          acks c0 (qu (base x') 0) = 0 /\
                          ~ (StopP (base x') /\ ae (th (base x') c0) = se (th (base x') 0)) /\
                          ~ master_idle (base x') /\ search (base x') = true)).
  { intros c p Hc R. destruct (HR0 c Hc) as [Hn|(E & Hs)].
    - left. eapply Rd_app_old; eauto.
    - destruct (Nat.lt_ge_cases p (length tr)) as [L|L].
      + left. destruct R as (e & He & Ht & Hs'). rewrite nth_app_l in He by auto. exists e; auto.
      + right. split; auto. }
  constructor.
  - exact Heo.
  - intros p e He Hw. destruct (app_case _ _ _ _ He) as [(L & Q)|(k & -> & Q)].
    + eapply (r_wt _ _ H); eauto.
    + rewrite (NW k e Q) in Hw. discriminate.
  - intros p e He Hs Hh. destruct (app_case _ _ _ _ He) as [(L & Q)|(k & -> & Q)].
    + eapply (r_rt _ _ H); eauto.
    + eapply RT; eauto.
  - intros c j Hc Hin p Hp. apply WO in Hp. destruct (Ha2 c j Hc Hin) as [(j' & Hj)|Hn]; auto.
    apply relq_app. eapply (r_a2 _ _ H); eauto.
  - intros c Hc Hj p Hp. apply WO in Hp. destruct (Ha3 c Hc Hj) as [Hj'|Hn]; auto.
    apply seenby_app. eapply (r_a3 _ _ H); eauto.
  - intros p q c Hpq Hp Hc Hq. apply WO in Hp.
    destruct (RO c q Hc Hq) as [Hq'|(L & -> & Hs & _)].
    + apply hb_app. eapply (r_A _ _ H); eauto.
    + destruct Hq as (e & He & Ht & _).
      destruct (app_case _ _ _ _ He) as [(L' & Q)|(k & -> & Q)]; [lia|].
      eapply seenby_po; eauto.
  - intros c Hc Hk p Hp. destruct (RO c p Hc Hp) as [Hp'|(_ & -> & _ & Z & _)]; [|lia].
    destruct (Hb1 c Hc Hk) as [Hk'|Hn]; auto. apply relq_app. eapply (r_b1 _ _ H); eauto.
  - intros c Hc Hs Ha Hk p Hp. destruct (RO c p Hc Hp) as [Hp'|(_ & -> & _ & _ & Z & _)]; [|tauto].
    destruct (Hb2 c Hc Hs Ha Hk) as [(S0 & A0 & K0)|Hn]; auto.
    apply seenby_app. eapply (r_b2 _ _ H); eauto.
  - intros Hi c p Hc Hp. destruct (RO c p Hc Hp) as [Hp'|(_ & -> & _ & _ & _ & Z & _)]; [|tauto].
    destruct (Hb3 Hi) as [Hi'|Hn]; eauto. apply seenby_app. eapply (r_b3 _ _ H); eauto.
  - intros Hs c p Hc Hp. destruct (RO c p Hc Hp) as [Hp'|(_ & -> & _ & _ & _ & _ & Z)]; [|congruence].
    destruct (Hb4 Hs) as [Hs'|Hn]; eauto. apply relq_app. eapply (r_b4 _ _ H); eauto.
  - intros p q c Hpq Hc Hp Hq. apply WO in Hq. pose proof (Wr_lt _ _ Hq).
    assert (Hp' : Rd tr c p).
    { destruct Hp as (e & He & Ht & Hs). rewrite nth_app_l in He by lia. exists e; auto. }
    apply hb_app. eapply (r_B _ _ H); eauto.
Qed.

(** appending a block with writes (setOptions applies options / go bumps the table generation):
    the engine thread is idle, so no helper holds or is about to get a job *)
Lemma HR_write : forall x tr x' B, HR x tr -> Inv N parent (base x) -> master_idle (base x) ->
  th (base x') = th (base x) -> qu (base x') = qu (base x) ->
  (forall k e, nth_error B k = Some e -> sel opt_or_tt e = true -> ~ hlp (ev_tid e)) ->
  (forall k e, nth_error B k = Some e -> wopt e = true -> ev_tid e = 0 \/ ev_tid e = U) ->
  (forall c p k e, hlp c -> Rd tr c p -> nth_error B k = Some e -> wopt e = true ->
     hb (tr ++ B) p (length tr + k)) ->
  (xeo x' <> EOIdle -> pc (th (base x') 0) = MRdSearch \/ pc (th (base x') 0) = MClear) ->
  (search (base x') = false -> search (base x) = false) ->
  HR x' (tr ++ B).
Proof.
  intros x tr x' B H IV Hi Eth Equ NH WT HB Heo Hs.
  pose proof (no_stale_search_inv N parent (flat_tree N parent Hflat) (base x) IV Hi) as NS.
  assert (RO : forall c p, hlp c -> Rd (tr ++ B) c p -> Rd tr c p).
  { intros c p Hc R. eapply Rd_app_old; eauto. intros k e Hk Ht.
    destruct (sel opt_or_tt e) eqn:E; auto. exfalso. apply (NH k e Hk E). now rewrite Ht. }
  constructor.
  - exact Heo.
  - intros p e He Hw. destruct (app_case _ _ _ _ He) as [(L & Q)|(k & -> & Q)].
    + eapply (r_wt _ _ H); eauto.
    + eapply WT; eauto.
  - intros p e He Hse Hh. destruct (app_case _ _ _ _ He) as [(L & Q)|(k & -> & Q)].
    + eapply (r_rt _ _ H); eauto.
    + exfalso. eapply NH; eauto.
  - intros c j Hc Hin. exfalso. rewrite Equ in Hin.
    destruct (NS c Hc) as (_ & _ & _ & Q & _). destruct (Q _ Hin) as [X|(f & X)]; discriminate.
  - intros c Hc Hj. exfalso. rewrite Eth in Hj. destruct (NS c Hc) as (J & _). congruence.
  - intros p q c Hpq Hp Hc Hq. apply RO in Hq; auto. pose proof (Rd_lt _ _ _ Hq).
    assert (Hp' : Wr tr p).
    { destruct Hp as (e & He & Hw). rewrite nth_app_l in He by lia. exists e; auto. }
    apply hb_app. eapply (r_A _ _ H); eauto.
  - intros c Hc Hk p Hp. apply RO in Hp; auto. rewrite Equ in Hk.
    apply relq_app. eapply (r_b1 _ _ H); eauto.
  - intros c Hc Hst. exfalso. unfold StopP in Hst. rewrite Eth in Hst.
    unfold master_idle in Hi. congruence.
  - intros _ c p Hc Hp. apply RO in Hp; auto. apply seenby_app. eapply (r_b3 _ _ H); eauto.
  - intros S0 c p Hc Hp. apply RO in Hp; auto. apply relq_app. eapply (r_b4 _ _ H); eauto.
  - intros p q c Hpq Hc Hp (e & He & Hw). apply RO in Hp; auto.
    destruct (app_case _ _ _ _ He) as [(L & Q)|(k & -> & Q)].
    + apply hb_app. eapply (r_B _ _ H); eauto. exists e; auto.
    + eapply HB; eauto.
Qed.

(** ---- the blocks of the transitions ---- *)
Lemma U_not_hlp : ~ hlp U.
Proof. unfold WorkersInv.helper, uci. lia. Qed.

Lemma push_tid : forall t m k e, nth_error (push_events t m) k = Some e ->
  ev_tid e = t /\ sel opt_or_tt e = false /\ wopt e = false.
Proof. intros t m k e H. unfold push_events in H. enum_nth H; auto. Qed.

Lemma act_block : forall s t a k e, nth_error (act_events parent s t a) k = Some e ->
  ev_tid e = t /\ wopt e = false /\
  (sel opt_or_tt e = true -> is_wr e = false /\
     (t = 0 \/ a = ARdSearch \/ a = ABest \/ (a = APollEmpty /\ reads_now s t = true))).
Proof.
  intros s t a k e H. destruct a; simpl in H;
    try solve [enum_nth H; repeat split; auto; simpl; try discriminate; auto];
    try solve [apply push_tid in H; destruct H as (? & E & ?); repeat split; auto; try congruence; intros X; rewrite E in X; discriminate];
    try solve [destruct k; discriminate].
  - (* APollEmpty *)
    unfold reads_now. destruct t as [|t].
    + simpl in H. enum_nth H; repeat split; auto; simpl; try discriminate; auto.
    + destruct (pc (th s (S t))) eqn:Hpc; simpl in H;
        try solve [enum_nth H; repeat split; auto; simpl; try discriminate; auto].
      match type of Hpc with _ = PPoll ?kk => destruct kk end; simpl in H; try solve [enum_nth H; repeat split; auto; simpl; try discriminate; auto].
      destruct (negb (qa (th s (S t)) =? 0)%Z && negb (job (th s (S t)) =? -1)%Z) eqn:Hc; simpl in H;
        enum_nth H; try (injection H as <-); repeat split; auto; simpl; try discriminate; auto.
  - (* AFinish *)
    destruct (hasres (th s t)); [destruct k; discriminate|].
    destruct (parent t); [|destruct k; discriminate].
    apply push_tid in H; destruct H as (? & E & ?); repeat split; auto; try congruence; try (intros X; rewrite E in X; discriminate).
  - (* ARdSearch *)
    destruct (search s); simpl in H; enum_nth H; repeat split; auto; simpl; try discriminate; auto.
Qed.

Lemma env_block : forall e k ev, (forall p, e <> EGo p) -> nth_error (env_events N true e) k = Some ev ->
  ev_tid ev = U /\ wopt ev = false /\ sel opt_or_tt ev = false.
Proof.
  intros e k ev Hne H. destruct e; try (exfalso; eapply Hne; eauto; fail); simpl in H;
    unfold notify_events in H; enum_nth H; auto.
Qed.

Lemma go_block : forall p, env_events N true (EGo p) =
  [Acc U LPonder true Relaxed; Acq U ME; Acc U LSearch false Atomic; Rel U ME;
   Acq U ME; Acc U LFin false Plain; Rel U ME;
   Acc U LOpt false Plain; Acc U LTT true Plain;
   Acq U ME; Acc U LParams true Plain; Acc U LSearch true Atomic; Rel U ME].
Proof. intros p. simpl. unfold go_waits. rewrite orb_true_r. reflexivity. Qed.

(** ---- facts about the control LTS ---- *)
Lemma not_busy_idle : forall pcv, mbusy pcv = false -> mphase pcv = Some PhIdle.
Proof.
  intros pcv H. destruct pcv; cbn in *; try discriminate; auto.
  - destruct k; cbn in *; try discriminate; auto.
  - destruct k; cbn in *; try discriminate; auto.
  - destruct w; cbn in *; try discriminate; auto. destruct k; cbn in *; try discriminate; auto.
Qed.

Lemma nosearch_idle : forall s, InvL N s -> search s = false -> master_idle s.
Proof.
  intros s L Hs. apply not_busy_idle. destruct (mbusy (pc (th s 0))) eqn:E; auto.
  pose proof (l_busy _ _ L E). congruence.
Qed.

Lemma master_step_pc : forall s a s', lstep s (LT 0 a) = Some s' ->
  (pc (th s 0) = MRdSearch -> a = ARdSearch) /\ (pc (th s 0) = MClear -> a = AClear).
Proof.
  intros s a s' H. simpl in H. unfold step_m in H.
  split; intros E; rewrite E in H; destruct a; try discriminate; auto.
Qed.

Lemma xreach_reach : forall x tr, xreach x tr -> reach N parent (base x).
Proof.
  induction 1 as [|x tr xl x' R IH Hst]; [apply reach_init|].
  destruct xl as [lb| | | |].
  - destruct (xstep_XL N parent _ _ _ Hst) as (s' & Hl & -> & _). simpl. eapply reach_step; eauto.
  - unfold Access.xstep in Hst. destruct (epc (base x)); try discriminate.
    destruct (quitf (base x)); try discriminate. injection Hst as <-. simpl.
    apply (reach_step N parent (base x) (LE ESpur)); auto.
  - unfold Access.xstep in Hst. destruct (xeo x); try discriminate.
    destruct (xpend x); injection Hst as <-; simpl; auto.
  - unfold Access.xstep in Hst. destruct (xeo x); try discriminate. injection Hst as <-; simpl; auto.
  - unfold Access.xstep in Hst. destruct (xfin x); try discriminate. injection Hst as <-; auto.
Qed.

(** every write is visible to the busy engine thread *)
Lemma busy_sees_writes : forall x tr, HI x tr -> HR x tr -> mbusy (pc (th (base x) 0)) = true ->
  forall p, Wr tr p -> seenby tr 0 p.
Proof.
  intros x tr HIv H Hb p (e & He & Hw).
  destruct (r_wt _ _ H p e He Hw) as [T|T].
  - eapply seenby_own; eauto.
  - destruct (h_busy _ _ _ HIv Hb) as (q0 & e0 & H0 & T0 & HH).
    exists q0, e0. split; auto. split; auto. right. apply (HH p e He). split; auto.
    destruct e; simpl in *; try discriminate. destruct w; try discriminate. destruct l; auto; discriminate.
Qed.

(** a helper that is about to read holds a current job *)
Lemma reader_facts : forall s c, Inv N parent s -> hlp c -> reads_now s c = true ->
  job (th s c) <> (-1)%Z /\ acks c (qu s 0) = 0 /\
  ~ (StopP s /\ ae (th s c) = se (th s 0)) /\ ~ master_idle s /\ search s = true.
Proof.
  intros s c (I & J & L) Hc Hr. unfold reads_now in Hr.
  destruct (pc (th s c)) eqn:Hpc; try discriminate. destruct k; try discriminate.
  apply andb_prop in Hr. destruct Hr as (_ & Hj). apply negb_true_iff, Z.eqb_neq in Hj.
  destruct (j_j1 _ _ J c Hc Hj) as ([S1|S1] & _); [|rewrite Hpc in S1; discriminate].
  destruct (e_g2 _ _ _ I c Hc) as (G1 & G2 & G3).
  destruct (e_phase _ _ _ I) as (ph & E1 & E2).
  assert (NI : ~ master_idle s).
  { intros Hi. destruct (no_stale_search_inv N parent (flat_tree N parent Hflat) s (conj I (conj J L)) Hi c Hc) as (X & _).
    congruence. }
  split; auto. split; [|split; [|split; auto]].
  - destruct (acks c (qu s 0)) eqn:Ea; auto. exfalso.
    pose proof (e_w3 _ _ _ I c 0 Hc (Hflat c Hc) ltac:(lia)) as W3.
    destruct ph; simpl in E2; lia.
  - intros (Hs & Ha). unfold StopP in Hs. rewrite Hs in E1. injection E1 as <-. simpl in E2. lia.
  - destruct (search s) eqn:Es; auto. exfalso. apply NI. apply nosearch_idle; auto.
Qed.

(** ---- the invariant is inductive ---- *)
Lemma Wr_nil : forall p, ~ Wr [] p.
Proof. intros p (e & He & _). destruct p; discriminate. Qed.
Lemma Rd_nil : forall c p, ~ Rd [] c p.
Proof. intros c p (e & He & _). destruct p; discriminate. Qed.

Lemma HR_init : HR xinit [].
Proof.
  constructor; simpl.
  - intros X; congruence.
  - intros p e A; destruct p; discriminate.
  - intros p e A; destruct p; discriminate.
  - intros c j _ [].
  - intros c _ _ p X. exfalso. eapply Wr_nil; eauto.
  - intros p q c _ X. exfalso. eapply Wr_nil; eauto.
  - intros c _ _ p X. exfalso. eapply Rd_nil; eauto.
  - intros c _ _ _ _ p X. exfalso. eapply Rd_nil; eauto.
  - intros _ c p _ X. exfalso. eapply Rd_nil; eauto.
  - intros _ c p _ X. exfalso. eapply Rd_nil; eauto.
  - intros p q c _ _ X. exfalso. eapply Rd_nil; eauto.
Qed.

(** a step that changes neither a thread's local state nor a mailbox nor [search] *)
Lemma HR_same : forall x tr x' B, HR x tr ->
  th (base x') = th (base x) -> qu (base x') = qu (base x) -> search (base x') = search (base x) ->
  (forall k e, nth_error B k = Some e -> wopt e = false /\ (sel opt_or_tt e = true -> ~ hlp (ev_tid e))) ->
  (xeo x' <> EOIdle -> pc (th (base x') 0) = MRdSearch \/ pc (th (base x') 0) = MClear) ->
  HR x' (tr ++ B).
Proof.
  intros x tr x' B H Eth Equ Es HB Heo.
  apply (HR_mono x tr x' B 0 H); auto.
  - intros k e A. now destruct (HB k e A).
  - intros c Hc. left. intros k e A T. destruct (HB k e A) as (_ & X).
    destruct (sel opt_or_tt e); auto. exfalso. apply X; auto. now rewrite T.
  - intros k e A S1 Hh. exfalso. destruct (HB k e A) as (_ & X). now apply X.
  - intros c j Hc Hin. left. exists j. now rewrite Equ in Hin.
  - intros c Hc Hj. left. now rewrite Eth in Hj.
  - intros c Hc Hk. left. now rewrite Equ in Hk.
  - intros c Hc Hs Ha Hk. left. unfold StopP in *. rewrite Eth, Equ in *. auto.
  - intros Hi. left. unfold master_idle in *. now rewrite Eth in Hi.
  - intros S0. left. congruence.
Qed.

End R.
