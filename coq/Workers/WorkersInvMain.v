(** C10 — [InvE] is an inductive invariant of the transition system. *)
From Coq Require Import ZArith List Bool Arith Lia.
From Texel Require Import Workers.Workers Workers.WorkersLemmas Workers.WorkersInv Workers.WorkersInvProofs.
Import ListNotations.

Section P.
Variable N : nat.
Variable parent : tid -> option tid.
Hypothesis Htree : tree_ok N parent.
Notation InvE := (InvE N parent).
Notation lstep := (lstep N parent).

Lemma count_none : forall (l : list tid), length (filter (fun _ => false) l) = 0.
Proof. induction l; simpl; auto. Qed.

Ltac dmatch :=
  repeat match goal with
  | |- context [match ?x with _ => _ end] => destruct x
  | H : context [match ?x with _ => _ end] |- _ => destruct x
  end.

Lemma InvE_init : InvE init.
Proof.
  constructor; unfold init; cbn [th qu flag sid nbest search]; intros.
  - exists PhIdle. simpl. auto.
  - dmatch; cbn; lia.
  - dmatch; cbn; lia.
  - dmatch; cbn; lia.
  - dmatch; cbn; auto.
  - dmatch; cbn in *; discriminate.
  - unfold WorkersInv.npending, pendingb. cbn [th qu].
    rewrite (count_ext _ (fun _ => false)); [rewrite count_none; dmatch; reflexivity|].
    intros x _. dmatch; reflexivity.
  - dmatch; cbn; lia.
  - unfold acks in *; simpl in *; lia.
  - dmatch; cbn in *; discriminate.
  - simpl in *; tauto.
  - dmatch; cbn; auto.
  - simpl; auto.
  - simpl in *; tauto.
  - dmatch; cbn in *; discriminate.
Qed.

Theorem InvE_step : forall s lb s', InvE s -> lstep s lb = Some s' -> InvE s'.
Proof.
  intros s lb s' I H. constructor.
  - first [eapply (step_phase N parent Htree); eauto | eapply (step_phase N parent); eauto].
  - first [eapply (step_g1 N parent Htree); eauto | eapply (step_g1 N parent); eauto].
  - first [eapply (step_g2 N parent Htree); eauto | eapply (step_g2 N parent); eauto].
  - first [eapply (step_s1 N parent Htree); eauto | eapply (step_s1 N parent); eauto].
  - first [eapply (step_a1 N parent Htree); eauto | eapply (step_a1 N parent); eauto].
  - first [eapply (step_a2 N parent Htree); eauto | eapply (step_a2 N parent); eauto].
  - first [eapply (step_w1 N parent Htree); eauto | eapply (step_w1 N parent); eauto].
  - first [eapply (step_w2 N parent Htree); eauto | eapply (step_w2 N parent); eauto].
  - first [eapply (step_w3 N parent Htree); eauto | eapply (step_w3 N parent); eauto].
  - first [eapply (step_fwd N parent Htree); eauto | eapply (step_fwd N parent); eauto].
  - first [eapply (step_snd N parent Htree); eauto | eapply (step_snd N parent); eauto].
  - first [eapply (step_pcs N parent Htree); eauto | eapply (step_pcs N parent); eauto].
  - first [eapply (step_sc N parent Htree); eauto | eapply (step_sc N parent); eauto].
  - first [eapply (step_j2 N parent Htree); eauto | eapply (step_j2 N parent); eauto].
  - first [eapply (step_j3 N parent Htree); eauto | eapply (step_j3 N parent); eauto].
Qed.


End P.
