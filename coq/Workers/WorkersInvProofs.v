(** C10 — the epoch invariant [InvE] holds initially and is preserved by every transition. *)
From Coq Require Import ZArith List Bool Arith Lia.
From Texel Require Import Workers.Workers Workers.WorkersLemmas Workers.WorkersInv.
Import ListNotations.

Ltac eqb_cases :=
  repeat match goal with
  | |- context [Nat.eqb ?a ?b] => destruct (Nat.eqb_spec a b); try subst; try congruence
  | H : context [Nat.eqb ?a ?b] |- _ => destruct (Nat.eqb_spec a b); try subst; try congruence
  end.

Ltac crunch := ssimpl; unfold upd in *; eqb_cases; ssimpl.

Ltac phase_facts I :=
  let ph := fresh "ph" in let E1 := fresh "Eph" in let E2 := fresh "Eeq" in
  destruct (e_phase _ _ _ I) as (ph & E1 & E2);
  match goal with Hpc : pc (th _ 0) = _ |- _ => rewrite Hpc in E1 end; simpl in E1;
  try discriminate; injection E1 as <-; simpl in E2.
Ltac bar_facts :=
  match goal with Hb : (wc _ =? 0)%Z && negb (self _) = true |- _ =>
    let Hw := fresh "Hw" in let Hs := fresh "Hs" in
    apply andb_prop in Hb; destruct Hb as [Hw Hs]; apply Z.eqb_eq in Hw; apply negb_true_iff in Hs end.


Section P.
Variable N : nat.
Variable parent : tid -> option tid.
Hypothesis Htree : tree_ok N parent.
Notation InvE := (InvE N parent).
Notation lstep := (lstep N parent).
Notation children := (children N parent).
Notation helper := (helper N).
Notation npending := (npending N parent).

(** ---- derived facts ---- *)
Lemma helper_le : forall c, helper c -> c <= N.
Proof. unfold helper; lia. Qed.
Lemma helper_S : forall t, S t <= N -> helper (S t).
Proof. unfold helper; lia. Qed.
Lemma helper_leb : forall t, Nat.leb (S t) N = true -> helper (S t).
Proof. intros t H; apply Nat.leb_le in H; unfold helper; lia. Qed.

Lemma inv_se0 : forall s, InvE s -> se (th s 0) <= S (ae (th s 0)) /\ ae (th s 0) <= se (th s 0) /\
                                     sid s <= S (ae (th s 0)) /\ ae (th s 0) <= sid s.
Proof.
  intros s I. destruct (e_phase _ _ _ I) as (ph & _ & E). destruct ph; simpl in E; lia.
Qed.

Lemma inv_child_le : forall s c p, InvE s -> helper c -> parent c = Some p ->
  se (th s c) <= se (th s p).
Proof. intros s c p I Hc Hp. pose proof (e_s1 _ _ _ I c p Hc Hp). lia. Qed.

Lemma parent_le : forall c p, helper c -> parent c = Some p -> p <= N /\ p < c.
Proof.
  intros c p Hc Hp. destruct (Htree c Hc) as (p' & E & L). rewrite Hp in E; injection E as <-.
  unfold helper in Hc; lia.
Qed.

Lemma child_settled : forall s p c, InvE s -> p <= N -> wc (th s p) = 0%Z ->
  helper c -> parent c = Some p ->
  ae (th s c) = se (th s p) /\ se (th s c) = se (th s p) /\ acks c (qu s p) = 0.
Proof.
  intros s p c I Hp Hwc Hc Hpar.
  pose proof (e_w1 _ _ _ I p Hp) as W1. rewrite Hwc in W1.
  assert (Z0 : npending s p = 0) by lia.
  unfold WorkersInv.npending in Z0.
  pose proof (count_zero _ _ Z0 c) as Hz.
  assert (Hin : In c (children p)) by (apply in_children; auto).
  specialize (Hz Hin). unfold pendingb in Hz. apply Nat.ltb_ge in Hz.
  destruct (e_g2 _ _ _ I c Hc) as (_ & G2 & _).
  pose proof (inv_child_le s c p I Hc Hpar). lia.
Qed.

Lemma barrier_all : forall s, InvE s -> wc (th s 0) = 0%Z ->
  forall n c, c <= n -> helper c -> ae (th s c) = se (th s 0) /\ se (th s c) = se (th s 0).
Proof.
  intros s I Hwc. induction n as [|n IH]; intros c Hcn Hc.
  - unfold helper in Hc; lia.
  - destruct (Htree c Hc) as (p & Hp & Lt).
    destruct p as [|p'].
    + destruct (child_settled s 0 c I (Nat.le_0_l _) Hwc Hc Hp) as (A & B & _). auto.
    + assert (Hph : helper (S p')) by (unfold helper in *; lia).
      destruct (IH (S p') ltac:(lia) Hph) as (A & B).
      destruct (e_a1 _ _ _ I (S p') Hph ltac:(lia)) as (_ & W & _).
      destruct (child_settled s (S p') c I (helper_le _ Hph) W Hc Hp) as (A' & B' & _). lia.
Qed.

Lemma barrier_noacks : forall s, InvE s -> wc (th s 0) = 0%Z ->
  forall c p, helper c -> parent c = Some p -> acks c (qu s p) = 0.
Proof.
  intros s I Hwc c p Hc Hp.
  destruct (parent_le c p Hc Hp) as (HpN & _).
  destruct p as [|p'].
  - now destruct (child_settled s 0 c I HpN Hwc Hc Hp) as (_ & _ & A).
  - assert (Hph : helper (S p')) by (unfold helper in *; lia).
    destruct (barrier_all s I Hwc (S p') (S p') (le_n _) Hph) as (A & B).
    destruct (e_a1 _ _ _ I (S p') Hph ltac:(lia)) as (_ & W & _).
    now destruct (child_settled s (S p') c I HpN W Hc Hp) as (_ & _ & A').
Qed.

(** in a phase with se0 = ae0 every helper is at the same epoch *)
Lemma quiet_all : forall s, InvE s -> se (th s 0) = ae (th s 0) ->
  forall c, helper c -> ae (th s c) = se (th s 0) /\ se (th s c) = se (th s 0).
Proof.
  intros s I E c Hc.
  destruct (e_g1 _ _ _ I c (helper_le _ Hc)). destruct (e_g2 _ _ _ I c Hc) as (? & ? & ?). lia.
Qed.

Lemma stop_head_lag : forall s c p r, InvE s -> helper c -> parent c = Some p -> qu s c = CStop :: r ->
  se (th s c) = ae (th s 0) /\ se (th s p) = S (ae (th s 0)) /\ se (th s 0) = S (ae (th s 0)) /\
  stops r = 0 /\ owes (pc (th s p)) c = false.
Proof.
  intros s c p r I Hc Hp Hq.
  pose proof (e_s1 _ _ _ I c p Hc Hp) as S1. rewrite Hq, stops_cons in S1. simpl in S1.
  destruct (parent_le c p Hc Hp) as (HpN & _).
  destruct (e_g1 _ _ _ I p HpN). destruct (e_g1 _ _ _ I c (helper_le _ Hc)).
  destruct (inv_se0 s I) as (? & ? & ? & ?).
  destruct (owes (pc (th s p)) c); simpl in S1; repeat split; try lia; auto.
Qed.

Lemma step_g1 : forall s lb s', InvE s -> lstep s lb = Some s' ->
  forall t, t <= N -> ae (th s' 0) <= se (th s' t) /\ se (th s' t) <= se (th s' 0).
Proof.
  intros s lb s' I H t Ht.
  pose proof (e_g1 _ _ _ I t Ht) as G1.
  pose proof (e_g1 _ _ _ I) as G1a.
  step_inv_fine H; crunch; try lia.
  all: try match goal with
    | Hq : qu ?s0 (S ?c) = CStop :: _, Hp : parent (S ?c) = Some ?p, Hl : Nat.leb (S ?c) N = true |- _ =>
        destruct (stop_head_lag s0 (S c) p _ I (helper_leb _ Hl) Hp Hq) as (? & ? & ? & ? & ?); lia
    end.
  all: phase_facts I.
  all: bar_facts.
  - lia.
  - assert (helper t) by (unfold WorkersInv.helper; lia).
    destruct (barrier_all s I Hw t t (le_n _) H). lia.
Qed.

End P.
