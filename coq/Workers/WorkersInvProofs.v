(** C10 — the epoch invariant [InvE] is preserved by every transition (aggregates the parts). *)
From Texel Require Export Workers.WorkersInvFacts Workers.WorkersTac Workers.WorkersInvA Workers.WorkersInvB Workers.WorkersInvC.
