(** C10 — the epoch invariant [InvE] holds initially and is preserved by every transition. *)
From Coq Require Import ZArith List Bool Arith Lia.
From Texel Require Import Workers.Workers Workers.WorkersLemmas Workers.WorkersInv.
Import ListNotations.

Ltac eqb_cases :=
  repeat match goal with
  | |- context [Nat.eqb ?a ?b] => destruct (Nat.eqb_spec a b); try subst; try congruence
  | H : context [Nat.eqb ?a ?b] |- _ => destruct (Nat.eqb_spec a b); try subst; try congruence
  end.

Ltac crunch := ssimpl; unfold upd in *; eqb_cases; ssimpl.

Ltac phase_facts I :=
  let ph := fresh "ph" in let E1 := fresh "Eph" in let E2 := fresh "Eeq" in
  destruct (e_phase _ _ _ I) as (ph & E1 & E2);
  match goal with Hpc : pc (th _ 0) = _ |- _ => rewrite Hpc in E1 end; simpl in E1;
  try discriminate; injection E1 as <-; simpl in E2.
Ltac bar_facts :=
  match goal with Hb : (wc _ =? 0)%Z && negb (self _) = true |- _ =>
    let Hw := fresh "Hw" in let Hs := fresh "Hs" in
    apply andb_prop in Hb; destruct Hb as [Hw Hs]; apply Z.eqb_eq in Hw; apply negb_true_iff in Hs end.


Section P.
Variable N : nat.
Variable parent : tid -> option tid.
Hypothesis Htree : tree_ok N parent.
Notation InvE := (InvE N parent).
Notation lstep := (lstep N parent).
Notation children := (children N parent).
Notation helper := (helper N).
Notation npending := (npending N parent).

(** ---- derived facts ---- *)
Lemma helper_le : forall c, helper c -> c <= N.
Proof. unfold helper; lia. Qed.
Lemma helper_S : forall t, S t <= N -> helper (S t).
Proof. unfold helper; lia. Qed.
Lemma helper_leb : forall t, Nat.leb (S t) N = true -> helper (S t).
Proof. intros t H; apply Nat.leb_le in H; unfold helper; lia. Qed.

Lemma inv_se0 : forall s, InvE s -> se (th s 0) <= S (ae (th s 0)) /\ ae (th s 0) <= se (th s 0) /\
                                     sid s <= S (ae (th s 0)) /\ ae (th s 0) <= sid s.
Proof.
  intros s I. destruct (e_phase _ _ _ I) as (ph & _ & E). destruct ph; simpl in E; lia.
Qed.

Lemma inv_child_le : forall s c p, InvE s -> helper c -> parent c = Some p ->
  se (th s c) <= se (th s p).
Proof. intros s c p I Hc Hp. pose proof (e_s1 _ _ _ I c p Hc Hp). lia. Qed.

Lemma parent_le : forall c p, helper c -> parent c = Some p -> p <= N /\ p < c.
Proof.
  intros c p Hc Hp. destruct (Htree c Hc) as (p' & E & L). rewrite Hp in E; injection E as <-.
  unfold helper in Hc; lia.
Qed.

Lemma child_settled : forall s p c, InvE s -> p <= N -> wc (th s p) = 0%Z ->
  helper c -> parent c = Some p ->
  ae (th s c) = se (th s p) /\ se (th s c) = se (th s p) /\ acks c (qu s p) = 0.
Proof.
  intros s p c I Hp Hwc Hc Hpar.
  pose proof (e_w1 _ _ _ I p Hp) as W1. rewrite Hwc in W1.
  assert (Z0 : npending s p = 0) by lia.
  unfold WorkersInv.npending in Z0.
  pose proof (count_zero _ _ Z0 c) as Hz.
  assert (Hin : In c (children p)) by (apply in_children; auto).
  specialize (Hz Hin). unfold pendingb in Hz. apply Nat.ltb_ge in Hz.
  destruct (e_g2 _ _ _ I c Hc) as (_ & G2 & _).
  pose proof (inv_child_le s c p I Hc Hpar). lia.
Qed.

Lemma barrier_all : forall s, InvE s -> wc (th s 0) = 0%Z ->
  forall n c, c <= n -> helper c -> ae (th s c) = se (th s 0) /\ se (th s c) = se (th s 0).
Proof.
  intros s I Hwc. induction n as [|n IH]; intros c Hcn Hc.
  - unfold helper in Hc; lia.
  - destruct (Htree c Hc) as (p & Hp & Lt).
    destruct p as [|p'].
    + destruct (child_settled s 0 c I (Nat.le_0_l _) Hwc Hc Hp) as (A & B & _). auto.
    + assert (Hph : helper (S p')) by (unfold helper in *; lia).
      destruct (IH (S p') ltac:(lia) Hph) as (A & B).
      destruct (e_a1 _ _ _ I (S p') Hph ltac:(lia)) as (_ & W & _).
      destruct (child_settled s (S p') c I (helper_le _ Hph) W Hc Hp) as (A' & B' & _). lia.
Qed.

Lemma barrier_noacks : forall s, InvE s -> wc (th s 0) = 0%Z ->
  forall c p, helper c -> parent c = Some p -> acks c (qu s p) = 0.
Proof.
  intros s I Hwc c p Hc Hp.
  destruct (parent_le c p Hc Hp) as (HpN & _).
  destruct p as [|p'].
  - now destruct (child_settled s 0 c I HpN Hwc Hc Hp) as (_ & _ & A).
  - assert (Hph : helper (S p')) by (unfold helper in *; lia).
    destruct (barrier_all s I Hwc (S p') (S p') (le_n _) Hph) as (A & B).
    destruct (e_a1 _ _ _ I (S p') Hph ltac:(lia)) as (_ & W & _).
    now destruct (child_settled s (S p') c I HpN W Hc Hp) as (_ & _ & A').
Qed.

(** in a phase with se0 = ae0 every helper is at the same epoch *)
Lemma quiet_all : forall s, InvE s -> se (th s 0) = ae (th s 0) ->
  forall c, helper c -> ae (th s c) = se (th s 0) /\ se (th s c) = se (th s 0).
Proof.
  intros s I E c Hc.
  destruct (e_g1 _ _ _ I c (helper_le _ Hc)). destruct (e_g2 _ _ _ I c Hc) as (? & ? & ?). lia.
Qed.

Lemma stop_head_lag : forall s c p r, InvE s -> helper c -> parent c = Some p -> qu s c = CStop :: r ->
  se (th s c) = ae (th s 0) /\ se (th s p) = S (ae (th s 0)) /\ se (th s 0) = S (ae (th s 0)) /\
  stops r = 0 /\ owes (pc (th s p)) c = false.
Proof.
  intros s c p r I Hc Hp Hq.
  pose proof (e_s1 _ _ _ I c p Hc Hp) as S1. rewrite Hq, stops_cons in S1. simpl in S1.
  destruct (parent_le c p Hc Hp) as (HpN & _).
  destruct (e_g1 _ _ _ I p HpN). destruct (e_g1 _ _ _ I c (helper_le _ Hc)).
  destruct (inv_se0 s I) as (? & ? & ? & ?).
  destruct (owes (pc (th s p)) c); simpl in S1; repeat split; try lia; auto.
Qed.

Lemma step_g1 : forall s lb s', InvE s -> lstep s lb = Some s' ->
  forall t, t <= N -> ae (th s' 0) <= se (th s' t) /\ se (th s' t) <= se (th s' 0).
Proof.
  intros s lb s' I H t Ht.
  pose proof (e_g1 _ _ _ I t Ht) as G1.
  pose proof (e_g1 _ _ _ I) as G1a.
  step_inv_fine H; crunch; try lia.
  all: try match goal with
    | Hq : qu ?s0 (S ?c) = CStop :: _, Hp : parent (S ?c) = Some ?p, Hl : Nat.leb (S ?c) N = true |- _ =>
        destruct (stop_head_lag s0 (S c) p _ I (helper_leb _ Hl) Hp Hq) as (? & ? & ? & ? & ?); lia
    end.
  all: phase_facts I.
  all: bar_facts.
  - lia.
  - assert (helper t) by (unfold WorkersInv.helper; lia).
    destruct (barrier_all s I Hw t t (le_n _) H). lia.
Qed.

Ltac phase_facts' I :=
  let ph := fresh "ph" in let E1 := fresh "Eph" in let E2 := fresh "Eeq" in
  destruct (e_phase _ _ _ I) as (ph & E1 & E2);
  match goal with Hpc : pc (th _ 0) = _ |- _ => rewrite Hpc in E1 end; simpl in E1;
  repeat match type of E1 with context [match ?x with _ => _ end] => destruct x; try discriminate end;
  try discriminate; injection E1 as <-; simpl in E2.

Lemma step_phase : forall s lb s', InvE s -> lstep s lb = Some s' ->
  exists ph, mphase (pc (th s' 0)) = Some ph /\
             phase_eqs ph (sid s') (se (th s' 0)) (ae (th s' 0)) (nbest s').
Proof.
  intros s lb s' I H.
  step_inv_fine H; crunch; try exact (e_phase _ _ _ I).
  all: phase_facts' I.
  all: try (eexists; split; [reflexivity | simpl; lia]).
Qed.

Ltac stop_facts I :=
  match goal with
  | Hq : qu ?s0 (S ?c) = CStop :: _, Hp : parent (S ?c) = Some ?p, Hl : Nat.leb (S ?c) N = true |- _ =>
      destruct (stop_head_lag s0 (S c) p _ I (helper_leb _ Hl) Hp Hq) as (? & ? & ? & ? & ?)
  end.
Ltac sendack_facts I :=
  match goal with
  | Hpc : pc (th ?s0 (S ?t)) = PSend (CStopAck _) _ , Hl : Nat.leb (S ?t) N = true |- _ =>
      let X := fresh in pose proof (e_a2 _ _ _ I (S t) (helper_leb _ Hl)) as X; rewrite Hpc in X;
      specialize (X eq_refl); destruct X as (? & ? & ?)
  | Hpc : pc (th ?s0 (S ?t)) = PSendW _ , Hl : Nat.leb (S ?t) N = true |- _ =>
      let X := fresh in pose proof (e_a2 _ _ _ I (S t) (helper_leb _ Hl)) as X; rewrite Hpc in X;
      specialize (X eq_refl); destruct X as (? & ? & ?)
  end.

Lemma step_g2 : forall s lb s', InvE s -> lstep s lb = Some s' ->
  forall c, helper c ->
    ae (th s' 0) <= ae (th s' c) /\ ae (th s' c) <= se (th s' c) /\ se (th s' c) <= S (ae (th s' c)).
Proof.
  intros s lb s' I H c Hc.
  pose proof (e_g2 _ _ _ I c Hc) as G2.
  assert (Hc0 : c <> 0) by (unfold WorkersInv.helper in Hc; lia).
  step_inv_fine H; crunch; try lia.
  all: try (stop_facts I; lia).
  all: try (sendack_facts I; lia).
  - phase_facts' I. bar_facts.
    destruct (barrier_all s I Hw c c (le_n _) Hc). lia.
Qed.
Ltac use_eqs :=
  repeat match goal with
  | Hpc : pc (th _ _) = _ |- _ => rewrite Hpc in *
  | Hq : qu _ _ = _ |- _ => rewrite Hq in *
  end.

Lemma fwd_push_facts : forall s t w k rest x, InvE s -> t <= N ->
  pc (th s t) = PFwd w k rest -> mem_tid x rest = true ->
  helper x /\ parent x = Some t /\ x <> t /\
  (fwd_purge w = true -> stops (qu s x) = 0) /\
  (w = FStop -> se (th s t) = S (se (th s x))) /\
  (fwd_startish w -> se (th s x) = se (th s t) /\ S (se (th s t)) = sid s /\ stops (qu s x) = 0).
Proof.
  intros s t w k rest x I Ht Hpc Hm.
  destruct (e_fwd _ _ _ I t w k rest Ht Hpc) as (_ & _ & Hin).
  apply mem_tid_In in Hm. specialize (Hin x Hm). apply in_children in Hin. destruct Hin as (Hx & Hp).
  destruct (parent_le x t Hx Hp) as (_ & Hlt).
  pose proof (e_s1 _ _ _ I x t Hx Hp) as S1. rewrite Hpc in S1.
  destruct (e_g1 _ _ _ I t Ht) as (G1a & G1b). destruct (e_g1 _ _ _ I x (helper_le _ Hx)) as (G1c & G1d).
  destruct (inv_se0 s I) as (? & ? & ? & ?).
  assert (Hst : fwd_startish w -> se (th s x) = se (th s t) /\ S (se (th s t)) = sid s /\ stops (qu s x) = 0).
  { intros Hw. pose proof (e_j3 _ _ _ I t w k rest Ht Hpc Hw) as J3.
    assert (owes (PFwd w k rest) x = false) as Ho by (destruct Hw as [->|(j & ->)]; reflexivity).
    rewrite Ho in S1. simpl in S1. lia. }
  assert (Hsp : w = FStop -> se (th s t) = S (se (th s x)) /\ stops (qu s x) = 0).
  { intros ->. simpl in S1. apply mem_tid_In in Hm. rewrite Hm in S1. simpl in S1. lia. }
  repeat split; auto; try lia.
  - intros Hpg. destruct w; try discriminate.
    + apply Hst. right; eauto.
    + now apply Hsp.
  - intros ->. now apply Hsp.
  - apply Hst; auto.
  - apply Hst; auto.
  - apply Hst; auto.
Qed.

Ltac spec_fwd H :=
  first [ specialize (H eq_refl)
        | specialize (H (or_introl eq_refl))
        | specialize (H (or_intror (ex_intro _ _ eq_refl)))
        | clear H ].
Ltac fwd_facts I :=
  match goal with
  | Hpc : pc (th ?s0 0) = PFwd ?w ?k ?rest, Hm : mem_tid ?x ?rest = true |- _ =>
      let A := fresh "Fh" in let B := fresh "Fp" in let C := fresh "Fne" in
      let D := fresh "Fpg" in let E := fresh "Fst" in let F := fresh "Fss" in
      destruct (fwd_push_facts s0 0 w k rest x I (Nat.le_0_l _) Hpc Hm) as (A & B & C & D & E & F);
      spec_fwd D; spec_fwd E; spec_fwd F
  | Hpc : pc (th ?s0 (S ?t)) = PFwd ?w ?k ?rest, Hm : mem_tid ?x ?rest = true,
    Hl : Nat.leb (S ?t) N = true |- _ =>
      let A := fresh "Fh" in let B := fresh "Fp" in let C := fresh "Fne" in
      let D := fresh "Fpg" in let E := fresh "Fst" in let F := fresh "Fss" in
      destruct (fwd_push_facts s0 (S t) w k rest x I (proj1 (Nat.leb_le _ _) Hl) Hpc Hm)
        as (A & B & C & D & E & F);
      spec_fwd D; spec_fwd E; spec_fwd F
  end.
Ltac pcs_facts I :=
  match goal with
  | Hpc : pc (th ?s0 (S ?t)) = PSend _ _, Hl : Nat.leb (S ?t) N = true |- _ =>
      let X := fresh "Hpcs" in
      pose proof (e_pcs _ _ _ I (S t) (proj1 (Nat.leb_le _ _) Hl)) as X; rewrite Hpc in X; simpl in X;
      try contradiction; try subst
  | Hpc : pc (th ?s0 (S ?t)) = PSendW _, Hl : Nat.leb (S ?t) N = true |- _ =>
      let X := fresh "Hpcs" in
      pose proof (e_pcs _ _ _ I (S t) (proj1 (Nat.leb_le _ _) Hl)) as X; rewrite Hpc in X; simpl in X;
      try discriminate; try (injection X as ->)
  end.
Ltac fwd_mem :=
  repeat match goal with
  | E : remove_tid ?x ?rest = [], Hne : ?c <> ?x, S1 : context [mem_tid ?c ?rest] |- _ =>
      rewrite (remove_nil_mem c x rest E Hne) in S1
  | E : remove_tid ?x ?rest = ?a :: ?l, Hne : ?c <> ?x |- context [mem_tid ?c (?a :: ?l)] =>
      rewrite <- E, (mem_remove_other c x rest Hne)
  | E : remove_tid ?x ?rest = ?a :: ?l |- context [mem_tid ?x (?a :: ?l)] =>
      rewrite <- E, (mem_remove_same x rest)
  end.
Lemma step_s1 : forall s lb s', InvE s -> lstep s lb = Some s' ->
  forall c p, helper c -> parent c = Some p ->
    se (th s' p) = se (th s' c) + stops (qu s' c) + b2n (owes (pc (th s' p)) c).
Proof.
  intros s lb s' I H c p Hc Hp.
  pose proof (e_s1 _ _ _ I c p Hc Hp) as S1.
  assert (Hc0 : c <> 0) by (unfold WorkersInv.helper in Hc; lia).
  destruct (parent_le c p Hc Hp) as (HpN & Hpc).
  step_inv_fine H; crunch; use_eqs; rewrite ?stops_app, ?stops_purge, ?stops_cons in *; cbn [is_stop owes b2n stops filter length] in *; try lia.
  all: try pcs_facts I.
  all: try match goal with w : fwd |- _ => destruct w end.
  all: try fwd_facts I.
  all: try congruence.
  all: fwd_mem; cbn [fwd_purge fwd_cmd is_stop b2n] in *; rewrite ?stops_purge.
  all: try lia.
  all: match goal with E : Workers.children N parent ?t = _ , Hc : helper ?c, Hp : parent ?c = Some ?t |- _ =>
         let X := fresh in assert (X : In c (children t)) by (apply in_children; auto); rewrite E in X;
         try (now destruct X); try rewrite (proj2 (mem_tid_In c _) X) end.
  all: simpl; lia.
Qed.

Lemma count_pos : forall (f : tid -> bool) l x, In x l -> f x = true -> 1 <= length (filter f l).
Proof.
  induction l as [|a l IH]; simpl; intros x Hin Hf; [tauto|].
  destruct Hin as [->|Hin].
  - rewrite Hf; simpl; lia.
  - destruct (f a); simpl; [lia|eauto].
Qed.

Lemma ack_head_facts : forall s t f l, InvE s -> t <= N -> qu s t = CStopAck f :: l ->
  helper f /\ parent f = Some t /\ acks f l = 0 /\ ae (th s f) = se (th s t) /\
  se (th s f) = se (th s t) /\ se (th s t) = S (ae (th s 0)) /\
  pendingb s t f = true /\ (1 <= wc (th s t))%Z.
Proof.
  intros s t f l I Ht Hq.
  assert (Hin : In (CStopAck f) (qu s t)) by (rewrite Hq; left; auto).
  destruct (e_snd _ _ _ I t _ Ht Hin) as (Hp & Hf).
  pose proof (e_w2 _ _ _ I f t Hf Hp) as W2.
  pose proof (e_w3 _ _ _ I f t Hf Hp) as W3.
  rewrite Hq, acks_cons in W2, W3. simpl in W2, W3. rewrite Nat.eqb_refl in W2, W3.
  specialize (W3 ltac:(lia)).
  destruct (e_g2 _ _ _ I f Hf) as (? & ? & ?).
  pose proof (inv_child_le s f t I Hf Hp).
  assert (Hpd : pendingb s t f = true).
  { unfold pendingb. rewrite Hq, acks_cons. simpl. rewrite Nat.eqb_refl. apply Nat.ltb_lt. lia. }
  assert (Hwc : (1 <= wc (th s t))%Z).
  { rewrite (e_w1 _ _ _ I t Ht). unfold WorkersInv.npending.
    assert (Hic : In f (children t)) by (apply in_children; auto).
    pose proof (count_pos (pendingb s t) (children t) f Hic Hpd). lia. }
  split; [auto|]. split; [auto|]. split; [lia|]. split; [lia|]. split; [lia|]. split; [lia|]. split; auto.
Qed.
Ltac ack_facts I :=
  match goal with
  | Hq : qu ?s0 0 = CStopAck ?f :: ?l |- _ =>
      destruct (ack_head_facts s0 0 f l I (Nat.le_0_l _) Hq) as (? & ? & ? & ? & ? & ? & ? & ?)
  | Hq : qu ?s0 (S ?t) = CStopAck ?f :: ?l, Hl : Nat.leb (S ?t) N = true |- _ =>
      destruct (ack_head_facts s0 (S t) f l I (proj1 (Nat.leb_le _ _) Hl) Hq) as (? & ? & ? & ? & ? & ? & ? & ?)
  end.

Lemma step_a1 : forall s lb s', InvE s -> lstep s lb = Some s' ->
  forall c, helper c -> ae (th s' c) = se (th s' c) ->
    self (th s' c) = false /\ wc (th s' c) = 0%Z /\
    sendack (pc (th s' c)) = false /\ instop (pc (th s' c)) = false.
Proof.
  intros s lb s' I H c Hc.
  pose proof (e_a1 _ _ _ I c Hc) as A1.
  pose proof (e_a2 _ _ _ I c Hc) as A2.
  assert (Hc0 : c <> 0) by (unfold WorkersInv.helper in Hc; lia).
  pose proof (e_g2 _ _ _ I c Hc) as G2.
  step_inv_fine H; crunch; use_eqs; cbn [sendack instop] in *; auto.
  all: intros E; try (destruct (A1 ltac:(lia)) as (? & ? & ? & ?)); try discriminate;
       repeat split; auto; try congruence; try lia.
  all: try (ack_facts I; lia).
  all: try (sendack_facts I; auto).
Qed.

Ltac boolfacts :=
  repeat match goal with
  | H : (_ =? _)%Z = true |- _ => apply Z.eqb_eq in H
  | H : (_ =? _)%Z = false |- _ => apply Z.eqb_neq in H
  | H : _ && _ = true |- _ => apply andb_prop in H; destruct H
  | H : negb _ = true |- _ => apply negb_true_iff in H
  | H : negb _ = false |- _ => apply negb_false_iff in H
  end.

Lemma step_a2 : forall s lb s', InvE s -> lstep s lb = Some s' ->
  forall c, helper c -> sendack (pc (th s' c)) = true ->
    self (th s' c) = false /\ wc (th s' c) = 0%Z /\ se (th s' c) = S (ae (th s' c)).
Proof.
  intros s lb s' I H c Hc.
  pose proof (e_a1 _ _ _ I c Hc) as A1.
  pose proof (e_a2 _ _ _ I c Hc) as A2.
  pose proof (e_g2 _ _ _ I c Hc) as G2.
  assert (Hc0 : c <> 0) by (unfold WorkersInv.helper in Hc; lia).
  step_inv_fine H; crunch; use_eqs; cbn [sendack instop] in *; auto; try discriminate.
  all: intros _; boolfacts; try ack_facts I.
  all: match goal with |- context [th ?s0 ?x] =>
         destruct (Nat.eq_dec (ae (th s0 x)) (se (th s0 x))) as [E|E];
         [destruct (A1 E) as (? & ? & ? & ?); try congruence; try lia | ] end.
  all: repeat split; auto; try lia.
Qed.

Lemma step_w2 : forall s lb s', InvE s -> lstep s lb = Some s' ->
  forall c p, helper c -> parent c = Some p ->
    se (th s' p) + acks c (qu s' p) <= S (ae (th s' c)).
Proof.
  intros s lb s' I H c p Hc Hp.
  pose proof (e_w2 _ _ _ I c p Hc Hp) as W2.
  pose proof (e_w3 _ _ _ I c p Hc Hp) as W3.
  pose proof (e_g2 _ _ _ I c Hc) as G2.
  pose proof (inv_child_le s c p I Hc Hp) as CL.
  assert (Hc0 : c <> 0) by (unfold WorkersInv.helper in Hc; lia).
  destruct (parent_le c p Hc Hp) as (HpN & Hpc).
  step_inv_fine H; crunch; use_eqs; rewrite ?acks_app, ?acks_purge, ?acks_cons in *;
    cbn [is_ack_from acks filter length] in *; try lia.
  all: try pcs_facts I.
  all: try match goal with w : fwd |- _ => destruct w end.
  all: cbn [fwd_purge fwd_cmd is_ack_from] in *; rewrite ?acks_purge; eqb_cases; try lia.
  all: try (stop_facts I; lia).
  all: try (sendack_facts I; lia).
  all: try (phase_facts' I; lia).
Qed.


Lemma step_w3 : forall s lb s', InvE s -> lstep s lb = Some s' ->
  forall c p, helper c -> parent c = Some p -> 1 <= acks c (qu s' p) ->
    ae (th s' c) = S (ae (th s' 0)).
Proof.
  intros s lb s' I H c p Hc Hp.
  pose proof (e_w2 _ _ _ I c p Hc Hp) as W2.
  pose proof (e_w3 _ _ _ I c p Hc Hp) as W3.
  pose proof (e_g2 _ _ _ I c Hc) as G2.
  pose proof (e_g1 _ _ _ I c (helper_le _ Hc)) as G1.
  pose proof (inv_se0 s I) as G0.
  pose proof (inv_child_le s c p I Hc Hp) as CL.
  assert (Hc0 : c <> 0) by (unfold WorkersInv.helper in Hc; lia).
  destruct (parent_le c p Hc Hp) as (HpN & Hpc).
  step_inv_fine H; crunch; use_eqs; rewrite ?acks_app, ?acks_purge, ?acks_cons in *;
    cbn [is_ack_from acks filter length] in *; try lia.
  all: try pcs_facts I.
  all: try match goal with w : fwd |- _ => destruct w end.
  all: cbn [fwd_purge fwd_cmd is_ack_from] in *; rewrite ?acks_purge; eqb_cases; try lia.
  all: try (stop_facts I; lia).
  all: try (sendack_facts I; lia).
  all: try (phase_facts' I; lia).
  bar_facts. rewrite (barrier_noacks s I Hw c p Hc Hp). lia.
Qed.

Lemma step_fwd : forall s lb s', InvE s -> lstep s lb = Some s' ->
  forall t w k rest, t <= N -> pc (th s' t) = PFwd w k rest ->
    rest <> [] /\ NoDup rest /\ (forall x, In x rest -> In x (children t)).
Proof.
  intros s lb s' I H t w k rest Ht.
  pose proof (e_fwd _ _ _ I t) as F.
  step_inv_fine H; crunch; use_eqs; eauto; try discriminate.
  all: intros E; injection E as <- <- <-.
  all: try match goal with E : Workers.children N parent ?t = ?a :: ?l |- _ =>
         rewrite <- E; split; [rewrite E; discriminate|]; split; [apply NoDup_children | auto] end.
  all: match goal with E : remove_tid ?x ?r = ?a :: ?l, Hpc : pc (th ?s0 ?t) = PFwd ?w ?k ?r |- _ =>
         destruct (F w k r Ht eq_refl) as (F1 & F2 & F3);
         rewrite <- E; split; [rewrite E; discriminate|]; split; [now apply NoDup_remove_tid|];
         intros y Hy; apply in_remove_tid in Hy; apply F3; tauto end.
Qed.

Lemma step_snd : forall s lb s', InvE s -> lstep s lb = Some s' ->
  forall t m, t <= N -> In m (qu s' t) -> sender_ok N parent t m.
Proof.
  intros s lb s' I H t m Ht.
  pose proof (e_snd _ _ _ I t m Ht) as Sn.
  step_inv_fine H; crunch; use_eqs; auto.
  all: try (intros Hin; apply Sn; right; exact Hin).
  all: try pcs_facts I.
  all: try match goal with w : fwd |- _ => destruct w end; cbn [fwd_purge fwd_cmd] in *.
  all: intros Hin; apply in_app_or in Hin; destruct Hin as [Hin|[<-|[]]];
       try (apply in_purge in Hin; destruct Hin as (Hin & _)); auto; simpl; auto.
  all: split; auto; apply helper_leb; auto.
Qed.

Lemma step_pcs : forall s lb s', InvE s -> lstep s lb = Some s' ->
  forall t, t <= N -> pcsend_ok t (pc (th s' t)).
Proof.
  intros s lb s' I H t Ht.
  pose proof (e_pcs _ _ _ I t Ht) as P.
  step_inv_fine H; crunch; use_eqs; cbn [pcsend_ok] in *; auto.
Qed.

Lemma step_j3 : forall s lb s', InvE s -> lstep s lb = Some s' ->
  forall t w k rest, t <= N -> pc (th s' t) = PFwd w k rest -> fwd_startish w ->
    S (se (th s' t)) = sid s'.
Proof.
  intros s lb s' I H t w k rest Ht.
  pose proof (e_j3 _ _ _ I t) as J3.
  pose proof (e_j2 _ _ _ I t) as J2.
  pose proof (e_g1 _ _ _ I t Ht) as G1.
  step_inv_fine H; crunch; use_eqs; eauto; try discriminate.
  all: intros E Hw; try (injection E as <- <- <-).
  all: try (destruct Hw as [Hw|(j' & Hw)]; discriminate).
  all: try (phase_facts' I; lia).
  all: try (stop_facts I; lia).
  all: try (apply (J2 _ (helper_leb _ ltac:(eassumption)) (or_introl eq_refl)); unfold is_startish; eauto).
  all: try (specialize (J3 _ _ _ Ht E Hw); phase_facts' I; lia).
  all: try (eapply J3; eauto).
Qed.

Lemma startfree_sclean : forall l, startfree l -> sclean l.
Proof.
  induction l as [|m l IH]; simpl; auto. intros H.
  assert (startfree l) by (intros x Hx; apply H; right; auto).
  destruct m; auto.
Qed.
Lemma sclean_tail : forall m l, sclean (m :: l) -> sclean l.
Proof. intros m l H. destruct m; simpl in H; auto. now apply startfree_sclean. Qed.
Lemma sclean_app_nostop : forall l m, stops l = 0 -> m <> CStop -> sclean (l ++ [m]).
Proof.
  induction l as [|a l IH]; simpl; intros m H Hm.
  - destruct m; simpl; auto. congruence.
  - rewrite stops_cons in H. destruct a; simpl in *; try (apply IH; auto; lia). lia.
Qed.
Lemma sclean_app_stop : forall l, stops l = 0 -> sclean (l ++ [CStop]).
Proof.
  induction l as [|a l IH]; simpl; intros H.
  - intros m [].
  - rewrite stops_cons in H. destruct a; simpl in *; try (apply IH; auto; lia). lia.
Qed.
Lemma startfree_app : forall l m, startfree l -> ~ is_startish m -> startfree (l ++ [m]).
Proof.
  intros l m H Hm x Hx. apply in_app_or in Hx. destruct Hx as [Hx|[<-|[]]]; auto.
Qed.
Lemma sclean_app_other : forall l m, sclean l -> ~ is_startish m -> sclean (l ++ [m]).
Proof.
  induction l as [|a l IH]; simpl; intros m H Hm.
  - destruct m; simpl; auto. intros x [].
  - destruct a; simpl in *; auto. now apply startfree_app.
Qed.

Lemma step_sc : forall s lb s', InvE s -> lstep s lb = Some s' ->
  forall c, helper c -> sclean (qu s' c).
Proof.
  intros s lb s' I H c Hc.
  pose proof (e_sc _ _ _ I c Hc) as SC.
  step_inv_fine H; crunch; use_eqs; auto.
  all: try (eapply sclean_tail; eassumption).
  all: try pcs_facts I.
  all: try match goal with w : fwd |- _ => destruct w end; cbn [fwd_purge fwd_cmd] in *.
  all: try (apply sclean_app_nostop; [apply stops_purge | discriminate]).
  all: try (apply sclean_app_stop; apply stops_purge).
  all: try (apply sclean_app_other; [assumption | intros [E|(j' & E)]; discriminate]).
  all: try (fwd_facts I; apply sclean_app_nostop; [lia | discriminate]).
Qed.

Lemma step_j2 : forall s lb s', InvE s -> lstep s lb = Some s' ->
  forall c m, helper c -> In m (qu s' c) -> is_startish m -> S (se (th s' c)) = sid s'.
Proof.
  intros s lb s' I H c m Hc.
  pose proof (e_j2 _ _ _ I c m Hc) as J2.
  assert (Hc0 : c <> 0) by (unfold WorkersInv.helper in Hc; lia).
  pose proof (e_sc _ _ _ I c Hc) as SC.
  pose proof (e_g1 _ _ _ I c (helper_le _ Hc)) as G1.
  step_inv_fine H; crunch; use_eqs; auto.
  all: try (intros Hin Hm; apply J2; auto; right; exact Hin).
  all: try pcs_facts I.
  all: try match goal with w : fwd |- _ => destruct w end; cbn [fwd_purge fwd_cmd] in *.
  all: try fwd_facts I; try congruence.
  all: intros Hin Hm.
  all: try (exfalso; simpl in SC; exact (SC m Hin Hm)).
  all: try (specialize (J2 Hin Hm); phase_facts' I; lia).
  all: try (apply in_app_or in Hin; destruct Hin as [Hin|[<-|[]]];
            try (apply in_purge in Hin; destruct Hin as (Hin & _)); auto;
            try (destruct Hm as [Hm|(j' & Hm)]; discriminate); try lia).
Qed.

Ltac ltb_eq :=
  match goal with |- (?a <? ?b) = (?c <? ?d) =>
    destruct (Nat.ltb_spec a b), (Nat.ltb_spec c d); auto; try lia end.

Lemma w1_frame : forall s s' p, InvE s -> p <= N -> wc (th s' p) = wc (th s p) ->
  (forall y, helper y -> parent y = Some p -> y <> 0 -> p < y -> pendingb s' p y = pendingb s p y) ->
  wc (th s' p) = Z.of_nat (npending s' p).
Proof.
  intros s s' p I Hp Hwc Hpd. rewrite Hwc, (e_w1 _ _ _ I p Hp). f_equal.
  unfold WorkersInv.npending. apply count_ext. intros y Hy.
  apply in_children in Hy. destruct Hy as (Hy & Hyp). symmetry. apply Hpd; auto.
  - unfold WorkersInv.helper in Hy; lia.
  - now destruct (parent_le y p Hy Hyp).
Qed.

Lemma w1_enter_round : forall s s' p, InvE s -> p <= N ->
  se (th s' p) = S (se (th s p)) -> wc (th s' p) = nchildren N parent p ->
  (forall y, ae (th s' y) = ae (th s y)) ->
  wc (th s' p) = Z.of_nat (npending s' p).
Proof.
  intros s s' p I Hp Hse Hwc Hae. rewrite Hwc. unfold nchildren, WorkersInv.npending. f_equal.
  symmetry. apply count_all. intros y Hy. apply in_children in Hy. destruct Hy as (Hy & Hyp).
  unfold pendingb. apply Nat.ltb_lt. rewrite Hae, Hse.
  destruct (e_g2 _ _ _ I y Hy) as (_ & ? & _). pose proof (inv_child_le s y p I Hy Hyp). lia.
Qed.

Lemma w1_pop_ack : forall s s' p f l, InvE s -> p <= N ->
  qu s p = CStopAck f :: l -> qu s' p = l -> wc (th s' p) = (wc (th s p) - 1)%Z ->
  se (th s' p) = se (th s p) -> (forall y, ae (th s' y) = ae (th s y)) ->
  wc (th s' p) = Z.of_nat (npending s' p).
Proof.
  intros s s' p f l I Hp Hq Hq' Hwc Hse Hae.
  destruct (ack_head_facts s p f l I Hp Hq) as (Hf & Hfp & Ha0 & Haf & _ & _ & Hpd & _).
  rewrite Hwc, (e_w1 _ _ _ I p Hp). unfold WorkersInv.npending.
  assert (Hin : In f (children p)) by (apply in_children; auto).
  rewrite (count_flip (pendingb s p) (pendingb s' p) (children p) f (NoDup_children _ _ _) Hin Hpd).
  - lia.
  - unfold pendingb. rewrite Hae, Hse, Hq', Ha0. apply Nat.ltb_ge. lia.
  - intros y Hy Hne. unfold pendingb. rewrite Hae, Hse, Hq', Hq, acks_cons. simpl.
    destruct (Nat.eqb_spec f y); [congruence|]. reflexivity.
Qed.

Lemma step_w1 : forall s lb s', InvE s -> lstep s lb = Some s' ->
  forall p, p <= N -> wc (th s' p) = Z.of_nat (npending s' p).
Proof.
  intros s lb s' I H p Hp.
  step_inv_fine H.
  all: try pcs_facts I.
  all: try match goal with w : fwd |- _ => destruct w end.
  all: try match goal with c : cmd |- _ => destruct c end.
  all: try (apply (w1_frame s _ p I Hp);
            [ crunch; reflexivity
            | intros y Hy Hyp Hy0 Hlt; unfold pendingb; crunch; use_eqs;
              rewrite ?acks_app, ?acks_purge, ?acks_cons; cbn [is_ack_from fwd_cmd fwd_purge];
              rewrite ?acks_purge, ?acks_nil; eqb_cases;
              try reflexivity; try lia; try ltb_eq ]; fail).
  all: try exact (e_w1 _ _ _ I p Hp).
  all: try (ack_facts I; phase_facts' I; lia).
  all: match goal with |- context [set_th _ ?t _] => destruct (Nat.eq_dec p t) as [->|Hne] end.
  all: try (eapply (w1_enter_round s); eauto; intros; crunch; auto; fail).
  all: try (eapply (w1_pop_ack s); eauto; intros; crunch; auto; fail).
  all: try (apply (w1_frame s _ p I Hp);
            [ crunch; reflexivity
            | intros y Hy Hyp Hy0 Hlt; unfold pendingb; crunch; use_eqs;
              rewrite ?acks_app, ?acks_purge, ?acks_cons; cbn [is_ack_from fwd_cmd fwd_purge];
              rewrite ?acks_purge, ?acks_nil; eqb_cases;
              try reflexivity; try lia; try ltb_eq ]; fail).
Qed.

End P.
