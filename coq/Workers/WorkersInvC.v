(** C10 — preservation of the epoch invariant [InvE]: part C. *)
From Coq Require Import ZArith List Bool Arith Lia.
From Texel Require Import Workers.Workers Workers.WorkersLemmas Workers.WorkersInv Workers.WorkersInvFacts Workers.WorkersTac.
Import ListNotations.

Section P.
Variable N : nat.
Variable parent : tid -> option tid.
Hypothesis Htree : tree_ok N parent.
Notation InvE := (InvE N parent).
Notation lstep := (lstep N parent).
Notation children := (children N parent).
Notation helper := (helper N).
Notation npending := (npending N parent).
Notation helper_le := (helper_le N).
Notation helper_leb := (helper_leb N).
Notation helper_S := (helper_S N).
Notation inv_se0 := (inv_se0 N parent).
Notation inv_child_le := (inv_child_le N parent).
Notation parent_le := (parent_le N parent Htree).
Notation child_settled := (child_settled N parent).
Notation barrier_all := (barrier_all N parent Htree).
Notation barrier_noacks := (barrier_noacks N parent Htree).
Notation quiet_all := (quiet_all N parent).
Notation stop_head_lag := (stop_head_lag N parent Htree).
Notation fwd_push_facts := (fwd_push_facts N parent Htree).
Notation ack_head_facts := (ack_head_facts N parent).
Notation w1_frame := (ltac:(first [exact (WorkersInvFacts.w1_frame N parent Htree) | exact (WorkersInvFacts.w1_frame N parent)])) (only parsing).
Notation w1_enter_round := (ltac:(first [exact (WorkersInvFacts.w1_enter_round N parent Htree) | exact (WorkersInvFacts.w1_enter_round N parent)])) (only parsing).
Notation w1_pop_ack := (ltac:(first [exact (WorkersInvFacts.w1_pop_ack N parent Htree) | exact (WorkersInvFacts.w1_pop_ack N parent)])) (only parsing).

Lemma step_w1 : forall s lb s', InvE s -> lstep s lb = Some s' ->
  forall p, p <= N -> wc (th s' p) = Z.of_nat (npending s' p).
Proof.
  intros s lb s' I H p Hp.
  step_inv_fine H.
  all: try pcs_facts I.
  all: try match goal with w : fwd |- _ => destruct w end.
  all: try match goal with c : cmd |- _ => destruct c end.
  all: try (apply (w1_frame s _ p I Hp);
            [ crunch; reflexivity
            | intros y Hy Hyp Hy0 Hlt; unfold pendingb; crunch; use_eqs;
              rewrite ?acks_app, ?acks_purge, ?acks_cons; cbn [is_ack_from fwd_cmd fwd_purge];
              rewrite ?acks_purge, ?acks_nil; eqb_cases;
              try reflexivity; try lia; try ltb_eq ]; fail).
  all: try exact (e_w1 _ _ _ I p Hp).
  all: try (ack_facts I; phase_facts' I; lia).
  all: match goal with |- context [set_th _ ?t _] => destruct (Nat.eq_dec p t) as [->|Hne] end.
  all: try (eapply (w1_enter_round s); eauto; intros; crunch; auto; fail).
  all: try (eapply (w1_pop_ack s); eauto; intros; crunch; auto; fail).
  all: try (apply (w1_frame s _ p I Hp);
            [ crunch; reflexivity
            | intros y Hy Hyp Hy0 Hlt; unfold pendingb; crunch; use_eqs;
              rewrite ?acks_app, ?acks_purge, ?acks_cons; cbn [is_ack_from fwd_cmd fwd_purge];
              rewrite ?acks_purge, ?acks_nil; eqb_cases;
              try reflexivity; try lia; try ltb_eq ]; fail).
Qed.

End P.
