(** C09 — the helper threads' reads of the option values and of the table geometry / generation.
    They are plain reads of objects written by the engine thread (the option listeners called from
    setOptions) and by the UCI thread (tt.nextGeneration() in go); what orders them is the
    message traffic of the search-control protocol:
      writer --> engine thread --START_SEARCH (mailbox mutex of the helper)--> helper's read,
      helper's read --STOP_ACK (mailbox mutex of the engine thread)--> engine thread --> writer.
    This file: trace-level notions ("position p is visible to thread t", "p happens-before a
    release of mutex m") and how they evolve when a block of events is appended. *)
From Coq Require Import ZArith List Bool Arith Lia Relations.
From Texel Require Import Workers.Workers Workers.Race Workers.RaceProofs Workers.Access Workers.AccessProofs
  Workers.HandshakeProofs.
Import ListNotations.

(** a write of the option values / table geometry *)
Definition wopt (e : tev) : bool :=
  match e with Acc _ l true _ => opt_or_tt l | _ => false end.

Definition Wr (tr : list tev) (p : nat) : Prop := exists e, nth_error tr p = Some e /\ wopt e = true.
(** an access of thread c to them *)
Definition Rd (tr : list tev) (c : tid) (p : nat) : Prop :=
  exists e, nth_error tr p = Some e /\ ev_tid e = c /\ sel opt_or_tt e = true.

(** position p is, or happens-before, an event of thread t *)
Definition seenby (tr : list tev) (t : tid) (p : nat) : Prop :=
  exists q e, nth_error tr q = Some e /\ ev_tid e = t /\ (p = q \/ hb tr p q).
(** position p happens-before a release of mutex m *)
Definition relq (tr : list tev) (m : mutex) (p : nat) : Prop :=
  exists r t, nth_error tr r = Some (Rel t m) /\ hb tr p r.

Lemma seenby_app : forall tr B t p, seenby tr t p -> seenby (tr ++ B) t p.
Proof.
  intros tr B t p (q & e & Hq & Ht & H). exists q, e. split; [|split; auto].
  - rewrite nth_app_l; auto. eapply nth_some_lt; eauto.
  - destruct H; auto. right. now apply hb_app.
Qed.
Lemma relq_app : forall tr B m p, relq tr m p -> relq (tr ++ B) m p.
Proof.
  intros tr B m p (r & t & Hr & H). exists r, t. split; [|now apply hb_app].
  rewrite nth_app_l; auto. eapply nth_some_lt; eauto.
Qed.
Lemma seenby_own : forall tr t p e, nth_error tr p = Some e -> ev_tid e = t -> seenby tr t p.
Proof. intros tr t p e H Ht. exists p, e. auto. Qed.

(** what is visible to t happens-before every later event of t *)
Lemma seenby_po : forall tr B t p k e, seenby tr t p -> nth_error B k = Some e -> ev_tid e = t ->
  hb (tr ++ B) p (length tr + k).
Proof.
  intros tr B t p k e (q & e0 & Hq & Ht & H) Hk He.
  pose proof (nth_some_lt _ _ _ Hq) as Lq.
  assert (E1 : nth_error (tr ++ B) q = Some e0) by (rewrite nth_app_l; auto).
  assert (E2 : nth_error (tr ++ B) (length tr + k) = Some e) by (now rewrite nth_app_r).
  assert (P : hb (tr ++ B) q (length tr + k)).
  { apply (hb_po (tr ++ B) q (length tr + k) e0 e); auto; [lia|congruence]. }
  destruct H as [->|H]; auto. eapply t_trans; [apply hb_app; eauto|auto].
Qed.

(** ... so after a release by t it happens-before a release *)
Lemma relq_make : forall tr B t m p k, seenby tr t p -> nth_error B k = Some (Rel t m) ->
  relq (tr ++ B) m p.
Proof.
  intros tr B t m p k S Hk. exists (length tr + k), t. split; [now rewrite nth_app_r|].
  eapply seenby_po; eauto.
Qed.

(** an acquire after the release inherits it *)
Lemma relq_acq : forall tr B m p k t, relq tr m p -> nth_error B k = Some (Acq t m) ->
  hb (tr ++ B) p (length tr + k).
Proof.
  intros tr B m p k t (r & t0 & Hr & H) Hk.
  pose proof (nth_some_lt _ _ _ Hr) as Lr.
  eapply t_trans; [apply hb_app; eauto|].
  apply (hb_sw (tr ++ B) r (length tr + k) t0 t m); [lia| |].
  - rewrite nth_app_l; auto.
  - now rewrite nth_app_r.
Qed.
Lemma relq_seen : forall tr B m p k t, relq tr m p -> nth_error B k = Some (Acq t m) ->
  seenby (tr ++ B) t p.
Proof.
  intros tr B m p k t R Hk. exists (length tr + k), (Acq t m).
  split; [now rewrite nth_app_r|]. split; auto. right. eapply relq_acq; eauto.
Qed.

(** positions of old writes / reads when the block adds none *)
Lemma Wr_app_old : forall tr B p, (forall k e, nth_error B k = Some e -> wopt e = false) ->
  Wr (tr ++ B) p -> Wr tr p.
Proof.
  intros tr B p HB (e & He & Hw). destruct (app_case _ _ _ _ He) as [(L & Q)|(k & -> & Q)].
  - exists e; auto.
  - rewrite (HB k e Q) in Hw. discriminate.
Qed.
Lemma Rd_app_old : forall tr B c p,
  (forall k e, nth_error B k = Some e -> ev_tid e = c -> sel opt_or_tt e = false) ->
  Rd (tr ++ B) c p -> Rd tr c p.
Proof.
  intros tr B c p HB (e & He & Ht & Hs). destruct (app_case _ _ _ _ He) as [(L & Q)|(k & -> & Q)].
  - exists e; auto.
  - rewrite (HB k e Q Ht) in Hs. discriminate.
Qed.
Lemma Wr_lt : forall tr p, Wr tr p -> p < length tr.
Proof. intros tr p (e & He & _). eapply nth_some_lt; eauto. Qed.
Lemma Rd_lt : forall tr c p, Rd tr c p -> p < length tr.
Proof. intros tr c p (e & He & _). eapply nth_some_lt; eauto. Qed.
