(** C10 — the measure [mu] decreases (WorkersMeasure): every state-changing transition of a
    helper thread, and every transition of the engine thread in the stop phase except its idle
    wake-up cycle, strictly decreases [mu]; transitions of the UCI thread leave it unchanged. *)
From Coq Require Import ZArith List Bool Arith Lia.
From Texel Require Import Workers.Workers Workers.WorkersLemmas Workers.WorkersInv Workers.WorkersInvProofs
  Workers.WorkersTac Workers.WorkersJob Workers.WorkersDead Workers.WorkersMeasure.
Import ListNotations.

Section P.
Variable N : nat.
Variable parent : tid -> option tid.
Hypothesis Htree : tree_ok N parent.
Notation InvE := (InvE N parent).
Notation InvD := (InvD N).
Notation helper := (helper N).
Notation step := (step N parent).
Notation mu := (mu N parent).
Notation phi := (phi N parent).
Notation fsum := (fsum N parent).
Notation wmsg := (wmsg N parent).

Lemma lt_local1 : forall s s' t, t <= N -> (forall v, v <> t -> phi s' v = phi s v) ->
  phi s' t < phi s t -> mu s' < mu s.
Proof. intros s s' t Ht H Hlt. pose proof (mu_local1 N parent s s' t Ht H). lia. Qed.

Lemma lt_push : forall s s' t x c (pg : bool), t <= N -> x <= N -> t <> x ->
  (forall v, v <> t -> v <> x -> phi s' v = phi s v) ->
  th s' x = th s x -> qu s' x = (if pg then purge (qu s x) else qu s x) ++ [c] ->
  phi s' t + wmsg x c + 4 <= phi s t -> mu s' < mu s.
Proof.
  intros s s' t x c pg Ht Hx Htx H Hth Hqu Hle.
  pose proof (mu_local2 N parent s s' t x Ht Hx Htx H).
  pose proof (phi_push N parent s x c pg s' Hth Hqu). lia.
Qed.

Lemma fsum_nil : forall w, fsum w [] = 0.
Proof. reflexivity. Qed.

Lemma fsum_start : forall j l, fsum (FStart j) l = fsum (FStart 0%Z) l.
Proof. reflexivity. Qed.


Ltac fs_norm :=
  repeat match goal with
  | |- context [WorkersMeasure.fsum _ _ (FStart ?j) ?l] =>
      lazymatch j with 0%Z => fail | _ => change (WorkersMeasure.fsum N parent (FStart j) l) with (WorkersMeasure.fsum N parent (FStart 0%Z) l) end
  | H : context [WorkersMeasure.fsum _ _ (FStart ?j) ?l] |- _ =>
      lazymatch j with 0%Z => fail | _ => change (WorkersMeasure.fsum N parent (FStart j) l) with (WorkersMeasure.fsum N parent (FStart 0%Z) l) in H end
  end.

Ltac other_phi :=
  let v := fresh "v" in intros v; intros;
  unfold WorkersMeasure.phi, extra; destruct v; crunch; try reflexivity; try congruence.

Ltac if_cases :=
  repeat match goal with
  | |- context [if ?b then _ else _] => destruct b eqn:?; try congruence
  end.

Ltac phi_norm :=
  unfold WorkersMeasure.phi, extra; crunch; use_eqs;
  rewrite ?qw_cons, ?qw_app;
  cbn [pcw pollw sendack negb andb fin_cost WorkersMeasure.wmsg fwd_cmd wfw];
  rewrite ?(wI_unfold N parent Htree), ?(wP_unfold N parent Htree), ?(wS_unfold N parent Htree _ 0%Z);
  repeat match goal with Hch : children _ _ _ = _ |- _ => rewrite Hch in * end.

Ltac fin := fs_norm; boolfacts; if_cases; try lia.

Lemma mu_step_h : forall s t a s', InvE s -> InvD s -> mquit (pc (th s 0)) = false -> helper t ->
  step s t a = Some s' -> mu s' < mu s \/ s' = s.
Proof.
  intros s t a s' I D Hq Hc H.
  destruct t as [|t]; [unfold WorkersInv.helper in Hc; lia|].
  destruct (d_quit _ _ D Hq (S t) Hc) as (Q1 & Q2 & Q3).
  destruct (e_g2 _ _ _ I (S t) Hc) as (G1 & G2 & G3).
  pose proof (e_a1 _ _ _ I (S t) Hc) as A1.
  pose proof (e_a2 _ _ _ I (S t) Hc) as A2.
  assert (R1 : self (th s (S t)) = true -> se (th s (S t)) = S (ae (th s (S t)))).
  { intros X. destruct (Nat.eq_dec (ae (th s (S t))) (se (th s (S t)))) as [E|E]; [|lia].
    destruct (A1 E) as (Y & _). congruence. }
  assert (R2 : (1 <= wc (th s (S t)))%Z -> se (th s (S t)) = S (ae (th s (S t)))).
  { intros X. destruct (Nat.eq_dec (ae (th s (S t))) (se (th s (S t)))) as [E|E]; [|lia].
    destruct (A1 E) as (_ & Y & _). lia. }
  assert (R3 : sendack (pc (th s (S t))) = true -> se (th s (S t)) = S (ae (th s (S t)))).
  { intros X. destruct (A2 X) as (_ & _ & Y). auto. }
  clear A1 A2.
  assert (HtN : S t <= N) by (unfold WorkersInv.helper in Hc; lia).
  step_inv_fine H.
  all: try (right; reflexivity).
  all: left.
  (* no quit traffic in the stop phase *)
  all: try match goal with Hqu : qu _ (S _) = ?m :: _ |- _ =>
         let T4 := fresh "T4" in
         first [ pose proof (Q2 m (or_introl eq_refl)) as T4
               | pose proof (Q2 m) as T4; rewrite Hqu in T4; specialize (T4 (or_introl eq_refl)) ];
         cbn in T4 end.
  all: try discriminate.
  all: try match goal with Hpc : pc (th _ (S _)) = _ |- _ => try rewrite Hpc in Q3; try rewrite Hpc in R3; cbn [pcquit sendack] in Q3, R3 end.
  all: try match goal with c : cmd |- _ => destruct c end; cbn [pcquit] in Q3.
  all: try discriminate.
  all: try (pcs_facts I).
  all: try (ack_facts I).
  all: try (specialize (R1 ltac:(assumption))).
  all: try (specialize (R2 ltac:(lia))).
  all: try (specialize (R3 eq_refl)).
  (* transitions without a push *)
  all: try (apply (lt_local1 _ _ (S t) HtN); [solve [other_phi]|]; phi_norm; fin).
  (* pushes to the parent *)
  all: try match goal with Hp : parent (S ?t') = Some ?p |- mu (set_th (push _ ?p ?c false) _ _) < _ =>
         destruct (parent_le N parent Htree (S t') p Hc Hp) as (HpN & Hplt);
         apply (lt_push _ _ (S t') p c false HtN HpN ltac:(lia));
           [solve [other_phi] | crunch; try reflexivity; lia | crunch; try reflexivity; lia | ];
         phi_norm; fin end.
  (* pushes to a child *)
  all: match goal with
       | Hpc : pc (th _ (S ?t')) = PFwd ?w ?k ?rest, Hm : mem_tid ?x ?rest = true |- _ =>
           fwd_facts I;
           destruct (e_fwd _ _ _ I (S t') w k rest HtN Hpc) as (_ & Hnd & _);
           assert (Hin : In x rest) by (apply mem_tid_In; exact Hm);
           pose proof (fsum_remove N parent w x rest Hnd Hin) as Hfs;
           apply (lt_push _ _ (S t') x (fwd_cmd w) (fwd_purge w) HtN (helper_le _ _ Fh) ltac:(congruence));
             [solve [other_phi] | crunch; try reflexivity; congruence | crunch; try reflexivity; congruence | ]
       end.
  all: phi_norm; rewrite ?wfw_cmd.
  all: cbn [wfw] in Hfs;
       rewrite ?(wI_unfold N parent Htree), ?(wP_unfold N parent Htree), ?(wS_unfold N parent Htree _ 0%Z) in Hfs.
  all: match goal with Hr : remove_tid _ _ = _ |- _ => rewrite Hr in Hfs end.
  all: fs_norm.
  all: rewrite Hfs; rewrite ?fsum_nil.
  all: fin.
Qed.

(** ---- the engine thread in the stop phase ---- *)
Definition Stop (s : state) : Prop := mphase (pc (th s 0)) = Some PhStop.
Definition Idle (s : state) : Prop := mphase (pc (th s 0)) = Some PhIdle.

(** states in which every transition of the engine thread makes progress ... *)
Definition good0 (s : state) : Prop :=
  pc (th s 0) = PStopNotify KAck \/ (exists rest, pc (th s 0) = PFwd FStop KAck rest) \/
  (pc (th s 0) = PPoll KAck /\ (qu s 0 <> [] \/ hasStopAck (th s 0) = true)).
(** ... and the one from which its wake-up leads to such a state *)
Definition semi (s : state) : Prop := pc (th s 0) = PWait KAck /\ qu s 0 <> [].

Ltac stepm_inv H :=
  cbn [Workers.step] in H; unfold step_m, handle_m, enter_fwd_m, finish_fwd_m in H;
  break_H H; inversion H; subst; clear H.

Lemma mu_step_m : forall s a s', InvE s -> Stop s -> step s 0 a = Some s' ->
  Idle s' \/
  (Stop s' /\
   ((mu s' < mu s /\ pc (th s 0) <> PWait KAck) \/
    (mu s' = mu s /\ pc (th s 0) = PWait KAck /\ pc (th s' 0) = PPoll KAck /\ qu s' 0 = qu s 0) \/
    (mu s' = mu s /\ pc (th s 0) = PPoll KAck /\ qu s 0 = [] /\ hasStopAck (th s 0) = false /\
     pc (th s' 0) = PWait KAck))).
Proof.
  intros s a s' I Hm H. unfold Stop, Idle in *.
  stepm_inv H; cbn [mphase] in Hm; try discriminate.
  all: repeat match type of Hm with context [match ?x with _ => _ end] => destruct x; try discriminate end.
  all: try (left; reflexivity).
  all: right; (split; [ssimpl; rewrite upd_same; ssimpl; try rewrite Heqp; reflexivity|]).
  (* the idle cycle of the ack loop *)
  all: try (right; left; split; [apply mu_same; intros v; unfold WorkersMeasure.phi, extra; destruct v; crunch; use_eqs; reflexivity
                                | repeat split; crunch; auto]; fail).
  all: try (right; right; split; [apply mu_same; intros v; unfold WorkersMeasure.phi, extra; destruct v; crunch; use_eqs; reflexivity
                                 | repeat split; crunch; auto]; fail).
  all: left; (split; [|discriminate]).
  (* mailbox pops, notifyThread *)
  all: try (apply (lt_local1 _ _ 0 (Nat.le_0_l _)); [solve [other_phi]|]; phi_norm;
            try match goal with |- context [WorkersMeasure.wmsg _ _ 0 ?m] => pose proof (wmsg_pos N parent Htree 0 m) end;
            fin).
  (* STOP pushed to a child *)
  all: match goal with
       | Hpc : pc (th _ 0) = PFwd ?w ?k ?rest, Hm : mem_tid ?x ?rest = true |- _ =>
           fwd_facts I;
           destruct (e_fwd _ _ _ I 0 w k rest (Nat.le_0_l _) Hpc) as (_ & Hnd & _);
           assert (Hin : In x rest) by (apply mem_tid_In; exact Hm);
           pose proof (fsum_remove N parent w x rest Hnd Hin) as Hfs;
           apply (lt_push _ _ 0 x (fwd_cmd w) (fwd_purge w) (Nat.le_0_l _) (helper_le _ _ Fh) ltac:(congruence));
             [solve [other_phi] | crunch; try reflexivity; congruence | crunch; try reflexivity; congruence | ]
       end.
  all: phi_norm; rewrite ?wfw_cmd.
  all: cbn [wfw] in Hfs; rewrite ?(wP_unfold N parent Htree) in Hfs.
  all: match goal with Hr : remove_tid _ _ = _ |- _ => rewrite Hr in Hfs end.
  all: rewrite Hfs; rewrite ?fsum_nil.
  all: fin.
Qed.

(** the UCI thread does not touch the measure *)
Lemma mu_estep : forall s e s', estep s e = Some s' -> mu s' = mu s /\ pc (th s' 0) = pc (th s 0).
Proof.
  intros s e s' H. split.
  - apply mu_same. intros v. unfold WorkersMeasure.phi, extra. destruct v; step_inv H; crunch; reflexivity.
  - step_inv H; crunch; reflexivity.
Qed.
End P.
