(** C10 — soundness of the trace checker's reconfiguration step (setoption Threads between
    searches): in a quiet state the UCI thread may destroy / create workers; the resulting state
    satisfies every invariant for the NEW tree, so all theorems keep holding afterwards. *)
From Coq Require Import ZArith List Bool Arith Lia.
From Texel Require Import Workers.Workers Workers.WorkersLemmas Workers.WorkersInv Workers.WorkersInvProofs
  Workers.WorkersInvMain Workers.WorkersTac Workers.WorkersJob Workers.WorkersWake Workers.WorkersDead
  Workers.WorkersTheorems Workers.Checker.
Import ListNotations.

(** nothing is going on: all round counters equal, no job, empty mailboxes *)
Definition quiet_state (N : nat) (s : state) : Prop :=
  exists R,
    sid s = R /\ nbest s = R /\ search s = false /\ quitf s = false /\ epc s = EIdle /\
    qu s 0 = [] /\
    (se (th s 0) = R /\ ae (th s 0) = R /\ self (th s 0) = false /\ wc (th s 0) = 0%Z /\
     qa (th s 0) = (-1)%Z /\ (0 <= job (th s O))%Z /\
     (pc (th s 0) = PWait KTop \/ pc (th s 0) = MRdQuit \/ pc (th s 0) = MRdSearch)) /\
    forall c, helper N c ->
      se (th s c) = R /\ ae (th s c) = R /\ job (th s c) = (-1)%Z /\ self (th s c) = false /\
      wc (th s c) = 0%Z /\ qa (th s c) = (-1)%Z /\ qu s c = [] /\
      (pc (th s c) = PWait KMain \/ pc (th s c) = PPoll KMain).

Section R.
Variable N : nat.
Variable parent : tid -> option tid.
Hypothesis Htree : tree_ok N parent.

Lemma quiet_pending : forall s R p, p <= N ->
  (forall c, helper N c -> ae (th s c) = R /\ qu s c = []) -> se (th s p) = R -> qu s p = [] ->
  npending N parent s p = 0.
Proof.
  intros s R p Hp Hh Hse Hq. unfold npending.
  rewrite (count_ext _ (fun _ => false)).
  - induction (children N parent p); simpl; auto.
  - intros c Hc. apply in_children in Hc. destruct Hc as (Hc & _).
    unfold pendingb. destruct (Hh c Hc) as (A & _). rewrite A, Hse, Hq, acks_nil. apply Nat.ltb_ge. lia.
Qed.

Theorem quiet_inv : forall s, quiet_state N s -> Inv N parent s /\ InvD N s.
Proof.
  intros s (R & Hsid & Hnb & Hse & Hqf & Hep & Hq0 & (M1 & M2 & M3 & M4 & M5 & M6 & Mpc) & Hh).
  assert (Hall : forall t, t <= N -> se (th s t) = R /\ qu s t = [] /\ wc (th s t) = 0%Z).
  { intros t Ht. destruct t; [auto|]. destruct (Hh (S t)) as (A & B & C & D & E & F & G & H); [unfold helper; lia|auto]. }
  assert (Hpc0 : forall w k r, pc (th s 0) <> PFwd w k r) by (intros w k r E; destruct Mpc as [X|[X|X]]; congruence).
  assert (Hpch : forall c, helper N c -> forall w k r, pc (th s c) <> PFwd w k r).
  { intros c Hc w k r E. destruct (Hh c Hc) as (_ & _ & _ & _ & _ & _ & _ & [X|X]); congruence. }
  assert (Hpct : forall t, t <= N -> forall w k r, pc (th s t) <> PFwd w k r).
  { intros t Ht. destruct t; [apply Hpc0|apply Hpch; unfold helper; lia]. }
  split; [split; [|split]|].
  - (* InvE *)
    constructor.
    + exists PhIdle. split; [destruct Mpc as [X|[X|X]]; rewrite X; reflexivity | simpl; lia].
    + intros t Ht. destruct (Hall t Ht) as (A & _). lia.
    + intros c Hc. destruct (Hh c Hc) as (A & B & _). lia.
    + intros c p Hc Hp. destruct (Hh c Hc) as (A & _ & _ & _ & _ & _ & G & _).
      destruct (parent_le N parent Htree c p Hc Hp) as (HpN & _). destruct (Hall p HpN) as (B & _).
      rewrite A, B, G. simpl.
      assert (owes (pc (th s p)) c = false).
      { destruct p. - destruct Mpc as [X|[X|X]]; rewrite X; reflexivity.
        - destruct (Hh (S p)) as (_ & _ & _ & _ & _ & _ & _ & [X|X]); [unfold helper in *; lia| |]; rewrite X; reflexivity. }
      rewrite H. cbn. lia.
    + intros c Hc _. destruct (Hh c Hc) as (_ & _ & _ & D & E & _ & _ & [X|X]); rewrite X; auto.
    + intros c Hc X. destruct (Hh c Hc) as (_ & _ & _ & _ & _ & _ & _ & [Y|Y]); rewrite Y in X; discriminate.
    + intros p Hp. destruct (Hall p Hp) as (A & B & C). rewrite C.
      rewrite (quiet_pending s R p Hp); auto. intros c Hc. destruct (Hh c Hc) as (_ & X & _ & _ & _ & _ & Y & _). auto.
    + intros c p Hc Hp. destruct (Hh c Hc) as (_ & B & _).
      destruct (parent_le N parent Htree c p Hc Hp) as (HpN & _). destruct (Hall p HpN) as (A & Q & _).
      rewrite A, B, Q, acks_nil. lia.
    + intros c p Hc Hp X. destruct (parent_le N parent Htree c p Hc Hp) as (HpN & _).
      destruct (Hall p HpN) as (_ & Q & _). rewrite Q, acks_nil in X. lia.
    + intros t w k r Ht E. exfalso. eapply Hpct; eauto.
    + intros t m Ht Hin. destruct (Hall t Ht) as (_ & Q & _). rewrite Q in Hin. destruct Hin.
    + intros t Ht. destruct t.
      * destruct Mpc as [X|[X|X]]; rewrite X; exact I.
      * destruct (Hh (S t)) as (_ & _ & _ & _ & _ & _ & _ & [X|X]); [unfold helper; lia| |]; rewrite X; exact I.
    + intros c Hc. destruct (Hh c Hc) as (_ & _ & _ & _ & _ & _ & G & _). rewrite G. exact I.
    + intros c m Hc Hin. destruct (Hh c Hc) as (_ & _ & _ & _ & _ & _ & G & _). rewrite G in Hin. destruct Hin.
    + intros t w k r Ht E. exfalso. eapply Hpct; eauto.
  - (* InvJ *)
    constructor.
    + exact M6.
    + intros c Hc X. destruct (Hh c Hc) as (_ & _ & C & _). congruence.
    + intros c j Hc Hin. destruct (Hh c Hc) as (_ & _ & _ & _ & _ & _ & G & _). rewrite G in Hin. destruct Hin.
    + intros t j k r Ht E. exfalso. eapply Hpct; eauto.
    + intros c j Hc X. destruct (Hh c Hc) as (_ & _ & _ & _ & _ & _ & _ & [Y|Y]); rewrite Y in X; discriminate.
    + intros t Ht. destruct (Hall t Ht) as (_ & Q & _). rewrite Q. exact I.
    + intros c j sd f k Hc X. destruct (Hh c Hc) as (_ & _ & _ & _ & _ & _ & _ & [Y|Y]); rewrite Y in X; discriminate.
  - (* InvL *)
    constructor.
    + intros c Hc X. destruct (Hh c Hc) as (_ & _ & _ & _ & _ & _ & G & _). congruence.
    + intros c j Hc X. destruct (Hh c Hc) as (_ & _ & _ & _ & _ & _ & _ & [Y|Y]); rewrite Y in X; discriminate.
    + intros c Hc _. destruct (Hh c Hc) as (_ & _ & C & D & _). split; auto; intros X; congruence.
    + intros [X|X]; destruct Mpc as [Y|[Y|Y]]; congruence.
    + intros _ [X|X]; congruence.
    + intros _ X. congruence.
    + intros X. congruence.
    + intros X. destruct Mpc as [Y|[Y|Y]]; rewrite Y in X; discriminate.
  - (* InvD *)
    constructor.
    + intros c Hc. destruct (Hh c Hc) as (_ & _ & _ & _ & _ & _ & _ & [X|X]); rewrite X; reflexivity.
    + intros _ c Hc. destruct (Hh c Hc) as (_ & _ & _ & _ & _ & F & G & [X|X]); rewrite X, G;
        (repeat split; auto; intros m []).
    + intros c Hc X. destruct (Hh c Hc) as (A & B & _). lia.
    + intros [X|X]; destruct Mpc as [Y|[Y|Y]]; congruence.
    + intros X. destruct Mpc as [Y|[Y|Y]]; congruence.
Qed.
End R.

(** the checker's reconfiguration: from a state of the old tree that passes the executable
    quiescence test, [reconf] yields a quiet state for ANY new number of helpers *)
Theorem reconf_quiet : forall N parent s keep N',
  tree_ok N parent -> Inv N parent s -> quiescentb N s = true ->
  (forall t, keep t = true -> helper N t) ->
  quiet_state N' (reconf s keep).
Proof.
  intros N parent s keep N' Htree (I & J & L) Hq Hk.
  unfold quiescentb in Hq. rewrite !andb_true_iff in Hq.
  destruct Hq as ((((((((Q1 & Q2) & Q3) & Q4) & Q5) & Q6) & Q7) & Q8) & Q9).
  apply negb_true_iff in Q1. apply negb_true_iff in Q2. apply negb_true_iff in Q5.
  apply Z.eqb_eq in Q6. apply Z.eqb_eq in Q7.
  assert (Hpc : pc (th s 0) = PWait KTop \/ pc (th s 0) = MRdQuit \/ pc (th s 0) = MRdSearch).
  { destruct (pc (th s 0)); try discriminate; auto. destruct k; try discriminate; auto. }
  clear Q4.
  assert (Hidle : master_idle s) by (unfold master_idle; destruct Hpc as [X|[X|X]]; rewrite X; reflexivity).
  destruct (idle_epochs N parent s I Hidle) as (E1 & E2 & E3).
  exists (sid s). unfold reconf; cbn [sid nbest search quitf epc qu th].
  split; [reflexivity|]. split; [lia|]. split; [auto|]. split; [auto|].
  split; [destruct (epc s); try discriminate; auto|].
  split; [destruct (qu s 0); try discriminate; auto|].
  split; [repeat split; auto; try lia; apply (j_job0 _ _ J)|].
  intros c Hc. destruct c as [|c']; [unfold helper in Hc; lia|].
  destruct (keep (S c')) eqn:Ek.
  - pose proof (Hk _ Ek) as Hh.
      destruct (quiet_all N parent s I E2 (S c') Hh) as (A & B).
      assert (Hqb : helper_quietb s (S c') = true).
      { rewrite forallb_forall in Q9. apply Q9. apply in_seq. unfold helper in Hh. lia. }
      unfold helper_quietb in Hqb. rewrite !andb_true_iff in Hqb.
      destruct Hqb as (((((K1 & K2) & K3) & K4) & K5) & K6).
      apply Z.eqb_eq in K1. apply negb_true_iff in K2. apply Z.eqb_eq in K3. apply Z.eqb_eq in K4.
      repeat split; auto; try lia.
      * destruct (qu s (S c')); try discriminate; auto.
      * destruct (pc (th s (S c'))); try discriminate; destruct k; try discriminate; auto.
  - cbn. repeat split; auto; lia.
Qed.

(** hence every invariant (and with it every C10 theorem) holds again for the new tree *)
Corollary reconf_inv : forall N parent s keep N' parent',
  tree_ok N parent -> tree_ok N' parent' -> Inv N parent s -> quiescentb N s = true ->
  (forall t, keep t = true -> helper N t) ->
  Inv N' parent' (reconf s keep) /\ InvD N' (reconf s keep).
Proof.
  intros N parent s keep N' parent' T T' I Q K. apply quiet_inv; auto.
  exact (reconf_quiet N parent s keep N' T I Q K).
Qed.

(** every state reachable after such a reconfiguration satisfies the invariants of the new tree;
    the C10 theorems are stated for [Inv] states ([WorkersTheorems.*_inv]) and so keep holding *)
Theorem reconfiguration_sound : forall N parent s keep N' parent',
  tree_ok N parent -> tree_ok N' parent' -> reach N parent s -> quiescentb N s = true ->
  (forall t, keep t = true -> helper N t) ->
  forall s', reachF N' parent' (reconf s keep) s' ->
  Inv N' parent' s' /\
  (master_idle s' -> forall c, helper N' c -> helper_idle s' c) /\
  (nbest s' <= sid s' <= S (nbest s')).
Proof.
  intros N parent s keep N' parent' T T' R Q K s' RF.
  pose proof (reach_inv N parent T s R) as I.
  destruct (reconf_inv N parent s keep N' parent' T T' I Q K) as (I' & _).
  pose proof (reachF_inv N' parent' T' _ _ I' RF) as I''.
  split; auto. split.
  - intros Hm. apply (no_stale_search_inv N' parent' T' s' I'' Hm).
  - apply (one_bestmove_inv N' parent' s' I'').
Qed.
