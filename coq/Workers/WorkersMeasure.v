(** C10 — the termination measure of the stop-acknowledgement phase (definitions and algebra).

    [mu s] is a sum of per-thread potentials.  Every state-changing transition of a helper
    thread and every transition of the engine thread other than its idle wake-up cycle in the
    ack-collection loop strictly decreases it, no transition of the UCI thread changes it
    (WorkersMeasureProofs).  Ingredients (the coordinator's list):
      - queued commands: every mailbox entry carries a weight; a command that is forwarded down
        the tree ([CInit]/[CStart]/[CStop]) carries the weight of the whole sub-tree it still has
        to visit ([wd], defined by recursion over the communicator tree);
      - outstanding acks: a helper that has entered a stop round and has not yet started to
        send its STOP_ACK holds 6 units; an ack / report about to be pushed holds 5;
      - helpers still in search: the poll loops (2 in mainLoop, 1 in doSearch, 0 when waiting),
        an unsent result ([hasres = false]) holds 6;
      - notifier flags: a set flag of a helper holds 3 (it buys one wake-up and one empty poll).
    The engine thread's own flag and its position in the wait/poll cycle of the ack loop are
    deliberately NOT part of the measure: setoption can notify the engine thread at any time. *)
From Coq Require Import ZArith List Bool Arith Lia.
From Texel Require Import Workers.Workers Workers.WorkersLemmas Workers.WorkersInv Workers.WorkersInvProofs.
Import ListNotations.

(** ---- sums ---- *)
Lemma sum_ext : forall (f g : nat -> nat) l, (forall v, In v l -> g v = f v) ->
  list_sum (map g l) = list_sum (map f l).
Proof.
  induction l as [|a l IH]; simpl; intros H; auto.
Qed.

Lemma sum_ext1 : forall (f g : nat -> nat) l t, NoDup l -> In t l ->
  (forall v, In v l -> v <> t -> g v = f v) ->
  list_sum (map g l) + f t = list_sum (map f l) + g t.
Proof.
  induction l as [|a l IH]; simpl; intros t Hnd Hin H; [tauto|].
  inversion Hnd as [|? ? Hna Hnd']; subst.
  destruct (Nat.eq_dec a t) as [->|Hne].
  - rewrite (sum_ext f g l); [lia|]. intros v Hv. apply H; auto. intros ->. tauto.
  - destruct Hin as [E|Hin]; [congruence|].
    rewrite (H a) by auto. specialize (IH t Hnd' Hin (fun v Hv => H v (or_intror Hv))). lia.
Qed.

Lemma sum_ext2 : forall (f g : nat -> nat) l t x, NoDup l -> In t l -> In x l -> t <> x ->
  (forall v, In v l -> v <> t -> v <> x -> g v = f v) ->
  list_sum (map g l) + f t + f x = list_sum (map f l) + g t + g x.
Proof.
  induction l as [|a l IH]; simpl; intros t x Hnd Ht Hx Htx H; [tauto|].
  inversion Hnd as [|? ? Hna Hnd']; subst.
  destruct (Nat.eq_dec a t) as [->|Hat].
  - destruct Hx as [E|Hx]; [congruence|].
    assert (X := sum_ext1 f g l x Hnd' Hx). rewrite <- Nat.add_assoc.
    assert (Y : forall v, In v l -> v <> x -> g v = f v).
    { intros v Hv Hvx. apply H; auto. intros ->. tauto. }
    specialize (X Y). lia.
  - destruct (Nat.eq_dec a x) as [->|Hax].
    + destruct Ht as [E|Ht]; [congruence|].
      assert (X := sum_ext1 f g l t Hnd' Ht).
      assert (Y : forall v, In v l -> v <> t -> g v = f v).
      { intros v Hv Hvt. apply H; auto. intros ->. tauto. }
      specialize (X Y). lia.
    + destruct Ht as [E|Ht]; [congruence|]. destruct Hx as [E|Hx]; [congruence|].
      rewrite (H a) by auto.
      specialize (IH t x Hnd' Ht Hx Htx (fun v Hv => H v (or_intror Hv))). lia.
Qed.

Section M.
Variable N : nat.
Variable parent : tid -> option tid.
Notation children := (children N parent).

(** weight of a command that still has to travel down the sub-tree below [v]: [base] for the
    handler at [v] plus, for every child, the cost of the push (weight + flag 3 + 1) *)
Fixpoint wd (fuel base : nat) (v : tid) : nat :=
  match fuel with
  | 0 => base
  | S f => base + list_sum (map (fun x => wd f base x + 4) (children v))
  end.
Definition wI (v : tid) : nat := wd (S N) 1 v.
Definition wS (v : tid) : nat := wd (S N) 7 v.
Definition wP (v : tid) : nat := wd (S N) 11 v.

Definition wfw (w : fwd) (x : tid) : nat :=
  match w with FInit => wI x | FStart _ => wS x | FStop => wP x | FQuit => 1 end.
Definition wmsg (v : tid) (m : cmd) : nat :=
  match m with CInit => wI v | CStart _ => wS v | CStop => wP v | _ => 1 end.
Definition qw (v : tid) (q : list cmd) : nat := list_sum (map (wmsg v) q).
(** cost of the pushes a forwarding loop still has to do *)
Definition fsum (w : fwd) (rest : list tid) : nat := list_sum (map (fun x => wfw w x + 4) rest).

Definition pollw (v : tid) (k : ctx) : nat :=
  match v with
  | 0 => 0
  | S _ => match k with KMain => 2 | KSearch _ => 1 | _ => 0 end
  end.
Definition fin_cost (w : fwd) : nat := match w with FStart _ => 6 | _ => 0 end.
Definition pcw (v : tid) (p : pcT) : nat :=
  match p with
  | PPoll k => pollw v k
  | PFwd w k rest => pollw v k + fin_cost w + fsum w rest
  | PStopNotify k => pollw v k + 4 + fsum FStop (children v)
  | PSend _ k => pollw v k + 5
  | PSendW _ => 5
  | _ => 0
  end.
Definition extra (s : state) (v : tid) : nat :=
  match v with
  | 0 => 0
  | S _ =>
      (if flag s v then 3 else 0) + (if hasres (th s v) then 0 else 6) +
      (if (se (th s v) =? S (ae (th s v))) && negb (sendack (pc (th s v))) then 6 else 0)
  end.
Definition phi (s : state) (v : tid) : nat :=
  pcw v (pc (th s v)) + qw v (qu s v) + extra s v.
Definition mu (s : state) : nat := list_sum (map (phi s) (seq 0 (S N))).

(** ---- the recursion over the tree ---- *)
Hypothesis Htree : tree_ok N parent.

Lemma child_gt : forall v x, In x (children v) -> v < x /\ x <= N.
Proof.
  intros v x H. apply in_children in H. destruct H as (Hx & Hp).
  destruct (Htree x Hx) as (p & Hp' & Hlt). rewrite Hp in Hp'. injection Hp' as <-. lia.
Qed.

Lemma wd_stable : forall f b v, N < v + f -> wd f b v = wd (S f) b v.
Proof.
  induction f as [|f IH]; intros b v H.
  - simpl. destruct (children v) as [|x l] eqn:E; [simpl; lia|].
    assert (X : In x (children v)) by (rewrite E; left; auto). apply child_gt in X. lia.
  - change (wd (S (S f)) b v) with (b + list_sum (map (fun x => wd (S f) b x + 4) (children v))).
    change (wd (S f) b v) with (b + list_sum (map (fun x => wd f b x + 4) (children v))).
    f_equal. f_equal. apply map_ext_in. intros x Hx. apply child_gt in Hx. rewrite IH; auto. lia.
Qed.

Lemma wd_unfold : forall b v,
  wd (S N) b v = b + list_sum (map (fun x => wd (S N) b x + 4) (children v)).
Proof.
  intros b v.
  change (wd (S N) b v) with (b + list_sum (map (fun x => wd N b x + 4) (children v))) at 1.
  f_equal. f_equal. apply map_ext_in. intros x Hx. apply child_gt in Hx. rewrite wd_stable; auto. lia.
Qed.

Lemma wI_unfold : forall v, wI v = 1 + fsum FInit (children v).
Proof. intros; unfold wI, fsum. rewrite wd_unfold at 1. reflexivity. Qed.
Lemma wS_unfold : forall v j, wS v = 7 + fsum (FStart j) (children v).
Proof. intros; unfold wS, fsum. rewrite wd_unfold at 1. reflexivity. Qed.
Lemma wP_unfold : forall v, wP v = 11 + fsum FStop (children v).
Proof. intros; unfold wP, fsum. rewrite wd_unfold at 1. reflexivity. Qed.

Lemma fsum_remove : forall w x rest, NoDup rest -> In x rest ->
  fsum w rest = wfw w x + 4 + fsum w (remove_tid x rest).
Proof.
  intros w x. induction rest as [|a l IH]; intros Hnd Hin; [destruct Hin|].
  inversion Hnd as [|? ? Hna Hnd']; subst. unfold fsum in *. simpl.
  destruct (Nat.eqb_spec a x) as [->|Hne]; simpl.
  - assert (E : remove_tid x l = l).
    { unfold remove_tid. clear IH Hnd Hnd' Hin. induction l as [|b l IHl]; simpl; auto.
      destruct (Nat.eqb_spec b x) as [->|]; simpl; [exfalso; apply Hna; left; auto|].
      f_equal. apply IHl. intros H. apply Hna. right; auto. }
    fold (remove_tid x l). rewrite E. lia.
  - destruct Hin as [E|Hin]; [congruence|]. fold (remove_tid x l). rewrite (IH Hnd' Hin). lia.
Qed.

Lemma wfw_cmd : forall w x, wmsg x (fwd_cmd w) = wfw w x.
Proof. destruct w; reflexivity. Qed.

(** ---- mailboxes ---- *)
Lemma qw_app : forall v q m, qw v (q ++ [m]) = qw v q + wmsg v m.
Proof. intros; unfold qw. rewrite map_app, list_sum_app. simpl. lia. Qed.
Lemma qw_purge : forall v q, qw v (purge q) <= qw v q.
Proof.
  intros v q; unfold qw, purge. induction q as [|a q IH]; simpl; auto.
  destruct (negb (purged a)); simpl; lia.
Qed.
Lemma qw_cons : forall v m q, qw v (m :: q) = wmsg v m + qw v q.
Proof. reflexivity. Qed.
Lemma wmsg_pos : forall v m, 1 <= wmsg v m.
Proof.
  intros v m. destruct m; simpl; auto.
  - rewrite wI_unfold; lia.
  - rewrite (wS_unfold v 0%Z); lia.
  - rewrite wP_unfold; lia.
Qed.

(** the potential of the target of a push grows by at most the weight of the command plus
    the notifier flag *)
Lemma phi_push : forall s x c (pg : bool) s',
  th s' x = th s x -> qu s' x = (if pg then purge (qu s x) else qu s x) ++ [c] ->
  phi s' x <= phi s x + wmsg x c + 3.
Proof.
  intros s x c pg s' Ht Hq. unfold phi, extra. rewrite Ht, Hq, qw_app.
  assert (qw x (if pg then purge (qu s x) else qu s x) <= qw x (qu s x)).
  { destruct pg; auto. apply qw_purge. }
  destruct x; [lia|].
  destruct (flag s' (S x)), (flag s (S x)); lia.
Qed.
Lemma phi_push0 : forall s c s',
  th s' 0 = th s 0 -> qu s' 0 = qu s 0 ++ [c] ->
  phi s' 0 = phi s 0 + wmsg 0 c.
Proof.
  intros s c s' Ht Hq. unfold phi, extra. rewrite Ht, Hq, qw_app. lia.
Qed.

(** ---- local changes of the sum ---- *)
Lemma mu_local1 : forall s s' t, t <= N -> (forall v, v <> t -> phi s' v = phi s v) ->
  mu s' + phi s t = mu s + phi s' t.
Proof.
  intros s s' t Ht H. unfold mu. apply sum_ext1; [apply seq_NoDup | apply in_seq; lia | auto].
Qed.
Lemma mu_local2 : forall s s' t x, t <= N -> x <= N -> t <> x ->
  (forall v, v <> t -> v <> x -> phi s' v = phi s v) ->
  mu s' + phi s t + phi s x = mu s + phi s' t + phi s' x.
Proof.
  intros s s' t x Ht Hx Htx H. unfold mu.
  apply sum_ext2; [apply seq_NoDup | apply in_seq; lia | apply in_seq; lia | auto | auto].
Qed.
Lemma mu_same : forall s s', (forall v, phi s' v = phi s v) -> mu s' = mu s.
Proof. intros s s' H. unfold mu. apply sum_ext. auto. Qed.

End M.
