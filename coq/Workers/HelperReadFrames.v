(** C09 — helper reads: what one transition of the control LTS can change (any communicator
    tree), and the sub-tree structure the STOP_ACK traffic follows. *)
From Coq Require Import ZArith List Bool Arith Lia.
From Texel Require Import Workers.Workers Workers.WorkersLemmas Workers.WorkersInv Workers.WorkersInvProofs
  Workers.WorkersTac Workers.WorkersJob Workers.WorkersWake Workers.WorkersTheorems.
Import ListNotations.

(** in the middle of forwarding START_SEARCH *)
Definition fwdstart (pcv : pcT) : bool :=
  match pcv with PFwd (FStart _) _ _ => true | _ => false end.

(** the helper's doSearch entry (the transition that reads the options and the table) *)
Definition reads_now (s : state) (c : tid) : bool :=
  match pc (th s c) with
  | PPoll KMain => negb (qa (th s c) =? 0)%Z && negb (job (th s c) =? -1)%Z
  | _ => false
  end.

(** communicator p is inside a stop round, child c has acknowledged this round and p has taken
    the acknowledgement from its mailbox *)
Definition ackdone (s : state) (p c : tid) : Prop :=
  se (th s p) = S (ae (th s p)) /\ ae (th s c) = se (th s p) /\ acks c (qu s p) = 0.

Section FR.
Variable N : nat.
Variable parent : tid -> option tid.
Hypothesis Htree : tree_ok N parent.
Notation InvE := (InvE N parent).
Notation helper := (helper N).
Notation lstep := (lstep N parent).

(** d is in the sub-tree rooted at c *)
Inductive below (c : tid) : tid -> Prop :=
| below_refl : below c c
| below_step : forall d m, helper d -> parent d = Some m -> below c m -> below c d.

Lemma below_hlp : forall c d, helper c -> below c d -> helper d.
Proof. intros c d Hc B. destruct B; auto. Qed.

Lemma below_ge : forall c d, helper c -> below c d -> c <= d.
Proof.
  intros c d Hc B. induction B as [|d m Hd Hp B IH]; auto.
  destruct (parent_le N parent Htree d m Hd Hp) as (_ & Hlt). lia.
Qed.

(** from the top: d is c itself or lies below one of c's children *)
Lemma below_top : forall c d, below c d ->
  d = c \/ exists h, helper h /\ parent h = Some c /\ below h d.
Proof.
  intros c d B. induction B as [|d m Hd Hp B IH]; auto.
  right. destruct IH as [->|(h & Hh & Hhp & Bh)].
  - exists d. split; auto. split; auto. constructor.
  - exists h. split; auto. split; auto. econstructor; eauto.
Qed.

(** every helper lies below a child of the engine thread *)
Lemma below_root_child : forall n d, d <= n -> helper d ->
  exists c, helper c /\ parent c = Some 0 /\ below c d.
Proof.
  induction n as [|n IH]; intros d Hdn Hd; [unfold WorkersInv.helper in Hd; lia|].
  destruct (Htree d Hd) as (p & Hp & Hlt).
  destruct p as [|p'].
  - exists d. split; auto. split; auto. constructor.
  - assert (Hph : helper (S p')) by (unfold WorkersInv.helper in *; lia).
    destruct (IH (S p') ltac:(lia) Hph) as (c & Hc & Hc0 & Bc).
    exists c. split; auto. split; auto. econstructor; eauto.
Qed.

(** a helper that has acknowledged its last round: so has its whole sub-tree *)
Lemma sub_settled : forall s c, InvE s -> helper c -> ae (th s c) = se (th s c) ->
  forall d, below c d -> se (th s d) = se (th s c) /\ ae (th s d) = se (th s c).
Proof.
  intros s c I Hc Ha d B. induction B as [|d m Hd Hp B IH]; [split; auto|].
  destruct IH as (S1 & A1).
  assert (Hm : helper m) by (apply (below_hlp c m Hc B)).
  destruct (e_a1 _ _ _ I m Hm ltac:(lia)) as (_ & W & _).
  destruct (child_settled N parent s m d I (helper_le _ _ Hm) W Hd Hp) as (A2 & S2 & _). lia.
Qed.

(** ---- frames ---- *)

(** START_SEARCH reaches a helper's mailbox only by a push of its parent, which is forwarding it *)
Lemma start_queue_frame : forall s lb s' c pp j, InvE s -> helper c -> parent c = Some pp ->
  lstep s lb = Some s' -> In (CStart j) (qu s' c) ->
  In (CStart j) (qu s c) \/ (lb = LT pp (APush c) /\ fwdstart (pc (th s pp)) = true).
Proof.
  intros s lb s' c pp j I Hc Hpp H Hin.
  assert (Hc0 : c <> 0) by (unfold WorkersInv.helper in Hc; lia).
  step_inv_fine H; crunch; auto.
  all: try (left; match goal with Hq : qu _ _ = _ :: _ |- _ => rewrite Hq end; right; assumption).
  all: try (pcs_facts I).
  all: try (fwd_facts I; assert (pp = 0) by congruence; subst pp).
  all: try (fwd_facts I; match goal with Hl : Nat.leb (S ?t) N = true |- _ =>
              assert (pp = S t) by congruence; subst pp end).
  all: try match goal with w : fwd |- _ => destruct w end; cbn [fwd_purge fwd_cmd] in Hin.
  all: apply in_app_or in Hin; destruct Hin as [Hin|[Hin|[]]];
       try (left; first [apply in_purge in Hin; tauto | exact Hin]); try discriminate.
  all: right; split; [reflexivity|]; use_eqs; reflexivity.
Qed.

(** a helper gets a job only by taking START_SEARCH from its mailbox *)
Lemma job_frame : forall s lb s' c, InvE s -> helper c -> lstep s lb = Some s' ->
  (job (th s' c) <> (-1)%Z \/ fwdstart (pc (th s' c)) = true) ->
  (job (th s c) <> (-1)%Z \/ fwdstart (pc (th s c)) = true) \/
  (lb = LT c APop /\ exists j r, qu s c = CStart j :: r).
Proof.
  intros s lb s' c I Hc H Hj.
  assert (Hc0 : c <> 0) by (unfold WorkersInv.helper in Hc; lia).
  step_inv_fine H; crunch; auto.
  all: try (right; split; [reflexivity|]; eauto; fail).
  all: use_eqs; cbn [fwdstart] in *; auto.
  all: try (destruct Hj as [Hj|Hj]; [exfalso; apply Hj; reflexivity | discriminate]).
Qed.

(** a STOP_ACK of helper c gets into its parent's mailbox only by c's own push *)
Lemma ack_frame : forall s lb s' c pp, InvE s -> helper c -> parent c = Some pp ->
  lstep s lb = Some s' -> 1 <= acks c (qu s' pp) ->
  1 <= acks c (qu s pp) \/ (lb = LT c (APush pp) /\ sendack (pc (th s c)) = true).
Proof.
  intros s lb s' c pp I Hc Hpp H Ha.
  assert (Hc0 : c <> 0) by (unfold WorkersInv.helper in Hc; lia).
  step_inv_fine H; crunch; auto.
  all: rewrite ?acks_app, ?acks_cons, ?acks_nil, ?acks_purge in *; try lia.
  all: try (pcs_facts I).
  all: try match goal with c0 : cmd |- _ => destruct c0 end; cbn [bump_ae is_ack_from fwd_cmd] in *;
       rewrite ?acks_app, ?acks_cons, ?acks_nil, ?acks_purge in *; cbn [is_ack_from] in *; try lia.
  all: try match goal with w : fwd |- _ => destruct w end; cbn [fwd_purge fwd_cmd] in *;
       rewrite ?acks_app, ?acks_cons, ?acks_nil, ?acks_purge in *; cbn [is_ack_from] in *; try lia.
  all: use_eqs; rewrite ?acks_app, ?acks_cons, ?acks_nil, ?acks_purge in *; cbn [is_ack_from] in *; try lia.
  all: eqb_cases; try lia.
  all: right; split; [reflexivity|]; use_eqs; reflexivity.
Qed.

(** "c has acknowledged p's current stop round and p has taken the acknowledgement" becomes true
    only when p takes c's STOP_ACK from its mailbox *)
Lemma acked_frame : forall s lb s' c pp, InvE s -> helper c -> parent c = Some pp ->
  lstep s lb = Some s' -> ackdone s' pp c ->
  ackdone s pp c \/ (lb = LT pp APop /\ exists r, qu s pp = CStopAck c :: r).
Proof.
  intros s lb s' c pp I Hc Hpp H (Hr & Ha & Hk). unfold ackdone.
  assert (Hc0 : c <> 0) by (unfold WorkersInv.helper in Hc; lia).
  destruct (parent_le N parent Htree c pp Hc Hpp) as (HppN & Hlt).
  pose proof (inv_child_le N parent s c pp I Hc Hpp) as CL.
  destruct (e_g2 _ _ _ I c Hc) as (_ & G2 & _).
  assert (G3 : se (th s pp) <= S (ae (th s pp))).
  { destruct pp as [|p']; [apply (inv_se0 N parent s I)|].
    apply (e_g2 _ _ _ I (S p')). unfold WorkersInv.helper in *; lia. }
  step_inv_fine H; crunch; auto.
  all: try lia.
  all: try (pcs_facts I).
  all: try match goal with c0 : cmd |- _ => destruct c0 end; cbn [bump_ae is_ack_from fwd_cmd] in *; ssimpl.
  all: try match goal with w : fwd |- _ => destruct w end; cbn [fwd_purge fwd_cmd] in *.
  all: use_eqs; rewrite ?acks_app, ?acks_cons, ?acks_nil, ?acks_purge in *; cbn [is_ack_from] in *.
  all: eqb_cases; try lia.
  all: try (right; split; [reflexivity|]; eexists; reflexivity).
  all: try (left; repeat split; auto; lia).
Qed.

(** the engine thread becomes idle only by passing the stop-ack barrier *)
Lemma idle_frame : forall s lb s', InvE s -> lstep s lb = Some s' -> master_idle s' ->
  master_idle s \/
  (lb = LT 0 APollEmpty /\ pc (th s 0) = PPoll KAck /\ hasStopAck (th s 0) = true /\ qu s 0 = []).
Proof.
  intros s lb s' I H Hm. unfold master_idle in *.
  step_inv_fine H; crunch; auto.
  all: try (left; phase_facts' I; reflexivity).
  all: use_eqs; cbn [mphase] in *; auto; try discriminate.
Qed.

End FR.
