(** C09 — helper reads: what one transition of the control LTS can change, for the single-level
    communicator tree (every helper thread is a child of the engine thread). *)
From Coq Require Import ZArith List Bool Arith Lia.
From Texel Require Import Workers.Workers Workers.WorkersLemmas Workers.WorkersInv Workers.WorkersInvProofs
  Workers.WorkersTac Workers.WorkersJob Workers.WorkersWake Workers.WorkersTheorems.
Import ListNotations.

Section FR.
Variable N : nat.
Variable parent : tid -> option tid.
Hypothesis Hflat : forall c, helper N c -> parent c = Some 0.
Notation InvE := (InvE N parent).
Notation helper := (helper N).
Notation lstep := (lstep N parent).

Lemma flat_tree : tree_ok N parent.
Proof. intros c Hc. exists 0. split; [apply Hflat; auto|]. lia. Qed.

Lemma flat_children : forall c, helper c -> children N parent c = [].
Proof.
  intros c Hc. destruct (children N parent c) as [|x l] eqn:E; auto. exfalso.
  assert (X : In x (children N parent c)) by (rewrite E; left; auto).
  apply in_children in X. destruct X as (Hx & Hp). rewrite (Hflat x Hx) in Hp.
  injection Hp as <-. unfold WorkersInv.helper in Hc. lia.
Qed.

Lemma flat_no_fwd : forall s c w k rest, InvE s -> helper c -> pc (th s c) = PFwd w k rest -> False.
Proof.
  intros s c w k rest I Hc Hpc.
  destruct (e_fwd _ _ _ I c w k rest (helper_le _ _ Hc) Hpc) as (Hne & _ & Hin).
  destruct rest as [|x r]; [congruence|]. specialize (Hin x (or_introl eq_refl)).
  rewrite (flat_children c Hc) in Hin. destruct Hin.
Qed.

(** START_SEARCH reaches a helper's mailbox only by a push of the (busy) engine thread *)
Lemma start_queue_frame : forall s lb s' c j, InvE s -> helper c -> lstep s lb = Some s' ->
  In (CStart j) (qu s' c) ->
  In (CStart j) (qu s c) \/ (lb = LT 0 (APush c) /\ WorkersWake.mbusy (pc (th s 0)) = true).
Proof.
  intros s lb s' c j I Hc H Hin.
  assert (Hc0 : c <> 0) by (unfold WorkersInv.helper in Hc; lia).
  step_inv_fine H; crunch; auto.
  (* helpers never forward; a helper's parent is the engine thread *)
  all: try match goal with Hl : Nat.leb (S ?t) N = true, Hpc : pc (th _ (S ?t)) = PFwd _ _ _ |- _ =>
         exfalso; apply (flat_no_fwd _ (S t) _ _ _ I (helper_leb N _ Hl) Hpc) end.
  all: try match goal with Hl : Nat.leb (S ?t) N = true, Hp : parent (S ?t) = Some ?p |- _ =>
         let X := fresh in pose proof (Hflat (S t) (helper_leb N _ Hl)) as X; rewrite Hp in X;
         injection X as X; try (exfalso; lia); try congruence end.
  all: try (left; match goal with Hq : qu _ _ = _ :: _ |- _ => rewrite Hq end; right; assumption).
  all: try (apply in_app_or in Hin; destruct Hin as [Hin|[Hin|[]]];
            [left; first [apply in_purge in Hin; tauto | exact Hin] | try discriminate]).
  all: try (right; split; reflexivity).
  destruct w; cbn [fwd_purge fwd_cmd] in Hin;
    (apply in_app_or in Hin; destruct Hin as [Hin|[Hin|[]]];
     [left; first [apply in_purge in Hin; tauto | exact Hin] | try discriminate]).
  right; split; reflexivity.
Qed.

(** a helper gets a job only by taking START_SEARCH from its mailbox *)
Lemma job_frame : forall s lb s' c, InvE s -> helper c -> lstep s lb = Some s' ->
  job (th s' c) <> (-1)%Z ->
  job (th s c) <> (-1)%Z \/ (lb = LT c APop /\ exists j r, qu s c = CStart j :: r).
Proof.
  intros s lb s' c I Hc H Hj.
  assert (Hc0 : c <> 0) by (unfold WorkersInv.helper in Hc; lia).
  step_inv_fine H; crunch; auto.
  all: try match goal with Hl : Nat.leb (S ?t) N = true, Hpc : pc (th _ (S ?t)) = PFwd _ _ _ |- _ =>
         exfalso; apply (flat_no_fwd _ (S t) _ _ _ I (helper_leb N _ Hl) Hpc) end.
  all: try (exfalso; apply Hj; reflexivity).
  all: try (right; split; [reflexivity|]; eauto).
Qed.

(** a STOP_ACK of helper c gets into the engine thread's mailbox only by c's own push *)
Lemma ack_frame : forall s lb s' c, InvE s -> helper c -> lstep s lb = Some s' ->
  1 <= acks c (qu s' 0) ->
  1 <= acks c (qu s 0) \/ lb = LT c (APush 0).
Proof.
  intros s lb s' c I Hc H Ha. pose proof flat_tree as Htree.
  assert (Hc0 : c <> 0) by (unfold WorkersInv.helper in Hc; lia).
  step_inv_fine H; crunch; auto.
  all: try match goal with Hl : Nat.leb (S ?t) N = true, Hpc : pc (th _ (S ?t)) = PFwd _ _ _ |- _ =>
         exfalso; apply (flat_no_fwd _ (S t) _ _ _ I (helper_leb N _ Hl) Hpc) end.
  all: rewrite ?acks_app, ?acks_cons, ?acks_nil in *; try lia.
  all: try (fwd_facts I; congruence).
  all: try (pcs_facts I).
  all: try match goal with c0 : cmd |- _ => destruct c0 end; cbn [bump_ae is_ack_from] in *;
       rewrite ?acks_app, ?acks_cons, ?acks_nil in *; cbn [is_ack_from] in *; try lia.
  all: try (rewrite Heql0, acks_nil in Ha; lia).
  all: try (fwd_facts I; congruence).
  all: eqb_cases; try (right; reflexivity); try lia.
Qed.
(** "c has acknowledged the engine thread's current stop round and the ack has been taken":
    becomes true only when the engine thread takes c's STOP_ACK from its mailbox *)
Lemma acked_frame : forall s lb s' c, InvE s -> helper c -> lstep s lb = Some s' ->
  mphase (pc (th s' 0)) = Some PhStop -> ae (th s' c) = se (th s' 0) -> acks c (qu s' 0) = 0 ->
  (mphase (pc (th s 0)) = Some PhStop /\ ae (th s c) = se (th s 0) /\ acks c (qu s 0) = 0) \/
  (lb = LT 0 APop /\ exists r, qu s 0 = CStopAck c :: r).
Proof.
  intros s lb s' c I Hc H Hm Ha Hk. pose proof flat_tree as Htree.
  assert (Hc0 : c <> 0) by (unfold WorkersInv.helper in Hc; lia).
  destruct (e_g1 _ _ _ I c (helper_le _ _ Hc)) as (_ & G1).
  destruct (e_g2 _ _ _ I c Hc) as (_ & G2 & _).
  step_inv_fine H; crunch; auto.
  all: use_eqs; cbn [mphase] in Hm; try discriminate.
  all: repeat match type of Hm with context [match ?x with _ => _ end] => destruct x; try discriminate end.
  all: try lia.
  all: try match goal with Hl : Nat.leb (S ?t) N = true, Hpc : pc (th _ (S ?t)) = PFwd _ _ _ |- _ =>
         exfalso; apply (flat_no_fwd _ (S t) _ _ _ I (helper_leb N _ Hl) Hpc) end.
  all: try (pcs_facts I).
  all: try match goal with c0 : cmd |- _ => destruct c0 end; cbn [bump_ae] in *; ssimpl.
  all: rewrite ?acks_app, ?acks_cons, ?acks_nil, ?acks_purge in *; cbn [is_ack_from] in *.
  all: eqb_cases; try lia.
  all: try (right; split; [reflexivity|]; eexists; reflexivity).
  all: try (left; repeat split; auto; lia).
  all: try (fwd_facts I; congruence).
  all: try (phase_facts' I; fail).
  all: try match goal with Hl : Nat.leb (S ?t) N = true, Hp : parent (S ?t) = Some ?p |- _ =>
         let X := fresh in pose proof (Hflat (S t) (helper_leb N _ Hl)) as X; rewrite Hp in X;
         injection X as X; congruence end.
Qed.

(** the engine thread becomes idle only by passing the stop-ack barrier *)
Lemma idle_frame : forall s lb s', InvE s -> lstep s lb = Some s' -> master_idle s' ->
  master_idle s \/
  (lb = LT 0 APollEmpty /\ pc (th s 0) = PPoll KAck /\ hasStopAck (th s 0) = true /\ qu s 0 = []).
Proof.
  intros s lb s' I H Hm. unfold master_idle in *.
  step_inv_fine H; crunch; auto.
  all: try (left; phase_facts' I; reflexivity).
  all: use_eqs; cbn [mphase] in *; auto; try discriminate.
Qed.

(** the helper's doSearch entry (the transition that reads the options and the table) *)
Definition reads_now (s : state) (c : tid) : bool :=
  match pc (th s c) with
  | PPoll KMain => negb (qa (th s c) =? 0)%Z && negb (job (th s c) =? -1)%Z
  | _ => false
  end.

End FR.
