From Texel Require Import Csp.BitSet Csp.Csp Csp.CspSpec.
