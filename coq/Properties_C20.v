(** C20 — the rank-constraint solver decides satisfiability exactly.
    Only statements; every proof is [exact <lemma>] into Csp/CspTheorems.v.
    Model: Csp/BitSet.v, Csp/Csp.v (tied to lib/texelutillib/pg/cspsolver.cpp and bitSet.hpp by
    the correspondence check); specification: Csp/CspSpec.v. *)
From Coq Require Import ZArith NArith List.
From Texel Require Import Csp.BitSet Csp.Csp Csp.CspSpec Csp.CspProofs Csp.CspTheorems Csp.CspFuel.
Import ListNotations.
Local Open Scope Z_scope.

(** any assignment the solver returns satisfies every domain and every constraint *)
Theorem C20_sound : forall s vals n, wf s -> solve s = Sat vals n -> sat s vals.
Proof. exact solve_sound. Qed.
Print Assumptions C20_sound.

(** "unsolvable" is only reported when no assignment exists *)
Theorem C20_complete : forall s n, wf s -> solve s = Unsat n -> ~ solvable s.
Proof. exact solve_complete. Qed.
Print Assumptions C20_complete.

(** hence the solver decides satisfiability (Err = outside supported limits / fuel) *)
Theorem C20_decides : forall s, wf s -> solve s <> Err ->
  (is_sat (solve s) = Some true <-> solvable s) /\ (is_sat (solve s) = Some false <-> ~ solvable s).
Proof. exact solve_decides. Qed.
Print Assumptions C20_decides.

(** arc consistency never removes a solution (and never invents one) *)
Theorem C20_arc_preserves_solutions : forall s, wf s ->
  match makeArcConsistent s with
  | ACOk ds' => length ds' = length (doms s) /\ Forall small ds' /\
                forall a, Forall (holds a) (constrs s) -> (sol0 (doms s) a <-> sol0 ds' a)
  | ACFail => forall a, Forall (holds a) (constrs s) -> ~ sol0 (doms s) a
  | ACErr => True
  end.
Proof. exact makeArcConsistent_spec. Qed.
Print Assumptions C20_arc_preserves_solutions.

(** the verdict is independent of the value-preference order *)
Theorem C20_pref_irrelevant : forall s s',
  wf s -> wf s' -> doms s = doms s' -> constrs s = constrs s' ->
  solve s <> Err -> solve s' <> Err -> is_sat (solve s) = is_sat (solve s').
Proof. exact pref_irrelevant. Qed.
Print Assumptions C20_pref_irrelevant.

(** every system built through the public operations is well-formed, and its bit-set domains
    mean exactly "range, parity, min/max tightenings" *)
Theorem C20_build_wf : forall ops s, build ops = Some s -> wf s.
Proof. exact build_wf. Qed.
Print Assumptions C20_build_wf.

Theorem C20_build_meaning : forall ops s,
  build ops = Some s ->
  length (spec_vars ops) = length (doms s) /\
  forall i, (i < length (doms s))%nat ->
    forall v, dmem (nth i (doms s) 0%N) v <-> (offs <= v < offs + numBits /\ vmem (nth i (spec_vars ops) dflt) v).
Proof. exact build_meaning. Qed.
Print Assumptions C20_build_meaning.

(** inside makeArcConsistent the data-dependent word indices of removeSmaller / removeLarger
    are always 0 (the SideErr outcome, the only place where the model records an out-of-range
    word index, is unreachable) *)
Theorem C20_word_index_in_bounds : forall cs ds mask c,
  Forall small ds -> (cv1 c < length ds)%nat -> (cv2 c < length ds)%nat ->
  ac_side0 cs ds mask c <> SideErr /\ ac_side1 cs ds mask c <> SideErr.
Proof. exact ac_sides_in_bounds. Qed.
Print Assumptions C20_word_index_in_bounds.

(** for every well-formed system within the asserted limit of 192 constraints the solver
    never reaches an error outcome: no bit/word index outside an array, no constraint index
    outside the constraint vector, and the work-set loop terminates within its fuel *)
Theorem C20_in_bounds : forall s, wf s -> (length (constrs s) <= 192)%nat -> solve s <> Err.
Proof. exact solve_no_err. Qed.
Print Assumptions C20_in_bounds.
