(** C15 — reverse move generation is complete and consistent with forward moves.
    Only statements; every proof is [exact <lemma>]. *)
From Coq Require Import ZArith NArith List Bool.
From Texel Require Import Chess.Types Chess.Position Chess.BitBoard Chess.MoveGen Chess.Fen
  RevGen.RevGen RevGen.RevFacts.
Import ListNotations.
Local Open Scope N_scope.

Theorem C15_clock_zero : forall zk pos incl um,
  In um (genMoves zk pos incl) -> u_halfMoveClock (um_ui um) = 0%Z /\ In (um_move um) (revMoveList pos).
Proof. exact (fun zk pos incl um H => candidates_clock pos incl um (proj1 (proj1 (genMoves_In zk pos incl um) H))). Qed.
Print Assumptions C15_clock_zero.
