(** C15 — reverse move generation is complete and consistent with forward moves.
    Only statements; every proof is [exact <lemma>] into RevGen/*.v.
    Model: RevGen/RevGen.v (RevMoveGen::genMoves with its lambdas, genMovesNoUndoInfo, knownInvalid),
    on top of the shared chess model Chess/{Position,BitBoard,MoveGen,Fen}.v; tied to
    lib/texelutillib/revmovegen.{hpp,cpp} by the correspondence check (props/c15.py).
    [zk] ranges over arbitrary Zobrist tables whose EMPTY row is zero.
    Q = [successor zk p m] = fixupEPSquare (makeMove p m);  [withClock ui 0] = the undo information
    with the half-move clock field set to 0, the only form RevMoveGen reports. *)
From Coq Require Import ZArith NArith List Bool.
From Texel Require Import Chess.Types Chess.Position Chess.PositionSpec Chess.PositionProofs Chess.PositionProofs2 Chess.PositionProofs3
  Chess.MoveGenProofs
  Chess.BitBoard Chess.MoveGen Chess.MoveGenWF Chess.Fen Chess.Spec
  RevGen.RevGen RevGen.RevFacts RevGen.RevAbs RevGen.RevRestore RevGen.RevValid RevGen.RevCand RevGen.RevRaw
  RevGen.RevLegal RevGen.RevTheorems RevGen.RevSpec RevGen.RevPremise RevGen.RevPawn RevGen.RevCastle RevGen.RevComplete RevGen.RevCons RevGen.RevNoDup RevGen.RevSlide RevGen.RevConsPawn RevGen.RevConsCastle.
Import ListNotations.
Local Open Scope N_scope.

(** every reported un-move carries clock 0 and a move of the raw reverse move list *)
Theorem C15_clock_zero : forall zk pos incl um,
  In um (genMoves zk pos incl) -> u_halfMoveClock (um_ui um) = 0%Z /\ In (um_move um) (revMoveList pos).
Proof. exact (fun zk pos incl um H => candidates_clock pos incl um (proj1 (proj1 (genMoves_In zk pos incl um) H))). Qed.
Print Assumptions C15_clock_zero.

(** makeMove on the four fields RevMoveGen talks about (board, side, castle mask, e.p. square) *)
Theorem C15_makeMove_fields : forall zk p m,
  Consistent zk p -> mfrom m < 64 -> abs (fst (makeMove zk p m)) = makeA (abs p) m.
Proof. exact makeMove_abs. Qed.
Print Assumptions C15_makeMove_fields.

(** the undo information of (P, m) with clock 0 takes Q back to P with clock 0 *)
Theorem C15_restore : forall zk, emptyKeysZero zk -> forall p m,
  Consistent zk p -> moveOk p m = true ->
  let q := successor zk p m in
  let ui0 := withClock (snd (makeMove zk p m)) 0 in
  Consistent zk q /\ Consistent zk (unMakeMove zk q m ui0) /\
  normEmpty (unMakeMove zk q m ui0) = normEmpty (set_halfMoveClock p 0).
Proof. exact restore_clock0. Qed.
Print Assumptions C15_restore.

(** ... and that predecessor is not rejected by knownInvalid (piece counts, king capture, both e.p. fix-ups) *)
Theorem C15_restored_not_rejected : forall zk, emptyKeysZero zk -> forall p m,
  WFrev zk p -> moveOk p m = true -> pushOk (abs p) m ->
  knownInvalid zk (successor zk p m) m (withClock (snd (makeMove zk p m)) 0) = false.
Proof. exact restored_not_knownInvalid. Qed.
Print Assumptions C15_restored_not_rejected.

(** the alternatives enumerated for a reverse move (captured piece, castle-mask subsets, e.p. files)
    contain the undo information of the predecessor — for every kind of move, castling, en passant
    and promotions included *)
Theorem C15_undo_alternatives : forall zk p m incl,
  WFrev zk p -> MoveFacts p m ->
  (incl = true \/ epSquare p = (-1)%Z \/
   (isPawnPiece (getPiece p (mfrom m)) = true /\ Z.of_N (mto m) = epSquare p)) ->
  In (mkUnMove m (withClock (snd (makeMove zk p m)) 0)) (candidatesFor (successor zk p m) incl m).
Proof. exact (fun zk p m incl H1 H2 H3 => candidate_of_raw zk p m H1 H2 incl H3). Qed.
Print Assumptions C15_undo_alternatives.

(** completeness of genMoves for every kind of move, given that genMovesNoUndoInfo lists the move *)
Theorem C15_complete_given_raw : forall zk, emptyKeysZero zk -> forall p m incl,
  WFrev zk p -> MoveFacts p m ->
  (incl = true \/ epSquare p = (-1)%Z \/
   (isPawnPiece (getPiece p (mfrom m)) = true /\ Z.of_N (mto m) = epSquare p)) ->
  let q := successor zk p m in
  let ui0 := withClock (snd (makeMove zk p m)) 0 in
  In m (revMoveList q) ->
  In (mkUnMove m ui0) (genMoves zk q incl) /\
  normEmpty (unMakeMove zk q m ui0) = normEmpty (set_halfMoveClock p 0).
Proof. exact complete_given_raw. Qed.
Print Assumptions C15_complete_given_raw.

(** * C15_complete *)
(** the full statement: [WFrev] = representation invariant + accepted by the FEN reader's rules +
    obtainable piece counts + usable e.p. square with an empty origin square (what positions
    reached by play satisfy); legality by the FIDE rules of Chess/Spec.v.  With
    includeAllEpSquares = false predecessors that have an e.p. square are reported only for the
    e.p. capture itself (as the C++ documents). *)
Definition C15_complete_statement : Prop :=
  forall zk, emptyKeysZero zk -> forall p m incl,
    WFrev zk p -> legal_spec (abs p) m ->
    (incl = true \/ epSquare p = (-1)%Z \/
     (isPawnPiece (getPiece p (mfrom m)) = true /\ Z.of_N (mto m) = epSquare p)) ->
    let q := successor zk p m in
    exists um, In um (genMoves zk q incl) /\ um_move um = m /\
      normEmpty (unMakeMove zk q m (um_ui um)) = normEmpty (set_halfMoveClock p 0).

(** proved: the statement above, for every legal move *)
Theorem C15_complete : C15_complete_statement.
Proof. exact complete_exists. Qed.
Print Assumptions C15_complete.

(** ... with the undo information spelled out: it is exactly the one makeMove produced, clock 0 *)
Theorem C15_complete_undo_info : forall zk, emptyKeysZero zk -> forall p m incl,
  WFrev zk p -> legal_spec (abs p) m ->
  (incl = true \/ epSquare p = (-1)%Z \/
   (isPawnPiece (getPiece p (mfrom m)) = true /\ Z.of_N (mto m) = epSquare p)) ->
  In (mkUnMove m (withClock (snd (makeMove zk p m)) 0)) (genMoves zk (successor zk p m) incl) /\
  normEmpty (unMakeMove zk (successor zk p m) m (withClock (snd (makeMove zk p m)) 0)) = normEmpty (set_halfMoveClock p 0).
Proof. exact complete_all. Qed.
Print Assumptions C15_complete_undo_info.

(** per class of move (the classes are the blocks of the engine's pseudo-legal generator, see
    C15_legal_move_classes): castling, both sides and both colours ... *)
Theorem C15_complete_castling : forall zk, emptyKeysZero zk -> forall p m incl,
  WFrev zk p ->
  (incl = true \/ epSquare p = (-1)%Z \/
   (isPawnPiece (getPiece p (mfrom m)) = true /\ Z.of_N (mto m) = epSquare p)) ->
  In m (castleMoves (whiteMove p) p (occupiedBB p) (kingSq p (whiteMove p)) []) -> CompleteAt zk p m incl.
Proof. exact complete_castle. Qed.
Print Assumptions C15_complete_castling.

(** ... and every pawn move: single and double pushes (with or without a resulting e.p. square),
    captures, promotions with and without capture, en-passant captures ([PawnMove] lists the forms) *)
Theorem C15_complete_pawn : forall zk, emptyKeysZero zk -> forall p m incl,
  WFrev zk p ->
  (incl = true \/ epSquare p = (-1)%Z \/
   (isPawnPiece (getPiece p (mfrom m)) = true /\ Z.of_N (mto m) = epSquare p)) ->
  In m (pawnBlock (whiteMove p) p []) -> CompleteAt zk p m incl.
Proof. exact complete_pawnBlock. Qed.
Print Assumptions C15_complete_pawn.

(** the five forms of a pawn move the proof distinguishes, derived from the FIDE rules *)
Theorem C15_pawn_move_forms : forall (zk : zkeys) p m,
  (exists fx r, on_board fx r = true /\ at_ (squares p) fx r = mk_piece (whiteMove p) Pawn /\ In m (pawn_moves (abs p) fx r)) ->
  PawnOn p m /\ PawnMove p m.
Proof. exact pawnMove_of_spec. Qed.
Print Assumptions C15_pawn_move_forms.

(** the earlier partial form (all moves of queen, rook, bishop, knight and king that are not castling) *)
Theorem C15_complete_partial : forall zk, emptyKeysZero zk -> forall p m incl,
  WFrev zk p -> legal_spec (abs p) m ->
  (incl = true \/ epSquare p = (-1)%Z \/
   (isPawnPiece (getPiece p (mfrom m)) = true /\ Z.of_N (mto m) = epSquare p)) ->
  In m (castleMoves (whiteMove p) p (occupiedBB p) (kingSq p (whiteMove p)) []) \/
  In m (pawnBlock (whiteMove p) p []) \/
  (In (mkUnMove m (withClock (snd (makeMove zk p m)) 0)) (genMoves zk (successor zk p m) incl) /\
   normEmpty (unMakeMove zk (successor zk p m) m (withClock (snd (makeMove zk p m)) 0)) = normEmpty (set_halfMoveClock p 0)).
Proof. exact complete_partial. Qed.
Print Assumptions C15_complete_partial.

(** the double push that leaves a usable e.p. square is the only raw reverse move of Q and is reported
    with the undo information of P (given [MoveFacts], see C15_premises_decidable) *)
Theorem C15_complete_doublepush_ep : forall zk, emptyKeysZero zk -> forall p m incl,
  WFrev zk p -> MoveFacts p m ->
  (incl = true \/ epSquare p = (-1)%Z \/
   (isPawnPiece (getPiece p (mfrom m)) = true /\ Z.of_N (mto m) = epSquare p)) ->
  (epSquare (successor zk p m) <> -1)%Z ->
  In (mkUnMove m (withClock (snd (makeMove zk p m)) 0)) (genMoves zk (successor zk p m) incl) /\
  normEmpty (unMakeMove zk (successor zk p m) m (withClock (snd (makeMove zk p m)) 0)) = normEmpty (set_halfMoveClock p 0).
Proof. exact complete_doublepush_ep. Qed.
Print Assumptions C15_complete_doublepush_ep.

(** the hypotheses [MoveFacts] and [WFrev] are decidable: the check evaluates these tests (extracted)
    on every (P, m) it sends to the Spec, pawn moves and castling included *)
Theorem C15_premises_decidable :
  (forall p m, moveFactsb p m = true -> MoveFacts p m) /\
  (forall zk p, Consistent zk p -> wfrevb zk p = true -> WFrev zk p).
Proof. exact (conj moveFactsb_sound wfrevb_sound). Qed.
Print Assumptions C15_premises_decidable.

(** a legal move comes from one of the seven blocks of the engine's pseudo-legal generator (C01) *)
Theorem C15_legal_move_classes : forall p m, WF p -> legal_spec (abs p) m ->
  let w := whiteMove p in
  In m (queenBlock w p []) \/ In m (rookBlock w p []) \/ In m (bishopBlock w p []) \/ In m (kingBlock w p []) \/
  In m (castleMoves w p (occupiedBB p) (kingSq p w) []) \/ In m (knightBlock w p []) \/ In m (pawnBlock w p []).
Proof. exact blocks_of_legal. Qed.
Print Assumptions C15_legal_move_classes.

(** * C15_consistent *)
(** the full statement, over the FIDE rules: every reported un-move restores a position in which
    the move is legal and from which it leads back to Q.  Q ranges over the domain [WFrev]: representation
    invariant, well-formed (accepted by the FEN reader), obtainable piece counts, e.p. square stable under
    the fix-up, and -- if Q has an e.p. square -- the origin square of the double step that set it is empty.
    The last condition is needed: readFEN does not look at that square, genMoves then still lists the double
    step, and un-making it overwrites the piece standing there (recorded in the first report; positions
    reached by play satisfy it) *)
Definition C15_consistent_statement : Prop :=
  forall zk, emptyKeysZero zk -> forall q incl um,
    WFrev zk q ->
    In um (genMoves zk q incl) ->
    let prev := unMakeMove zk q (um_move um) (um_ui um) in
    legal_spec (abs prev) (um_move um) /\ abs (successor zk prev (um_move um)) = abs q.
Theorem C15_consistent : C15_consistent_statement.
Proof. exact (fun zk EKZ q incl um Hrev Hin => proj2 (consistent_all zk EKZ q incl um Hrev Hin)). Qed.
Print Assumptions C15_consistent.

(** ... and the restored position satisfies the representation invariant *)
Theorem C15_consistent_invariant : forall zk, emptyKeysZero zk -> forall q incl um,
  WFrev zk q -> In um (genMoves zk q incl) -> Consistent zk (unMakeMove zk q (um_move um) (um_ui um)).
Proof. exact (fun zk EKZ q incl um Hrev Hin => proj1 (consistent_all zk EKZ q incl um Hrev Hin)). Qed.
Print Assumptions C15_consistent_invariant.

(** un-castlings alone (Q needs the invariant and well-formedness only) *)
Theorem C15_consistent_castling : forall zk, emptyKeysZero zk -> forall q, Consistent zk q -> WF q -> forall incl um,
  In um (genMoves zk q incl) ->
  mpromote (um_move um) = EMPTY ->
  isKingPiece (nthP (squares q) (mto (um_move um))) = true ->
  mto (um_move um) = mfrom (um_move um) + 2 \/ mto (um_move um) + 2 = mfrom (um_move um) ->
  let prev := unMakeMove zk q (um_move um) (um_ui um) in
  Consistent zk prev /\ legal_spec (abs prev) (um_move um) /\ abs (successor zk prev (um_move um)) = abs q.
Proof. exact consistent_castle. Qed.
Print Assumptions C15_consistent_castling.

(** what knownInvalid guarantees for every reported un-move (the part of consistency that is decided by
    the filter, for every position, no domain hypothesis) *)
Theorem C15_consistent_partial : forall zk pos incl um,
  In um (genMoves zk pos incl) ->
  let prev := unMakeMove zk pos (um_move um) (um_ui um) in
  In (um_move um) (revMoveList pos) /\ u_halfMoveClock (um_ui um) = 0%Z /\
  pieceCountsValid prev = true /\ snd (canTakeKing zk prev) = false /\
  epSquare (fixupEPSquare zk prev) = epSquare prev /\
  epSquare (kiRemade zk (fst (canTakeKing zk prev)) (um_move um)) = epSquare pos.
Proof. exact consistent_partial. Qed.
Print Assumptions C15_consistent_partial.

(** proved for every reported un-move of a piece other than a pawn that is neither an un-promotion nor an
    un-castling (queen, rook, bishop, knight, king; captured piece, castle-mask and e.p. alternatives all
    included): the restored position satisfies the representation invariant, and making the move again and
    fixing up the e.p. square gives the board, side, castle mask and e.p. square of Q *)
Theorem C15_consistent_pieces : forall zk q, Consistent zk q -> WF q -> forall incl um,
  In um (genMoves zk q incl) ->
  mpromote (um_move um) = EMPTY ->
  isPawnPiece (nthP (squares q) (mto (um_move um))) = false ->
  (isKingPiece (nthP (squares q) (mto (um_move um))) = true ->
   mto (um_move um) <> mfrom (um_move um) + 2 /\ mto (um_move um) + 2 <> mfrom (um_move um)) ->
  let prev := unMakeMove zk q (um_move um) (um_ui um) in
  Consistent zk prev /\ abs (successor zk prev (um_move um)) = abs q.
Proof. exact consistent_pieces. Qed.
Print Assumptions C15_consistent_pieces.

(** ... and for knight and king un-moves the move is legal in the restored position by the FIDE rules:
    with C15_consistent_pieces this is C15_consistent_statement for these two classes *)
Theorem C15_consistent_knight_king : forall zk q, Consistent zk q -> WF q -> forall incl um,
  In um (genMoves zk q incl) ->
  mpromote (um_move um) = EMPTY ->
  isPawnPiece (nthP (squares q) (mto (um_move um))) = false ->
  (isKingPiece (nthP (squares q) (mto (um_move um))) = true ->
   mto (um_move um) <> mfrom (um_move um) + 2 /\ mto (um_move um) + 2 <> mfrom (um_move um)) ->
  (nthP (squares q) (mto (um_move um)) = myPiece (negb (whiteMove q)) WKNIGHT \/
   nthP (squares q) (mto (um_move um)) = myPiece (negb (whiteMove q)) WKING) ->
  legal_spec (abs (unMakeMove zk q (um_move um) (um_ui um))) (um_move um).
Proof. exact legal_knight_king. Qed.
Print Assumptions C15_consistent_knight_king.

(** C15_consistent_statement for every un-move of a piece other than a pawn that is neither an un-promotion nor
    an un-castling (queen, rook, bishop, knight, king): the move is legal in the restored position by the FIDE
    rules and leads back to Q; the restored position satisfies the representation invariant *)
Theorem C15_consistent_nonpawn : forall zk q, Consistent zk q -> WF q -> forall incl um,
  In um (genMoves zk q incl) ->
  mpromote (um_move um) = EMPTY ->
  isPawnPiece (nthP (squares q) (mto (um_move um))) = false ->
  (isKingPiece (nthP (squares q) (mto (um_move um))) = true ->
   mto (um_move um) <> mfrom (um_move um) + 2 /\ mto (um_move um) + 2 <> mfrom (um_move um)) ->
  let prev := unMakeMove zk q (um_move um) (um_ui um) in
  Consistent zk prev /\ legal_spec (abs prev) (um_move um) /\ abs (successor zk prev (um_move um)) = abs q.
Proof. exact consistent_nonpawn. Qed.
Print Assumptions C15_consistent_nonpawn.

(** C15_consistent_statement for every pawn un-move (single and double step, capture, en-passant capture) and
    every un-promotion, over positions Q of the domain [WFrev] (invariant, well-formed, e.p. square stable under
    the fix-up, the origin square of the double step that set the e.p. square empty -- without the last condition
    the statement is false: the FEN reader accepts a piece there and the un-move list still has the double step) *)
Theorem C15_consistent_pawn : forall zk q, WFrev zk q -> forall incl um,
  In um (genMoves zk q incl) ->
  (mpromote (um_move um) = EMPTY /\ isPawnPiece (nthP (squares q) (mto (um_move um))) = true) \/
  mpromote (um_move um) <> EMPTY ->
  let prev := unMakeMove zk q (um_move um) (um_ui um) in
  Consistent zk prev /\ legal_spec (abs prev) (um_move um) /\ abs (successor zk prev (um_move um)) = abs q.
Proof. exact consistent_pawnlike. Qed.
Print Assumptions C15_consistent_pawn.

(** the shape of the raw reverse moves of genMovesNoUndoInfo that are not pawn un-moves or un-promotions *)
Theorem C15_raw_piece_shape : forall q, BoardOK q ->
  (exists s, s < 64 /\ getPiece q s = mk_piece (negb (whiteMove q)) King) ->
  forall m, In m (genMovesNoUndoInfo q) -> mpromote m = EMPTY -> isPawnPiece (getPiece q (mto m)) = false -> RawPiece q m.
Proof. exact raw_piece_shape. Qed.
Print Assumptions C15_raw_piece_shape.

(** * NoDup: the list of un-moves has no duplicates.  The seven blocks of genMovesNoUndoInfo differ in the
    piece on the target square (un-promotions in the promotion piece), the moves of one block in target or
    origin square; the UndoInfo alternatives of one move differ in captured piece, castle mask or e.p. square *)
Definition C15_nodup_statement : Prop :=
  forall zk q incl, Consistent zk q -> WF q -> NoDup (genMoves zk q incl).
Theorem C15_nodup : C15_nodup_statement.
Proof. exact (fun zk q incl _ Hwf => genMoves_NoDup zk q incl Hwf). Qed.
Print Assumptions C15_nodup.

(** the raw reverse move list of a well-formed position has no duplicates *)
Theorem C15_nodup_raw : forall q, WF q -> NoDup (revMoveList q).
Proof. exact revMoveList_NoDup. Qed.
Print Assumptions C15_nodup_raw.
