(** C15 — reverse move generation is complete and consistent with forward moves.
    Only statements; every proof is [exact <lemma>] into RevGen/*.v.
    Model: RevGen/RevGen.v (RevMoveGen::genMoves with its lambdas, genMovesNoUndoInfo, knownInvalid),
    on top of the shared chess model Chess/{Position,BitBoard,MoveGen,Fen}.v; tied to
    lib/texelutillib/revmovegen.{hpp,cpp} by the correspondence check (props/c15.py).
    [zk] ranges over arbitrary Zobrist tables whose EMPTY row is zero.
    Q = [successor zk p m] = fixupEPSquare (makeMove p m);  [withClock ui 0] = the undo information
    with the half-move clock field set to 0, the only form RevMoveGen reports. *)
From Coq Require Import ZArith NArith List Bool.
From Texel Require Import Chess.Types Chess.Position Chess.PositionSpec Chess.PositionProofs Chess.PositionProofs2
  Chess.BitBoard Chess.MoveGen Chess.MoveGenWF Chess.Fen Chess.Spec
  RevGen.RevGen RevGen.RevFacts RevGen.RevAbs RevGen.RevRestore RevGen.RevValid RevGen.RevCand.
Import ListNotations.
Local Open Scope N_scope.

(** every reported un-move carries clock 0 and a move of the raw reverse move list *)
Theorem C15_clock_zero : forall zk pos incl um,
  In um (genMoves zk pos incl) -> u_halfMoveClock (um_ui um) = 0%Z /\ In (um_move um) (revMoveList pos).
Proof. exact (fun zk pos incl um H => candidates_clock pos incl um (proj1 (proj1 (genMoves_In zk pos incl um) H))). Qed.
Print Assumptions C15_clock_zero.

(** makeMove on the four fields RevMoveGen talks about (board, side, castle mask, e.p. square) *)
Theorem C15_makeMove_fields : forall zk p m,
  Consistent zk p -> mfrom m < 64 -> abs (fst (makeMove zk p m)) = makeA (abs p) m.
Proof. exact makeMove_abs. Qed.
Print Assumptions C15_makeMove_fields.

(** the undo information of (P, m) with clock 0 takes Q back to P with clock 0 *)
Theorem C15_restore : forall zk, emptyKeysZero zk -> forall p m,
  Consistent zk p -> moveOk p m = true ->
  let q := successor zk p m in
  let ui0 := withClock (snd (makeMove zk p m)) 0 in
  Consistent zk q /\ Consistent zk (unMakeMove zk q m ui0) /\
  normEmpty (unMakeMove zk q m ui0) = normEmpty (set_halfMoveClock p 0).
Proof. exact restore_clock0. Qed.
Print Assumptions C15_restore.

(** ... and that predecessor is not rejected by knownInvalid (piece counts, king capture, both e.p. fix-ups) *)
Theorem C15_restored_not_rejected : forall zk, emptyKeysZero zk -> forall p m,
  WFrev zk p -> moveOk p m = true -> pushOk (abs p) m ->
  knownInvalid zk (successor zk p m) m (withClock (snd (makeMove zk p m)) 0) = false.
Proof. exact restored_not_knownInvalid. Qed.
Print Assumptions C15_restored_not_rejected.

(** the alternatives enumerated for a reverse move (captured piece, castle-mask subsets, e.p. files)
    contain the undo information of the predecessor — for every kind of move, castling, en passant
    and promotions included *)
Theorem C15_undo_alternatives : forall zk p m incl,
  WFrev zk p -> MoveFacts p m ->
  (incl = true \/ epSquare p = (-1)%Z \/
   (isPawnPiece (getPiece p (mfrom m)) = true /\ Z.of_N (mto m) = epSquare p)) ->
  In (mkUnMove m (withClock (snd (makeMove zk p m)) 0)) (candidatesFor (successor zk p m) incl m).
Proof. exact (fun zk p m incl H1 H2 H3 => candidate_of_raw zk p m H1 H2 incl H3). Qed.
Print Assumptions C15_undo_alternatives.

(** completeness of genMoves for every kind of move, given that genMovesNoUndoInfo lists the move *)
Theorem C15_complete_given_raw : forall zk, emptyKeysZero zk -> forall p m incl,
  WFrev zk p -> MoveFacts p m ->
  (incl = true \/ epSquare p = (-1)%Z \/
   (isPawnPiece (getPiece p (mfrom m)) = true /\ Z.of_N (mto m) = epSquare p)) ->
  let q := successor zk p m in
  let ui0 := withClock (snd (makeMove zk p m)) 0 in
  In m (revMoveList q) ->
  In (mkUnMove m ui0) (genMoves zk q incl) /\
  normEmpty (unMakeMove zk q m ui0) = normEmpty (set_halfMoveClock p 0).
Proof. exact complete_given_raw. Qed.
Print Assumptions C15_complete_given_raw.
