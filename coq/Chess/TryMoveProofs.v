(** The make / test / unmake verdict of removeIllegal ([tryMove]) and of isLegal ([tryMoveB])
    is the Spec's "the mover's king is not attacked after the move", for every pseudo-legal
    move of a well-formed position whose redundant fields are consistent (C02's invariant),
    and the position is restored.  Consequence: filtering pseudoLegalMoves with that verdict
    gives exactly the legal moves of chess (C01_legal_exact without the king-ray shortcut). *)
From Coq Require Import ZArith NArith List Bool Lia.
From Texel Require Import Chess.Types Chess.Position Chess.PositionSpec Chess.PositionFacts Chess.PositionProofs
  Chess.PositionProofs2 Chess.PositionProofs4 Chess.PositionTheorems Chess.PositionB
  Chess.BitBoard Chess.MoveGen Chess.Spec Chess.MoveGenWF
  Chess.BitBoardProofs Chess.RayProofs Chess.MoveGenProofs Chess.AttackProofs Chess.SliderProofs Chess.PawnProofs
  Chess.PseudoProofs Chess.MakeSpecProofs gen.BitBoardTables.
Import ListNotations.
Local Open Scope N_scope.

(** * C02's invariant gives BoardOK *)
Lemma has_color_white : forall pc, pc <= 12 -> has_color true pc = isWhitePiece pc.
Proof. intros pc H. destruct (le12_cases _ H) as [E|[E|[E|[E|[E|[E|[E|[E|[E|[E|[E|[E|E]]]]]]]]]]]]; rewrite E; reflexivity. Qed.
Lemma has_color_black : forall pc, pc <= 12 -> has_color false pc = isBlackPiece pc.
Proof. intros pc H. destruct (le12_cases _ H) as [E|[E|[E|[E|[E|[E|[E|[E|[E|[E|[E|[E|E]]]]]]]]]]]]; rewrite E; reflexivity. Qed.

Lemma Consistent_BoardOK : forall zk k p, ConsistentX zk k p -> BoardOK p.
Proof.
  intros zk k p C. destruct C.
  assert (Hle : forall s, getPiece p s <= 12).
  { intro s. pose proof (getPiece_lt p s c_pieces). lia. }
  split; [exact Hle|]. split.
  - intros pc s Hpc. assert (Hr : 1 <= pc <= 12) by (unfold pieceCodes in Hpc; cbn in Hpc; lia).
    rewrite (c_bb pc Hr). rewrite testbit_bbOf, c_len. change (N.of_nat 64) with 64.
    fold (getPiece p s). rewrite (N.eqb_sym pc). reflexivity.
  - intros w s. destruct w; cbn [colorBB].
    + rewrite c_white, testbit_bbOf, c_len. change (N.of_nat 64) with 64. fold (getPiece p s).
      rewrite has_color_white by apply Hle. reflexivity.
    + rewrite c_black, testbit_bbOf, c_len. change (N.of_nat 64) with 64. fold (getPiece p s).
      rewrite has_color_black by apply Hle. reflexivity.
Qed.

Lemma BoardOK_bbpart : forall q q', bbpart q = bbpart q' -> BoardOK q' -> BoardOK q.
Proof.
  intros q q' E H. destruct (bbpart_eq_fields _ _ E) as (Es & Ebb & Ew & Eb).
  unfold BoardOK, getPiece, ptBB, colorBB in *. rewrite Es, Ebb, Ew, Eb. exact H.
Qed.

(** * exactly one king from the count *)
Lemma one_king_of_count : forall (q : position) K, length (squares q) = 64%nat -> count_piece (squares q) K = 1%nat ->
  (exists s, s < 64 /\ getPiece q s = K) /\
  (forall s1 s2, s1 < 64 -> s2 < 64 -> getPiece q s1 = K -> getPiece q s2 = K -> s1 = s2).
Proof.
  intros q K Hl Hc. split.
  - unfold count_piece in Hc. destruct (filter (N.eqb K) (squares q)) as [|x l] eqn:E; [discriminate|].
    assert (Hin : In x (filter (N.eqb K) (squares q))) by (rewrite E; left; reflexivity).
    apply filter_In in Hin. destruct Hin as [Hin Hx]. apply N.eqb_eq in Hx. subst x.
    apply (In_nth _ _ EMPTY) in Hin. destruct Hin as [i [Hi Hn]].
    exists (N.of_nat i). split; [lia|]. unfold getPiece. rewrite Nat2N.id. exact Hn.
  - intros s1 s2 H1 H2 E1 E2. destruct (N.eq_dec s1 s2) as [|Hne]; [assumption|]. exfalso.
    assert (Hc2 : (2 <= count_piece (squares q) K)%nat).
    { apply (count_two _ _ (N.to_nat s1) (N.to_nat s2)); try (rewrite Hl; lia); try assumption. lia. }
    lia.
Qed.

Section TryMove.
Variable zk : zkeys.
Hypothesis EKZ : emptyKeysZero zk.
Variable p : position.
Hypothesis HWF : WF p.
Hypothesis HC : Consistent zk p.
Variable m : move.
Hypothesis Hm : In m (pseudoLegalMoves p).
Let w := whiteMove p.

Lemma made_facts :
  squares (fst (makeMoveB p m)) = sp_board (make_spec (abs p) m) /\ moveOk p m = true /\
  BoardOK (fst (makeMoveB p m)) /\ BoardOK (fst (makeMove zk p m)) /\
  squares (fst (makeMove zk p m)) = sp_board (make_spec (abs p) m) /\
  (exists s, s < 64 /\ nth (N.to_nat s) (sp_board (make_spec (abs p) m)) EMPTY = mk_piece w King) /\
  (forall s1 s2, s1 < 64 -> s2 < 64 -> nth (N.to_nat s1) (sp_board (make_spec (abs p) m)) EMPTY = mk_piece w King ->
                 nth (N.to_nat s2) (sp_board (make_spec (abs p) m)) EMPTY = mk_piece w King -> s1 = s2).
Proof.
  destruct (pseudo_move_good p HWF m Hm) as [Hb [Hok Hcount]].
  pose proof (makeMove_consistent zk EKZ p m HC Hok) as Cm.
  pose proof (makeMoveB_simulates zk p m Hok) as Esim.
  pose proof (Consistent_BoardOK zk 0 _ Cm) as HBm.
  pose proof (BoardOK_bbpart _ _ Esim HBm) as HBb.
  destruct (bbpart_eq_fields _ _ Esim) as (Es & _).
  split; [exact Hb|]. split; [exact Hok|]. split; [exact HBb|]. split; [exact HBm|].
  split; [rewrite <- Es; exact Hb|].
  destruct (WF_parts p HWF) as [Hl [_ [_ [_ Ha]]]]. destruct (accepted_parts _ Ha) as [_ [_ [Hw [Hk _]]]].
  cbn [abs sp_board] in Hw, Hk.
  assert (Hc1 : count_piece (squares (fst (makeMoveB p m))) (mk_piece w King) = 1%nat).
  { unfold kingCountKept in Hcount. fold w in Hcount. rewrite Hcount. unfold w. destruct (whiteMove p); assumption. }
  assert (Hlen : length (squares (fst (makeMoveB p m))) = 64%nat).
  { rewrite Es. destruct Cm. exact c_len. }
  destruct (one_king_of_count (fst (makeMoveB p m)) (mk_piece w King) Hlen Hc1) as [Hex Hun].
  unfold getPiece in Hex, Hun. rewrite Hb in Hex, Hun. split; assumption.
Qed.

(** the test in the middle: the mover's king on the made board *)
Lemma king_test_made : forall q, BoardOK q -> squares q = sp_board (make_spec (abs p) m) ->
  sqAttackedT w q (kingSq q w) (occupiedBB q) = in_checkb (sp_board (make_spec (abs p) m)) w.
Proof.
  intros q HBq Hsq. destruct made_facts as (_ & _ & _ & _ & _ & Hex & Hun).
  rewrite <- Hsq. apply kingAttacked_spec_B; [exact HBq | |]; unfold getPiece; rewrite Hsq; assumption.
Qed.

(** isLegal's slow path *)
Theorem tryMoveB_spec :
  snd (tryMoveB p m) = negb (in_checkb (sp_board (make_spec (abs p) m)) w) /\
  (let q := fst (tryMoveB p m) in
   squares q = squares p /\ (forall pc, 1 <= pc -> ptBB q pc = ptBB p pc) /\
   whiteBB q = whiteBB p /\ blackBB q = blackBB p /\ rest q = rest p).
Proof.
  destruct made_facts as (Hb & Hok & HBb & _).
  unfold tryMoveB. destruct (makeMoveB p m) as [pos1 ui] eqn:E. cbn [fst snd] in *. split.
  - f_equal. unfold inCheck, sqAttacked, sqAttackedOcc.
    assert (Hw : whiteMove pos1 = w).
    { pose proof (rest_makeMoveB p m) as Hr. rewrite E in Hr. cbn [fst] in Hr. apply rest_eq_whiteMove in Hr. exact Hr. }
    rewrite Hw. apply king_test_made; assumption.
  - pose proof (unmake_make_B zk EKZ p m HC Hok) as H. cbv zeta in H. rewrite E in H. cbn [fst snd] in H. exact H.
Qed.

(** removeIllegal's slow path *)
Theorem tryMove_spec :
  snd (tryMove zk p m) = negb (in_checkb (sp_board (make_spec (abs p) m)) w) /\
  normEmpty (fst (tryMove zk p m)) = normEmpty p.
Proof.
  destruct made_facts as (_ & Hok & _ & _ & Hsq & _).
  pose proof (makeMove_consistent zk EKZ p m HC Hok) as Cm.
  unfold tryMove. destruct (makeMove zk p m) as [pos1 ui] eqn:E. cbn [fst snd] in *.
  assert (Hw1 : whiteMove pos1 = negb w).
  { assert (Hx : pos1 = fst (makeMove zk p m)) by (rewrite E; reflexivity). rewrite Hx, makeMove_fst.
    unfold mmEpilogue. cbv zeta. reflexivity. }
  set (pos2 := setWhiteMove zk pos1 (negb (whiteMove pos1))).
  assert (C2 : Consistent zk pos2) by (apply setWhiteMove_consistent; exact Cm).
  assert (Hw2 : whiteMove pos2 = w).
  { unfold pos2, setWhiteMove. rewrite Hw1, negb_involutive. destruct w; reflexivity. }
  assert (Hs2 : squares pos2 = squares pos1).
  { unfold pos2, setWhiteMove. destruct (negb (Bool.eqb (negb (whiteMove pos1)) (whiteMove pos1))); reflexivity. }
  assert (Hf2 : fullMoveCounter pos2 = fullMoveCounter pos1).
  { unfold pos2, setWhiteMove. destruct (negb (Bool.eqb (negb (whiteMove pos1)) (whiteMove pos1))); reflexivity. }
  split.
  - f_equal. unfold inCheck, sqAttacked, sqAttackedOcc. rewrite Hw2.
    apply king_test_made; [apply (Consistent_BoardOK zk 0), C2 | rewrite Hs2; exact Hsq].
  - set (pos3 := setWhiteMove zk pos2 (negb (whiteMove pos2))).
    assert (C3 : Consistent zk pos3) by (apply setWhiteMove_consistent; exact C2).
    assert (Hw3 : whiteMove pos3 = negb w).
    { unfold pos3, setWhiteMove. rewrite Hw2. destruct w; reflexivity. }
    assert (Hs3 : squares pos3 = squares pos2).
    { unfold pos3, setWhiteMove. destruct (negb (Bool.eqb (negb (whiteMove pos2)) (whiteMove pos2))); reflexivity. }
    assert (Hf3 : fullMoveCounter pos3 = fullMoveCounter pos2).
    { unfold pos3, setWhiteMove. destruct (negb (Bool.eqb (negb (whiteMove pos2)) (whiteMove pos2))); reflexivity. }
    destruct (make_unmake_general zk EKZ p m HC Hok) as [_ Hgen].
    assert (Hx : pos1 = fst (makeMove zk p m)) by (rewrite E; reflexivity).
    assert (Hu : ui = snd (makeMove zk p m)) by (rewrite E; reflexivity).
    rewrite Hu. apply Hgen; [exact C3|].
    unfold matchesMade. rewrite <- Hx. repeat split; congruence.
Qed.
End TryMove.
