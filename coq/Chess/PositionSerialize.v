(** C02: deSerialize produces consistent positions; deSerialize (serialize p) = p within the
    counter ranges. *)
From Coq Require Import ZArith NArith List Bool Lia Btauto.
From Texel Require Import Chess.Types Chess.Position Chess.PositionSpec Chess.PositionFacts
  Chess.PositionProofs Chess.PositionProofs2 Chess.PositionProofs3 Chess.PositionProofs4
  Chess.PositionTheorems Chess.PositionSources.
Import ListNotations.
Local Open Scope N_scope.

Lemma bb_slot0 (l : list N) (k : N) (Z0 m : N) : k <> 0 ->
  updN 0 0 (updN k (N.lor (nth (N.to_nat k) (updN 0 Z0 l) 0) m) (updN 0 Z0 l)) =
  updN 0 0 (updN k (N.lor (nth (N.to_nat k) l 0) m) l).
Proof.
  intro Hk. rewrite nth_updN_neq by auto. unfold updN.
  rewrite (updL_comm (N.to_nat 0) (N.to_nat k)) by lia. rewrite updL_updL_same.
  rewrite (updL_comm (N.to_nat k) (N.to_nat 0)) by lia. reflexivity.
Qed.

Lemma bb_slot0_same (l : list N) (X Y Z0 : N) :
  updN 0 0 (updN 0 X (updN 0 Z0 l)) = updN 0 0 (updN 0 Y l).
Proof. unfold updN. rewrite !updL_updL_same. reflexivity. Qed.

Lemma ConsistentX_slot0 zk k a b : ConsistentX zk k a -> normEmpty a = normEmpty b -> ConsistentX zk k b.
Proof.
  intros C H. pose proof (normEmpty_fields _ _ H) as (Fs & Fbb & Fw & Fb & Fwm & Fh & Ff & Fc & Fe & Fhk & Fp & Fm & F1 & F2 & F3 & F4).
  assert (Hl : length (pieceTypeBB b) = length (pieceTypeBB a)).
  { apply (f_equal pieceTypeBB) in H. unfold normEmpty in H. cbn [pieceTypeBB set_pieceTypeBB] in H.
    apply (f_equal (@length N)) in H. rewrite !length_updN in H. auto. }
  destruct C. constructor; try congruence.
  - intros pc Hpc. rewrite <- Fbb by lia. rewrite <- Fs. auto.
  - rewrite <- Fhk, c_hash. unfold hashOf. rewrite Fs, Fwm, Fc, Fe. reflexivity.
Qed.

Lemma small_bits b n j : b < 2 ^ n -> n <= j -> N.testbit b j = false.
Proof.
  intros Hb Hj. destruct (N.eq_dec b 0) as [->|Hn]; [apply N.bits_0|].
  apply N.bits_above_log2. eapply N.lt_le_trans; [|exact Hj]. apply N.log2_lt_pow2; [lia|exact Hb].
Qed.

Lemma lor_shiftl_low a b n : b < 2 ^ n -> N.land (N.lor (N.shiftl a n) b) (N.ones n) = b.
Proof.
  intro Hb. apply N.bits_inj. intro j. rewrite N.land_spec, N.lor_spec.
  destruct (N.lt_ge_cases j n) as [Hj|Hj].
  - rewrite N.shiftl_spec_low by auto. rewrite N.ones_spec_low by auto. simpl. apply andb_true_r.
  - rewrite N.ones_spec_high by auto. rewrite andb_false_r. symmetry. apply (small_bits b n); auto.
Qed.

Lemma lor_shiftl_high a b n : b < 2 ^ n -> N.shiftr (N.lor (N.shiftl a n) b) n = a.
Proof.
  intro Hb. apply N.bits_inj. intro j. rewrite N.shiftr_spec', N.lor_spec.
  rewrite N.shiftl_spec_high' by lia. rewrite (small_bits b n (j + n)) by (auto; lia).
  rewrite orb_false_r. f_equal. lia.
Qed.

(** packing nibbles *)
Definition packL (l : list N) (v : N) : N := fold_left (fun v x => N.lor (N.shiftl v 4) x) l v.

Lemma nib_pack l : forall v k, Forall (fun x => x < 16) l -> (k < length l)%nat ->
  N.land (N.shiftr (packL l v) (4 * N.of_nat k)) 15 = nth (length l - 1 - k) l 0.
Proof.
  induction l as [|x l IH] using rev_ind; intros v k F Hk; [simpl in Hk; lia|].
  unfold packL in *. rewrite fold_left_app. cbn [fold_left].
  apply Forall_app in F as [Fl Fx]. inversion Fx as [|? ? Hx _]; subst.
  rewrite app_length in *. cbn [length] in *.
  destruct k as [|k].
  - change (4 * N.of_nat 0) with 0. rewrite N.shiftr_0_r.
    change 15 with (N.ones 4). rewrite lor_shiftl_low by (simpl; exact Hx).
    replace (length l + 1 - 1 - 0)%nat with (length l) by lia. rewrite app_nth2 by lia.
    rewrite Nat.sub_diag. reflexivity.
  - replace (4 * N.of_nat (S k)) with (4 + 4 * N.of_nat k) by lia.
    rewrite <- N.shiftr_shiftr. rewrite lor_shiftl_high by (simpl; exact Hx).
    rewrite IH by (auto; lia).
    rewrite app_nth1 by lia. f_equal. lia.
Qed.

Section Ser.
Variable zk : zkeys.
Hypothesis EKZ : emptyKeysZero zk.

Definition C0 : N := N.lxor (N.lxor (zk_white zk) (castleKey zk 0)) (epKey zk (-1)).
Definition hat (p : position) (h : N) : position := set_hashKey p (N.lxor h C0).

Lemma deserStep_hat p h sq pc :
  getPiece p (toSq sq) = EMPTY -> pc < 13 ->
  normEmpty (hat (fst (deserStep zk (p, h) (sq, pc))) (snd (deserStep zk (p, h) (sq, pc)))) =
  normEmpty (setPiece zk (hat p h) (toSq sq) pc).
Proof.
  intros He Hpc.
  rewrite setPiece_eq by (auto; change (getPiece (hat p h) (toSq sq)) with (getPiece p (toSq sq)); rewrite He; reflexivity).
  unfold setPieceSpec. cbv zeta.
  change (getPiece (hat p h) (toSq sq)) with (getPiece p (toSq sq)). rewrite He.
  unfold deserStep. cbv zeta.
  pose proof (EKZ (toSq sq)) as Ek. unfold EMPTY in Ek.
  revert pc Hpc. apply piece_cases;
    (lazy beta iota zeta delta [negb N.eqb Pos.eqb EMPTY WPAWN BPAWN WKING BKING isWhite N.ltb N.compare
                                Pos.compare Pos.compare_cont fst snd];
     apply pos_eq; try reflexivity;
     unfold normEmpty, hat, matAdd; repeat (unfold ptBB; proj_simpl);
     [ symmetry; first [apply bb_slot0_same | apply bb_slot0; discriminate]
     | rewrite ?Ek; xor_solve
     | replace (materialId 0) with 0%Z by reflexivity; lia ]).
Qed.


Definition InvD (st : position * N) : Prop :=
  ConsistentX zk 0 (hat (fst st) (snd st)) /\
  whiteMove (fst st) = true /\ castleMask (fst st) = 0 /\ epSquare (fst st) = (-1)%Z.

Lemma deserStep_frame p h sq pc :
  squares (fst (deserStep zk (p, h) (sq, pc))) = updN (toSq sq) pc (squares p) /\
  whiteMove (fst (deserStep zk (p, h) (sq, pc))) = whiteMove p /\
  castleMask (fst (deserStep zk (p, h) (sq, pc))) = castleMask p /\
  epSquare (fst (deserStep zk (p, h) (sq, pc))) = epSquare p.
Proof. unfold deserStep. cbv zeta. break_if; cbn [fst]; repeat split. Qed.

Lemma deserStep_inv p h sq pc :
  InvD (p, h) -> getPiece p (toSq sq) = EMPTY -> toSq sq < 64 -> pc < 13 -> InvD (deserStep zk (p, h) (sq, pc)).
Proof.
  intros (C & Hw & Hc & He) Hemp Hsq Hpc. cbn [fst snd] in *.
  destruct (deserStep_frame p h sq pc) as (_ & Fw & Fc & Fe).
  split; [|rewrite Fw, Fc, Fe; auto].
  eapply ConsistentX_slot0; [|symmetry; apply deserStep_hat; auto].
  apply setPiece_consistent; auto.
Qed.

Fixpoint distinctb (l : list N) : bool :=
  match l with
  | [] => true
  | a :: t => negb (existsb (N.eqb a) t) && distinctb t
  end.

Definition sqOf (o : Z * N) : square := toSq (fst o).

Lemma deser_fold L : forall st,
  InvD st -> distinctb (map sqOf L) = true -> Forall (fun o => sqOf o < 64 /\ snd o < 13) L ->
  (forall o, In o L -> nthP (squares (fst st)) (sqOf o) = EMPTY) ->
  InvD (fold_left (deserStep zk) L st) /\
  squares (fst (fold_left (deserStep zk) L st)) = fold_left (fun s o => updN (sqOf o) (snd o) s) L (squares (fst st)).
Proof.
  induction L as [|[sq pc] L IH]; intros [p h] I D F E; cbn [fold_left]; [auto|].
  cbn [map distinctb] in D. apply andb_prop in D as [D1 D2]. apply negb_true_iff in D1.
  inversion F as [|x l (Fa & Fb) F']; subst. cbn [fst snd sqOf] in *.
  assert (Hemp : getPiece p (toSq sq) = EMPTY) by (apply (E (sq, pc)); left; reflexivity).
  destruct (deserStep_frame p h sq pc) as (Fs & _).
  destruct (IH (deserStep zk (p, h) (sq, pc))) as (I' & S'); auto.
  - apply deserStep_inv; auto.
  - intros o Ho. rewrite Fs. rewrite nthP_updN_neq.
    + apply E. right; exact Ho.
    + intro Eq. match type of D1 with ?t = false => assert (X : t = true) end.
      { apply existsb_exists. exists (sqOf o). split; [apply (in_map sqOf); exact Ho|]. apply N.eqb_eq. exact Eq. }
      rewrite X in D1. discriminate.
  - split; [exact I'|]. rewrite S', Fs. reflexivity.
Qed.

Lemma deSerialize_unfold d :
  deSerialize zk d = deserFinish zk (fold_left (deserStep zk) (deserPairs d) (deserP0 zk, zk_empty zk)) (nth 4 d 0).
Proof. reflexivity. Qed.

Definition sqAll : list N :=
  [15;14;13;12;11;10;9;8;7;6;5;4;3;2;1;0; 31;30;29;28;27;26;25;24;23;22;21;20;19;18;17;16;
   47;46;45;44;43;42;41;40;39;38;37;36;35;34;33;32; 63;62;61;60;59;58;57;56;55;54;53;52;51;50;49;48].

Lemma deserPairs_squares d : map sqOf (deserPairs d) = sqAll.
Proof.
  unfold deserPairs, wordNibbles, sqOf. rewrite !map_app, !map_map. cbn [fst]. reflexivity.
Qed.

Lemma sqAll_facts : distinctb sqAll = true /\ Forall (fun s => s < 64) sqAll /\
  forallb (fun k => existsb (N.eqb (N.of_nat k)) sqAll) (seq 0 64) = true.
Proof.
  split; [vm_compute; reflexivity|]. split; [|vm_compute; reflexivity].
  apply Forall_forall. intros x Hx.
  assert (H : forallb (fun s => s <? 64) sqAll = true) by (vm_compute; reflexivity).
  rewrite forallb_forall in H. apply N.ltb_lt. auto.
Qed.

Lemma deserP0_inv : InvD (deserP0 zk, zk_empty zk).
Proof.
  split; [|repeat split]. cbn [fst snd]. unfold hat, deserP0.
  constructor; proj_simpl.
  - apply repeat_length.
  - apply repeat_length.
  - apply Forall_forall. intros x Hx. apply repeat_spec in Hx. subst. reflexivity.
  - intros pc Hpc. unfold bbOf. rewrite bbOfFrom_empty.
    + unfold ptBB. proj_simpl. destruct (Nat.lt_ge_cases (N.to_nat pc) 13).
      * apply nth_repeat.
      * apply nth_overflow. rewrite repeat_length. auto.
    + apply N.eqb_neq. unfold EMPTY. lia.
  - reflexivity.
  - reflexivity.
  - unfold hashOf, boardKey, C0. proj_simpl. rewrite (xorKeysFrom_empty zk EKZ). xor_solve.
  - unfold pawnKey. rewrite (xorKeysFrom_empty zk EKZ). rewrite N.lxor_0_r. reflexivity.
  - reflexivity.
  - reflexivity.
  - reflexivity.
  - reflexivity.
  - reflexivity.
Qed.

Lemma deserFinish_consistent p h flags : InvD (p, h) -> Consistent zk (deserFinish zk (p, h) flags).
Proof.
  intros (C & Hw & Hc & He). cbn [fst snd] in *. destruct C.
  unfold hat in *. proj_simpl_in c_hash.
  assert (Hh : h = boardKey zk (squares p)).
  { rewrite <- (lxor_cancel_r h C0). rewrite c_hash. unfold hashOf, C0. proj_simpl. rewrite Hw, Hc, He. xor_solve. }
  unfold deserFinish. cbv zeta. cbn [fst snd].
  constructor; proj_simpl; auto.
  unfold fullHash, hashOf. proj_simpl. rewrite Hh.
  destruct (negb (N.land (N.shiftr (N.shiftr (N.shiftr (N.shiftr flags 16) 8) 8) 4) 1 =? 0)); xor_solve.
Qed.

Theorem deSerialize_consistent d :
  Forall (fun o => snd o < 13) (deserPairs d) -> Consistent zk (deSerialize zk d).
Proof.
  intro F. rewrite deSerialize_unfold.
  destruct sqAll_facts as (SD & SF & _).
  destruct (deser_fold (deserPairs d) (deserP0 zk, zk_empty zk) deserP0_inv) as (I & _).
  - rewrite deserPairs_squares. exact SD.
  - apply Forall_forall. intros o Ho. split.
    + rewrite Forall_forall in SF. apply SF. rewrite <- (deserPairs_squares d). apply (in_map sqOf). exact Ho.
    + rewrite Forall_forall in F. apply F. exact Ho.
  - intros o Ho. cbn [fst]. unfold deserP0, nthP. cbn [squares].
    destruct (Nat.lt_ge_cases (N.to_nat (sqOf o)) 64); [apply nth_repeat | apply nth_overflow; rewrite repeat_length; auto].
  - destruct (fold_left _ _ _) as [p h]. apply deserFinish_consistent. exact I.
Qed.


(* ------------------------------------------------------------------ *)
(** * round trip *)
Lemma fold_left_map {A B C} (f : A -> C -> A) (g : B -> C) l : forall a,
  fold_left f (map g l) a = fold_left (fun a x => f a (g x)) l a.
Proof. induction l; simpl; auto. Qed.

Lemma nth_map_seq (f : nat -> N) n k d : (k < n)%nat -> nth k (map f (seq 0 n)) d = f k.
Proof.
  intro H. rewrite (nth_indep _ d (f 0%nat)) by (rewrite map_length, seq_length; exact H).
  rewrite map_nth, seq_nth by exact H. reflexivity.
Qed.

Lemma nib_serWord p i k :
  Forall (fun pc => pc < 13) (squares p) -> (k < 16)%nat ->
  N.land (N.shiftr (serWord p i) (4 * N.of_nat k)) 15 = getPiece p (i * 16 + (15 - N.of_nat k)).
Proof.
  intros F Hk. unfold serWord.
  rewrite <- (fold_left_map (fun v x => N.lor (N.shiftl v 4) x) (fun k => getPiece p (i * 16 + N.of_nat k)) (seq 0 16) 0).
  fold (packL (map (fun k0 : nat => getPiece p (i * 16 + N.of_nat k0)) (seq 0 16)) 0).
  rewrite nib_pack.
  - rewrite map_length, seq_length.
    rewrite nth_map_seq by lia. f_equal. lia.
  - apply Forall_forall. intros x Hx. apply in_map_iff in Hx as (k0 & <- & _).
    pose proof (getPiece_lt p (i * 16 + N.of_nat k0) F). lia.
  - rewrite map_length, seq_length. exact Hk.
Qed.

Lemma deserPairs_serialize p :
  Forall (fun pc => pc < 13) (squares p) ->
  deserPairs (serialize p) = map (fun s => (Z.of_N s, getPiece p s)) sqAll.
Proof.
  intro F. unfold deserPairs, serialize. cbn [nth].
  assert (W : forall i, wordNibbles i (serWord p i) =
                        map (fun s => (Z.of_N s, getPiece p s)) (map (fun k : nat => i * 16 + (15 - N.of_nat k)) (seq 0 16))).
  { intro i. unfold wordNibbles. rewrite map_map. apply map_ext_in. intros k Hk. apply in_seq in Hk. cbv zeta.
    rewrite nib_serWord by (auto; lia). reflexivity. }
  rewrite !W, <- !map_app. reflexivity.
Qed.

Lemma fold_upd_nth (g : N -> piece) S : forall T0 x,
  length T0 = 64%nat -> Forall (fun s => s < 64) S ->
  nthP (fold_left (fun s o => updN (sqOf o) (snd o) s) (map (fun s => (Z.of_N s, g s)) S) T0) x =
  if existsb (N.eqb x) S then g x else nthP T0 x.
Proof.
  induction S as [|a S IH]; intros T0 x Hl F; cbn [map fold_left existsb]; [reflexivity|].
  inversion F as [|? ? Ha F']; subst. cbv beta in Ha. rewrite IH by (auto; rewrite length_updN; auto).
  unfold sqOf, toSq. cbn [fst snd]. rewrite N2Z.id.
  destruct (N.eqb_spec x a) as [->|Hne]; cbn [orb].
  - destruct (existsb (N.eqb a) S); [reflexivity|]. apply nthP_updN_eq. unfold piece in *. rewrite Hl. exact Ha.
  - destruct (existsb (N.eqb x) S); [reflexivity|]. apply nthP_updN_neq. auto.
Qed.

Lemma length_fold_upd (L : list (Z * N)) : forall T : list N,
  length (fold_left (fun s o => updN (sqOf o) (snd o) s) L T) = length T.
Proof. induction L; intro T; cbn [fold_left]; [reflexivity|]. rewrite IHL, length_updN. reflexivity. Qed.

Lemma deserFinish_squares st flags : squares (deserFinish zk st flags) = squares (fst st).
Proof. reflexivity. Qed.

Lemma squares_roundtrip p :
  Consistent zk p -> squares (deSerialize zk (serialize p)) = squares p.
Proof.
  intro C. assert (F : Forall (fun pc => pc < 13) (squares p)) by (destruct C; auto).
  assert (Hlen : length (squares p) = 64%nat) by (destruct C; auto).
  destruct sqAll_facts as (SD & SF & SC).
  rewrite deSerialize_unfold, deserFinish_squares.
  destruct (deser_fold (deserPairs (serialize p)) (deserP0 zk, zk_empty zk) deserP0_inv) as (_ & Sq).
  - rewrite deserPairs_squares. exact SD.
  - rewrite deserPairs_serialize by auto. apply Forall_forall. intros o Ho.
    apply in_map_iff in Ho as (s0 & <- & Hs). unfold sqOf, toSq. cbn [fst snd]. rewrite N2Z.id. split.
    + rewrite Forall_forall in SF. auto.
    + apply getPiece_lt; auto.
  - intros o Ho. cbn [fst]. unfold deserP0, nthP. cbn [squares].
    destruct (Nat.lt_ge_cases (N.to_nat (sqOf o)) 64); [apply nth_repeat | apply nth_overflow; rewrite repeat_length; auto].
  - rewrite Sq. cbn [fst]. rewrite deserPairs_serialize by auto.
    apply list_ext_N; [etransitivity; [apply length_fold_upd | reflexivity] | exact Hlen |].
    intros s Hs. rewrite fold_upd_nth by (auto; reflexivity).
      rewrite forallb_forall in SC.
      assert (E : existsb (N.eqb s) sqAll = true).
      { specialize (SC (N.to_nat s)). rewrite N2Nat.id in SC. apply SC. apply in_seq. lia. }
      rewrite E. reflexivity.
Qed.


Lemma zland_small z n : (0 <= z < 2 ^ Z.of_N n)%Z -> Z.to_N (Z.land z (Z.ones (Z.of_N n))) = Z.to_N z.
Proof. intro H. rewrite Z.land_ones by lia. rewrite Z.mod_small by exact H. reflexivity. Qed.

Lemma flags_roundtrip p :
  castleMask p < 16 -> epInb (epSquare p) = true ->
  (0 <= halfMoveClock p < 256)%Z -> (0 <= fullMoveCounter p < 65536)%Z ->
  scalars (deserFinish zk (p, 0) (serFlags p)) = scalars p.
Proof.
  intros Hcm Hep Hh Hf.
  unfold epInb in Hep. apply andb_prop in Hep as [He1 He2]. apply Z.leb_le in He1. apply Z.ltb_lt in He2.
  set (wmN := if whiteMove p then 1 else 0).
  set (e8 := Z.to_N (Z.land (epSquare p) 255)).
  assert (He8 : e8 < 2 ^ 8 /\ (if (Z.of_N e8 =? 255)%Z then (-1)%Z else Z.of_N e8) = epSquare p).
  { unfold e8. destruct (Z.eq_dec (epSquare p) (-1)) as [->|Hn].
    - split; reflexivity.
    - assert (El : Z.land (epSquare p) 255 = epSquare p).
      { change 255%Z with (Z.ones 8). rewrite Z.land_ones by lia. apply Z.mod_small. change (2 ^ 8)%Z with 256%Z. lia. }
      rewrite El. split; [change (2 ^ 8) with 256; lia|]. rewrite Z2N.id by lia.
      destruct (Z.eqb_spec (epSquare p) 255); [lia | reflexivity]. }
  destruct He8 as (He8 & Eep).
  assert (Hh8 : Z.to_N (Z.land (halfMoveClock p) 255) = Z.to_N (halfMoveClock p))
    by (change 255%Z with (Z.ones (Z.of_N 8)); apply zland_small; simpl; lia).
  assert (Hf16 : Z.to_N (Z.land (fullMoveCounter p) 65535) = Z.to_N (fullMoveCounter p))
    by (change 65535%Z with (Z.ones (Z.of_N 16)); apply zland_small; simpl; lia).
  unfold scalars, deserFinish, serFlags. cbv zeta. cbn [fst snd]. proj_simpl.
  fold wmN. fold e8. rewrite Hh8, Hf16.
  set (h8 := Z.to_N (halfMoveClock p)). set (f16 := Z.to_N (fullMoveCounter p)).
  assert (Bh : h8 < 2 ^ 8) by (unfold h8; simpl; lia).
  assert (Bf : f16 < 2 ^ 16) by (unfold f16; simpl; lia).
  assert (Bc : castleMask p < 2 ^ 4) by (simpl; lia).
  change 65535 with (N.ones 16). change 255 with (N.ones 8). change 15 with (N.ones 4).
  rewrite (lor_shiftl_low _ f16 16) by exact Bf.
  rewrite (lor_shiftl_high _ f16 16) by exact Bf.
  rewrite (lor_shiftl_low _ h8 8) by exact Bh.
  rewrite (lor_shiftl_high _ h8 8) by exact Bh.
  rewrite (lor_shiftl_low _ e8 8) by exact He8.
  rewrite (lor_shiftl_high _ e8 8) by exact He8.
  rewrite (lor_shiftl_low _ (castleMask p) 4) by exact Bc.
  rewrite (lor_shiftl_high _ (castleMask p) 4) by exact Bc.
  rewrite Eep. unfold f16, h8. rewrite !Z2N.id by lia.
  unfold wmN. destruct (whiteMove p); reflexivity.
Qed.

Lemma deserFinish_scalars st st' flags : scalars (deserFinish zk st flags) = scalars (deserFinish zk st' flags).
Proof. reflexivity. Qed.

Theorem serialize_roundtrip p :
  Consistent zk p -> (0 <= halfMoveClock p < 256)%Z -> (0 <= fullMoveCounter p < 65536)%Z ->
  castleMask p < 16 -> epInb (epSquare p) = true ->
  normEmpty (deSerialize zk (serialize p)) = normEmpty p.
Proof.
  intros C Hh Hf Hc He.
  assert (F : Forall (fun pc => pc < 13) (squares p)) by (destruct C; auto).
  apply (St_unique zk (squares p) (scalars p)); [|apply St_self; exact C].
  split; [|split].
  - apply deSerialize_consistent. rewrite deserPairs_serialize by auto.
    apply Forall_forall. intros o Ho. apply in_map_iff in Ho as (s0 & <- & _). cbn [snd]. apply getPiece_lt; auto.
  - apply squares_roundtrip; auto.
  - rewrite deSerialize_unfold. change (nth 4 (serialize p) 0) with (serFlags p).
    rewrite (deserFinish_scalars _ (p, 0)). apply flags_roundtrip; auto.
Qed.

End Ser.
