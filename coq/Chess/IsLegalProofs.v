(** MoveGen::isLegal: its verdict is the Spec's legality for every pseudo-legal move when the
    side to move is in check, and - when not in check - for every non-king move that is not
    decided by the "moves along the king's line" test; the position is restored.
    Not covered (C01_isLegal_statement): king moves when not in check (attack test with the king
    lifted from the occupancy) and the same-direction exit. *)
From Coq Require Import ZArith NArith List Bool Lia.
From Texel Require Import Chess.Types Chess.Position Chess.PositionSpec Chess.PositionFacts Chess.PositionProofs
  Chess.PositionProofs2 Chess.PositionProofs4 Chess.PositionTheorems Chess.PositionB
  Chess.BitBoard Chess.MoveGen Chess.Spec Chess.MoveGenWF
  Chess.BitBoardProofs Chess.RayProofs Chess.MoveGenProofs Chess.AttackProofs Chess.SliderProofs Chess.PawnProofs
  Chess.PseudoProofs Chess.MakeSpecProofs Chess.TryMoveProofs Chess.CastleProofs Chess.LegalProofs Chess.ShortcutProofs
  gen.BitBoardTables.
Import ListNotations.
Local Open Scope N_scope.

Section IsLegal.
Variable zk : zkeys.
Hypothesis EKZ : emptyKeysZero zk.
Variable p : position.
Hypothesis HWF : WF p.
Hypothesis HC : Consistent zk p.
Variable m : move.
Hypothesis Hm : In m (pseudoLegalMoves p).
Let w := whiteMove p.
Let ks := kingSq p w.
Let occ := occupiedBB p.

Definition restoredB (q : position) : Prop :=
  squares q = squares p /\ (forall pc, 1 <= pc -> ptBB q pc = ptBB p pc) /\
  whiteBB q = whiteBB p /\ blackBB q = blackBB p /\ rest q = rest p.

Lemma restoredB_refl : restoredB p.
Proof. unfold restoredB. repeat split; reflexivity. Qed.

Lemma tryMoveB_verdict : snd (tryMoveB p m) = legal_specb (abs p) m /\ restoredB (fst (tryMoveB p m)).
Proof.
  destruct (tryMoveB_spec zk EKZ p HWF HC m Hm) as [_ Hr]. split; [|exact Hr].
  pose proof (tryMoveB_legal zk EKZ p HWF HC m Hm) as Hv.
  destruct (snd (tryMoveB p m)); destruct (legal_specb (abs p) m) eqn:El; try reflexivity.
  - assert (Hl : legal_spec (abs p) m) by (apply Hv; reflexivity). apply legal_specb_spec in Hl. congruence.
  - apply legal_specb_spec in El. apply Hv in El. discriminate.
Qed.

Theorem isLegal_in_check : inCheck p = true ->
  snd (isLegal p m true) = legal_specb (abs p) m /\ restoredB (fst (isLegal p m true)).
Proof.
  intro Hc. unfold isLegal. cbv zeta. fold w. fold ks. fold occ.
  destruct (negb (mfrom m =? ks) && negb (Z.of_N (mto m) =? epSquare p)%Z) eqn:E0.
  2:{ apply tryMoveB_verdict. }
  destruct ((N.land (rookAttacks ks occ) (bit (mto m)) =? 0) && (N.land (bishopAttacks ks occ) (bit (mto m)) =? 0)
            && (N.land (N.land (knightAttacks ks) (ptBB p (if w then BKNIGHT else WKNIGHT))) (bit (mto m)) =? 0)) eqn:E1.
  2:{ apply tryMoveB_verdict. }
  cbn [fst snd]. split; [|apply restoredB_refl].
  apply andb_true_iff in E0. destruct E0 as [H1 H3]. apply negb_true_iff, N.eqb_neq in H1. apply negb_true_iff, Z.eqb_neq in H3.
  rewrite !andb_true_iff, !land_bit_zero, !negb_true_iff in E1. destruct E1 as [[Hr Hb] Hk].
  unfold ks, occ, w in *. symmetry. apply (illegal_in_check zk EKZ p HWF HC m Hm Hc H1 H3).
  - rewrite N.lor_spec, Hr, Hb. reflexivity.
  - intro Hkn. destruct (simple_facts zk EKZ p HWF HC m Hm H1 H3) as (_ & _ & _ & Ht & _).
    destruct (kingSq_spec p (whiteMove p) HWF) as [Hk64 _].
    rewrite <- (proj2 (knightAttacks_spec _ Hk64) _ Ht).
    rewrite N.land_spec in Hk. apply andb_false_iff in Hk. destruct Hk as [Hk|Hk]; [exact Hk|].
    exfalso. assert (Hpc : In (if whiteMove p then BKNIGHT else WKNIGHT) pieceCodes) by (destruct (whiteMove p); cbn; tauto).
    rewrite (BoardOK_ptBB p _ _ (WF_BoardOK p HWF) Hpc) in Hk.
    replace (mto m <? 64) with true in Hk by (symmetry; apply N.ltb_lt; exact Ht). cbn [andb] in Hk.
    rewrite is_piece_eqb in Hkn. destruct (whiteMove p); cbn [negb mk_piece] in Hkn; congruence.
Qed.

Theorem isLegal_not_in_check_nonking : inCheck p = false -> mfrom m <> ks ->
  (Z.of_N (mto m) = epSquare p \/
   N.testbit (N.lor (rookAttacks ks occ) (bishopAttacks ks occ)) (mfrom m) = false \/
   getDirection ks (mfrom m) <> getDirection ks (mto m)) ->
  snd (isLegal p m false) = legal_specb (abs p) m /\ restoredB (fst (isLegal p m false)).
Proof.
  intros Hc Hnk Hcov. unfold isLegal. cbv zeta. fold w. fold ks. fold occ.
  replace (mfrom m =? ks) with false by (symmetry; apply N.eqb_neq; exact Hnk).
  destruct (Z.eqb_spec (Z.of_N (mto m)) (epSquare p)) as [Eep|Hnep]; cbn [negb].
  { apply tryMoveB_verdict. }
  destruct ((N.land (rookAttacks ks occ) (bit (mfrom m)) =? 0) && (N.land (bishopAttacks ks occ) (bit (mfrom m)) =? 0)) eqn:E1.
  - cbn [fst snd]. split; [|apply restoredB_refl].
    rewrite !andb_true_iff, !land_bit_zero, !negb_true_iff in E1. destruct E1 as [Hr Hb].
    unfold ks, occ, w in *. symmetry. apply (legal_not_in_check zk EKZ p HWF HC m Hm Hc Hnk Hnep). rewrite N.lor_spec, Hr, Hb. reflexivity.
  - destruct Hcov as [Hx|[Hx|Hx]]; [contradiction | |].
    + exfalso. rewrite N.lor_spec in Hx. apply orb_false_iff in Hx. destruct Hx as [Hr Hb].
      rewrite !land_bit_zero, Hr, Hb in E1. discriminate.
    + replace (getDirection ks (mfrom m) =? getDirection ks (mto m))%Z with false by (symmetry; apply Z.eqb_neq; exact Hx).
      apply tryMoveB_verdict.
Qed.
End IsLegal.
