(** C01_wf_preserved: a legal move leads from a well-formed position to a well-formed position.
    Part 1 (this file): the representation half of WF (bitboards = board) after makeMove, for any
    Zobrist tables and without assuming C02's invariant on the hash / material fields: the
    board part of makeMove does not depend on them, so C02's theorem is applied to a "twin"
    position whose redundant fields are recomputed.  Also: the scalar fields after makeMove. *)
From Coq Require Import ZArith NArith List Bool Lia.
From Texel Require Import Chess.Types Chess.Position Chess.PositionSpec Chess.PositionFacts Chess.PositionProofs
  Chess.PositionProofs2 Chess.PositionProofs3 Chess.PositionProofs4 Chess.PositionTheorems Chess.PositionB Chess.PositionKings
  Chess.BitBoard Chess.MoveGen Chess.Spec Chess.MoveGenWF
  Chess.BitBoardProofs Chess.RayProofs Chess.MoveGenProofs Chess.AttackProofs Chess.SliderProofs Chess.PawnProofs
  Chess.PseudoProofs Chess.MakeSpecProofs Chess.TryMoveProofs Chess.CastleProofs Chess.LegalProofs gen.BitBoardTables.
Import ListNotations.
Local Open Scope N_scope.

(** * The twin position *)
Lemma zkDummy_empty : emptyKeysZero zkDummy.
Proof. intro sq. unfold psKey, zkDummy. cbn [zk_ps]. destruct (N.to_nat EMPTY); destruct (N.to_nat sq); reflexivity. Qed.

Definition twin (p : position) : position :=
  mkPos (squares p) (pieceTypeBB p) (whiteBB p) (blackBB p) (whiteMove p) (halfMoveClock p) (fullMoveCounter p)
        (castleMask p) (epSquare p)
        (hashOf zkDummy p) (pawnKey zkDummy (squares p)) (matIdOf (squares p))
        (mtrlOf isWhitePiece (squares p) - kV)%Z (mtrlOf isBlackPiece (squares p) - kV)%Z
        (mtrlOf (N.eqb WPAWN) (squares p)) (mtrlOf (N.eqb BPAWN) (squares p)).

Lemma twin_bbpart : forall p, bbpart (twin p) = bbpart p.
Proof. reflexivity. Qed.

Lemma bbOfPiece_bbOf : forall sqs pc, length sqs = 64%nat -> bbOfPiece sqs pc = bbOf (N.eqb pc) sqs.
Proof.
  intros sqs pc Hl. apply N.bits_inj. intro k. rewrite (bbOfPiece_testbit sqs pc k Hl), testbit_bbOf, Hl.
  change (N.of_nat 64) with 64. rewrite (N.eqb_sym pc). reflexivity.
Qed.

Lemma twin_consistent : forall p, WF p -> Consistent zkDummy (twin p).
Proof.
  intros p H. destruct (WF_parts p H) as [Hl [Hbb [Hw [Hb Ha]]]].
  assert (Hbl : length (pieceTypeBB p) = 13%nat).
  { unfold WF, wfb, bbConsistentb in H. rewrite !andb_true_iff in H. destruct H as [[[[[_ H2] _] _] _] _].
    apply Nat.eqb_eq in H2. exact H2. }
  pose proof (WF_BoardOK p H) as HB.
  constructor; try reflexivity; cbn [twin squares pieceTypeBB whiteBB blackBB]; try assumption.
  - apply Forall_forall. intros pc Hin. apply (In_nth _ _ EMPTY) in Hin. destruct Hin as [i [Hi <-]].
    pose proof (BoardOK_le12 p (N.of_nat i) HB) as Hle. unfold getPiece in Hle. rewrite Nat2N.id in Hle. lia.
  - intros pc Hpc. unfold ptBB. cbn [pieceTypeBB]. fold (ptBB p pc). rewrite <- (bbOfPiece_bbOf _ _ Hl).
    apply Hbb. unfold pieceCodes. cbn [In]. lia.
  - apply N.bits_inj. intro k. change (whiteBB p) with (colorBB p true).
    rewrite (BoardOK_color p true k HB), testbit_bbOf, Hl. change (N.of_nat 64) with 64.
    fold (getPiece p k). rewrite has_color_white by (apply (BoardOK_le12 p k HB)). reflexivity.
  - apply N.bits_inj. intro k. change (blackBB p) with (colorBB p false).
    rewrite (BoardOK_color p false k HB), testbit_bbOf, Hl. change (N.of_nat 64) with 64.
    fold (getPiece p k). rewrite has_color_black by (apply (BoardOK_le12 p k HB)). reflexivity.
  - unfold twin. cbn [hashKey]. rewrite N.lxor_0_r. reflexivity.
Qed.

(** makeMoveB reads the board part and the e.p. square only *)
Lemma makeMoveB_bbpart_dep : forall p p' m, bbpart p = bbpart p' -> epSquare p = epSquare p' ->
  bbpart (fst (makeMoveB p m)) = bbpart (fst (makeMoveB p' m)).
Proof.
  intros p p' m E Eep.
  assert (Hg : forall s, getPiece p s = getPiece p' s) by (intro s; apply getPiece_bb; exact E).
  assert (Hpa : forall k, pawnsAtB p k = pawnsAtB p' k).
  { intro k. unfold pawnsAtB, ptBB. destruct (bbpart_eq_fields _ _ E) as (_ & -> & _). reflexivity. }
  assert (Hka : forall k, kingsAtB p k = kingsAtB p' k).
  { intro k. unfold kingsAtB, ptBB. destruct (bbpart_eq_fields _ _ E) as (_ & -> & _). reflexivity. }
  unfold makeMoveB. cbv zeta. cbn [fst]. rewrite !Hg, Hpa, Hka, Eep.
  repeat match goal with |- context [if ?c then _ else _] => destruct c end;
    rewrite ?bbpart_setPieceB, ?bbpart_mPNPB, ?E; reflexivity.
Qed.

Section Made.
Variable zk : zkeys.
Variable p : position.
Hypothesis HWF : WF p.
Variable m : move.
Hypothesis Hok : moveOk p m = true.
Let q := fst (makeMove zk p m).
Let q' := fst (makeMove zkDummy (twin p) m).

Lemma made_bbpart_twin : bbpart q = bbpart q'.
Proof.
  unfold q, q'. rewrite <- (makeMoveB_simulates zk p m Hok).
  rewrite <- (makeMoveB_simulates zkDummy (twin p) m) by exact Hok.
  apply makeMoveB_bbpart_dep; reflexivity.
Qed.

Lemma made_twin_consistent : Consistent zkDummy q'.
Proof. apply (makeMove_consistent zkDummy zkDummy_empty (twin p) m (twin_consistent p HWF)). exact Hok. Qed.

Lemma made_BoardOK : BoardOK q.
Proof. apply (BoardOK_bbpart q q' made_bbpart_twin). apply (Consistent_BoardOK zkDummy 0), made_twin_consistent. Qed.

Lemma made_lengths : length (squares q) = 64%nat /\ length (pieceTypeBB q) = 13%nat /\ Forall (fun pc => pc < 13) (squares q).
Proof.
  destruct (bbpart_eq_fields _ _ made_bbpart_twin) as (-> & -> & _). destruct made_twin_consistent. auto.
Qed.

(** the representation half of WF *)
Lemma made_bbConsistent : bbConsistentb q = true.
Proof.
  destruct made_lengths as (Hl & Hbl & _). pose proof made_BoardOK as HB.
  unfold bbConsistentb. rewrite Hl, Hbl. cbn [Nat.eqb andb].
  assert (Hpc : forall pc, In pc pieceCodes -> ptBB q pc = bbOfPiece (squares q) pc).
  { intros pc Hin. apply N.bits_inj. intro k. rewrite (BoardOK_ptBB q pc k HB Hin), (bbOfPiece_testbit _ _ _ Hl). reflexivity. }
  assert (Hcol : forall (w : bool) k, N.testbit (fold_left N.lor (map (bbOfPiece (squares q)) (if w then [1; 2; 3; 4; 5; 6] else [7; 8; 9; 10; 11; 12])) 0) k
                               = (k <? 64) && has_color w (getPiece q k)).
  { intros w k. pose proof (BoardOK_le12 q k HB) as Hle.
    destruct w; cbn [map fold_left]; rewrite !N.lor_spec, N.bits_0, !(bbOfPiece_testbit _ _ _ Hl); cbn [orb];
      fold (getPiece q k); (destruct (k <? 64); [|reflexivity]); cbn [andb];
      destruct (le12_cases _ Hle) as [E|[E|[E|[E|[E|[E|[E|[E|[E|[E|[E|[E|E]]]]]]]]]]]]; rewrite E; reflexivity. }
  rewrite !andb_true_iff. repeat split.
  - apply forallb_forall. intros pc Hin. apply N.eqb_eq. apply Hpc. exact Hin.
  - apply N.eqb_eq. apply N.bits_inj. intro k. rewrite (Hcol true k). apply (BoardOK_color q true k HB).
  - apply N.eqb_eq. apply N.bits_inj. intro k. rewrite (Hcol false k). apply (BoardOK_color q false k HB).
Qed.

(** the board after makeMove is makeMoveB's *)
Lemma made_squares : squares q = squares (fst (makeMoveB p m)).
Proof. destruct (bbpart_eq_fields _ _ (makeMoveB_simulates zk p m Hok)) as (E & _). symmetry. exact E. Qed.
End Made.

(** * The scalar fields after makeMove: side, castle mask, e.p. square *)
Section Scalars.
Variable zk : zkeys.

Lemma scalars_setEp x e : scalars (setEpSquare zk x e) = (whiteMove x, halfMoveClock x, fullMoveCounter x, castleMask x, e).
Proof. unfold setEpSquare, scalars. destruct (Z.eqb_spec (epSquare x) e); simpl; congruence. Qed.
Lemma scalars_setCastle x c : scalars (setCastleMask zk x c) = (whiteMove x, halfMoveClock x, fullMoveCounter x, c, epSquare x).
Proof. unfold setCastleMask, scalars. destruct (N.eqb_spec c (castleMask x)); simpl; congruence. Qed.
Lemma scalars_proj x a b c d e : scalars x = (a, b, c, d, e) ->
  whiteMove x = a /\ halfMoveClock x = b /\ fullMoveCounter x = c /\ castleMask x = d /\ epSquare x = e.
Proof. unfold scalars. intro H. inversion H. auto. Qed.

Lemma epilogue_scalars : forall x m w,
  whiteMove (mmEpilogue zk x m w) = negb w /\
  castleMask (mmEpilogue zk x m w) = N.land (N.land (castleMask x) (castleSqMask (mfrom m))) (castleSqMask (mto m)) /\
  epSquare (mmEpilogue zk x m w) = epSquare x.
Proof.
  intros x m w. unfold mmEpilogue. cbv zeta.
  set (y := setCastleMask zk x (N.land (N.land (castleMask x) (castleSqMask (mfrom m))) (castleSqMask (mto m)))).
  pose proof (scalars_setCastle x (N.land (N.land (castleMask x) (castleSqMask (mfrom m))) (castleSqMask (mto m)))) as S.
  fold y in S. destruct (scalars_proj _ _ _ _ _ _ S) as (_ & _ & _ & B4 & B5).
  destruct (negb w); cbn [whiteMove castleMask epSquare set_whiteMove set_fullMoveCounter]; auto.
Qed.

Lemma made_scalars : forall p m, let q := fst (makeMove zk p m) in
  whiteMove q = negb (whiteMove p) /\
  castleMask q = N.land (N.land (castleMask p) (castleSqMask (mfrom m))) (castleSqMask (mto m)) /\
  (epSquare q = (-1)%Z \/
   (getPiece p (mfrom m) = WPAWN /\ Z.of_N (mto m) = sqPlus (mfrom m) 16 /\ epSquare q = sqPlus (mfrom m) 8) \/
   (getPiece p (mfrom m) = BPAWN /\ Z.of_N (mto m) = sqPlus (mfrom m) (-16) /\ epSquare q = sqPlus (mfrom m) (-8))).
Proof.
  intros p m. cbv zeta. rewrite makeMove_fst.
  set (p2 := setEpSquare zk (set_hashKey p (N.lxor (hashKey p) (zk_white zk))) (-1)).
  assert (S2 : scalars p2 = (whiteMove p, halfMoveClock p, fullMoveCounter p, castleMask p, (-1)%Z))
    by (unfold p2; rewrite scalars_setEp; reflexivity).
  match goal with |- context [mmEpilogue zk ?x m (whiteMove p)] => set (x0 := x) end.
  destruct (epilogue_scalars x0 m (whiteMove p)) as (E1 & E2 & E3). rewrite E1, E2, E3.
  assert (B : castleMask x0 = castleMask p /\
              (epSquare x0 = (-1)%Z \/
               (getPiece p (mfrom m) = WPAWN /\ Z.of_N (mto m) = sqPlus (mfrom m) 16 /\ epSquare x0 = sqPlus (mfrom m) 8) \/
               (getPiece p (mfrom m) = BPAWN /\ Z.of_N (mto m) = sqPlus (mfrom m) (-16) /\ epSquare x0 = sqPlus (mfrom m) (-8)))).
  { assert (P : forall x, scalars x = scalars p2 \/ (exists h, scalars x = scalars (set_halfMoveClock p2 h)) ->
                castleMask x = castleMask p /\ epSquare x = (-1)%Z).
    { intros x [Hx|[h Hx]]; rewrite ?S2 in Hx.
      - destruct (scalars_proj _ _ _ _ _ _ Hx) as (_ & _ & _ & A4 & A5). auto.
      - destruct (scalars_proj _ _ _ _ _ _ S2) as (_ & _ & _ & A4 & A5).
        unfold scalars in Hx. cbn [whiteMove halfMoveClock fullMoveCounter castleMask epSquare set_halfMoveClock] in Hx.
        inversion Hx. split; congruence. }
    unfold x0. destruct (negb (getPiece p (mto m) =? EMPTY) || pawnsAt p2 (sqMask (mfrom m))).
    - unfold mmCaptureBranch, mmEpBlock. cbv zeta.
      set (p3 := set_halfMoveClock p2 0).
      assert (P3 : forall x, scalars x = scalars p3 -> castleMask x = castleMask p /\ epSquare x = (-1)%Z)
        by (intros x Hx; apply P; right; exists 0%Z; exact Hx).
      assert (C3 : castleMask p3 = castleMask p) by (apply (P3 p3 eq_refl)).
      destruct (N.eqb_spec (getPiece p (mfrom m)) WPAWN) as [EW|EW].
      + destruct (Z.eqb_spec (Z.of_N (mto m)) (sqPlus (mfrom m) 16)) as [E16|E16].
        * match goal with |- context [if negb ?c then _ else _] => destruct (negb c) end.
          -- match goal with |- castleMask ?t = _ /\ _ => assert (St : scalars t = scalars (setEpSquare zk p3 (sqPlus (mfrom m) 8)))
               by (rewrite scalars_setPiece, scalars_clearPiece; reflexivity) end.
             rewrite scalars_setEp in St. destruct (scalars_proj _ _ _ _ _ _ St) as (_ & _ & _ & A4 & A5).
             split; [congruence|]. right. left. auto.
          -- match goal with |- castleMask ?t = _ /\ _ => destruct (P3 t) as [A4 A5];
               [rewrite scalars_setPiece, scalars_clearPiece; reflexivity|] end. auto.
        * match goal with |- castleMask ?t = _ /\ _ => destruct (P3 t) as [A4 A5];
            [destruct (Z.of_N (mto m) =? epSquare p)%Z; rewrite scalars_setPiece, ?scalars_clearPiece; reflexivity|] end. auto.
      + destruct (N.eqb_spec (getPiece p (mfrom m)) BPAWN) as [EB|EB].
        * destruct (Z.eqb_spec (Z.of_N (mto m)) (sqPlus (mfrom m) (-16))) as [E16|E16].
          -- match goal with |- context [if negb ?c then _ else _] => destruct (negb c) end.
             ++ match goal with |- castleMask ?t = _ /\ _ => assert (St : scalars t = scalars (setEpSquare zk p3 (sqPlus (mfrom m) (-8))))
                  by (rewrite scalars_setPiece, scalars_clearPiece; reflexivity) end.
                rewrite scalars_setEp in St. destruct (scalars_proj _ _ _ _ _ _ St) as (_ & _ & _ & A4 & A5).
                split; [congruence|]. right. right. auto.
             ++ match goal with |- castleMask ?t = _ /\ _ => destruct (P3 t) as [A4 A5];
                  [rewrite scalars_setPiece, scalars_clearPiece; reflexivity|] end. auto.
          -- match goal with |- castleMask ?t = _ /\ _ => destruct (P3 t) as [A4 A5];
               [destruct (Z.of_N (mto m) =? epSquare p)%Z; rewrite scalars_setPiece, ?scalars_clearPiece; reflexivity|] end. auto.
        * match goal with |- castleMask ?t = _ /\ _ => destruct (P3 t) as [A4 A5];
            [rewrite scalars_setPiece, scalars_clearPiece; reflexivity|] end. auto.
    - unfold mmQuietBranch, mmCastleBlock. cbv zeta.
      match goal with |- castleMask ?t = _ /\ _ => destruct (P t) as [A4 A5] end; [|auto].
      right. exists (halfMoveClock p2 + 1)%Z. rewrite scalars_movePieceNotPawn.
      destruct (kingsAt _ _); [|reflexivity].
      destruct (Z.of_N (mto m) =? sqPlus (mfrom m) 2)%Z; [rewrite scalars_movePieceNotPawn; reflexivity|].
      destruct (Z.of_N (mto m) =? sqPlus (mfrom m) (-2))%Z; rewrite ?scalars_movePieceNotPawn; reflexivity. }
  destruct B as [B1 B2]. rewrite B1. auto.
Qed.
End Scalars.

(** * Part 2 (Spec level): a pseudo-move onto an occupied square attacks that square; shape of
    pawn and king moves *)
Local Open Scope Z_scope.

Lemma ray_moves_shape : forall b w k f0 r0 f r df dr m,
  In m (ray_moves b w k f0 r0 f r df dr) ->
  exists n, 1 <= n <= Z.of_nat k /\ m = mv f0 r0 (f + n * df) (r + n * dr) EMPTY /\
            on_board (f + n * df) (r + n * dr) = true /\
            forall i, 1 <= i < n -> on_board (f + i * df) (r + i * dr) = true /\ at_ b (f + i * df) (r + i * dr) = EMPTY.
Proof.
  intros b w. induction k as [|k IH]; intros f0 r0 f r df dr m H; cbn [ray_moves] in H; [destruct H|].
  destruct (on_board (f + df) (r + dr)) eqn:Hob; [|destruct H].
  assert (H1 : forall x, x = mv f0 r0 (f + df) (r + dr) EMPTY ->
               exists n, 1 <= n <= Z.of_nat (S k) /\ x = mv f0 r0 (f + n * df) (r + n * dr) EMPTY /\
                 on_board (f + n * df) (r + n * dr) = true /\
                 forall i, 1 <= i < n -> on_board (f + i * df) (r + i * dr) = true /\ at_ b (f + i * df) (r + i * dr) = EMPTY).
  { intros x ->. exists 1. rewrite !Z.mul_1_l. repeat split; try lia; assumption. }
  destruct (N.eqb_spec (at_ b (f + df) (r + dr)) EMPTY) as [He|He].
  - destruct H as [<-|H]; [apply H1; reflexivity|].
    apply IH in H. destruct H as [n [Hn [-> [Hobn Hall]]]]. exists (n + 1). split; [lia|].
    replace (f + (n + 1) * df) with (f + df + n * df) by ring. replace (r + (n + 1) * dr) with (r + dr + n * dr) by ring.
    split; [reflexivity|]. split; [exact Hobn|]. intros i Hi.
    destruct (Z.eq_dec i 1) as [->|Hne]; [rewrite !Z.mul_1_l; auto|].
    replace (f + i * df) with (f + df + (i - 1) * df) by ring. replace (r + i * dr) with (r + dr + (i - 1) * dr) by ring.
    apply Hall. lia.
  - destruct (has_color (negb w) (at_ b (f + df) (r + dr))); [|destruct H].
    destruct H as [<-|[]]. apply H1. reflexivity.
Qed.

Lemma ray_first_back : forall b (K : nat) f r df dr n,
  1 <= n <= Z.of_nat K -> on_board f r = true -> at_ b f r <> EMPTY ->
  (forall i, 1 <= i < n -> on_board (f + i * df) (r + i * dr) = true /\ at_ b (f + i * df) (r + i * dr) = EMPTY) ->
  ray_first b K (f + n * df) (r + n * dr) (- df) (- dr) = at_ b f r.
Proof.
  intros b. induction K as [|K IH]; intros f r df dr n Hn Hob Hne Hall; [cbn in Hn; lia|].
  cbn [ray_first].
  replace (f + n * df + - df) with (f + (n - 1) * df) by ring. replace (r + n * dr + - dr) with (r + (n - 1) * dr) by ring.
  destruct (Z.eq_dec n 1) as [->|Hn1].
  - change (1 - 1) with 0. rewrite !Z.mul_0_l, !Z.add_0_r, Hob.
    destruct (N.eqb_spec (at_ b f r) EMPTY); [contradiction | reflexivity].
  - destruct (Hall (n - 1) ltac:(lia)) as [Ho He]. rewrite Ho, He. change (N.eqb EMPTY EMPTY) with true. cbv iota.
    apply IH; try assumption; [lia|]. intros i Hi. apply Hall. lia.
Qed.

Lemma attacked_by_step : forall b w f r,
  ((exists d, In d knight_offsets /\ at_ b (f + fst d) (r + snd d) = mk_piece w Knight) \/
   (exists d, In d king_offsets /\ at_ b (f + fst d) (r + snd d) = mk_piece w King) \/
   at_ b (f - 1) (if w then r - 1 else r + 1) = mk_piece w Pawn \/ at_ b (f + 1) (if w then r - 1 else r + 1) = mk_piece w Pawn \/
   (exists d, In d rook_dirs /\ (ray_first b 7 f r (fst d) (snd d) = mk_piece w Rook \/ ray_first b 7 f r (fst d) (snd d) = mk_piece w Queen)) \/
   (exists d, In d bishop_dirs /\ (ray_first b 7 f r (fst d) (snd d) = mk_piece w Bishop \/ ray_first b 7 f r (fst d) (snd d) = mk_piece w Queen))) ->
  attacked_by b w f r = true.
Proof.
  intros b w f r H. unfold attacked_by. rewrite !orb_true_iff.
  destruct H as [[d [Hd E]]|[[d [Hd E]]|[E|[E|[[d [Hd E]]|[d [Hd E]]]]]]].
  - left. left. left. left. apply existsb_exists. exists d. split; [exact Hd|]. rewrite is_piece_eqb, E. apply N.eqb_refl.
  - left. left. left. right. apply existsb_exists. exists d. split; [exact Hd|]. rewrite is_piece_eqb, E. apply N.eqb_refl.
  - left. left. right. left. rewrite is_piece_eqb, E. apply N.eqb_refl.
  - left. left. right. right. rewrite is_piece_eqb, E. apply N.eqb_refl.
  - left. right. apply existsb_exists. exists d. split; [exact Hd|]. cbv zeta. rewrite !is_piece_eqb.
    destruct E as [-> | ->]; rewrite N.eqb_refl; [reflexivity | apply orb_true_r].
  - right. apply existsb_exists. exists d. split; [exact Hd|]. cbv zeta. rewrite !is_piece_eqb.
    destruct E as [-> | ->]; rewrite N.eqb_refl; [reflexivity | apply orb_true_r].
Qed.

Lemma neg_offset_in : forall d,
  (In d knight_offsets -> In (- fst d, - snd d) knight_offsets) /\ (In d king_offsets -> In (- fst d, - snd d) king_offsets) /\
  (In d rook_dirs -> In (- fst d, - snd d) rook_dirs) /\ (In d bishop_dirs -> In (- fst d, - snd d) bishop_dirs).
Proof.
  intro d. repeat split; intro H; cbn in H;
    repeat match goal with H : _ \/ _ |- _ => destruct H as [H|H] end; try contradiction; subst d; cbn; tauto.
Qed.

Lemma mk_piece_nonempty : forall w k, mk_piece w k <> EMPTY.
Proof. intros [|] []; discriminate. Qed.

Lemma mv_fields : forall f r f' r' X, mfrom (mv f r f' r' X) = sq_of f r /\ mto (mv f r f' r' X) = sq_of f' r' /\ mpromote (mv f r f' r' X) = X.
Proof. intros. unfold mv. cbn. auto. Qed.

Section Shape.
Variable p : position.
Hypothesis HWF : WF p.
Let w := whiteMove p.
Let b := squares p.

(** what the assembly needs to know about a pseudo-move *)
Definition shapeOK (m : move) : Prop :=
  let f := mfrom m in let t := mto m in let pc := getPiece p f in
  (f < 64)%N /\ (t < 64)%N /\
  (getPiece p t <> EMPTY -> attacked_by b w (zf t) (zr t) = true) /\
  (pc = mk_piece w Pawn ->
     (mpromote m = EMPTY -> zr t <> 0 /\ zr t <> 7) /\
     (forall d : Z, Z.of_N t = Z.of_N f + 16 * d -> d = 1 \/ d = -1 ->
        d = dirOf w /\ zr f = startRank w /\ getPiece p (Z.to_N (Z.of_N f + 8 * d)) = EMPTY /\ mpromote m = EMPTY)) /\
  (pc = mk_piece w King -> Z.abs (zf t - zf f) <= 1 \/ f = sq_of 4 (if w then 0 else 7)).

Lemma step_shape : forall f r k offs m, on_board f r = true -> at_ b f r = mk_piece w k ->
  (k = King /\ offs = king_offsets) \/ (k = Knight /\ offs = knight_offsets) ->
  In m (step_moves b w f r offs) -> shapeOK m.
Proof.
  intros f r k offs m Hob Hat Hk Hin. apply step_moves_In in Hin. destruct Hin as [d [Hd [Hob2 [Hcol ->]]]].
  destruct (sq_of_coords f r Hob) as [Hs [Hzf [Hzr _]]]. destruct (sq_of_coords _ _ Hob2) as [Ht [Htf [Htr _]]].
  unfold shapeOK. cbv zeta. destruct (mv_fields f r (f + fst d) (r + snd d) EMPTY) as (-> & -> & ->).
  unfold b in Hat. rewrite (at_getPiece p _ _ Hob) in Hat. rewrite Hat, Htf, Htr, Hzf.
  split; [exact Hs|]. split; [exact Ht|]. split; [|split].
  - intros _. apply attacked_by_step. destruct (neg_offset_in d) as (Hn1 & Hn2 & _).
    assert (Eat : at_ b (f + fst d + - fst d) (r + snd d + - snd d) = mk_piece w k).
    { replace (f + fst d + - fst d) with f by ring. replace (r + snd d + - snd d) with r by ring.
      unfold b. rewrite (at_getPiece p _ _ Hob). exact Hat. }
    destruct Hk as [[-> ->]|[-> ->]].
    + right. left. exists (- fst d, - snd d). split; [apply Hn2; exact Hd | exact Eat].
    + left. exists (- fst d, - snd d). split; [apply Hn1; exact Hd | exact Eat].
  - intro E. exfalso. destruct Hk as [[-> _]|[-> _]]; unfold w in E; destruct (whiteMove p); discriminate.
  - intro E. destruct Hk as [[_ ->]|[-> _]].
    + left. destruct (offsets_facts d (or_introl Hd)) as [_ Ho]. specialize (Ho Hd). lia.
    + exfalso. unfold w in E. destruct (whiteMove p); discriminate.
Qed.

Lemma slider_shape : forall f r k dirs m, on_board f r = true -> at_ b f r = mk_piece w k ->
  (k = Rook /\ dirs = rook_dirs) \/ (k = Bishop /\ dirs = bishop_dirs) \/ (k = Queen /\ dirs = rook_dirs ++ bishop_dirs) ->
  In m (slider_moves b w f r dirs) -> shapeOK m.
Proof.
  intros f r k dirs m Hob Hat Hk Hin. unfold slider_moves in Hin. apply in_flat_map in Hin. destruct Hin as [d [Hd Hin]].
  apply ray_moves_shape in Hin. destruct Hin as [n [Hn [-> [Hobn Hall]]]].
  destruct (sq_of_coords f r Hob) as [Hs [Hzf [Hzr _]]]. destruct (sq_of_coords _ _ Hobn) as [Ht [Htf [Htr _]]].
  unfold shapeOK. cbv zeta. destruct (mv_fields f r (f + n * fst d) (r + n * snd d) EMPTY) as (-> & -> & ->).
  assert (Hat' : getPiece p (sq_of f r) = mk_piece w k) by (rewrite <- (at_getPiece p _ _ Hob); exact Hat).
  rewrite Hat', Htf, Htr.
  split; [exact Hs|]. split; [exact Ht|]. split; [|split].
  - intros _. apply attacked_by_step.
    assert (Hne : at_ b f r <> EMPTY) by (rewrite Hat; apply mk_piece_nonempty).
    pose proof (ray_first_back b 7 f r (fst d) (snd d) n Hn Hob Hne Hall) as Hrf. rewrite Hat in Hrf.
    destruct (neg_offset_in d) as (_ & _ & Hn3 & Hn4).
    assert (Hcase : (In d rook_dirs /\ (k = Rook \/ k = Queen)) \/ (In d bishop_dirs /\ (k = Bishop \/ k = Queen))).
    { destruct Hk as [[-> ->]|[[-> ->]|[-> ->]]]; [left; auto | right; auto |].
      apply in_app_or in Hd. destruct Hd; [left | right]; auto. }
    destruct Hcase as [[Hdr Hkk]|[Hdb Hkk]].
    + right. right. right. right. left. exists (- fst d, - snd d). split; [apply Hn3; exact Hdr|]. cbn [fst snd].
      rewrite Hrf. destruct Hkk as [-> | ->]; auto.
    + right. right. right. right. right. exists (- fst d, - snd d). split; [apply Hn4; exact Hdb|]. cbn [fst snd].
      rewrite Hrf. destruct Hkk as [-> | ->]; auto.
  - intro E. exfalso. unfold w in E. destruct Hk as [[-> _]|[[-> _]|[-> _]]]; destruct (whiteMove p); discriminate.
  - intro E. exfalso. unfold w in E. destruct Hk as [[-> _]|[[-> _]|[-> _]]]; destruct (whiteMove p); discriminate.
Qed.

Lemma accepted_pawn_ranks : forall f r (c : bool), on_board f r = true -> at_ b f r = mk_piece c Pawn -> 1 <= r <= 6.
Proof.
  intros f r c Hob Hat. destruct (WF_parts p HWF) as [_ [_ [_ [_ Ha]]]]. unfold accepted in Ha. cbv zeta in Ha.
  rewrite !andb_true_iff in Ha. cbn [abs sp_board] in Ha. fold b in Ha.
  assert (Hp : forallb (fun f0 => negb (is_piece true Pawn (at_ b f0 0)) && negb (is_piece false Pawn (at_ b f0 0))
                                  && negb (is_piece true Pawn (at_ b f0 7)) && negb (is_piece false Pawn (at_ b f0 7)))
                       [0; 1; 2; 3; 4; 5; 6; 7] = true) by tauto.
  clear Ha. rewrite forallb_forall in Hp.
  unfold on_board in Hob. rewrite !andb_true_iff, !Z.leb_le in Hob.
  assert (Hin : In f [0; 1; 2; 3; 4; 5; 6; 7]) by (cbn; lia).
  specialize (Hp f Hin). rewrite !andb_true_iff, !negb_true_iff, !is_piece_eqb in Hp.
  destruct Hp as [[[P1 P2] P3] P4].
  destruct (Z.eq_dec r 0) as [->|]; [rewrite Hat in P1, P2; destruct c; [rewrite N.eqb_refl in P1 | rewrite N.eqb_refl in P2]; discriminate|].
  destruct (Z.eq_dec r 7) as [->|]; [rewrite Hat in P3, P4; destruct c; [rewrite N.eqb_refl in P3 | rewrite N.eqb_refl in P4]; discriminate|].
  lia.
Qed.

Lemma pawn_shape : forall f r m, on_board f r = true -> at_ b f r = mk_piece w Pawn ->
  In m (pawn_moves (abs p) f r) -> shapeOK m.
Proof.
  intros f r m Hob Hat Hin. apply pawn_moves_In in Hin. cbn [abs sp_board sp_white sp_ep] in Hin. fold w b in Hin.
  destruct (sq_of_coords f r Hob) as [Hs [Hzf [Hzr _]]].
  pose proof (accepted_pawn_ranks f r w Hob Hat) as Hr16.
  assert (Hfr : 0 <= f <= 7 /\ 0 <= r <= 7) by (unfold on_board in Hob; rewrite !andb_true_iff, !Z.leb_le in Hob; lia).
  assert (Hdir : (dirOf w = 1 /\ lastRank w = 7 /\ startRank w = 1 /\ w = true) \/
                 (dirOf w = -1 /\ lastRank w = 0 /\ startRank w = 6 /\ w = false))
    by (unfold dirOf, lastRank, startRank, w; destruct (whiteMove p); auto).
  assert (Hat' : getPiece p (sq_of f r) = mk_piece w Pawn) by (rewrite <- (at_getPiece p _ _ Hob); exact Hat).
  assert (HnK : mk_piece w Pawn = mk_piece w King -> False) by (unfold w; destruct (whiteMove p); discriminate).
  (* moves that arrive on (f', r + dir) by pawn_arrive *)
  assert (Harr : forall f', on_board f' (r + dirOf w) = true -> Z.abs (f' - f) <= 1 ->
            (getPiece p (sq_of f' (r + dirOf w)) <> EMPTY -> attacked_by b w f' (r + dirOf w) = true) ->
            In m (pawn_arrive w f r f' (r + dirOf w)) -> shapeOK m).
  { intros f' Hob2 Hff Hatt Ha. destruct (sq_of_coords _ _ Hob2) as [Ht [Htf [Htr _]]].
    assert (Hfr2 : 0 <= f' <= 7 /\ 0 <= r + dirOf w <= 7) by (unfold on_board in Hob2; rewrite !andb_true_iff, !Z.leb_le in Hob2; lia).
    apply pawn_arrive_In in Ha.
    assert (Hm : exists X, m = mv f r f' (r + dirOf w) X /\ (X = EMPTY -> r + dirOf w <> lastRank w)).
    { destruct Ha as [[_ [k [_ ->]]]|[Hl ->]]; [exists (mk_piece w k) | exists EMPTY]; split; auto.
      intro E. exfalso. exact (mk_piece_nonempty _ _ E). }
    destruct Hm as [X [-> HX]]. unfold shapeOK. cbv zeta. destruct (mv_fields f r f' (r + dirOf w) X) as (-> & -> & ->).
    rewrite Hat', Htf, Htr, Hzr. split; [exact Hs|]. split; [exact Ht|]. split; [exact Hatt|]. split.
    - intros _. split.
      + intro E. specialize (HX E). destruct Hdir as [(Hd & Hl & _)|(Hd & Hl & _)]; lia.
      + intros d Hd Hd1. exfalso. unfold sq_of in Hd. lia.
    - intro E. exfalso. exact (HnK E). }
  destruct Hin as [Hp|[Hp|[Hp|Hp]]].
  - destruct Hp as [Hob2 [He Ha]]. apply (Harr f Hob2); [lia | | exact Ha].
    intro Hne. exfalso. apply Hne. rewrite <- (at_getPiece p _ _ Hob2). exact He.
  - destruct Hp as [Hob1 [He1 [Hst [He2 ->]]]].
    assert (Hob2 : on_board f (r + dirOf w + dirOf w) = true).
    { unfold on_board. rewrite !andb_true_iff, !Z.leb_le. destruct Hdir as [(Hd & _ & Hsr & _)|(Hd & _ & Hsr & _)]; lia. }
    destruct (sq_of_coords _ _ Hob2) as [Ht [Htf [Htr _]]].
    unfold shapeOK. cbv zeta. destruct (mv_fields f r f (r + dirOf w + dirOf w) EMPTY) as (-> & -> & ->).
    rewrite Hat', Htf, Htr, Hzr. split; [exact Hs|]. split; [exact Ht|]. split; [|split].
    + intro Hne. exfalso. apply Hne. rewrite <- (at_getPiece p _ _ Hob2). exact He2.
    + intros _. split.
      * intros _. destruct Hdir as [(Hd & _ & Hsr & _)|(Hd & _ & Hsr & _)]; lia.
      * intros d Hd Hd1. assert (Ed : d = dirOf w) by (unfold sq_of in Hd; lia). subst d.
        split; [reflexivity|]. split; [exact Hst|]. split; [|reflexivity].
        replace (Z.to_N (Z.of_N (sq_of f r) + 8 * dirOf w)) with (sq_of f (r + dirOf w)) by (unfold sq_of; lia).
        rewrite <- (at_getPiece p _ _ Hob1). exact He1.
    + intro E. exfalso. exact (HnK E).
  - destruct Hp as [Hob2 [[Hc Ha]|[Hc [Eep [He ->]]]]].
    + apply (Harr (f - 1) Hob2); [lia | | exact Ha]. intros _. apply attacked_by_step.
      right. right. right. left. replace (f - 1 + 1) with f by ring.
      replace (if w then r + dirOf w - 1 else r + dirOf w + 1) with r
        by (destruct Hdir as [(Hd & _ & _ & Hw)|(Hd & _ & _ & Hw)]; rewrite Hd, Hw; ring). exact Hat.
    + destruct (sq_of_coords _ _ Hob2) as [Ht [Htf [Htr _]]].
      unfold shapeOK. cbv zeta. destruct (mv_fields f r (f - 1) (r + dirOf w) EMPTY) as (-> & -> & ->).
      rewrite Hat', Htf, Htr, Hzr. split; [exact Hs|]. split; [exact Ht|]. split; [|split].
      * intro Hne. exfalso. apply Hne. rewrite <- (at_getPiece p _ _ Hob2). exact He.
      * intros _. split.
        -- intros _. destruct (WF_parts p HWF) as [_ [_ [_ [_ Ha]]]]. apply accepted_ep in Ha. cbn [abs sp_ep sp_white] in Ha.
           fold w in Ha. destruct Ha as [Hn|[_ [Hrank _]]]; [lia|]. rewrite <- Eep in Hrank.
           fold (zr (sq_of (f - 1) (r + dirOf w))) in Hrank. rewrite Htr in Hrank.
           destruct Hdir as [(Hd & _ & _ & Hw)|(Hd & _ & _ & Hw)]; rewrite Hd in Hrank |- *; rewrite Hw in Hrank; lia.
        -- intros d Hd Hd1. exfalso. assert (0 <= f - 1 <= 7) by (unfold on_board in Hob2; rewrite !andb_true_iff, !Z.leb_le in Hob2; lia).
           unfold sq_of in Hd. destruct Hdir as [(Hdd & _)|(Hdd & _)]; lia.
      * intro E. exfalso. exact (HnK E).
  - destruct Hp as [Hob2 [[Hc Ha]|[Hc [Eep [He ->]]]]].
    + apply (Harr (f + 1) Hob2); [lia | | exact Ha]. intros _. apply attacked_by_step.
      right. right. left. replace (f + 1 - 1) with f by ring.
      replace (if w then r + dirOf w - 1 else r + dirOf w + 1) with r
        by (destruct Hdir as [(Hd & _ & _ & Hw)|(Hd & _ & _ & Hw)]; rewrite Hd, Hw; ring). exact Hat.
    + destruct (sq_of_coords _ _ Hob2) as [Ht [Htf [Htr _]]].
      unfold shapeOK. cbv zeta. destruct (mv_fields f r (f + 1) (r + dirOf w) EMPTY) as (-> & -> & ->).
      rewrite Hat', Htf, Htr, Hzr. split; [exact Hs|]. split; [exact Ht|]. split; [|split].
      * intro Hne. exfalso. apply Hne. rewrite <- (at_getPiece p _ _ Hob2). exact He.
      * intros _. split.
        -- intros _. destruct (WF_parts p HWF) as [_ [_ [_ [_ Ha]]]]. apply accepted_ep in Ha. cbn [abs sp_ep sp_white] in Ha.
           fold w in Ha. destruct Ha as [Hn|[_ [Hrank _]]]; [lia|]. rewrite <- Eep in Hrank.
           fold (zr (sq_of (f + 1) (r + dirOf w))) in Hrank. rewrite Htr in Hrank.
           destruct Hdir as [(Hd & _ & _ & Hw)|(Hd & _ & _ & Hw)]; rewrite Hd in Hrank |- *; rewrite Hw in Hrank; lia.
        -- intros d Hd Hd1. exfalso. assert (0 <= f + 1 <= 7) by (unfold on_board in Hob2; rewrite !andb_true_iff, !Z.leb_le in Hob2; lia).
           unfold sq_of in Hd. destruct Hdir as [(Hdd & _)|(Hdd & _)]; lia.
      * intro E. exfalso. exact (HnK E).
Qed.

Lemma castle_shape : forall m, In m (castle_moves (abs p)) -> shapeOK m.
Proof.
  intros m Hin. unfold castle_moves in Hin. cbn [abs sp_board sp_white] in Hin. fold w b in Hin. cbv beta zeta in Hin.
  set (r := (if w then 0 else 7)) in *.
  assert (Hr : r = 0 \/ r = 7) by (unfold r; destruct w; auto).
  assert (Hob : forall f, 0 <= f <= 7 -> on_board f r = true)
    by (intros f Hf; unfold on_board; rewrite !andb_true_iff, !Z.leb_le; lia).
  destruct (is_piece w King (at_ b 4 r) && negb (attacked_by b (negb w) 4 r)) eqn:E0; [|destruct Hin].
  apply andb_true_iff in E0. destruct E0 as [EK _]. rewrite is_piece_eqb in EK. apply N.eqb_eq in EK.
  unfold b in EK. rewrite (at_getPiece p 4 r (Hob 4 ltac:(lia))) in EK.
  assert (Hcore : forall tf, 0 <= tf <= 7 -> at_ b tf r = EMPTY -> shapeOK (mv 4 r tf r EMPTY)).
  { intros tf Htf He. destruct (sq_of_coords 4 r (Hob 4 ltac:(lia))) as [Hs _]. destruct (sq_of_coords tf r (Hob tf Htf)) as [Ht _].
    unfold shapeOK. cbv zeta. destruct (mv_fields 4 r tf r EMPTY) as (-> & -> & ->). rewrite EK.
    split; [exact Hs|]. split; [exact Ht|]. split; [|split].
    - intro Hne. exfalso. apply Hne. rewrite <- (at_getPiece p _ _ (Hob tf Htf)). exact He.
    - intro E. exfalso. unfold w in E. destruct (whiteMove p); discriminate.
    - intros _. right. reflexivity. }
  apply in_app_iff in Hin. destruct Hin as [Hin|Hin]; apply In_single_if in Hin; destruct Hin as [Hc ->].
  - rewrite !andb_true_iff in Hc. destruct Hc as [[[_ H6] _] _]. apply N.eqb_eq in H6. apply Hcore; [lia | exact H6].
  - rewrite !andb_true_iff in Hc. destruct Hc as [[[[_ H2] _] _] _]. apply N.eqb_eq in H2. apply Hcore; [lia | exact H2].
Qed.

Theorem pseudo_shape : forall m, In m (pseudo_moves (abs p)) -> shapeOK m.
Proof.
  intros m Hin. unfold pseudo_moves in Hin. apply in_app_iff in Hin. destruct Hin as [Hin|Hin]; [|apply castle_shape; exact Hin].
  apply in_flat_map in Hin. destruct Hin as [[f r] [Hc Hin]]. apply all_coords_on_board in Hc. cbn [fst snd] in Hin.
  assert (Hle : (at_ (sp_board (abs p)) f r <= 12)%N).
  { cbn [abs sp_board]. rewrite (at_getPiece p f r Hc). apply (BoardOK_le12 p _ (WF_BoardOK p HWF)). }
  apply (piece_moves_In (abs p) f r m Hle) in Hin. cbn [abs sp_board sp_white] in Hin. fold w b in Hin.
  destruct Hin as [[Hat Hin]|[[Hat Hin]|[[Hat Hin]|[[Hat Hin]|[[Hat Hin]|[Hat Hin]]]]]].
  - apply (step_shape f r King king_offsets m Hc Hat); auto.
  - apply (step_shape f r Knight knight_offsets m Hc Hat); auto.
  - apply (slider_shape f r Rook rook_dirs m Hc Hat); auto.
  - apply (slider_shape f r Bishop bishop_dirs m Hc Hat); auto.
  - apply (slider_shape f r Queen (rook_dirs ++ bishop_dirs) m Hc Hat); auto.
  - apply (pawn_shape f r m Hc Hat Hin).
Qed.
End Shape.

(** * Part 3: the Spec half of WF after a legal move *)
Lemma kc_count : forall K l, kc K l = Z.of_nat (count_piece l K).
Proof.
  intros K l. unfold kc, count_piece. induction l as [|a l IH]; [reflexivity|].
  cbn [map sumZ fold_right filter]. fold (sumZ (map (fun pc => ind (pc =? K)%N) l)). rewrite IH.
  rewrite (N.eqb_sym K a). destruct (a =? K)%N; cbn [ind length]; lia.
Qed.

Definition hrank (c : bool) : Z := if c then 0 else 7.
Definition ridx (c kside : bool) : N :=
  match c, kside with true, false => 0 | true, true => 1 | false, false => 2 | false, true => 3 end%N.

Lemma csm_bit : forall s c k, N.testbit (castleSqMask s) (ridx c k) = true ->
  s <> sq_of 4 (hrank c) /\ s <> sq_of (if k then 7 else 0) (hrank c).
Proof.
  intros s c k H. unfold castleSqMask in H.
  destruct (N.eqb_spec s Position.A1) as [->|N1]; [destruct c, k; cbn in H; try discriminate; split; discriminate|].
  destruct (N.eqb_spec s Position.E1) as [->|N2]; [destruct c, k; cbn in H; try discriminate; split; discriminate|].
  destruct (N.eqb_spec s Position.H1) as [->|N3]; [destruct c, k; cbn in H; try discriminate; split; discriminate|].
  destruct (N.eqb_spec s Position.A8) as [->|N4]; [destruct c, k; cbn in H; try discriminate; split; discriminate|].
  destruct (N.eqb_spec s Position.E8) as [->|N5]; [destruct c, k; cbn in H; try discriminate; split; discriminate|].
  destruct (N.eqb_spec s Position.H8) as [->|N6]; [destruct c, k; cbn in H; try discriminate; split; discriminate|].
  destruct c, k; split; assumption.
Qed.

Lemma accepted_rights : forall sp c k, accepted sp = true -> has_right sp c k = true ->
  at_ (sp_board sp) 4 (hrank c) = mk_piece c King /\ at_ (sp_board sp) (if k then 7 else 0) (hrank c) = mk_piece c Rook.
Proof.
  intros sp c k Ha Hr. destruct (accepted_parts sp Ha) as (_ & _ & _ & _ & _ & _ & R1 & R2 & R3 & R4).
  cbv zeta in R1, R2, R3, R4.
  destruct c, k; [destruct (R1 Hr) as [A B] | destruct (R2 Hr) as [A B] | destruct (R3 Hr) as [A B] | destruct (R4 Hr) as [A B]];
    rewrite is_piece_eqb in A, B; apply N.eqb_eq in A, B; auto.
Qed.

Lemma has_right_idx : forall sp c k, has_right sp c k = N.testbit (sp_castle sp) (ridx c k).
Proof. intros sp [|] [|]; reflexivity. Qed.

Lemma own_color : forall (w c : bool) k, ownPiece w (mk_piece c k) = true -> c = w.
Proof. intros w c k H. destruct c, k, w; cbn in H; congruence. Qed.

Section Assemble.
Variable zk : zkeys.
Variable p : position.
Hypothesis HWF : WF p.
Variable m : move.
Hypothesis Hleg : legal_spec (abs p) m.
Let w := whiteMove p.
Let b := squares p.
Let q := fst (makeMove zk p m).
Let b' := sp_board (make_spec (abs p) m).

Lemma leg_facts :
  In m (pseudoLegalMoves p) /\ goodMove p m /\ shapeOK p m /\ squares q = b' /\ in_checkb b' w = false.
Proof.
  assert (Hm : In m (pseudoLegalMoves p)) by (apply (pseudo_exact_all p m HWF); exact Hleg).
  destruct Hleg as [Hps Hsafe]. pose proof (pseudo_move_good p HWF m Hm) as G. destruct G as [Hb [Hok Hc]].
  split; [exact Hm|]. split; [split; [exact Hb | split; [exact Hok | exact Hc]]|]. split; [apply pseudo_shape; assumption|].
  split; [|exact Hsafe]. unfold q. rewrite (made_squares zk p m Hok). exact Hb.
Qed.

Lemma Hok : moveOk p m = true.
Proof. exact (proj1 (proj2 (proj1 (proj2 leg_facts)))). Qed.
Lemma HBq : BoardOK q.
Proof. exact (made_BoardOK zk p HWF m Hok). Qed.
Lemma HB : BoardOK p.
Proof. exact (WF_BoardOK p HWF). Qed.
Lemma HL : length b = 64%nat.
Proof. exact (proj1 (WF_parts p HWF)). Qed.

Lemma q_get : forall s, getPiece q s = nth (N.to_nat s) b' EMPTY.
Proof. intro s. unfold getPiece. pose proof leg_facts as (A1 & A2 & A3 & E & A5). rewrite E. reflexivity. Qed.

Lemma at_q : forall x y, on_board x y = true -> at_ b' x y = getPiece q (sq_of x y).
Proof. intros x y H. rewrite q_get. unfold at_. rewrite H. destruct (sq_of_coords x y H) as [_ [_ [_ ->]]]. reflexivity. Qed.

(** the Spec's case conditions *)
Definition isEp : bool :=
  is_piece w Pawn (getPiece p (mfrom m)) && negb (zf (mto m) =? zf (mfrom m)) && (getPiece p (mto m) =? EMPTY)%N.
Definition isCK : bool := is_piece w King (getPiece p (mfrom m)) && (zf (mto m) - zf (mfrom m) =? 2).
Definition isCQ : bool := is_piece w King (getPiece p (mfrom m)) && (zf (mto m) - zf (mfrom m) =? -2).

Lemma b'_form :
  let fr := zr (mfrom m) in
  let b1 := updN (mfrom m) EMPTY b in
  let b2 := if isEp then updN (sq_of (zf (mto m)) fr) EMPTY b1 else b1 in
  let b3 := updN (mto m) (landing p m) b2 in
  b' = if isCK then updN (sq_of 5 fr) (mk_piece w Rook) (updN (sq_of 7 fr) EMPTY b3)
       else if isCQ then updN (sq_of 3 fr) (mk_piece w Rook) (updN (sq_of 0 fr) EMPTY b3)
       else b3.
Proof.
  pose proof (moveOk_facts p m Hok) as F. cbv zeta in F. destruct F as (Hf & Ht & _).
  unfold b'. rewrite (make_spec_board (abs p) m Hf Ht). reflexivity.
Qed.

Lemma mf_lt : (mfrom m < 64)%N /\ (mto m < 64)%N /\ 0 <= zr (mfrom m) <= 7 /\ 0 <= zf (mto m) <= 7.
Proof.
  pose proof (moveOk_facts p m Hok) as F. cbv zeta in F. destruct F as (Hf & Ht & _).
  destruct (sq_decomp _ Hf) as (_ & _ & A). destruct (sq_decomp _ Ht) as (_ & B & _). auto.
Qed.

Lemma nth_upd_P : forall (P : piece -> Prop) (l : list piece) a x s,
  P (nth (N.to_nat s) l EMPTY) -> (a = s -> P x) -> P (nth (N.to_nat s) (updN a x l) EMPTY).
Proof.
  intros P l a x s H1 H2. destruct (N.eq_dec a s) as [E|E].
  - subst a. destruct (Nat.lt_ge_cases (N.to_nat s) (length l)) as [Hlt|Hge].
    + rewrite nth_updN_eq by exact Hlt. apply H2. reflexivity.
    + unfold updN. rewrite updL_oob by exact Hge. exact H1.
  - rewrite nth_updN_neq by exact E. exact H1.
Qed.

(** every square after the move: unchanged, emptied, the castled rook, or the arriving piece *)
Lemma q_cases : forall s,
  getPiece q s = getPiece p s \/ getPiece q s = EMPTY \/ getPiece q s = mk_piece w Rook \/
  (s = mto m /\ getPiece q s = landing p m).
Proof.
  intro s. rewrite q_get, b'_form. cbv zeta.
  set (P := fun v : piece => v = getPiece p s \/ v = EMPTY \/ v = mk_piece w Rook \/ (s = mto m /\ v = landing p m)).
  change (P (nth (N.to_nat s)
    (if isCK then updN (sq_of 5 (zr (mfrom m))) (mk_piece w Rook) (updN (sq_of 7 (zr (mfrom m))) EMPTY
                  (updN (mto m) (landing p m) (if isEp then updN (sq_of (zf (mto m)) (zr (mfrom m))) EMPTY (updN (mfrom m) EMPTY b) else updN (mfrom m) EMPTY b)))
     else if isCQ then updN (sq_of 3 (zr (mfrom m))) (mk_piece w Rook) (updN (sq_of 0 (zr (mfrom m))) EMPTY
                  (updN (mto m) (landing p m) (if isEp then updN (sq_of (zf (mto m)) (zr (mfrom m))) EMPTY (updN (mfrom m) EMPTY b) else updN (mfrom m) EMPTY b)))
     else updN (mto m) (landing p m) (if isEp then updN (sq_of (zf (mto m)) (zr (mfrom m))) EMPTY (updN (mfrom m) EMPTY b) else updN (mfrom m) EMPTY b)) EMPTY)).
  assert (P0 : P (nth (N.to_nat s) b EMPTY)) by (left; reflexivity).
  assert (PE : P EMPTY) by (right; left; reflexivity).
  assert (PR : P (mk_piece w Rook)) by (right; right; left; reflexivity).
  assert (PX : mto m = s -> P (landing p m)) by (intro E; right; right; right; auto).
  destruct isCK; [|destruct isCQ]; destruct isEp;
    repeat first [ exact P0 | apply nth_upd_P; [| first [ exact PX | intros _; exact PE | intros _; exact PR ] ] ].
Qed.

Lemma q_unchanged : forall s, s <> mfrom m -> s <> mto m ->
  (isEp = false /\ isCK = false /\ isCQ = false) \/ zr s <> zr (mfrom m) ->
  getPiece q s = getPiece p s.
Proof.
  intros s Hf Ht Hc. rewrite q_get, b'_form. cbv zeta. destruct mf_lt as (_ & _ & Hfr & Htf).
  destruct Hc as [(E1 & E2 & E3)|Hz].
  - rewrite E1, E2, E3. rewrite !nth_updN_neq by auto. reflexivity.
  - assert (Hsq : forall x, 0 <= x <= 7 -> sq_of x (zr (mfrom m)) <> s).
    { intros x Hx E. apply Hz. rewrite <- E. apply sq_of_coords. unfold on_board. rewrite !andb_true_iff, !Z.leb_le. lia. }
    destruct isCK; [|destruct isCQ]; destruct isEp; rewrite !nth_updN_neq by (auto; apply Hsq; lia); reflexivity.
Qed.

Lemma q_at_to : isCK = false -> isCQ = false -> getPiece q (mto m) = landing p m.
Proof.
  intros E1 E2. rewrite q_get, b'_form. cbv zeta. rewrite E1, E2. destruct mf_lt as (_ & Ht & _).
  apply nth_updN_eq. destruct isEp; rewrite !length_updN; fold b; rewrite HL; lia.
Qed.


Lemma acc_len : length b' = 64%nat /\ forallb (fun pc => N.leb pc 12) b' = true.
Proof.
  destruct (made_lengths zk p HWF m Hok) as (Hl & _ & Hall). fold q in Hl, Hall.
  pose proof leg_facts as (_ & _ & _ & E & _). rewrite E in Hl, Hall. split; [exact Hl|].
  apply forallb_forall. intros pc Hin. rewrite Forall_forall in Hall. specialize (Hall pc Hin). apply N.leb_le. lia.
Qed.

Lemma cap_not_king : forall c : bool, getPiece p (mto m) <> mk_piece c King.
Proof.
  intros c E. pose proof leg_facts as (_ & _ & Hsh & _ & _). pose proof (moveOk_facts p m Hok) as F. cbv zeta in F.
  destruct F as (_ & Ht & _ & _ & Hcapn & _). fold w in Hcapn.
  destruct (Bool.bool_dec c w) as [Ecw|Ecw].
  - subst c. rewrite E in Hcapn. unfold w in Hcapn. destruct (whiteMove p); discriminate.
  - assert (Ec : c = negb w) by (revert Ecw; generalize w; intros w0 Ecw; destruct c, w0; cbn; congruence). subst c.
    unfold shapeOK in Hsh. cbv zeta in Hsh. destruct Hsh as (_ & _ & Hatt & _). fold w b in Hatt.
    assert (Hne : getPiece p (mto m) <> EMPTY) by (rewrite E; apply mk_piece_nonempty).
    specialize (Hatt Hne).
    destruct (WF_parts p HWF) as [_ [_ [_ [_ Ha]]]]. destruct (accepted_parts _ Ha) as (_ & _ & _ & _ & Hnc & _).
    cbn [abs sp_board sp_white] in Hnc. fold w b in Hnc. unfold in_checkb in Hnc.
    rewrite (find_king_spec b (negb w) (mto m) Ht E) in Hnc.
    + rewrite negb_involutive in Hnc. congruence.
    + intros s1 s2 H1 H2 K1 K2. apply (king_unique p (negb w) s1 s2 HWF H1 H2 K1 K2).
Qed.

Lemma acc_kings : count_piece b' WKING = 1%nat /\ count_piece b' BKING = 1%nat.
Proof.
  destruct (WF_parts p HWF) as [_ [_ [_ [_ Ha]]]]. destruct (accepted_parts _ Ha) as (_ & _ & Hw & Hk & _).
  cbn [abs sp_board] in Hw, Hk. fold b in Hw, Hk.
  assert (Hkc : forall K, K = WKING \/ K = BKING -> count_piece b' K = count_piece b K).
  { intros K HK. apply Nat2Z.inj. rewrite <- !kc_count.
    pose proof (kings_preserved zkDummy (twin p) m K (twin_consistent p HWF) Hok HK) as Hp.
    destruct (bbpart_eq_fields _ _ (made_bbpart_twin zk p m Hok)) as (Es & _).
    rewrite <- Es in Hp. fold q in Hp. pose proof leg_facts as (_ & _ & _ & E & _). rewrite E in Hp. apply Hp.
    change (getPiece (twin p) (mto m)) with (getPiece p (mto m)).
    destruct HK as [-> | ->]; [apply (cap_not_king true) | apply (cap_not_king false)]. }
  rewrite !Hkc by auto. auto.
Qed.

Lemma acc_pawns :
  forallb (fun f0 => negb (is_piece true Pawn (at_ b' f0 0)) && negb (is_piece false Pawn (at_ b' f0 0))
                     && negb (is_piece true Pawn (at_ b' f0 7)) && negb (is_piece false Pawn (at_ b' f0 7)))
          [0; 1; 2; 3; 4; 5; 6; 7] = true.
Proof.
  assert (Hno : forall f0 R (c : bool), 0 <= f0 <= 7 -> R = 0 \/ R = 7 -> is_piece c Pawn (at_ b' f0 R) = false).
  { intros f0 R c Hf0 HR. assert (Hob : on_board f0 R = true) by (unfold on_board; rewrite !andb_true_iff, !Z.leb_le; lia).
    rewrite (at_q _ _ Hob), is_piece_eqb. apply N.eqb_neq. intro E.
    destruct (sq_of_coords _ _ Hob) as [Hs [_ [Hzr _]]].
    destruct (q_cases (sq_of f0 R)) as [C|[C|[C|[Et C]]]]; rewrite C in E.
    - rewrite <- (at_getPiece p _ _ Hob) in E. pose proof (accepted_pawn_ranks p HWF f0 R c Hob E). lia.
    - exact (mk_piece_nonempty _ _ (eq_sym E)).
    - destruct w, c; discriminate.
    - pose proof leg_facts as (_ & _ & Hsh & _ & _). unfold shapeOK in Hsh. cbv zeta in Hsh.
      destruct Hsh as (_ & _ & _ & Hpw & _). fold w in Hpw.
      pose proof (moveOk_facts p m Hok) as F. cbv zeta in F. destruct F as (_ & _ & _ & Hown & _ & Hpro & _). fold w in Hown, Hpro.
      unfold landing in E. destruct (N.eqb_spec (mpromote m) EMPTY) as [Ep|Ep].
      + rewrite E in Hown. apply own_color in Hown. subst c.
        destruct (Hpw E) as [H1 _]. specialize (H1 Ep). rewrite <- Et, Hzr in H1. lia.
      + destruct (Hpro Ep) as [_ Hop]. rewrite E in Hop. apply own_color in Hop. subst c.
        pose proof Hok as Hok2. rewrite moveOk_parts in Hok2. rewrite !andb_true_iff in Hok2. destruct Hok2 as [[[_ Hpr] _] _].
        unfold okPromo in Hpr. cbv zeta in Hpr. fold w in Hpr.
        replace (mpromote m =? EMPTY)%N with false in Hpr by (symmetry; apply N.eqb_neq; exact Ep).
        rewrite !andb_true_iff in Hpr. destruct Hpr as [[_ Hnp] _]. apply negb_true_iff, N.eqb_neq in Hnp.
        apply Hnp. rewrite E. destruct w; reflexivity. }
  apply forallb_forall. intros f0 Hin. assert (Hf0 : 0 <= f0 <= 7) by (cbn in Hin; lia).
  rewrite !Hno by (auto; lia). reflexivity.
Qed.

Lemma acc_check : in_checkb b' (negb (negb w)) = false.
Proof. rewrite negb_involutive. apply leg_facts. Qed.

Lemma q_scalars : whiteMove q = negb w /\
  castleMask q = N.land (N.land (castleMask p) (castleSqMask (mfrom m))) (castleSqMask (mto m)) /\
  (epSquare q = -1 \/
   exists d, (d = 1 \/ d = -1) /\ getPiece p (mfrom m) = mk_piece (if d =? 1 then true else false) Pawn /\
             Z.of_N (mto m) = Z.of_N (mfrom m) + 16 * d /\ epSquare q = Z.of_N (mfrom m) + 8 * d).
Proof.
  destruct (made_scalars zk p m) as (S1 & S2 & S3). fold q in S1, S2, S3. split; [exact S1|]. split; [exact S2|].
  destruct S3 as [E|[(A & B & C)|(A & B & C)]]; [left; exact E | right; exists 1 | right; exists (-1)];
    unfold sqPlus in *; (split; [auto|]); (split; [exact A|]); split; lia.
Qed.

Lemma acc_cm : (castleMask q <? 16)%N = true.
Proof.
  destruct q_scalars as (_ & -> & _). apply N.ltb_lt.
  assert (H : (castleSqMask (mto m) < 16)%N).
  { unfold castleSqMask. repeat match goal with |- context [if ?c then _ else _] => destruct c end; reflexivity. }
  apply N.lt_le_trans with (2 ^ 4)%N; [|reflexivity]. rewrite N.land_comm. apply land_lt_l. exact H.
Qed.

Lemma acc_rights : forall c k, has_right (abs q) c k = true ->
  is_piece c King (at_ b' 4 (hrank c)) && is_piece c Rook (at_ b' (if k then 7 else 0) (hrank c)) = true.
Proof.
  intros c k Hr. rewrite has_right_idx in Hr. cbn [abs sp_castle] in Hr. destruct q_scalars as (_ & Ecm & _).
  rewrite Ecm, !N.land_spec in Hr. rewrite !andb_true_iff in Hr. destruct Hr as [[Hp Hf] Ht].
  destruct (csm_bit _ c k Hf) as [Hf1 Hf2]. destruct (csm_bit _ c k Ht) as [Ht1 Ht2].
  destruct (WF_parts p HWF) as [_ [_ [_ [_ Ha]]]].
  assert (Hrp : has_right (abs p) c k = true) by (rewrite has_right_idx; exact Hp).
  destruct (accepted_rights (abs p) c k Ha Hrp) as [HK HR]. cbn [abs sp_board] in HK, HR. fold b in HK, HR.
  assert (Hobk : forall x, 0 <= x <= 7 -> on_board x (hrank c) = true)
    by (intros x Hx; unfold on_board, hrank; rewrite !andb_true_iff, !Z.leb_le; destruct c; lia).
  (* both squares keep their piece *)
  assert (Hkeep : forall x, 0 <= x <= 7 -> sq_of x (hrank c) <> mfrom m -> sq_of x (hrank c) <> mto m ->
                   at_ b' x (hrank c) = at_ b x (hrank c)).
  { intros x Hx N1 N2. rewrite (at_q _ _ (Hobk x Hx)). unfold b. rewrite (at_getPiece p _ _ (Hobk x Hx)).
    destruct (sq_of_coords _ _ (Hobk x Hx)) as [Hs [_ [Hzr _]]].
    apply q_unchanged; [exact N1 | exact N2 |].
    pose proof leg_facts as (_ & _ & Hsh & _ & _). unfold shapeOK in Hsh. cbv zeta in Hsh.
    destruct Hsh as (Hf64 & _ & _ & _ & Hkg). fold w in Hkg.
    pose proof (BoardOK_le12 p (mfrom m) HB) as Hle.
    unfold isEp, isCK, isCQ. rewrite !is_piece_eqb.
    destruct (N.eqb_spec (getPiece p (mfrom m)) (mk_piece w Pawn)) as [EP|EP].
    - right. rewrite Hzr. destruct (coords_of_sq _ Hf64) as [Hobf _].
      pose proof (accepted_pawn_ranks p HWF _ _ w Hobf) as H16. rewrite <- (getPiece_at p _ Hf64) in H16. specialize (H16 EP).
      unfold hrank. destruct c; lia.
    - destruct (N.eqb_spec (getPiece p (mfrom m)) (mk_piece w King)) as [EK|EK]; [|left; auto].
      destruct (Hkg EK) as [Habs|Hfk].
      + left. cbn [andb]. split; [reflexivity|]. split; apply Z.eqb_neq; lia.
      + right. rewrite Hzr. destruct (Bool.bool_dec c w) as [Ecw|Ecw].
        * exfalso. subst c. apply Hf1. exact Hfk.
        * rewrite Hfk. assert (Hobw : on_board 4 (if w then 0 else 7) = true) by (destruct w; reflexivity).
          destruct (sq_of_coords _ _ Hobw) as [_ [_ [Hz _]]]. rewrite Hz. unfold hrank. destruct c, w; try congruence; lia. }
  rewrite (Hkeep 4 ltac:(lia) (not_eq_sym Hf1) (not_eq_sym Ht1)).
  rewrite (Hkeep (if k then 7 else 0) ltac:(destruct k; lia) (not_eq_sym Hf2) (not_eq_sym Ht2)).
  rewrite HK, HR, !is_piece_eqb, !N.eqb_refl. reflexivity.
Qed.

Lemma acc_ep :
  (epSquare q =? -1) ||
  ((0 <=? epSquare q) && (epSquare q <? 64) &&
   (let ef := epSquare q mod 8 in let er := epSquare q / 8 in
    (er =? (if negb w then 5 else 2)) && N.eqb (at_ b' ef er) EMPTY
    && is_piece (negb (negb w)) Pawn (at_ b' ef (if negb w then 4 else 3)))) = true.
Proof.
  destruct q_scalars as (_ & _ & [E|[d (Hd & Hpc & Ht16 & Eep)]]); [rewrite E; reflexivity|].
  apply orb_true_iff. right. rewrite Eep. cbv zeta.
  pose proof (moveOk_facts p m Hok) as F. cbv zeta in F. destruct F as (Hf & Ht & _ & Hown & _). fold w in Hown.
  rewrite Hpc in Hown. apply own_color in Hown.
  pose proof leg_facts as (_ & _ & Hsh & _ & _). unfold shapeOK in Hsh. cbv zeta in Hsh.
  destruct Hsh as (_ & _ & _ & Hpw & _). fold w in Hpw. rewrite Hown in Hpc.
  destruct (Hpw Hpc) as [_ H2]. destruct (H2 d Ht16 Hd) as (Edir & Hst & Hmid & Hpro).
  destruct (sq_decomp _ Hf) as (Ef & Hff & Hfr). destruct (sq_decomp _ Ht) as (Et & Htf & Htr).
  set (ff := zf (mfrom m)) in *. set (fr := zr (mfrom m)) in *.
  assert (Hw : (d = 1 /\ w = true /\ fr = 1) \/ (d = -1 /\ w = false /\ fr = 6)).
  { unfold startRank, dirOf in *. destruct Hd as [-> | ->]; [left | right]; rewrite <- Hown in *; cbn in Hst |- *; auto. }
  assert (Eepz : Z.of_N (mfrom m) + 8 * d = ff + (fr + d) * 8) by lia.
  rewrite Eepz, Z_mod_plus_full, Z_div_plus_full by lia. rewrite (Z.mod_small ff 8), (Z.div_small ff 8) by lia.
  rewrite Z.add_0_l.
  assert (Hobm : on_board ff (fr + d) = true) by (unfold on_board; rewrite !andb_true_iff, !Z.leb_le; destruct Hw as [(-> & _ & ->)|(-> & _ & ->)]; lia).
  assert (Emid : sq_of ff (fr + d) = Z.to_N (Z.of_N (mfrom m) + 8 * d)) by (unfold sq_of; f_equal; lia).
  assert (Etf : zf (mto m) = ff) by lia.
  assert (Hnk : is_piece w King (getPiece p (mfrom m)) = false) by (rewrite Hpc, is_piece_eqb; unfold w; destruct (whiteMove p); reflexivity).
  assert (Hcases : isEp = false /\ isCK = false /\ isCQ = false).
  { unfold isEp, isCK, isCQ. rewrite Hnk, Etf, Z.eqb_refl. cbn [negb andb]. rewrite andb_false_r. auto. }
  assert (Hqmid : at_ b' ff (fr + d) = EMPTY).
  { rewrite (at_q _ _ Hobm), Emid. rewrite q_unchanged; [exact Hmid | | | left; exact Hcases]; lia. }
  assert (Hobt : on_board ff (fr + 2 * d) = true) by (unfold on_board; rewrite !andb_true_iff, !Z.leb_le; destruct Hw as [(-> & _ & ->)|(-> & _ & ->)]; lia).
  assert (Etsq : sq_of ff (fr + 2 * d) = mto m) by (unfold sq_of; lia).
  assert (Hqt : at_ b' ff (fr + 2 * d) = mk_piece w Pawn).
  { rewrite (at_q _ _ Hobt), Etsq. destruct Hcases as (_ & C1 & C2). rewrite (q_at_to C1 C2).
    unfold landing. rewrite Hpro, N.eqb_refl. exact Hpc. }
  rewrite negb_involutive, Hqmid.
  destruct Hw as [(-> & Hww & Hr1)|(-> & Hww & Hr1)]; rewrite Hww in *; rewrite Hr1 in *; cbn [negb] in *;
    change (1 + 2 * 1) with 3 in Hqt; change (6 + 2 * -1) with 4 in Hqt; rewrite Hqt;
    rewrite !andb_true_iff, ?Z.leb_le, ?Z.ltb_lt, ?Z.eqb_eq, ?N.eqb_eq, ?is_piece_eqb; repeat split; try lia; try reflexivity.
Qed.

Theorem made_accepted : accepted (abs q) = true.
Proof.
  destruct acc_len as [A1 A2]. destruct acc_kings as [A3 A4]. destruct q_scalars as (Ew & _ & _).
  unfold accepted. cbv zeta. cbn [abs sp_board sp_white sp_castle sp_ep].
  pose proof leg_facts as (_ & _ & _ & Es & _). rewrite Es, Ew.
  rewrite A1, A2, A3, A4, acc_pawns, acc_check, acc_cm. cbn [Nat.eqb andb negb].
  pose proof acc_ep as Hep. cbv zeta in Hep. rewrite Hep. rewrite andb_true_r.
  assert (HR : forall c k, negb (has_right (abs q) c k)
                 || (is_piece c King (at_ b' 4 (hrank c)) && is_piece c Rook (at_ b' (if k then 7 else 0) (hrank c))) = true).
  { intros c k. destruct (has_right (abs q) c k) eqn:E; [|reflexivity]. cbn [negb orb]. apply acc_rights. exact E. }
  pose proof (HR true true) as R1. pose proof (HR true false) as R2. pose proof (HR false true) as R3. pose proof (HR false false) as R4.
  unfold hrank in R1, R2, R3, R4. unfold has_right in *. cbn [abs sp_castle] in R1, R2, R3, R4 |- *.
  rewrite R1, R2, R3, R4. reflexivity.
Qed.

Theorem made_WF : WF q.
Proof. unfold WF, wfb. apply andb_true_iff. split; [exact (made_bbConsistent zk p HWF m Hok) | exact made_accepted]. Qed.
End Assemble.

(** C01_wf_preserved *)
Theorem wf_preserved : forall zk p m, WF p -> legal_spec (abs p) m -> WF (fst (makeMove zk p m)).
Proof. intros zk p m H Hl. exact (made_WF zk p H m Hl). Qed.

(** non-vacuity: after 1.e4 the start position is well-formed again, with no e.p. square (no
    black pawn can capture) *)
Example wf_after_e4 :
  legal_spec (abs startPosition) (mkMove 12%N 28%N EMPTY) /\
  epSquare (fst (makeMove zkDummy startPosition (mkMove 12%N 28%N EMPTY))) = -1 /\
  WF (fst (makeMove zkDummy startPosition (mkMove 12%N 28%N EMPTY))).
Proof.
  assert (L : legal_spec (abs startPosition) (mkMove 12%N 28%N EMPTY)) by (apply legal_specb_spec; vm_compute; reflexivity).
  split; [exact L|]. split; [vm_compute; reflexivity|]. apply wf_preserved; [exact start_WF | exact L].
Qed.
