(** Proofs about the MoveGen model (levels L1, L2, L4 of the proof plan):
    - the loops over set bits ([forSquares]) enumerate exactly the set bits of any 64-bit mask
      (the fuel always suffices);
    - [addMovesByMask] and the outer piece loops in terms of membership;
    - bitboards of a well-formed position in terms of the mailbox board;
    - the knight block and the king block of pseudoLegalMoves = the Spec's pseudo-moves. *)
From Coq Require Import ZArith NArith List Bool Lia.
From Texel Require Import Chess.Types Chess.Position Chess.BitBoard Chess.MoveGen Chess.Spec Chess.MoveGenWF
  Chess.BitBoardProofs Chess.RayProofs gen.BitBoardTables.
Import ListNotations.
Local Open Scope N_scope.

(** * 64-bit words and their bits *)
Lemma bits_below_64 : forall m, m < 2 ^ 64 -> forall i, N.testbit m i = true -> i < 64.
Proof.
  intros m Hm i Hi. destruct (N.eq_dec m 0) as [->|Hz]; [rewrite N.bits_0 in Hi; discriminate|].
  destruct (N.lt_ge_cases i 64) as [H|H]; [exact H|].
  assert (Hl : N.log2 m < 64) by (apply N.log2_lt_pow2; lia).
  rewrite N.bits_above_log2 in Hi by lia. discriminate.
Qed.

Lemma lt_2_64_of_bits : forall m, (forall i, N.testbit m i = true -> i < 64) -> m < 2 ^ 64.
Proof.
  intros m H. destruct (N.eq_dec m 0) as [->|Hz]; [reflexivity|].
  apply N.log2_lt_pow2; [lia|]. apply H. apply N.bit_log2. exact Hz.
Qed.

Lemma ldiff_lt : forall a b n, a < 2 ^ n -> N.ldiff a b < 2 ^ n.
Proof.
  intros a b n Ha. destruct (N.eq_dec (N.ldiff a b) 0) as [->|Hz]; [apply N_pow_pos; lia|].
  apply N.log2_lt_pow2; [lia|].
  destruct (N.eq_dec a 0) as [->|Hza]; [rewrite N.ldiff_0_l in Hz; congruence|].
  assert (N.log2 a < n) by (apply N.log2_lt_pow2; lia).
  destruct (N.lt_ge_cases (N.log2 (N.ldiff a b)) n) as [Hl|Hl]; [exact Hl|].
  pose proof (N.bit_log2 _ Hz) as Hb. rewrite N.ldiff_spec in Hb.
  rewrite (N.bits_above_log2 a) in Hb by lia. discriminate.
Qed.

Lemma land_lt_l : forall a b n, a < 2 ^ n -> N.land a b < 2 ^ n.
Proof.
  intros a b n Ha. destruct (N.eq_dec (N.land a b) 0) as [->|Hz]; [apply N_pow_pos; lia|].
  apply N.log2_lt_pow2; [lia|].
  destruct (N.eq_dec a 0) as [->|Hza]; [rewrite N.land_0_l in Hz; congruence|].
  assert (N.log2 a < n) by (apply N.log2_lt_pow2; lia).
  destruct (N.lt_ge_cases (N.log2 (N.land a b)) n) as [Hl|Hl]; [exact Hl|].
  pose proof (N.bit_log2 _ Hz) as Hb. rewrite N.land_spec in Hb.
  rewrite (N.bits_above_log2 a) in Hb by lia. discriminate.
Qed.

(** * The loop over set bits *)
Section BitLoop.
Context {A : Type}.
Variable f : A -> square -> A.
Variable X : Type.
Variable In' : X -> A -> Prop.          (* membership in the accumulator *)
Variable R : square -> X -> Prop.       (* what one iteration adds *)
Hypothesis f_spec : forall acc sq x, In' x (f acc sq) <-> In' x acc \/ R sq x.

Lemma bbLoop_In : forall fuel mask acc x,
  (forall i, N.testbit mask i = true -> 64 - N.of_nat fuel <= i /\ i < 64) ->
  (In' x (bbLoop fuel mask f acc) <-> In' x acc \/ exists sq, N.testbit mask sq = true /\ R sq x).
Proof.
  induction fuel as [|k IH]; intros mask acc x Hb.
  - cbn [bbLoop]. split; [auto|]. intros [H|[sq [Hs _]]]; [exact H|].
    apply Hb in Hs. cbn in Hs. lia.
  - cbn [bbLoop]. destruct (N.eqb_spec mask 0) as [->|Hnz].
    + split; [auto|]. intros [H|[sq [Hs _]]]; [exact H|]. rewrite N.bits_0 in Hs. discriminate.
    + assert (Hpos : 0 < mask) by lia.
      assert (H64 : mask < 2 ^ 64) by (apply lt_2_64_of_bits; intros i Hi; apply Hb in Hi; lia).
      unfold firstSquare. rewrite (firstBitT_correct mask Hpos H64).
      pose proof (firstBit_testbit mask Hpos) as Hfb.
      pose proof (clearLowest_spec mask Hpos) as Hcl.
      rewrite IH.
      * rewrite f_spec. split.
        -- intros [[H|H]|[sq [Hs Hr]]]; [left; exact H | right; exists (firstBit mask); auto |].
           right. exists sq. rewrite Hcl in Hs. apply andb_true_iff in Hs. destruct Hs as [Hs _]. auto.
        -- intros [H|[sq [Hs Hr]]]; [left; left; exact H|].
           destruct (N.eq_dec sq (firstBit mask)) as [->|Hne]; [left; right; exact Hr|].
           right. exists sq. split; [|exact Hr]. rewrite Hcl, Hs. apply negb_true_iff, N.eqb_neq. exact Hne.
      * intros i Hi. rewrite Hcl in Hi. apply andb_true_iff in Hi. destruct Hi as [Hi Hne].
        apply negb_true_iff, N.eqb_neq in Hne.
        pose proof (firstBit_lowest mask i Hpos Hi) as Hlow.
        destruct (Hb _ Hfb) as [Hlo _]. destruct (Hb _ Hi) as [_ Hhi]. split; [|exact Hhi].
        rewrite Nat2N.inj_succ in Hlo. lia.
Qed.

Lemma forSquares_In : forall mask acc x, mask < 2 ^ 64 ->
  (In' x (forSquares mask f acc) <-> In' x acc \/ exists sq, N.testbit mask sq = true /\ R sq x).
Proof.
  intros mask acc x Hm. unfold forSquares. apply bbLoop_In.
  intros i Hi. split; [unfold bbFuel; cbn; lia | exact (bits_below_64 mask Hm i Hi)].
Qed.
End BitLoop.

(** * addMove / addMovesByMask *)
Lemma addMove_In : forall l a b c m, In m (addMove l a b c) <-> In m l \/ m = mkMove a b c.
Proof.
  intros. unfold addMove. rewrite in_app_iff. cbn [In]. split.
  - intros [H|[H|[]]]; auto.
  - intros [H|H]; auto.
Qed.

Lemma addMovesByMask_In : forall l sq0 mask m, mask < 2 ^ 64 ->
  (In m (addMovesByMask l sq0 mask) <-> In m l \/ exists t, N.testbit mask t = true /\ m = mkMove sq0 t EMPTY).
Proof.
  intros l sq0 mask m Hm. unfold addMovesByMask.
  apply (forSquares_In (fun l sq => addMove l sq0 sq EMPTY) move (fun x l => In x l)
                       (fun sq x => x = mkMove sq0 sq EMPTY)); [|exact Hm].
  intros acc sq x. apply addMove_In.
Qed.

Theorem forSquares_moves_In : forall (g : square -> N) mask l0 m,
  mask < 2 ^ 64 -> (forall sq, g sq < 2 ^ 64) ->
  (In m (forSquares mask (fun l sq => addMovesByMask l sq (g sq)) l0) <->
   In m l0 \/ exists sq t, N.testbit mask sq = true /\ N.testbit (g sq) t = true /\ m = mkMove sq t EMPTY).
Proof.
  intros g mask l0 m Hm Hg.
  rewrite (forSquares_In (fun l sq => addMovesByMask l sq (g sq)) move (fun x l => In x l)
                         (fun sq x => exists t, N.testbit (g sq) t = true /\ x = mkMove sq t EMPTY)).
  - split.
    + intros [H|[sq [Hs [t [Ht He]]]]]; [left; exact H | right; exists sq, t; auto].
    + intros [H|[sq [t [Hs [Ht He]]]]]; [left; exact H | right; exists sq; split; [exact Hs | exists t; auto]].
  - intros acc sq x. apply addMovesByMask_In. apply Hg.
  - exact Hm.
Qed.

(** * Bitboards of a board *)
Lemma bbOf_fold : forall (pc : piece) (l : list piece) (a : nat) (acc : N) (k : nat),
  N.testbit (fold_left (fun acc sp => if snd sp =? pc then N.lor acc (bit (fst sp)) else acc)
                       (combine (map N.of_nat (seq a (length l))) l) acc) (N.of_nat k)
  = N.testbit acc (N.of_nat k) || ((a <=? k)%nat && (k <? a + length l)%nat && (nth (k - a) l EMPTY =? pc)).
Proof.
  intros pc. induction l as [|x l IH]; intros a acc k.
  - cbn [length combine seq map fold_left].
    assert (H : (a <=? k)%nat && (k <? a + 0)%nat = false).
    { destruct (Nat.leb_spec a k); destruct (Nat.ltb_spec k (a + 0)); try reflexivity; lia. }
    rewrite H. cbn [andb]. rewrite orb_false_r. reflexivity.
  - cbn [length seq map combine fold_left fst snd]. rewrite IH.
    destruct (Nat.eq_dec k a) as [->|Hne].
    + rewrite Nat.sub_diag. cbn [nth].
      replace (S a <=? a)%nat with false by (symmetry; apply Nat.leb_gt; lia). cbn [andb]. rewrite orb_false_r.
      replace (a <=? a)%nat with true by (symmetry; apply Nat.leb_le; lia).
      replace (a <? a + S (length l))%nat with true by (symmetry; apply Nat.ltb_lt; lia). cbn [andb].
      destruct (x =? pc).
      * rewrite N.lor_spec, bit_testbit. rewrite N.eqb_refl. reflexivity.
      * cbn [andb]. rewrite orb_false_r. reflexivity.
    + assert (Hbit : N.testbit (if x =? pc then N.lor acc (bit (N.of_nat a)) else acc) (N.of_nat k) = N.testbit acc (N.of_nat k)).
      { destruct (x =? pc); [|reflexivity]. rewrite N.lor_spec, bit_testbit.
        replace (N.of_nat a =? N.of_nat k) with false by (symmetry; apply N.eqb_neq; lia). apply orb_false_r. }
      rewrite Hbit. f_equal.
      destruct (Nat.leb_spec (S a) k), (Nat.leb_spec a k); try lia; cbn [andb]; try reflexivity.
      replace (k - a)%nat with (S (k - S a)) by lia. cbn [nth].
      replace (k <? S a + length l)%nat with (k <? a + S (length l))%nat by (f_equal; lia). reflexivity.
Qed.

Lemma bbOfPiece_testbit : forall sqs pc k, length sqs = 64%nat ->
  N.testbit (bbOfPiece sqs pc) k = (k <? 64) && (nth (N.to_nat k) sqs EMPTY =? pc).
Proof.
  intros sqs pc k Hl. unfold bbOfPiece, allSquares. rewrite <- Hl.
  rewrite <- (N2Nat.id k) at 1. rewrite bbOf_fold. rewrite N.bits_0. cbn [orb Nat.leb andb].
  rewrite Nat.sub_0_r, Nat.add_0_l, Hl. f_equal.
  destruct (Nat.ltb_spec (N.to_nat k) 64), (N.ltb_spec k 64); try reflexivity; lia.
Qed.

(** * Coordinates *)
Local Open Scope Z_scope.
Lemma coords_of_sq : forall sq, (sq < 64)%N ->
  on_board (zf sq) (zr sq) = true /\ idx (zf sq) (zr sq) = N.to_nat sq /\ sq_of (zf sq) (zr sq) = sq.
Proof.
  intros sq H. unfold on_board, idx, sq_of, zf, zr.
  assert (0 <= Z.of_N sq < 64) by lia.
  pose proof (Z.mod_pos_bound (Z.of_N sq) 8 ltac:(lia)).
  pose proof (Z.div_mod (Z.of_N sq) 8 ltac:(lia)).
  assert (0 <= Z.of_N sq / 8 <= 7) by (split; [apply Z.div_pos; lia | apply Z.lt_succ_r; apply Z.div_lt_upper_bound; lia]).
  repeat split.
  - rewrite !andb_true_iff, !Z.leb_le. lia.
  - replace (Z.of_N sq / 8 * 8 + Z.of_N sq mod 8) with (Z.of_N sq) by lia. lia.
  - replace (Z.of_N sq / 8 * 8 + Z.of_N sq mod 8) with (Z.of_N sq) by lia. apply N2Z.id.
Qed.

Lemma sq_of_coords : forall f r, on_board f r = true ->
  (sq_of f r < 64)%N /\ zf (sq_of f r) = f /\ zr (sq_of f r) = r /\ idx f r = N.to_nat (sq_of f r).
Proof.
  intros f r H. unfold on_board in H. rewrite !andb_true_iff, !Z.leb_le in H.
  unfold sq_of, zf, zr, idx. rewrite Z2N.id by lia.
  repeat split.
  - lia.
  - rewrite Z.add_comm, Z.mod_add by lia. apply Z.mod_small. lia.
  - rewrite Z.add_comm, Z.div_add by lia. rewrite Z.div_small by lia. lia.
  - lia.
Qed.
Local Open Scope N_scope.

Lemma getPiece_at : forall p sq, sq < 64 -> getPiece p sq = at_ (squares p) (zf sq) (zr sq).
Proof.
  intros p sq H. destruct (coords_of_sq sq H) as [H1 [H2 _]]. unfold getPiece, at_. rewrite H1, H2. reflexivity.
Qed.

Lemma at_getPiece : forall p f r, on_board f r = true -> at_ (squares p) f r = getPiece p (sq_of f r).
Proof.
  intros p f r H. destruct (sq_of_coords f r H) as [_ [_ [_ H4]]]. unfold getPiece, at_. rewrite H, H4. reflexivity.
Qed.

(** * What WF gives *)
Lemma WF_parts : forall p, WF p ->
  length (squares p) = 64%nat /\
  (forall pc, In pc pieceCodes -> ptBB p pc = bbOfPiece (squares p) pc) /\
  whiteBB p = fold_left N.lor (map (bbOfPiece (squares p)) [1; 2; 3; 4; 5; 6]) 0 /\
  blackBB p = fold_left N.lor (map (bbOfPiece (squares p)) [7; 8; 9; 10; 11; 12]) 0 /\
  accepted (abs p) = true.
Proof.
  intros p H. unfold WF, wfb, bbConsistentb in H. rewrite !andb_true_iff in H.
  destruct H as [[[[[H1 H2] H3] H4] H5] H6]. apply Nat.eqb_eq in H1. apply N.eqb_eq in H4, H5.
  repeat split; try assumption. intros pc Hpc. rewrite forallb_forall in H3. apply N.eqb_eq. apply H3. exact Hpc.
Qed.

Lemma WF_pieces_le_12 : forall p sq, WF p -> getPiece p sq <= 12.
Proof.
  intros p sq H. destruct (WF_parts p H) as [Hl [_ [_ [_ Ha]]]]. unfold accepted in Ha. rewrite !andb_true_iff in Ha.
  destruct Ha as [[[[[[[[[[[[_ Hle] _] _] _] _] _] _] _] _] _] _] _]. cbn [abs sp_board] in Hle.
  rewrite forallb_forall in Hle. unfold getPiece.
  destruct (Nat.lt_ge_cases (N.to_nat sq) (length (squares p))) as [Hlt|Hge].
  - apply N.leb_le. apply Hle. apply nth_In. exact Hlt.
  - rewrite nth_overflow by exact Hge. unfold EMPTY. lia.
Qed.

Lemma ptBB_testbit : forall p pc k, WF p -> In pc pieceCodes ->
  N.testbit (ptBB p pc) k = (k <? 64) && (getPiece p k =? pc).
Proof.
  intros p pc k H Hpc. destruct (WF_parts p H) as [Hl [Hbb _]]. rewrite (Hbb pc Hpc).
  apply bbOfPiece_testbit. exact Hl.
Qed.

Lemma ptBB_lt : forall p pc, WF p -> In pc pieceCodes -> ptBB p pc < 2 ^ 64.
Proof.
  intros p pc H Hpc. apply lt_2_64_of_bits. intros i Hi. rewrite (ptBB_testbit p pc i H Hpc) in Hi.
  apply andb_true_iff in Hi. destruct Hi as [Hi _]. apply N.ltb_lt in Hi. exact Hi.
Qed.

Lemma le12_cases : forall pc, pc <= 12 ->
  pc = 0 \/ pc = 1 \/ pc = 2 \/ pc = 3 \/ pc = 4 \/ pc = 5 \/ pc = 6 \/ pc = 7 \/ pc = 8 \/ pc = 9 \/ pc = 10 \/ pc = 11 \/ pc = 12.
Proof. intros. lia. Qed.

Lemma colorBB_testbit : forall p w k, WF p ->
  N.testbit (colorBB p w) k = (k <? 64) && has_color w (getPiece p k).
Proof.
  intros p w k H. destruct (WF_parts p H) as [Hl [_ [Hw [Hb _]]]].
  pose proof (WF_pieces_le_12 p k H) as Hle. unfold colorBB. destruct w.
  - rewrite Hw. cbn [map fold_left]. rewrite !N.lor_spec, N.bits_0, !(bbOfPiece_testbit _ _ _ Hl). cbn [orb].
    fold (getPiece p k). destruct (k <? 64); [|reflexivity]. cbn [andb].
    destruct (le12_cases _ Hle) as [E|[E|[E|[E|[E|[E|[E|[E|[E|[E|[E|[E|E]]]]]]]]]]]]; rewrite E; reflexivity.
  - rewrite Hb. cbn [map fold_left]. rewrite !N.lor_spec, N.bits_0, !(bbOfPiece_testbit _ _ _ Hl). cbn [orb].
    fold (getPiece p k). destruct (k <? 64); [|reflexivity]. cbn [andb].
    destruct (le12_cases _ Hle) as [E|[E|[E|[E|[E|[E|[E|[E|[E|[E|[E|[E|E]]]]]]]]]]]]; rewrite E; reflexivity.
Qed.
