(** Proofs about the MoveGen model (levels L1, L2, L4 of the proof plan):
    - the loops over set bits ([forSquares]) enumerate exactly the set bits of any 64-bit mask
      (the fuel always suffices);
    - [addMovesByMask] and the outer piece loops in terms of membership;
    - bitboards of a well-formed position in terms of the mailbox board;
    - the knight block and the king block of pseudoLegalMoves = the Spec's pseudo-moves. *)
From Coq Require Import ZArith NArith List Bool Lia.
From Texel Require Import Chess.Types Chess.Position Chess.BitBoard Chess.MoveGen Chess.Spec Chess.MoveGenWF
  Chess.BitBoardProofs Chess.RayProofs gen.BitBoardTables.
Import ListNotations.
Local Open Scope N_scope.

(** * 64-bit words and their bits *)
Lemma bits_below_64 : forall m, m < 2 ^ 64 -> forall i, N.testbit m i = true -> i < 64.
Proof.
  intros m Hm i Hi. destruct (N.eq_dec m 0) as [->|Hz]; [rewrite N.bits_0 in Hi; discriminate|].
  destruct (N.lt_ge_cases i 64) as [H|H]; [exact H|].
  assert (Hl : N.log2 m < 64) by (apply N.log2_lt_pow2; lia).
  rewrite N.bits_above_log2 in Hi by lia. discriminate.
Qed.

Lemma lt_2_64_of_bits : forall m, (forall i, N.testbit m i = true -> i < 64) -> m < 2 ^ 64.
Proof.
  intros m H. destruct (N.eq_dec m 0) as [->|Hz]; [reflexivity|].
  apply N.log2_lt_pow2; [lia|]. apply H. apply N.bit_log2. exact Hz.
Qed.

Lemma ldiff_lt : forall a b n, a < 2 ^ n -> N.ldiff a b < 2 ^ n.
Proof.
  intros a b n Ha. destruct (N.eq_dec (N.ldiff a b) 0) as [->|Hz]; [apply N_pow_pos; lia|].
  apply N.log2_lt_pow2; [lia|].
  destruct (N.eq_dec a 0) as [->|Hza]; [rewrite N.ldiff_0_l in Hz; congruence|].
  assert (N.log2 a < n) by (apply N.log2_lt_pow2; lia).
  destruct (N.lt_ge_cases (N.log2 (N.ldiff a b)) n) as [Hl|Hl]; [exact Hl|].
  pose proof (N.bit_log2 _ Hz) as Hb. rewrite N.ldiff_spec in Hb.
  rewrite (N.bits_above_log2 a) in Hb by lia. discriminate.
Qed.

Lemma land_lt_l : forall a b n, a < 2 ^ n -> N.land a b < 2 ^ n.
Proof.
  intros a b n Ha. destruct (N.eq_dec (N.land a b) 0) as [->|Hz]; [apply N_pow_pos; lia|].
  apply N.log2_lt_pow2; [lia|].
  destruct (N.eq_dec a 0) as [->|Hza]; [rewrite N.land_0_l in Hz; congruence|].
  assert (N.log2 a < n) by (apply N.log2_lt_pow2; lia).
  destruct (N.lt_ge_cases (N.log2 (N.land a b)) n) as [Hl|Hl]; [exact Hl|].
  pose proof (N.bit_log2 _ Hz) as Hb. rewrite N.land_spec in Hb.
  rewrite (N.bits_above_log2 a) in Hb by lia. discriminate.
Qed.

(** * The loop over set bits *)
Section BitLoop.
Context {A : Type}.
Variable f : A -> square -> A.
Variable X : Type.
Variable In' : X -> A -> Prop.          (* membership in the accumulator *)
Variable R : square -> X -> Prop.       (* what one iteration adds *)
Hypothesis f_spec : forall acc sq x, sq < 64 -> (In' x (f acc sq) <-> In' x acc \/ R sq x).

Lemma bbLoop_In : forall fuel mask acc x,
  (forall i, N.testbit mask i = true -> 64 - N.of_nat fuel <= i /\ i < 64) ->
  (In' x (bbLoop fuel mask f acc) <-> In' x acc \/ exists sq, N.testbit mask sq = true /\ R sq x).
Proof.
  induction fuel as [|k IH]; intros mask acc x Hb.
  - cbn [bbLoop]. split; [auto|]. intros [H|[sq [Hs _]]]; [exact H|].
    apply Hb in Hs. cbn in Hs. lia.
  - cbn [bbLoop]. destruct (N.eqb_spec mask 0) as [->|Hnz].
    + split; [auto|]. intros [H|[sq [Hs _]]]; [exact H|]. rewrite N.bits_0 in Hs. discriminate.
    + assert (Hpos : 0 < mask) by lia.
      assert (H64 : mask < 2 ^ 64) by (apply lt_2_64_of_bits; intros i Hi; apply Hb in Hi; lia).
      unfold firstSquare. rewrite (firstBitT_correct mask Hpos H64).
      pose proof (firstBit_testbit mask Hpos) as Hfb.
      pose proof (clearLowest_spec mask Hpos) as Hcl.
      assert (Hf64 : firstBit mask < 64) by (apply Hb; exact Hfb).
      rewrite IH.
      * rewrite (f_spec _ _ _ Hf64). split.
        -- intros [[H|H]|[sq [Hs Hr]]]; [left; exact H | right; exists (firstBit mask); auto |].
           right. exists sq. rewrite Hcl in Hs. apply andb_true_iff in Hs. destruct Hs as [Hs _]. auto.
        -- intros [H|[sq [Hs Hr]]]; [left; left; exact H|].
           destruct (N.eq_dec sq (firstBit mask)) as [->|Hne]; [left; right; exact Hr|].
           right. exists sq. split; [|exact Hr]. rewrite Hcl, Hs. apply negb_true_iff, N.eqb_neq. exact Hne.
      * intros i Hi. rewrite Hcl in Hi. apply andb_true_iff in Hi. destruct Hi as [Hi Hne].
        apply negb_true_iff, N.eqb_neq in Hne.
        pose proof (firstBit_lowest mask i Hpos Hi) as Hlow.
        destruct (Hb _ Hfb) as [Hlo _]. destruct (Hb _ Hi) as [_ Hhi]. split; [|exact Hhi].
        rewrite Nat2N.inj_succ in Hlo. lia.
Qed.

Lemma forSquares_In : forall mask acc x, mask < 2 ^ 64 ->
  (In' x (forSquares mask f acc) <-> In' x acc \/ exists sq, N.testbit mask sq = true /\ R sq x).
Proof.
  intros mask acc x Hm. unfold forSquares. apply bbLoop_In.
  intros i Hi. split; [unfold bbFuel; cbn; lia | exact (bits_below_64 mask Hm i Hi)].
Qed.
End BitLoop.

(** * addMove / addMovesByMask *)
Lemma addMove_In : forall l a b c m, In m (addMove l a b c) <-> In m l \/ m = mkMove a b c.
Proof.
  intros. unfold addMove. rewrite in_app_iff. cbn [In]. split.
  - intros [H|[H|[]]]; auto.
  - intros [H|H]; auto.
Qed.

Lemma addMovesByMask_In : forall l sq0 mask m, mask < 2 ^ 64 ->
  (In m (addMovesByMask l sq0 mask) <-> In m l \/ exists t, N.testbit mask t = true /\ m = mkMove sq0 t EMPTY).
Proof.
  intros l sq0 mask m Hm. unfold addMovesByMask.
  apply (forSquares_In (fun l sq => addMove l sq0 sq EMPTY) move (fun x l => In x l)
                       (fun sq x => x = mkMove sq0 sq EMPTY)); [|exact Hm].
  intros acc sq x _. apply addMove_In.
Qed.

Theorem forSquares_moves_In : forall (g : square -> N) mask l0 m,
  mask < 2 ^ 64 -> (forall sq, sq < 64 -> g sq < 2 ^ 64) ->
  (In m (forSquares mask (fun l sq => addMovesByMask l sq (g sq)) l0) <->
   In m l0 \/ exists sq t, N.testbit mask sq = true /\ N.testbit (g sq) t = true /\ m = mkMove sq t EMPTY).
Proof.
  intros g mask l0 m Hm Hg.
  rewrite (forSquares_In (fun l sq => addMovesByMask l sq (g sq)) move (fun x l => In x l)
                         (fun sq x => exists t, N.testbit (g sq) t = true /\ x = mkMove sq t EMPTY)).
  - split.
    + intros [H|[sq [Hs [t [Ht He]]]]]; [left; exact H | right; exists sq, t; auto].
    + intros [H|[sq [t [Hs [Ht He]]]]]; [left; exact H | right; exists sq; split; [exact Hs | exists t; auto]].
  - intros acc sq x Hsq. apply addMovesByMask_In. apply Hg. exact Hsq.
  - exact Hm.
Qed.

(** * Bitboards of a board *)
Lemma bbOf_fold : forall (pc : piece) (l : list piece) (a : nat) (acc : N) (k : nat),
  N.testbit (fold_left (fun acc sp => if snd sp =? pc then N.lor acc (bit (fst sp)) else acc)
                       (combine (map N.of_nat (seq a (length l))) l) acc) (N.of_nat k)
  = N.testbit acc (N.of_nat k) || ((a <=? k)%nat && (k <? a + length l)%nat && (nth (k - a) l EMPTY =? pc)).
Proof.
  intros pc. induction l as [|x l IH]; intros a acc k.
  - cbn [length combine seq map fold_left].
    assert (H : (a <=? k)%nat && (k <? a + 0)%nat = false).
    { destruct (Nat.leb_spec a k); destruct (Nat.ltb_spec k (a + 0)); try reflexivity; lia. }
    rewrite H. cbn [andb]. rewrite orb_false_r. reflexivity.
  - cbn [length seq map combine fold_left fst snd]. rewrite IH.
    destruct (Nat.eq_dec k a) as [->|Hne].
    + rewrite Nat.sub_diag. cbn [nth].
      replace (S a <=? a)%nat with false by (symmetry; apply Nat.leb_gt; lia). cbn [andb]. rewrite orb_false_r.
      replace (a <=? a)%nat with true by (symmetry; apply Nat.leb_le; lia).
      replace (a <? a + S (length l))%nat with true by (symmetry; apply Nat.ltb_lt; lia). cbn [andb].
      destruct (x =? pc).
      * rewrite N.lor_spec, bit_testbit. rewrite N.eqb_refl. reflexivity.
      * cbn [andb]. rewrite orb_false_r. reflexivity.
    + assert (Hbit : N.testbit (if x =? pc then N.lor acc (bit (N.of_nat a)) else acc) (N.of_nat k) = N.testbit acc (N.of_nat k)).
      { destruct (x =? pc); [|reflexivity]. rewrite N.lor_spec, bit_testbit.
        replace (N.of_nat a =? N.of_nat k) with false by (symmetry; apply N.eqb_neq; lia). apply orb_false_r. }
      rewrite Hbit. f_equal.
      destruct (Nat.leb_spec (S a) k), (Nat.leb_spec a k); try lia; cbn [andb]; try reflexivity.
      replace (k - a)%nat with (S (k - S a)) by lia. cbn [nth].
      replace (k <? S a + length l)%nat with (k <? a + S (length l))%nat by (f_equal; lia). reflexivity.
Qed.

Lemma bbOfPiece_testbit : forall sqs pc k, length sqs = 64%nat ->
  N.testbit (bbOfPiece sqs pc) k = (k <? 64) && (nth (N.to_nat k) sqs EMPTY =? pc).
Proof.
  intros sqs pc k Hl. unfold bbOfPiece, allSquares. rewrite <- Hl.
  rewrite <- (N2Nat.id k) at 1. rewrite bbOf_fold. rewrite N.bits_0. cbn [orb Nat.leb andb].
  rewrite Nat.sub_0_r, Nat.add_0_l, Hl. f_equal.
  destruct (Nat.ltb_spec (N.to_nat k) 64), (N.ltb_spec k 64); try reflexivity; lia.
Qed.

(** * Coordinates *)
Local Open Scope Z_scope.
Lemma coords_of_sq : forall sq, (sq < 64)%N ->
  on_board (zf sq) (zr sq) = true /\ idx (zf sq) (zr sq) = N.to_nat sq /\ sq_of (zf sq) (zr sq) = sq.
Proof.
  intros sq H. unfold on_board, idx, sq_of, zf, zr.
  assert (0 <= Z.of_N sq < 64) by lia.
  pose proof (Z.mod_pos_bound (Z.of_N sq) 8 ltac:(lia)).
  pose proof (Z.div_mod (Z.of_N sq) 8 ltac:(lia)).
  assert (0 <= Z.of_N sq / 8 <= 7) by (split; [apply Z.div_pos; lia | apply Z.lt_succ_r; apply Z.div_lt_upper_bound; lia]).
  repeat split.
  - rewrite !andb_true_iff, !Z.leb_le. lia.
  - replace (Z.of_N sq / 8 * 8 + Z.of_N sq mod 8) with (Z.of_N sq) by lia. lia.
  - replace (Z.of_N sq / 8 * 8 + Z.of_N sq mod 8) with (Z.of_N sq) by lia. apply N2Z.id.
Qed.

Lemma sq_of_coords : forall f r, on_board f r = true ->
  (sq_of f r < 64)%N /\ zf (sq_of f r) = f /\ zr (sq_of f r) = r /\ idx f r = N.to_nat (sq_of f r).
Proof.
  intros f r H. unfold on_board in H. rewrite !andb_true_iff, !Z.leb_le in H.
  unfold sq_of, zf, zr, idx. rewrite Z2N.id by lia.
  repeat split.
  - lia.
  - rewrite Z.add_comm, Z.mod_add by lia. apply Z.mod_small. lia.
  - rewrite Z.add_comm, Z.div_add by lia. rewrite Z.div_small by lia. lia.
  - lia.
Qed.
Local Open Scope N_scope.

Lemma getPiece_at : forall p sq, sq < 64 -> getPiece p sq = at_ (squares p) (zf sq) (zr sq).
Proof.
  intros p sq H. destruct (coords_of_sq sq H) as [H1 [H2 _]]. unfold getPiece, at_. rewrite H1, H2. reflexivity.
Qed.

Lemma at_getPiece : forall p f r, on_board f r = true -> at_ (squares p) f r = getPiece p (sq_of f r).
Proof.
  intros p f r H. destruct (sq_of_coords f r H) as [_ [_ [_ H4]]]. unfold getPiece, at_. rewrite H, H4. reflexivity.
Qed.

(** * What WF gives *)
Lemma WF_parts : forall p, WF p ->
  length (squares p) = 64%nat /\
  (forall pc, In pc pieceCodes -> ptBB p pc = bbOfPiece (squares p) pc) /\
  whiteBB p = fold_left N.lor (map (bbOfPiece (squares p)) [1; 2; 3; 4; 5; 6]) 0 /\
  blackBB p = fold_left N.lor (map (bbOfPiece (squares p)) [7; 8; 9; 10; 11; 12]) 0 /\
  accepted (abs p) = true.
Proof.
  intros p H. unfold WF, wfb, bbConsistentb in H. rewrite !andb_true_iff in H.
  destruct H as [[[[[H1 H2] H3] H4] H5] H6]. apply Nat.eqb_eq in H1. apply N.eqb_eq in H4, H5.
  repeat split; try assumption. intros pc Hpc. rewrite forallb_forall in H3. apply N.eqb_eq. apply H3. exact Hpc.
Qed.

Lemma accepted_parts : forall sp, accepted sp = true ->
  let b := sp_board sp in let w := sp_white sp in
  length b = 64%nat /\
  forallb (fun pc => N.leb pc 12) b = true /\
  count_piece b WKING = 1%nat /\ count_piece b BKING = 1%nat /\
  in_checkb b (negb w) = false /\
  sp_castle sp < 16 /\
  (has_right sp true true = true -> is_piece true King (at_ b 4 0) = true /\ is_piece true Rook (at_ b 7 0) = true) /\
  (has_right sp true false = true -> is_piece true King (at_ b 4 0) = true /\ is_piece true Rook (at_ b 0 0) = true) /\
  (has_right sp false true = true -> is_piece false King (at_ b 4 7) = true /\ is_piece false Rook (at_ b 7 7) = true) /\
  (has_right sp false false = true -> is_piece false King (at_ b 4 7) = true /\ is_piece false Rook (at_ b 0 7) = true).
Proof.
  intros sp H. unfold accepted in H. cbv zeta in H. rewrite !andb_true_iff in H. cbv zeta.
  decompose [and] H. clear H.
  repeat match goal with
         | H : (_ =? _)%nat = true |- _ => apply Nat.eqb_eq in H
         | H : negb _ = true |- _ => apply negb_true_iff in H
         | H : (_ <? _) = true |- _ => apply N.ltb_lt in H
         end.
  repeat split; try assumption;
    repeat match goal with
           | Hx : negb ?r || _ = true, Hr : ?r = true |- _ =>
               rewrite Hr in Hx; cbn [negb orb] in Hx; apply andb_true_iff in Hx; destruct Hx
           end; assumption.
Qed.

Lemma WF_pieces_le_12 : forall p sq, WF p -> getPiece p sq <= 12.
Proof.
  intros p sq H. destruct (WF_parts p H) as [Hl [_ [_ [_ Ha]]]].
  destruct (accepted_parts _ Ha) as [_ [Hle _]]. cbn [abs sp_board] in Hle.
  rewrite forallb_forall in Hle. unfold getPiece.
  destruct (Nat.lt_ge_cases (N.to_nat sq) (length (squares p))) as [Hlt|Hge].
  - apply N.leb_le. apply Hle. apply nth_In. exact Hlt.
  - rewrite nth_overflow by exact Hge. unfold EMPTY. lia.
Qed.

Lemma ptBB_testbit : forall p pc k, WF p -> In pc pieceCodes ->
  N.testbit (ptBB p pc) k = (k <? 64) && (getPiece p k =? pc).
Proof.
  intros p pc k H Hpc. destruct (WF_parts p H) as [Hl [Hbb _]]. rewrite (Hbb pc Hpc).
  apply bbOfPiece_testbit. exact Hl.
Qed.

Lemma ptBB_lt : forall p pc, WF p -> In pc pieceCodes -> ptBB p pc < 2 ^ 64.
Proof.
  intros p pc H Hpc. apply lt_2_64_of_bits. intros i Hi. rewrite (ptBB_testbit p pc i H Hpc) in Hi.
  apply andb_true_iff in Hi. destruct Hi as [Hi _]. apply N.ltb_lt in Hi. exact Hi.
Qed.

Lemma le12_cases : forall pc, pc <= 12 ->
  pc = 0 \/ pc = 1 \/ pc = 2 \/ pc = 3 \/ pc = 4 \/ pc = 5 \/ pc = 6 \/ pc = 7 \/ pc = 8 \/ pc = 9 \/ pc = 10 \/ pc = 11 \/ pc = 12.
Proof. intros. lia. Qed.

Lemma colorBB_testbit : forall p w k, WF p ->
  N.testbit (colorBB p w) k = (k <? 64) && has_color w (getPiece p k).
Proof.
  intros p w k H. destruct (WF_parts p H) as [Hl [_ [Hw [Hb _]]]].
  pose proof (WF_pieces_le_12 p k H) as Hle. unfold colorBB. destruct w.
  - rewrite Hw. cbn [map fold_left]. rewrite !N.lor_spec, N.bits_0, !(bbOfPiece_testbit _ _ _ Hl). cbn [orb].
    fold (getPiece p k). destruct (k <? 64); [|reflexivity]. cbn [andb].
    destruct (le12_cases _ Hle) as [E|[E|[E|[E|[E|[E|[E|[E|[E|[E|[E|[E|E]]]]]]]]]]]]; rewrite E; reflexivity.
  - rewrite Hb. cbn [map fold_left]. rewrite !N.lor_spec, N.bits_0, !(bbOfPiece_testbit _ _ _ Hl). cbn [orb].
    fold (getPiece p k). destruct (k <? 64); [|reflexivity]. cbn [andb].
    destruct (le12_cases _ Hle) as [E|[E|[E|[E|[E|[E|[E|[E|[E|[E|[E|[E|E]]]]]]]]]]]]; rewrite E; reflexivity.
Qed.

(** * The part of well-formedness that the attack tests need (also holds for the position in
    the middle of removeIllegal's make / test / unmake, which need not be "accepted") *)
Definition BoardOK (p : position) : Prop :=
  (forall k, getPiece p k <= 12) /\
  (forall pc k, In pc pieceCodes -> N.testbit (ptBB p pc) k = (k <? 64) && (getPiece p k =? pc)) /\
  (forall w k, N.testbit (colorBB p w) k = (k <? 64) && has_color w (getPiece p k)).

Lemma WF_BoardOK : forall p, WF p -> BoardOK p.
Proof.
  intros p H. split; [|split].
  - intro k. apply WF_pieces_le_12. exact H.
  - intros pc k Hpc. apply ptBB_testbit; assumption.
  - intros w k. apply colorBB_testbit. exact H.
Qed.

Lemma BoardOK_le12 : forall p k, BoardOK p -> getPiece p k <= 12.
Proof. intros p k H. apply H. Qed.
Lemma BoardOK_ptBB : forall p pc k, BoardOK p -> In pc pieceCodes ->
  N.testbit (ptBB p pc) k = (k <? 64) && (getPiece p k =? pc).
Proof. intros p pc k H Hpc. apply H. exact Hpc. Qed.
Lemma BoardOK_color : forall p w k, BoardOK p ->
  N.testbit (colorBB p w) k = (k <? 64) && has_color w (getPiece p k).
Proof. intros p w k H. apply H. Qed.
Lemma BoardOK_ptBB_lt : forall p pc, BoardOK p -> In pc pieceCodes -> ptBB p pc < 2 ^ 64.
Proof.
  intros p pc H Hpc. apply lt_2_64_of_bits. intros i Hi. rewrite (BoardOK_ptBB p pc i H Hpc) in Hi.
  apply andb_true_iff in Hi. destruct Hi as [Hi _]. apply N.ltb_lt in Hi. exact Hi.
Qed.

(** * Step pieces: generator blocks = Spec pseudo-moves *)
Lemma step_moves_In : forall b w f r offs m,
  In m (step_moves b w f r offs) <->
  exists d, In d offs /\ on_board (f + fst d) (r + snd d) = true /\
            has_color w (at_ b (f + fst d) (r + snd d)) = false /\
            m = mv f r (f + fst d) (r + snd d) EMPTY.
Proof.
  intros. unfold step_moves. rewrite in_flat_map. split.
  - intros [d [Hd Hin]]. exists d.
    destruct (on_board (f + fst d) (r + snd d)) eqn:E1; cbn [andb] in Hin; [|destruct Hin].
    destruct (has_color w (at_ b (f + fst d) (r + snd d))) eqn:E2; cbn [negb] in Hin; [destruct Hin|].
    destruct Hin as [<-|[]]. auto.
  - intros [d [Hd [H1 [H2 ->]]]]. exists d. split; [exact Hd|]. rewrite H1, H2. left. reflexivity.
Qed.

Section StepBlock.
Variable p : position.
Variable w : bool.
Variable tbl : square -> N.
Variable offs : list (Z * Z).
Hypothesis HWF : WF p.
Hypothesis tbl_spec : forall s, s < 64 ->
  tbl s < 2 ^ 64 /\ forall t, t < 64 -> N.testbit (tbl s) t = step_rel offs s t.

Lemma step_target_bridge : forall s m, s < 64 ->
  ((exists t, N.testbit (andn (tbl s) (colorBB p w)) t = true /\ m = mkMove s t EMPTY) <->
   In m (step_moves (squares p) w (zf s) (zr s) offs)).
Proof.
  intros s m Hs. destruct (tbl_spec s Hs) as [Hlt Htb]. destruct (coords_of_sq s Hs) as [_ [_ Hsq]].
  rewrite step_moves_In. split.
  - intros [t [Ht ->]]. unfold andn in Ht. rewrite N.ldiff_spec in Ht. apply andb_true_iff in Ht.
    destruct Ht as [Ht1 Ht2]. pose proof (bits_below_64 _ Hlt t Ht1) as Ht64.
    rewrite (Htb t Ht64) in Ht1. unfold step_rel in Ht1. apply existsb_exists in Ht1.
    destruct Ht1 as [d [Hd He]]. apply andb_true_iff in He. destruct He as [He1 He2].
    apply Z.eqb_eq in He1, He2. destruct (coords_of_sq t Ht64) as [Hob [_ Hsqt]].
    exists d. rewrite <- He1, <- He2. repeat split; try assumption.
    + rewrite <- (getPiece_at p t Ht64). rewrite (colorBB_testbit p w t HWF) in Ht2.
      apply negb_true_iff in Ht2. apply andb_false_iff in Ht2. destruct Ht2 as [Ht2|Ht2]; [|exact Ht2].
      apply N.ltb_ge in Ht2. lia.
    + unfold mv. rewrite Hsq, Hsqt. reflexivity.
  - intros [d [Hd [Hob [Hc ->]]]]. destruct (sq_of_coords _ _ Hob) as [Ht64 [Hf [Hr _]]].
    set (t := sq_of (zf s + fst d) (zr s + snd d)) in *. exists t. split.
    + unfold andn. rewrite N.ldiff_spec. apply andb_true_iff. split.
      * rewrite (Htb t Ht64). unfold step_rel. apply existsb_exists. exists d. split; [exact Hd|].
        rewrite Hf, Hr, !Z.eqb_refl. reflexivity.
      * apply negb_true_iff. rewrite (colorBB_testbit p w t HWF). apply andb_false_iff. right.
        rewrite (getPiece_at p t Ht64), Hf, Hr. exact Hc.
    + unfold mv. rewrite Hsq. reflexivity.
Qed.
End StepBlock.

Lemma nthN_overflow : forall l i, N.of_nat (length l) <= i -> nthN l i = 0.
Proof. intros l i H. unfold nthN. apply nth_overflow. lia. Qed.

Lemma knightAttacks_lt : forall s, andn (knightAttacks s) 0 < 2 ^ 64 /\ knightAttacks s < 2 ^ 64.
Proof.
  intro s. assert (H : knightAttacks s < 2 ^ 64).
  { destruct (N.lt_ge_cases s 64) as [Hs|Hs]; [apply (knightAttacks_spec s Hs)|].
    unfold knightAttacks. rewrite nthN_overflow; [reflexivity | exact Hs]. }
  split; [apply ldiff_lt; exact H | exact H].
Qed.

Lemma kingAttacks_lt : forall s, kingAttacks s < 2 ^ 64.
Proof.
  intro s. destruct (N.lt_ge_cases s 64) as [Hs|Hs]; [apply (kingAttacks_spec s Hs)|].
  unfold kingAttacks. rewrite nthN_overflow; [reflexivity | exact Hs].
Qed.

Lemma myPiece_codes : forall w wp, In wp [1; 2; 3; 4; 5; 6] -> In (myPiece w wp) pieceCodes.
Proof.
  intros w wp H. unfold myPiece, pieceCodes. cbn in H.
  destruct H as [<-|[<-|[<-|[<-|[<-|[<-|[]]]]]]]; destruct w; cbn; tauto.
Qed.

Theorem knightBlock_spec : forall p m, WF p ->
  (In m (knightBlock (whiteMove p) p []) <->
   exists f r, on_board f r = true /\ at_ (squares p) f r = mk_piece (whiteMove p) Knight /\
               In m (step_moves (squares p) (whiteMove p) f r knight_offsets)).
Proof.
  intros p m H. set (w := whiteMove p). unfold knightBlock.
  assert (Hpc : In (myPiece w WKNIGHT) pieceCodes) by (apply myPiece_codes; cbn; tauto).
  assert (Emk : mk_piece w Knight = myPiece w WKNIGHT) by (destruct w; reflexivity).
  rewrite (forSquares_moves_In (fun sq => andn (knightAttacks sq) (colorBB p w))).
  - cbn [In]. split.
    + intros [[]|[sq [t [Hs [Ht ->]]]]]. rewrite (ptBB_testbit p _ sq H Hpc) in Hs.
      apply andb_true_iff in Hs. destruct Hs as [Hs1 Hs2]. apply N.ltb_lt in Hs1. apply N.eqb_eq in Hs2.
      destruct (coords_of_sq sq Hs1) as [Hob _]. exists (zf sq), (zr sq). split; [exact Hob|]. split.
      * rewrite <- (getPiece_at p sq Hs1), Emk. exact Hs2.
      * apply (step_target_bridge p w knightAttacks knight_offsets H knightAttacks_spec sq _ Hs1).
        exists t. auto.
    + intros [f [r [Hob [Hat Hin]]]]. right. destruct (sq_of_coords f r Hob) as [Hs [Hf [Hr _]]].
      assert (Hin' : In m (step_moves (squares p) w (zf (sq_of f r)) (zr (sq_of f r)) knight_offsets))
        by (rewrite Hf, Hr; exact Hin).
      apply (step_target_bridge p w knightAttacks knight_offsets H knightAttacks_spec _ _ Hs) in Hin'.
      destruct Hin' as [t [Ht ->]]. exists (sq_of f r), t. split; [|auto].
      rewrite (ptBB_testbit p _ _ H Hpc). apply andb_true_iff. split; [apply N.ltb_lt; exact Hs|].
      apply N.eqb_eq. rewrite <- (at_getPiece p f r Hob), Hat, Emk. reflexivity.
  - apply ptBB_lt; assumption.
  - intros sq _. apply ldiff_lt. apply knightAttacks_lt.
Qed.

(** ** exactly one king *)
Lemma count_two : forall (x : piece) (l : list piece) i j,
  (i < length l)%nat -> (j < length l)%nat -> i <> j -> nth i l EMPTY = x -> nth j l EMPTY = x ->
  (2 <= count_piece l x)%nat.
Proof.
  assert (Hin : forall (x : piece) l, In x l -> (1 <= length (filter (N.eqb x) l))%nat).
  { intros x l H. induction l as [|a l IH]; [destruct H|]. cbn [filter].
    destruct H as [->|H]; [rewrite N.eqb_refl; cbn; lia|].
    destruct (x =? a); cbn [length]; [lia | apply IH, H]. }
  assert (Hlt : forall (x : piece) l i j, (i < j)%nat -> (j < length l)%nat -> nth i l EMPTY = x -> nth j l EMPTY = x ->
                 (2 <= count_piece l x)%nat).
  { intros x l i j Hij Hj Hi Hjx. unfold count_piece.
    destruct (nth_split l EMPTY (n := i)) as [l1 [l2 [El Hl1]]]; [lia|].
    rewrite Hi in El. rewrite El. rewrite filter_app. cbn [filter]. rewrite N.eqb_refl. rewrite app_length. cbn [length].
    assert (In x l2).
    { rewrite El in Hjx. rewrite app_nth2 in Hjx by lia. rewrite Hl1 in Hjx.
      replace (j - i)%nat with (S (j - i - 1)) in Hjx by lia. cbn [nth] in Hjx.
      rewrite <- Hjx. apply nth_In. rewrite El, app_length in Hj. cbn [length] in Hj. lia. }
    pose proof (Hin x l2 H) as H0. unfold piece in *. lia. }
  intros x l i j Hi Hj Hne Hxi Hxj.
  destruct (Nat.lt_ge_cases i j); [apply (Hlt x l i j); assumption | apply (Hlt x l j i); try assumption; lia].
Qed.

Lemma king_unique : forall p w s1 s2, WF p -> s1 < 64 -> s2 < 64 ->
  getPiece p s1 = mk_piece w King -> getPiece p s2 = mk_piece w King -> s1 = s2.
Proof.
  intros p w s1 s2 H H1 H2 E1 E2. destruct (WF_parts p H) as [Hl [_ [_ [_ Ha]]]].
  destruct (accepted_parts _ Ha) as [_ [_ [Hw [Hb _]]]]. cbn [abs sp_board] in Hw, Hb.
  destruct (N.eq_dec s1 s2) as [|Hne]; [assumption|]. exfalso.
  assert (Hc : (2 <= count_piece (squares p) (mk_piece w King))%nat).
  { apply (count_two _ _ (N.to_nat s1) (N.to_nat s2)); try (rewrite Hl; lia); try assumption. lia. }
  destruct w; cbn [mk_piece] in Hc; lia.
Qed.

Lemma king_exists : forall p w, WF p -> exists s, s < 64 /\ getPiece p s = mk_piece w King.
Proof.
  intros p w H. destruct (WF_parts p H) as [Hl [_ [_ [_ Ha]]]].
  destruct (accepted_parts _ Ha) as [_ [_ [Hw [Hb _]]]]. cbn [abs sp_board] in Hw, Hb.
  assert (Hc : count_piece (squares p) (mk_piece w King) = 1%nat) by (destruct w; assumption).
  unfold count_piece in Hc.
  destruct (filter (N.eqb (mk_piece w King)) (squares p)) as [|x l] eqn:E; [discriminate|].
  assert (Hin : In x (filter (N.eqb (mk_piece w King)) (squares p))) by (rewrite E; left; reflexivity).
  apply filter_In in Hin. destruct Hin as [Hin Hx]. apply N.eqb_eq in Hx. subst x.
  apply (In_nth _ _ EMPTY) in Hin. destruct Hin as [i [Hi Hn]].
  exists (N.of_nat i). split; [lia|]. unfold getPiece. rewrite Nat2N.id. exact Hn.
Qed.

Lemma kingSq_spec : forall p w, WF p ->
  kingSq p w < 64 /\ getPiece p (kingSq p w) = mk_piece w King.
Proof.
  intros p w H. unfold kingSq.
  assert (Emk : (if w then WKING else BKING) = mk_piece w King) by (destruct w; reflexivity). rewrite Emk.
  assert (Hpc : In (mk_piece w King) pieceCodes) by (destruct w; cbn; tauto).
  pose proof (ptBB_lt p _ H Hpc) as Hlt.
  destruct (king_exists p w H) as [s [Hs Hk]].
  assert (Hbit : N.testbit (ptBB p (mk_piece w King)) s = true).
  { rewrite (ptBB_testbit p _ s H Hpc). apply andb_true_iff. split; [apply N.ltb_lt; exact Hs | apply N.eqb_eq; exact Hk]. }
  assert (Hpos : 0 < ptBB p (mk_piece w King)).
  { apply N.neq_0_lt_0. intro E. rewrite E, N.bits_0 in Hbit. discriminate. }
  unfold firstSquare. rewrite (firstBitT_correct _ Hpos Hlt).
  pose proof (firstBit_testbit _ Hpos) as Hfb. rewrite (ptBB_testbit p _ _ H Hpc) in Hfb.
  apply andb_true_iff in Hfb. destruct Hfb as [Hf1 Hf2]. apply N.ltb_lt in Hf1. apply N.eqb_eq in Hf2. auto.
Qed.

Lemma kingSq_spec_B : forall p w, BoardOK p ->
  (exists s, s < 64 /\ getPiece p s = mk_piece w King) ->
  kingSq p w < 64 /\ getPiece p (kingSq p w) = mk_piece w King.
Proof.
  intros p w H [s [Hs Hk]]. unfold kingSq.
  assert (Emk : (if w then WKING else BKING) = mk_piece w King) by (destruct w; reflexivity). rewrite Emk.
  assert (Hpc : In (mk_piece w King) pieceCodes) by (destruct w; cbn; tauto).
  pose proof (BoardOK_ptBB_lt p _ H Hpc) as Hlt.
  assert (Hbit : N.testbit (ptBB p (mk_piece w King)) s = true).
  { rewrite (BoardOK_ptBB p _ s H Hpc). apply andb_true_iff. split; [apply N.ltb_lt; exact Hs | apply N.eqb_eq; exact Hk]. }
  assert (Hpos : 0 < ptBB p (mk_piece w King)).
  { apply N.neq_0_lt_0. intro E. rewrite E, N.bits_0 in Hbit. discriminate. }
  unfold firstSquare. rewrite (firstBitT_correct _ Hpos Hlt).
  pose proof (firstBit_testbit _ Hpos) as Hfb. rewrite (BoardOK_ptBB p _ _ H Hpc) in Hfb.
  apply andb_true_iff in Hfb. destruct Hfb as [Hf1 Hf2]. apply N.ltb_lt in Hf1. apply N.eqb_eq in Hf2. auto.
Qed.

Theorem kingBlock_spec : forall p m, WF p ->
  (In m (kingBlock (whiteMove p) p []) <->
   exists f r, on_board f r = true /\ at_ (squares p) f r = mk_piece (whiteMove p) King /\
               In m (step_moves (squares p) (whiteMove p) f r king_offsets)).
Proof.
  intros p m H. set (w := whiteMove p). unfold kingBlock. cbv zeta.
  destruct (kingSq_spec p w H) as [Hk64 Hkp].
  rewrite addMovesByMask_In by (apply ldiff_lt; apply kingAttacks_lt). cbn [In].
  split.
  - intros [[]|Ht]. destruct (coords_of_sq _ Hk64) as [Hob _].
    exists (zf (kingSq p w)), (zr (kingSq p w)). split; [exact Hob|]. split.
    + rewrite <- (getPiece_at p _ Hk64). exact Hkp.
    + apply (step_target_bridge p w kingAttacks king_offsets H kingAttacks_spec _ _ Hk64). exact Ht.
  - intros [f [r [Hob [Hat Hin]]]]. right. destruct (sq_of_coords f r Hob) as [Hs [Hf [Hr _]]].
    assert (Es : sq_of f r = kingSq p w).
    { apply (king_unique p w _ _ H Hs Hk64); [|exact Hkp]. rewrite <- (at_getPiece p f r Hob). exact Hat. }
    assert (Hin' : In m (step_moves (squares p) w (zf (kingSq p w)) (zr (kingSq p w)) king_offsets))
      by (rewrite <- Es, Hf, Hr; exact Hin).
    apply (step_target_bridge p w kingAttacks king_offsets H kingAttacks_spec _ _ Hk64) in Hin'. exact Hin'.
Qed.

Theorem step_blocks_spec : forall p m, WF p ->
  (In m (knightBlock (whiteMove p) p []) <->
   exists f r, on_board f r = true /\ at_ (squares p) f r = mk_piece (whiteMove p) Knight /\
               In m (step_moves (squares p) (whiteMove p) f r knight_offsets)) /\
  (In m (kingBlock (whiteMove p) p []) <->
   exists f r, on_board f r = true /\ at_ (squares p) f r = mk_piece (whiteMove p) King /\
               In m (step_moves (squares p) (whiteMove p) f r king_offsets)).
Proof. intros p m H. split; [apply knightBlock_spec | apply kingBlock_spec]; exact H. Qed.

(** non-vacuity: the start position's knight block has the four knight moves *)
Example start_knight_block :
  knightBlock true startPosition [] = [mkMove 1 16 EMPTY; mkMove 1 18 EMPTY; mkMove 6 21 EMPTY; mkMove 6 23 EMPTY].
Proof. vm_compute. reflexivity. Qed.
