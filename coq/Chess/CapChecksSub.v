(** pseudoLegalCapturesAndChecks generates pseudo-legal moves only: each of its blocks is the
    corresponding block of pseudoLegalMoves with a smaller target mask (and only queen / knight
    promotions). *)
From Coq Require Import ZArith NArith List Bool Lia.
From Texel Require Import Chess.Types Chess.Position Chess.BitBoard Chess.MoveGen Chess.Spec Chess.MoveGenWF
  Chess.BitBoardProofs Chess.RayProofs Chess.MoveGenProofs Chess.AttackProofs Chess.SliderProofs Chess.PawnProofs
  Chess.PseudoProofs Chess.NoDupProofs Chess.EvasionsIn gen.BitBoardTables.
Import ListNotations.
Local Open Scope N_scope.

(** addPawnMovesByMask with allPromotions = false *)
Definition promo2 (wtm : bool) (d : Z) (sq : square) : list move :=
  [mkMove (sqAdd sq d) sq (myPiece wtm WQUEEN); mkMove (sqAdd sq d) sq (myPiece wtm WKNIGHT)].
Definition pawnToF (wtm : bool) (mask : N) (d : Z) : list move :=
  flat_map (promo2 wtm d) (bitsOf (N.land mask maskRow1Row8)) ++ plainTo d (andn mask (N.land mask maskRow1Row8)).

Lemma addPawnMovesByMask_listF : forall wtm l mask d,
  addPawnMovesByMask wtm l mask d false = l ++ pawnToF wtm mask d.
Proof.
  intros. unfold addPawnMovesByMask, pawnToF, plainTo.
  destruct (N.eqb_spec mask 0) as [->|Hnz].
  - rewrite N.land_0_l. unfold andn. rewrite N.ldiff_0_l, bitsOf_0. cbn. rewrite app_nil_r. reflexivity.
  - rewrite (forSquares_flat move _ (fun sq => [mkMove (sqAdd sq d) sq EMPTY])) by (intros; reflexivity).
    rewrite (forSquares_flat move _ (promo2 wtm d)).
    + rewrite <- app_assoc. reflexivity.
    + intros acc x. unfold addMove, promo2. rewrite <- !app_assoc. reflexivity.
Qed.

Lemma pawnToF_sub : forall wtm mask mask' d m, mask < 2 ^ 64 ->
  (forall t, N.testbit mask' t = true -> N.testbit mask t = true) ->
  In m (pawnToF wtm mask' d) -> In m (pawnTo wtm mask d).
Proof.
  intros wtm mask mask' d m Hm Hsub Hin.
  assert (Hm' : mask' < 2 ^ 64) by (apply lt_2_64_of_bits; intros i Hi; apply (bits_below_64 _ Hm); apply Hsub; exact Hi).
  apply pawnTo_iff; [exact Hm|]. unfold pawnToF in Hin. apply in_app_iff in Hin. destruct Hin as [Hin|Hin].
  - apply in_flat_map in Hin. destruct Hin as [t [Ht Hin]]. apply bitsOf_In in Ht; [|apply land_lt_l; exact Hm'].
    rewrite N.land_spec in Ht. apply andb_true_iff in Ht. destruct Ht as [A B]. unfold promo2 in Hin. cbn [In] in Hin.
    destruct Hin as [<-|[<-|[]]]; cbn [mfrom mto mpromote]; (split; [apply Hsub; exact A|]); (split; [reflexivity|]);
      left; (split; [exact B|]); cbn [In]; auto.
  - apply plainTo_iff in Hin; [|apply ldiff_lt; exact Hm']. destruct Hin as (A & B & C). unfold andn in A.
    rewrite N.ldiff_spec, N.land_spec in A. apply andb_true_iff in A. destruct A as [A1 A2]. rewrite A1 in A2. cbn [andb] in A2.
    apply negb_true_iff in A2. split; [apply Hsub; exact A1|]. split; [exact B|]. right. auto.
Qed.

Lemma plainTo_sub : forall mask mask' d m, mask < 2 ^ 64 ->
  (forall t, N.testbit mask' t = true -> N.testbit mask t = true) ->
  In m (plainTo d mask') -> In m (plainTo d mask).
Proof.
  intros mask mask' d m Hm Hsub Hin.
  assert (Hm' : mask' < 2 ^ 64) by (apply lt_2_64_of_bits; intros i Hi; apply (bits_below_64 _ Hm); apply Hsub; exact Hi).
  apply plainTo_iff; [exact Hm|]. apply plainTo_iff in Hin; [|exact Hm']. destruct Hin as (A & B & C). auto.
Qed.

Lemma loopMoves_sub : forall bb (g g' : square -> N) m, bb < 2 ^ 64 -> (forall sq, sq < 64 -> g sq < 2 ^ 64) ->
  (forall sq t, sq < 64 -> N.testbit (g' sq) t = true -> N.testbit (g sq) t = true) ->
  In m (loopMoves bb g') -> In m (loopMoves bb g).
Proof.
  intros bb g g' m Hbb Hg Hsub Hin.
  assert (Hg' : forall sq, sq < 64 -> g' sq < 2 ^ 64).
  { intros sq Hs. apply lt_2_64_of_bits. intros i Hi. apply (bits_below_64 _ (Hg sq Hs)). apply Hsub; assumption. }
  apply loopMoves_iff; [exact Hbb | exact Hg|]. apply loopMoves_iff in Hin; [|exact Hbb | exact Hg'].
  destruct Hin as (A & B & C). split; [exact A|]. split; [exact B|]. apply Hsub; [exact (bits_below_64 _ Hbb _ A) | exact C].
Qed.

Lemma movesTo_sub : forall sq0 mask mask' m, mask < 2 ^ 64 ->
  (forall t, N.testbit mask' t = true -> N.testbit mask t = true) ->
  In m (movesTo sq0 mask') -> In m (movesTo sq0 mask).
Proof.
  intros sq0 mask mask' m Hm Hsub Hin.
  assert (Hm' : mask' < 2 ^ 64) by (apply lt_2_64_of_bits; intros i Hi; apply (bits_below_64 _ Hm); apply Hsub; exact Hi).
  apply movesTo_iff; [exact Hm|]. apply movesTo_iff in Hin; [|exact Hm']. destruct Hin as (A & B & C). auto.
Qed.

Definition discoveredOf (wtm : bool) (pos : position) : N :=
  let occupied := occupiedBB pos in
  let oKingSq := kingSq pos (negb wtm) in
  let kRookAtk := rookAttacks oKingSq occupied in
  let discovered :=
    if nz (N.land (rookAttacks oKingSq (andn occupied kRookAtk))
                  (N.lor (ptBB pos (myPiece wtm WQUEEN)) (ptBB pos (myPiece wtm WROOK))))
    then N.lor 0 kRookAtk else 0 in
  let kBishAtk := bishopAttacks oKingSq occupied in
  if nz (N.land (bishopAttacks oKingSq (andn occupied kBishAtk))
                (N.lor (ptBB pos (myPiece wtm WQUEEN)) (ptBB pos (myPiece wtm WBISHOP))))
  then N.lor discovered kBishAtk else discovered.

Lemma capChecksT_normal : forall w pos,
  pseudoLegalCapturesAndChecksT w pos =
  let occupied := occupiedBB pos in
  let own := colorBB pos w in
  let enemy := colorBB pos (negb w) in
  let oKingSq := kingSq pos (negb w) in
  let discovered := discoveredOf w pos in
  let kRookAtk := rookAttacks oKingSq occupied in
  let kBishAtk := bishopAttacks oKingSq occupied in
  let l := forSquares (ptBB pos (myPiece w WQUEEN)) (fun l sq =>
             addMovesByMask l sq
               (andn (if N.land discovered (bit sq) =? 0
                      then N.land (N.lor (rookAttacks sq occupied) (bishopAttacks sq occupied)) (N.lor (N.lor enemy kRookAtk) kBishAtk)
                      else N.lor (rookAttacks sq occupied) (bishopAttacks sq occupied)) own)) [] in
  let l := forSquares (ptBB pos (myPiece w WROOK)) (fun l sq =>
             addMovesByMask l sq
               (andn (if N.land discovered (bit sq) =? 0 then N.land (rookAttacks sq occupied) (N.lor enemy kRookAtk)
                      else rookAttacks sq occupied) own)) l in
  let l := forSquares (ptBB pos (myPiece w WBISHOP)) (fun l sq =>
             addMovesByMask l sq
               (andn (if N.land discovered (bit sq) =? 0 then N.land (bishopAttacks sq occupied) (N.lor enemy kBishAtk)
                      else bishopAttacks sq occupied) own)) l in
  let sq := kingSq pos w in
  let l := addMovesByMask l sq (if N.land discovered (bit sq) =? 0 then N.land (kingAttacks sq) enemy else andn (kingAttacks sq) own) in
  let l := castleMoves w pos occupied sq l in
  let kKnightAtk := knightAttacks oKingSq in
  let l := forSquares (ptBB pos (myPiece w WKNIGHT)) (fun l sq =>
             addMovesByMask l sq
               (if N.land discovered (bit sq) =? 0 then N.land (andn (knightAttacks sq) own) (N.lor enemy kKnightAtk)
                else andn (knightAttacks sq) own)) l in
  let pawns := ptBB pos (myPiece w WPAWN) in
  let eoe := N.lor enemy (epMaskOf pos) in
  let l := addPawnMovesByMask w l (N.land (N.land (fwd w pawns (if w then 7 else 9)) maskAToGFiles) eoe) (delta w (if w then 7 else 9)) false in
  let l := addPawnMovesByMask w l (N.land (N.land (fwd w pawns (if w then 9 else 7)) maskBToHFiles) eoe) (delta w (if w then 9 else 7)) false in
  let pawnAll := N.lor discovered (if w then maskRow7 else maskRow2) in
  let ma := andn (fwd w (N.land pawns pawnAll) 8) occupied in
  let l := addPawnMovesByMask w l ma (delta w 8) false in
  let l := addPawnDoubleMovesByMask l (andn (fwd w (N.land ma (if w then maskRow3 else maskRow6)) 8) occupied) (delta w 16) in
  let mb := andn (fwd w (andn pawns pawnAll) 8) occupied in
  let oka := if w then bPawnAttacks oKingSq else wPawnAttacks oKingSq in
  let l := addPawnMovesByMask w l (N.land mb oka) (delta w 8) false in
  addPawnDoubleMovesByMask l (N.land (andn (fwd w (N.land mb (if w then maskRow3 else maskRow6)) 8) occupied) oka) (delta w 16).
Proof.
  intros. destruct w; cbv beta iota zeta delta [pseudoLegalCapturesAndChecksT discoveredOf fwd delta myPiece negb]; reflexivity.
Qed.

Section CapChecks.
Variable p : position.
Hypothesis HWF : WF p.
Let w := whiteMove p.
Let occ := occupiedBB p.
Let own := colorBB p w.
Let enemy := colorBB p (negb w).
Let pawns := ptBB p (myPiece w WPAWN).
Let m1 := andn (fwd w pawns 8) occ.
Let m2 := andn (fwd w (N.land m1 (if w then maskRow3 else maskRow6)) 8) occ.

Lemma fwd_mono : forall x y k t, y < 2 ^ 64 -> (forall s, N.testbit x s = true -> N.testbit y s = true) ->
  N.testbit (fwd w x k) t = true -> N.testbit (fwd w y k) t = true.
Proof.
  intros x y k t Hy Hsub Hb.
  assert (Hx : x < 2 ^ 64) by (apply lt_2_64_of_bits; intros i Hi; apply (bits_below_64 _ Hy); apply Hsub; exact Hi).
  apply (fwd_testbit w x k t Hx) in Hb. apply (fwd_testbit w y k t Hy). destruct Hb as (A & B & C). auto.
Qed.

Lemma enemy_not_own : forall t, N.testbit enemy t = true -> N.testbit own t = false.
Proof.
  intros t H. unfold enemy, own in *. rewrite (colorBB_testbit p (negb w) t HWF) in H. rewrite (colorBB_testbit p w t HWF). apply andb_true_iff in H. destruct H as [-> H].
  cbn [andb]. unfold has_color in *. destruct (color_of (getPiece p t)) as [c|]; [|discriminate].
  unfold w in *. destruct c, (whiteMove p); cbn in *; congruence.
Qed.

Theorem capchecks_sub : forall m, In m (pseudoLegalCapturesAndChecks p) -> In m (pseudoLegalMoves p).
Proof.
  intros m Hin. unfold pseudoLegalCapturesAndChecks in Hin. fold w in Hin. rewrite capChecksT_normal in Hin. cbv zeta in Hin.
  fold occ own enemy pawns in Hin.
  destruct (bounds p HWF) as (Hp & H1 & H2 & H3 & H4 & HgQ & HgR & HgB & HgN).
  assert (Hbb : forall wp, In wp [2; 3; 4; 5] -> ptBB p (myPiece w wp) < 2 ^ 64).
  { intros wp Hwp. apply ptBB_lt; [exact HWF|]. apply myPiece_codes. cbn [In] in Hwp |- *. tauto. }
  assert (IQ : In WQUEEN [2; 3; 4; 5]) by (left; reflexivity).
  assert (IR : In WROOK [2; 3; 4; 5]) by (right; left; reflexivity).
  assert (IB : In WBISHOP [2; 3; 4; 5]) by (right; right; left; reflexivity).
  assert (IN : In WKNIGHT [2; 3; 4; 5]) by (right; right; right; left; reflexivity).
  set (disc := discoveredOf w p) in *. set (oks := kingSq p (negb w)) in *.
  rewrite !addPawnDoubleMovesByMask_list, !addPawnMovesByMask_listF in Hin.
  match type of Hin with context [forSquares _ (fun l sq => addMovesByMask l sq (@?g sq)) (castleMoves _ _ _ _ _)] =>
    rewrite (loop_list _ g) in Hin end.
  rewrite (castleMoves_list p) in Hin. rewrite addMovesByMask_list in Hin.
  match type of Hin with context [forSquares (ptBB p (myPiece w WBISHOP)) (fun l sq => addMovesByMask l sq (@?g sq)) _] =>
    rewrite (loop_list _ g) in Hin end.
  match type of Hin with context [forSquares (ptBB p (myPiece w WROOK)) (fun l sq => addMovesByMask l sq (@?g sq)) _] =>
    rewrite (loop_list _ g) in Hin end.
  match type of Hin with context [forSquares (ptBB p (myPiece w WQUEEN)) (fun l sq => addMovesByMask l sq (@?g sq)) _] =>
    rewrite (loop_list _ g) in Hin end.
  cbn [app] in Hin. rewrite pseudo_list.
  assert (Hm1sub : forall x t, (forall s, N.testbit x s = true -> N.testbit pawns s = true) ->
             N.testbit (andn (fwd w x 8) occ) t = true -> N.testbit m1 t = true).
  { intros x t Hx Hb. unfold m1, andn in *. rewrite N.ldiff_spec in *. apply andb_true_iff in Hb. destruct Hb as [A B].
    rewrite B, (fwd_mono x pawns 8 t Hp Hx A). reflexivity. }
  assert (Hm2sub : forall x t, (forall s, N.testbit x s = true -> N.testbit m1 s = true) ->
             N.testbit (andn (fwd w (N.land x (if w then maskRow3 else maskRow6)) 8) occ) t = true -> N.testbit m2 t = true).
  { intros x t Hx Hb. unfold m2, andn in *. rewrite N.ldiff_spec in *. apply andb_true_iff in Hb. destruct Hb as [A B].
    rewrite B, andb_true_r. apply (fwd_mono (N.land x (if w then maskRow3 else maskRow6)) _ 8 t); [apply land_lt_l; exact H1 | | exact A].
    intros s Hs. rewrite N.land_spec in *. apply andb_true_iff in Hs. destruct Hs as [Hs1 Hs2]. rewrite Hs2, (Hx s Hs1). reflexivity. }
  assert (HandP : forall x s, N.testbit (N.land pawns x) s = true -> N.testbit pawns s = true)
    by (intros x s Hs; rewrite N.land_spec in Hs; apply andb_true_iff in Hs; apply Hs).
  assert (HandnP : forall x s, N.testbit (andn pawns x) s = true -> N.testbit pawns s = true)
    by (intros x s Hs; unfold andn in Hs; rewrite N.ldiff_spec in Hs; apply andb_true_iff in Hs; apply Hs).
  rewrite !in_app_iff.
  apply in_app_or in Hin. destruct Hin as [Hin|Hin].
  2:{ do 7 right. left. unfold lP2. fold w occ pawns. fold m1. fold m2.
         refine (plainTo_sub m2 _ _ m H2 _ Hin). intros t Hb. rewrite N.land_spec in Hb. apply andb_true_iff in Hb. destruct Hb as [Hb _].
         apply (Hm2sub _ t (fun s Hs => Hm1sub _ s (HandnP _) Hs) Hb). }
  apply in_app_or in Hin. destruct Hin as [Hin|Hin].
  2:{ (* normal checks *) do 6 right. left. unfold lP1. fold w occ pawns. fold m1.
         refine (pawnToF_sub w m1 _ _ m H1 _ Hin). intros t Hb. rewrite N.land_spec in Hb. apply andb_true_iff in Hb. destruct Hb as [Hb _].
         apply (Hm1sub _ t (HandnP _) Hb). }
  apply in_app_or in Hin. destruct Hin as [Hin|Hin].
  2:{ do 7 right. left. unfold lP2. fold w occ pawns. fold m1. fold m2.
         refine (plainTo_sub m2 _ _ m H2 _ Hin). intros t Hb. apply (Hm2sub _ t (fun s Hs => Hm1sub _ s (HandP _) Hs) Hb). }
  apply in_app_or in Hin. destruct Hin as [Hin|Hin].
  2:{ (* pushes of discovered / 7th-rank pawns *) do 6 right. left. unfold lP1. fold w occ pawns. fold m1.
         refine (pawnToF_sub w m1 _ _ m H1 _ Hin). intros t Hb. apply (Hm1sub _ t (HandP _) Hb). }
  apply in_app_or in Hin. destruct Hin as [Hin|Hin].
  2:{ (* captures h *) do 9 right. unfold lP4. fold w occ pawns enemy. apply (pawnToF_sub w _ _ _ m H4 (fun t H => H) Hin). }
  apply in_app_or in Hin. destruct Hin as [Hin|Hin].
  2:{ (* captures a *) do 8 right. left. unfold lP3. fold w occ pawns enemy. apply (pawnToF_sub w _ _ _ m H3 (fun t H => H) Hin). }
  apply in_app_or in Hin. destruct Hin as [Hin|Hin].
  2:{ (* knight *) right. right. right. right. right. left. unfold lN. fold w. refine (loopMoves_sub _ (gN p) _ m (Hbb _ IN) HgN _ Hin).
         intros sq t Hs Hb. unfold gN. fold own. destruct (N.land disc (bit sq) =? 0); [rewrite N.land_spec in Hb; apply andb_true_iff in Hb; apply Hb | exact Hb]. }
  apply in_app_or in Hin. destruct Hin as [Hin|Hin].
  2:{ (* castling *) right. right. right. right. left. exact Hin. }
  apply in_app_or in Hin. destruct Hin as [Hin|Hin].
  2:{ (* king *) right. right. right. left. unfold lK. fold w own.
         refine (movesTo_sub _ (andn (kingAttacks (kingSq p w)) own) _ m (ldiff_lt _ _ _ (kingAttacks_lt _)) _ Hin).
         intros t Hb. destruct (N.land disc (bit (kingSq p w)) =? 0); [|exact Hb].
         rewrite N.land_spec in Hb. apply andb_true_iff in Hb. destruct Hb as [A B]. unfold andn. rewrite N.ldiff_spec, A, (enemy_not_own t B). reflexivity. }
  apply in_app_or in Hin. destruct Hin as [Hin|Hin].
  2:{ (* bishop *) right. right. left. unfold lB. fold w. refine (loopMoves_sub _ (gB p) _ m (Hbb _ IB) HgB _ Hin).
         intros sq t Hs Hb. unfold gB. fold occ own. unfold andn in *. rewrite N.ldiff_spec in *. apply andb_true_iff in Hb. destruct Hb as [A B].
         apply andb_true_iff. split; [|exact B]. destruct (N.land disc (bit sq) =? 0); [rewrite N.land_spec in A; apply andb_true_iff in A; apply A | exact A]. }
  apply in_app_or in Hin. destruct Hin as [Hin|Hin].
  2:{ (* rook *) right. left. unfold lR. fold w. refine (loopMoves_sub _ (gR p) _ m (Hbb _ IR) HgR _ Hin).
         intros sq t Hs Hb. unfold gR. fold occ own. unfold andn in *. rewrite N.ldiff_spec in *. apply andb_true_iff in Hb. destruct Hb as [A B].
         apply andb_true_iff. split; [|exact B]. destruct (N.land disc (bit sq) =? 0); [rewrite N.land_spec in A; apply andb_true_iff in A; apply A | exact A]. }
  (* queen *) left. unfold lQ. fold w. refine (loopMoves_sub _ (gQ p) _ m (Hbb _ IQ) HgQ _ Hin).
    intros sq t Hs Hb. unfold gQ. fold occ own. unfold andn in *. rewrite N.ldiff_spec in *. apply andb_true_iff in Hb. destruct Hb as [A B].
    apply andb_true_iff. split; [|exact B]. destruct (N.land disc (bit sq) =? 0); [rewrite N.land_spec in A; apply andb_true_iff in A; apply A | exact A].
Qed.
End CapChecks.
