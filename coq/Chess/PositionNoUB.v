(** C02: scalar fields after makeMove, integer ranges, king counts. *)
From Coq Require Import ZArith NArith List Bool Lia.
From Texel Require Import Chess.Types Chess.Position Chess.PositionSpec Chess.PositionFacts
  Chess.PositionProofs Chess.PositionProofs2 Chess.PositionProofs3 Chess.PositionProofs4
  Chess.PositionTheorems Chess.PositionB.
Import ListNotations.
Local Open Scope N_scope.

Section NoUB.
Variable zk : zkeys.
Hypothesis EKZ : emptyKeysZero zk.

Lemma scalars_setEp x e : scalars (setEpSquare zk x e) = (whiteMove x, halfMoveClock x, fullMoveCounter x, castleMask x, e).
Proof. unfold setEpSquare, scalars. destruct (Z.eqb_spec (epSquare x) e); simpl; congruence. Qed.
Lemma scalars_setCastle x c : scalars (setCastleMask zk x c) = (whiteMove x, halfMoveClock x, fullMoveCounter x, c, epSquare x).
Proof. unfold setCastleMask, scalars. destruct (N.eqb_spec c (castleMask x)); simpl; congruence. Qed.

(** the scalar fields of the position after makeMove *)
Definition madeScalarsOk (p : position) (m : move) (q : position) : Prop :=
  whiteMove q = negb (whiteMove p) /\
  (halfMoveClock q = 0%Z \/ halfMoveClock q = (halfMoveClock p + 1)%Z) /\
  fullMoveCounter q = (if whiteMove p then fullMoveCounter p else fullMoveCounter p + 1)%Z /\
  castleMask q = N.land (N.land (castleMask p) (castleSqMask (mfrom m))) (castleSqMask (mto m)) /\
  (epSquare q = (-1)%Z \/
   (epSquare q = sqPlus (mfrom m) 8 /\ Z.of_N (mto m) = sqPlus (mfrom m) 16) \/
   (epSquare q = sqPlus (mfrom m) (-8) /\ Z.of_N (mto m) = sqPlus (mfrom m) (-16))).

Lemma scalars_proj x a b c d e : scalars x = (a, b, c, d, e) ->
  whiteMove x = a /\ halfMoveClock x = b /\ fullMoveCounter x = c /\ castleMask x = d /\ epSquare x = e.
Proof. unfold scalars. intro H. inversion H. auto. Qed.

Lemma makeMove_scalars p m : madeScalarsOk p m (fst (makeMove zk p m)).
Proof.
  rewrite makeMove_fst.
  set (p2 := setEpSquare zk (set_hashKey p (N.lxor (hashKey p) (zk_white zk))) (-1)).
  assert (S2 : scalars p2 = (whiteMove p, halfMoveClock p, fullMoveCounter p, castleMask p, (-1)%Z))
    by (unfold p2; rewrite scalars_setEp; reflexivity).
  (* the branch: clock, e.p. square *)
  assert (B : exists h e, scalars (if negb (getPiece p (mto m) =? EMPTY) || pawnsAt p2 (sqMask (mfrom m))
                           then mmCaptureBranch zk p2 m (getPiece p (mfrom m)) (epSquare p)
                           else mmQuietBranch zk p2 m (sqMask (mfrom m))) =
                     (whiteMove p, h, fullMoveCounter p, castleMask p, e) /\
                     (h = 0%Z \/ h = (halfMoveClock p + 1)%Z) /\
                     (e = (-1)%Z \/ (e = sqPlus (mfrom m) 8 /\ Z.of_N (mto m) = sqPlus (mfrom m) 16) \/
                      (e = sqPlus (mfrom m) (-8) /\ Z.of_N (mto m) = sqPlus (mfrom m) (-16)))).
  { destruct (negb (getPiece p (mto m) =? EMPTY) || pawnsAt p2 (sqMask (mfrom m))).
    - unfold mmCaptureBranch, mmEpBlock. cbv zeta. rewrite scalars_setPiece, scalars_clearPiece.
      assert (S3 : scalars (set_halfMoveClock p2 0) = (whiteMove p, 0%Z, fullMoveCounter p, castleMask p, (-1)%Z)).
      { destruct (scalars_proj _ _ _ _ _ _ S2) as (A1 & A2 & A3 & A4 & A5). unfold scalars. cbn. congruence. }
      set (p3 := set_halfMoveClock p2 0) in *.
      destruct (scalars_proj _ _ _ _ _ _ S3) as (A1 & A2 & A3 & A4 & A5).
      destruct (getPiece p (mfrom m) =? WPAWN).
      + destruct (Z.eqb_spec (Z.of_N (mto m)) (sqPlus (mfrom m) 16)).
        * match goal with |- context [if negb ?c then _ else _] => destruct (negb c) end.
          -- rewrite scalars_setEp, A1, A2, A3, A4. do 2 eexists. split; [reflexivity|]. auto.
          -- rewrite S3. do 2 eexists. split; [reflexivity|]. auto.
        * destruct (Z.of_N (mto m) =? epSquare p)%Z; rewrite ?scalars_clearPiece, S3; do 2 eexists; (split; [reflexivity|]); auto.
      + destruct (getPiece p (mfrom m) =? BPAWN).
        * destruct (Z.eqb_spec (Z.of_N (mto m)) (sqPlus (mfrom m) (-16))).
          -- match goal with |- context [if negb ?c then _ else _] => destruct (negb c) end.
             ++ rewrite scalars_setEp, A1, A2, A3, A4. do 2 eexists. split; [reflexivity|]. auto.
             ++ rewrite S3. do 2 eexists. split; [reflexivity|]. auto.
          -- destruct (Z.of_N (mto m) =? epSquare p)%Z; rewrite ?scalars_clearPiece, S3; do 2 eexists; (split; [reflexivity|]); auto.
        * rewrite S3. do 2 eexists. split; [reflexivity|]. auto.
    - unfold mmQuietBranch, mmCastleBlock. cbv zeta. rewrite scalars_movePieceNotPawn.
      destruct (scalars_proj _ _ _ _ _ _ S2) as (A1 & A2 & A3 & A4 & A5).
      assert (S3 : scalars (set_halfMoveClock p2 (halfMoveClock p2 + 1)) =
                   (whiteMove p, (halfMoveClock p + 1)%Z, fullMoveCounter p, castleMask p, (-1)%Z)).
      { unfold scalars. cbn. congruence. }
      set (p3 := set_halfMoveClock p2 (halfMoveClock p2 + 1)) in *.
      destruct (kingsAt p3 (sqMask (mfrom m))).
      + destruct (Z.of_N (mto m) =? sqPlus (mfrom m) 2)%Z; [rewrite scalars_movePieceNotPawn, S3; do 2 eexists; (split; [reflexivity|]); auto|].
        destruct (Z.of_N (mto m) =? sqPlus (mfrom m) (-2))%Z; rewrite ?scalars_movePieceNotPawn, S3; do 2 eexists; (split; [reflexivity|]); auto.
      + rewrite S3. do 2 eexists. split; [reflexivity|]. auto. }
  destruct B as (h & e & SB & Hh & He).
  match type of SB with scalars ?t = _ => set (x := t) in * end.
  destruct (scalars_proj _ _ _ _ _ _ SB) as (A1 & A2 & A3 & A4 & A5).
  unfold mmEpilogue. cbv zeta.
  set (y := setCastleMask zk x (N.land (N.land (castleMask x) (castleSqMask (mfrom m))) (castleSqMask (mto m)))).
  assert (SY : scalars y = (whiteMove p, h, fullMoveCounter p,
                            N.land (N.land (castleMask p) (castleSqMask (mfrom m))) (castleSqMask (mto m)), e)).
  { unfold y. rewrite scalars_setCastle, A1, A2, A3, A4, A5. reflexivity. }
  destruct (scalars_proj _ _ _ _ _ _ SY) as (B1 & B2 & B3 & B4 & B5).
  unfold madeScalarsOk.
  destruct (whiteMove p); cbn [negb]; cbn [whiteMove halfMoveClock fullMoveCounter castleMask epSquare set_whiteMove set_fullMoveCounter];
    rewrite ?B2, ?B3, ?B4, ?B5; repeat split; auto.
Qed.


Lemma pieceValue_bounds pc : (0 <= pieceValue pc <= 9900)%Z.
Proof.
  unfold pieceValue, pieceValueTbl, kV, qV, rV, bV, nV, pV. generalize (N.to_nat pc). intro n.
  do 13 (destruct n as [|n]; [simpl; lia|]). destruct n; simpl; lia.
Qed.

Lemma mtrlOf_bounds f sqs : (0 <= mtrlOf f sqs <= 9900 * Z.of_nat (length sqs))%Z.
Proof.
  unfold mtrlOf. induction sqs as [|pc t IH]; [simpl; lia|].
  cbn [map sumZ fold_right length]. fold (sumZ (map (fun pc0 : piece => if f pc0 then pieceValue pc0 else 0%Z) t)).
  pose proof (pieceValue_bounds pc). destruct (f pc); lia.
Qed.

Lemma consistent_material_fits p : Consistent zk p ->
  fitsInt (wMtrl p) = true /\ fitsInt (bMtrl p) = true /\ fitsInt (wMtrlPawns p) = true /\ fitsInt (bMtrlPawns p) = true.
Proof.
  intro C. destruct C.
  pose proof (mtrlOf_bounds isWhitePiece (squares p)). pose proof (mtrlOf_bounds isBlackPiece (squares p)).
  pose proof (mtrlOf_bounds (N.eqb WPAWN) (squares p)). pose proof (mtrlOf_bounds (N.eqb BPAWN) (squares p)).
  rewrite c_len in *. unfold fitsInt, INT_MIN, INT_MAX, kV in *.
  rewrite c_wMtrl, c_bMtrl, c_wMtrlPawns, c_bMtrlPawns.
  repeat split; apply andb_true_intro; split; apply Z.leb_le; unfold kV; lia.
Qed.

Lemma land_lt16 a b : b < 16 -> N.land a b < 16.
Proof.
  intro Hb. destruct (N.eq_dec (N.land a b) 0) as [->|Hn]; [reflexivity|].
  apply N.log2_lt_pow2 with (b := 4); [lia|].
  destruct (N.eq_dec b 0) as [->|Hb0]; [rewrite N.land_0_r in Hn; contradiction|].
  eapply N.le_lt_trans; [apply N.log2_land|]. apply N.min_lt_iff. right. apply N.log2_lt_pow2; [lia|exact Hb].
Qed.

Lemma castleSqMask_lt16 s : castleSqMask s < 16.
Proof. unfold castleSqMask. repeat match goal with |- context [if ?b then _ else _] => destruct b end; reflexivity. Qed.

(** no undefined behaviour in makeMove: every [int] of the result fits (given that the material
    identifier does, which is C02_matid_range), every table index is in range *)
Theorem makeMove_no_ub p m :
  Consistent zk p -> moveOk p m = true -> epInb (epSquare p) = true -> intsFit p = true ->
  (halfMoveClock p < INT_MAX)%Z -> (fullMoveCounter p < INT_MAX)%Z ->
  let q := fst (makeMove zk p m) in
  fitsInt (matId q) = true ->
  intsFit q = true /\ epInb (epSquare q) = true /\ castleMask q < 16 /\
  Forall (fun pc => pc < 13) (squares q) /\ length (squares q) = 64%nat /\ length (pieceTypeBB q) = 13%nat /\
  mfrom m < 64 /\ mto m < 64.
Proof.
  intros C Hok Hep Hints Hh Hf q Hmat.
  pose proof (makeMove_consistent zk EKZ p m C Hok) as Cq. fold q in Cq.
  pose proof (makeMove_scalars p m) as S. fold q in S. destruct S as (S1 & S2 & S3 & S4 & S5).
  pose proof (moveOk_facts p m Hok) as F. cbv zeta in F. destruct F as (Hfm & Htm & _).
  destruct (consistent_material_fits q Cq) as (M1 & M2 & M3 & M4).
  unfold intsFit, positionInts in Hints. cbn [forallb] in Hints.
  apply andb_prop in Hints as [I1 Hints]. apply andb_prop in Hints as [I2 _].
  unfold fitsInt, INT_MIN, INT_MAX in I1, I2, Hh, Hf.
  apply andb_prop in I1 as [I1a I1b]. apply andb_prop in I2 as [I2a I2b].
  apply Z.leb_le in I1a, I1b, I2a, I2b.
  split; [|split; [|split; [|split; [|split; [|split]]]]].
  - unfold intsFit, positionInts. cbn [forallb]. rewrite Hmat, M1, M2, M3, M4.
    assert (fitsInt (halfMoveClock q) = true).
    { unfold fitsInt, INT_MIN, INT_MAX. apply andb_true_intro. split; apply Z.leb_le; destruct S2 as [->| ->]; lia. }
    assert (fitsInt (fullMoveCounter q) = true).
    { unfold fitsInt, INT_MIN, INT_MAX. apply andb_true_intro. rewrite S3. split; apply Z.leb_le; destruct (whiteMove p); lia. }
    rewrite H, H0. reflexivity.
  - unfold epInb. apply andb_true_intro.
    destruct S5 as [->|[(-> & E)|(-> & E)]]; unfold sqPlus in *; split; try apply Z.leb_le; try apply Z.ltb_lt; lia.
  - rewrite S4. apply land_lt16. apply castleSqMask_lt16.
  - destruct Cq; auto.
  - destruct Cq; auto.
  - destruct Cq; auto.
  - auto.
Qed.

End NoUB.
