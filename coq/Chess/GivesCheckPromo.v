(** MoveGen::givesCheck, promotion branch: for a legal promotion (with or without capture)
    givesCheck's verdict is the Spec's.  The Spec side generalises g_spec_iff to a landing
    piece different from the moved piece: the promoted piece checks from the target square,
    where the pawn's own from-square no longer blocks (the line through the vacated square:
    third block of givesCheck); discovered checks through the from-square are the generic
    second block (c_r2). *)
From Coq Require Import ZArith NArith List Bool Lia.
From Texel Require Import Chess.Types Chess.Position Chess.PositionSpec Chess.PositionFacts Chess.PositionProofs
  Chess.PositionProofs2 Chess.PositionProofs4 Chess.PositionTheorems Chess.PositionB
  Chess.BitBoard Chess.MoveGen Chess.Spec Chess.MoveGenWF
  Chess.BitBoardProofs Chess.RayProofs Chess.MoveGenProofs Chess.AttackProofs Chess.SliderProofs Chess.PawnProofs
  Chess.PseudoProofs Chess.MakeSpecProofs Chess.TryMoveProofs Chess.CastleProofs Chess.LegalProofs Chess.ShortcutProofs
  Chess.IsLegalProofs Chess.CapturesProofs Chess.NoDupProofs Chess.WfProofs Chess.IsLegalFull Chess.EvasionsIn Chess.IsLegalAll
  Chess.RemoveIllegalIndep Chess.EvasionsComplete Chess.GivesCheckProofs Chess.GivesCheckCommon gen.BitBoardTables.
Import ListNotations.
Local Open Scope N_scope.

(** * The engine side: first and third block with the promoted piece *)
Definition gcP1 (pos : position) (m : move) : bool :=
  let wtm := whiteMove pos in
  let oKingSq := kingSq pos (negb wtm) in
  let oKing := if wtm then BKING else WKING in
  let p := makeWhite (mpromote m) in
  let d1 := getDirection (mto m) oKingSq in
  if isRookDir d1 then
    if (p =? WQUEEN) || (p =? WROOK) then
      if negb (d1 =? 0)%Z then nextPiece pos (mto m) d1 =? oKing else false
    else false
  else if isBishopDir d1 then
    if (p =? WQUEEN) || (p =? WBISHOP) then
      if negb (d1 =? 0)%Z then nextPiece pos (mto m) d1 =? oKing else false
    else if p =? WPAWN then
      if Bool.eqb (0 <? d1)%Z wtm then getPiece pos (sqAdd (mto m) d1) =? oKing else false
    else false
  else
    if negb (d1 =? 0)%Z then p =? WKNIGHT else false.

Definition gcP3 (pos : position) (m : move) : bool :=
  let wtm := whiteMove pos in
  let oKingSq := kingSq pos (negb wtm) in
  let oKing := if wtm then BKING else WKING in
  let p := makeWhite (mpromote m) in
  let d1 := getDirection (mto m) oKingSq in
  let d2 := getDirection (mfrom m) oKingSq in
  if negb (d1 =? 0)%Z && (d1 =? d2)%Z then
    if isRookDir d1 then
      if (p =? WQUEEN) || (p =? WROOK) then nextPiece pos (mfrom m) d1 =? oKing else false
    else if isBishopDir d1 then
      if (p =? WQUEEN) || (p =? WBISHOP) then nextPiece pos (mfrom m) d1 =? oKing else false
    else false
  else false.

Lemma givesCheck_promo : forall pos m, (mpromote m =? EMPTY) = false ->
  (makeWhite (mpromote m) =? WKING) = false -> (makeWhite (mpromote m) =? WPAWN) = false ->
  givesCheck pos m = gcP1 pos m || gcR2 pos m || gcP3 pos m.
Proof.
  intros pos m Hp HK HP. unfold givesCheck, gcP1, gcR2, gcP3. cbv zeta. rewrite Hp. cbv iota. cbn [negb andb].
  set (P := makeWhite (mpromote m)) in *.
  match goal with |- (if ?a then true else _) = _ => destruct a end; [reflexivity|].
  match goal with |- (if ?a then true else _) = _ => destruct a end; [reflexivity|].
  match goal with |- (if ?a then true else _) = _ => destruct a end; [reflexivity|].
  rewrite HK, HP. reflexivity.
Qed.

Section Promo.
Variable p : position.
Hypothesis HWF : WF p.
Variable m : move.
Hypothesis Hleg : legal_spec (abs p) m.
Hypothesis Hpro : mpromote m <> EMPTY.
Let w := whiteMove p.
Let oks := kingSq p (negb w).
Let occ := occupiedBB p.
Let q := fst (makeMove zkDummy p m).

(** the board after the promotion *)
Lemma p_q : forall s, getPiece q s = if s =? mto m then mpromote m else if s =? mfrom m then EMPTY else getPiece p s.
Proof.
  intro s. destruct (g_move p HWF m Hleg) as (Hf & Ht & _).
  destruct (c_promo p HWF m Hleg Hpro) as (_ & Hep & HcK & HcQ & _).
  unfold q. rewrite (q_get zkDummy p HWF m Hleg), (b'_form zkDummy p HWF m Hleg). cbv zeta. rewrite HcK, HcQ, Hep.
  unfold landing. replace (mpromote m =? EMPTY) with false by (symmetry; apply N.eqb_neq; exact Hpro).
  destruct (WF_parts p HWF) as [Hl _].
  destruct (N.eqb_spec s (mto m)) as [->|N1]; [apply nth_updN_eq; rewrite length_updN; lia|].
  rewrite nth_updN_neq by auto.
  destruct (N.eqb_spec s (mfrom m)) as [->|N2]; [apply nth_updN_eq; lia|].
  rewrite nth_updN_neq by auto. reflexivity.
Qed.

Lemma p_occq : forall s, s < 64 -> N.testbit (occupiedBB q) s = if s =? mto m then true else if s =? mfrom m then false else N.testbit occ s.
Proof.
  intros s Hs. destruct (c_promo p HWF m Hleg Hpro) as (_ & _ & _ & _ & X & HX & EX).
  rewrite (c_occ q s (gHBq p HWF m Hleg) Hs), p_q.
  destruct (N.eqb_spec s (mto m)) as [->|N1].
  - apply negb_true_iff, N.eqb_neq. rewrite EX. apply myPiece_own. cbn [In] in HX |- *. tauto.
  - destruct (N.eqb_spec s (mfrom m)) as [->|N2]; [reflexivity|]. symmetry. apply (c_occ p s (gHBp p HWF) Hs).
Qed.

(** squares that matter for a slider on the target square: all but the vacated from-square *)
Definition clearX (S : N) : Prop := forall x, N.testbit S x = true -> x <> mfrom m -> N.testbit occ x = false.

Definition PDirect : Prop :=
  let pc := mpromote m in let t := mto m in
  (pc = myPiece w WKNIGHT /\ N.testbit (knightAttacks oks) t = true) \/
  ((pc = myPiece w WBISHOP \/ pc = myPiece w WQUEEN) /\ bishopAligned oks t = true /\ clearX (SB oks t)) \/
  ((pc = myPiece w WROOK \/ pc = myPiece w WQUEEN) /\ rookAligned oks t = true /\ clearX (SB oks t)).

Lemma p_clear_q : forall y, y < 64 -> (N.land (SB oks y) (occupiedBB q) = 0 <->
  N.testbit (SB oks y) (mto m) = false /\ clearX (SB oks y)).
Proof.
  intros y Hy. destruct (c_oks p HWF m Hleg) as (Hk & _). fold w oks in Hk.
  rewrite land_zero_iff. split.
  - intro H. split.
    + destruct (N.testbit (SB oks y) (mto m)) eqn:E; [|reflexivity]. pose proof (H _ E) as H'.
      rewrite p_occq, N.eqb_refl in H' by (apply (g_move p HWF m Hleg)). discriminate.
    + intros x Hx Nx. pose proof (H x Hx) as H'. rewrite p_occq in H' by (apply (SB_lt64 oks y x Hk Hy Hx)).
      destruct (N.eqb_spec x (mto m)); [discriminate|]. destruct (N.eqb_spec x (mfrom m)); [contradiction | exact H'].
  - intros [Ht Hc] x Hx. rewrite p_occq by (apply (SB_lt64 oks y x Hk Hy Hx)).
    destruct (N.eqb_spec x (mto m)) as [->|N1]; [congruence|].
    destruct (N.eqb_spec x (mfrom m)) as [->|N2]; [reflexivity | apply Hc; assumption].
Qed.

(** Spec side (g_spec_iff generalised to a landing piece different from the moved piece) *)
Theorem p_spec_iff : gives_check_spec (abs p) m = true <-> PDirect \/ DiscP p m.
Proof.
  rewrite (c_spec_iff p HWF m Hleg). fold w oks q.
  destruct (c_oks p HWF m Hleg) as (Hk & Hkp & Nkf & Nkt & HkQ). fold w oks q in Hk, Hkp, Nkf, Nkt, HkQ.
  destruct (g_move p HWF m Hleg) as (Hf & Ht & Hne & Hown & Hcapn). fold w in Hown, Hcapn.
  destruct (c_promo p HWF m Hleg Hpro) as (Epc & _ & _ & _ & X & HX & EX). fold w in Epc, EX.
  assert (HX6 : In X [1; 2; 3; 4; 5; 6]) by (cbn [In] in HX |- *; tauto).
  assert (I1 : In WKING [1; 2; 3; 4; 5; 6]) by (cbn; tauto). assert (I2 : In WQUEEN [1; 2; 3; 4; 5; 6]) by (cbn; tauto).
  assert (I3 : In WROOK [1; 2; 3; 4; 5; 6]) by (cbn; tauto). assert (I4 : In WBISHOP [1; 2; 3; 4; 5; 6]) by (cbn; tauto).
  assert (I5 : In WKNIGHT [1; 2; 3; 4; 5; 6]) by (cbn; tauto). assert (I6 : In WPAWN [1; 2; 3; 4; 5; 6]) by (cbn; tauto).
  assert (Hto_nb : N.testbit (SB oks (mto m)) (mto m) = false) by (destruct (G0 oks (mto m) Hk Ht) as (_ & A & _); exact A).
  split.
  - intros [y [Hy Hatt]]. unfold AttBy in Hatt. fold q in Hatt.
    destruct (N.eq_dec y (mto m)) as [Ey|Nyt].
    + (* the promoted piece *)
      subst y. rewrite p_q, N.eqb_refl in Hatt. left. unfold PDirect. cbv zeta.
      destruct Hatt as [[E A]|[[E A]|[[E A]|[[E [Hal Hz]]|[E [Hal Hz]]]]]].
      * left. auto.
      * exfalso. rewrite EX in E. apply (myPiece_inj w X _ HX6 I1) in E. subst X. cbn in HX. unfold WKING in HX. intuition discriminate.
      * exfalso. rewrite EX in E. apply (myPiece_inj w X _ HX6 I6) in E. subst X. cbn in HX. unfold WPAWN in HX. intuition discriminate.
      * right. left. split; [exact E|]. split; [exact Hal|]. apply (p_clear_q _ Ht). exact Hz.
      * right. right. split; [exact E|]. split; [exact Hal|]. apply (p_clear_q _ Ht). exact Hz.
    + destruct (N.eq_dec y (mfrom m)) as [Ey|Nyf].
      * exfalso. subst y. rewrite p_q in Hatt. replace (mfrom m =? mto m) with false in Hatt by (symmetry; apply N.eqb_neq; exact Hne).
        rewrite N.eqb_refl in Hatt.
        assert (HE : forall Y, In Y [1; 2; 3; 4; 5; 6] -> EMPTY = myPiece w Y -> False) by (intros Y HY E; symmetry in E; revert E; apply myPiece_own; exact HY).
        destruct Hatt as [[E A]|[[E A]|[[E A]|[[[E|E] _]|[[E|E] _]]]]]; eapply HE; try exact E; assumption.
      * (* an old piece: a slider whose line was opened *)
        assert (Eq : getPiece q y = getPiece p y).
        { rewrite p_q. replace (y =? mto m) with false by (symmetry; apply N.eqb_neq; exact Nyt).
          replace (y =? mfrom m) with false by (symmetry; apply N.eqb_neq; exact Nyf). reflexivity. }
        rewrite Eq in Hatt. right.
        assert (Hsl : forall (isR : bool),
                  (if isR then rookAligned oks y = true /\ (getPiece p y = myPiece w WROOK \/ getPiece p y = myPiece w WQUEEN)
                   else bishopAligned oks y = true /\ (getPiece p y = myPiece w WBISHOP \/ getPiece p y = myPiece w WQUEEN)) ->
                  N.land (SB oks y) (occupiedBB q) = 0 -> DiscP p m).
        { intros isR Hal Hz. apply (p_clear_q y Hy) in Hz. destruct Hz as [Hbt Hcl].
          assert (Hbf : N.testbit (SB oks y) (mfrom m) = true).
          { destruct (N.testbit (SB oks y) (mfrom m)) eqn:E; [reflexivity|]. exfalso.
            assert (Hz' : N.land (SB oks y) occ = 0).
            { apply land_zero_iff. intros x Hx. apply Hcl; [exact Hx | intro Ex; subst x; congruence]. }
            apply (c_before p HWF m Hleg y). fold w oks. split; [exact Hy|]. fold occ.
            destruct isR; destruct Hal as [Hal Hpc]; [right; right; right; right | right; right; right; left]; split; auto. }
          exists y. fold w oks occ. split; [exact Hy|]. split; [exact Nyt|]. split; [exact Nyf|]. split; [exact Hbf|]. split; [exact Hbt|].
          split; [exact Hcl|].
          destruct isR; destruct Hal as [Hal Hpc]; [left | right]; (split; [exact Hal|]);
            (destruct Hpc as [E|E]; [left | right]); apply (c_mine p HWF); auto. }
        destruct Hatt as [[E A]|[[E A]|[[E A]|[[E [Hal Hz]]|[E [Hal Hz]]]]]].
        -- exfalso. apply (c_before p HWF m Hleg y). fold w oks. split; [exact Hy|]. left. auto.
        -- exfalso. apply (c_before p HWF m Hleg y). fold w oks. split; [exact Hy|]. right. left. auto.
        -- exfalso. apply (c_before p HWF m Hleg y). fold w oks. split; [exact Hy|]. right. right. left. auto.
        -- apply (Hsl false); auto.
        -- apply (Hsl true); auto.
  - intros [Hd|(y & Hy & N1 & N2 & Hbf & Hbt & Hall & Hs)].
    + exists (mto m). split; [exact Ht|]. fold q. rewrite p_q, N.eqb_refl. unfold PDirect in Hd. cbv zeta in Hd.
      destruct Hd as [[E A]|[[E [Hal Hc]]|[E [Hal Hc]]]].
      * left. auto.
      * right. right. right. left. split; [exact E|]. split; [exact Hal|]. apply (p_clear_q _ Ht). auto.
      * right. right. right. right. split; [exact E|]. split; [exact Hal|]. apply (p_clear_q _ Ht). auto.
    + fold w oks occ in Hbf, Hbt, Hall, Hs. exists y. split; [exact Hy|]. fold q.
      assert (Eq : getPiece q y = getPiece p y).
      { rewrite p_q. replace (y =? mto m) with false by (symmetry; apply N.eqb_neq; exact N1).
        replace (y =? mfrom m) with false by (symmetry; apply N.eqb_neq; exact N2). reflexivity. }
      rewrite Eq.
      assert (Hz : N.land (SB oks y) (occupiedBB q) = 0) by (apply (p_clear_q y Hy); split; [exact Hbt | exact Hall]).
      destruct Hs as [[Hal Hm]|[Hal Hm]].
      * right. right. right. right. split; [|auto].
        destruct Hm as [Hm|Hm]; [left; apply (c_mine p HWF _ _ I3) in Hm | right; apply (c_mine p HWF _ _ I2) in Hm]; apply Hm.
      * right. right. right. left. split; [|auto].
        destruct Hm as [Hm|Hm]; [left; apply (c_mine p HWF _ _ I4) in Hm | right; apply (c_mine p HWF _ _ I2) in Hm]; apply Hm.
Qed.

(** the target square is clear towards the king, apart from the vacated from-square, iff
    the walk from the target reaches the king (first block) or the from-square lies on that
    line and the walk from it reaches the king (third block) *)
Lemma p_clearX : rayDir (getDirection (mto m) oks) = true ->
  (clearX (SB oks (mto m)) <->
   N.land (SB (mto m) oks) occ = 0 \/
   (getDirection (mto m) oks = getDirection (mfrom m) oks /\ N.land (SB (mfrom m) oks) occ = 0)).
Proof.
  intro Hr. destruct (c_oks p HWF m Hleg) as (Hk & Hkp & Nkf & Nkt & _). fold w oks in Hk, Hkp, Nkf, Nkt.
  destruct (g_move p HWF m Hleg) as (Hf & Ht & Hne & _).
  set (f := mfrom m) in *. set (t := mto m) in *.
  destruct (G0 t oks Ht Hk) as (_ & _ & Est & _). destruct (G0 f oks Hf Hk) as (_ & _ & Esf & _).
  rewrite <- Est, <- Esf.
  pose proof (path_clear p HWF m (gHm p HWF m Hleg)) as Hpc. fold f t occ in Hpc.
  split.
  - intro Hc. destruct (N.testbit (SB oks t) f) eqn:Ef.
    + right. split; [symmetry; apply (H1 t oks f Ht Hk Hf); rewrite <- Est; exact Ef|].
      destruct (H3 oks t f Hk Ht Hf Ef) as (E1 & _). apply land_zero_iff. intros x Hx. apply Hc.
      * rewrite E1, !N.lor_spec, Hx. reflexivity.
      * intro E. rewrite E in Hx. destruct (G0 oks f Hk Hf) as (_ & A & _). fold f in Hx. rewrite A in Hx. discriminate.
    + left. apply land_zero_iff. intros x Hx. apply Hc; [exact Hx | intro E; rewrite E in Hx; fold f in Hx; congruence].
  - intros [Hz|[Ed Hz]] x Hx Nx; [rewrite land_zero_iff in Hz; apply Hz; exact Hx|].
    destruct (D1 t oks Ht Hk) as (DR & DB & _ & _ & Dn). destruct (D1 f oks Hf Hk) as (_ & _ & _ & _ & Dnf).
    assert (Hal : rookAligned oks t || bishopAligned oks t = true).
    { destruct (G0 t oks Ht Hk) as (_ & _ & _ & SR & SBs). rewrite <- SR, <- SBs, <- DR, <- DB. exact Hr. }
    destruct (N.testbit (SB oks t) f) eqn:Ef.
    + destruct (H3 oks t f Hk Ht Hf Ef) as (E1 & _). rewrite E1, !N.lor_spec, bit_testbit in Hx.
      apply orb_true_iff in Hx. destruct Hx as [Hx|Hx]; [apply orb_true_iff in Hx; destruct Hx as [Hx|Hx]|].
      * rewrite land_zero_iff in Hz. apply Hz. exact Hx.
      * apply N.eqb_eq in Hx. exfalso. apply Nx. symmetry. exact Hx.
      * rewrite land_zero_iff in Hpc. apply Hpc. exact Hx.
    + assert (Hdir : getDirection oks f = getDirection oks t) by (rewrite Dn, Dnf, Ed; reflexivity).
      pose proof (G2 oks t f Hk Ht Hf Hal Hdir Hne Ef) as Htb.
      destruct (H3 oks f t Hk Hf Ht Htb) as (E1 & _). rewrite land_zero_iff in Hz. apply Hz.
      rewrite E1, !N.lor_spec, Hx. reflexivity.
Qed.

Theorem p_r13 : gcP1 p m || gcP3 p m = true <-> PDirect.
Proof.
  destruct (c_oks p HWF m Hleg) as (Hk & Hkp & _). fold w oks in Hk, Hkp.
  destruct (g_move p HWF m Hleg) as (Hf & Ht & Hne & _).
  destruct (c_promo p HWF m Hleg Hpro) as (Epc & _ & _ & _ & X & HX & EX). fold w in Epc, EX.
  assert (HX6 : In X [1; 2; 3; 4; 5; 6]) by (cbn [In] in HX |- *; tauto).
  unfold gcP1, gcP3, PDirect. cbv zeta. rewrite (c_oKing p). fold w oks occ. rewrite EX, (makeWhite_my w X HX6).
  set (t := mto m) in *. set (f := mfrom m) in *. set (d1 := getDirection t oks). set (d2 := getDirection f oks).
  destruct (D1 t oks Ht Hk) as (ER & EB & EN & _ & _). fold d1 in ER, EB, EN.
  destruct (G0 t oks Ht Hk) as (_ & _ & _ & SR & SBs). rewrite <- ER in SR. rewrite <- EB in SBs.
  rewrite <- SR, <- SBs, <- EN.
  assert (I1 : In WKING [1; 2; 3; 4; 5; 6]) by (cbn; tauto). assert (I2 : In WQUEEN [1; 2; 3; 4; 5; 6]) by (cbn; tauto).
  assert (I3 : In WROOK [1; 2; 3; 4; 5; 6]) by (cbn; tauto). assert (I4 : In WBISHOP [1; 2; 3; 4; 5; 6]) by (cbn; tauto).
  assert (I5 : In WKNIGHT [1; 2; 3; 4; 5; 6]) by (cbn; tauto). assert (I6 : In WPAWN [1; 2; 3; 4; 5; 6]) by (cbn; tauto).
  rewrite !(myPiece_inj w X) by assumption.
  pose proof (c_np_king p HWF m Hleg t Ht) as NP1. fold w oks occ d1 in NP1.
  assert (NP3 : rayDir d1 = true -> d1 = d2 -> (nextPiece p f d1 =? mk_piece (negb w) King) = (N.land (SB f oks) occ =? 0)).
  { intros Hr E. rewrite E. apply (c_np_king p HWF m Hleg f Hf). fold w oks d2. rewrite <- E. exact Hr. }
  pose proof p_clearX as PC. fold t f d1 d2 w oks occ in PC.
  destruct (dir_excl d1) as [XR XB]. unfold rayDir in *.
  destruct (Z.eqb_spec d1 d2) as [Ed|Ed].
  - destruct (isRookDir d1) eqn:Er;
      [destruct (XR eq_refl) as [Eb Ez]; rewrite Eb, Ez in *; cbn [negb orb andb] in *; rewrite (NP1 eq_refl), (NP3 eq_refl Ed)
      | destruct (isBishopDir d1) eqn:Eb;
        [destruct (XB eq_refl) as [_ Ez]; rewrite Ez in *; cbn [negb orb andb] in *; rewrite (NP1 eq_refl), (NP3 eq_refl Ed)
        | cbn [negb orb andb] in *; destruct (d1 =? 0)%Z]];
      try (specialize (PC eq_refl));
      destruct (N.eqb_spec (N.land (SB t oks) occ) 0) as [EC|EC];
      destruct (N.eqb_spec (N.land (SB f oks) occ) 0) as [EC3|EC3];
      cbn [In] in HX; destruct HX as [<-|[<-|[<-|[<-|[]]]]];
      unfold WKING, WQUEEN, WROOK, WBISHOP, WKNIGHT, WPAWN; cbn [N.eqb Pos.eqb orb andb negb];
      intuition (try discriminate; try congruence).
  - destruct (isRookDir d1) eqn:Er;
      [destruct (XR eq_refl) as [Eb Ez]; rewrite Eb, Ez in *; cbn [negb orb andb] in *; rewrite (NP1 eq_refl)
      | destruct (isBishopDir d1) eqn:Eb;
        [destruct (XB eq_refl) as [_ Ez]; rewrite Ez in *; cbn [negb orb andb] in *; rewrite (NP1 eq_refl)
        | cbn [negb orb andb] in *; destruct (d1 =? 0)%Z]];
      try (specialize (PC eq_refl));
      destruct (N.eqb_spec (N.land (SB t oks) occ) 0) as [EC|EC];
      cbn [In] in HX; destruct HX as [<-|[<-|[<-|[<-|[]]]]];
      unfold WKING, WQUEEN, WROOK, WBISHOP, WKNIGHT, WPAWN; cbn [N.eqb Pos.eqb orb andb negb];
      intuition (try discriminate; try congruence).
Qed.

Theorem p_main : givesCheck p m = gives_check_spec (abs p) m.
Proof.
  destruct (c_promo p HWF m Hleg Hpro) as (_ & _ & _ & _ & X & HX & EX). fold w in EX.
  assert (HX6 : In X [1; 2; 3; 4; 5; 6]) by (cbn [In] in HX |- *; tauto).
  rewrite givesCheck_promo.
  - apply eq_true_iff_eq. rewrite p_spec_iff, <- p_r13, <- (c_r2 p HWF m Hleg), !orb_true_iff. tauto.
  - apply N.eqb_neq. exact Hpro.
  - rewrite EX, (makeWhite_my w X HX6). cbn [In] in HX. destruct HX as [<-|[<-|[<-|[<-|[]]]]]; reflexivity.
  - rewrite EX, (makeWhite_my w X HX6). cbn [In] in HX. destruct HX as [<-|[<-|[<-|[<-|[]]]]]; reflexivity.
Qed.
End Promo.

(** C01_givesCheck, promotions *)
Theorem givesCheck_promotion : forall p m, WF p -> legal_spec (abs p) m -> mpromote m <> EMPTY ->
  givesCheck p m = gives_check_spec (abs p) m.
Proof. intros p m H Hl Hp. exact (p_main p H m Hl Hp). Qed.

(** non-vacuity: white pawn b7, black king b1: b7-b8=R checks along the pawn's own file through
    the vacated square b7 (third block of givesCheck); b7-b8=N does not check *)
Definition promoBoard : list piece :=
  [0;BKING;0;0;0;0;0;WKING;  0;0;0;0;0;0;0;0;  0;0;0;0;0;0;0;0;  0;0;0;0;0;0;0;0;
   0;0;0;0;0;0;0;0;  0;0;0;0;0;0;0;0;  0;WPAWN;0;0;0;0;0;0;  0;0;0;0;0;0;0;0].
Definition promoPosition : position := positionOfBoard promoBoard true 0 (-1).
Example givesCheck_promo_examples :
  WF promoPosition /\
  legal_spec (abs promoPosition) (mkMove 49 57 WROOK) /\ givesCheck promoPosition (mkMove 49 57 WROOK) = true /\
  gives_check_spec (abs promoPosition) (mkMove 49 57 WROOK) = true /\
  legal_spec (abs promoPosition) (mkMove 49 57 WKNIGHT) /\ givesCheck promoPosition (mkMove 49 57 WKNIGHT) = false.
Proof.
  split; [vm_compute; reflexivity|]. split; [apply legal_specb_spec; vm_compute; reflexivity|]. split; [vm_compute; reflexivity|].
  split; [vm_compute; reflexivity|]. split; [apply legal_specb_spec; vm_compute; reflexivity | vm_compute; reflexivity].
Qed.
