(** C01_magic, unbounded part: for EVERY occupancy word the magic-table lookup of the model
    (tables built as in staticInitialize from the regenerated magic numbers) returns the
    ray-walk attack set.  Uses the finite sweep of MagicSweep.v plus two general lemmas:
    the ray walk depends on the occupancy only through the relevant-occupancy mask, and every
    subset of the mask is among the swept patterns. *)
From Coq Require Import ZArith NArith List Bool Lia FMapPositive.
From Texel Require Import Chess.Types Chess.BitBoard Chess.Spec Chess.BitBoardProofs Chess.RayProofs
  Chess.MagicSweep gen.BitBoardTables.
Import ListNotations.
Local Open Scope N_scope.

Lemma subsets_complete : forall l sub,
  (forall k, N.testbit sub k = true -> In k l) -> In sub (subsets l).
Proof.
  induction l as [|b t IH]; intros sub H; cbn [subsets].
  - left. symmetry. apply N.bits_inj. intro k. rewrite N.bits_0.
    destruct (N.testbit sub k) eqn:E; [destruct (H k E) | reflexivity].
  - cbv zeta. apply in_app_iff. destruct (N.testbit sub b) eqn:Eb.
    + right. apply in_map_iff. exists (N.ldiff sub (bit b)). split.
      * apply N.bits_inj. intro k. rewrite N.lor_spec, N.ldiff_spec, bit_testbit.
        destruct (N.eqb_spec b k) as [<-|Hne]; [rewrite Eb; reflexivity|].
        cbn [negb orb]. rewrite andb_true_r. reflexivity.
      * apply IH. intros k Hk. rewrite N.ldiff_spec, bit_testbit in Hk.
        apply andb_true_iff in Hk. destruct Hk as [Hk1 Hk2]. apply negb_true_iff, N.eqb_neq in Hk2.
        destruct (H k Hk1) as [->|Hin]; [congruence | exact Hin].
    + left. apply IH. intros k Hk. destruct (H k Hk) as [<-|Hin]; [congruence | exact Hin].
Qed.

Lemma cutAt_ext : forall occ occ' l,
  (forall x, In x (removelast l) -> N.testbit occ x = N.testbit occ' x) -> cutAt occ l = cutAt occ' l.
Proof.
  induction l as [|a l IH]; intros H; [reflexivity|].
  cbn [cutAt]. destruct l as [|a' l'].
  - cbn [cutAt]. destruct (occb occ a), (occb occ' a); reflexivity.
  - assert (Ha : occb occ a = occb occ' a).
    { rewrite !occb_testbit. apply H. cbn [removelast]. left. reflexivity. }
    rewrite Ha. destruct (occb occ' a); [reflexivity|]. f_equal. apply IH.
    intros x Hx. apply H. cbn [removelast] in *. right. exact Hx.
Qed.

Lemma ray_mask_ext : forall (mask : N) (s : square) (d : Z * Z) occ,
  forallb (fun x => N.testbit mask x) (removelast (ray s d)) = true ->
  cutAt (N.land occ mask) (ray s d) = cutAt occ (ray s d).
Proof.
  intros mask s d occ H. apply cutAt_ext. intros x Hx. rewrite forallb_forall in H.
  rewrite N.land_spec, (H x Hx). apply andb_true_r.
Qed.

Theorem rookAttacks_depends_on_mask : forall s occ, s < 64 ->
  rookAttacks s (N.land occ (rMasks s)) = rookAttacks s occ.
Proof.
  intros s occ Hs. pose proof (sweep1 maskOkR maskR_ok s Hs) as H. unfold maskOkR in H.
  apply andb_true_iff in H. destruct H as [_ H]. cbn [rook_dirs forallb] in H. rewrite !andb_true_iff in H.
  destruct H as [H1 [H2 [H3 [H4 _]]]].
  rewrite !rookAttacks_rays. rewrite !ray_mask_ext by assumption. reflexivity.
Qed.

Theorem bishopAttacks_depends_on_mask : forall s occ, s < 64 ->
  bishopAttacks s (N.land occ (bMasks s)) = bishopAttacks s occ.
Proof.
  intros s occ Hs. pose proof (sweep1 maskOkB maskB_ok s Hs) as H. unfold maskOkB in H.
  apply andb_true_iff in H. destruct H as [_ H]. cbn [bishop_dirs forallb] in H. rewrite !andb_true_iff in H.
  destruct H as [H1 [H2 [H3 [H4 _]]]].
  rewrite !bishopAttacks_rays. rewrite !ray_mask_ext by assumption. reflexivity.
Qed.

Lemma land_mask_in_subsets : forall occ mask l, mask = lorBits 0 l -> In (N.land occ mask) (subsets l).
Proof.
  intros occ mask l ->. apply subsets_complete. intros k Hk.
  rewrite N.land_spec, lorBits_testbit, N.bits_0 in Hk. cbn [orb] in Hk.
  apply andb_true_iff in Hk. destruct Hk as [_ Hk]. apply existsb_eqb_In in Hk. exact Hk.
Qed.

(** the table is built (no failed assert, no index outside the table) and the lookup equals the
    ray walk for every occupancy *)
Theorem rookAttacksMagic_correct : forall s occ, s < 64 ->
  rTableOf s <> None /\ rookAttacksMagic s occ = rookAttacks s occ.
Proof.
  intros s occ Hs. pose proof (sweep1 magicOkR magicR_ok s Hs) as H. unfold magicOkR in H.
  unfold rookAttacksMagic, rookAttacksMagicWith, magicLookup.
  destruct (rTableOf s) as [t|]; [|discriminate]. split; [discriminate|].
  cbv zeta in H. rewrite forallb_forall in H.
  pose proof (sweep1 maskOkR maskR_ok s Hs) as Hm. unfold maskOkR in Hm.
  apply andb_true_iff in Hm. destruct Hm as [Hm _]. apply N.eqb_eq in Hm.
  specialize (H (N.land occ (rMasks s)) (land_mask_in_subsets occ (rMasks s) (rMaskSquares s) Hm)).
  apply N.eqb_eq in H. rewrite H. apply rookAttacks_depends_on_mask. exact Hs.
Qed.

Theorem bishopAttacksMagic_correct : forall s occ, s < 64 ->
  bTableOf s <> None /\ bishopAttacksMagic s occ = bishopAttacks s occ.
Proof.
  intros s occ Hs. pose proof (sweep1 magicOkB magicB_ok s Hs) as H. unfold magicOkB in H.
  unfold bishopAttacksMagic, bishopAttacksMagicWith, magicLookup.
  destruct (bTableOf s) as [t|]; [|discriminate]. split; [discriminate|].
  cbv zeta in H. rewrite forallb_forall in H.
  pose proof (sweep1 maskOkB maskB_ok s Hs) as Hm. unfold maskOkB in Hm.
  apply andb_true_iff in Hm. destruct Hm as [Hm _]. apply N.eqb_eq in Hm.
  specialize (H (N.land occ (bMasks s)) (land_mask_in_subsets occ (bMasks s) (bMaskSquares s) Hm)).
  apply N.eqb_eq in H. rewrite H. apply bishopAttacks_depends_on_mask. exact Hs.
Qed.

(** non-vacuity: a full-board occupancy (far outside the swept subsets) on d4 *)
Example magic_d4_full : rookAttacksMagic 27 18446744073709551615 = rookAttacks 27 18446744073709551615
                        /\ rookAttacks 27 18446744073709551615 = 34695806976.
Proof. vm_compute. split; reflexivity. Qed.

Theorem magic_all : forall s occ, s < 64 ->
  rTableOf s <> None /\ bTableOf s <> None /\
  rookAttacksMagic s occ = rookAttacks s occ /\ bishopAttacksMagic s occ = bishopAttacks s occ.
Proof.
  intros s occ Hs. destruct (rookAttacksMagic_correct s occ Hs) as [H1 H2].
  destruct (bishopAttacksMagic_correct s occ Hs) as [H3 H4]. auto.
Qed.
