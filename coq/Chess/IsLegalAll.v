(** C01_isLegal for every well-formed position, with no assumption on the hash / material
    fields: isLegal does not read them and hands them back untouched; its verdict and its
    effect on the board part are those on the "twin" position with recomputed redundant fields,
    where IsLegalFull.isLegal_full applies. *)
From Coq Require Import ZArith NArith List Bool Lia.
From Texel Require Import Chess.Types Chess.Position Chess.PositionSpec Chess.PositionFacts Chess.PositionProofs
  Chess.PositionProofs2 Chess.PositionProofs4 Chess.PositionTheorems Chess.PositionB
  Chess.BitBoard Chess.MoveGen Chess.Spec Chess.MoveGenWF
  Chess.BitBoardProofs Chess.RayProofs Chess.MoveGenProofs Chess.AttackProofs Chess.SliderProofs Chess.PawnProofs
  Chess.PseudoProofs Chess.MakeSpecProofs Chess.TryMoveProofs Chess.CastleProofs Chess.LegalProofs Chess.ShortcutProofs
  Chess.IsLegalProofs Chess.CapturesProofs Chess.NoDupProofs Chess.WfProofs Chess.IsLegalFull Chess.EvasionsIn Chess.CapChecksSub
  gen.BitBoardTables.
Import ListNotations.
Local Open Scope N_scope.

(** isLegal = a test that may decide without touching the position, else make / test / unmake *)
Definition ilTest (pos : position) (m : move) (isInCheck : bool) : option bool :=
  let kSq := kingSq pos (whiteMove pos) in
  let epSq := epSquare pos in
  if isInCheck then
    let early :=
      if negb (mfrom m =? kSq) && negb (Z.of_N (mto m) =? epSq)%Z then
        let occupied := occupiedBB pos in
        let toMask := bit (mto m) in
        let knight := if whiteMove pos then BKNIGHT else WKNIGHT in
        (N.land (rookAttacks kSq occupied) toMask =? 0)
        && (N.land (bishopAttacks kSq occupied) toMask =? 0)
        && (N.land (N.land (knightAttacks kSq) (ptBB pos knight)) toMask =? 0)
      else false in
    if early then Some false else None
  else
    if mfrom m =? kSq then
      let occupied := andn (occupiedBB pos) (bit (mfrom m)) in
      Some (negb (sqAttackedOcc pos (mto m) occupied))
    else
      let early :=
        if negb (Z.of_N (mto m) =? epSq)%Z then
          let occupied := occupiedBB pos in
          let fromMask := bit (mfrom m) in
          if (N.land (rookAttacks kSq occupied) fromMask =? 0) && (N.land (bishopAttacks kSq occupied) fromMask =? 0)
          then true
          else (getDirection kSq (mfrom m) =? getDirection kSq (mto m))%Z
        else false in
      if early then Some true else None.

Lemma isLegal_ilTest : forall pos m c,
  isLegal pos m c = match ilTest pos m c with Some v => (pos, v) | None => tryMoveB pos m end.
Proof.
  intros pos m c. unfold isLegal, ilTest. cbv zeta.
  destruct c.
  - match goal with |- (if ?e then _ else _) = _ => destruct e end; reflexivity.
  - destruct (mfrom m =? kingSq pos (whiteMove pos)); [reflexivity|].
    match goal with |- (if ?e then _ else _) = _ => destruct e end; reflexivity.
Qed.

Lemma ilTest_twin : forall p m c, ilTest (twin p) m c = ilTest p m c.
Proof. reflexivity. Qed.

Lemma inCheck_dep : forall x y, bbpart x = bbpart y -> whiteMove x = whiteMove y -> inCheck x = inCheck y.
Proof.
  intros x y E Ew. destruct (bbpart_eq_fields _ _ E) as (Es & Ebb & Ewb & Ebk).
  unfold inCheck, sqAttacked, sqAttackedOcc, sqAttackedT, kingSq, ptBB, occupiedBB. rewrite Ebb, Ewb, Ebk, Ew. reflexivity.
Qed.

Lemma updN0_tl : forall (l1 l2 : list N) x y, updN 0 x l1 = updN 0 y l2 -> tl l1 = tl l2.
Proof. intros [|a l1] [|c l2] x y H; cbn in H; try discriminate; [reflexivity | injection H; auto]. Qed.

Lemma tryMoveB_unfold : forall p m,
  tryMoveB p m = (unMakeMoveB (fst (makeMoveB p m)) m (snd (makeMoveB p m)), negb (inCheck (fst (makeMoveB p m)))).
Proof. intros. unfold tryMoveB. destruct (makeMoveB p m) as [x ui]. reflexivity. Qed.

Lemma pl_dep : forall sq bb wb kb wm hc fc cm ep h1 h2 h3 h4 h5 h6 h7 g1 g2 g3 g4 g5 g6 g7,
  pseudoLegalMoves (mkPos sq bb wb kb wm hc fc cm ep h1 h2 h3 h4 h5 h6 h7) =
  pseudoLegalMoves (mkPos sq bb wb kb wm hc fc cm ep g1 g2 g3 g4 g5 g6 g7).
Proof.
  intros.
  unfold pseudoLegalMoves, pseudoLegalMovesT, queenBlock, rookBlock, bishopBlock, kingBlock, knightBlock, pawnBlock, castleMoves, kingSq,
    sqAttacked, sqAttackedOcc, sqAttackedT, epMaskOf, ptBB, occupiedBB, colorBB, getPiece.
  cbn [squares pieceTypeBB whiteBB blackBB whiteMove castleMask epSquare]. reflexivity.
Qed.

Lemma twin_pseudo_eq : forall p, pseudoLegalMoves (twin p) = pseudoLegalMoves p.
Proof. intros [sq bb wb kb wm hc fc cm ep h1 h2 h3 h4 h5 h6 h7]. unfold twin. cbn [squares pieceTypeBB whiteBB blackBB whiteMove halfMoveClock fullMoveCounter castleMask epSquare]. apply pl_dep. Qed.

Section Transfer.
Variable p : position.
Hypothesis HWF : WF p.
Variable m : move.
Hypothesis Hm : In m (pseudoLegalMoves p).
Let p' := twin p.

Lemma Hok' : moveOk p m = true.
Proof. exact (proj1 (proj2 (pseudo_move_good p HWF m Hm))). Qed.

Lemma twin_WF : WF p'.
Proof. exact HWF. Qed.

Lemma twin_pseudo : In m (pseudoLegalMoves p').
Proof. unfold p'. rewrite twin_pseudo_eq. exact Hm. Qed.

Lemma made_dep : bbpart (fst (makeMoveB p m)) = bbpart (fst (makeMoveB p' m)).
Proof. apply makeMoveB_bbpart_dep; reflexivity. Qed.

Lemma tryMoveB_verdict_twin : snd (tryMoveB p m) = snd (tryMoveB p' m).
Proof.
  rewrite !tryMoveB_unfold. cbn [snd]. f_equal. apply inCheck_dep; [exact made_dep|].
  transitivity (whiteMove p); [apply rest_eq_whiteMove, rest_makeMoveB|].
  symmetry. apply (rest_eq_whiteMove (fst (makeMoveB p' m)) p'). apply rest_makeMoveB.
Qed.

(** the position handed back by the make / test / unmake path *)
Lemma tryMoveB_same : samePosition (fst (tryMoveB p m)) p.
Proof.
  pose proof Hok' as Hok. pose proof (twin_consistent p HWF) as C'. fold p' in C'.
  pose proof (unmake_make zkDummy zkDummy_empty p' m C' Hok) as Hun.
  set (q := fst (makeMove zkDummy p' m)) in *. set (ui := snd (makeMove zkDummy p' m)) in *.
  pose proof (makeMove_consistent zkDummy zkDummy_empty p' m C' Hok) as Cq. fold q in Cq.
  pose proof (moveOk_facts p m Hok) as F. cbv zeta in F. destruct F as (Hf & Ht & Hne & _).
  rewrite tryMoveB_unfold. cbn [fst].
  set (x := fst (makeMoveB p m)). set (uix := snd (makeMoveB p m)).
  assert (E1 : bbpart (unMakeMoveB x m uix) = bbpart (unMakeMove zkDummy q m ui)).
  { apply unMakeMoveB_sim.
    - unfold x, q. rewrite made_dep. apply (makeMoveB_simulates zkDummy p' m Hok).
    - unfold x. rewrite (rest_eq_whiteMove _ p) by apply rest_makeMoveB.
      unfold q. rewrite makeMove_fst. unfold mmEpilogue. cbv zeta. cbn [whiteMove set_whiteMove]. symmetry. apply negb_involutive.
    - unfold x. rewrite (rest_eq_epSquare _ p) by apply rest_makeMoveB. reflexivity.
    - reflexivity.
    - exact Hne.
    - destruct Cq; auto.
    - destruct Cq; auto.
    - change (getPiece p' (mto m) < 13). apply getPiece_lt. destruct C'; auto. }
  assert (Er : rest (unMakeMoveB x m uix) = rest p).
  { rewrite rest_unMakeMoveB. apply rest_makeMoveB. }
  destruct (bbpart_eq_fields _ _ E1) as (Is & Ibb & Iw & Ib).
  pose proof (normEmpty_fields _ _ Hun) as (Fs & _ & Fw & Fb & _).
  assert (Ftl : tl (pieceTypeBB (unMakeMove zkDummy q m ui)) = tl (pieceTypeBB p')).
  { unfold normEmpty in Hun. apply (f_equal pieceTypeBB) in Hun. cbn [pieceTypeBB set_pieceTypeBB] in Hun. exact (updN0_tl _ _ _ _ Hun). }
  unfold rest in Er. inversion Er.
  unfold samePosition. rewrite Is, Ibb, Iw, Ib, Fs, Ftl, Fw, Fb. repeat split; assumption || reflexivity.
Qed.

Theorem isLegal_any :
  snd (isLegal p m (inCheck p)) = legal_specb (abs p) m /\ samePosition (fst (isLegal p m (inCheck p))) p.
Proof.
  pose proof (isLegal_full zkDummy zkDummy_empty p' twin_WF (twin_consistent p HWF) m twin_pseudo) as [Hv _].
  change (inCheck p') with (inCheck p) in Hv. change (abs p') with (abs p) in Hv.
  rewrite isLegal_ilTest in Hv |- *. unfold p' in Hv. rewrite ilTest_twin in Hv.
  destruct (ilTest p m (inCheck p)) as [v|].
  - cbn [fst snd] in *. split; [exact Hv|]. unfold samePosition. repeat split; reflexivity.
  - split; [rewrite tryMoveB_verdict_twin; exact Hv | exact tryMoveB_same].
Qed.
End Transfer.

(** C01_isLegal *)
Theorem isLegal_all : forall p m, WF p ->
  (In m (pseudoLegalMoves p) \/ In m (checkEvasions p) \/ In m (pseudoLegalCapturesAndChecks p) \/ In m (pseudoLegalCaptures p)) ->
  snd (isLegal p m (inCheck p)) = legal_specb (abs p) m /\ samePosition (fst (isLegal p m (inCheck p))) p.
Proof.
  intros p m H Hgen. apply (isLegal_any p H m).
  destruct Hgen as [Hm|[Hm|[Hm|Hm]]];
    [exact Hm | exact (evasions_sub p H m Hm) | exact (capchecks_sub p H m Hm) | exact (caps_sub p H m Hm)].
Qed.

(** non-vacuity: in the pinned-e.p. position isLegal rejects the pseudo-legal capture f4xe3 and
    accepts the king move Kh4-g5, handing the position back *)
Example isLegal_epPin :
  In (mkMove 29 20 EMPTY) (pseudoLegalMoves epPinPosition) /\ snd (isLegal epPinPosition (mkMove 29 20 EMPTY) (inCheck epPinPosition)) = false /\
  In (mkMove 31 38 EMPTY) (pseudoLegalMoves epPinPosition) /\ snd (isLegal epPinPosition (mkMove 31 38 EMPTY) (inCheck epPinPosition)) = true.
Proof. vm_compute. intuition. Qed.
