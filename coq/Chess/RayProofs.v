(** The ray-walk lemma: a square is in rookAttacks/bishopAttacks s occ iff it is aligned with s
    (on a rank/file resp. a diagonal) and no square strictly between them is occupied.
    Structure: (1) addRay = "or" of the bits of the ray's square list cut at the first occupied
    square (induction on the walk, any occupancy); (2) a finite sweep over 64 squares x 8
    directions x ray index relating the square lists to alignment and to squaresBetween. *)
From Coq Require Import ZArith NArith List Bool Lia.
From Texel Require Import Chess.Types Chess.BitBoard Chess.Spec Chess.BitBoardProofs gen.BitBoardTables.
Import ListNotations.
Local Open Scope Z_scope.

(** * The squares of a ray, with the control structure of addRay *)
Fixpoint rayList (fuel : nat) (x y dx dy : Z) (inner : bool) : list square :=
  match fuel with
  | O => []
  | S k =>
      let lo := if inner then 1 else 0 in
      let hi := if inner then 6 else 7 in
      let x' := if dx =? 0 then x else x + dx in
      if negb (dx =? 0) && ((x' <? lo) || (x' >? hi)) then [] else
      let y' := if dy =? 0 then y else y + dy in
      if negb (dy =? 0) && ((y' <? lo) || (y' >? hi)) then [] else
      Z.to_N (y' * 8 + x') :: rayList k x' y' dx dy inner
  end.

Definition occb (occ : N) (sq : square) : bool := negb (N.land occ (bit sq) =? 0)%N.

Fixpoint cutAt (occ : N) (l : list square) : list square :=
  match l with
  | [] => []
  | sq :: t => if occb occ sq then [sq] else sq :: cutAt occ t
  end.

Definition lorBits (mask : N) (l : list square) : N := fold_left (fun m sq => N.lor m (bit sq)) l mask.

Lemma addRay_cut : forall fuel mask x y dx dy occ inner,
  addRay fuel mask x y dx dy occ inner = lorBits mask (cutAt occ (rayList fuel x y dx dy inner)).
Proof.
  induction fuel as [|k IH]; intros mask x y dx dy occ inner.
  - reflexivity.
  - cbn [addRay rayList].
    destruct (negb (dx =? 0) && _); [reflexivity|].
    destruct (negb (dy =? 0) && _); [reflexivity|].
    cbn [cutAt]. unfold occb at 1.
    destruct (negb (N.land occ _ =? 0)%N).
    + reflexivity.
    + rewrite IH. reflexivity.
Qed.

(** * Bits of lorBits *)
Lemma bit_testbit : forall sq k, N.testbit (bit sq) k = (sq =? k)%N.
Proof. intros. unfold bit. rewrite N.shiftl_1_l. apply N.pow2_bits_eqb. Qed.

Lemma lorBits_testbit : forall l mask k,
  N.testbit (lorBits mask l) k = N.testbit mask k || existsb (N.eqb k) l.
Proof.
  induction l as [|a l IH]; intros mask k; unfold lorBits; cbn [fold_left existsb].
  - rewrite orb_false_r. reflexivity.
  - fold (lorBits (N.lor mask (bit a)) l). rewrite IH, N.lor_spec, bit_testbit.
    rewrite (N.eqb_sym k a). rewrite orb_assoc. reflexivity.
Qed.

Lemma lorBits_app : forall l1 l2 mask, lorBits (lorBits mask l1) l2 = lorBits mask (l1 ++ l2).
Proof. intros. unfold lorBits. rewrite fold_left_app. reflexivity. Qed.

Lemma occb_testbit : forall occ sq, occb occ sq = N.testbit occ sq.
Proof.
  intros. unfold occb.
  destruct (N.testbit occ sq) eqn:E.
  - apply negb_true_iff. apply N.eqb_neq. intro H.
    assert (N.testbit (N.land occ (bit sq)) sq = false) by (rewrite H; apply N.bits_0).
    rewrite N.land_spec, E, bit_testbit, N.eqb_refl in H0. discriminate.
  - apply negb_false_iff. apply N.eqb_eq. apply N.bits_inj. intro k.
    rewrite N.land_spec, bit_testbit, N.bits_0.
    destruct (N.eqb_spec sq k) as [->|]; [rewrite E; reflexivity | apply andb_false_r].
Qed.

Lemma land_lorBits_0 : forall l occ,
  N.land (lorBits 0 l) occ = 0%N <-> forall x, In x l -> N.testbit occ x = false.
Proof.
  intros l occ. split.
  - intros H x Hin.
    assert (Hb : N.testbit (N.land (lorBits 0 l) occ) x = false) by (rewrite H; apply N.bits_0).
    rewrite N.land_spec, lorBits_testbit, N.bits_0 in Hb. cbn [orb] in Hb.
    assert (He : existsb (N.eqb x) l = true).
    { apply existsb_exists. exists x. split; [exact Hin | apply N.eqb_refl]. }
    rewrite He in Hb. exact Hb.
  - intros H. apply N.bits_inj. intro k. rewrite N.land_spec, lorBits_testbit, !N.bits_0. cbn [orb].
    destruct (existsb (N.eqb k) l) eqn:E; [|reflexivity].
    apply existsb_exists in E. destruct E as [x [Hin Hx]]. apply N.eqb_eq in Hx. subst x.
    rewrite (H k Hin). reflexivity.
Qed.

(** * cutAt *)
Lemma cutAt_In : forall occ l t, In t (cutAt occ l) ->
  exists i, (i < length l)%nat /\ nth i l 64%N = t /\
            forall j, (j < i)%nat -> N.testbit occ (nth j l 64%N) = false.
Proof.
  induction l as [|a l IH]; intros t Hin; cbn [cutAt] in Hin.
  - destruct Hin.
  - destruct (occb occ a) eqn:E.
    + destruct Hin as [<-|[]]. exists 0%nat. cbn. repeat split; [lia | intros; lia].
    + destruct Hin as [<-|Hin].
      * exists 0%nat. cbn. repeat split; [lia | intros; lia].
      * destruct (IH t Hin) as [i [Hi [Hn Hj]]]. exists (S i). cbn [length nth]. repeat split; [lia | exact Hn |].
        intros j Hlt. destruct j as [|j]; cbn [nth].
        -- rewrite <- occb_testbit. exact E.
        -- apply Hj. lia.
Qed.

Lemma cutAt_nth : forall occ l i, (i < length l)%nat ->
  (forall j, (j < i)%nat -> N.testbit occ (nth j l 64%N) = false) -> In (nth i l 64%N) (cutAt occ l).
Proof.
  induction l as [|a l IH]; intros i Hi Hj; cbn [length] in Hi.
  - lia.
  - cbn [cutAt]. destruct i as [|i].
    + cbn [nth]. destruct (occb occ a); left; reflexivity.
    + assert (E : occb occ a = false) by (rewrite occb_testbit; apply (Hj 0%nat); lia).
      rewrite E. right. cbn [nth]. apply IH; [lia|]. intros j Hlt. apply (Hj (S j)). lia.
Qed.

Lemma cutAt_incl : forall occ l t, In t (cutAt occ l) -> In t l.
Proof.
  induction l as [|a l IH]; intros t H; cbn [cutAt] in H; [exact H|].
  destruct (occb occ a); destruct H as [<-|H]; try (left; reflexivity); [destruct H | right; apply IH, H].
Qed.

Lemma nth_firstn_lt : forall (A : Type) (l : list A) i j d, (j < i)%nat -> nth j (firstn i l) d = nth j l d.
Proof.
  intros A l. induction l as [|a l IH]; intros i j d H.
  - rewrite firstn_nil. reflexivity.
  - destruct i as [|i]; [lia|]. cbn [firstn]. destruct j as [|j]; cbn [nth]; [reflexivity|]. apply IH. lia.
Qed.

Lemma In_firstn_nth : forall (l : list square) i j, (j < i)%nat -> (i <= length l)%nat ->
  In (nth j l 64%N) (firstn i l).
Proof.
  induction l as [|a l IH]; intros i j H1 H2; cbn [length] in H2.
  - lia.
  - destruct i as [|i]; [lia|]. cbn [firstn]. destruct j as [|j]; cbn [nth].
    + left. reflexivity.
    + right. apply IH; lia.
Qed.

(** * The finite sweep: ray lists vs alignment and squaresBetween *)
Definition ray (s : square) (d : Z * Z) : list square := rayList rayFuel (zX s) (zY s) (fst d) (snd d) false.

Definition sliderRayP (dirs : list (Z * Z)) (al : square -> square -> bool) (s : square) : bool :=
  forallb (fun d => let l := ray s d in
             forallb (fun i => let t := nth i l 64%N in
                               (t <? 64)%N && al s t && (squaresBetween s t =? lorBits 0 (firstn i l))%N)
                     (seq 0 (length l))) dirs
  && forallb (fun t => implb (al s t) (existsb (fun d => existsb (N.eqb t) (ray s d)) dirs)) allSquares.

Lemma rookRay_ok : forallb (sliderRayP rook_dirs rookAligned) allSquares = true.
Proof. vm_compute. reflexivity. Qed.
Lemma bishopRay_ok : forallb (sliderRayP bishop_dirs bishopAligned) allSquares = true.
Proof. vm_compute. reflexivity. Qed.

Section Slider.
Variable dirs : list (Z * Z).
Variable al : square -> square -> bool.
Hypothesis sweep : forallb (sliderRayP dirs al) allSquares = true.

Lemma ray_index_facts : forall (s : square) d i, (s < 64)%N -> In d dirs -> (i < length (ray s d))%nat ->
  (nth i (ray s d) 64 < 64)%N /\ al s (nth i (ray s d) 64%N) = true /\
  squaresBetween s (nth i (ray s d) 64%N) = lorBits 0 (firstn i (ray s d)).
Proof.
  intros s d i Hs Hd Hi. pose proof (sweep1 _ sweep s Hs) as H. unfold sliderRayP in H.
  apply andb_true_iff in H. destruct H as [H _]. rewrite forallb_forall in H. specialize (H d Hd).
  cbv zeta in H. rewrite forallb_forall in H. specialize (H i). rewrite in_seq in H.
  assert (Hr : (0 <= i < 0 + length (ray s d))%nat) by lia. apply H in Hr.
  rewrite !andb_true_iff in Hr. destruct Hr as [[H1 H2] H3].
  apply N.ltb_lt in H1. apply N.eqb_eq in H3. auto.
Qed.

Lemma aligned_in_ray : forall s t : square, (s < 64)%N -> (t < 64)%N -> al s t = true ->
  exists d, In d dirs /\ In t (ray s d).
Proof.
  intros s t Hs Ht Hal. pose proof (sweep1 _ sweep s Hs) as H. unfold sliderRayP in H.
  apply andb_true_iff in H. destruct H as [_ H].
  pose proof (sweep1 _ H t Ht) as H'. cbv beta in H'. rewrite Hal in H'. cbn [implb] in H'.
  apply existsb_exists in H'. destruct H' as [d [Hd He]]. exists d. split; [exact Hd|].
  apply existsb_exists in He. destruct He as [x [Hx Hxe]]. apply N.eqb_eq in Hxe. subst x. exact Hx.
Qed.

(** membership in the union of the cut rays *)
Lemma cut_rays_spec : forall (s t : square) occ, (s < 64)%N -> (t < 64)%N ->
  (exists d, In d dirs /\ In t (cutAt occ (ray s d))) <->
  (al s t = true /\ N.land (squaresBetween s t) occ = 0%N).
Proof.
  intros s t occ Hs Ht. split.
  - intros [d [Hd Hin]]. apply cutAt_In in Hin. destruct Hin as [i [Hi [Hn Hj]]].
    destruct (ray_index_facts s d i Hs Hd Hi) as [_ [Hal Hb]]. rewrite Hn in Hal, Hb. split; [exact Hal|].
    rewrite Hb. apply land_lorBits_0. intros x Hx.
    apply (@In_nth square _ _ 64%N) in Hx. destruct Hx as [j [Hjl Hjn]].
    rewrite firstn_length in Hjl.
    assert (Hji : (j < i)%nat) by lia.
    rewrite <- Hjn. rewrite nth_firstn_lt by exact Hji. apply Hj. exact Hji.
  - intros [Hal Hz]. destruct (aligned_in_ray s t Hs Ht Hal) as [d [Hd Hin]]. exists d. split; [exact Hd|].
    apply (@In_nth square _ _ 64%N) in Hin. destruct Hin as [i [Hi Hn]].
    destruct (ray_index_facts s d i Hs Hd Hi) as [_ [_ Hb]]. rewrite Hn in Hb.
    rewrite <- Hn. apply cutAt_nth; [exact Hi|].
    intros j Hj. rewrite Hb in Hz. rewrite land_lorBits_0 in Hz. apply Hz.
    apply In_firstn_nth; lia.
Qed.

(** every ray square is a board square *)
Lemma ray_lt64 : forall s d t, (s < 64)%N -> In d dirs -> In t (ray s d) -> (t < 64)%N.
Proof.
  intros s d t Hs Hd Hin. apply (@In_nth square _ _ 64%N) in Hin. destruct Hin as [i [Hi Hn]].
  destruct (ray_index_facts s d i Hs Hd Hi) as [H _]. rewrite Hn in H. exact H.
Qed.

End Slider.

(** * rookAttacks / bishopAttacks *)
Lemma rookAttacks_rays : forall s occ,
  rookAttacks s occ = lorBits 0 (cutAt occ (ray s (1, 0)) ++ cutAt occ (ray s (-1, 0))
                                 ++ cutAt occ (ray s (0, 1)) ++ cutAt occ (ray s (0, -1))).
Proof.
  intros. unfold rookAttacks, addRookRays. cbv zeta. rewrite !addRay_cut. rewrite !lorBits_app.
  rewrite <- ?app_assoc. reflexivity.
Qed.

Lemma bishopAttacks_rays : forall s occ,
  bishopAttacks s occ = lorBits 0 (cutAt occ (ray s (1, 1)) ++ cutAt occ (ray s (-1, -1))
                                   ++ cutAt occ (ray s (1, -1)) ++ cutAt occ (ray s (-1, 1))).
Proof.
  intros. unfold bishopAttacks, addBishopRays. cbv zeta. rewrite !addRay_cut. rewrite !lorBits_app.
  rewrite <- ?app_assoc. reflexivity.
Qed.

Lemma in_four : forall (f : Z * Z -> list square) a b c d t,
  In t (f a ++ f b ++ f c ++ f d) <-> exists x, In x [a; b; c; d] /\ In t (f x).
Proof.
  intros. rewrite !in_app_iff. split.
  - intros [H|[H|[H|H]]]; [exists a | exists b | exists c | exists d]; (split; [cbn; tauto | exact H]).
  - intros [x [Hx Ht]]. cbn in Hx. destruct Hx as [<-|[<-|[<-|[<-|[]]]]]; tauto.
Qed.

Lemma existsb_eqb_In : forall t l, existsb (N.eqb t) l = true <-> In t l.
Proof.
  intros. rewrite existsb_exists. split.
  - intros [x [Hx He]]. apply N.eqb_eq in He. subst. exact Hx.
  - intros H. exists t. split; [exact H | apply N.eqb_refl].
Qed.

Theorem rookAttacks_spec : forall s t occ, (s < 64)%N -> (t < 64)%N ->
  (N.testbit (rookAttacks s occ) t = true <->
   rookAligned s t = true /\ N.land (squaresBetween s t) occ = 0%N).
Proof.
  intros s t occ Hs Ht. rewrite rookAttacks_rays, lorBits_testbit, N.bits_0. cbn [orb].
  rewrite existsb_eqb_In. rewrite (in_four (fun d => cutAt occ (ray s d))).
  apply (cut_rays_spec rook_dirs rookAligned rookRay_ok s t occ Hs Ht).
Qed.

Theorem bishopAttacks_spec : forall s t occ, (s < 64)%N -> (t < 64)%N ->
  (N.testbit (bishopAttacks s occ) t = true <->
   bishopAligned s t = true /\ N.land (squaresBetween s t) occ = 0%N).
Proof.
  intros s t occ Hs Ht. rewrite bishopAttacks_rays, lorBits_testbit, N.bits_0. cbn [orb].
  rewrite existsb_eqb_In. rewrite (in_four (fun d => cutAt occ (ray s d))).
  apply (cut_rays_spec bishop_dirs bishopAligned bishopRay_ok s t occ Hs Ht).
Qed.

(** the attack sets contain board squares only *)
Theorem rookAttacks_in_board : forall s t occ, (s < 64)%N -> N.testbit (rookAttacks s occ) t = true -> (t < 64)%N.
Proof.
  intros s t occ Hs H. rewrite rookAttacks_rays, lorBits_testbit, N.bits_0 in H. cbn [orb] in H.
  rewrite existsb_eqb_In in H. rewrite (in_four (fun d => cutAt occ (ray s d))) in H.
  destruct H as [d [Hd Hin]]. apply cutAt_incl in Hin. exact (ray_lt64 rook_dirs rookAligned rookRay_ok s d t Hs Hd Hin).
Qed.

Theorem bishopAttacks_in_board : forall s t occ, (s < 64)%N -> N.testbit (bishopAttacks s occ) t = true -> (t < 64)%N.
Proof.
  intros s t occ Hs H. rewrite bishopAttacks_rays, lorBits_testbit, N.bits_0 in H. cbn [orb] in H.
  rewrite existsb_eqb_In in H. rewrite (in_four (fun d => cutAt occ (ray s d))) in H.
  destruct H as [d [Hd Hin]]. apply cutAt_incl in Hin. exact (ray_lt64 bishop_dirs bishopAligned bishopRay_ok s d t Hs Hd Hin).
Qed.

(** non-vacuity: a rook on d4 with blockers on d6 and f4 *)
Example rook_d4 : rookAttacks 27%N (N.lor (bit 43%N) (bit 29%N)) =
  fold_left N.lor (map bit [26; 25; 24; 28; 29; 35; 43; 19; 11; 3]%N) 0%N.
Proof. vm_compute. reflexivity. Qed.

Theorem rays_all : forall s t occ, (s < 64)%N ->
  ((t < 64)%N -> (N.testbit (rookAttacks s occ) t = true <->
              rookAligned s t = true /\ N.land (squaresBetween s t) occ = 0%N)) /\
  ((t < 64)%N -> (N.testbit (bishopAttacks s occ) t = true <->
              bishopAligned s t = true /\ N.land (squaresBetween s t) occ = 0%N)) /\
  (N.testbit (rookAttacks s occ) t = true -> (t < 64)%N) /\
  (N.testbit (bishopAttacks s occ) t = true -> (t < 64)%N).
Proof.
  intros s t occ Hs. split; [|split; [|split]].
  - intro Ht. apply rookAttacks_spec; assumption.
  - intro Ht. apply bishopAttacks_spec; assumption.
  - apply rookAttacks_in_board; assumption.
  - apply bishopAttacks_in_board; assumption.
Qed.
