From Coq Require Import ZArith NArith List Bool Lia.
From Texel Require Import Chess.Types Chess.Position Chess.PositionSpec Chess.Fen Chess.PositionInst
  Chess.PositionExamples Chess.PositionFen.
Import ListNotations.
Local Open Scope N_scope.

(** non-vacuity of C02_fen_roundtrip *)
Example startPos_acceptable : fenAcceptable zk0 startPos.
Proof.
  split; [exact startPos_consistent|]. split; [vm_compute; reflexivity|]. split; [vm_compute; reflexivity|].
  split.
  { intros s H.
    assert (E : s = 0 \/ s = 1 \/ s = 2 \/ s = 3 \/ s = 4 \/ s = 5 \/ s = 6 \/ s = 7 \/ s = 56 \/ s = 57 \/
                s = 58 \/ s = 59 \/ s = 60 \/ s = 61 \/ s = 62 \/ s = 63) by lia.
    repeat (destruct E as [->|E]; [split; vm_compute; discriminate|]). subst. split; vm_compute; discriminate. }
  split; [vm_compute; reflexivity|]. split; [vm_compute; reflexivity|]. split; [vm_compute; reflexivity|].
  assert (H1 : halfMoveClock startPos = 0%Z) by (vm_compute; reflexivity).
  assert (H2 : fullMoveCounter startPos = 1%Z) by (vm_compute; reflexivity).
  rewrite H1, H2. unfold INT_MAX. split; [lia|]. split; [lia|]. left. vm_compute. reflexivity.
Qed.
